/-
Laws of the modelled JSON codec of the `filter` parameter (Model/FilterJson.lean):

* `decodeAny` is idempotent when the number formatter is (`decodeAny_idem`): a value decoded
  into an `any` and marshaled is a fixed point of decode-then-marshal;
* what `Filter.UnmarshalJSON` returns is well formed (`filterOfJson_wf`): a filter list under
  `and` / `or` exactly, a cleared field there, a normalised `any` value elsewhere;
* a well-formed filter is recovered from its own JSON (`filterOfJson_filterToJson`);
* the reader only returns trees whose number literals are JSON numbers (`parseJson_numsOk`),
  so the canonical text parses back to the tree it was rendered from;
* Go's string encoder with its U+FFFD replacement (`goStrBody`) writes what the model's
  encoder (`renderStrBody`) writes on every well-formed UTF-8 string (`goStrBody_valid`).
-/
import Jsonapi.Model.FilterJson
import Jsonapi.Proofs.JsonTextLemmas
namespace Jsonapi
namespace FjL
open Spec

/-! ### byte strings in order -/

theorem lt_of_not_lt_of_ne {a b : GoString} (h1 : ¬ a < b) (h2 : a ≠ b) : b < a := by
  have h3 : b ≤ a := List.not_lt.1 h1
  rcases List.le_iff_lt_or_eq.1 h3 with h | h
  · exact h
  · exact absurd h.symm h2

/-- `k` is below the first key (if any) -/
def KeyLtHead (k : GoString) : List (GoString × Json) → Prop
  | [] => True
  | (k', _) :: _ => k < k'

/-- keys strictly increasing -/
def SortedKeys : List (GoString × Json) → Prop
  | [] => True
  | (k, _) :: rest => KeyLtHead k rest ∧ SortedKeys rest

theorem insAbsent_of_keyLtHead (k : GoString) (v : Json) (l : List (GoString × Json))
    (h : KeyLtHead k l) : insAbsent k v l = (k, v) :: l := by
  cases l with
  | nil => rfl
  | cons p rest =>
    obtain ⟨k', v'⟩ := p
    simp only [KeyLtHead] at h
    simp only [insAbsent, if_pos h]

theorem keyLtHead_insAbsent (a k : GoString) (v : Json) (l : List (GoString × Json))
    (hl : KeyLtHead a l) (hk : a < k) : KeyLtHead a (insAbsent k v l) := by
  cases l with
  | nil => exact hk
  | cons p rest =>
    obtain ⟨k', v'⟩ := p
    simp only [KeyLtHead] at hl
    simp only [insAbsent]
    by_cases h1 : k < k'
    · rw [if_pos h1]; exact hk
    · rw [if_neg h1]
      by_cases h2 : k = k'
      · rw [if_pos h2]; exact hl
      · rw [if_neg h2]; exact hl

theorem sortedKeys_insAbsent (k : GoString) (v : Json) (l : List (GoString × Json))
    (h : SortedKeys l) : SortedKeys (insAbsent k v l) := by
  induction l with
  | nil => exact ⟨trivial, trivial⟩
  | cons p rest ih =>
    obtain ⟨k', v'⟩ := p
    simp only [SortedKeys] at h
    simp only [insAbsent]
    by_cases h1 : k < k'
    · rw [if_pos h1]
      exact ⟨h1, h.1, h.2⟩
    · rw [if_neg h1]
      by_cases h2 : k = k'
      · rw [if_pos h2]; exact ⟨h.1, h.2⟩
      · rw [if_neg h2]
        exact ⟨keyLtHead_insAbsent k' k v rest h.1 (lt_of_not_lt_of_ne h1 h2), ih h.2⟩

theorem mem_insAbsent (k : GoString) (v : Json) (l : List (GoString × Json))
    (p : GoString × Json) (h : p ∈ insAbsent k v l) : p = (k, v) ∨ p ∈ l := by
  induction l with
  | nil =>
    simp only [insAbsent, List.mem_singleton] at h
    exact .inl h
  | cons q rest ih =>
    obtain ⟨k', v'⟩ := q
    simp only [insAbsent] at h
    by_cases h1 : k < k'
    · rw [if_pos h1] at h
      rcases List.mem_cons.1 h with h | h
      · exact .inl h
      · exact .inr h
    · rw [if_neg h1] at h
      by_cases h2 : k = k'
      · rw [if_pos h2] at h; exact .inr h
      · rw [if_neg h2] at h
        rcases List.mem_cons.1 h with h | h
        · exact .inr (h ▸ List.mem_cons_self)
        · rcases ih h with h | h
          · exact .inl h
          · exact .inr (List.mem_cons_of_mem _ h)

/-! ### `decodeAny` is idempotent -/

theorem decodeAnyMembers_sorted (nc : GoString → GoString) (ms : List (GoString × Json)) :
    SortedKeys (decodeAnyMembers nc ms) := by
  induction ms with
  | nil => exact trivial
  | cons p ms ih =>
    obtain ⟨k, v⟩ := p
    rw [decodeAnyMembers]
    exact sortedKeys_insAbsent _ _ _ ih

/-- a sorted member list whose values are already normalised is its own map -/
theorem decodeAnyMembers_fixed (nc : GoString → GoString) (l : List (GoString × Json))
    (hs : SortedKeys l) (hv : ∀ p ∈ l, decodeAny nc p.2 = p.2) : decodeAnyMembers nc l = l := by
  induction l with
  | nil => rfl
  | cons p rest ih =>
    obtain ⟨k, v⟩ := p
    simp only [SortedKeys] at hs
    rw [decodeAnyMembers, ih hs.2 (fun q hq => hv q (List.mem_cons_of_mem _ hq)),
      hv (k, v) List.mem_cons_self]
    exact insAbsent_of_keyLtHead k v rest hs.1

mutual
theorem decodeAny_idem (nc : GoString → GoString) (hnc : ∀ x, nc (nc x) = nc x) (j : Json) :
    decodeAny nc (decodeAny nc j) = decodeAny nc j :=
  match j with
  | .null => by simp only [decodeAny]
  | .bool _ => by simp only [decodeAny]
  | .num lit => by simp only [decodeAny, hnc]
  | .str _ => by simp only [decodeAny]
  | .arr l => by
    simp only [decodeAny]
    rw [decodeAnyList_idem nc hnc l]
  | .obj ms => by
    simp only [decodeAny]
    rw [decodeAnyMembers_fixed nc _ (decodeAnyMembers_sorted nc ms)
      (decodeAnyMembers_vals nc hnc ms)]
theorem decodeAnyList_idem (nc : GoString → GoString) (hnc : ∀ x, nc (nc x) = nc x)
    (l : List Json) : decodeAnyList nc (decodeAnyList nc l) = decodeAnyList nc l :=
  match l with
  | [] => by simp only [decodeAnyList]
  | v :: vs => by
    simp only [decodeAnyList]
    rw [decodeAny_idem nc hnc v, decodeAnyList_idem nc hnc vs]
theorem decodeAnyMembers_vals (nc : GoString → GoString) (hnc : ∀ x, nc (nc x) = nc x)
    (ms : List (GoString × Json)) :
    ∀ p ∈ decodeAnyMembers nc ms, decodeAny nc p.2 = p.2 :=
  match ms with
  | [] => by
    intro p hp
    simp only [decodeAnyMembers] at hp
    cases hp
  | (k, v) :: ms => by
    intro p hp
    rw [decodeAnyMembers] at hp
    rcases mem_insAbsent _ _ _ _ hp with h | h
    · rw [h]; exact decodeAny_idem nc hnc v
    · exact decodeAnyMembers_vals nc hnc ms p h
end

/-! ### number literals -/

theorem numsOkMembers_insAbsent (k : GoString) (v : Json) (l : List (GoString × Json))
    (hv : v.numsOk = true) (hl : Json.numsOkMembers l = true) :
    Json.numsOkMembers (insAbsent k v l) = true := by
  induction l with
  | nil => simp only [insAbsent, Json.numsOkMembers, hv, Bool.and_self]
  | cons p rest ih =>
    obtain ⟨k', v'⟩ := p
    simp only [Json.numsOkMembers, Bool.and_eq_true] at hl
    simp only [insAbsent]
    by_cases h1 : k < k'
    · rw [if_pos h1]
      simp only [Json.numsOkMembers, Bool.and_eq_true]
      exact ⟨hv, hl.1, hl.2⟩
    · rw [if_neg h1]
      by_cases h2 : k = k'
      · rw [if_pos h2]
        simp only [Json.numsOkMembers, Bool.and_eq_true]
        exact hl
      · rw [if_neg h2]
        simp only [Json.numsOkMembers, Bool.and_eq_true]
        exact ⟨hl.1, ih hl.2⟩

mutual
theorem decodeAny_numsOk (nc : GoString → GoString) (hok : ∀ x, numOk x = true → numOk (nc x) = true)
    (j : Json) (h : j.numsOk = true) : (decodeAny nc j).numsOk = true :=
  match j with
  | .null => by simp only [decodeAny, Json.numsOk]
  | .bool _ => by simp only [decodeAny, Json.numsOk]
  | .num lit => by
    simp only [Json.numsOk] at h
    simp only [decodeAny, Json.numsOk]
    exact hok lit h
  | .str _ => by simp only [decodeAny, Json.numsOk]
  | .arr l => by
    simp only [Json.numsOk] at h
    simp only [decodeAny, Json.numsOk]
    exact decodeAnyList_numsOk nc hok l h
  | .obj ms => by
    simp only [Json.numsOk] at h
    simp only [decodeAny, Json.numsOk]
    exact decodeAnyMembers_numsOk nc hok ms h
theorem decodeAnyList_numsOk (nc : GoString → GoString)
    (hok : ∀ x, numOk x = true → numOk (nc x) = true)
    (l : List Json) (h : Json.numsOkList l = true) :
    Json.numsOkList (decodeAnyList nc l) = true :=
  match l with
  | [] => by simp only [decodeAnyList, Json.numsOkList]
  | v :: vs => by
    simp only [Json.numsOkList, Bool.and_eq_true] at h
    simp only [decodeAnyList, Json.numsOkList, Bool.and_eq_true]
    exact ⟨decodeAny_numsOk nc hok v h.1, decodeAnyList_numsOk nc hok vs h.2⟩
theorem decodeAnyMembers_numsOk (nc : GoString → GoString)
    (hok : ∀ x, numOk x = true → numOk (nc x) = true)
    (ms : List (GoString × Json)) (h : Json.numsOkMembers ms = true) :
    Json.numsOkMembers (decodeAnyMembers nc ms) = true :=
  match ms with
  | [] => by simp only [decodeAnyMembers, Json.numsOkMembers]
  | (k, v) :: ms => by
    simp only [Json.numsOkMembers, Bool.and_eq_true] at h
    rw [decodeAnyMembers]
    exact numsOkMembers_insAbsent _ _ _ (decodeAny_numsOk nc hok v h.1)
      (decodeAnyMembers_numsOk nc hok ms h.2)
end

/-! ### well-formed filters -/

mutual
/-- What `Filter.UnmarshalJSON` guarantees of its result: a `[]*Filter` under `and` / `or`
exactly, with the field cleared; elsewhere an `any` value that is normalised (a fixed point
of decode-then-marshal) with JSON numbers. -/
def WF (nc : GoString → GoString) : FilterVal → Prop
  | .mk field op _ val => WFVal nc field op val
def WFVal (nc : GoString → GoString) (field op : GoString) : FVal → Prop
  | .any v => isAndOr op = false ∧ decodeAny nc v = v ∧ v.numsOk = true
  | .filters none => isAndOr op = true ∧ field = []
  | .filters (some l) => isAndOr op = true ∧ field = [] ∧ WFList nc l
def WFList (nc : GoString → GoString) : List (Option FilterVal) → Prop
  | [] => True
  | none :: rest => WFList nc rest
  | some f :: rest => WF nc f ∧ WFList nc rest
end

/-- well-formedness of a decoded `[]*Filter` -/
def WFSlice (nc : GoString → GoString) : Option (List (Option FilterVal)) → Prop
  | none => True
  | some l => WFList nc l

/-! ### the four members `json.Marshal` writes are read back -/

theorem keySlot_f : keySlot [102] = some .f := by decide
theorem keySlot_o : keySlot [111] = some .o := by decide
theorem keySlot_v : keySlot [118] = some .v := by decide
theorem keySlot_c : keySlot [99] = some .c := by decide

theorem readMembers_four (nc : GoString → GoString) (field op col : GoString) (vj : Json) :
    readMembers nc {} [([102], .str field), ([111], .str op), ([118], vj), ([99], .str col)]
      = .ok { field := field, op := op, col := col, val := some vj, slice := sliceOfJson nc vj } := by
  simp only [readMembers, rawStep, keySlot_f, keySlot_o, keySlot_v, keySlot_c, setStr]

theorem filterOfJson_obj (nc : GoString → GoString) (ms : List (GoString × Json)) :
    filterOfJson nc (.obj ms) = (match readMembers nc {} ms with
      | .ok raw => finishFilter nc raw
      | .err => .err
      | .panic => .panic) := by
  rw [filterOfJson]; rfl

theorem sliceOfJson_arr (nc : GoString → GoString) (l : List Json) :
    sliceOfJson nc (.arr l) = (match elemsOfJson nc l with
      | .ok es => .ok (some es)
      | .err => .err
      | .panic => .panic) := by
  rw [sliceOfJson]; rfl

theorem elemsOfJson_null (nc : GoString → GoString) (rest : List Json) :
    elemsOfJson nc (.null :: rest) = (match elemsOfJson nc rest with
      | .ok es => .ok (none :: es)
      | .err => .err
      | .panic => .panic) := by
  rw [elemsOfJson]; rfl

theorem elemsOfJson_obj (nc : GoString → GoString) (ms : List (GoString × Json))
    (rest : List Json) :
    elemsOfJson nc (.obj ms :: rest) = (match filterOfJson nc (.obj ms) with
      | .ok f => (match elemsOfJson nc rest with
        | .ok es => .ok (some f :: es)
        | .err => .err
        | .panic => .panic)
      | .err => .err
      | .panic => .panic) := by
  rw [elemsOfJson]
  · rfl
  all_goals (intro h; cases h)

theorem filterToJson_eq (field op col : GoString) (val : FVal) :
    filterToJson (.mk field op col val)
      = .obj [([102], .str field), ([111], .str op), ([118], fvalToJson val), ([99], .str col)] := by
  rw [filterToJson]

mutual
/-- a well-formed filter is recovered from the JSON `json.Marshal` writes for it -/
theorem filterOfJson_filterToJson (nc : GoString → GoString) (t : FilterVal) (h : WF nc t) :
    filterOfJson nc (filterToJson t) = .ok t :=
  match t with
  | .mk field op col (.any v) => by
    simp only [WF, WFVal] at h
    rw [filterToJson_eq, filterOfJson_obj, readMembers_four]
    simp only [finishFilter, h.1, Bool.false_eq_true, if_false, fvalToJson, h.2.1]
  | .mk field op col (.filters none) => by
    simp only [WF, WFVal] at h
    rw [filterToJson_eq, filterOfJson_obj, readMembers_four]
    simp only [finishFilter, h.1, if_true, fvalToJson, sliceOfJson, h.2]
  | .mk field op col (.filters (some l)) => by
    simp only [WF, WFVal] at h
    rw [filterToJson_eq, filterOfJson_obj, readMembers_four]
    simp only [finishFilter, h.1, if_true, fvalToJson, sliceOfJson_arr,
      elemsOfJson_elemsToJson nc l h.2.2, h.2.1]
theorem elemsOfJson_elemsToJson (nc : GoString → GoString) (l : List (Option FilterVal))
    (h : WFList nc l) : elemsOfJson nc (elemsToJson l) = .ok l :=
  match l with
  | [] => by simp only [elemsToJson, elemsOfJson]
  | none :: rest => by
    simp only [WFList] at h
    simp only [elemsToJson, elemsOfJson_null, elemsOfJson_elemsToJson nc rest h]
  | some (.mk field op col val) :: rest => by
    simp only [WFList] at h
    have h1 := filterOfJson_filterToJson nc (.mk field op col val) h.1
    rw [filterToJson_eq] at h1
    simp only [elemsToJson, filterToJson_eq, elemsOfJson_obj, h1,
      elemsOfJson_elemsToJson nc rest h.2]
end

/-! ### what `Filter.UnmarshalJSON` returns is well formed -/

/-- the invariant of `filter` while the members are read -/
def RawInv (nc : GoString → GoString) (raw : RawFilter) : Prop :=
  (∀ l, raw.slice = .ok l → WFSlice nc l) ∧ (∀ v, raw.val = some v → v.numsOk = true)

theorem rawInv_init (nc : GoString → GoString) : RawInv nc {} :=
  ⟨fun _ h => (by cases h), fun _ h => (by cases h)⟩

theorem rawStep_inv (nc : GoString → GoString) (acc acc' : RawFilter) (k : GoString) (v : Json)
    (sl : Res (Option (List (Option FilterVal)))) (hacc : RawInv nc acc)
    (hv : v.numsOk = true) (hsl : ∀ l, sl = .ok l → WFSlice nc l)
    (h : rawStep acc k v sl = .ok acc') : RawInv nc acc' := by
  unfold rawStep at h
  cases hk : keySlot k with
  | none =>
    rw [hk] at h
    cases h
    exact hacc
  | some slot =>
    rw [hk] at h
    cases slot with
    | f =>
      simp only at h
      cases hs : setStr acc.field v with
      | ok s => rw [hs] at h; cases h; exact hacc
      | err => rw [hs] at h; cases h
      | panic => rw [hs] at h; cases h
    | o =>
      simp only at h
      cases hs : setStr acc.op v with
      | ok s => rw [hs] at h; cases h; exact hacc
      | err => rw [hs] at h; cases h
      | panic => rw [hs] at h; cases h
    | c =>
      simp only at h
      cases hs : setStr acc.col v with
      | ok s => rw [hs] at h; cases h; exact hacc
      | err => rw [hs] at h; cases h
      | panic => rw [hs] at h; cases h
    | v =>
      simp only at h
      cases h
      exact ⟨hsl, fun w hw => by cases hw; exact hv⟩

theorem isAndOr_nil : isAndOr [] = false := by decide

theorem finishFilter_wf (nc : GoString → GoString) (hnc : ∀ x, nc (nc x) = nc x)
    (hok : ∀ x, numOk x = true → numOk (nc x) = true) (raw : RawFilter) (t : FilterVal)
    (hraw : RawInv nc raw) (h : finishFilter nc raw = .ok t) : WF nc t := by
  unfold finishFilter at h
  by_cases hop : isAndOr raw.op = true
  · rw [if_pos hop] at h
    cases hs : raw.slice with
    | ok l =>
      rw [hs] at h
      cases h
      cases l with
      | none => exact ⟨hop, rfl⟩
      | some l => exact ⟨hop, rfl, hraw.1 _ hs⟩
    | err => rw [hs] at h; cases h
    | panic => rw [hs] at h; cases h
  · rw [if_neg hop] at h
    cases h
    have hop' : isAndOr raw.op = false := by
      cases hb : isAndOr raw.op with
      | true => exact absurd hb hop
      | false => rfl
    cases hv : raw.val with
    | none => exact ⟨hop', by simp only [decodeAny], by simp only [Json.numsOk]⟩
    | some v =>
      exact ⟨hop', decodeAny_idem nc hnc v, decodeAny_numsOk nc hok v (hraw.2 v hv)⟩

theorem elemsOfJson_cons (nc : GoString → GoString) (v : Json) (rest : List Json)
    (hv : v ≠ .null) :
    elemsOfJson nc (v :: rest) = (match filterOfJson nc v with
      | .ok f => (match elemsOfJson nc rest with
        | .ok es => .ok (some f :: es)
        | .err => .err
        | .panic => .panic)
      | .err => .err
      | .panic => .panic) := by
  cases v with
  | null => exact absurd rfl hv
  | bool b => rw [elemsOfJson]; · rfl
              all_goals (intro h; cases h)
  | num n => rw [elemsOfJson]; · rfl
             all_goals (intro h; cases h)
  | str x => rw [elemsOfJson]; · rfl
             all_goals (intro h; cases h)
  | arr l => rw [elemsOfJson]; · rfl
             all_goals (intro h; cases h)
  | obj ms => exact elemsOfJson_obj nc ms rest

mutual
theorem filterOfJson_wf (nc : GoString → GoString) (hnc : ∀ x, nc (nc x) = nc x)
    (hok : ∀ x, numOk x = true → numOk (nc x) = true) (j : Json) (hj : j.numsOk = true)
    (t : FilterVal) (h : filterOfJson nc j = .ok t) : WF nc t :=
  match j with
  | .null => by
    simp only [filterOfJson] at h
    cases h
    exact ⟨isAndOr_nil, by simp only [decodeAny], by simp only [Json.numsOk]⟩
  | .bool _ => by simp only [filterOfJson] at h; cases h
  | .num _ => by simp only [filterOfJson] at h; cases h
  | .str _ => by simp only [filterOfJson] at h; cases h
  | .arr _ => by simp only [filterOfJson] at h; cases h
  | .obj ms => by
    simp only [Json.numsOk] at hj
    rw [filterOfJson_obj] at h
    cases hr : readMembers nc {} ms with
    | ok raw =>
      rw [hr] at h
      exact finishFilter_wf nc hnc hok raw t
        (readMembers_inv nc hnc hok ms hj {} (rawInv_init nc) raw hr) h
    | err => rw [hr] at h; cases h
    | panic => rw [hr] at h; cases h
theorem readMembers_inv (nc : GoString → GoString) (hnc : ∀ x, nc (nc x) = nc x)
    (hok : ∀ x, numOk x = true → numOk (nc x) = true) (ms : List (GoString × Json))
    (hms : Json.numsOkMembers ms = true) (acc : RawFilter) (hacc : RawInv nc acc)
    (raw : RawFilter) (h : readMembers nc acc ms = .ok raw) : RawInv nc raw :=
  match ms with
  | [] => by
    simp only [readMembers] at h
    cases h
    exact hacc
  | (k, v) :: ms => by
    simp only [Json.numsOkMembers, Bool.and_eq_true] at hms
    simp only [readMembers] at h
    cases hs : rawStep acc k v (sliceOfJson nc v) with
    | ok acc' =>
      rw [hs] at h
      have hinv := rawStep_inv nc acc acc' k v _ hacc hms.1
        (fun l hl => sliceOfJson_wf nc hnc hok v hms.1 l hl) hs
      exact readMembers_inv nc hnc hok ms hms.2 acc' hinv raw h
    | err => rw [hs] at h; cases h
    | panic => rw [hs] at h; cases h
theorem sliceOfJson_wf (nc : GoString → GoString) (hnc : ∀ x, nc (nc x) = nc x)
    (hok : ∀ x, numOk x = true → numOk (nc x) = true) (j : Json) (hj : j.numsOk = true)
    (l : Option (List (Option FilterVal))) (h : sliceOfJson nc j = .ok l) : WFSlice nc l :=
  match j with
  | .null => by
    simp only [sliceOfJson] at h
    cases h
    exact trivial
  | .bool _ => by simp only [sliceOfJson] at h; cases h
  | .num _ => by simp only [sliceOfJson] at h; cases h
  | .str _ => by simp only [sliceOfJson] at h; cases h
  | .obj _ => by simp only [sliceOfJson] at h; cases h
  | .arr vs => by
    simp only [Json.numsOk] at hj
    rw [sliceOfJson_arr] at h
    cases he : elemsOfJson nc vs with
    | ok es =>
      rw [he] at h
      cases h
      exact elemsOfJson_wf nc hnc hok vs hj es he
    | err => rw [he] at h; cases h
    | panic => rw [he] at h; cases h
theorem elemsOfJson_wf (nc : GoString → GoString) (hnc : ∀ x, nc (nc x) = nc x)
    (hok : ∀ x, numOk x = true → numOk (nc x) = true) (vs : List Json)
    (hvs : Json.numsOkList vs = true) (es : List (Option FilterVal))
    (h : elemsOfJson nc vs = .ok es) : WFList nc es :=
  match vs with
  | [] => by
    simp only [elemsOfJson] at h
    cases h
    exact trivial
  | v :: rest => by
    simp only [Json.numsOkList, Bool.and_eq_true] at hvs
    have ihv := filterOfJson_wf nc hnc hok v hvs.1
    have ihr := elemsOfJson_wf nc hnc hok rest hvs.2
    by_cases hv : v = .null
    · subst hv
      rw [elemsOfJson_null] at h
      cases he : elemsOfJson nc rest with
      | ok es' =>
        rw [he] at h
        cases h
        exact ihr es' he
      | err => rw [he] at h; cases h
      | panic => rw [he] at h; cases h
    · rw [elemsOfJson_cons nc v rest hv] at h
      cases hf : filterOfJson nc v with
      | ok f =>
        rw [hf] at h
        cases he : elemsOfJson nc rest with
        | ok es' =>
          rw [he] at h
          cases h
          exact ⟨ihv f hf, ihr es' he⟩
        | err => rw [he] at h; cases h
        | panic => rw [he] at h; cases h
      | err => rw [hf] at h; cases h
      | panic => rw [hf] at h; cases h
end

/-! ### the JSON a well-formed filter marshals to has JSON numbers -/

mutual
theorem filterToJson_numsOk (nc : GoString → GoString) (t : FilterVal) (h : WF nc t) :
    (filterToJson t).numsOk = true :=
  match t with
  | .mk field op col val => by
    simp only [WF] at h
    simp only [filterToJson, Json.numsOk, Json.numsOkMembers, Bool.true_and, Bool.and_true]
    exact fvalToJson_numsOk nc field op val h
theorem fvalToJson_numsOk (nc : GoString → GoString) (field op : GoString) (val : FVal)
    (h : WFVal nc field op val) : (fvalToJson val).numsOk = true :=
  match val with
  | .any v => by
    simp only [WFVal] at h
    simp only [fvalToJson]
    exact h.2.2
  | .filters none => by simp only [fvalToJson, Json.numsOk]
  | .filters (some l) => by
    simp only [WFVal] at h
    simp only [fvalToJson, Json.numsOk]
    exact elemsToJson_numsOk nc l h.2.2
theorem elemsToJson_numsOk (nc : GoString → GoString) (l : List (Option FilterVal))
    (h : WFList nc l) : Json.numsOkList (elemsToJson l) = true :=
  match l with
  | [] => by simp only [elemsToJson, Json.numsOkList]
  | none :: rest => by
    simp only [WFList] at h
    simp only [elemsToJson, Json.numsOkList, Json.numsOk, Bool.true_and]
    exact elemsToJson_numsOk nc rest h
  | some f :: rest => by
    simp only [WFList] at h
    simp only [elemsToJson, Json.numsOkList, Bool.and_eq_true]
    exact ⟨filterToJson_numsOk nc f h.1, elemsToJson_numsOk nc rest h.2⟩
end

/-! ### the reader only returns JSON numbers -/

/-- the three statements, for one fuel -/
def ParseNums (f : Nat) : Prop :=
  (∀ s v r, parseValue f s = some (v, r) → v.numsOk = true) ∧
  (∀ s l r, parseElems f s = some (l, r) → Json.numsOkList l = true) ∧
  (∀ s ms r, parseMembers f s = some (ms, r) → Json.numsOkMembers ms = true)

theorem parseValue_nums_step (f : Nat) (ih : ParseNums f) (s : GoString) (v : Json)
    (r : GoString) (h : parseValue (f + 1) s = some (v, r)) : v.numsOk = true := by
  rw [parseValue.eq_def] at h
  simp only at h
  split at h
  · cases h
  · rename_i c t
    split at h
    · split at h
      · rename_i hn
        cases h
        simp only [Json.numsOk]
        exact hn
      · cases h
    · split at h
      · cases hp : stripPrefix [117, 108, 108] t with
        | none => rw [hp] at h; cases h
        | some r' => rw [hp] at h; cases h; rfl
      · split at h
        · cases hp : stripPrefix [114, 117, 101] t with
          | none => rw [hp] at h; cases h
          | some r' => rw [hp] at h; cases h; rfl
        · split at h
          · cases hp : stripPrefix [97, 108, 115, 101] t with
            | none => rw [hp] at h; cases h
            | some r' => rw [hp] at h; cases h; rfl
          · split at h
            · cases hp : parseStrBody t with
              | none => rw [hp] at h; cases h
              | some p => rw [hp] at h; cases h; rfl
            · split at h
              · split at h
                · cases h
                · split at h
                  · cases h; rfl
                  · generalize hp : parseElems f _ = pe at h
                    cases pe with
                    | none => cases h
                    | some p =>
                      obtain ⟨l, r'⟩ := p
                      cases h
                      simp only [Json.numsOk]
                      exact ih.2.1 _ _ _ hp
              · split at h
                · split at h
                  · cases h
                  · split at h
                    · cases h; rfl
                    · generalize hp : parseMembers f _ = pe at h
                      cases pe with
                      | none => cases h
                      | some p =>
                        obtain ⟨ms, r'⟩ := p
                        cases h
                        simp only [Json.numsOk]
                        exact ih.2.2 _ _ _ hp
                · cases h

theorem parseElems_nums_step (f : Nat) (ih : ParseNums f) (s : GoString) (l : List Json)
    (r : GoString) (h : parseElems (f + 1) s = some (l, r)) : Json.numsOkList l = true := by
  rw [parseElems.eq_def] at h
  simp only at h
  cases hv : parseValue f s with
  | none => rw [hv] at h; cases h
  | some p =>
    obtain ⟨v, r1⟩ := p
    rw [hv] at h
    have hvok := ih.1 _ _ _ hv
    simp only at h
    split at h
    · cases h
    · split at h
      · cases h
        simp only [Json.numsOkList, hvok, Bool.and_self]
      · split at h
        · rename_i d r' _ _
          cases he : parseElems f r' with
          | none => rw [he] at h; cases h
          | some q =>
            obtain ⟨vs, r''⟩ := q
            rw [he] at h
            cases h
            simp only [Json.numsOkList, hvok, ih.2.1 _ _ _ he, Bool.and_self]
        · cases h

theorem parseMembers_nums_step (f : Nat) (ih : ParseNums f) (s : GoString)
    (ms : List (GoString × Json)) (r : GoString) (h : parseMembers (f + 1) s = some (ms, r)) :
    Json.numsOkMembers ms = true := by
  rw [parseMembers.eq_def] at h
  simp only at h
  split at h
  · cases h
  · rename_i q s1
    split at h
    · cases hk : parseStrBody s1 with
      | none => rw [hk] at h; cases h
      | some p =>
        obtain ⟨k, s2⟩ := p
        rw [hk] at h
        simp only at h
        split at h
        · cases h
        · rename_i col s3
          split at h
          · cases hv : parseValue f s3 with
            | none => rw [hv] at h; cases h
            | some p =>
              obtain ⟨v, r1⟩ := p
              rw [hv] at h
              have hvok := ih.1 _ _ _ hv
              simp only at h
              split at h
              · cases h
              · split at h
                · cases h
                  simp only [Json.numsOkMembers, hvok, Bool.and_self]
                · split at h
                  · rename_i d r' _ _
                    cases he : parseMembers f r' with
                    | none => rw [he] at h; cases h
                    | some q =>
                      obtain ⟨ms', r''⟩ := q
                      rw [he] at h
                      cases h
                      simp only [Json.numsOkMembers, hvok, ih.2.2 _ _ _ he, Bool.and_self]
                  · cases h
          · cases h
    · cases h

theorem parseNums (f : Nat) : ParseNums f := by
  induction f with
  | zero =>
    refine ⟨fun s v r h => ?_, fun s l r h => ?_, fun s ms r h => ?_⟩
    · rw [parseValue.eq_def] at h; cases h
    · rw [parseElems.eq_def] at h; cases h
    · rw [parseMembers.eq_def] at h; cases h
  | succ f ih =>
    exact ⟨parseValue_nums_step f ih, parseElems_nums_step f ih, parseMembers_nums_step f ih⟩

/-- every number literal of a tree the reader returns matches the JSON number grammar -/
theorem parseJson_numsOk (s : GoString) (j : Json) (h : parseJson s = some j) :
    j.numsOk = true := by
  unfold parseJson at h
  cases hp : parseValue (2 * s.length + 2) s with
  | none => rw [hp] at h; cases h
  | some p =>
    obtain ⟨v, r⟩ := p
    rw [hp] at h
    cases r with
    | nil => cases h; exact (parseNums _).1 _ _ _ hp
    | cons c t => cases h

/-! ### Go's string encoder is the model's on well-formed UTF-8 -/

theorem rsb_cons_ne (b : UInt8) (rest : GoString) (hb : b ≠ 0xE2) :
    renderStrBody (b :: rest) = escByte b ++ renderStrBody rest := by
  cases rest with
  | nil => simp only [renderStrBody]
  | cons c r =>
    cases r with
    | nil => simp only [renderStrBody]
    | cons d r' =>
      have h1 : ¬ (b = 0xE2 ∧ c = 0x80 ∧ d = 0xA8) := fun h => hb h.1
      have h2 : ¬ (b = 0xE2 ∧ c = 0x80 ∧ d = 0xA9) := fun h => hb h.1
      simp only [renderStrBody, if_neg h1, if_neg h2]

theorem u8_ge (b : UInt8) (h : ¬ b < 0x80) : 128 ≤ b.toNat := by
  have h1 : ¬ b.toNat < (0x80 : UInt8).toNat := fun h' => h (UInt8.lt_iff_toNat_lt.2 h')
  have e : (0x80 : UInt8).toNat = 128 := rfl
  omega

theorem escByte_hi (b : UInt8) (h : ¬ b < 0x80) : escByte b = [b] := by
  have hn := u8_ge b h
  have ne : ∀ k : UInt8, k.toNat < 128 → b ≠ k := by
    intro k hk e; subst e; omega
  have h32 : ¬ b < 32 := by
    intro h'
    have := UInt8.lt_iff_toNat_lt.1 h'
    have e : (32 : UInt8).toNat = 32 := rfl
    omega
  unfold escByte
  simp only [ne 34 (by decide), ne 92 (by decide), ne 8 (by decide), ne 12 (by decide),
    ne 10 (by decide), ne 13 (by decide), ne 9 (by decide), ne 60 (by decide), ne 62 (by decide),
    ne 38 (by decide), h32, if_false, or_self]

/-- a continuation byte is neither ASCII nor E2 -/
theorem cont_facts (c lo hi : UInt8) (h1 : lo ≤ c) (h2 : c ≤ hi) (hlo : 128 ≤ lo.toNat)
    (hhi : hi.toNat ≤ 191) : c ≠ 0xE2 ∧ ¬ c < 0x80 := by
  have a := UInt8.le_iff_toNat_le.1 h1
  have b := UInt8.le_iff_toNat_le.1 h2
  refine ⟨?_, ?_⟩
  · intro e; subst e
    have e : (0xE2 : UInt8).toNat = 226 := rfl
    omega
  · intro h'
    have := UInt8.lt_iff_toNat_lt.1 h'
    have e : (0x80 : UInt8).toNat = 128 := rfl
    omega

theorem rsb_hi (b : UInt8) (rest : GoString) (h1 : b ≠ 0xE2) (h2 : ¬ b < 0x80) :
    renderStrBody (b :: rest) = b :: renderStrBody rest := by
  rw [rsb_cons_ne b rest h1, escByte_hi b h2]; rfl

theorem goStrBody_valid (l : GoString) (h : utf8Valid l = true) : goStrBody l = renderStrBody l := by
  fun_induction utf8Valid l with
  | case1 => rfl
  | case2 b rest hb ih =>
    have hne : b ≠ 0xE2 := by intro e; subst e; exact absurd hb (by decide)
    have hL : goStrBody (b :: rest) = escByte b ++ goStrBody rest := by
      rw [goStrBody.eq_def]
      simp only [if_pos hb]
    rw [rsb_cons_ne b rest hne, ← ih h, hL]
  | case3 b hb hr c r ih =>
    simp only [Bool.and_eq_true, decide_eq_true_eq] at h
    have hcc : (decide (128 ≤ c) && decide (c ≤ 191)) = true := by
      simp only [Bool.and_eq_true, decide_eq_true_eq]; exact h.1
    have hbE : b ≠ 0xE2 := by intro e; subst e; exact absurd hr.2 (by decide)
    have hc := cont_facts c 128 191 h.1.1 h.1.2 (by decide) (by decide)
    rw [rsb_hi b _ hbE hb, rsb_hi c _ hc.1 hc.2, ← ih h.2, goStrBody]
    simp only [if_neg hb, if_pos hr, hcc, if_true]
  | case4 => cases h
  | case5 b hb h2 hr c d r ih =>
    simp only [Bool.and_eq_true, decide_eq_true_eq] at h
    have hcond : ((decide ((if b = 224 then 160 else 128) ≤ c) && decide (c ≤ if b = 237 then 159 else 191)) &&
        (decide (128 ≤ d) && decide (d ≤ 191))) = true := by
      simp only [Bool.and_eq_true, decide_eq_true_eq]; exact h.1
    have hc := cont_facts c _ _ h.1.1.1 h.1.1.2 (by split <;> decide) (by split <;> decide)
    have hd := cont_facts d 128 191 h.1.2.1 h.1.2.2 (by decide) (by decide)
    have hL : goStrBody (b :: c :: d :: r) =
        (if b = 0xE2 ∧ c = 0x80 ∧ d = 0xA8 then [92, 117, 50, 48, 50, 56] ++ goStrBody r
         else if b = 0xE2 ∧ c = 0x80 ∧ d = 0xA9 then [92, 117, 50, 48, 50, 57] ++ goStrBody r
         else b :: c :: d :: goStrBody r) := by
      rw [goStrBody]
      simp only [if_neg hb, if_neg h2, if_pos hr, hcond, if_true]
    rw [hL, ih h.2]
    by_cases hE : b = 0xE2
    · subst hE
      simp only [renderStrBody, true_and]
      split
      · rfl
      · split
        · rfl
        · rw [escByte_hi _ hb, rsb_hi c _ hc.1 hc.2, rsb_hi d _ hd.1 hd.2]; rfl
    · have n1 : ¬ (b = 0xE2 ∧ c = 0x80 ∧ d = 0xA8) := fun x => hE x.1
      have n2 : ¬ (b = 0xE2 ∧ c = 0x80 ∧ d = 0xA9) := fun x => hE x.1
      rw [if_neg n1, if_neg n2, rsb_hi b _ hE hb, rsb_hi c _ hc.1 hc.2, rsb_hi d _ hd.1 hd.2]
  | case6 => cases h
  | case7 b hb h2 h3 hr c d e r ih =>
    simp only [Bool.and_eq_true, decide_eq_true_eq] at h
    have hcond : (((decide ((if b = 240 then 144 else 128) ≤ c) && decide (c ≤ if b = 244 then 143 else 191)) &&
        (decide (128 ≤ d) && decide (d ≤ 191))) && (decide (128 ≤ e) && decide (e ≤ 191))) = true := by
      simp only [Bool.and_eq_true, decide_eq_true_eq]; exact h.1
    have hbE : b ≠ 0xE2 := by intro x; subst x; exact absurd hr.1 (by decide)
    have hc := cont_facts c _ _ h.1.1.1.1 h.1.1.1.2 (by split <;> decide) (by split <;> decide)
    have hd := cont_facts d 128 191 h.1.1.2.1 h.1.1.2.2 (by decide) (by decide)
    have he := cont_facts e 128 191 h.1.2.1 h.1.2.2 (by decide) (by decide)
    rw [rsb_hi b _ hbE hb, rsb_hi c _ hc.1 hc.2, rsb_hi d _ hd.1 hd.2, rsb_hi e _ he.1 he.2, ← ih h.2, goStrBody]
    simp only [if_neg hb, if_neg h2, if_neg h3, if_pos hr, hcond, if_true]
  | case8 => cases h
  | case9 => cases h

/-! ### the label body as `URL.String` writes it (`rewriteBrace`) -/

/-- the string reader decodes the escape backslash-u-0-0-7-b to the byte `{`: reading a body
whose leading `{` was rewritten gives what reading the body itself gives -/
theorem parseStrBody_rewriteBrace (v r : GoString) :
    parseStrBody (rewriteBrace v ++ r) = parseStrBody (v ++ r) := by
  unfold rewriteBrace
  split
  · rename_i t
    have h1 := JsonL.parseStrBody_u00 123 (t ++ r) (by decide)
    have e : escU00 123 = [92, 117, 48, 48, 55, 98] := by decide
    rw [e] at h1
    rw [List.append_assoc, h1, List.cons_append,
      JsonL.parseStrBody_plain 123 (t ++ r) (by decide) (by decide) (by decide)]
  · rfl

/-- a quoted text is read by the string reader alone (the fuel of the value reader plays no
part) -/
theorem parseJson_quoted (t : GoString) :
    parseJson (34 :: t) = match parseStrBody t with
      | some (s, []) => some (.str s)
      | _ => none := by
  have h : isNumByte 34 = false := by decide
  unfold parseJson
  rw [show 2 * (34 :: t).length + 2 = (2 * (34 :: t).length + 1) + 1 from rfl, parseValue.eq_def]
  simp only [h]
  cases hp : parseStrBody t with
  | none => simp
  | some p =>
    obtain ⟨s, r⟩ := p
    cases r <;> simp

/-- `json.Unmarshal("\"" + v + "\"", &label)` does not see the rewrite of a leading `{`:
for EVERY value `v` -/
theorem labelDec_rewriteBrace (v : GoString) : labelDec (rewriteBrace v) = labelDec v := by
  unfold labelDec
  rw [parseJson_quoted, parseJson_quoted, parseStrBody_rewriteBrace]

/-- the label is recovered from the body `URL.String` writes, leading `{` included -/
theorem labelDec_labelBodyEmitted (l : GoString) : labelDec (labelBodyEmitted l) = some l := by
  unfold labelBodyEmitted
  rw [labelDec_rewriteBrace]
  have h := JsonL.parseJson_render (.str l) (by simp only [Json.numsOk])
  simp only [Json.render, renderStr] at h
  unfold labelDec labelBody
  rw [h]

end FjL
end Jsonapi
