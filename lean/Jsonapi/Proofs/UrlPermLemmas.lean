/-
Order independence of NewSimpleURL / NewParams / NewURL / URL.String with respect to
Go's map iteration order (the list order of the association lists of the model).

PART 1: `URL.string` reads the `fields` / `page` maps only through lookups on sorted keys.
-/
import Jsonapi.Proofs.DetLemmas
import Jsonapi.Proofs.MapLemmas
import Jsonapi.Proofs.UrlEmitDefs
namespace Jsonapi.UrlL.Perm
open Jsonapi

/-! ### association lists: keys, lookups, membership -/

theorem mem_keys_iff {β} : ∀ (m : GoMap β) (k : GoString), k ∈ m.keys ↔ (m.get? k).isSome = true
  | [], k => by simp [GoMap.keys, GoMap.get?]
  | (k', v) :: rest, k => by
    have ih := mem_keys_iff rest k
    simp only [GoMap.keys, List.map_cons, List.mem_cons, GoMap.get?] at ih ⊢
    by_cases h : k' = k
    · simp [h]
    · have h' : ¬ k = k' := fun e => h e.symm
      simp only [h, h', if_false, false_or]
      exact ih

theorem get?_eq_none_of_not_mem {β} (m : GoMap β) (k : GoString) (h : k ∉ m.keys) :
    m.get? k = none := by
  cases hg : m.get? k with
  | none => rfl
  | some v => exact absurd ((mem_keys_iff m k).2 (by rw [hg]; rfl)) h

theorem keys_perm_of_isSome {β γ} {m₁ : GoMap β} {m₂ : GoMap γ}
    (h₁ : m₁.keys.Nodup) (h₂ : m₂.keys.Nodup)
    (h : ∀ k, (m₁.get? k).isSome = (m₂.get? k).isSome) : m₁.keys.Perm m₂.keys := by
  rw [List.perm_ext_iff_of_nodup h₁ h₂]
  intro k
  rw [mem_keys_iff, mem_keys_iff, h k]

theorem sortKeys_eq_of_isSome {β γ} {m₁ : GoMap β} {m₂ : GoMap γ}
    (h₁ : m₁.keys.Nodup) (h₂ : m₂.keys.Nodup)
    (h : ∀ k, (m₁.get? k).isSome = (m₂.get? k).isSome) :
    Typ.sortStrings m₁.keys = Typ.sortStrings m₂.keys :=
  DetL.sortStrings_eq_of_perm (keys_perm_of_isSome h₁ h₂ h)


/-! ### more association-list lemmas -/

theorem get?_set {β} (m : GoMap β) (k k' : GoString) (v : β) :
    (m.set k v).get? k' = if k' = k then some v else m.get? k' := by
  by_cases h : k' = k
  · subst h; simp [GoMap.get?_set_self]
  · simp [h, GoMap.get?_set_ne m k k' v h]

theorem keys_set {β} : ∀ (m : GoMap β) (k : GoString) (v : β),
    (m.set k v).keys = if k ∈ m.keys then m.keys else m.keys ++ [k]
  | [], k, v => by simp [GoMap.set, GoMap.keys]
  | (k', v') :: rest, k, v => by
    have ih := keys_set rest k v
    simp only [GoMap.keys, GoMap.set, List.map_cons, List.mem_cons] at ih ⊢
    by_cases h : k' = k
    · subst h; simp
    · have h' : ¬ k = k' := fun e => h e.symm
      simp only [h, h', if_false, false_or, List.map_cons, ih]
      split <;> simp [*]

theorem keys_set_nodup {β} (m : GoMap β) (k : GoString) (v : β) (h : m.keys.Nodup) :
    (m.set k v).keys.Nodup := by
  rw [keys_set]
  split
  · exact h
  · rename_i hk
    rw [List.nodup_append]
    refine ⟨h, by simp, ?_⟩
    intro a ha b hb
    simp only [List.mem_singleton] at hb
    subst hb
    intro e; subst e; exact hk ha

theorem mem_of_get? {β} : ∀ (m : GoMap β) (k : GoString) (v : β), m.get? k = some v → (k, v) ∈ m
  | [], _, _, h => by simp [GoMap.get?] at h
  | (k', v') :: rest, k, v, h => by
    simp only [GoMap.get?] at h
    by_cases hk : k' = k
    · simp only [hk, if_true, Option.some.injEq] at h
      subst hk; subst h; exact List.mem_cons_self
    · simp only [hk, if_false] at h
      exact List.mem_cons_of_mem _ (mem_of_get? rest k v h)

theorem get?_of_mem {β} : ∀ (m : GoMap β) (k : GoString) (v : β), m.keys.Nodup → (k, v) ∈ m →
    m.get? k = some v
  | [], _, _, _, h => by simp at h
  | (k', v') :: rest, k, v, hnd, h => by
    simp only [GoMap.keys, List.map_cons, List.nodup_cons] at hnd
    simp only [GoMap.get?]
    rcases List.mem_cons.1 h with e | h'
    · cases e; simp
    · have hk : k ∈ rest.map (·.1) := List.mem_map.2 ⟨(k, v), h', rfl⟩
      have hne : ¬ k' = k := fun e => hnd.1 (e ▸ hk)
      simp only [hne, if_false]
      exact get?_of_mem rest k v hnd.2 h'

theorem mem_iff_get? {β} (m : GoMap β) (hnd : m.keys.Nodup) (k : GoString) (v : β) :
    (k, v) ∈ m ↔ m.get? k = some v :=
  ⟨get?_of_mem m k v hnd, mem_of_get? m k v⟩

theorem nodup_of_keys_nodup {β} (m : GoMap β) (h : m.keys.Nodup) : m.Nodup :=
  List.Pairwise.of_map (·.1) (fun _ _ hab e => hab (congrArg (·.1) e)) h

/-- Two maps with unique keys and the same lookups are permutations of each other. -/
theorem perm_of_get?_eq {β} {m₁ m₂ : GoMap β} (h₁ : m₁.keys.Nodup) (h₂ : m₂.keys.Nodup)
    (h : ∀ k, m₁.get? k = m₂.get? k) : m₁.Perm m₂ := by
  rw [List.perm_ext_iff_of_nodup (nodup_of_keys_nodup m₁ h₁) (nodup_of_keys_nodup m₂ h₂)]
  rintro ⟨k, v⟩
  rw [mem_iff_get? m₁ h₁, mem_iff_get? m₂ h₂, h k]

theorem all_eq_of_get?_eq {β} {m₁ m₂ : GoMap β} (h₁ : m₁.keys.Nodup) (h₂ : m₂.keys.Nodup)
    (h : ∀ k, m₁.get? k = m₂.get? k) (f : GoString × β → Bool) : m₁.all f = m₂.all f :=
  (perm_of_get?_eq h₁ h₂ h).all_eq

/-- lookup in a map whose values were transformed by a key-dependent function -/
theorem get?_map_kv {β γ} (g : GoString → β → γ) : ∀ (m : GoMap β) (k : GoString),
    GoMap.get? (m.map (fun p => (p.1, g p.1 p.2))) k = (GoMap.get? m k).map (g k)
  | [], _ => rfl
  | (k', v) :: rest, k => by
    simp only [List.map_cons, GoMap.get?]
    split
    · rename_i h; subst h; rfl
    · exact get?_map_kv g rest k

theorem keys_map_kv {β γ} (g : GoString → β → γ) (m : GoMap β) :
    GoMap.keys (m.map (fun p => (p.1, g p.1 p.2))) = GoMap.keys m := by
  simp [GoMap.keys, List.map_map, Function.comp_def]

/-! ### generic fold lemmas -/

theorem foldl_rel_congr {α β} (f : β → α → β) (R : β → β → Prop)
    (hcongr : ∀ a b x, R a b → R (f a x) (f b x)) :
    ∀ (l : List α) (a b : β), R a b → R (l.foldl f a) (l.foldl f b)
  | [], _, _, h => h
  | x :: l, a, b, h => foldl_rel_congr f R hcongr l _ _ (hcongr a b x h)

/-- A fold is invariant (up to `R`) under permutations of a list whose elements pairwise
commute (up to `R`). -/
theorem foldl_perm_rel {α β} (f : β → α → β) (R : β → β → Prop) (P : α → α → Prop)
    (hrefl : ∀ a, R a a) (htrans : ∀ a b c, R a b → R b c → R a c)
    (hcongr : ∀ a b x, R a b → R (f a x) (f b x))
    (hsymm : ∀ x y, P x y → P y x)
    (hcomm : ∀ a x y, P x y → R (f (f a x) y) (f (f a y) x))
    {l₁ l₂ : List α} (hp : l₁.Perm l₂) :
    l₁.Pairwise P → ∀ a, R (l₁.foldl f a) (l₂.foldl f a) := by
  induction hp with
  | nil => intro _ a; exact hrefl _
  | cons x _ ih =>
    intro hpw a
    exact ih (List.pairwise_cons.1 hpw).2 (f a x)
  | swap x y l =>
    intro hpw a
    have hyx : P y x := (List.pairwise_cons.1 hpw).1 x List.mem_cons_self
    exact foldl_rel_congr f R hcongr l _ _ (hcomm a y x hyx)
  | trans h₁ _ ih₁ ih₂ =>
    intro hpw a
    exact htrans _ _ _ (ih₁ hpw a)
      (ih₂ ((List.Perm.pairwise_iff (fun {x y} => hsymm x y) h₁).1 hpw) a)

theorem foldl_err {σ α} (F : Res σ → α → Res σ) (herr : ∀ x, F .err x = .err) :
    ∀ l : List α, l.foldl F .err = .err
  | [] => rfl
  | x :: l => by rw [List.foldl_cons, herr, foldl_err F herr l]

/-- Closed form of an error-propagating fold whose error condition does not depend on the
accumulator. -/
theorem foldl_res_closed {σ α} (F : Res σ → α → Res σ) (ok : α → Bool) (g : σ → α → σ)
    (hok : ∀ s x, F (.ok s) x = if ok x then .ok (g s x) else .err)
    (herr : ∀ x, F .err x = .err) :
    ∀ (l : List α) (s : σ), l.foldl F (.ok s) = if l.all ok then .ok (l.foldl g s) else .err
  | [], s => by simp
  | x :: l, s => by
    rw [List.foldl_cons, hok]
    by_cases hx : ok x
    · simp only [hx, if_true, List.all_cons, Bool.true_and, List.foldl_cons]
      exact foldl_res_closed F ok g hok herr l (g s x)
    · simp only [hx, List.all_cons, Bool.false_and]
      exact foldl_err F herr l

theorem foldl_invariant {α β} (f : β → α → β) (I : β → Prop) (h : ∀ b x, I b → I (f b x)) :
    ∀ (l : List α) (b : β), I b → I (l.foldl f b)
  | [], _, hb => hb
  | x :: l, b, hb => foldl_invariant f I h l _ (h b x hb)

/-! ### relations on `Res` -/

/-- same constructor, and related payloads on `ok` -/
def ResRel {α} (Q : α → α → Prop) : Res α → Res α → Prop
  | .ok a, .ok b => Q a b
  | .err, .err => True
  | .panic, .panic => True
  | _, _ => False

theorem ResRel.isOk_eq {α} {Q : α → α → Prop} : ∀ {r r' : Res α}, ResRel Q r r' → r.isOk = r'.isOk
  | .ok _, .ok _, _ => rfl
  | .err, .err, _ => rfl
  | .panic, .panic, _ => rfl
  | .ok _, .err, h | .ok _, .panic, h | .err, .ok _, h | .err, .panic, h
  | .panic, .ok _, h | .panic, .err, h => h.elim

theorem ResRel.of_ok {α} {Q : α → α → Prop} {a b : α} (h : ResRel Q (.ok a) (.ok b)) : Q a b := h

/-! ### PART 1: `URL.string` -/

/-- the `fields[..]` parameters of `URL.String` -/
def fieldParamsOf (fields : GoMap (List GoString)) : List GoString :=
  (Typ.sortStrings fields.keys).map (fun t =>
    let fs := Typ.sortStrings ((fields.get? t).getD [])
    let param := gs "fields%5B" ++ queryEscape t ++ gs "%5D=" ++ (fs.flatMap (fun f => queryEscape f ++ pct2C))
    param.take (param.length - 3))

/-- the `page[..]` parameters of `URL.String` -/
def pageParamsOf (isCol : Bool) (page : GoMap PageVal) : List GoString :=
  if isCol then (Typ.sortStrings page.keys).map (fun k =>
    gs "page%5B" ++ queryEscape k ++ gs "%5D=" ++ queryEscape (((page.get? k).map PageVal.text).getD []))
  else []

/-- `URL.string` as a function of the components it reads -/
def stringOf (fragments : List GoString) (fieldParams : List GoString) (filter : Option GoString)
    (filterLabel : GoString) (pageParams : List GoString) (sortingRules : List GoString)
    (env : StringEnv) : GoString :=
  let path :=
    match fragments with
    | [] => []
    | fs => [47] ++ joinWith [47] (fs.map pathEscape)
  let filterParams :=
    match filter with
    | some f => [gs "filter=" ++ queryEscape f]
    | none => if filterLabel ≠ [] then [gs "filter=" ++ queryEscape (rewriteBrace env.labelBody)] else []
  let sortParams :=
    if sortingRules.isEmpty then []
    else [gs "sort=" ++ joinWith pct2C (sortingRules.map queryEscape)]
  let all := fieldParams ++ filterParams ++ pageParams ++ sortParams
  path ++ (if all.isEmpty then [] else [63] ++ joinWith [38] all)

theorem string_eq_stringOf (u : URL) (env : StringEnv) :
    u.string env = stringOf u.fragments (fieldParamsOf u.params.fields) u.params.filter
      u.params.filterLabel (pageParamsOf u.isCol u.params.page) u.params.sortingRules env := rfl

theorem fieldParamsOf_congr {f₁ f₂ : GoMap (List GoString)}
    (hfields : ∀ t, (f₁.get? t).map Typ.sortStrings = (f₂.get? t).map Typ.sortStrings)
    (hk₁ : f₁.keys.Nodup) (hk₂ : f₂.keys.Nodup) : fieldParamsOf f₁ = fieldParamsOf f₂ := by
  have hsome : ∀ k, (f₁.get? k).isSome = (f₂.get? k).isSome := by
    intro k
    have := congrArg Option.isSome (hfields k)
    simpa using this
  unfold fieldParamsOf
  rw [sortKeys_eq_of_isSome hk₁ hk₂ hsome]
  apply List.map_congr_left
  intro t _
  have hsort : Typ.sortStrings ((f₁.get? t).getD []) = Typ.sortStrings ((f₂.get? t).getD []) := by
    have h := hfields t
    cases h₁ : f₁.get? t <;> cases h₂ : f₂.get? t <;> rw [h₁, h₂] at h <;> simp at h
    exact h
  simp only [hsort]

theorem pageParamsOf_congr {c : Bool} {p₁ p₂ : GoMap PageVal}
    (hpage : c = true → ∀ k, p₁.get? k = p₂.get? k)
    (hk₁ : c = true → p₁.keys.Nodup) (hk₂ : c = true → p₂.keys.Nodup) :
    pageParamsOf c p₁ = pageParamsOf c p₂ := by
  unfold pageParamsOf
  cases c with
  | false => rfl
  | true =>
    simp only [if_true]
    rw [sortKeys_eq_of_isSome (hk₁ rfl) (hk₂ rfl) (fun k => by rw [hpage rfl k])]
    apply List.map_congr_left
    intro k _
    rw [hpage rfl k]

/-- `String()` reads the `fields` and `page` maps only through lookups on the sorted keys. -/
theorem string_canonical (u₁ u₂ : URL) (env : StringEnv)
    (hfr : u₁.fragments = u₂.fragments) (hcol : u₁.isCol = u₂.isCol)
    (hfl : u₁.params.filterLabel = u₂.params.filterLabel) (hf : u₁.params.filter = u₂.params.filter)
    (hs : u₁.params.sortingRules = u₂.params.sortingRules)
    (hfields : ∀ t, (u₁.params.fields.get? t).map Typ.sortStrings = (u₂.params.fields.get? t).map Typ.sortStrings)
    (hk₁ : u₁.params.fields.keys.Nodup) (hk₂ : u₂.params.fields.keys.Nodup)
    (hpage : u₁.isCol = true → ∀ k, u₁.params.page.get? k = u₂.params.page.get? k)
    (hpk₁ : u₁.isCol = true → u₁.params.page.keys.Nodup) (hpk₂ : u₁.isCol = true → u₂.params.page.keys.Nodup) :
    u₁.string env = u₂.string env := by
  rw [string_eq_stringOf, string_eq_stringOf, ← hfr, ← hcol, ← hfl, ← hf, ← hs,
    fieldParamsOf_congr hfields hk₁ hk₂, pageParamsOf_congr hpage hpk₁ hpk₂]

#print axioms string_canonical

end Jsonapi.UrlL.Perm
