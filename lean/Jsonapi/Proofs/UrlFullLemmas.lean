/-
Lemmas about `Spec.goUrlParse` (Spec/UrlFull.lean) for Props/C07B.lean.
-/
import Jsonapi.Spec.UrlFull
import Jsonapi.Proofs.UrlStringLemmas
import Jsonapi.Proofs.UrlLemmas
namespace Jsonapi.UrlFullL
open Jsonapi Jsonapi.Spec Jsonapi.UrlL.Esc

/-! ### `cut` -/

theorem cut_cons_ne {sep c : UInt8} (h : c ≠ sep) (rest : GoString) :
    cut sep (c :: rest) = (c :: (cut sep rest).1, (cut sep rest).2) := by
  simp only [cut, h, if_false]

theorem cut_cons_eq (sep : UInt8) (rest : GoString) :
    cut sep (sep :: rest) = ([], some rest) := by
  simp only [cut, if_true]

/-! ### `getScheme` finds nothing when the first segment has no colon -/

/-- the text before the first '/' or '?' -/
def firstSeg (s : GoString) : GoString := (cut 47 (cut 63 s).1).1

theorem firstSeg_cons {c : UInt8} (h63 : c ≠ 63) (h47 : c ≠ 47) (rest : GoString) :
    firstSeg (c :: rest) = c :: firstSeg rest := by
  unfold firstSeg
  rw [cut_cons_ne h63]
  simp only
  rw [cut_cons_ne h47]

theorem schemeByte_ne {c : UInt8} (h : isSchemeByte c = true) : c ≠ 63 ∧ c ≠ 47 := by
  constructor <;> (intro e; subst e; revert h; decide)

theorem alpha_ne {c : UInt8} (h : isAlpha c = true) : c ≠ 63 ∧ c ≠ 47 := by
  constructor <;> (intro e; subst e; revert h; decide)

theorem schemeTail_mem : ∀ (s r : GoString), schemeTail s = some r → (58 : UInt8) ∈ firstSeg s
  | [], r, h => by simp [schemeTail] at h
  | c :: rest, r, h => by
    unfold schemeTail at h
    by_cases hb : isSchemeByte c = true
    · rw [if_pos hb] at h
      rw [firstSeg_cons (schemeByte_ne hb).1 (schemeByte_ne hb).2]
      exact List.mem_cons_of_mem _ (schemeTail_mem rest r h)
    · rw [if_neg hb] at h
      by_cases hc : c = 58
      · subst hc
        rw [firstSeg_cons (by decide) (by decide)]
        exact List.mem_cons_self
      · rw [if_neg hc] at h; cases h

theorem getScheme_absent (s : GoString) (h : (58 : UInt8) ∉ firstSeg s) : getScheme s = .absent := by
  cases s with
  | nil => rfl
  | cons c rest =>
    simp only [getScheme]
    by_cases ha : isAlpha c = true
    · rw [if_pos ha]
      cases ht : schemeTail rest with
      | none => rfl
      | some r =>
        exfalso; apply h
        rw [firstSeg_cons (alpha_ne ha).1 (alpha_ne ha).2]
        exact List.mem_cons_of_mem _ (schemeTail_mem rest r ht)
    · rw [if_neg ha]
      by_cases hc : c = 58
      · subst hc
        exfalso; apply h
        rw [firstSeg_cons (by decide) (by decide)]
        exact List.mem_cons_self
      · rw [if_neg hc]

/-! ### `splitOn` keeps bytes -/

theorem splitOn_go_mem (sep : UInt8) : ∀ (rest cur x : GoString), x ∈ splitOn.go sep cur rest →
    ∀ c ∈ x, c ∈ cur ∨ c ∈ rest
  | [], cur, x, hx, c, hc => by
    simp only [splitOn.go, List.mem_singleton] at hx
    subst hx
    exact Or.inl (List.mem_reverse.1 hc)
  | d :: rest, cur, x, hx, c, hc => by
    unfold splitOn.go at hx
    by_cases hd : d = sep
    · rw [if_pos hd] at hx
      rcases List.mem_cons.1 hx with e | hx
      · subst e; exact Or.inl (List.mem_reverse.1 hc)
      · rcases splitOn_go_mem sep rest [] x hx c hc with h | h
        · cases h
        · exact Or.inr (List.mem_cons_of_mem _ h)
    · rw [if_neg hd] at hx
      rcases splitOn_go_mem sep rest (d :: cur) x hx c hc with h | h
      · rcases List.mem_cons.1 h with e | h
        · subst e; exact Or.inr List.mem_cons_self
        · exact Or.inl h
      · exact Or.inr (List.mem_cons_of_mem _ h)

theorem splitOn_mem (sep : UInt8) (q x : GoString) (hx : x ∈ splitOn sep q) : ∀ c ∈ x, c ∈ q := by
  intro c hc
  rcases splitOn_go_mem sep q [] x hx c hc with h | h
  · cases h
  · exact h

/-! ### the query -/

theorem queryStep_eq : queryStep = step := rfl

theorem contains_false_iff (s : GoString) (c : UInt8) : s.contains c = false ↔ c ∉ s := by
  constructor
  · intro h hm
    have : s.contains c = true := List.contains_iff_mem.2 hm
    rw [h] at this; cases this
  · intro h
    cases hc : s.contains c with
    | false => rfl
    | true => exact absurd (List.contains_iff_mem.1 hc) h

theorem goParseQuery_eq_parseQuery (q : GoString) (h : (59 : UInt8) ∉ q) :
    goParseQuery q = Spec.parseQuery q := by
  unfold goParseQuery
  rw [parseQuery_eq, queryStep_eq]
  have : (splitOn 38 q).filter (fun pair => !pair.contains 59) = splitOn 38 q := by
    apply List.filter_eq_self.2
    intro x hx
    have : (59 : UInt8) ∉ x := fun hm => h (splitOn_mem 38 q x hx 59 hm)
    rw [(contains_false_iff x 59).2 this]; rfl
  rw [this]

/-! ### the full parser on plain references -/

theorem goParseNoFrag_plain (s : GoString) (hctl : hasCTL s = false)
    (hcolon : (58 : UInt8) ∉ firstSeg s)
    (hauth : (hasPrefix (cut 63 s).1 [47, 47] && !hasPrefix (cut 63 s).1 [47, 47, 47]) = false) :
    goParseNoFrag s =
      (unescape false (cut 63 s).1).map (fun p => (p, ((cut 63 s).2).getD [])) := by
  unfold goParseNoFrag
  rw [hctl, getScheme_absent s hcolon]
  simp only [Bool.false_eq_true, if_false]
  unfold afterScheme
  congr 1
  unfold pathOf
  have hc : ((cut 47 (cut 63 s).1).1).contains 58 = false := (contains_false_iff _ _).2 hcolon
  by_cases hh : (cut 63 s).1.head? ≠ some 47
  · rw [if_pos hh]
    simp only [Bool.false_eq_true, if_false, hc]
  · rw [if_neg hh]
    have : (hasPrefix (cut 63 s).1 [47, 47] && (false || !hasPrefix (cut 63 s).1 [47, 47, 47])) = false := by
      simpa using hauth
    rw [this]
    simp only [Bool.false_eq_true, if_false]

theorem goUrlParse_plain (s : GoString) (h : plainRef s = true) : goUrlParse s = Spec.parseRaw s := by
  unfold plainRef at h
  simp only [Bool.and_eq_true, Bool.not_eq_true'] at h
  obtain ⟨⟨⟨⟨hctl, hhash⟩, hcolon⟩, hauth⟩, hsemi⟩ := h
  have hhash' : (35 : UInt8) ∉ s := (contains_false_iff _ _).1 hhash
  have hcolon' : (58 : UInt8) ∉ firstSeg s := (contains_false_iff _ _).1 hcolon
  have hsemi' : (59 : UInt8) ∉ ((cut 63 s).2).getD [] := (contains_false_iff _ _).1 hsemi
  unfold goUrlParse
  rw [cut_of_not_mem 35 s hhash']
  simp only [Option.getD_none]
  rw [goParseNoFrag_plain s hctl hcolon' hauth]
  unfold Spec.parseRaw
  cases hcut : cut 63 s with
  | mk p q =>
    rw [hcut] at hsemi'
    simp only at hsemi' ⊢
    cases hu : unescape false p with
    | none => simp only [Option.map_none]
    | some path =>
      simp only [Option.map_some, unescape_nil, Option.isSome_some, if_true]
      rw [goParseQuery_eq_parseQuery _ hsemi']

/-! ### `Query()` as a grouping of the decoded pairs -/

theorem queryStep_entry (m : GoMap (List GoString)) (pair : GoString)
    (h : pair.contains 59 = false) :
    queryStep m pair = (match pairEntry pair with | none => m | some kv => addPair m kv) := by
  unfold queryStep pairEntry
  by_cases hp : pair = []
  · simp only [hp, if_true, true_or]
  · simp only [hp, if_false, h, false_or, Bool.false_eq_true]
    cases hc : cut 61 pair with
    | mk k v =>
      simp only
      cases hk : unescape true k with
      | none => simp only
      | some k' =>
        cases hv : unescape true (v.getD []) with
        | none => simp only
        | some v' => simp only [addPair]

theorem foldl_queryStep_group : ∀ (l : List GoString) (acc : GoMap (List GoString)),
    (l.filter (fun pair => !pair.contains 59)).foldl queryStep acc =
      (l.filterMap pairEntry).foldl addPair acc
  | [], acc => rfl
  | x :: l, acc => by
    cases hx : x.contains 59 with
    | true =>
      have he : pairEntry x = none := by unfold pairEntry; simp only [hx, or_true, if_true]
      simp only [List.filter_cons, hx, Bool.not_true, Bool.false_eq_true, if_false,
        List.filterMap_cons, he]
      exact foldl_queryStep_group l acc
    | false =>
      simp only [List.filter_cons, hx, Bool.not_false, if_true, List.foldl_cons,
        List.filterMap_cons, queryStep_entry acc x hx]
      cases he : pairEntry x with
      | none => simp only; exact foldl_queryStep_group l acc
      | some kv => simp only [List.foldl_cons]; exact foldl_queryStep_group l _

/-- `Query()`: the decoded pairs that are kept, grouped by key in order -/
theorem goParseQuery_eq_group (q : GoString) :
    goParseQuery q = groupPairs ((splitOn 38 q).filterMap pairEntry) :=
  foldl_queryStep_group _ _

theorem foldl_addPair_nodup : ∀ (l : List (GoString × GoString)) (acc : GoMap (List GoString)),
    acc.keys.Nodup → (l.foldl addPair acc).keys.Nodup
  | [], _, h => h
  | kv :: l, acc, h => by
    rw [List.foldl_cons]
    exact foldl_addPair_nodup l _ (UrlL.nodup_keys_set acc _ _ h)

theorem goParseQuery_keys_nodup (q : GoString) : (goParseQuery q).keys.Nodup := by
  rw [goParseQuery_eq_group]
  exact foldl_addPair_nodup _ [] (by simp [GoMap.keys])

/-- with pairwise different keys every pair becomes its own entry -/
theorem foldl_addPair_distinct : ∀ (l : List (GoString × GoString)) (acc : GoMap (List GoString)),
    (acc.keys ++ l.map (·.1)).Nodup →
      l.foldl addPair acc = acc ++ l.map (fun kv => (kv.1, [kv.2]))
  | [], acc, _ => by simp
  | kv :: l, acc, h => by
    have hk : kv.1 ∉ acc.keys := by
      intro hm
      exact (List.nodup_append.1 h).2.2 kv.1 hm kv.1 (by simp) rfl
    rw [List.foldl_cons]
    have h1 : addPair acc kv = acc ++ [(kv.1, [kv.2])] := by
      unfold addPair
      rw [get?_none_of_not_mem acc kv.1 hk]
      exact GoMap.set_of_not_mem acc kv.1 _ hk
    rw [h1, foldl_addPair_distinct l]
    · simp
    · have : (acc ++ [(kv.1, [kv.2])]).keys ++ l.map (·.1) = acc.keys ++ (kv :: l).map (·.1) := by
        simp [GoMap.keys]
      rw [this]; exact h

theorem groupPairs_distinct (l : List (GoString × GoString)) (h : (l.map (·.1)).Nodup) :
    groupPairs l = l.map (fun kv => (kv.1, [kv.2])) := by
  unfold groupPairs
  rw [foldl_addPair_distinct l [] (by simpa [GoMap.keys] using h)]
  simp

theorem goParseQuery_perm (ps₁ ps₂ : List GoString) (hp : ps₁.Perm ps₂) (hne : ps₁ ≠ [])
    (hamp : ∀ p ∈ ps₁, (38 : UInt8) ∉ p)
    (hd : ((ps₁.filterMap pairEntry).map (·.1)).Nodup) :
    (goParseQuery (joinWith [38] ps₁)).Perm (goParseQuery (joinWith [38] ps₂)) := by
  have hne2 : ps₂ ≠ [] := by
    intro e; subst e; exact hne (List.Perm.eq_nil hp)
  have hamp2 : ∀ p ∈ ps₂, (38 : UInt8) ∉ p := fun p h => hamp p (hp.mem_iff.2 h)
  have hperm : (ps₁.filterMap pairEntry).Perm (ps₂.filterMap pairEntry) := hp.filterMap _
  have hd2 : ((ps₂.filterMap pairEntry).map (·.1)).Nodup := (hperm.map _).nodup_iff.1 hd
  rw [goParseQuery_eq_group, goParseQuery_eq_group, splitOn_joinWith 38 ps₁ hne hamp,
    splitOn_joinWith 38 ps₂ hne2 hamp2, groupPairs_distinct _ hd, groupPairs_distinct _ hd2]
  exact hperm.map _

/-! ### everything `URL.String()` writes is a plain reference -/

/-- neither a control byte, nor '#', nor ';' -/
def okB (x : UInt8) : Bool := !isCTL x && x != 35 && x != 59

set_option maxRecDepth 100000 in
theorem qe1_ok_all : (List.range 256).all (fun n => (qe1 (UInt8.ofNat n)).all okB) = true := by decide
set_option maxRecDepth 100000 in
theorem pe1_ok_all : (List.range 256).all (fun n => (pe1 (UInt8.ofNat n)).all okB) = true := by decide

set_option maxRecDepth 100000 in
theorem pe1_len_all : (List.range 256).all (fun n => decide ((pe1 (UInt8.ofNat n)).length > 0)) = true := by
  decide

theorem queryEscape_ok (s : GoString) : ∀ x ∈ queryEscape s, okB x = true := by
  intro x hx
  obtain ⟨c, _, hc⟩ := queryEscape_mem hx
  exact List.all_eq_true.1 (forall_byte (fun c => (qe1 c).all okB) qe1_ok_all c) x hc

theorem pathEscape_ok (s : GoString) : ∀ x ∈ pathEscape s, okB x = true := by
  intro x hx
  obtain ⟨c, _, hc⟩ := pathEscape_mem hx
  exact List.all_eq_true.1 (forall_byte (fun c => (pe1 c).all okB) pe1_ok_all c) x hc

set_option maxRecDepth 100000 in
theorem lit_fields_ok : ∀ x ∈ gs "fields%5B", okB x = true := by decide
set_option maxRecDepth 100000 in
theorem lit_close_ok : ∀ x ∈ gs "%5D=", okB x = true := by decide
set_option maxRecDepth 100000 in
theorem lit_pct2C_ok : ∀ x ∈ pct2C, okB x = true := by decide
set_option maxRecDepth 100000 in
theorem lit_page_ok : ∀ x ∈ gs "page%5B", okB x = true := by decide
set_option maxRecDepth 100000 in
theorem lit_filter_ok : ∀ x ∈ gs "filter=", okB x = true := by decide
set_option maxRecDepth 100000 in
theorem lit_sort_ok : ∀ x ∈ gs "sort=", okB x = true := by decide

theorem encPath_ok (fs : List GoString) : ∀ x ∈ encPath fs, okB x = true := by
  intro x hx
  cases fs with
  | nil => simp [encPath] at hx
  | cons f l =>
    have hx' : x ∈ 47 :: joinWith [47] ((f :: l).map pathEscape) := hx
    rcases List.mem_cons.1 hx' with h | h
    · subst h; decide
    · rcases mem_joinWith h with h | ⟨e, he, hc⟩
      · simp only [List.mem_singleton] at h; subst h; decide
      · obtain ⟨g, _, rfl⟩ := List.mem_map.1 he
        exact pathEscape_ok g x hc

theorem fieldPar_ok (u : URL) (t : GoString) : ∀ x ∈ fieldPar u t, okB x = true := by
  intro x hx
  unfold fieldPar at hx
  have hx := List.mem_of_mem_take hx
  simp only [List.mem_append, List.mem_flatMap] at hx
  rcases hx with ((h | h) | h) | ⟨f, _, h | h⟩
  · exact lit_fields_ok x h
  · exact queryEscape_ok _ x h
  · exact lit_close_ok x h
  · exact queryEscape_ok _ x h
  · exact lit_pct2C_ok x h

theorem pagePar_ok (u : URL) (k : GoString) : ∀ x ∈ pagePar u k, okB x = true := by
  intro x hx
  unfold pagePar at hx
  simp only [List.mem_append] at hx
  rcases hx with ((h | h) | h) | h
  · exact lit_page_ok x h
  · exact queryEscape_ok _ x h
  · exact lit_close_ok x h
  · exact queryEscape_ok _ x h

theorem pars_ok (u : URL) (env : StringEnv) :
    ∀ par ∈ fieldPars u ++ filterPars u env ++ pagePars u ++ sortPars u, ∀ x ∈ par, okB x = true := by
  intro par hpar x hx
  simp only [List.mem_append] at hpar
  rcases hpar with ((h | h) | h) | h
  · unfold fieldPars at h
    obtain ⟨t, _, rfl⟩ := List.mem_map.1 h
    exact fieldPar_ok u t x hx
  · unfold filterPars at h
    split at h
    · simp only [List.mem_singleton] at h; subst h
      rcases List.mem_append.1 hx with h | h
      · exact lit_filter_ok x h
      · exact queryEscape_ok _ x h
    · split at h
      · simp only [List.mem_singleton] at h; subst h
        rcases List.mem_append.1 hx with h | h
        · exact lit_filter_ok x h
        · exact queryEscape_ok _ x h
      · cases h
  · unfold pagePars at h
    split at h
    · obtain ⟨k, _, rfl⟩ := List.mem_map.1 h
      exact pagePar_ok u k x hx
    · cases h
  · unfold sortPars at h
    split at h
    · cases h
    · simp only [List.mem_singleton] at h; subst h
      rcases List.mem_append.1 hx with h | h
      · exact lit_sort_ok x h
      · rcases mem_joinWith h with h | ⟨e, he, hc⟩
        · exact lit_pct2C_ok x h
        · obtain ⟨g, _, rfl⟩ := List.mem_map.1 he
          exact queryEscape_ok g x hc

theorem joined_ok (pars : List GoString) (h : ∀ par ∈ pars, ∀ x ∈ par, okB x = true) :
    ∀ x ∈ joinWith [38] pars, okB x = true := by
  intro x hx
  rcases mem_joinWith hx with h' | ⟨e, he, hc⟩
  · simp only [List.mem_singleton] at h'; subst h'; decide
  · exact h e he x hc

theorem okB_facts {x : UInt8} (h : okB x = true) : isCTL x = false ∧ x ≠ 35 ∧ x ≠ 59 := by
  unfold okB at h
  simp only [Bool.and_eq_true, Bool.not_eq_true', bne_iff_ne, ne_eq] at h
  exact ⟨h.1.1, h.1.2, h.2⟩

theorem hasCTL_false_of_ok (s : GoString) (h : ∀ x ∈ s, okB x = true) : hasCTL s = false := by
  unfold hasCTL
  cases hc : s.any isCTL with
  | false => rfl
  | true =>
    obtain ⟨x, hx, hx'⟩ := List.any_eq_true.1 hc
    rw [(okB_facts (h x hx)).1] at hx'; cases hx'

/-- the path `String()` writes starts with one '/' only (its fragments are not empty) -/
theorem encPath_no_authority (fs : List GoString) (hfs : [] ∉ fs) :
    (hasPrefix (encPath fs) [47, 47] && !hasPrefix (encPath fs) [47, 47, 47]) = false := by
  cases fs with
  | nil => rfl
  | cons f l =>
    have hf : f ≠ [] := fun e => hfs (by simp [e])
    cases f with
    | nil => exact absurd rfl hf
    | cons c f' =>
      have hj : ∃ y rest, joinWith [47] ((( c :: f') :: l).map pathEscape) = y :: rest ∧ y ≠ 47 := by
        have hpe : ∃ y r, pathEscape (c :: f') = y :: r ∧ y ≠ 47 := by
          rw [pathEscape_cons]
          cases hp : pe1 c with
          | nil =>
            exfalso
            have : ((pe1 c).length > 0) = true := by
              have := forall_byte (fun c => decide ((pe1 c).length > 0)) pe1_len_all c
              simpa using this
            rw [hp] at this; simp at this
          | cons y r =>
            refine ⟨y, r ++ pathEscape f', rfl, ?_⟩
            exact (pe1_no_struct (c := c) (x := y) (by rw [hp]; exact List.mem_cons_self)).1
        obtain ⟨y, r, hy, hne⟩ := hpe
        cases l with
        | nil => exact ⟨y, r, by simp only [List.map_cons, List.map_nil, joinWith_single, hy], hne⟩
        | cons g l' =>
          exact ⟨y, r ++ [47] ++ joinWith [47] ((g :: l').map pathEscape),
            by simp only [List.map_cons, joinWith_cons_cons, hy, List.cons_append], hne⟩
      obtain ⟨y, rest, hy, hne⟩ := hj
      have he : encPath ((c :: f') :: l) = 47 :: y :: rest := by
        show 47 :: joinWith [47] (((c :: f') :: l).map pathEscape) = _
        rw [hy]
      rw [he]
      simp [hasPrefix, List.isPrefixOf]
      intro e; exact absurd e.symm hne

theorem encPath_firstSeg (fs : List GoString) : (cut 47 (encPath fs)).1 = [] := by
  cases fs with
  | nil => rfl
  | cons f l =>
    show (cut 47 (47 :: joinWith [47] ((f :: l).map pathEscape))).1 = []
    rw [cut_cons_eq]

/-- what `URL.String()` writes is a plain reference -/
theorem string_plainRef (u : URL) (env : StringEnv) (hfs : [] ∉ u.fragments) :
    plainRef (u.string env) = true := by
  have hpars := pars_ok u env
  have hq : (63 : UInt8) ∉ encPath u.fragments := encPath_no_q _
  rw [string_eq]
  generalize fieldPars u ++ filterPars u env ++ pagePars u ++ sortPars u = pars at hpars
  have hall : ∀ x ∈ encPath u.fragments ++ (if pars.isEmpty then [] else [63] ++ joinWith [38] pars),
      okB x = true := by
    intro x hx
    rcases List.mem_append.1 hx with h | h
    · exact encPath_ok _ x h
    · split at h
      · cases h
      · rcases List.mem_append.1 h with h | h
        · simp only [List.mem_singleton] at h; subst h; decide
        · exact joined_ok pars hpars x h
  have hcut : cut 63 (encPath u.fragments ++ (if pars.isEmpty then [] else [63] ++ joinWith [38] pars)) =
      (encPath u.fragments, if pars.isEmpty then none else some (joinWith [38] pars)) := by
    cases pars.isEmpty with
    | true => simp only [if_true, List.append_nil]; exact cut_of_not_mem 63 _ hq
    | false =>
      simp only [Bool.false_eq_true, if_false, List.cons_append, List.nil_append]
      exact cut_append_sep 63 _ _ hq
  unfold plainRef
  rw [hcut]
  simp only [encPath_firstSeg, encPath_no_authority u.fragments hfs, hasCTL_false_of_ok _ hall,
    Bool.not_false, Bool.true_and, Bool.and_true, Bool.and_eq_true, Bool.not_eq_true']
  refine ⟨⟨?_, rfl⟩, ?_⟩
  · exact (contains_false_iff _ _).2 (fun hm => (okB_facts (hall 35 hm)).2.1 rfl)
  · apply (contains_false_iff _ _).2
    intro hm
    cases hp : pars.isEmpty with
    | true => rw [hp] at hm; simp at hm
    | false =>
      rw [hp] at hm
      simp only [Bool.false_eq_true, if_false, Option.getD_some] at hm
      exact (okB_facts (joined_ok pars hpars 59 hm)).2.2 rfl

/-! ### the path does not depend on the query -/

theorem schemeTail_suffix : ∀ (s r : GoString), schemeTail s = some r → ∀ x ∈ r, x ∈ s
  | [], r, h, _, _ => by simp [schemeTail] at h
  | c :: rest, r, h, x, hx => by
    unfold schemeTail at h
    by_cases hb : isSchemeByte c = true
    · rw [if_pos hb] at h
      exact List.mem_cons_of_mem _ (schemeTail_suffix rest r h x hx)
    · rw [if_neg hb] at h
      by_cases hc : c = 58
      · rw [if_pos hc] at h; cases h; exact List.mem_cons_of_mem _ hx
      · rw [if_neg hc] at h; cases h

theorem schemeTail_append (q : GoString) : ∀ (s : GoString), (63 : UInt8) ∉ s →
    schemeTail (s ++ 63 :: q) = (schemeTail s).map (· ++ 63 :: q)
  | [], _ => by
    show schemeTail (63 :: q) = none
    unfold schemeTail
    rw [if_neg (by decide), if_neg (by decide)]
  | c :: rest, h => by
    have hr : (63 : UInt8) ∉ rest := fun e => h (List.mem_cons_of_mem _ e)
    show schemeTail (c :: (rest ++ 63 :: q)) = (schemeTail (c :: rest)).map (· ++ 63 :: q)
    unfold schemeTail
    by_cases hb : isSchemeByte c = true
    · rw [if_pos hb, if_pos hb]; exact schemeTail_append q rest hr
    · rw [if_neg hb, if_neg hb]
      by_cases hc : c = 58
      · rw [if_pos hc, if_pos hc]; rfl
      · rw [if_neg hc, if_neg hc]; rfl

/-- `parse` on the text before the '?': the path, or an error -/
def pathPart (pre : GoString) : Option GoString :=
  if hasCTL pre then none
  else match getScheme pre with
    | .missing => none
    | .present r => pathOf true r
    | .absent => pathOf false pre

theorem afterScheme_append (b : Bool) (r q : GoString) (h : (63 : UInt8) ∉ r) :
    afterScheme b (r ++ 63 :: q) = (pathOf b r).map (fun p => (p, q)) := by
  unfold afterScheme
  rw [cut_append_sep 63 r q h]
  rfl

theorem goParseNoFrag_query (pre q : GoString) (h : (63 : UInt8) ∉ pre) :
    goParseNoFrag (pre ++ 63 :: q) =
      if hasCTL q then none else (pathPart pre).map (fun p => (p, q)) := by
  unfold goParseNoFrag pathPart
  have hctl : hasCTL (pre ++ 63 :: q) = (hasCTL pre || hasCTL q) := by
    unfold hasCTL
    rw [List.any_append, List.any_cons]
    have : isCTL 63 = false := by decide
    rw [this, Bool.false_or]
  rw [hctl]
  cases hp : hasCTL pre with
  | true => cases hasCTL q <;> rfl
  | false =>
    cases hq : hasCTL q with
    | true => rfl
    | false =>
      simp only [Bool.or_false, Bool.false_eq_true, if_false]
      cases pre with
      | nil =>
        show (match getScheme (63 :: q) with
          | .missing => none | .present r => afterScheme true r | .absent => afterScheme false (63 :: q)) = _
        have : getScheme (63 :: q) = .absent := by
          simp only [getScheme]
          rw [if_neg (by decide), if_neg (by decide)]
        rw [this]
        exact afterScheme_append false [] q (by simp)
      | cons c rest =>
        have hr : (63 : UInt8) ∉ rest := fun e => h (List.mem_cons_of_mem _ e)
        show (match getScheme (c :: (rest ++ 63 :: q)) with
          | .missing => none | .present r => afterScheme true r
          | .absent => afterScheme false (c :: rest ++ 63 :: q)) = _
        simp only [getScheme]
        by_cases ha : isAlpha c = true
        · rw [if_pos ha, if_pos ha, schemeTail_append q rest hr]
          cases ht : schemeTail rest with
          | none => exact afterScheme_append false (c :: rest) q h
          | some r =>
            have h63 : (63 : UInt8) ∉ r := fun e => hr (schemeTail_suffix rest r ht 63 e)
            exact afterScheme_append true r q h63
        · rw [if_neg ha, if_neg ha]
          by_cases hc : c = 58
          · rw [if_pos hc]; rfl
          · rw [if_neg hc]
            exact afterScheme_append false (c :: rest) q h

/-- `url.Parse` + `Query()` of `pre?q` without '#': the path comes from `pre`, the values from
`q`; a control byte in `q` is an error -/
theorem goUrlParse_query (pre q : GoString) (h63 : (63 : UInt8) ∉ pre) (hp : (35 : UInt8) ∉ pre)
    (hq : (35 : UInt8) ∉ q) :
    goUrlParse (pre ++ 63 :: q) =
      if hasCTL q then none else (pathPart pre).map (fun p => (p, goParseQuery q)) := by
  have h35 : (35 : UInt8) ∉ pre ++ 63 :: q := by
    intro e
    rcases List.mem_append.1 e with e | e
    · exact hp e
    · rcases List.mem_cons.1 e with e | e
      · revert e; decide
      · exact hq e
  unfold goUrlParse
  rw [cut_of_not_mem 35 _ h35]
  simp only [Option.getD_none, unescape_nil, Option.isSome_some, if_true]
  rw [goParseNoFrag_query pre q h63]
  cases hasCTL q with
  | true => rfl
  | false =>
    simp only [Bool.false_eq_true, if_false]
    cases pathPart pre <;> rfl

theorem hasCTL_joinWith : ∀ (ps : List GoString), hasCTL (joinWith [38] ps) = ps.any hasCTL
  | [] => rfl
  | [x] => by simp [joinWith_single]
  | x :: y :: ys => by
    rw [joinWith_cons_cons, List.any_cons, ← hasCTL_joinWith (y :: ys)]
    unfold hasCTL
    rw [List.any_append, List.any_append]
    have : [38].any isCTL = false := by decide
    rw [this, Bool.or_false]

theorem any_perm {α : Type} (p : α → Bool) {l₁ l₂ : List α} (h : l₁.Perm l₂) :
    l₁.any p = l₂.any p := by
  rw [Bool.eq_iff_iff, List.any_eq_true, List.any_eq_true]
  constructor
  · rintro ⟨x, hx, hp⟩; exact ⟨x, h.mem_iff.1 hx, hp⟩
  · rintro ⟨x, hx, hp⟩; exact ⟨x, h.mem_iff.2 hx, hp⟩

/-- Permuting the differently named `&`-separated pieces of the query of a raw string
changes neither whether `url.Parse` accepts it nor the path, and permutes the values map. -/
theorem goUrlParse_perm (pre : GoString) (ps₁ ps₂ : List GoString) (hperm : ps₁.Perm ps₂)
    (hne : ps₁ ≠ []) (hamp : ∀ p ∈ ps₁, (38 : UInt8) ∉ p) (hhash : ∀ p ∈ ps₁, (35 : UInt8) ∉ p)
    (hd : ((ps₁.filterMap pairEntry).map (·.1)).Nodup)
    (h63 : (63 : UInt8) ∉ pre) (h35 : (35 : UInt8) ∉ pre) :
    (goUrlParse (pre ++ 63 :: joinWith [38] ps₁) = none ∧
      goUrlParse (pre ++ 63 :: joinWith [38] ps₂) = none) ∨
    ∃ path v₁ v₂, goUrlParse (pre ++ 63 :: joinWith [38] ps₁) = some (path, v₁) ∧
      goUrlParse (pre ++ 63 :: joinWith [38] ps₂) = some (path, v₂) ∧ v₁.Perm v₂ := by
  have hq : ∀ ps : List GoString, (∀ p ∈ ps, (35 : UInt8) ∉ p) → (35 : UInt8) ∉ joinWith [38] ps := by
    intro ps h e
    rcases mem_joinWith e with e | ⟨p, hp, e⟩
    · revert e; decide
    · exact h p hp e
  have hhash2 : ∀ p ∈ ps₂, (35 : UInt8) ∉ p := fun p h => hhash p (hperm.mem_iff.2 h)
  rw [goUrlParse_query pre _ h63 h35 (hq ps₁ hhash), goUrlParse_query pre _ h63 h35 (hq ps₂ hhash2),
    hasCTL_joinWith, hasCTL_joinWith, any_perm hasCTL hperm]
  cases ps₂.any hasCTL with
  | true => exact Or.inl ⟨rfl, rfl⟩
  | false =>
    simp only [Bool.false_eq_true, if_false]
    cases pathPart pre with
    | none => exact Or.inl ⟨rfl, rfl⟩
    | some path =>
      exact Or.inr ⟨path, _, _, rfl, rfl, goParseQuery_perm ps₁ ps₂ hperm hne hamp hd⟩

end Jsonapi.UrlFullL
