/-
Lemmas for Props/GenC15b: the loop shapes the translator (harness/cmd/translate) produces for
`Schema.Check`, `Schema.buildRels`, `Schema.Rels` and `Type.Copy` - folds that append to a
slice, a flag set in a loop, a map used as a set, a map copied entry by entry - related to
the list functions the hand-written model uses.
-/
import Jsonapi.Model.Schema
import Jsonapi.Proofs.SchemaLemmas
namespace Jsonapi
namespace GenC15b

/-- A loop whose every step appends to the slice it carries is the concatenation of what the
steps append. -/
theorem foldl_append {α β : Type} (l : List α) (g : α → List β) (f : List β → α → List β)
    (h : ∀ acc x, x ∈ l → f acc x = acc ++ g x) (init : List β) :
    l.foldl f init = init ++ l.flatMap g := by
  induction l generalizing init with
  | nil => simp
  | cons a l ih =>
    rw [List.foldl_cons, h init a (List.mem_cons_self ..),
      ih (fun acc x hx => h acc x (List.mem_cons_of_mem _ hx)), List.flatMap_cons, List.append_assoc]

/-- `found := false; for … { if p e { found = true } }` -/
theorem foldl_flag {α : Type} (p : α → Bool) (l : List α) (b : Bool) :
    l.foldl (fun found e => if p e = true then true else found) b = (b || l.any p) := by
  induction l generalizing b with
  | nil => simp
  | cons a l ih =>
    rw [List.foldl_cons, ih, List.any_cons]
    cases p a <;> cases b <;> simp

/-- `found, one := false, true; for … { if c e { found = true; one = one && v e } }`: whether an
element satisfies `c`, and whether all that do satisfy `v`. -/
theorem foldl_found_one {α : Type} (c v : α → Bool) (f : Bool × Bool → α → Bool × Bool)
    (hf : ∀ a b e, f (a, b) e = if c e = true then (true, b && v e) else (a, b))
    (l : List α) (a b : Bool) :
    l.foldl f (a, b) = (a || l.any c, b && (l.filter c).all v) := by
  induction l generalizing a b with
  | nil => simp
  | cons e l ih =>
    rw [List.foldl_cons, hf]
    cases hc : c e
    · simp [ih, hc]
    · simp [ih, hc, Bool.and_assoc]

/-- A loop that carries a pair whose first component every step sets anew (a range variable
read as a local copy) is, for the second component, the loop without it. -/
theorem foldl_snd {α β γ : Type} (f : α × β → γ → α × β) (g : β → γ → β)
    (h : ∀ a b e, (f (a, b) e).2 = g b e) (l : List γ) (init : α × β) :
    (l.foldl f init).2 = l.foldl g init.2 := by
  induction l generalizing init with
  | nil => rfl
  | cons e l ih =>
    obtain ⟨a, b⟩ := init
    rw [List.foldl_cons, ih, List.foldl_cons, h]

theorem length_flatMap_replicate {α β : Type} (l : List α) (n : α → Nat) (b : β) :
    (l.flatMap (fun x => List.replicate (n x) b)).length = (l.map n).sum := by
  induction l with
  | nil => rfl
  | cons a l ih => simp [List.flatMap_cons, ih]

theorem foldl_add_eq_sum {α : Type} (l : List α) (n : α → Nat) (k : Nat) :
    l.foldl (fun acc e => acc + n e) k = k + (l.map n).sum := by
  induction l generalizing k with
  | nil => simp
  | cons a l ih => rw [List.foldl_cons, ih]; simp [Nat.add_assoc]

/-- Dropping the entries with no error does not change the total. -/
theorem sum_filterMap_pos {α : Type} (l : List α) (n : α → Nat) (tag : α → GoString × GoString) :
    ((l.filterMap (fun p => if n p = 0 then none else some ((tag p).1, (tag p).2, n p))).map (·.2.2)).sum
      = (l.map n).sum := by
  induction l with
  | nil => rfl
  | cons a l ih =>
    rw [List.filterMap_cons]
    by_cases h : n a = 0
    · simp [h, ih]
    · simp [h, ih]

/-! ### a map with structure keys used as a set -/

/-- `Gen.mapSet` with the value `()` (the translator's `m[k] = struct{}{}`), restated here so
that this file does not depend on the generated one. -/
def setAdd {κ : Type} [DecidableEq κ] (m : List (κ × Unit)) (k : κ) : List (κ × Unit) :=
  match m with
  | [] => [(k, ())]
  | (k', v') :: rest => if k' = k then (k, ()) :: rest else (k', v') :: setAdd rest k

theorem setAdd_keys {κ : Type} [DecidableEq κ] (m : List (κ × Unit)) (k : κ) :
    (setAdd m k).map (·.1) = if k ∈ m.map (·.1) then m.map (·.1) else m.map (·.1) ++ [k] := by
  induction m with
  | nil => simp [setAdd]
  | cons e m ih =>
    obtain ⟨k', u⟩ := e
    unfold setAdd
    by_cases hk : k' = k
    · subst hk; simp
    · have hk' : ¬ k = k' := fun h => hk h.symm
      simp only [hk, if_false, List.map_cons, ih, List.mem_cons, hk', false_or]
      split <;> simp

theorem mem_setAdd {κ : Type} [DecidableEq κ] (m : List (κ × Unit)) (k x : κ) :
    x ∈ (setAdd m k).map (·.1) ↔ x = k ∨ x ∈ m.map (·.1) := by
  rw [setAdd_keys]
  split
  · rename_i h; constructor
    · exact fun h' => .inr h'
    · rintro (h' | h')
      · subst h'; exact h
      · exact h'
  · simp [or_comm]

theorem nodup_setAdd {κ : Type} [DecidableEq κ] (m : List (κ × Unit)) (k : κ)
    (h : (m.map (·.1)).Nodup) : ((setAdd m k).map (·.1)).Nodup := by
  rw [setAdd_keys]
  split
  · exact h
  · rename_i hk
    rw [List.nodup_append]
    refine ⟨h, by simp, ?_⟩
    intro a ha b hb
    simp only [List.mem_singleton] at hb
    subst hb
    exact fun e => hk (e ▸ ha)

/-- A loop that adds `f e` for every element. -/
theorem mem_foldl_setAdd {α κ : Type} [DecidableEq κ] (l : List α) (f : α → κ)
    (m : List (κ × Unit)) (x : κ) :
    x ∈ (l.foldl (fun m e => setAdd m (f e)) m).map (·.1) ↔ x ∈ m.map (·.1) ∨ ∃ e ∈ l, f e = x := by
  induction l generalizing m with
  | nil => simp
  | cons a l ih =>
    rw [List.foldl_cons, ih, mem_setAdd]
    constructor
    · rintro ((h | h) | ⟨e, he, h⟩)
      · exact .inr ⟨a, List.mem_cons_self .., h.symm⟩
      · exact .inl h
      · exact .inr ⟨e, List.mem_cons_of_mem _ he, h⟩
    · rintro (h | ⟨e, he, h⟩)
      · exact .inl (.inr h)
      · rcases List.mem_cons.1 he with rfl | he
        · exact .inl (.inl h.symm)
        · exact .inr ⟨e, he, h⟩

theorem nodup_foldl_setAdd {α κ : Type} [DecidableEq κ] (l : List α) (f : α → κ)
    (m : List (κ × Unit)) (h : (m.map (·.1)).Nodup) :
    ((l.foldl (fun m e => setAdd m (f e)) m).map (·.1)).Nodup := by
  induction l generalizing m with
  | nil => exact h
  | cons a l ih => rw [List.foldl_cons]; exact ih _ (nodup_setAdd _ _ h)

/-- `for k := range set { xs = append(xs, k) }` -/
theorem foldl_collect {κ β : Type} (m : List (κ × β)) (init : List κ) :
    m.foldl (fun xs e => xs ++ [e.1]) init = init ++ m.map (·.1) := by
  induction m generalizing init with
  | nil => simp
  | cons e m ih => rw [List.foldl_cons, ih]; simp

/-! ### a map copied entry by entry -/

theorem set_append_new {β : Type} (m : GoMap β) (k : GoString) (v : β) (h : k ∉ m.keys) :
    GoMap.set m k v = m ++ [(k, v)] := by
  induction m with
  | nil => rfl
  | cons e m ih =>
    obtain ⟨k', v'⟩ := e
    simp only [GoMap.keys, List.map_cons, List.mem_cons, not_or] at h
    unfold GoMap.set
    have hk : ¬ k' = k := fun e => h.1 e.symm
    simp only [hk, if_false, List.cons_append]
    rw [ih (by simpa [GoMap.keys] using h.2)]

/-- `for k, v := range src { dst[k] = v }` into a map none of whose keys is in `src`: the
entries of `src`, in iteration order, after those of `dst`. -/
theorem foldl_set_copy {β : Type} (src dst : GoMap β) (hs : src.keys.Nodup)
    (hd : ∀ k ∈ src.keys, k ∉ dst.keys) :
    src.foldl (fun m e => GoMap.set m e.1 e.2) dst = dst ++ src := by
  induction src generalizing dst with
  | nil => simp
  | cons e src ih =>
    simp only [GoMap.keys, List.map_cons, List.nodup_cons] at hs
    rw [List.foldl_cons, set_append_new _ _ _ (hd e.1 (by simp [GoMap.keys]))]
    rw [ih _ hs.2]
    · simp
    · intro k hk hk'
      simp only [GoMap.keys, List.map_append, List.map_cons, List.map_nil, List.mem_append,
        List.mem_singleton] at hk'
      rcases hk' with hk' | hk'
      · exact hd k (by simp only [GoMap.keys, List.map_cons, List.mem_cons]; exact .inr hk) hk'
      · subst hk'; exact hs.1 hk

end GenC15b
end Jsonapi
