/-
Helper lemmas for C04 / C03, part 2: member lookup in sorted objects, the members of
`Spec.resourceObject`, `sortStrings`, `sortById`, collections and documents.
-/
import Jsonapi.Proofs.MarshalLemmas
namespace Jsonapi.MarshalL
open Jsonapi

/-! ### lookup in objects whose members were sorted -/

theorem sortMembers_perm (l : List (GoString × Json)) : (sortMembers l).Perm l :=
  List.mergeSort_perm _ _

theorem find?_key_of_mem {l : List (GoString × Json)} (hnd : (l.map (·.1)).Nodup)
    {k : GoString} {v : Json} (h : (k, v) ∈ l) :
    l.find? (fun p => p.1 = k) = some (k, v) := by
  induction l with
  | nil => cases h
  | cons p l ih =>
    obtain ⟨k', v'⟩ := p
    simp only [List.map_cons, List.nodup_cons] at hnd
    rcases List.mem_cons.1 h with e | h'
    · cases e; simp
    · have hk : k ∈ l.map (·.1) := List.mem_map.2 ⟨(k, v), h', rfl⟩
      have hne : ¬ k' = k := fun e => hnd.1 (e ▸ hk)
      simp only [List.find?_cons, hne, decide_false]
      exact ih hnd.2 h'

theorem find?_key_none {l : List (GoString × Json)} {k : GoString} (h : k ∉ l.map (·.1)) :
    l.find? (fun p => p.1 = k) = none := by
  rw [List.find?_eq_none]
  intro p hp
  simp only [decide_eq_true_eq]
  intro e
  exact h (List.mem_map.2 ⟨p, hp, e⟩)

theorem mem_of_find?_key {l : List (GoString × Json)} {k : GoString} {p : GoString × Json}
    (h : l.find? (fun p => p.1 = k) = some p) : p ∈ l ∧ p.1 = k := by
  have h1 := List.mem_of_find?_eq_some h
  have h2 := List.find?_some h
  exact ⟨h1, by simpa using h2⟩

theorem get?_sortMembers_of_mem {l : List (GoString × Json)} (hnd : (l.map (·.1)).Nodup)
    {k : GoString} {v : Json} (h : (k, v) ∈ l) :
    (Json.obj (sortMembers l)).get? k = some v := by
  have hp := sortMembers_perm l
  have hnd' : ((sortMembers l).map (·.1)).Nodup := (hp.map _).nodup_iff.2 hnd
  simp only [Json.get?, find?_key_of_mem hnd' (hp.mem_iff.2 h), Option.map_some]

theorem get?_sortMembers_none {l : List (GoString × Json)} {k : GoString}
    (h : k ∉ l.map (·.1)) : (Json.obj (sortMembers l)).get? k = none := by
  have hp := sortMembers_perm l
  have h' : k ∉ (sortMembers l).map (·.1) := fun hk => h ((hp.map _).mem_iff.1 hk)
  simp only [Json.get?, find?_key_none h', Option.map_none]

theorem mem_of_get?_sortMembers {l : List (GoString × Json)} {k : GoString} {v : Json}
    (h : (Json.obj (sortMembers l)).get? k = some v) : (k, v) ∈ l := by
  simp only [Json.get?, Option.map_eq_some_iff] at h
  obtain ⟨p, hp, rfl⟩ := h
  obtain ⟨h1, h2⟩ := mem_of_find?_key hp
  subst h2
  exact (sortMembers_perm l).mem_iff.1 h1

theorem has_sortMembers {l : List (GoString × Json)} {k : GoString} :
    (Json.obj (sortMembers l)).has k = true ↔ k ∈ l.map (·.1) := by
  constructor
  · intro h
    unfold Json.has at h
    rw [Option.isSome_iff_exists] at h
    obtain ⟨v, hv⟩ := h
    exact List.mem_map.2 ⟨(k, v), mem_of_get?_sortMembers hv, rfl⟩
  · intro h
    false_or_by_contra
    rename_i hn
    unfold Json.has at hn
    have hnone : (Json.obj (sortMembers l)).get? k = none := by
      cases hg : (Json.obj (sortMembers l)).get? k with
      | none => rfl
      | some v => rw [hg] at hn; simp at hn
    simp only [Json.get?, Option.map_eq_none_iff, List.find?_eq_none, decide_eq_true_eq] at hnone
    obtain ⟨p, hp, rfl⟩ := List.mem_map.1 h
    exact hnone p ((sortMembers_perm l).mem_iff.2 hp) rfl

/-! ### `sortStrings` is a permutation -/

theorem insertSorted_perm (x : GoString) (l : List GoString) :
    (Typ.insertSorted x l).Perm (x :: l) := by
  induction l with
  | nil => exact List.Perm.refl _
  | cons y ys ih =>
    unfold Typ.insertSorted
    split
    · exact List.Perm.refl _
    · exact (List.Perm.cons y ih).trans (List.Perm.swap x y ys)

theorem sortStrings_perm (l : List GoString) : (Typ.sortStrings l).Perm l := by
  induction l with
  | nil => exact List.Perm.refl _
  | cons x l ih =>
    show (Typ.insertSorted x (Typ.sortStrings l)).Perm (x :: l)
    exact (insertSorted_perm x _).trans (List.Perm.cons x ih)

/-! ### `sortById` is a permutation -/

theorem sortById_ins_perm (x : ResView) (l : List ResView) :
    (sortById.ins x l).Perm (x :: l) := by
  induction l with
  | nil => exact List.Perm.refl _
  | cons y ys ih =>
    unfold sortById.ins
    split
    · exact (List.Perm.cons y ih).trans (List.Perm.swap x y ys)
    · exact List.Perm.refl _

theorem sortById_perm (l : List ResView) : (sortById l).Perm l := by
  induction l with
  | nil => exact List.Perm.refl _
  | cons x l ih =>
    show (sortById.ins x (sortById l)).Perm (x :: l)
    exact (sortById_ins_perm x _).trans (List.Perm.cons x ih)

theorem sortById_isEmpty (l : List ResView) : (sortById l).isEmpty = l.isEmpty := by
  have := (sortById_perm l).length_eq
  cases l <;> cases h : sortById _ <;> simp_all

/-! ### the members of `Spec.resourceObject` -/

def attrMembers (r : ResView) (fields : List GoString) : List (GoString × Json) :=
  ((GoMap.vals r.attrs).filter (fun a => fields.contains a.name)).map
    (fun a => (a.name, encodeAttr (r.get a.name)))

/-- the document's list of relationships whose data is wanted, for the resource's type -/
def wantOf (r : ResView) (relData : GoMap (List GoString)) : List GoString :=
  (relData.get? r.typeName).getD []

def topMembers (r : ResView) (prepath : GoString) (fields : List GoString)
    (relData : GoMap (List GoString)) (rmeta : Meta) : List (GoString × Json) :=
  [(K.id, Json.str r.id), (K.type, Json.str r.typeName),
   (K.links, Json.obj [(K.self, .str (buildSelfLink r prepath))])] ++
  (if (attrMembers r fields).isEmpty then []
   else [(K.attributes, Json.obj (sortMembers (attrMembers r fields)))]) ++
  (if (relMembers r prepath fields (wantOf r relData) r.rels).isEmpty then []
   else [(K.relationships,
      Json.obj (sortMembers (relMembers r prepath fields (wantOf r relData) r.rels)))]) ++
  (if rmeta.isEmpty then [] else [(K.kmeta, Json.obj rmeta)])

theorem resourceObject_eq (r : ResView) (prepath : GoString) (fields : List GoString)
    (relData : GoMap (List GoString)) (rmeta : Meta) :
    Spec.resourceObject r prepath fields relData rmeta =
      .obj (sortMembers (topMembers r prepath fields relData rmeta)) := rfl

theorem topMembers_nodup (r : ResView) (prepath : GoString) (fields : List GoString)
    (relData : GoMap (List GoString)) (rmeta : Meta) :
    ((topMembers r prepath fields relData rmeta).map (·.1)).Nodup := by
  unfold topMembers
  cases (attrMembers r fields).isEmpty <;>
  cases (relMembers r prepath fields (wantOf r relData) r.rels).isEmpty <;>
  cases rmeta.isEmpty <;>
  (simp only [Bool.false_eq_true, if_false, if_true, List.append_nil, List.cons_append,
      List.nil_append, List.map_cons, List.map_nil]; decide)

theorem resObj_get_id (r : ResView) (prepath : GoString) (fields : List GoString)
    (relData : GoMap (List GoString)) (rmeta : Meta) :
    (Spec.resourceObject r prepath fields relData rmeta).get? K.id = some (.str r.id) := by
  rw [resourceObject_eq]
  exact get?_sortMembers_of_mem (topMembers_nodup ..) (by simp [topMembers])

theorem resObj_get_type (r : ResView) (prepath : GoString) (fields : List GoString)
    (relData : GoMap (List GoString)) (rmeta : Meta) :
    (Spec.resourceObject r prepath fields relData rmeta).get? K.type = some (.str r.typeName) := by
  rw [resourceObject_eq]
  exact get?_sortMembers_of_mem (topMembers_nodup ..) (by simp [topMembers])

theorem resObj_get_links (r : ResView) (prepath : GoString) (fields : List GoString)
    (relData : GoMap (List GoString)) (rmeta : Meta) :
    (Spec.resourceObject r prepath fields relData rmeta).get? K.links =
      some (.obj [(K.self, .str (buildSelfLink r prepath))]) := by
  rw [resourceObject_eq]
  exact get?_sortMembers_of_mem (topMembers_nodup ..) (by simp [topMembers])

theorem resObj_get_attributes (r : ResView) (prepath : GoString) (fields : List GoString)
    (relData : GoMap (List GoString)) (rmeta : Meta) :
    (Spec.resourceObject r prepath fields relData rmeta).get? K.attributes =
      if (attrMembers r fields).isEmpty then none
      else some (.obj (sortMembers (attrMembers r fields))) := by
  rw [resourceObject_eq]
  split
  · rename_i h
    apply get?_sortMembers_none
    unfold topMembers
    rw [if_pos h]
    cases (relMembers r prepath fields (wantOf r relData) r.rels).isEmpty <;>
    cases rmeta.isEmpty <;>
    (simp only [Bool.false_eq_true, if_false, if_true, List.append_nil, List.cons_append,
      List.nil_append, List.map_cons, List.map_nil]; decide)
  · rename_i h
    exact get?_sortMembers_of_mem (topMembers_nodup ..) (by simp [topMembers, h])

theorem resObj_get_relationships (r : ResView) (prepath : GoString) (fields : List GoString)
    (relData : GoMap (List GoString)) (rmeta : Meta) :
    (Spec.resourceObject r prepath fields relData rmeta).get? K.relationships =
      if (relMembers r prepath fields (wantOf r relData) r.rels).isEmpty then none
      else some (.obj (sortMembers (relMembers r prepath fields (wantOf r relData) r.rels))) := by
  rw [resourceObject_eq]
  split
  · rename_i h
    apply get?_sortMembers_none
    unfold topMembers
    rw [if_pos h]
    cases (attrMembers r fields).isEmpty <;>
    cases rmeta.isEmpty <;>
    (simp only [Bool.false_eq_true, if_false, if_true, List.append_nil, List.cons_append,
      List.nil_append, List.map_cons, List.map_nil]; decide)
  · rename_i h
    exact get?_sortMembers_of_mem (topMembers_nodup ..) (by simp [topMembers, h])

theorem mem_keys_attrMembers {r : ResView} {fields : List GoString} {n : GoString} :
    n ∈ (attrMembers r fields).map (·.1) ↔ (∃ a ∈ GoMap.vals r.attrs, a.name = n) ∧ n ∈ fields := by
  simp only [attrMembers, List.map_map, List.mem_map, List.mem_filter, Function.comp,
    List.contains_iff_mem]
  constructor
  · rintro ⟨a, ⟨ha, hf⟩, rfl⟩; exact ⟨⟨a, ha, rfl⟩, hf⟩
  · rintro ⟨⟨a, ha, rfl⟩, hf⟩; exact ⟨a, ⟨ha, hf⟩, rfl⟩

theorem mem_keys_relMembers {r : ResView} {prepath : GoString} {fields want : List GoString}
    {n : GoString} :
    n ∈ (relMembers r prepath fields want r.rels).map (·.1) ↔
      (∃ rel ∈ GoMap.vals r.rels, rel.fromName = n) ∧ n ∈ fields := by
  simp only [relMembers, List.map_map, List.mem_map, List.mem_filter, Function.comp,
    List.contains_iff_mem]
  constructor
  · rintro ⟨a, ⟨ha, hf⟩, rfl⟩; exact ⟨⟨a, ha, rfl⟩, hf⟩
  · rintro ⟨⟨a, ha, rfl⟩, hf⟩; exact ⟨a, ⟨ha, hf⟩, rfl⟩

/-- `attributes` member present with key `n` iff `n` is a key of the selected attributes -/
theorem resObj_attr_has (r : ResView) (prepath : GoString) (fields : List GoString)
    (relData : GoMap (List GoString)) (rmeta : Meta) (n : GoString) :
    (∃ a, (Spec.resourceObject r prepath fields relData rmeta).get? K.attributes = some a ∧
        a.has n = true) ↔ n ∈ (attrMembers r fields).map (·.1) := by
  rw [resObj_get_attributes]
  split
  · rename_i h
    simp only [List.isEmpty_iff] at h
    simp [h]
  · simp [has_sortMembers]

theorem resObj_rel_has (r : ResView) (prepath : GoString) (fields : List GoString)
    (relData : GoMap (List GoString)) (rmeta : Meta) (n : GoString) :
    (∃ a, (Spec.resourceObject r prepath fields relData rmeta).get? K.relationships = some a ∧
        a.has n = true) ↔
      n ∈ (relMembers r prepath fields (wantOf r relData) r.rels).map (·.1) := by
  rw [resObj_get_relationships]
  split
  · rename_i h
    simp only [List.isEmpty_iff] at h
    simp [h]
  · simp [has_sortMembers]

/-! ### lookups by name (unique names) -/

theorem nodup_map_filter {α β} (f : α → β) (p : α → Bool) {l : List α} (h : (l.map f).Nodup) :
    ((l.filter p).map f).Nodup :=
  (List.Sublist.map f List.filter_sublist).nodup h

theorem relMembers_keys_nodup {r : ResView} (hr : r.keyedWf) (prepath : GoString)
    (fields want : List GoString) :
    ((relMembers r prepath fields want r.rels).map (·.1)).Nodup := by
  have h := rel_names_nodup hr
  simp only [relMembers, List.map_map]
  have h2 : ((GoMap.vals r.rels).map (·.fromName)).Nodup := by
    rw [GoMap.vals, List.map_map]; exact h
  exact nodup_map_filter _ _ h2

theorem attrMembers_keys_nodup {r : ResView} (hr : r.keyedWf) (fields : List GoString) :
    ((attrMembers r fields).map (·.1)).Nodup := by
  have h := attr_names_nodup hr
  simp only [attrMembers, List.map_map]
  have h2 : ((GoMap.vals r.attrs).map (·.name)).Nodup := by
    rw [GoMap.vals, List.map_map]; exact h
  exact nodup_map_filter _ _ h2

theorem resObj_attr_value {r : ResView} (hr : r.keyedWf) (prepath : GoString)
    (fields : List GoString) (relData : GoMap (List GoString)) (rmeta : Meta)
    {a : Attr} (ha : a ∈ GoMap.vals r.attrs) (hf : a.name ∈ fields) :
    ∃ o, (Spec.resourceObject r prepath fields relData rmeta).get? K.attributes = some o ∧
      o.get? a.name = some (encodeAttr (r.get a.name)) := by
  have hmem : (a.name, encodeAttr (r.get a.name)) ∈ attrMembers r fields := by
    simp only [attrMembers, List.mem_map, List.mem_filter, List.contains_iff_mem]
    exact ⟨a, ⟨ha, hf⟩, rfl⟩
  rw [resObj_get_attributes]
  have hne : (attrMembers r fields).isEmpty = false := by
    cases h : attrMembers r fields with
    | nil => rw [h] at hmem; cases hmem
    | cons _ _ => rfl
  rw [hne]
  exact ⟨_, rfl, get?_sortMembers_of_mem (attrMembers_keys_nodup hr fields) hmem⟩

theorem resObj_rel_value {r : ResView} (hr : r.keyedWf) (prepath : GoString)
    (fields : List GoString) (relData : GoMap (List GoString)) (rmeta : Meta)
    {rel : Rel} (ha : rel ∈ GoMap.vals r.rels) (hf : rel.fromName ∈ fields) :
    ∃ o, (Spec.resourceObject r prepath fields relData rmeta).get? K.relationships = some o ∧
      o.get? rel.fromName =
        some (Spec.relObject r prepath rel ((wantOf r relData).contains rel.fromName)) := by
  have hmem : (rel.fromName, Spec.relObject r prepath rel ((wantOf r relData).contains rel.fromName))
      ∈ relMembers r prepath fields (wantOf r relData) r.rels := by
    simp only [relMembers, List.mem_map, List.mem_filter, List.contains_iff_mem]
    exact ⟨rel, ⟨ha, hf⟩, by simp⟩
  rw [resObj_get_relationships]
  have hne : (relMembers r prepath fields (wantOf r relData) r.rels).isEmpty = false := by
    cases h : relMembers r prepath fields (wantOf r relData) r.rels with
    | nil => rw [h] at hmem; cases hmem
    | cons _ _ => rfl
  rw [hne]
  exact ⟨_, rfl, get?_sortMembers_of_mem (relMembers_keys_nodup hr _ _ _) hmem⟩

/-- every member of the `relationships` object is one of the specification's relationship
objects (no hypothesis on the resource) -/
theorem resObj_rel_member (r : ResView) (prepath : GoString) (fields : List GoString)
    (relData : GoMap (List GoString)) (rmeta : Meta) {rs ro : Json} {n : GoString}
    (h1 : (Spec.resourceObject r prepath fields relData rmeta).get? K.relationships = some rs)
    (h2 : rs.get? n = some ro) :
    ∃ rel ∈ GoMap.vals r.rels, rel.fromName = n ∧ n ∈ fields ∧
      ro = Spec.relObject r prepath rel ((wantOf r relData).contains n) := by
  rw [resObj_get_relationships] at h1
  split at h1
  · cases h1
  · cases h1
    have := mem_of_get?_sortMembers h2
    simp only [relMembers, List.mem_map, List.mem_filter, List.contains_iff_mem] at this
    obtain ⟨rel, ⟨hrel, hf⟩, he⟩ := this
    cases he
    exact ⟨rel, hrel, rfl, hf, rfl⟩

/-! ### one relationship object -/

theorem relObject_has_data (r : ResView) (prepath : GoString) (rel : Rel) (w : Bool) :
    (Spec.relObject r prepath rel w).has K.data = true ↔ w = true := by
  cases w <;> simp [Spec.relObject, Json.has, Json.get?] <;> decide

theorem relObject_get_data (r : ResView) (prepath : GoString) (rel : Rel) :
    (Spec.relObject r prepath rel true).get? K.data = some (Spec.relDataJson r rel) := by
  simp [Spec.relObject, Json.get?]

theorem relObject_get_data_some {r : ResView} {prepath : GoString} {rel : Rel} {w : Bool}
    {d : Json} (h : (Spec.relObject r prepath rel w).get? K.data = some d) :
    w = true ∧ d = Spec.relDataJson r rel := by
  cases w
  · have : (Spec.relObject r prepath rel false).get? K.data = none := by
      simp [Spec.relObject, Json.get?]; decide
    rw [this] at h; cases h
  · rw [relObject_get_data] at h; cases h; exact ⟨rfl, rfl⟩

theorem relObject_isObj (r : ResView) (prepath : GoString) (rel : Rel) (w : Bool) :
    (Spec.relObject r prepath rel w).isObj = true := rfl

theorem relObject_get_links (r : ResView) (prepath : GoString) (rel : Rel) (w : Bool) :
    (Spec.relObject r prepath rel w).get? K.links =
      some (buildRelationshipLinks r prepath rel.fromName) := by
  cases w
  · simp [Spec.relObject, Json.get?]
  · have : ¬ K.data = K.links := by decide
    simp [Spec.relObject, Json.get?, this]

theorem relLinks_get_self (r : ResView) (prepath n : GoString) :
    (buildRelationshipLinks r prepath n).get? K.self =
      some (.str (buildSelfLink r prepath ++ K.slashRelationships ++ n)) := by
  have : ¬ K.related = K.self := by decide
  simp [buildRelationshipLinks, Json.get?, this]

theorem relLinks_get_related (r : ResView) (prepath n : GoString) :
    (buildRelationshipLinks r prepath n).get? K.related =
      some (.str (buildSelfLink r prepath ++ K.slash ++ n)) := by
  simp [buildRelationshipLinks, Json.get?]

/-- shape of resource linkage: null, one identifier, or an array of identifiers -/
def IsLinkage (d : Json) : Prop :=
  d = .null ∨ (∃ id t, d = identifierJson id t) ∨
  (∃ (ids : List GoString) (t : GoString), d = .arr (ids.map (fun id => identifierJson id t)))

theorem relDataJson_isLinkage (r : ResView) (rel : Rel) : IsLinkage (Spec.relDataJson r rel) := by
  unfold Spec.relDataJson
  split
  · split
    · split
      · exact Or.inl rfl
      · exact Or.inr (Or.inl ⟨_, _, rfl⟩)
    · exact Or.inl rfl
  · split
    · exact Or.inr (Or.inr ⟨_, _, rfl⟩)
    · exact Or.inr (Or.inr ⟨[], [], rfl⟩)

theorem wf_rel_val {r : ResView} (hr : r.keyedWf) {rel : Rel} (h : rel ∈ GoMap.vals r.rels) :
    (rel.toOne = true ∧ ∃ id, r.get rel.fromName = .val .string (.s id)) ∨
    (rel.toOne = false ∧ ∃ ids, r.get rel.fromName = .strs ids) := by
  obtain ⟨p, hp, rfl⟩ := List.mem_map.1 h
  have := wf_rel hr.1 (List.nodup_append.1 hr.2.2.2).2.1 hp
  rwa [hr.2.2.1 p hp] at this

theorem relDataJson_toOne {r : ResView} (hr : r.keyedWf) {rel : Rel}
    (h : rel ∈ GoMap.vals r.rels) (hone : rel.toOne = true) :
    ∃ id, r.get rel.fromName = .val .string (.s id) ∧
      Spec.relDataJson r rel = if id = [] then .null else identifierJson id rel.toType := by
  rcases wf_rel_val hr h with ⟨_, id, hv⟩ | ⟨hm, _⟩
  · exact ⟨id, hv, by simp [Spec.relDataJson, hone, hv]⟩
  · rw [hone] at hm; cases hm

theorem relDataJson_toMany {r : ResView} (hr : r.keyedWf) {rel : Rel}
    (h : rel ∈ GoMap.vals r.rels) (hmany : rel.toOne = false) :
    ∃ ids, r.get rel.fromName = .strs ids ∧ (Typ.sortStrings ids).Perm ids ∧
      Spec.relDataJson r rel =
        .arr ((Typ.sortStrings ids).map (fun id => identifierJson id rel.toType)) := by
  rcases wf_rel_val hr h with ⟨ho, _⟩ | ⟨_, ids, hv⟩
  · rw [hmany] at ho; cases ho
  · exact ⟨ids, hv, sortStrings_perm ids, by simp [Spec.relDataJson, hmany, hv]⟩

end Jsonapi.MarshalL
