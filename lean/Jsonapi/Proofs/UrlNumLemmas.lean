/-
Number printing / parsing and splitting / joining lemmas used by the URL round-trip
proofs (C07 / C08).
-/
import Jsonapi.Proofs.UrlEmitDefs
namespace Jsonapi.UrlL.Num
open Jsonapi

/-! ### Part A: integers -/

theorem digitChar_toNat (d : Nat) : (digitChar d).toNat = 48 + d % 10 := by
  unfold digitChar
  simp [UInt8.toNat_ofNat']
  omega

theorem isDigit_iff (c : UInt8) : isDigit c = true ↔ 48 ≤ c.toNat ∧ c.toNat ≤ 57 := by
  unfold isDigit
  simp [UInt8.le_iff_toNat_le]

theorem isDigit_digitChar (d : Nat) : isDigit (digitChar d) = true := by
  rw [isDigit_iff, digitChar_toNat]
  omega

theorem digitsVal_nil : digitsVal [] = 0 := rfl

theorem digitsVal_snoc (s : GoString) (c : UInt8) :
    digitsVal (s ++ [c]) = digitsVal s * 10 + (c.toNat - 48) := by
  unfold digitsVal
  simp [List.foldl_append]

theorem digitsVal_single (c : UInt8) : digitsVal [c] = c.toNat - 48 := by
  unfold digitsVal
  simp

theorem printNat_lt (n : Nat) (h : n < 10) : printNat n = [digitChar n] := by
  rw [printNat]; simp [h]

theorem printNat_ge (n : Nat) (h : ¬ n < 10) :
    printNat n = printNat (n / 10) ++ [digitChar (n % 10)] := by
  rw [printNat]; simp [h]

theorem printNat_all (n : Nat) : (printNat n).all isDigit = true := by
  induction n using Nat.strongRecOn with
  | _ n ih =>
    by_cases h : n < 10
    · rw [printNat_lt n h]; simp [isDigit_digitChar]
    · rw [printNat_ge n h]
      have := ih (n / 10) (by omega)
      simp [List.all_append, this, isDigit_digitChar]

theorem digitsVal_printNat (n : Nat) : digitsVal (printNat n) = n := by
  induction n using Nat.strongRecOn with
  | _ n ih =>
    by_cases h : n < 10
    · rw [printNat_lt n h, digitsVal_single, digitChar_toNat]; omega
    · rw [printNat_ge n h, digitsVal_snoc, ih (n / 10) (by omega), digitChar_toNat]
      omega

theorem printNat_ne_nil (n : Nat) : printNat n ≠ [] := by
  by_cases h : n < 10
  · rw [printNat_lt n h]; simp
  · rw [printNat_ge n h]; simp

theorem printNat_head (n : Nat) : ∃ d rest, printNat n = d :: rest ∧ isDigit d = true := by
  have hne := printNat_ne_nil n
  have hall := printNat_all n
  cases hp : printNat n with
  | nil => exact absurd hp hne
  | cons d rest =>
    rw [hp] at hall
    simp at hall
    exact ⟨d, rest, rfl, hall.1⟩

theorem printInt_ne_nil (n : Int) : printInt n ≠ [] := by
  unfold printInt
  split
  · simp
  · exact printNat_ne_nil _

/-- `parseInt` on a string that does not start with a sign. -/
theorem parseInt_nosign (bits : Nat) (s : GoString)
    (h1 : ∀ r, s ≠ 43 :: r) (h2 : ∀ r, s ≠ 45 :: r) :
    parseInt bits s =
      if s = [] then none
      else if s.all isDigit then
        (if digitsVal s < 2 ^ (bits - 1) then some (digitsVal s : Int) else none)
      else none := by
  unfold parseInt
  split
  next neg rest heq =>
    split at heq
    · exact absurd rfl (h1 _)
    · exact absurd rfl (h2 _)
    · cases heq; simp

theorem parseInt_plus (bits : Nat) (r : GoString) :
    parseInt bits (43 :: r) =
      if r = [] then none
      else if r.all isDigit then
        (if digitsVal r < 2 ^ (bits - 1) then some (digitsVal r : Int) else none)
      else none := by
  simp [parseInt]

theorem parseInt_minus (bits : Nat) (r : GoString) :
    parseInt bits (45 :: r) =
      if r = [] then none
      else if r.all isDigit then
        (if digitsVal r ≤ 2 ^ (bits - 1) then some (-(digitsVal r : Int)) else none)
      else none := by
  simp [parseInt]

theorem isDigit_ne_43 (d : UInt8) (h : isDigit d = true) : d ≠ 43 := by
  intro e; subst e; revert h; decide

theorem isDigit_ne_45 (d : UInt8) (h : isDigit d = true) : d ≠ 45 := by
  intro e; subst e; revert h; decide

theorem parseInt_printNat (bits : Nat) (n : Nat) (h : n < 2 ^ (bits - 1)) :
    parseInt bits (printNat n) = some (n : Int) := by
  obtain ⟨d, rest, hp, hd⟩ := printNat_head n
  have h1 : ∀ r, printNat n ≠ 43 :: r := by
    intro r e; rw [hp] at e
    exact isDigit_ne_43 d hd (List.cons.inj e).1
  have h2 : ∀ r, printNat n ≠ 45 :: r := by
    intro r e; rw [hp] at e
    exact isDigit_ne_45 d hd (List.cons.inj e).1
  rw [parseInt_nosign bits _ h1 h2]
  simp [printNat_ne_nil, printNat_all, digitsVal_printNat, h]

theorem parseInt_neg_printNat (bits : Nat) (n : Nat) (h : n ≤ 2 ^ (bits - 1)) :
    parseInt bits (45 :: printNat n) = some (-(n : Int)) := by
  rw [parseInt_minus]
  simp [printNat_ne_nil, printNat_all, digitsVal_printNat, h]

theorem parseInt_printInt (n : Int) (h1 : -(2:Int)^63 ≤ n) (h2 : n < (2:Int)^63) :
    parseInt 64 (printInt n) = some n := by
  unfold printInt
  by_cases hn : n < 0
  · simp only [hn, if_true]
    have hle : n.natAbs ≤ 2 ^ (64 - 1) := by
      have : (2:Int)^63 = 9223372036854775808 := by decide
      have h3 : (2:Nat) ^ (64 - 1) = 9223372036854775808 := by decide
      omega
    rw [parseInt_neg_printNat 64 _ hle]
    congr 1
    omega
  · simp only [hn, if_false]
    have hlt : n.natAbs < 2 ^ (64 - 1) := by
      have : (2:Int)^63 = 9223372036854775808 := by decide
      have h3 : (2:Nat) ^ (64 - 1) = 9223372036854775808 := by decide
      omega
    rw [parseInt_printNat 64 _ hlt]
    congr 1
    omega

theorem parseInt_range (s : GoString) (n : Int) (h : parseInt 64 s = some n) :
    -(2:Int)^63 ≤ n ∧ n < (2:Int)^63 := by
  have e1 : (2:Int)^63 = 9223372036854775808 := by decide
  have e2 : (2:Nat) ^ (64 - 1) = 9223372036854775808 := by decide
  by_cases hp : ∃ r, s = 43 :: r
  · obtain ⟨r, rfl⟩ := hp
    rw [parseInt_plus] at h
    split at h
    · cases h
    · split at h
      · split at h
        · cases h; omega
        · cases h
      · cases h
  · by_cases hm : ∃ r, s = 45 :: r
    · obtain ⟨r, rfl⟩ := hm
      rw [parseInt_minus] at h
      split at h
      · cases h
      · split at h
        · split at h
          · cases h; omega
          · cases h
        · cases h
    · rw [parseInt_nosign 64 s (fun r e => hp ⟨r, e⟩) (fun r e => hm ⟨r, e⟩)] at h
      split at h
      · cases h
      · split at h
        · split at h
          · cases h; omega
          · cases h
        · cases h

/-! ### Part B: splitting / joining -/

theorem go_nil (sep : UInt8) (cur : GoString) : splitOn.go sep cur [] = [cur.reverse] := by
  simp [splitOn.go]

theorem go_cons_sep (sep : UInt8) (cur rest : GoString) :
    splitOn.go sep cur (sep :: rest) = cur.reverse :: splitOn.go sep [] rest := by
  simp [splitOn.go]

theorem go_cons_ne (sep c : UInt8) (cur rest : GoString) (h : c ≠ sep) :
    splitOn.go sep cur (c :: rest) = splitOn.go sep (c :: cur) rest := by
  simp [splitOn.go, h]

theorem splitOn_eq (sep : UInt8) (s : GoString) : splitOn sep s = splitOn.go sep [] s := rfl

theorem go_ne_nil (sep : UInt8) (cur s : GoString) : splitOn.go sep cur s ≠ [] := by
  induction s generalizing cur with
  | nil => simp [go_nil]
  | cons c rest ih =>
    by_cases h : c = sep
    · subst h; simp [go_cons_sep]
    · rw [go_cons_ne sep c cur rest h]; exact ih _

theorem splitOn_ne_nil (sep : UInt8) (s : GoString) : splitOn sep s ≠ [] :=
  go_ne_nil sep [] s

theorem go_no_sep (sep : UInt8) (cur s : GoString) (hc : sep ∉ cur) :
    ∀ x ∈ splitOn.go sep cur s, sep ∉ x := by
  induction s generalizing cur with
  | nil =>
    intro x hx
    simp [go_nil] at hx
    subst hx
    simpa using hc
  | cons c rest ih =>
    by_cases h : c = sep
    · subst h
      intro x hx
      rw [go_cons_sep] at hx
      rcases List.mem_cons.mp hx with hx | hx
      · subst hx; simpa using hc
      · exact ih [] (by simp) x hx
    · rw [go_cons_ne sep c cur rest h]
      apply ih
      intro hm
      rcases List.mem_cons.mp hm with hm | hm
      · exact h hm.symm
      · exact hc hm

theorem splitOn_no_sep (sep : UInt8) (s : GoString) : ∀ x ∈ splitOn sep s, sep ∉ x :=
  go_no_sep sep [] s (by simp)

/-- The accumulator is a prefix of the first piece. -/
theorem go_cur (sep : UInt8) (cur s : GoString) :
    splitOn.go sep cur s =
      (cur.reverse ++ (splitOn.go sep [] s).headD []) :: (splitOn.go sep [] s).tail := by
  induction s generalizing cur with
  | nil => simp [go_nil]
  | cons c rest ih =>
    by_cases h : c = sep
    · subst h; simp [go_cons_sep]
    · rw [go_cons_ne sep c cur rest h, go_cons_ne sep c [] rest h, ih (c :: cur), ih [c]]
      simp

/-- A string without the separator is a single piece. -/
theorem go_of_not_mem (sep : UInt8) (cur s : GoString) (h : sep ∉ s) :
    splitOn.go sep cur s = [cur.reverse ++ s] := by
  induction s generalizing cur with
  | nil => simp [go_nil]
  | cons c rest ih =>
    have hc : c ≠ sep := by
      intro e; apply h; simp [e]
    have hr : sep ∉ rest := by
      intro e; apply h; simp [e]
    rw [go_cons_ne sep c cur rest hc, ih (c :: cur) hr]
    simp

theorem splitOn_of_not_mem (sep : UInt8) (s : GoString) (h : sep ∉ s) : splitOn sep s = [s] := by
  rw [splitOn_eq, go_of_not_mem sep [] s h]; simp

theorem splitOn_nil (sep : UInt8) : splitOn sep [] = [[]] := rfl

theorem go_append (sep : UInt8) (cur a b : GoString) :
    splitOn.go sep cur (a ++ sep :: b) = splitOn.go sep cur a ++ splitOn.go sep [] b := by
  induction a generalizing cur with
  | nil => simp [go_cons_sep, go_nil]
  | cons c rest ih =>
    by_cases h : c = sep
    · subst h
      rw [List.cons_append, go_cons_sep, go_cons_sep, ih []]
      simp
    · rw [List.cons_append, go_cons_ne sep c cur _ h, go_cons_ne sep c cur _ h, ih (c :: cur)]

theorem splitOn_append (sep : UInt8) (a b : GoString) :
    splitOn sep (a ++ sep :: b) = splitOn sep a ++ splitOn sep b :=
  go_append sep [] a b

theorem splitOn_append' (sep : UInt8) (a b : GoString) :
    splitOn sep (a ++ [sep] ++ b) = splitOn sep a ++ splitOn sep b := by
  rw [List.append_assoc, List.singleton_append, splitOn_append]

theorem dropLast_append_getLastD (l : List GoString) (hl : l ≠ []) :
    l.dropLast ++ [l.getLast?.getD []] = l := by
  rw [List.getLast?_eq_some_getLast hl]
  exact List.dropLast_concat_getLast hl

theorem splitOn_append_sep (sep : UInt8) (a b : GoString) :
    splitOn sep (a ++ [sep] ++ b) =
      (splitOn sep a).dropLast ++ [ (splitOn sep a).getLast?.getD [] ] ++ splitOn sep b := by
  rw [dropLast_append_getLastD _ (splitOn_ne_nil sep a), splitOn_append']

theorem joinWith_nil (sep : GoString) : joinWith sep [] = [] := rfl
theorem joinWith_single (sep x : GoString) : joinWith sep [x] = x := rfl
theorem joinWith_cons_cons (sep x y : GoString) (ys : List GoString) :
    joinWith sep (x :: y :: ys) = x ++ sep ++ joinWith sep (y :: ys) := rfl

theorem splitOn_joinWith (sep : UInt8) (l : List GoString) (hl : l ≠ [])
    (h : ∀ x ∈ l, sep ∉ x) : splitOn sep (joinWith [sep] l) = l := by
  induction l with
  | nil => exact absurd rfl hl
  | cons x xs ih =>
    cases xs with
    | nil =>
      rw [joinWith_single]
      exact splitOn_of_not_mem sep x (h x (by simp))
    | cons y ys =>
      rw [joinWith_cons_cons, splitOn_append',
        ih (by simp) (fun z hz => h z (List.mem_cons_of_mem _ hz)),
        splitOn_of_not_mem sep x (h x (by simp))]
      rfl

theorem splitOn_mem_ne_sep (sep : UInt8) (s x : GoString) (c : UInt8)
    (hx : x ∈ splitOn sep s) (hc : c ∈ x) : c ≠ sep := by
  intro e; subst e
  exact splitOn_no_sep c s x hx hc

theorem filter_ne_nil_of_all (l : List GoString) (h : ∀ x ∈ l, x ≠ []) :
    l.filter (· ≠ []) = l := by
  rw [List.filter_eq_self]
  intro x hx
  simpa using h x hx

theorem parseCommaList_nil : parseCommaList [] = [] := by
  simp [parseCommaList, splitOn_nil]

theorem parseFragments_nil : parseFragments [] = [] := by
  simp [parseFragments, splitOn_nil]

theorem parseCommaList_append (a b : GoString) :
    parseCommaList (a ++ [44] ++ b) = parseCommaList a ++ parseCommaList b := by
  unfold parseCommaList
  rw [splitOn_append', List.filter_append]

theorem parseFragments_append (a b : GoString) :
    parseFragments (a ++ [47] ++ b) = parseFragments a ++ parseFragments b := by
  unfold parseFragments
  rw [splitOn_append', List.filter_append]

theorem parseCommaList_joinWith (l : List GoString)
    (h : ∀ x ∈ l, x ≠ [] ∧ (44 : UInt8) ∉ x) : parseCommaList (joinWith [44] l) = l := by
  by_cases hl : l = []
  · subst hl; rw [joinWith_nil, parseCommaList_nil]
  · unfold parseCommaList
    rw [splitOn_joinWith 44 l hl (fun x hx => (h x hx).2)]
    exact filter_ne_nil_of_all l (fun x hx => (h x hx).1)

theorem parseCommaList_mem (s : GoString) :
    ∀ x ∈ parseCommaList s, x ≠ [] ∧ (44 : UInt8) ∉ x := by
  intro x hx
  unfold parseCommaList at hx
  rw [List.mem_filter] at hx
  exact ⟨by simpa using hx.2, splitOn_no_sep 44 s x hx.1⟩

theorem parseFragments_mem (p : GoString) :
    ∀ x ∈ parseFragments p, x ≠ [] ∧ (47 : UInt8) ∉ x := by
  intro x hx
  unfold parseFragments at hx
  rw [List.mem_filter] at hx
  exact ⟨by simpa using hx.2, splitOn_no_sep 47 p x hx.1⟩

theorem parseFragments_joinWith (l : List GoString) (hl : l ≠ [])
    (h : ∀ x ∈ l, x ≠ [] ∧ (47 : UInt8) ∉ x) :
    parseFragments ([47] ++ joinWith [47] l) = l := by
  have e : ([47] : GoString) ++ joinWith [47] l = [] ++ [47] ++ joinWith [47] l := by simp
  rw [e, parseFragments_append, parseFragments_nil, List.nil_append]
  unfold parseFragments
  rw [splitOn_joinWith 47 l hl (fun x hx => (h x hx).2)]
  exact filter_ne_nil_of_all l (fun x hx => (h x hx).1)

/-! ### Part C: the emitted path -/

theorem emittedPath_nil (u : URL) (h : u.fragments = []) : Spec.emittedPath u = [] := by
  simp [Spec.emittedPath, h]

theorem emittedPath_ne_nil (u : URL) (h : u.fragments ≠ []) :
    Spec.emittedPath u = [47] ++ joinWith [47] u.fragments := by
  unfold Spec.emittedPath
  split
  · next e => exact absurd e h
  · rfl

theorem parseFragments_emittedPath (u : URL)
    (h : ∀ x ∈ u.fragments, x ≠ [] ∧ (47 : UInt8) ∉ x) :
    parseFragments (Spec.emittedPath u) = u.fragments := by
  by_cases hf : u.fragments = []
  · rw [emittedPath_nil u hf, parseFragments_nil, hf]
  · rw [emittedPath_ne_nil u hf]
    exact parseFragments_joinWith u.fragments hf h

#print axioms parseInt_printInt
#print axioms parseInt_range
#print axioms splitOn_joinWith
#print axioms parseCommaList_joinWith
#print axioms parseFragments_emittedPath

end Jsonapi.UrlL.Num
