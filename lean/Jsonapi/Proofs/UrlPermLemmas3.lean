/-
PART 2b: NewParams / NewURL / NewURLFromRaw do not depend on the iteration order of the
values map (nor on the order of the `fields` map of the simple URL).
-/
import Jsonapi.Proofs.UrlPermLemmas2
namespace Jsonapi.UrlL.Perm
open Jsonapi

/-! ### decomposition of `newParams` -/

/-- the selection computed for one `fields[t]` entry -/
def sel (typ : Typ) (l : List GoString) : List GoString :=
  l.flatMap (fun f => if f = idName then [idName] else typ.fields.filter (· = f))

/-- the `fields` map before the "Fields" loop -/
def fields1Of (σ : Schema) (inclS : List GoString) (resType : GoString) : GoMap (List GoString) :=
  let incs := pruneIncludes (Typ.sortStrings inclS)
  let registered := checkInclusions σ resType incs
  let fields0 : GoMap (List GoString) := registered.foldl (fun m t => m.set t []) []
  if resType ≠ [] then fields0.set resType [] else fields0

/-- one iteration of the "Fields" loop -/
def fieldsStep (σ : Schema) (resType : GoString) (acc : Res (GoMap (List GoString)))
    (p : GoString × List GoString) : Res (GoMap (List GoString)) :=
  match acc with
  | .ok m =>
    let typ := σ.getType p.1
    if p.1 ≠ resType ∧ typ.name = [] then .err
    else if typ.name ≠ [] then
      let sel := p.2.flatMap (fun f => if f = idName then [idName] else typ.fields.filter (· = f))
      if sel.eraseDups.length ≠ sel.length then .err else .ok (m.set p.1 sel)
    else .ok m
  | e => e

/-- filling in the empty selections -/
def finish (σ : Schema) (fm : GoMap (List GoString)) : GoMap (List GoString) :=
  fm.map (fun p => if p.2.isEmpty then (p.1, (σ.getType p.1).fields) else p)

/-- everything after the "Fields" loop -/
def paramsFrom (σ : Schema) (fragments : List GoString) (filterLabel : GoString)
    (filter : Option GoString) (sortingRules : List GoString) (page : GoMap PageVal)
    (inclS : List GoString) (resType : GoString) (fieldsRes : Res (GoMap (List GoString))) : Res Params :=
  let incs := pruneIncludes (Typ.sortStrings inclS)
  let incl := incs.filterMap (fun inc => resolvePath σ resType (splitOn 46 inc))
  match fieldsRes with
  | .ok fm =>
    let fields := finish σ fm
    let isCol : Bool :=
      if fragments.length = 1 then true
      else if fragments.length ≥ 3 then
        let typ := σ.getType (fragments.head?.getD [])
        match typ.rels.get? (fragments.getLast?.getD []) with
        | some rel => !rel.toOne
        | none => true
      else false
    let rules : List GoString :=
      if isCol then
        let typ := σ.getType resType
        let attrNames := typ.attrs.vals.map (·.name)
        let kept := sortingRules.filter (fun rule =>
          let u := match rule with | 45 :: r => r | r => r
          u = idName || attrNames.contains u)
        let idFound := sortingRules.any (fun rule => (match rule with | 45 :: r => r | r => r) = idName)
        let rest := Typ.sortStrings (attrNames.filter (fun a =>
          !kept.any (fun rule => (match rule with | 45 :: r => r | r => r) = a)))
        kept ++ rest ++ (if idFound then [] else [idName])
      else []
    .ok { fields := fields, filterLabel := filterLabel, filter := filter,
          sortingRules := rules, page := page, incl := incl }
  | .err => .err
  | .panic => .panic

theorem newParams_eq (σ : Schema) (su : SimpleURL) (resType : GoString) :
    newParams σ su resType =
      paramsFrom σ su.fragments su.filterLabel su.filter su.sortingRules su.page su.incl resType
        (su.fields.foldl (fieldsStep σ resType) (.ok (fields1Of σ su.incl resType))) := rfl


/-! ### the "Fields" loop in closed form -/

def fieldOk (σ : Schema) (resType : GoString) (p : GoString × List GoString) : Bool :=
  if p.1 ≠ resType ∧ (σ.getType p.1).name = [] then false
  else if (σ.getType p.1).name ≠ [] then
    decide ((sel (σ.getType p.1) p.2).eraseDups.length = (sel (σ.getType p.1) p.2).length)
  else true

def fieldApply (σ : Schema) (m : GoMap (List GoString)) (p : GoString × List GoString) :
    GoMap (List GoString) :=
  if (σ.getType p.1).name ≠ [] then m.set p.1 (sel (σ.getType p.1) p.2) else m

theorem fieldsStep_core (name : GoString) (c : Prop) [Decidable c] (S : List GoString)
    (m : GoMap (List GoString)) (k : GoString) :
    (if c ∧ name = [] then Res.err
      else if name ≠ [] then
        (if S.eraseDups.length ≠ S.length then Res.err else Res.ok (m.set k S))
      else Res.ok m) =
    if (if c ∧ name = [] then false
        else if name ≠ [] then decide (S.eraseDups.length = S.length) else true) = true
    then Res.ok (if name ≠ [] then m.set k S else m) else Res.err := by
  by_cases h2 : name = []
  · by_cases h1 : c
    · simp [h1, h2]
    · simp [h1, h2]
  · simp only [h2, and_false, if_false, ne_eq, not_false_eq_true, if_true]
    by_cases h : S.eraseDups.length = S.length
    · simp [h]
    · simp [h]

theorem fieldsStep_ok (σ : Schema) (resType : GoString) (m : GoMap (List GoString))
    (p : GoString × List GoString) :
    fieldsStep σ resType (.ok m) p =
      if fieldOk σ resType p then .ok (fieldApply σ m p) else .err :=
  fieldsStep_core (σ.getType p.1).name (p.1 ≠ resType) (sel (σ.getType p.1) p.2) m p.1

theorem fieldsFold_closed (σ : Schema) (resType : GoString) (flds m : GoMap (List GoString)) :
    flds.foldl (fieldsStep σ resType) (.ok m) =
      if flds.all (fieldOk σ resType) then .ok (flds.foldl (fieldApply σ) m) else .err :=
  foldl_res_closed (fieldsStep σ resType) (fieldOk σ resType) (fieldApply σ)
    (fieldsStep_ok σ resType) (fun _ => rfl) flds m

theorem fieldApply_get? (σ : Schema) (m : GoMap (List GoString)) (p : GoString × List GoString)
    (t : GoString) :
    (fieldApply σ m p).get? t =
      if t = p.1 ∧ (σ.getType p.1).name ≠ [] then some (sel (σ.getType p.1) p.2) else m.get? t := by
  unfold fieldApply
  by_cases h : (σ.getType p.1).name ≠ []
  · rw [if_pos h, get?_set]
    by_cases ht : t = p.1 <;> simp [ht, h]
  · rw [if_neg h]
    simp [h]

/-- lookups in the result of the "Fields" loop, in terms of lookups in the map it ranges over -/
theorem get?_foldl_fieldApply (σ : Schema) : ∀ (flds m : GoMap (List GoString)), flds.keys.Nodup →
    ∀ t, (flds.foldl (fieldApply σ) m).get? t =
      match flds.get? t with
      | some l => if (σ.getType t).name ≠ [] then some (sel (σ.getType t) l) else m.get? t
      | none => m.get? t
  | [], m, _, t => rfl
  | (k, v) :: rest, m, hnd, t => by
    simp only [GoMap.keys, List.map_cons, List.nodup_cons] at hnd
    rw [List.foldl_cons, get?_foldl_fieldApply σ rest _ hnd.2 t]
    simp only [GoMap.get?]
    by_cases hk : k = t
    · subst hk
      rw [get?_eq_none_of_not_mem rest k hnd.1, if_pos rfl]
      simp only [fieldApply_get?, true_and]
    · have hk' : ¬ t = k := fun e => hk e.symm
      rw [if_neg hk]
      simp only [fieldApply_get?, hk', false_and, if_false]

theorem fieldApply_nodup (σ : Schema) (m : GoMap (List GoString)) (p : GoString × List GoString)
    (h : m.keys.Nodup) : (fieldApply σ m p).keys.Nodup := by
  unfold fieldApply
  split
  · exact keys_set_nodup _ _ _ h
  · exact h

theorem fields1Of_nodup (σ : Schema) (inclS : List GoString) (resType : GoString) :
    (fields1Of σ inclS resType).keys.Nodup := by
  unfold fields1Of
  have h0 : ∀ (l : List GoString),
      (l.foldl (fun (m : GoMap (List GoString)) t => m.set t []) []).keys.Nodup := fun l =>
    foldl_invariant (fun (m : GoMap (List GoString)) t => m.set t []) (fun m => m.keys.Nodup)
      (fun b x hb => keys_set_nodup b x [] hb) l [] List.nodup_nil
  simp only []
  split
  · exact keys_set_nodup _ _ _ (h0 _)
  · exact h0 _

theorem foldl_fieldApply_nodup (σ : Schema) (flds m : GoMap (List GoString)) (h : m.keys.Nodup) :
    (flds.foldl (fieldApply σ) m).keys.Nodup :=
  foldl_invariant (fieldApply σ) (fun m => m.keys.Nodup) (fun b x hb => fieldApply_nodup σ b x hb)
    flds m h

/-! ### `finish` -/

theorem finish_eq (σ : Schema) (fm : GoMap (List GoString)) :
    finish σ fm = fm.map (fun p => (p.1, if p.2.isEmpty then (σ.getType p.1).fields else p.2)) := by
  unfold finish
  apply List.map_congr_left
  intro p _
  split <;> rfl

theorem finish_get? (σ : Schema) (fm : GoMap (List GoString)) (t : GoString) :
    (finish σ fm).get? t =
      (fm.get? t).map (fun v => if v.isEmpty then (σ.getType t).fields else v) := by
  rw [finish_eq]
  exact get?_map_kv (fun k v => if v.isEmpty then (σ.getType k).fields else v) fm t

theorem finish_keys (σ : Schema) (fm : GoMap (List GoString)) : (finish σ fm).keys = fm.keys := by
  rw [finish_eq]
  exact keys_map_kv (fun k v => if v.isEmpty then (σ.getType k).fields else v) fm

/-! ### equivalence of `Params` -/

structure PEq (a b : Params) : Prop where
  filterLabel : a.filterLabel = b.filterLabel
  filter : a.filter = b.filter
  sortingRules : a.sortingRules = b.sortingRules
  incl : a.incl = b.incl
  fields : ∀ t, a.fields.get? t = b.fields.get? t
  page : ∀ k, a.page.get? k = b.page.get? k
  fieldsNodup₁ : a.fields.keys.Nodup
  fieldsNodup₂ : b.fields.keys.Nodup
  pageNodup₁ : a.page.keys.Nodup
  pageNodup₂ : b.page.keys.Nodup

theorem paramsFrom_ok_rel (σ : Schema) (fr : List GoString) (fl : GoString) (f : Option GoString)
    (sr : List GoString) (ic : List GoString) (rt : GoString) (pg pg' : GoMap PageVal)
    (fm fm' : GoMap (List GoString))
    (hpg : ∀ k, pg.get? k = pg'.get? k) (hn : pg.keys.Nodup) (hn' : pg'.keys.Nodup)
    (hfm : ∀ t, fm.get? t = fm'.get? t) (hm : fm.keys.Nodup) (hm' : fm'.keys.Nodup) :
    ResRel PEq (paramsFrom σ fr fl f sr pg ic rt (.ok fm)) (paramsFrom σ fr fl f sr pg' ic rt (.ok fm')) := by
  show PEq _ _
  refine ⟨rfl, rfl, rfl, rfl, ?_, hpg, ?_, ?_, hn, hn'⟩
  · intro t
    show (finish σ fm).get? t = (finish σ fm').get? t
    rw [finish_get?, finish_get?, hfm t]
  · show (finish σ fm).keys.Nodup
    rw [finish_keys]; exact hm
  · show (finish σ fm').keys.Nodup
    rw [finish_keys]; exact hm'

/-- NewParams respects `SEq` -/
theorem newParams_congr (σ : Schema) {su su' : SimpleURL} (rt : GoString) (h : SEq su su')
    (hf : su.fields.keys.Nodup) (hf' : su'.fields.keys.Nodup)
    (hp : su.page.keys.Nodup) (hp' : su'.page.keys.Nodup) :
    ResRel PEq (newParams σ su rt) (newParams σ su' rt) := by
  rw [newParams_eq, newParams_eq, ← h.fragments, ← h.filterLabel, ← h.filter, ← h.sortingRules,
    ← h.incl, fieldsFold_closed, fieldsFold_closed,
    ← all_eq_of_get?_eq hf hf' h.fields (fieldOk σ rt)]
  split
  · apply paramsFrom_ok_rel σ _ _ _ _ _ _ _ _ _ _ h.page hp hp'
    · intro t
      rw [get?_foldl_fieldApply σ _ _ hf, get?_foldl_fieldApply σ _ _ hf', h.fields t]
    · exact foldl_fieldApply_nodup σ _ _ (fields1Of_nodup σ _ _)
    · exact foldl_fieldApply_nodup σ _ _ (fields1Of_nodup σ _ _)
  · trivial


/-! ### NewURL -/

/-- the URL before the parameters are attached -/
def urlBase (σ : Schema) (fragments : List GoString) (f0 : GoString) : Res URL :=
  let typ := σ.getType f0
  let n := fragments.length
  let base : URL := { fragments := fragments, isCol := n = 1,
                      resType := if n ≤ 2 then typ.name else [],
                      resID := if n = 2 then (fragments[1]?.getD []) else [],
                      rel := default, params := default }
  if n ≥ 3 then
    match typ.rels.get? (fragments.getLast?.getD []) with
    | some rel =>
      if !σ.hasType rel.toType then .err
      else .ok { base with rel := rel, isCol := !rel.toOne, resType := rel.toType }
    | none => .err
  else .ok base

def attachParams (ur : Res URL) (np : GoString → Res Params) : Res URL :=
  match ur with
  | .ok u =>
    (match np u.resType with
      | .ok p => .ok { u with params := p }
      | .err => .err
      | .panic => .panic)
  | e => e

def newURLCore (σ : Schema) (fragments : List GoString) (np : GoString → Res Params) : Res URL :=
  match fragments with
  | [] => .err
  | f0 :: _ =>
    if (σ.getType f0).name = [] then .err
    else attachParams (urlBase σ fragments f0) np

theorem newURL_eq (σ : Schema) (su : SimpleURL) :
    newURL σ su = newURLCore σ su.fragments (newParams σ su) := by
  obtain ⟨fr, a, b, c, d, e, f⟩ := su
  cases fr with
  | nil => rfl
  | cons f0 rest => rfl

/-- equal URLs up to the relation `Q` on their parameters -/
structure UEqG (Q : Params → Params → Prop) (a b : URL) : Prop where
  fragments : a.fragments = b.fragments
  isCol : a.isCol = b.isCol
  resType : a.resType = b.resType
  resID : a.resID = b.resID
  rel : a.rel = b.rel
  params : Q a.params b.params

abbrev UEq := UEqG PEq

theorem attachParams_congr {Q : Params → Params → Prop} (ur : Res URL)
    {np np' : GoString → Res Params} (h : ∀ rt, ResRel Q (np rt) (np' rt)) :
    ResRel (UEqG Q) (attachParams ur np) (attachParams ur np') := by
  cases ur with
  | ok u =>
    have hu := h u.resType
    unfold attachParams
    simp only []
    cases h₁ : np u.resType <;> cases h₂ : np' u.resType <;> rw [h₁, h₂] at hu <;>
      first
        | exact hu.elim
        | trivial
        | exact ⟨rfl, rfl, rfl, rfl, rfl, hu⟩
  | err => trivial
  | panic => trivial

theorem newURLCore_congr {Q : Params → Params → Prop} (σ : Schema) (fr : List GoString)
    {np np' : GoString → Res Params} (h : ∀ rt, ResRel Q (np rt) (np' rt)) :
    ResRel (UEqG Q) (newURLCore σ fr np) (newURLCore σ fr np') := by
  unfold newURLCore
  cases fr with
  | nil => trivial
  | cons f0 rest =>
    simp only []
    split
    · trivial
    · exact attachParams_congr _ h

/-- NewURL respects `SEq` -/
theorem newURL_congr (σ : Schema) {su su' : SimpleURL} (h : SEq su su')
    (hf : su.fields.keys.Nodup) (hf' : su'.fields.keys.Nodup)
    (hp : su.page.keys.Nodup) (hp' : su'.page.keys.Nodup) :
    ResRel UEq (newURL σ su) (newURL σ su') := by
  rw [newURL_eq, newURL_eq, ← h.fragments]
  exact newURLCore_congr σ _ (fun rt => newParams_congr σ rt h hf hf' hp hp')

/-! ### NewURLFromRaw: the main theorems -/

theorem newURLFrom_perm (σ : Schema) (p : GoString) (values₁ values₂ : GoMap (List GoString))
    (fd : FilterDec) (hp : values₁.Perm values₂) (hnd : values₁.keys.Nodup) :
    ResRel UEq (newURLFrom σ (some (p, values₁, fd))) (newURLFrom σ (some (p, values₂, fd))) := by
  have hrel := newSimpleURL_perm p fd hp hnd
  have hn₁ := @newSimpleURL_nodup p values₁ fd
  have hn₂ := @newSimpleURL_nodup p values₂ fd
  unfold newURLFrom
  simp only []
  cases h₁ : newSimpleURL p values₁ fd <;> cases h₂ : newSimpleURL p values₂ fd <;>
    rw [h₁, h₂] at hrel <;>
    first
      | exact hrel.elim
      | trivial
      | skip
  rename_i su su'
  exact newURL_congr σ hrel (hn₁ h₁).1 (hn₂ h₂).1 (hn₁ h₁).2 (hn₂ h₂).2

/-- Whether `NewURLFromRaw` succeeds does not depend on Go's map iteration order. -/
theorem order_independent_isOk (σ : Schema) (p : GoString) (values₁ values₂ : GoMap (List GoString))
    (fd : FilterDec) (hp : values₁.Perm values₂) (hnd : values₁.keys.Nodup) :
    (newURLFrom σ (some (p, values₁, fd))).isOk = (newURLFrom σ (some (p, values₂, fd))).isOk :=
  (newURLFrom_perm σ p values₁ values₂ fd hp hnd).isOk_eq

theorem UEq_string_eq {u₁ u₂ : URL} (h : UEq u₁ u₂) (env : StringEnv) :
    u₁.string env = u₂.string env :=
  string_canonical u₁ u₂ env h.fragments h.isCol h.params.filterLabel h.params.filter
    h.params.sortingRules (fun t => by rw [h.params.fields t]) h.params.fieldsNodup₁
    h.params.fieldsNodup₂ (fun _ => h.params.page) (fun _ => h.params.pageNodup₁)
    (fun _ => h.params.pageNodup₂)

/-- The URL built by `NewURLFromRaw` does not depend on Go's map iteration order, up to the
order of the `fields` / `page` association lists; in particular `String()` is the same. -/
theorem order_independent (σ : Schema) (p : GoString) (values₁ values₂ : GoMap (List GoString))
    (fd : FilterDec) (hp : values₁.Perm values₂) (hnd : values₁.keys.Nodup) (u₁ u₂ : URL)
    (h₁ : newURLFrom σ (some (p, values₁, fd)) = .ok u₁)
    (h₂ : newURLFrom σ (some (p, values₂, fd)) = .ok u₂) :
    u₁.fragments = u₂.fragments ∧ u₁.isCol = u₂.isCol ∧ u₁.resType = u₂.resType ∧
    u₁.resID = u₂.resID ∧ u₁.rel = u₂.rel ∧
    u₁.params.sortingRules = u₂.params.sortingRules ∧ u₁.params.filterLabel = u₂.params.filterLabel ∧
    u₁.params.filter = u₂.params.filter ∧ u₁.params.incl = u₂.params.incl ∧
    (∀ t, u₁.params.fields.get? t = u₂.params.fields.get? t) ∧
    (∀ k, u₁.params.page.get? k = u₂.params.page.get? k) ∧
    u₁.params.fields.keys.Nodup ∧ u₂.params.fields.keys.Nodup ∧
    u₁.params.page.keys.Nodup ∧ u₂.params.page.keys.Nodup ∧
    ∀ env, u₁.string env = u₂.string env := by
  have h := newURLFrom_perm σ p values₁ values₂ fd hp hnd
  rw [h₁, h₂] at h
  have hu : UEq u₁ u₂ := h
  exact ⟨hu.fragments, hu.isCol, hu.resType, hu.resID, hu.rel, hu.params.sortingRules,
    hu.params.filterLabel, hu.params.filter, hu.params.incl, hu.params.fields, hu.params.page,
    hu.params.fieldsNodup₁, hu.params.fieldsNodup₂, hu.params.pageNodup₁, hu.params.pageNodup₂,
    UEq_string_eq hu⟩

#print axioms string_canonical
#print axioms order_independent_isOk
#print axioms order_independent

end Jsonapi.UrlL.Perm
