/-
Helpers for C11 (determinism of the marshaled tree): uniqueness of sorting under a
total order with distinct keys, and congruence lemmas for the spec functions
`Spec.resourceObject` / `Spec.documentTree`.
-/
import Jsonapi.Spec.Marshal
namespace Jsonapi.DetL
open Jsonapi

/-! ### order facts on Go strings -/

theorem gs_le_total (a b : GoString) : a ≤ b ∨ b ≤ a := List.le_total a b
theorem gs_le_trans {a b c : GoString} (h₁ : a ≤ b) (h₂ : b ≤ c) : a ≤ c := List.le_trans h₁ h₂
theorem gs_le_antisymm {a b : GoString} (h₁ : a ≤ b) (h₂ : b ≤ a) : a = b := List.le_antisymm h₁ h₂
theorem gs_le_iff {a b : GoString} : a ≤ b ↔ ¬ b < a := Iff.rfl
theorem gs_le_of_lt {a b : GoString} (h : a < b) : a ≤ b := fun h' => List.lt_asymm h h'
theorem gs_le_refl (a : GoString) : a ≤ a := List.lt_irrefl a

/-! ### injectivity on a list from distinct keys -/

theorem eq_of_key_eq {α β} (key : α → β) :
    ∀ {l : List α}, (l.map key).Nodup → ∀ {a b}, a ∈ l → b ∈ l → key a = key b → a = b
  | [], _, _, _, ha, _, _ => by cases ha
  | x :: xs, hnd, a, b, ha, hb, hk => by
    rw [List.map_cons, List.nodup_cons] at hnd
    rcases List.mem_cons.1 ha with rfl | ha'
    · rcases List.mem_cons.1 hb with rfl | hb'
      · rfl
      · exact absurd (hk ▸ List.mem_map_of_mem (f := key) hb') hnd.1
    · rcases List.mem_cons.1 hb with rfl | hb'
      · exact absurd (hk ▸ List.mem_map_of_mem (f := key) ha') hnd.1
      · exact eq_of_key_eq key hnd.2 ha' hb' hk

/-- Two permutations of each other, both sorted by a key whose values are distinct,
are the same list. -/
theorem eq_of_perm_sorted_key {α} (key : α → GoString) {l₁ l₂ : List α}
    (hp : l₁.Perm l₂) (hnd : (l₁.map key).Nodup)
    (h₁ : l₁.Pairwise (fun a b => key a ≤ key b))
    (h₂ : l₂.Pairwise (fun a b => key a ≤ key b)) : l₁ = l₂ := by
  refine List.Perm.eq_of_pairwise (le := fun a b => key a ≤ key b) ?_ h₁ h₂ hp
  intro a b ha hb hab hba
  exact eq_of_key_eq key hnd ha (hp.mem_iff.2 hb) (gs_le_antisymm hab hba)

/-! ### sortMembers -/

theorem sortMembers_sorted (l : List (GoString × Json)) :
    (sortMembers l).Pairwise (fun a b => a.1 ≤ b.1) := by
  have h := List.pairwise_mergeSort (le := fun (a b : GoString × Json) => !(decide (b.1 < a.1)))
    (by
      intro a b c hab hbc
      simp only [Bool.not_eq_true', decide_eq_false_iff_not] at hab hbc ⊢
      exact gs_le_trans (a := a.1) (b := b.1) (c := c.1) hab hbc)
    (by
      intro a b
      simp only [Bool.or_eq_true, Bool.not_eq_true', decide_eq_false_iff_not]
      exact gs_le_total a.1 b.1) l
  refine List.Pairwise.imp ?_ h
  intro a b hab
  simp only [Bool.not_eq_true', decide_eq_false_iff_not] at hab
  exact hab

theorem sortMembers_perm_self (l : List (GoString × Json)) : (sortMembers l).Perm l :=
  List.mergeSort_perm _ _

/-- Object members with distinct keys sort to the same list whatever order they were
produced in. -/
theorem sortMembers_perm {l₁ l₂ : List (GoString × Json)} (hp : l₁.Perm l₂)
    (hnd : (l₁.map (·.1)).Nodup) : sortMembers l₁ = sortMembers l₂ := by
  apply eq_of_perm_sorted_key (·.1)
  · exact (sortMembers_perm_self l₁).trans (hp.trans (sortMembers_perm_self l₂).symm)
  · exact ((sortMembers_perm_self l₁).map (·.1)).nodup_iff.2 hnd
  · exact sortMembers_sorted l₁
  · exact sortMembers_sorted l₂

/-! ### Typ.sortStrings -/

theorem insertSorted_perm (x : GoString) : ∀ l, (Typ.insertSorted x l).Perm (x :: l)
  | [] => List.Perm.refl _
  | y :: ys => by
    unfold Typ.insertSorted
    split
    · exact List.Perm.refl _
    · exact ((insertSorted_perm x ys).cons y).trans (List.Perm.swap x y ys)

theorem sortStrings_perm : ∀ l, (Typ.sortStrings l).Perm l
  | [] => List.Perm.refl _
  | x :: xs => by
    show (Typ.insertSorted x (Typ.sortStrings xs)).Perm (x :: xs)
    exact (insertSorted_perm x _).trans ((sortStrings_perm xs).cons x)

theorem insertSorted_sorted (x : GoString) :
    ∀ l : List GoString, l.Pairwise (· ≤ ·) → (Typ.insertSorted x l).Pairwise (· ≤ ·)
  | [], _ => by simp [Typ.insertSorted]
  | y :: ys, h => by
    rw [List.pairwise_cons] at h
    unfold Typ.insertSorted
    split
    · rename_i hxy
      have hle : x ≤ y := by
        rcases hxy with h' | h'
        · exact gs_le_of_lt h'
        · exact h' ▸ gs_le_refl x
      refine List.pairwise_cons.2 ⟨?_, List.pairwise_cons.2 h⟩
      intro z hz
      rcases List.mem_cons.1 hz with rfl | hz'
      · exact hle
      · exact gs_le_trans hle (h.1 z hz')
    · rename_i hxy
      have hle : y ≤ x := by
        rcases Std.lt_trichotomy x y with h' | h' | h'
        · exact absurd (Or.inl h') hxy
        · exact absurd (Or.inr h') hxy
        · exact gs_le_of_lt h'
      refine List.pairwise_cons.2 ⟨?_, insertSorted_sorted x ys h.2⟩
      intro z hz
      rcases List.mem_cons.1 ((insertSorted_perm x ys).mem_iff.1 hz) with rfl | hz'
      · exact hle
      · exact h.1 z hz'

theorem sortStrings_sorted : ∀ l, (Typ.sortStrings l).Pairwise (· ≤ ·)
  | [] => List.Pairwise.nil
  | x :: xs => insertSorted_sorted x _ (sortStrings_sorted xs)

/-- `sort.Strings` of two permutations of the same IDs gives the same slice. -/
theorem sortStrings_eq_of_perm {l l' : List GoString} (hp : l.Perm l') :
    Typ.sortStrings l = Typ.sortStrings l' := by
  refine List.Perm.eq_of_pairwise (le := (· ≤ ·)) ?_ (sortStrings_sorted l) (sortStrings_sorted l')
    ((sortStrings_perm l).trans (hp.trans (sortStrings_perm l').symm))
  intro a b _ _ hab hba
  exact gs_le_antisymm hab hba

theorem sortStrings_idem (l : List GoString) :
    Typ.sortStrings (Typ.sortStrings l) = Typ.sortStrings l :=
  sortStrings_eq_of_perm (sortStrings_perm l)

/-! ### sortById -/

theorem sortById_cons (x : ResView) (l : List ResView) :
    sortById (x :: l) = sortById.ins x (sortById l) := rfl

theorem ins_perm (x : ResView) : ∀ l, (sortById.ins x l).Perm (x :: l)
  | [] => List.Perm.refl _
  | y :: ys => by
    unfold sortById.ins
    split
    · exact ((ins_perm x ys).cons y).trans (List.Perm.swap x y ys)
    · exact List.Perm.refl _

theorem sortById_perm : ∀ l, (sortById l).Perm l
  | [] => List.Perm.refl _
  | x :: xs => by
    rw [sortById_cons]
    exact (ins_perm x _).trans ((sortById_perm xs).cons x)

theorem ins_sorted (x : ResView) :
    ∀ l : List ResView, l.Pairwise (fun a b => a.id ≤ b.id) →
      (sortById.ins x l).Pairwise (fun a b => a.id ≤ b.id)
  | [], _ => by simp [sortById.ins]
  | y :: ys, h => by
    rw [List.pairwise_cons] at h
    unfold sortById.ins
    split
    · rename_i hyx
      refine List.pairwise_cons.2 ⟨?_, ins_sorted x ys h.2⟩
      intro z hz
      rcases List.mem_cons.1 ((ins_perm x ys).mem_iff.1 hz) with rfl | hz'
      · exact gs_le_of_lt hyx
      · exact h.1 z hz'
    · rename_i hyx
      refine List.pairwise_cons.2 ⟨?_, List.pairwise_cons.2 h⟩
      intro z hz
      rcases List.mem_cons.1 hz with rfl | hz'
      · exact hyx
      · exact gs_le_trans (b := y.id) hyx (h.1 z hz')

theorem sortById_sorted : ∀ l, (sortById l).Pairwise (fun a b => a.id ≤ b.id)
  | [] => List.Pairwise.nil
  | x :: xs => by
    rw [sortById_cons]
    exact ins_sorted x _ (sortById_sorted xs)

/-- Included resources with distinct IDs sort to the same list whatever order they
were included in. -/
theorem sortById_eq_of_perm {l l' : List ResView} (hp : l.Perm l')
    (hnd : (l.map (·.id)).Nodup) : sortById l = sortById l' := by
  apply eq_of_perm_sorted_key (·.id)
  · exact (sortById_perm l).trans (hp.trans (sortById_perm l').symm)
  · exact ((sortById_perm l).map (·.id)).nodup_iff.2 hnd
  · exact sortById_sorted l
  · exact sortById_sorted l'

/-- A list already sorted by ID is left alone (the sort is stable: no distinctness of
IDs is needed). -/
theorem sortById_of_sorted : ∀ l : List ResView, l.Pairwise (fun a b => a.id ≤ b.id) →
    sortById l = l
  | [], _ => rfl
  | x :: xs, h => by
    rw [List.pairwise_cons] at h
    rw [sortById_cons, sortById_of_sorted xs h.2]
    cases xs with
    | nil => rfl
    | cons y ys =>
      unfold sortById.ins
      rw [if_neg (h.1 y (List.mem_cons_self ..))]

theorem sortById_idem (l : List ResView) : sortById (sortById l) = sortById l :=
  sortById_of_sorted _ (sortById_sorted l)

/-! ### the spec functions unfolded -/

def attrMembers (r : ResView) (fields : List GoString) : List (GoString × Json) :=
  (r.attrs.vals.filter (fun a => fields.contains a.name)).map
    (fun a => (a.name, encodeAttr (r.get a.name)))

def relMembers (r : ResView) (prepath : GoString) (fields want : List GoString) :
    List (GoString × Json) :=
  (r.rels.vals.filter (fun rel => fields.contains rel.fromName)).map
    (fun rel => (rel.fromName, Spec.relObject r prepath rel (want.contains rel.fromName)))

theorem resourceObject_eq (r : ResView) (p : GoString) (f : List GoString)
    (rd : GoMap (List GoString)) (m : Meta) :
    Spec.resourceObject r p f rd m =
    .obj (sortMembers (
      [(K.id, Json.str r.id), (K.type, Json.str r.typeName),
       (K.links, Json.obj [(K.self, .str (buildSelfLink r p))])] ++
      (if (attrMembers r f).isEmpty then [] else [(K.attributes, Json.obj (sortMembers (attrMembers r f)))]) ++
      (if (relMembers r p f ((rd.get? r.typeName).getD [])).isEmpty then []
        else [(K.relationships, Json.obj (sortMembers (relMembers r p f ((rd.get? r.typeName).getD []))))]) ++
      (if m.isEmpty then [] else [(K.kmeta, Json.obj m)]))) := rfl

def isOther : DocData → Bool
  | .other => true
  | _ => false

def linkMembers (links : List (GoString × LinkObj)) (selfHref : GoString) : List (GoString × Json) :=
  (links.filter (fun p => p.1 ≠ K.self)).map (fun p => (p.1, p.2.toJson)) ++ [(K.self, Json.str selfHref)]

def incMembers (doc : Document) (fields : GoMap (List GoString)) : List Json :=
  (sortById doc.included).map (fun r =>
    Spec.resourceObject r doc.prePath (Spec.selection fields r.typeName) doc.relData)

theorem documentTree_eq (doc : Document) (fields : GoMap (List GoString)) (s : GoString) :
    Spec.documentTree doc fields s =
    if isOther doc.data && doc.errors.isEmpty then none
    else
      some (.obj (sortMembers (
        (if !doc.errors.isEmpty then [(K.errors, .arr (doc.errors.map ErrorObj.toJson))]
         else match Spec.dataMember doc fields with
          | some dj => [(K.data, dj)] ++
              (if doc.included.isEmpty then [] else [(K.included, .arr (incMembers doc fields))])
          | none => []) ++
        (if doc.dmeta.isEmpty then [] else [(K.kmeta, Json.obj doc.dmeta)]) ++
        [(K.links, Json.obj (sortMembers (linkMembers doc.links s))),
         (K.jsonapi, Json.obj [(K.version, .str K.v10)])]))) := by
  unfold Spec.documentTree isOther
  cases doc.data <;> rfl

/-! ### GoMap lookups -/

theorem get?_eq_of_perm {β} {m₁ m₂ : GoMap β} (hp : m₁.Perm m₂) :
    m₁.keys.Nodup → ∀ k, m₁.get? k = m₂.get? k := by
  induction hp with
  | nil => intros; rfl
  | cons x _ ih =>
    intro hnd k
    obtain ⟨k', v⟩ := x
    simp only [GoMap.keys, List.map_cons, List.nodup_cons] at hnd
    simp only [GoMap.get?]
    rw [ih hnd.2 k]
  | swap x y l =>
    intro hnd k
    obtain ⟨kx, vx⟩ := x
    obtain ⟨ky, vy⟩ := y
    simp only [GoMap.keys, List.map_cons, List.nodup_cons, List.mem_cons] at hnd
    simp only [GoMap.get?]
    by_cases h₁ : ky = k
    · by_cases h₂ : kx = k
      · exact absurd (h₁.trans h₂.symm) (fun h => hnd.1 (Or.inl h))
      · simp [h₁, h₂]
    · by_cases h₂ : kx = k <;> simp [h₁, h₂]
  | trans h₁ _ ih₁ ih₂ =>
    intro hnd k
    rw [ih₁ hnd k, ih₂ ((List.Perm.nodup_iff (h₁.map (fun p : GoString × _ => p.1))).1 hnd) k]

theorem get?_map_val {β γ} (g : β → γ) : ∀ (m : GoMap β) (k : GoString),
    GoMap.get? (m.map (fun p => (p.1, g p.2))) k = (GoMap.get? m k).map g
  | [], _ => rfl
  | (k', v) :: rest, k => by
    simp only [List.map_cons, GoMap.get?]
    split
    · rfl
    · exact get?_map_val g rest k

/-! ### congruence of the resource object -/

theorem buildSelfLink_congr {r₁ r₂ : ResView} (ht : r₁.typeName = r₂.typeName)
    (hi : r₁.id = r₂.id) (p : GoString) : buildSelfLink r₁ p = buildSelfLink r₂ p := by
  unfold buildSelfLink
  rw [ht, hi]

theorem relObject_congr {r₁ r₂ : ResView} (ht : r₁.typeName = r₂.typeName)
    (hi : r₁.id = r₂.id) (p : GoString) (rel : Rel) (w : Bool)
    (hd : Spec.relDataJson r₁ rel = Spec.relDataJson r₂ rel) :
    Spec.relObject r₁ p rel w = Spec.relObject r₂ p rel w := by
  unfold Spec.relObject buildRelationshipLinks
  rw [hd, buildSelfLink_congr ht hi]

theorem contains_congr {f₁ f₂ : List GoString} (hf : ∀ x, x ∈ f₁ ↔ x ∈ f₂) (x : GoString) :
    f₁.contains x = f₂.contains x := by
  rw [Bool.eq_iff_iff, List.contains_iff_mem, List.contains_iff_mem]
  exact hf x

theorem resourceObject_congr_core {r₁ r₂ : ResView} {p : GoString} {f₁ f₂ : List GoString}
    {rd₁ rd₂ : GoMap (List GoString)} (m : Meta)
    (ht : r₁.typeName = r₂.typeName) (hi : r₁.id = r₂.id)
    (hae : (attrMembers r₁ f₁).isEmpty = (attrMembers r₂ f₂).isEmpty)
    (ha : sortMembers (attrMembers r₁ f₁) = sortMembers (attrMembers r₂ f₂))
    (hre : (relMembers r₁ p f₁ ((rd₁.get? r₁.typeName).getD [])).isEmpty =
           (relMembers r₂ p f₂ ((rd₂.get? r₂.typeName).getD [])).isEmpty)
    (hr : sortMembers (relMembers r₁ p f₁ ((rd₁.get? r₁.typeName).getD [])) =
          sortMembers (relMembers r₂ p f₂ ((rd₂.get? r₂.typeName).getD []))) :
    Spec.resourceObject r₁ p f₁ rd₁ m = Spec.resourceObject r₂ p f₂ rd₂ m := by
  rw [resourceObject_eq, resourceObject_eq, hae, ha, hre, hr, buildSelfLink_congr ht hi, ht, hi]

/-- Only membership in the selection and in the relationship-data list matters. -/
theorem attrMembers_congr_fields (r : ResView) {f₁ f₂ : List GoString}
    (hf : ∀ x, x ∈ f₁ ↔ x ∈ f₂) : attrMembers r f₁ = attrMembers r f₂ := by
  unfold attrMembers
  rw [show (fun a : Attr => f₁.contains a.name) = (fun a : Attr => f₂.contains a.name) from
    funext (fun a => contains_congr hf a.name)]

theorem relMembers_congr_fields (r : ResView) (p : GoString) {f₁ f₂ w₁ w₂ : List GoString}
    (hf : ∀ x, x ∈ f₁ ↔ x ∈ f₂) (hw : ∀ x, x ∈ w₁ ↔ x ∈ w₂) :
    relMembers r p f₁ w₁ = relMembers r p f₂ w₂ := by
  unfold relMembers
  rw [show (fun a : Rel => f₁.contains a.fromName) = (fun a : Rel => f₂.contains a.fromName) from
    funext (fun a => contains_congr hf a.fromName)]
  apply List.map_congr_left
  intro rel _
  rw [contains_congr hw]

/-- Same definitions, values that encode alike: same attribute members. -/
theorem attrMembers_congr_get {r₁ r₂ : ResView} (f : List GoString) (hattrs : r₁.attrs = r₂.attrs)
    (hga : ∀ a ∈ r₁.attrs.vals, encodeAttr (r₁.get a.name) = encodeAttr (r₂.get a.name)) :
    attrMembers r₁ f = attrMembers r₂ f := by
  unfold attrMembers
  rw [← hattrs]
  apply List.map_congr_left
  intro a ha
  rw [hga a (List.mem_filter.1 ha).1]

theorem relMembers_congr_get {r₁ r₂ : ResView} (p : GoString) (f w : List GoString)
    (ht : r₁.typeName = r₂.typeName) (hi : r₁.id = r₂.id) (hrels : r₁.rels = r₂.rels)
    (hgr : ∀ rel ∈ r₁.rels.vals, Spec.relDataJson r₁ rel = Spec.relDataJson r₂ rel) :
    relMembers r₁ p f w = relMembers r₂ p f w := by
  unfold relMembers
  rw [← hrels]
  apply List.map_congr_left
  intro rel hrel
  rw [relObject_congr ht hi p rel _ (hgr rel (List.mem_filter.1 hrel).1)]

/-- Permuted definitions, same values: permuted members. -/
theorem attrMembers_perm {r₁ r₂ : ResView} (f : List GoString) (hp : r₁.attrs.Perm r₂.attrs)
    (hg : ∀ k, r₁.get k = r₂.get k) : (attrMembers r₁ f).Perm (attrMembers r₂ f) := by
  unfold attrMembers
  rw [show (fun a : Attr => (a.name, encodeAttr (r₁.get a.name))) =
      (fun a : Attr => (a.name, encodeAttr (r₂.get a.name))) from funext (fun a => by rw [hg])]
  exact ((hp.map (·.2)).filter _).map _

theorem relDataJson_congr_get {r₁ r₂ : ResView} (rel : Rel)
    (hg : r₁.get rel.fromName = r₂.get rel.fromName) :
    Spec.relDataJson r₁ rel = Spec.relDataJson r₂ rel := by
  unfold Spec.relDataJson
  rw [hg]

theorem relMembers_perm {r₁ r₂ : ResView} (p : GoString) (f w : List GoString)
    (ht : r₁.typeName = r₂.typeName) (hi : r₁.id = r₂.id) (hp : r₁.rels.Perm r₂.rels)
    (hg : ∀ k, r₁.get k = r₂.get k) : (relMembers r₁ p f w).Perm (relMembers r₂ p f w) := by
  unfold relMembers
  rw [show (fun rel : Rel => (rel.fromName, Spec.relObject r₁ p rel (w.contains rel.fromName))) =
      (fun rel : Rel => (rel.fromName, Spec.relObject r₂ p rel (w.contains rel.fromName))) from
    funext (fun rel => by rw [relObject_congr ht hi p rel _ (relDataJson_congr_get rel (hg _))])]
  exact ((hp.map (·.2)).filter _).map _

theorem attrMembers_keys_nodup (r : ResView) (f : List GoString)
    (hnd : (r.attrs.vals.map (·.name)).Nodup) : ((attrMembers r f).map (·.1)).Nodup := by
  unfold attrMembers
  rw [List.map_map]
  exact List.Nodup.sublist ((List.filter_sublist).map _) hnd

theorem relMembers_keys_nodup (r : ResView) (p : GoString) (f w : List GoString)
    (hnd : (r.rels.vals.map (·.fromName)).Nodup) : ((relMembers r p f w).map (·.1)).Nodup := by
  unfold relMembers
  rw [List.map_map]
  exact List.Nodup.sublist ((List.filter_sublist).map _) hnd


/-! ### resource-level hypotheses and results -/

/-- Map keys are the names of the definitions stored under them, and attribute and
relationship names are pairwise distinct (what `Type.AddAttr` / `AddRel` maintain). -/
def keyed (r : ResView) : Prop :=
  (∀ p ∈ r.attrs, p.1 = p.2.name) ∧ (∀ p ∈ r.rels, p.1 = p.2.fromName) ∧
  (r.attrs.keys ++ r.rels.keys).Nodup

/-- The part of `keyed` that permutation invariance needs: no two attributes share a
name and no two relationships share a name. -/
def distinctNames (r : ResView) : Prop :=
  (r.attrs.vals.map (·.name)).Nodup ∧ (r.rels.vals.map (·.fromName)).Nodup

theorem keyed_attr_names {r : ResView} (h : keyed r) : r.attrs.vals.map (·.name) = r.attrs.keys := by
  unfold GoMap.vals GoMap.keys
  rw [List.map_map]
  apply List.map_congr_left
  intro p hp
  exact (h.1 p hp).symm

theorem keyed_rel_names {r : ResView} (h : keyed r) : r.rels.vals.map (·.fromName) = r.rels.keys := by
  unfold GoMap.vals GoMap.keys
  rw [List.map_map]
  apply List.map_congr_left
  intro p hp
  exact (h.2.1 p hp).symm

theorem keyed_distinctNames {r : ResView} (h : keyed r) : distinctNames r := by
  have hn := List.nodup_append.1 h.2.2
  exact ⟨keyed_attr_names h ▸ hn.1, keyed_rel_names h ▸ hn.2.1⟩

/-- Under `keyed`, a relationship name is not an attribute name. -/
theorem keyed_rel_not_attr {r : ResView} (h : keyed r) {k : GoString} (hk : k ∈ r.rels.keys) :
    ∀ a ∈ r.attrs.vals, a.name ≠ k := by
  intro a ha heq
  have hmem : a.name ∈ r.attrs.vals.map (·.name) := List.mem_map_of_mem (f := (·.name)) ha
  rw [keyed_attr_names h] at hmem
  exact (List.nodup_append.1 h.2.2).2.2 a.name hmem k hk heq

/-- Item 1: same resource read through maps iterated in another order. -/
theorem resourceObject_perm_maps {r₁ r₂ : ResView} (p : GoString) (f : List GoString)
    (rd : GoMap (List GoString)) (m : Meta)
    (ht : r₁.typeName = r₂.typeName) (hi : r₁.id = r₂.id)
    (hpa : r₁.attrs.Perm r₂.attrs) (hpr : r₁.rels.Perm r₂.rels)
    (hg : ∀ k, r₁.get k = r₂.get k) (hd : distinctNames r₁) :
    Spec.resourceObject r₁ p f rd m = Spec.resourceObject r₂ p f rd m := by
  have ha := attrMembers_perm f hpa hg
  have hr := relMembers_perm p f ((rd.get? r₁.typeName).getD []) ht hi hpr hg
  apply resourceObject_congr_core m ht hi
  · exact ha.isEmpty_eq
  · exact sortMembers_perm ha (attrMembers_keys_nodup r₁ f hd.1)
  · rw [← ht]; exact hr.isEmpty_eq
  · rw [← ht]; exact sortMembers_perm hr (relMembers_keys_nodup r₁ p f _ hd.2)

/-- Item 2: only membership in the selection and in the type's relationship-data list
is read. -/
theorem resourceObject_fields (r : ResView) (p : GoString) {f₁ f₂ : List GoString}
    {rd₁ rd₂ : GoMap (List GoString)} (m : Meta)
    (hf : ∀ x, x ∈ f₁ ↔ x ∈ f₂)
    (hw : ∀ x, x ∈ (rd₁.get? r.typeName).getD [] ↔ x ∈ (rd₂.get? r.typeName).getD []) :
    Spec.resourceObject r p f₁ rd₁ m = Spec.resourceObject r p f₂ rd₂ m := by
  apply resourceObject_congr_core m rfl rfl
  · rw [attrMembers_congr_fields r hf]
  · rw [attrMembers_congr_fields r hf]
  · rw [relMembers_congr_fields r p hf hw]
  · rw [relMembers_congr_fields r p hf hw]

/-- `r₂` is `r₁` except that values that are ID lists (and are not read as attributes)
may have their IDs in another order. -/
def sameUpToToMany (r₁ r₂ : ResView) : Prop :=
  r₁.typeName = r₂.typeName ∧ r₁.id = r₂.id ∧ r₁.attrs = r₂.attrs ∧ r₁.rels = r₂.rels ∧
  ∀ k, r₁.get k = r₂.get k ∨
    ((∀ a ∈ r₁.attrs.vals, a.name ≠ k) ∧
      ∃ l l', r₁.get k = .strs l ∧ r₂.get k = .strs l' ∧ l.Perm l')

theorem relDataJson_strs {r₁ r₂ : ResView} (rel : Rel) {l l' : List GoString}
    (h₁ : r₁.get rel.fromName = .strs l) (h₂ : r₂.get rel.fromName = .strs l') (hp : l.Perm l') :
    Spec.relDataJson r₁ rel = Spec.relDataJson r₂ rel := by
  unfold Spec.relDataJson
  rw [h₁, h₂]
  cases rel.toOne
  · simp only [Bool.false_eq_true, if_false]
    rw [sortStrings_eq_of_perm hp]
  · simp only [if_true]

/-- Items 3 and 6a in general form. -/
theorem resourceObject_sameUpToToMany {r₁ r₂ : ResView} (h : sameUpToToMany r₁ r₂)
    (p : GoString) (f : List GoString) (rd : GoMap (List GoString)) (m : Meta) :
    Spec.resourceObject r₁ p f rd m = Spec.resourceObject r₂ p f rd m := by
  obtain ⟨ht, hi, hattrs, hrels, hg⟩ := h
  have ha : attrMembers r₁ f = attrMembers r₂ f := by
    apply attrMembers_congr_get f hattrs
    intro a ha
    rcases hg a.name with h' | ⟨h', _⟩
    · rw [h']
    · exact absurd rfl (h' a ha)
  have hr : ∀ w, relMembers r₁ p f w = relMembers r₂ p f w := by
    intro w
    apply relMembers_congr_get p f w ht hi hrels
    intro rel _
    rcases hg rel.fromName with h' | ⟨_, l, l', h₁, h₂, hp⟩
    · exact relDataJson_congr_get rel h'
    · exact relDataJson_strs rel h₁ h₂ hp
  apply resourceObject_congr_core m ht hi
  · rw [ha]
  · rw [ha]
  · rw [hr, ht]
  · rw [hr, ht]

/-! ### the resource after a marshal: to-many lists sorted -/

def sortVal : GoVal → GoVal
  | .strs l => .strs (Typ.sortStrings l)
  | v => v

/-- Every `[]string` value replaced by its sorted copy (what `sort.Strings` in
`MarshalResource` leaves behind, at most). -/
def sortedToMany (r : ResView) : ResView :=
  { r with vals := r.vals.map (fun p => (p.1, sortVal p.2)) }

theorem sortedToMany_get (r : ResView) (k : GoString) :
    (sortedToMany r).get k = sortVal (r.get k) := by
  unfold sortedToMany ResView.get
  simp only
  rw [get?_map_val]
  cases GoMap.get? r.vals k <;> rfl

/-- No attribute holds a `[]string` (attribute values have one of the attribute types). -/
def attrsScalar (r : ResView) : Prop := ∀ a ∈ r.attrs.vals, ∀ l, r.get a.name ≠ .strs l

theorem sortVal_cases (v : GoVal) :
    sortVal v = v ∨ ∃ l, v = .strs l ∧ sortVal v = .strs (Typ.sortStrings l) := by
  cases v
  case strs l => exact Or.inr ⟨l, rfl, rfl⟩
  all_goals exact Or.inl rfl

theorem sortedToMany_same {r : ResView} (h : attrsScalar r) : sameUpToToMany (sortedToMany r) r := by
  refine ⟨rfl, rfl, rfl, rfl, ?_⟩
  intro k
  rw [sortedToMany_get]
  rcases sortVal_cases (r.get k) with h' | ⟨l, h₁, h₂⟩
  · exact Or.inl h'
  · refine Or.inr ⟨?_, Typ.sortStrings l, l, h₂, h₁, sortStrings_perm l⟩
    intro a ha heq
    exact h a ha l (heq ▸ h₁)

theorem sortedToMany_idem (r : ResView) : sortedToMany (sortedToMany r) = sortedToMany r := by
  unfold sortedToMany
  simp only [List.map_map]
  congr 1
  apply List.map_congr_left
  intro p _
  simp only [Function.comp]
  cases p.2 <;> simp [sortVal, sortStrings_idem]


/-! ### documents -/

/-- The resources held by the primary data. -/
def dataResources : DocData → List ResView
  | .res r => [r]
  | .col _ ms => ms
  | _ => []

/-- Apply `g` to every resource of the primary data. -/
def mapRes (g : ResView → ResView) : DocData → DocData
  | .res r => .res (g r)
  | .col tn ms => .col tn (ms.map g)
  | d => d

theorem mapRes_id (d : DocData) : mapRes id d = d := by
  cases d <;> simp [mapRes]

theorem isOther_mapRes (g : ResView → ResView) (d : DocData) : isOther (mapRes g d) = isOther d := by
  cases d <;> rfl

theorem documentTree_congr {d₁ d₂ : Document} {f₁ f₂ : GoMap (List GoString)} (s : GoString)
    (ho : isOther d₁.data = isOther d₂.data)
    (he : d₁.errors = d₂.errors) (hm : d₁.dmeta = d₂.dmeta)
    (hd : Spec.dataMember d₁ f₁ = Spec.dataMember d₂ f₂)
    (hie : d₁.included.isEmpty = d₂.included.isEmpty)
    (hi : incMembers d₁ f₁ = incMembers d₂ f₂)
    (hl : sortMembers (linkMembers d₁.links s) = sortMembers (linkMembers d₂.links s)) :
    Spec.documentTree d₁ f₁ s = Spec.documentTree d₂ f₂ s := by
  rw [documentTree_eq, documentTree_eq, ho, he, hm, hd, hie, hi, hl]

/-- The data member when the primary resources are replaced by `g`-images that marshal
to the same objects (possibly under other-but-equivalent fields / relData maps). -/
theorem dataMember_congr {d₁ d₂ : Document} {f₁ f₂ : GoMap (List GoString)} (g : ResView → ResView)
    (hdata : d₂.data = mapRes g d₁.data) (he : d₁.errors = d₂.errors)
    (hres : ∀ r ∈ dataResources d₁.data,
      Spec.resourceObject r d₁.prePath (Spec.selection f₁ r.typeName) d₁.relData =
      Spec.resourceObject (g r) d₂.prePath (Spec.selection f₂ (g r).typeName) d₂.relData) :
    Spec.dataMember d₁ f₁ = Spec.dataMember d₂ f₂ := by
  unfold Spec.dataMember
  rw [hdata, ← he]
  cases hd : d₁.data with
  | none => rfl
  | res r =>
    simp only [mapRes]
    rw [hres r (by rw [hd]; exact List.mem_singleton.2 rfl)]
  | col tn ms =>
    simp only [mapRes, List.map_map]
    congr 2
    apply List.map_congr_left
    intro r hr
    exact hres r (by rw [hd]; exact hr)
  | ident id typ => rfl
  | idents b l => rfl
  | other => rfl

theorem incMembers_congr {d₁ d₂ : Document} {f₁ f₂ : GoMap (List GoString)} (h : ResView → ResView)
    (hinc : sortById d₂.included = (sortById d₁.included).map h)
    (hres : ∀ r ∈ d₁.included,
      Spec.resourceObject r d₁.prePath (Spec.selection f₁ r.typeName) d₁.relData =
      Spec.resourceObject (h r) d₂.prePath (Spec.selection f₂ (h r).typeName) d₂.relData) :
    incMembers d₁ f₁ = incMembers d₂ f₂ := by
  unfold incMembers
  rw [hinc, List.map_map]
  apply List.map_congr_left
  intro r hr
  exact hres r ((sortById_perm _).mem_iff.1 hr)

/-! #### links -/

theorem linkMembers_perm {l₁ l₂ : List (GoString × LinkObj)} (s : GoString) (hp : l₁.Perm l₂) :
    (linkMembers l₁ s).Perm (linkMembers l₂ s) := by
  unfold linkMembers
  exact (((hp.filter _).map _).append (List.Perm.refl _))

theorem linkMembers_keys_nodup (l : List (GoString × LinkObj)) (s : GoString)
    (hnd : (l.map (·.1)).Nodup) : ((linkMembers l s).map (·.1)).Nodup := by
  unfold linkMembers
  rw [List.map_append, List.map_map]
  refine List.nodup_append.2 ⟨?_, by simp, ?_⟩
  · exact List.Nodup.sublist ((List.filter_sublist).map _) hnd
  · intro a ha b hb
    rcases List.mem_map.1 ha with ⟨q, hq, rfl⟩
    have hne := (List.mem_filter.1 hq).2
    simp only [List.map_cons, List.map_nil, List.mem_singleton] at hb
    subst hb
    simpa using hne

theorem sortMembers_linkMembers_perm {l₁ l₂ : List (GoString × LinkObj)} (s : GoString)
    (hp : l₁.Perm l₂) (hnd : (l₁.map (·.1)).Nodup) :
    sortMembers (linkMembers l₁ s) = sortMembers (linkMembers l₂ s) :=
  sortMembers_perm (linkMembers_perm s hp) (linkMembers_keys_nodup l₁ s hnd)

/-! #### included -/

theorem sortById_map_of_sorted (h : ResView → ResView) (hid : ∀ r, (h r).id = r.id)
    (l : List ResView) : sortById ((sortById l).map h) = (sortById l).map h := by
  apply sortById_of_sorted
  rw [List.pairwise_map]
  refine List.Pairwise.imp ?_ (sortById_sorted l)
  intro a b hab
  rw [hid, hid]
  exact hab

/-- Item 4. -/
theorem documentTree_perm_included (d : Document) (inc₂ : List ResView)
    (f : GoMap (List GoString)) (s : GoString)
    (hp : d.included.Perm inc₂) (hnd : (d.included.map (·.id)).Nodup) :
    Spec.documentTree d f s = Spec.documentTree { d with included := inc₂ } f s := by
  apply documentTree_congr s
  · rfl
  · rfl
  · rfl
  · exact dataMember_congr id (mapRes_id _).symm rfl (fun _ _ => rfl)
  · exact hp.isEmpty_eq
  · apply incMembers_congr id
    · show sortById inc₂ = (sortById d.included).map id
      rw [List.map_id, sortById_eq_of_perm hp hnd]
    · intro _ _; rfl
  · rfl

/-- Item 5 (general form): fields / relData maps that answer every lookup alike, and a
permuted links list. -/
theorem documentTree_maps (d : Document) (rd₂ : GoMap (List GoString))
    (links₂ : List (GoString × LinkObj)) (f₁ f₂ : GoMap (List GoString)) (s : GoString)
    (hf : ∀ k, f₁.get? k = f₂.get? k) (hrd : ∀ k, d.relData.get? k = rd₂.get? k)
    (hl : d.links.Perm links₂) (hnd : (d.links.map (·.1)).Nodup) :
    Spec.documentTree d f₁ s = Spec.documentTree { d with relData := rd₂, links := links₂ } f₂ s := by
  have hobj : ∀ r : ResView,
      Spec.resourceObject r d.prePath (Spec.selection f₁ r.typeName) d.relData =
      Spec.resourceObject r d.prePath (Spec.selection f₂ r.typeName) rd₂ := by
    intro r
    apply resourceObject_fields
    · intro x; unfold Spec.selection; rw [hf]
    · intro x; rw [hrd]
  apply documentTree_congr s
  · rfl
  · rfl
  · rfl
  · exact dataMember_congr id (mapRes_id _).symm rfl (fun r _ => hobj r)
  · rfl
  · apply incMembers_congr id
    · show sortById d.included = (sortById d.included).map id
      rw [List.map_id]
    · intro r _; exact hobj r
  · exact sortMembers_linkMembers_perm s hl hnd

/-- Item 6b (general form): primary resources replaced by `g`-images, included list
sorted by ID and replaced by `h`-images, where images marshal to the same object. -/
theorem documentTree_after (g h : ResView → ResView) (d : Document)
    (f : GoMap (List GoString)) (s : GoString)
    (hgt : ∀ r, (g r).typeName = r.typeName)
    (hht : ∀ r, (h r).typeName = r.typeName) (hhi : ∀ r, (h r).id = r.id)
    (hg : ∀ r ∈ dataResources d.data, ∀ p fl rd,
      Spec.resourceObject (g r) p fl rd = Spec.resourceObject r p fl rd)
    (hh : ∀ r ∈ d.included, ∀ p fl rd,
      Spec.resourceObject (h r) p fl rd = Spec.resourceObject r p fl rd) :
    Spec.documentTree { d with data := mapRes g d.data, included := (sortById d.included).map h } f s =
    Spec.documentTree d f s := by
  symm
  apply documentTree_congr s
  · exact (isOther_mapRes g d.data).symm
  · rfl
  · rfl
  · refine dataMember_congr g ?_ ?_ ?_
    · rfl
    · rfl
    intro r hr
    show _ = Spec.resourceObject (g r) d.prePath (Spec.selection f (g r).typeName) d.relData
    rw [hgt, hg r hr]
  · show d.included.isEmpty = ((sortById d.included).map h).isEmpty
    rw [List.isEmpty_map, (sortById_perm d.included).isEmpty_eq]
  · apply incMembers_congr h
    · exact sortById_map_of_sorted h hhi d.included
    · intro r hr
      show _ = Spec.resourceObject (h r) d.prePath (Spec.selection f (h r).typeName) d.relData
      rw [hht, hh r hr]
  · rfl

/-! ### why "not an attribute" is needed: an attribute holding a `[]string` -/

/-- A resource of type "t", ID "1", whose only attribute "a" holds the `[]string` `ids`. -/
def cexRes (ids : List GoString) : ResView :=
  { typeName := [116], id := [49],
    attrs := [([97], { name := [97], ty := 1, nullable := false })], rels := [],
    vals := [([97], .strs ids)] }

theorem cex_attrMembers (ids : List GoString) :
    attrMembers (cexRes ids) [[97]] = [([97], Json.arr (ids.map .str))] := by
  simp [attrMembers, cexRes, GoMap.vals, ResView.get, GoMap.get?, encodeAttr, encodeVal]

theorem cex_relMembers (ids : List GoString) (p : GoString) (w : List GoString) :
    relMembers (cexRes ids) p [[97]] w = [] := by
  simp [relMembers, cexRes, GoMap.vals]

theorem cex_ne :
    Spec.resourceObject (cexRes [[98], [97]]) [] [[97]] [] ≠
    Spec.resourceObject (cexRes [[97], [98]]) [] [[97]] [] := by
  intro h
  rw [resourceObject_eq, resourceObject_eq, cex_attrMembers, cex_attrMembers,
    cex_relMembers, cex_relMembers] at h
  have h' := Json.obj.inj h
  have hp := (sortMembers_perm_self _).symm.trans
    ((List.Perm.of_eq h').trans (sortMembers_perm_self _))
  have hm := hp.mem_iff
    (a := (K.attributes, Json.obj (sortMembers [([97], Json.arr ([[98],[97]].map .str))])))
  simp [sortMembers, K.attributes, K.id, K.type, K.links] at hm

end Jsonapi.DetL
