/- Helper lemmas for C17, part 2: the Equal / EqualStrict helpers. -/
import Jsonapi.Proofs.ResourceLemmas
import Jsonapi.Spec.Filter
namespace Jsonapi
open GoMap

/-! ### `sortOn` is a permutation -/

theorem sortOn_ins_perm {β} (key : β → GoString) (x : β) (l : List β) :
    (sortOn.ins key x l).Perm (x :: l) := by
  induction l with
  | nil => simp [sortOn.ins]
  | cons y ys ih =>
    unfold sortOn.ins
    split
    · exact List.Perm.refl _
    · exact ((List.Perm.cons y ih).trans (List.Perm.swap x y ys))

theorem sortOn_perm {β} (key : β → GoString) (l : List β) : (sortOn key l).Perm l := by
  induction l with
  | nil => exact List.Perm.refl _
  | cons x xs ih =>
    have : sortOn key (x :: xs) = sortOn.ins key x (sortOn key xs) := rfl
    rw [this]
    exact (sortOn_ins_perm key x _).trans (List.Perm.cons x ih)

theorem sortOn_length {β} (key : β → GoString) (l : List β) : (sortOn key l).length = l.length :=
  (sortOn_perm key l).length_eq

theorem mem_sortOn {β} (key : β → GoString) (l : List β) (x : β) : x ∈ sortOn key l ↔ x ∈ l :=
  (sortOn_perm key l).mem_iff

/-! ### zip helpers -/

theorem zip_any_swap {α β} (f : α × β → Bool) (g : β × α → Bool) (h : ∀ a b, f (a, b) = g (b, a)) :
    ∀ (l1 : List α) (l2 : List β), (l1.zip l2).any f = (l2.zip l1).any g := by
  intro l1
  induction l1 with
  | nil => intro l2; cases l2 <;> rfl
  | cons a l1 ih =>
    intro l2
    cases l2 with
    | nil => rfl
    | cons b l2 => simp only [List.zip_cons_cons, List.any_cons, h, ih]

theorem mem_zip_self {α} {l : List α} {p : α × α} (h : p ∈ l.zip l) : p.1 = p.2 ∧ p.1 ∈ l := by
  induction l with
  | nil => cases h
  | cons a l ih =>
    simp only [List.zip_cons_cons, List.mem_cons] at h
    rcases h with e | h
    · subst e; exact ⟨rfl, List.mem_cons_self⟩
    · exact ⟨(ih h).1, List.mem_cons_of_mem _ (ih h).2⟩

theorem exists_zip_of_mem {α β} {l1 : List α} {l2 : List β} (hl : l1.length = l2.length) {x : α}
    (hx : x ∈ l1) : ∃ y, (x, y) ∈ l1.zip l2 := by
  induction l1 generalizing l2 with
  | nil => cases hx
  | cons a l1 ih =>
    cases l2 with
    | nil => simp at hl
    | cons b l2 =>
      rcases List.mem_cons.1 hx with e | hx
      · subst e; exact ⟨b, by simp⟩
      · obtain ⟨y, hy⟩ := ih (l2 := l2) (by simpa using hl) hx
        exact ⟨y, by simp [hy]⟩

theorem mem_zip_of_getElem? {α β} {l1 : List α} {l2 : List β} {i : Nat} {x : α} {y : β}
    (h1 : l1[i]? = some x) (h2 : l2[i]? = some y) : (x, y) ∈ l1.zip l2 := by
  induction l1 generalizing l2 i with
  | nil => simp at h1
  | cons a l1 ih =>
    cases l2 with
    | nil => simp at h2
    | cons b l2 =>
      cases i with
      | zero => simp at h1 h2; subst h1 h2; simp
      | succ i =>
        simp only [List.getElem?_cons_succ] at h1 h2
        simp [ih h1 h2]

theorem map_eq_of_zip {α β γ} (f : α → γ) (g : β → γ) {l1 : List α} {l2 : List β}
    (hl : l1.length = l2.length) (h : ∀ p ∈ l1.zip l2, f p.1 = g p.2) : l1.map f = l2.map g := by
  induction l1 generalizing l2 with
  | nil => cases l2 with
    | nil => rfl
    | cons b l2 => simp at hl
  | cons a l1 ih =>
    cases l2 with
    | nil => simp at hl
    | cons b l2 =>
      simp only [List.map_cons, List.cons.injEq]
      exact ⟨h (a, b) (by simp), ih (by simpa using hl) (fun p hp => h p (by simp [hp]))⟩

/-! ### The relationship loop of `Equal` -/

/-- One iteration of the relationship loop. -/
def relStep (r1 r2 : ResView) (p : Rel × Rel) : Res Bool :=
  if p.1.fromName ≠ p.2.fromName ∨ p.1.toOne ≠ p.2.toOne then .ok false
  else if p.1.toOne then
    (match r1.get p.1.fromName, r2.get p.2.fromName with
      | .val .string (.s x), .val .string (.s y) => .ok (x = y)
      | _, _ => .panic)
  else
    (match r1.get p.1.fromName, r2.get p.2.fromName with
      | .strs x, .strs y => .ok (if x.length ≠ 0 ∨ y.length ≠ 0 then x = y else true)
      | _, _ => .panic)

def relAcc (r1 r2 : ResView) (acc : Res Bool) (p : Rel × Rel) : Res Bool :=
  match acc with
  | .ok true => relStep r1 r2 p
  | e => e

def relFold (r1 r2 : ResView) (l : List (Rel × Rel)) (acc : Res Bool) : Res Bool :=
  l.foldl (relAcc r1 r2) acc

theorem relAcc_stuck (r1 r2 : ResView) (acc : Res Bool) (p : Rel × Rel) (h : acc ≠ .ok true) :
    relAcc r1 r2 acc p = acc := by
  unfold relAcc
  split
  · exact absurd rfl h
  · rfl

/-- The test of the attribute loop: true when the pair makes `Equal` answer false. -/
def attrTest (r1 r2 : ResView) (p : Attr × Attr) : Bool :=
  !deepEqual (r1.get p.1.name) (r2.get p.2.name) &&
  !((r1.get p.1.name).isNilValue && (r2.get p.2.name).isNilValue) &&
  !((r1.get p.1.name).isEmptyBytes && (r2.get p.2.name).isEmptyBytes)

theorem equal_unfold (r1 r2 : ResView) :
    equal r1 r2 =
      if r1.typeName ≠ r2.typeName then .ok false
      else if (sortOn (fun a : Attr => a.name) r1.attrs.vals).length ≠
          (sortOn (fun a : Attr => a.name) r2.attrs.vals).length then .ok false
      else if ((sortOn (fun a : Attr => a.name) r1.attrs.vals).zip
          (sortOn (fun a : Attr => a.name) r2.attrs.vals)).any (attrTest r1 r2) then .ok false
      else if (sortOn (fun r : Rel => r.fromName) r1.rels.vals).length ≠
          (sortOn (fun r : Rel => r.fromName) r2.rels.vals).length then .ok false
      else relFold r1 r2 ((sortOn (fun r : Rel => r.fromName) r1.rels.vals).zip
          (sortOn (fun r : Rel => r.fromName) r2.rels.vals)) (.ok true) := rfl

theorem relFold_stuck (r1 r2 : ResView) (l : List (Rel × Rel)) (acc : Res Bool) (h : acc ≠ .ok true) :
    relFold r1 r2 l acc = acc := by
  induction l generalizing acc with
  | nil => rfl
  | cons p l ih =>
    show relFold r1 r2 l (relAcc r1 r2 acc p) = acc
    rw [relAcc_stuck _ _ _ _ h]; exact ih acc h

theorem relFold_cons (r1 r2 : ResView) (p : Rel × Rel) (l : List (Rel × Rel)) :
    relFold r1 r2 (p :: l) (.ok true) = relFold r1 r2 l (relStep r1 r2 p) := rfl

theorem relFold_ok_iff (r1 r2 : ResView) (l : List (Rel × Rel)) :
    relFold r1 r2 l (.ok true) = .ok true ↔ ∀ p ∈ l, relStep r1 r2 p = .ok true := by
  induction l with
  | nil => simp [relFold]
  | cons p l ih =>
    rw [relFold_cons]
    by_cases hp : relStep r1 r2 p = .ok true
    · rw [hp, ih]; simp [hp]
    · rw [relFold_stuck _ _ _ _ hp]; simp [hp]

theorem relStep_symm (r1 r2 : ResView) (a b : Rel) : relStep r1 r2 (a, b) = relStep r2 r1 (b, a) := by
  unfold relStep
  simp only []
  by_cases h1 : a.fromName = b.fromName
  · by_cases h2 : a.toOne = b.toOne
    · have c1 : ¬ (a.fromName ≠ b.fromName ∨ a.toOne ≠ b.toOne) := by simp [h1, h2]
      have c2 : ¬ (b.fromName ≠ a.fromName ∨ b.toOne ≠ a.toOne) := by simp [h1, h2]
      rw [if_neg c1, if_neg c2, ← h2]
      by_cases h3 : a.toOne = true
      · rw [if_pos h3, if_pos h3]
        split
        · rename_i x y e1 e2; simp only [e1, e2]
          congr 1; rw [Bool.eq_iff_iff]; simp only [decide_eq_true_eq]; exact eq_comm
        · rename_i hne
          split
          · rename_i y x e2 e1; exact absurd e1 (fun e => hne x y e e2)
          · rfl
      · rw [if_neg h3, if_neg h3]
        split
        · rename_i x y e1 e2; simp only [e1, e2]
          congr 1
          by_cases hx : x.length ≠ 0 ∨ y.length ≠ 0
          · rw [if_pos hx, if_pos (Or.symm hx)]
            rw [Bool.eq_iff_iff]; simp only [decide_eq_true_eq]; exact eq_comm
          · rw [if_neg hx, if_neg (fun h => hx (Or.symm h))]
        · rename_i hne
          split
          · rename_i y x e2 e1; exact absurd e1 (fun e => hne x y e e2)
          · rfl
    · have c1 : (a.fromName ≠ b.fromName ∨ a.toOne ≠ b.toOne) := .inr h2
      have c2 : (b.fromName ≠ a.fromName ∨ b.toOne ≠ a.toOne) := .inr (fun e => h2 e.symm)
      rw [if_pos c1, if_pos c2]
  · have c1 : (a.fromName ≠ b.fromName ∨ a.toOne ≠ b.toOne) := .inl h1
    have c2 : (b.fromName ≠ a.fromName ∨ b.toOne ≠ a.toOne) := .inl (fun e => h1 e.symm)
    rw [if_pos c1, if_pos c2]

theorem relFold_symm (r1 r2 : ResView) (l1 l2 : List Rel) (acc : Res Bool) :
    relFold r1 r2 (l1.zip l2) acc = relFold r2 r1 (l2.zip l1) acc := by
  induction l1 generalizing l2 acc with
  | nil => cases l2 <;> rfl
  | cons a l1 ih =>
    cases l2 with
    | nil => rfl
    | cons b l2 =>
      show relFold r1 r2 (l1.zip l2) (relAcc r1 r2 acc (a, b)) =
        relFold r2 r1 (l2.zip l1) (relAcc r2 r1 acc (b, a))
      have : relAcc r1 r2 acc (a, b) = relAcc r2 r1 acc (b, a) := by
        unfold relAcc; split
        · exact relStep_symm r1 r2 a b
        · rfl
      rw [this]
      exact ih l2 _

theorem deepEqual_symm (a b : GoVal) : deepEqual a b = deepEqual b a := by
  unfold deepEqual
  rw [Bool.eq_iff_iff]; simp only [decide_eq_true_eq]; exact eq_comm

theorem ite_ne_symm {α β : Type} [DecidableEq α] (x y : α) (u v w : β) (h : x = y → v = w) :
    (if x ≠ y then u else v) = (if y ≠ x then u else w) := by
  by_cases e : x = y
  · rw [if_neg (by simpa using e), if_neg (by simpa using e.symm)]; exact h e
  · rw [if_pos e, if_pos (fun e' => e e'.symm)]

theorem equal_symm (a b : ResView) : equal a b = equal b a := by
  rw [equal_unfold, equal_unfold]
  apply ite_ne_symm; intro _
  apply ite_ne_symm; intro _
  rw [zip_any_swap (attrTest a b) (attrTest b a) (fun x y => by
        show (!deepEqual (a.get x.name) (b.get y.name) &&
          !((a.get x.name).isNilValue && (b.get y.name).isNilValue) &&
          !((a.get x.name).isEmptyBytes && (b.get y.name).isEmptyBytes)) =
          (!deepEqual (b.get y.name) (a.get x.name) &&
          !((b.get y.name).isNilValue && (a.get x.name).isNilValue) &&
          !((b.get y.name).isEmptyBytes && (a.get x.name).isEmptyBytes))
        rw [deepEqual_symm, Bool.and_comm (a.get x.name).isNilValue,
          Bool.and_comm (a.get x.name).isEmptyBytes])]
  split
  · rfl
  · apply ite_ne_symm; intro _
    exact relFold_symm _ _ _ _ _

/-! ### Well-formed views -/

/-- Map keys are the names stored in the definitions, and are unique. -/
def ResView.keyed (r : ResView) : Prop :=
  (∀ p ∈ r.attrs, p.1 = p.2.name) ∧ (∀ p ∈ r.rels, p.1 = p.2.fromName) ∧
  r.attrs.keys.Nodup ∧ r.rels.keys.Nodup

instance (r : ResView) : Decidable r.keyed := by unfold ResView.keyed; exact inferInstance

/-- The domain of the equality theorems: well-typed values (`wf`) and `keyed`. -/
def ResView.ok (r : ResView) : Prop := r.wf = true ∧ r.keyed

instance (r : ResView) : Decidable r.ok := by unfold ResView.ok; exact inferInstance

/-- In a well-formed view a relationship holds a string or a string list by cardinality. -/
theorem ResView.rel_shape {r : ResView} (h : r.ok) {x : Rel} (hx : x ∈ r.rels.vals) :
    if x.toOne then ∃ id, r.get x.fromName = .val .string (.s id)
    else ∃ l, r.get x.fromName = .strs l := by
  obtain ⟨hwf, _, hk, _, hnd⟩ := h
  obtain ⟨p, hp, e⟩ := List.mem_map.1 hx
  subst e
  have hkey := hk p hp
  unfold ResView.wf at hwf
  simp only [Bool.and_eq_true, List.all_eq_true] at hwf
  have := hwf.2 p hp
  have hg : r.rels.get? p.1 = some p.2 := get?_of_mem_nodup hnd hp
  rw [hg] at this
  simp only [] at this
  rw [← hkey]
  split at this
  · rename_i id e; rw [this, if_pos rfl]; exact ⟨id, e⟩
  · rename_i l e
    simp only [Bool.not_eq_true'] at this
    rw [this]; simp only [Bool.false_eq_true, if_false]; exact ⟨l, e⟩
  · cases this

theorem relStep_self {r : ResView} (h : r.ok) {x : Rel} (hx : x ∈ r.rels.vals) :
    relStep r r (x, x) = .ok true := by
  have hs := ResView.rel_shape h hx
  unfold relStep
  simp only [ne_eq, not_true_eq_false, or_self, if_false]
  by_cases ho : x.toOne = true
  · rw [if_pos ho] at hs ⊢
    obtain ⟨id, e⟩ := hs
    rw [e]; simp
  · rw [if_neg ho] at hs ⊢
    obtain ⟨l, e⟩ := hs
    rw [e]; simp

theorem equal_refl {a : ResView} (h : a.ok) : equal a a = .ok true := by
  rw [equal_unfold]
  simp only [ne_eq, not_true_eq_false, if_false]
  split
  · rename_i hany
    exfalso
    rw [List.any_eq_true] at hany
    obtain ⟨p, hp, hb⟩ := hany
    have := (mem_zip_self hp).1
    unfold attrTest at hb
    rw [← this] at hb
    simp [deepEqual] at hb
  · rw [relFold_ok_iff]
    intro p hp
    obtain ⟨e, hm⟩ := mem_zip_self hp
    have : p = (p.1, p.1) := by rw [Prod.ext_iff]; exact ⟨rfl, e.symm⟩
    rw [this]
    exact relStep_self h ((mem_sortOn _ _ _).1 hm)

/-- What a passing iteration of the relationship loop establishes. -/
theorem relStep_ok {r1 r2 : ResView} {p : Rel × Rel} (h : relStep r1 r2 p = .ok true) :
    p.1.fromName = p.2.fromName ∧ p.1.toOne = p.2.toOne ∧
    r1.get p.1.fromName = r2.get p.2.fromName ∧
    (if p.1.toOne then ∃ id, r1.get p.1.fromName = .val .string (.s id)
     else ∃ l, r1.get p.1.fromName = .strs l) := by
  unfold relStep at h
  split at h
  · cases h
  · rename_i hc
    simp only [ne_eq, not_or, Decidable.not_not] at hc
    refine ⟨hc.1, hc.2, ?_⟩
    split at h
    · rename_i ho
      rw [if_pos ho]
      split at h
      · rename_i x y e1 e2
        simp only [Res.ok.injEq, decide_eq_true_eq] at h
        subst h
        exact ⟨by rw [e1, e2], x, e1⟩
      · cases h
    · rename_i ho
      rw [if_neg ho]
      split at h
      · rename_i x y e1 e2
        simp only [Res.ok.injEq] at h
        have hxy : x = y := by
          by_cases hx : x.length ≠ 0 ∨ y.length ≠ 0
          · rw [if_pos hx] at h; simpa using h
          · simp only [ne_eq, not_or, Decidable.not_not] at hx
            rw [List.eq_nil_of_length_eq_zero hx.1, List.eq_nil_of_length_eq_zero hx.2]
        subst hxy
        exact ⟨by rw [e1, e2], x, e1⟩
      · cases h

end Jsonapi
