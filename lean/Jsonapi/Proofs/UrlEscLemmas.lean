/-
Percent-encoding lemmas for C08: `Spec.unescape` inverts `queryEscape` / `pathEscape`,
the escaped text contains no structural byte, and continuation forms
(`unescape (escape s ++ rest)`) used by `UrlStringLemmas`.
-/
import Jsonapi.Proofs.UrlEmitDefs
namespace Jsonapi.UrlL.Esc
open Jsonapi

/-! ### Byte-level facts by exhaustive evaluation -/

theorem forall_byte (p : UInt8 → Bool)
    (h : (List.range 256).all (fun n => p (UInt8.ofNat n)) = true) : ∀ c : UInt8, p c = true := by
  intro c
  rw [List.all_eq_true] at h
  have := h c.toNat (List.mem_range.2 c.toNat_lt)
  simpa using this

/-- a hex digit emitted by `hexUpper` is none of the bytes that matter -/
def hexSafe (h : UInt8) : Bool :=
  h != 38 && h != 61 && h != 63 && h != 35 && h != 47 && h != 37 && h != 43

/-- everything we need about one byte, in one decidable package -/
def byteOK (c : UInt8) : Bool :=
  Spec.hexVal? (hexUpper (c.toNat / 16)) == some (c.toNat / 16) &&
  Spec.hexVal? (hexUpper (c.toNat % 16)) == some (c.toNat % 16) &&
  UInt8.ofNat (c.toNat / 16 * 16 + c.toNat % 16) == c &&
  (!isUnreserved c ||
    (c != 37 && c != 43 && c != 38 && c != 61 && c != 63 && c != 35 && c != 47)) &&
  hexSafe (hexUpper (c.toNat / 16)) &&
  hexSafe (hexUpper (c.toNat % 16))

set_option maxRecDepth 100000 in
theorem byteOK_all : (List.range 256).all (fun n => byteOK (UInt8.ofNat n)) = true := by decide

theorem byteOK_true (c : UInt8) : byteOK c = true := forall_byte _ byteOK_all c

theorem hexVal_hi (c : UInt8) : Spec.hexVal? (hexUpper (c.toNat / 16)) = some (c.toNat / 16) := by
  have := byteOK_true c
  simp only [byteOK, Bool.and_eq_true, beq_iff_eq] at this
  exact this.1.1.1.1.1

theorem hexVal_lo (c : UInt8) : Spec.hexVal? (hexUpper (c.toNat % 16)) = some (c.toNat % 16) := by
  have := byteOK_true c
  simp only [byteOK, Bool.and_eq_true, beq_iff_eq] at this
  exact this.1.1.1.1.2

theorem ofNat_hex (c : UInt8) : UInt8.ofNat (c.toNat / 16 * 16 + c.toNat % 16) = c := by
  have := byteOK_true c
  simp only [byteOK, Bool.and_eq_true, beq_iff_eq] at this
  exact this.1.1.1.2

theorem unreserved_ne {c : UInt8} (h : isUnreserved c = true) :
    c ≠ 37 ∧ c ≠ 43 ∧ c ≠ 38 ∧ c ≠ 61 ∧ c ≠ 63 ∧ c ≠ 35 ∧ c ≠ 47 := by
  have := byteOK_true c
  simp only [byteOK, Bool.and_eq_true, Bool.or_eq_true, Bool.not_eq_true', bne_iff_ne] at this
  have h2 := this.1.1.2
  rw [h] at h2
  simp only [Bool.true_eq_false, false_or] at h2
  exact ⟨h2.1.1.1.1.1.1, h2.1.1.1.1.1.2, h2.1.1.1.1.2, h2.1.1.1.2, h2.1.1.2, h2.1.2, h2.2⟩

theorem hexSafe_ne {h : UInt8} (hs : hexSafe h = true) :
    h ≠ 38 ∧ h ≠ 61 ∧ h ≠ 63 ∧ h ≠ 35 ∧ h ≠ 47 ∧ h ≠ 37 ∧ h ≠ 43 := by
  simp only [hexSafe, Bool.and_eq_true, bne_iff_ne] at hs
  exact ⟨hs.1.1.1.1.1.1, hs.1.1.1.1.1.2, hs.1.1.1.1.2, hs.1.1.1.2, hs.1.1.2, hs.1.2, hs.2⟩

theorem hexSafe_hi (c : UInt8) : hexSafe (hexUpper (c.toNat / 16)) = true := by
  have := byteOK_true c
  simp only [byteOK, Bool.and_eq_true] at this
  exact this.1.2

theorem hexSafe_lo (c : UInt8) : hexSafe (hexUpper (c.toNat % 16)) = true := by
  have := byteOK_true c
  simp only [byteOK, Bool.and_eq_true] at this
  exact this.2

/-! ### Rewriting lemmas for `Spec.unescape` (the only ones used afterwards) -/

theorem unescape_nil (p : Bool) : Spec.unescape p [] = some [] := by
  simp [Spec.unescape]

theorem unescape_pct (p : Bool) (a b : UInt8) (rest : GoString) :
    Spec.unescape p (37 :: a :: b :: rest) =
      match Spec.hexVal? a, Spec.hexVal? b, Spec.unescape p rest with
      | some x, some y, some r => some (UInt8.ofNat (x * 16 + y) :: r)
      | _, _, _ => none :=
  Spec.unescape.eq_2 p a b rest

theorem unescape_cons_ne (p : Bool) {c : UInt8} (h : c ≠ 37) (rest : GoString) :
    Spec.unescape p (c :: rest) =
      (Spec.unescape p rest).map (fun r => (if p && c = 43 then 32 else c) :: r) := by
  rw [Spec.unescape.eq_4 p c rest (fun _ _ _ e _ => h e) h]
  cases Spec.unescape p rest <;> rfl

/-- a literal byte other than '%' (and other than '+' in a query) decodes to itself -/
theorem unescape_lit (p : Bool) {c : UInt8} (h37 : c ≠ 37) (h43 : p = true → c ≠ 43)
    (rest : GoString) :
    Spec.unescape p (c :: rest) = (Spec.unescape p rest).map (fun r => c :: r) := by
  rw [unescape_cons_ne p h37]
  have : (if (p && decide (c = 43)) = true then (32 : UInt8) else c) = c := by
    cases p
    · simp
    · simp [h43 rfl]
  simp only [this]

theorem unescape_plus (rest : GoString) :
    Spec.unescape true (43 :: rest) = (Spec.unescape true rest).map (fun r => 32 :: r) := by
  rw [unescape_cons_ne true (by decide)]
  rfl

theorem unescape_pctEncode (p : Bool) (c : UInt8) (rest : GoString) :
    Spec.unescape p (pctEncode c ++ rest) = (Spec.unescape p rest).map (fun r => c :: r) := by
  simp only [pctEncode, List.cons_append, List.nil_append]
  rw [unescape_pct, hexVal_hi, hexVal_lo]
  cases Spec.unescape p rest with
  | none => rfl
  | some r => simp only [Option.map_some, ofNat_hex]

/-- "%5B" decodes to '[' -/
theorem unescape_5B (p : Bool) (rest : GoString) :
    Spec.unescape p (37 :: 53 :: 66 :: rest) = (Spec.unescape p rest).map (fun r => 91 :: r) := by
  have := unescape_pctEncode p 91 rest
  simpa [pctEncode, hexUpper] using this

/-- "%5D" decodes to ']' -/
theorem unescape_5D (p : Bool) (rest : GoString) :
    Spec.unescape p (37 :: 53 :: 68 :: rest) = (Spec.unescape p rest).map (fun r => 93 :: r) := by
  have := unescape_pctEncode p 93 rest
  simpa [pctEncode, hexUpper] using this

/-- "%2C" decodes to ',' -/
theorem unescape_2C (p : Bool) (rest : GoString) :
    Spec.unescape p (37 :: 50 :: 67 :: rest) = (Spec.unescape p rest).map (fun r => 44 :: r) := by
  have := unescape_pctEncode p 44 rest
  simpa [pctEncode, hexUpper] using this

theorem unescape_pct2C (p : Bool) (rest : GoString) :
    Spec.unescape p (pct2C ++ rest) = (Spec.unescape p rest).map (fun r => 44 :: r) :=
  unescape_2C p rest

/-! ### One byte of `queryEscape` / `pathEscape` -/

/-- the encoding of one byte by `url.QueryEscape` -/
def qe1 (c : UInt8) : GoString :=
  if isUnreserved c then [c] else if c = 32 then [43] else pctEncode c

/-- the encoding of one byte by `url.PathEscape` -/
def pe1 (c : UInt8) : GoString :=
  if isUnreserved c || c = 36 || c = 38 || c = 43 || c = 58 || c = 61 || c = 64 then [c]
  else pctEncode c

theorem queryEscape_nil : queryEscape [] = [] := rfl
theorem pathEscape_nil : pathEscape [] = [] := rfl

theorem queryEscape_cons (c : UInt8) (s : GoString) :
    queryEscape (c :: s) = qe1 c ++ queryEscape s := by
  simp [queryEscape, qe1]

theorem pathEscape_cons (c : UInt8) (s : GoString) :
    pathEscape (c :: s) = pe1 c ++ pathEscape s := by
  simp [pathEscape, pe1]

theorem queryEscape_append (s t : GoString) :
    queryEscape (s ++ t) = queryEscape s ++ queryEscape t := by
  simp [queryEscape]

theorem pathEscape_append (s t : GoString) :
    pathEscape (s ++ t) = pathEscape s ++ pathEscape t := by
  simp [pathEscape]

theorem unescape_qe1 (c : UInt8) (rest : GoString) :
    Spec.unescape true (qe1 c ++ rest) = (Spec.unescape true rest).map (fun r => c :: r) := by
  unfold qe1
  split
  · next h =>
    have hn := unreserved_ne h
    exact unescape_lit true hn.1 (fun _ => hn.2.1) rest
  · split
    · next h => subst h; exact unescape_plus rest
    · exact unescape_pctEncode true c rest

theorem unescape_pe1 (c : UInt8) (rest : GoString) :
    Spec.unescape false (pe1 c ++ rest) = (Spec.unescape false rest).map (fun r => c :: r) := by
  unfold pe1
  split
  · next h =>
    have h37 : c ≠ 37 := by
      simp only [Bool.or_eq_true, decide_eq_true_eq] at h
      intro e; subst e
      revert h; decide
    exact unescape_lit false h37 (fun e => by cases e) rest
  · exact unescape_pctEncode false c rest

/-! ### Continuation forms and the main inversion theorems -/

theorem unescape_queryEscape_append (s rest : GoString) :
    Spec.unescape true (queryEscape s ++ rest) = (Spec.unescape true rest).map (fun r => s ++ r) := by
  induction s with
  | nil => simp [queryEscape_nil]
  | cons c s ih =>
    rw [queryEscape_cons, List.append_assoc, unescape_qe1, ih]
    cases Spec.unescape true rest <;> rfl

theorem unescape_pathEscape_append (s rest : GoString) :
    Spec.unescape false (pathEscape s ++ rest) =
      (Spec.unescape false rest).map (fun r => s ++ r) := by
  induction s with
  | nil => simp [pathEscape_nil]
  | cons c s ih =>
    rw [pathEscape_cons, List.append_assoc, unescape_pe1, ih]
    cases Spec.unescape false rest <;> rfl

theorem unescape_queryEscape (s : GoString) : Spec.unescape true (queryEscape s) = some s := by
  have := unescape_queryEscape_append s []
  simpa [unescape_nil] using this

theorem unescape_pathEscape (s : GoString) : Spec.unescape false (pathEscape s) = some s := by
  have := unescape_pathEscape_append s []
  simpa [unescape_nil] using this

/-! ### No structural byte in the escaped text -/

theorem pctEncode_mem {c x : UInt8} (h : x ∈ pctEncode c) :
    x = 37 ∨ hexSafe x = true := by
  simp only [pctEncode, List.mem_cons, List.not_mem_nil, or_false] at h
  rcases h with h | h | h
  · exact Or.inl h
  · exact Or.inr (h ▸ hexSafe_hi c)
  · exact Or.inr (h ▸ hexSafe_lo c)

theorem pctEncode_no_struct {c x : UInt8} (h : x ∈ pctEncode c) :
    x ≠ 38 ∧ x ≠ 61 ∧ x ≠ 63 ∧ x ≠ 35 ∧ x ≠ 47 := by
  rcases pctEncode_mem h with h | h
  · subst h; decide
  · have := hexSafe_ne h
    exact ⟨this.1, this.2.1, this.2.2.1, this.2.2.2.1, this.2.2.2.2.1⟩

theorem qe1_no_struct {c x : UInt8} (h : x ∈ qe1 c) :
    x ≠ 38 ∧ x ≠ 61 ∧ x ≠ 63 ∧ x ≠ 35 ∧ x ≠ 47 := by
  unfold qe1 at h
  split at h
  · next hu =>
    simp only [List.mem_cons, List.not_mem_nil, or_false] at h
    subst h
    have := unreserved_ne hu
    exact ⟨this.2.2.1, this.2.2.2.1, this.2.2.2.2.1, this.2.2.2.2.2.1, this.2.2.2.2.2.2⟩
  · split at h
    · simp only [List.mem_cons, List.not_mem_nil, or_false] at h
      subst h; decide
    · exact pctEncode_no_struct h

theorem pe1_no_struct {c x : UInt8} (h : x ∈ pe1 c) : x ≠ 47 ∧ x ≠ 63 ∧ x ≠ 35 := by
  unfold pe1 at h
  split at h
  · next hu =>
    simp only [List.mem_cons, List.not_mem_nil, or_false] at h
    subst h
    simp only [Bool.or_eq_true, decide_eq_true_eq] at hu
    rcases hu with (((((hu | hu) | hu) | hu) | hu) | hu) | hu
    · have := unreserved_ne hu
      exact ⟨this.2.2.2.2.2.2, this.2.2.2.2.1, this.2.2.2.2.2.1⟩
    all_goals (subst hu; decide)
  · have := pctEncode_no_struct h
    exact ⟨this.2.2.2.2, this.2.2.1, this.2.2.2.1⟩

theorem queryEscape_mem {s : GoString} {x : UInt8} (h : x ∈ queryEscape s) :
    ∃ c ∈ s, x ∈ qe1 c := by
  simp only [queryEscape, List.mem_flatMap] at h
  exact h

theorem pathEscape_mem {s : GoString} {x : UInt8} (h : x ∈ pathEscape s) :
    ∃ c ∈ s, x ∈ pe1 c := by
  simp only [pathEscape, List.mem_flatMap] at h
  exact h

/-- full form: additionally no '/' -/
theorem queryEscape_no_struct' (s : GoString) :
    ∀ c ∈ queryEscape s, c ≠ 38 ∧ c ≠ 61 ∧ c ≠ 63 ∧ c ≠ 35 ∧ c ≠ 47 := by
  intro x hx
  obtain ⟨c, _, hc⟩ := queryEscape_mem hx
  exact qe1_no_struct hc

theorem queryEscape_no_struct (s : GoString) :
    ∀ c ∈ queryEscape s, c ≠ 38 ∧ c ≠ 61 ∧ c ≠ 63 ∧ c ≠ 35 := by
  intro x hx
  have := queryEscape_no_struct' s x hx
  exact ⟨this.1, this.2.1, this.2.2.1, this.2.2.2.1⟩

theorem pathEscape_no_struct (s : GoString) :
    ∀ c ∈ pathEscape s, c ≠ 47 ∧ c ≠ 63 ∧ c ≠ 35 := by
  intro x hx
  obtain ⟨c, _, hc⟩ := pathEscape_mem hx
  exact pe1_no_struct hc

theorem queryEscape_no_amp (s : GoString) : (38 : UInt8) ∉ queryEscape s :=
  fun h => (queryEscape_no_struct s 38 h).1 rfl

theorem queryEscape_no_eq (s : GoString) : (61 : UInt8) ∉ queryEscape s :=
  fun h => (queryEscape_no_struct s 61 h).2.1 rfl

theorem pathEscape_no_q (s : GoString) : (63 : UInt8) ∉ pathEscape s :=
  fun h => (pathEscape_no_struct s 63 h).2.1 rfl

theorem queryEscape_eq_nil {s : GoString} (h : queryEscape s = []) : s = [] := by
  cases s with
  | nil => rfl
  | cons c s =>
    rw [queryEscape_cons] at h
    have : qe1 c = [] := (List.append_eq_nil_iff.1 h).1
    unfold qe1 pctEncode at this
    split at this
    · cases this
    · split at this <;> cases this

end Jsonapi.UrlL.Esc

section
open Jsonapi.UrlL.Esc
#print axioms unescape_queryEscape
#print axioms unescape_pathEscape
#print axioms queryEscape_no_struct
#print axioms pathEscape_no_struct
#print axioms unescape_queryEscape_append
#print axioms unescape_pathEscape_append
end
