/- Helper lemmas for C14 (schema editing keeps the schema well-formed). -/
import Jsonapi.Proofs.MapLemmas
import Jsonapi.Proofs.SchemaLemmas
namespace Jsonapi
open Schema GoMap

/-- Well-formed type: key = name, names non-empty, kinds valid, targets non-empty,
one namespace for attributes and relationships. -/
structure TypWF (t : Typ) : Prop where
  attrs : ∀ p ∈ t.attrs, p.1 = p.2.name ∧ p.2.name ≠ [] ∧ 1 ≤ p.2.ty ∧ p.2.ty ≤ 14
  rels : ∀ p ∈ t.rels, p.1 = p.2.fromName ∧ p.2.fromName ≠ [] ∧ p.2.toType ≠ []
  ndA : t.attrs.keys.Nodup
  ndR : t.rels.keys.Nodup
  disj : ∀ k ∈ t.attrs.keys, k ∉ t.rels.keys

/-- C14's invariant. -/
def Inv (s : Schema) : Prop :=
  (s.types.map (·.name)).Nodup ∧ ∀ t ∈ s.types, t.name ≠ [] ∧ TypWF t

namespace Typ

theorem attrNameUsed_iff {t : Typ} (h : TypWF t) (n : GoString) :
    t.attrNameUsed n = true ↔ n ∈ t.attrs.keys := by
  unfold attrNameUsed keys
  simp only [List.any_eq_true, decide_eq_true_eq, List.mem_map]
  constructor
  · rintro ⟨p, hp, e⟩; exact ⟨p, hp, by rw [(h.attrs p hp).1, e]⟩
  · rintro ⟨p, hp, e⟩; exact ⟨p, hp, by rw [← (h.attrs p hp).1, e]⟩

theorem relNameUsed_iff {t : Typ} (h : TypWF t) (n : GoString) :
    t.relNameUsed n = true ↔ n ∈ t.rels.keys := by
  unfold relNameUsed keys
  simp only [List.any_eq_true, decide_eq_true_eq, List.mem_map]
  constructor
  · rintro ⟨p, hp, e⟩; exact ⟨p, hp, by rw [(h.rels p hp).1, e]⟩
  · rintro ⟨p, hp, e⟩; exact ⟨p, hp, by rw [← (h.rels p hp).1, e]⟩

theorem addAttr_name (t : Typ) (a : Attr) : (t.addAttr a).1.name = t.name := by
  unfold addAttr; (repeat' split) <;> rfl
theorem addRel_name (t : Typ) (r : Rel) : (t.addRel r).1.name = t.name := by
  unfold addRel; (repeat' split) <;> rfl
theorem removeAttr_name (t : Typ) (n : GoString) : (t.removeAttr n).name = t.name := by
  unfold removeAttr; split <;> rfl
theorem removeRel_name (t : Typ) (n : GoString) : (t.removeRel n).name = t.name := by
  unfold removeRel; split <;> rfl

theorem addAttr_err (t : Typ) (a : Attr) (h : (t.addAttr a).2 ≠ .ok ()) : (t.addAttr a).1 = t := by
  unfold addAttr at *; repeat' split at h <;> first | rfl | simp_all
theorem addRel_err (t : Typ) (r : Rel) (h : (t.addRel r).2 ≠ .ok ()) : (t.addRel r).1 = t := by
  unfold addRel at *; repeat' split at h <;> first | rfl | simp_all

theorem addAttr_no_panic (t : Typ) (a : Attr) : (t.addAttr a).2 ≠ .panic := by
  unfold addAttr; (repeat' split) <;> simp
theorem addRel_no_panic (t : Typ) (r : Rel) : (t.addRel r).2 ≠ .panic := by
  unfold addRel; (repeat' split) <;> simp

theorem addAttr_wf {t : Typ} (h : TypWF t) (a : Attr) : TypWF (t.addAttr a).1 := by
  unfold addAttr
  split; exact h
  split; exact h
  split; exact h
  split; exact h
  rename_i h1 h2 h3 h4
  have hnA : a.name ∉ t.attrs.keys := fun hm => h3 ((attrNameUsed_iff h _).2 hm)
  have hnR : a.name ∉ t.rels.keys := fun hm => h4 ((relNameUsed_iff h _).2 hm)
  have hty : 1 ≤ a.ty ∧ a.ty ≤ 14 := by
    unfold attrTypeStringNonEmpty at h2
    simp at h2; omega
  have hset := set_of_not_mem t.attrs a.name a hnA
  constructor
  · intro p hp
    simp only [hset, List.mem_append, List.mem_singleton] at hp
    rcases hp with hp | hp
    · exact h.attrs p hp
    · subst hp; exact ⟨rfl, h1, hty.1, hty.2⟩
  · exact h.rels
  · simp only [hset, keys, List.map_append, List.map_cons, List.map_nil]
    rw [List.nodup_append]
    exact ⟨h.ndA, by simp, by
      intro x hx y hy; simp at hy; subst hy; intro e; subst e; exact hnA hx⟩
  · exact h.ndR
  · intro k hk
    simp only [hset, keys, List.map_append, List.map_cons, List.map_nil, List.mem_append,
      List.mem_singleton] at hk
    rcases hk with hk | hk
    · exact h.disj k hk
    · subst hk; exact hnR

theorem addRel_wf {t : Typ} (h : TypWF t) (r : Rel) : TypWF (t.addRel r).1 := by
  unfold addRel
  split; exact h
  split; exact h
  split; exact h
  split; exact h
  rename_i h1 h2 h3 h4
  have hnR : r.fromName ∉ t.rels.keys := fun hm => h3 ((relNameUsed_iff h _).2 hm)
  have hnA : r.fromName ∉ t.attrs.keys := fun hm => h4 ((attrNameUsed_iff h _).2 hm)
  have hset := set_of_not_mem t.rels r.fromName r hnR
  constructor
  · exact h.attrs
  · intro p hp
    simp only [hset, List.mem_append, List.mem_singleton] at hp
    rcases hp with hp | hp
    · exact h.rels p hp
    · subst hp; exact ⟨rfl, h1, h2⟩
  · exact h.ndA
  · simp only [hset, keys, List.map_append, List.map_cons, List.map_nil]
    rw [List.nodup_append]
    exact ⟨h.ndR, by simp, by
      intro x hx y hy; simp at hy; subst hy; intro e; subst e; exact hnR hx⟩
  · intro k hk
    simp only [hset, keys, List.map_append, List.map_cons, List.map_nil, List.mem_append,
      List.mem_singleton, not_or]
    exact ⟨h.disj k hk, fun e => by subst e; exact hnA hk⟩

theorem removeAttr_wf {t : Typ} (h : TypWF t) (n : GoString) : TypWF (t.removeAttr n) := by
  unfold removeAttr; split
  · constructor
    · intro p hp; exact h.attrs p (mem_del hp)
    · exact h.rels
    · exact (keys_del_sublist _ _).nodup h.ndA
    · exact h.ndR
    · intro k hk; exact h.disj k ((keys_del_sublist _ _).subset hk)
  · exact h

theorem removeRel_wf {t : Typ} (h : TypWF t) (n : GoString) : TypWF (t.removeRel n) := by
  unfold removeRel; split
  · constructor
    · exact h.attrs
    · intro p hp; exact h.rels p (mem_del hp)
    · exact h.ndA
    · exact (keys_del_sublist _ _).nodup h.ndR
    · intro k hk hk'; exact h.disj k hk ((keys_del_sublist _ _).subset hk')
  · exact h

/-- Rolling back a successful `AddRel` restores the type exactly. -/
theorem removeRel_addRel {t : Typ} (h : TypWF t) (r : Rel) (hok : (t.addRel r).2 = .ok ()) :
    (t.addRel r).1.removeRel r.fromName = t := by
  by_cases h1 : r.fromName = []
  · simp [addRel, h1] at hok
  by_cases h2 : r.toType = []
  · simp [addRel, h1, h2] at hok
  by_cases h3 : t.relNameUsed r.fromName = true
  · simp [addRel, h1, h2, h3] at hok
  by_cases h4 : t.attrNameUsed r.fromName = true
  · simp [addRel, h1, h2, h3, h4] at hok
  have hnR : r.fromName ∉ t.rels.keys := fun hm => h3 ((relNameUsed_iff h _).2 hm)
  have hset := set_of_not_mem t.rels r.fromName r hnR
  have used : ({ t with rels := t.rels.set r.fromName r } : Typ).relNameUsed r.fromName = true := by
    unfold relNameUsed; simp [hset]
  simp only [addRel, h1, h2, h3, h4, if_false, Bool.false_eq_true]
  simp only [removeRel, used, if_true]
  rw [del_set_of_not_mem _ _ _ hnR]

/-- Removing an absent attribute / relationship is a no-op. -/
theorem removeAttr_absent {t : Typ} (h : TypWF t) (n : GoString) (hn : n ∉ t.attrs.keys) :
    t.removeAttr n = t := by
  unfold removeAttr
  have : ¬ t.attrNameUsed n = true := fun hu => hn ((attrNameUsed_iff h n).1 hu)
  simp [this]
theorem removeRel_absent {t : Typ} (h : TypWF t) (n : GoString) (hn : n ∉ t.rels.keys) :
    t.removeRel n = t := by
  unfold removeRel
  have : ¬ t.relNameUsed n = true := fun hu => hn ((relNameUsed_iff h n).1 hu)
  simp [this]

end Typ

namespace Schema

theorem hasType_iff (s : Schema) (n : GoString) : s.hasType n = true ↔ n ∈ s.types.map (·.name) := by
  unfold hasType
  simp only [List.any_eq_true, decide_eq_true_eq, List.mem_map]

theorem getType_mem {s : Schema} {n : GoString} (h : s.hasType n = true) :
    s.getType n ∈ s.types ∧ (s.getType n).name = n := by
  unfold getType
  cases hf : s.types.find? (fun t => decide (t.name = n)) with
  | none =>
    rw [List.find?_eq_none] at hf
    obtain ⟨t, ht, e⟩ := List.any_eq_true.1 h
    exact absurd e (hf t ht)
  | some t =>
    exact ⟨List.mem_of_find?_eq_some hf, by simpa using List.find?_some hf⟩

theorem getType_absent {s : Schema} {n : GoString} (h : ¬ s.hasType n = true) :
    s.getType n = Typ.empty := by
  unfold getType
  cases hf : s.types.find? (fun t => decide (t.name = n)) with
  | none => rfl
  | some t =>
    exact absurd (List.any_eq_true.2 ⟨t, List.mem_of_find?_eq_some hf, List.find?_some hf⟩) h

/-- With unique names, the type found by name is the only one of that name. -/
theorem eq_getType_of_mem {s : Schema} (hnd : (s.types.map (·.name)).Nodup) {t : Typ}
    (ht : t ∈ s.types) : s.getType t.name = t := by
  unfold getType
  have : ∀ (ts : List Typ), (ts.map (·.name)).Nodup → t ∈ ts →
      ts.find? (fun u => decide (u.name = t.name)) = some t := by
    intro ts
    induction ts with
    | nil => intro _ h; cases h
    | cons u us ih =>
      intro hnd hm
      simp only [List.map_cons, List.nodup_cons] at hnd
      rcases List.mem_cons.1 hm with e | hm'
      · subst e; simp
      · have hne : u.name ≠ t.name := fun e => hnd.1 (e ▸ List.mem_map.2 ⟨t, hm', rfl⟩)
        simp only [List.find?_cons, hne, decide_false]
        exact ih hnd.2 hm'
  rw [this s.types hnd ht]

/-! ### `updFirst` -/

theorem updFirst_none {n : GoString} {f : Typ → Typ × Res Unit} {ts : List Typ}
    (h : updFirst n f ts = none) : n ∉ ts.map (·.name) := by
  induction ts with
  | nil => simp
  | cons t ts ih =>
    unfold updFirst at h
    split at h
    · simp at h
    · rename_i hne
      split at h
      · rename_i hn
        simp only [List.map_cons, List.mem_cons, not_or]
        exact ⟨fun e => hne e.symm, ih hn⟩
      · simp at h

theorem updFirst_some {n : GoString} {f : Typ → Typ × Res Unit} {ts ts' : List Typ} {r : Res Unit}
    (hname : ∀ t, (f t).1.name = t.name)
    (h : updFirst n f ts = some (ts', r)) :
    ts'.map (·.name) = ts.map (·.name) ∧
    (∃ t ∈ ts, t.name = n ∧ r = (f t).2 ∧ (∀ t' ∈ ts', t' ∈ ts ∨ t' = (f t).1) ∧
      ((f t).1 = t → ts' = ts)) := by
  induction ts generalizing ts' r with
  | nil => simp [updFirst] at h
  | cons t ts ih =>
    unfold updFirst at h
    split at h
    · rename_i hn
      simp only [Option.some.injEq, Prod.mk.injEq] at h
      obtain ⟨h1, h2⟩ := h
      subst h1 h2
      refine ⟨by simp [hname], t, List.mem_cons_self, hn, rfl, ?_, ?_⟩
      · intro t' ht'
        rcases List.mem_cons.1 ht' with e | e
        · exact .inr e
        · exact .inl (List.mem_cons_of_mem _ e)
      · intro e; rw [e]
    · split at h
      · simp at h
      · rename_i hne ts'' r'' hs
        simp only [Option.some.injEq, Prod.mk.injEq] at h
        obtain ⟨h1, h2⟩ := h
        subst h1 h2
        obtain ⟨hn, u, hu, hun, hr, hmem, hsame⟩ := ih hs
        refine ⟨by simp [hn], u, List.mem_cons_of_mem _ hu, hun, hr, ?_, ?_⟩
        · intro t' ht'
          rcases List.mem_cons.1 ht' with e | e
          · exact .inl (e ▸ List.mem_cons_self)
          · rcases hmem t' e with e' | e'
            · exact .inl (List.mem_cons_of_mem _ e')
            · exact .inr e'
        · intro e; rw [hsame e]

/-! ### `mapNamed`, `updAll` -/

theorem mapNamed_names (n : GoString) (f : Typ → Typ) (hf : ∀ t, (f t).name = t.name) (ts : List Typ) :
    (mapNamed n f ts).map (·.name) = ts.map (·.name) := by
  unfold mapNamed
  rw [List.map_map]
  apply List.map_congr_left
  intro t _; simp only [Function.comp]; split <;> simp [hf]

theorem mem_mapNamed {n : GoString} {f : Typ → Typ} {ts : List Typ} {t' : Typ}
    (h : t' ∈ mapNamed n f ts) : t' ∈ ts ∨ ∃ t ∈ ts, t.name = n ∧ t' = f t := by
  unfold mapNamed at h
  obtain ⟨t, ht, e⟩ := List.mem_map.1 h
  split at e
  · rename_i hn; exact .inr ⟨t, ht, hn, e.symm⟩
  · exact .inl (e ▸ ht)

theorem mapNamed_id_of_fix (n : GoString) (f : Typ → Typ) (ts : List Typ)
    (h : ∀ t ∈ ts, t.name = n → f t = t) : mapNamed n f ts = ts := by
  unfold mapNamed
  conv => rhs; rw [← List.map_id ts]
  apply List.map_congr_left
  intro t ht; split
  · rename_i hn; exact h t ht hn
  · rfl

theorem mapNamed_absent (n : GoString) (f : Typ → Typ) (ts : List Typ)
    (h : n ∉ ts.map (·.name)) : mapNamed n f ts = ts :=
  mapNamed_id_of_fix n f ts (fun t ht hn => absurd (List.mem_map.2 ⟨t, ht, hn⟩) h)

theorem mapNamed_comp (n : GoString) (f g : Typ → Typ) (hf : ∀ t, (f t).name = t.name) (ts : List Typ) :
    mapNamed n g (mapNamed n f ts) = mapNamed n (fun t => g (f t)) ts := by
  unfold mapNamed
  rw [List.map_map]
  apply List.map_congr_left
  intro t _; simp only [Function.comp]
  by_cases h : t.name = n
  · simp [h, hf]
  · simp [h]

/-! ### the pieces of `AddTwoWayRel` -/

theorem inv_mapNamed {s : Schema} (h : Inv s) (n : GoString) (f : Typ → Typ)
    (hf : ∀ t, (f t).name = t.name) (hw : ∀ t, TypWF t → TypWF (f t)) :
    Inv { types := mapNamed n f s.types } := by
  obtain ⟨h1, h2⟩ := h
  refine ⟨by simp only []; rw [mapNamed_names n f hf]; exact h1, ?_⟩
  intro t' ht'
  rcases mem_mapNamed ht' with e | ⟨t, ht, _, e⟩
  · exact h2 t' e
  · subst e; exact ⟨by rw [hf]; exact (h2 t ht).1, hw t (h2 t ht).2⟩

theorem inv_twAdd {s : Schema} (h : Inv s) (x : Rel) : Inv (twAdd s x) :=
  inv_mapNamed h _ _ (fun t => Typ.addRel_name t x) (fun _ ht => Typ.addRel_wf ht x)

theorem inv_twUndo {s : Schema} (h : Inv s) (x : Rel) : Inv (twUndo s x) :=
  inv_mapNamed h _ _ (fun t => Typ.removeRel_name t _) (fun _ ht => Typ.removeRel_wf ht _)

theorem hasType_twAdd (s : Schema) (x : Rel) (n : GoString) : (twAdd s x).hasType n = s.hasType n := by
  have := mapNamed_names x.fromType (fun t => (t.addRel x).1) (fun t => Typ.addRel_name t x) s.types
  rw [Bool.eq_iff_iff, hasType_iff, hasType_iff]; simp only [twAdd, this]

theorem hasType_twUndo (s : Schema) (x : Rel) (n : GoString) : (twUndo s x).hasType n = s.hasType n := by
  have := mapNamed_names x.fromType (fun t => t.removeRel x.fromName) (fun t => Typ.removeRel_name t _) s.types
  rw [Bool.eq_iff_iff, hasType_iff, hasType_iff]; simp only [twUndo, this]

theorem twAdd_absent (s : Schema) (x : Rel) (h : ¬ s.hasType x.fromType = true) : twAdd s x = s := by
  unfold twAdd; rw [mapNamed_absent _ _ _ (fun hm => h ((hasType_iff s _).2 hm))]

theorem twUndo_absent (s : Schema) (x : Rel) (h : ¬ s.hasType x.fromType = true) : twUndo s x = s := by
  unfold twUndo; rw [mapNamed_absent _ _ _ (fun hm => h ((hasType_iff s _).2 hm))]

/-- Undoing a successful half restores the schema exactly. -/
theorem twUndo_twAdd {s : Schema} (h : Inv s) (x : Rel) (hok : twRes s x = .ok ()) :
    twUndo (twAdd s x) x = s := by
  unfold twUndo twAdd
  simp only []
  rw [mapNamed_comp _ _ _ (fun t => Typ.addRel_name t x)]
  rw [mapNamed_id_of_fix]
  intro t ht hn
  have hh : s.hasType x.fromType = true := (hasType_iff s _).2 (List.mem_map.2 ⟨t, ht, hn⟩)
  have hg : s.getType x.fromType = t := by rw [← hn]; exact eq_getType_of_mem h.1 ht
  unfold twRes at hok
  rw [if_pos hh, hg] at hok
  exact Typ.removeRel_addRel (h.2 t ht).2 x hok

theorem twRes_no_panic (s : Schema) (x : Rel) : twRes s x ≠ .panic := by
  unfold twRes; split
  · exact Typ.addRel_no_panic _ _
  · simp

end Schema
end Jsonapi

namespace Jsonapi
open Schema GoMap

theorem Schema.getType_mapNamed (s : Schema) (n : GoString) (f : Typ → Typ)
    (hf : ∀ t, (f t).name = t.name) (m : GoString) (hm : s.hasType m = true) :
    ({ types := mapNamed n f s.types } : Schema).getType m =
      if m = n then f (s.getType m) else s.getType m := by
  unfold Schema.getType mapNamed
  simp only []
  have key : ∀ ts : List Typ, (∃ t ∈ ts, t.name = m) →
      (match (ts.map (fun t => if t.name = n then f t else t)).find? (fun t => decide (t.name = m)) with
        | some t => t | none => Typ.empty) =
      if m = n then f (match ts.find? (fun t => decide (t.name = m)) with | some t => t | none => Typ.empty)
      else (match ts.find? (fun t => decide (t.name = m)) with | some t => t | none => Typ.empty) := by
    intro ts
    induction ts with
    | nil => rintro ⟨t, ht, _⟩; cases ht
    | cons u us ih =>
      intro hex
      by_cases hu : u.name = m
      · by_cases hn : u.name = n
        · have : m = n := hu ▸ hn
          simp [List.find?_cons, hu, hn, hf, this]
        · have : ¬ m = n := fun e => hn (hu.trans e)
          simp [List.find?_cons, hu, hn, this]
      · have hex' : ∃ t ∈ us, t.name = m := by
          obtain ⟨t, ht, e⟩ := hex
          rcases List.mem_cons.1 ht with e' | e'
          · subst e'; exact absurd e hu
          · exact ⟨t, e', e⟩
        have hu' : ¬ (if u.name = n then f u else u).name = m := by
          split <;> simp [hf, hu]
        simp only [List.map_cons, List.find?_cons, hu', hu, decide_false]
        exact ih hex'
  apply key
  obtain ⟨t, ht, e⟩ := List.any_eq_true.1 hm
  exact ⟨t, ht, by simpa using e⟩

end Jsonapi

namespace Jsonapi
open Schema GoMap

theorem Typ.addRel_ok {t : Typ} (h : TypWF t) (r : Rel) (h1 : r.fromName ≠ []) (h2 : r.toType ≠ [])
    (h3 : r.fromName ∉ t.rels.keys) (h4 : r.fromName ∉ t.attrs.keys) :
    t.addRel r = ({ t with rels := t.rels.set r.fromName r }, .ok ()) := by
  have u3 : ¬ t.relNameUsed r.fromName = true := fun hu => h3 ((Typ.relNameUsed_iff h _).1 hu)
  have u4 : ¬ t.attrNameUsed r.fromName = true := fun hu => h4 ((Typ.attrNameUsed_iff h _).1 hu)
  simp [Typ.addRel, h1, h2, u3, u4]

theorem Schema.getType_twAdd (s : Schema) (x : Rel) (m : GoString) (hm : s.hasType m = true) :
    (twAdd s x).getType m = if m = x.fromType then ((s.getType m).addRel x).1 else s.getType m :=
  getType_mapNamed s _ _ (fun t => Typ.addRel_name t x) _ hm

theorem Schema.twoway_core (s : Schema) (h : Inv s) (x : Rel)
    (hft : s.hasType x.fromType = true) (htt : s.hasType x.toType = true)
    (hfn : x.fromName ≠ []) (htn : x.toName ≠ [])
    (hfreeF : x.fromName ∉ (s.getType x.fromType).attrs.keys ∧ x.fromName ∉ (s.getType x.fromType).rels.keys)
    (hfreeT : x.toName ∉ (s.getType x.toType).attrs.keys ∧ x.toName ∉ (s.getType x.toType).rels.keys)
    (hns : ¬ (x.fromType = x.toType ∧ x.fromName = x.toName)) :
    twRes s x = .ok () ∧ twRes (twAdd s x) x.invert = .ok () ∧
    ((twAdd (twAdd s x) x.invert).getType x.fromType).rels.get? x.fromName = some x ∧
    ((twAdd (twAdd s x) x.invert).getType x.toType).rels.get? x.toName = some x.invert := by
  obtain ⟨m1, n1⟩ := getType_mem hft
  obtain ⟨m2, n2⟩ := getType_mem htt
  have w1 := (h.2 _ m1).2
  have ne1 : x.fromType ≠ [] := by rw [← n1]; exact (h.2 _ m1).1
  have ne2 : x.toType ≠ [] := by rw [← n2]; exact (h.2 _ m2).1
  have a1 := Typ.addRel_ok w1 x hfn ne2 hfreeF.2 hfreeF.1
  have r1 : twRes s x = .ok () := by unfold twRes; rw [if_pos hft, a1]
  have g1 := getType_twAdd s x x.toType htt
  have g1' : (twAdd s x).getType x.fromType = ((s.getType x.fromType).addRel x).1 := by
    rw [getType_twAdd s x x.fromType hft, if_pos rfl]
  have hinv1 : Inv (twAdd s x) := inv_twAdd h x
  have htt1 : (twAdd s x).hasType x.toType = true := by rw [hasType_twAdd]; exact htt
  have hft1 : (twAdd s x).hasType x.fromType = true := by rw [hasType_twAdd]; exact hft
  -- second half succeeds
  have a2 : ((twAdd s x).getType x.toType).addRel x.invert =
      ({ (twAdd s x).getType x.toType with
          rels := ((twAdd s x).getType x.toType).rels.set x.toName x.invert }, .ok ()) := by
    obtain ⟨m2', _⟩ := getType_mem htt1
    have w2' := (hinv1.2 _ m2').2
    apply Typ.addRel_ok w2' x.invert htn ne1
    · show x.toName ∉ ((twAdd s x).getType x.toType).rels.keys
      rw [g1]; split
      · rename_i e
        rw [e] at hfreeT ⊢
        rw [a1]; simp only []
        rw [set_of_not_mem _ _ _ hfreeF.2]
        simp only [keys, List.map_append, List.map_cons, List.map_nil, List.mem_append,
          List.mem_singleton, not_or]
        exact ⟨hfreeT.2, fun e' => hns ⟨e.symm, e'.symm⟩⟩
      · exact hfreeT.2
    · show x.toName ∉ ((twAdd s x).getType x.toType).attrs.keys
      rw [g1]; split
      · rename_i e
        rw [e] at hfreeT ⊢
        rw [a1]; exact hfreeT.1
      · exact hfreeT.1
  have r2 : twRes (twAdd s x) x.invert = .ok () := by
    unfold twRes
    have : (twAdd s x).hasType x.invert.fromType = true := htt1
    rw [if_pos this]
    show (((twAdd s x).getType x.toType).addRel x.invert).2 = .ok ()
    rw [a2]
  refine ⟨r1, r2, ?_, ?_⟩
  · rw [getType_twAdd (twAdd s x) x.invert x.fromType hft1]
    split
    · rename_i e
      have e' : x.fromType = x.toType := e
      have a2' := a2
      rw [← e'] at a2'
      rw [a2']; simp only []
      have : x.fromName ≠ x.toName := fun en => hns ⟨e', en⟩
      rw [get?_set_ne _ _ _ _ this, g1', a1]; simp only []
      exact get?_set_self _ _ _
    · rw [g1', a1]; simp only []
      exact get?_set_self _ _ _
  · rw [getType_twAdd (twAdd s x) x.invert x.toType htt1]
    have : x.toType = x.invert.fromType := rfl
    rw [if_pos this, a2]; simp only []
    exact get?_set_self _ _ _

end Jsonapi
