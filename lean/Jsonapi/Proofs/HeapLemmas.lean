/-
Helpers for C18 (copies and new instances are independent of their source), over the
heap model of `Jsonapi/Model/Heap.lean`. Everything lives in `Jsonapi.HeapL`.

Definitions used by the property statements: `Valid`, `ValidVal`, `Sep`, `FreshModes`,
`Content`, `content`, `contents`. The rest is proof machinery.
-/
import Jsonapi.Model.Heap
namespace Jsonapi
namespace HeapL

/-! ### Definitions used in the C18 statements -/

/-- A field value is well-formed in `h`: its slice address (if any) is allocated and holds
a cell of the right kind. -/
def ValidVal (h : Heap) : HVal → Prop
  | .bytes (some a) => ∃ l, h.read a = some (.bytes l)
  | .ptrBytes (some (some a)) => ∃ l, h.read a = some (.bytes l)
  | .strs (some a) => ∃ l, h.read a = some (.strs l)
  | _ => True

/-- A resource is well-formed in `h`: its type address holds a `.typ` cell and every field
value is well-formed. (`h.read a = some _` implies `a < h.cells.length`.) No `Nodup` on
`r.reach` is required: none of the C18 theorems needs it. -/
structure Valid (h : Heap) (r : HRes) : Prop where
  typ : ∃ t, h.read r.typ = some (.typ t)
  data : ∀ p ∈ r.data, ValidVal h p.2

/-- `a` reaches no cell that `b` reaches. -/
def Sep (a b : HRes) : Prop := ∀ x ∈ a.reach, x ∉ b.reach

/-- The copy stores a fresh slice for each of the three slice-carrying Go types. -/
def FreshModes (mode : String → StoreMode) : Prop :=
  mode "[]uint8" = .fresh ∧ mode "[]string" = .fresh ∧ mode "*[]uint8" = .fresh

instance decFreshModes (mode : String → StoreMode) : Decidable (FreshModes mode) := by
  unfold FreshModes; exact inferInstance

/-- Address-free reading of a field value: what a reader of the resource sees. -/
inductive Content where
  | scalar (v : GoVal)
  | bytes (l : Option (List UInt8))
  | ptrBytes (l : Option (Option (List UInt8)))
  | strs (l : Option (List GoString))
  | dangling   -- unallocated or wrong kind of cell (excluded by `Valid`)

def content (h : Heap) : HVal → Content
  | .scalar v => .scalar v
  | .bytes none => .bytes none
  | .bytes (some a) => (match h.read a with
      | some (.bytes l) => .bytes (some l)
      | _ => .dangling)
  | .ptrBytes none => .ptrBytes none
  | .ptrBytes (some none) => .ptrBytes (some none)
  | .ptrBytes (some (some a)) => (match h.read a with
      | some (.bytes l) => .ptrBytes (some (some l))
      | _ => .dangling)
  | .strs none => .strs none
  | .strs (some a) => (match h.read a with
      | some (.strs l) => .strs (some l)
      | _ => .dangling)

/-- Address-free observation of a resource: type cell, ID, and per field (in order) the
key and the contents of the value. -/
def contents (h : Heap) (r : HRes) : Option Cell × GoString × List (GoString × Content) :=
  (h.read r.typ, r.id, r.data.map (fun p => (p.1, content h p.2)))

/-- Decidable equality on cells (the model derives none); used by the `decide` examples. -/
instance decEqCell : DecidableEq Cell := fun a b =>
  match a, b with
  | .bytes l, .bytes l' =>
    if h : l = l' then isTrue (by rw [h]) else isFalse (fun e => h (Cell.bytes.inj e))
  | .strs l, .strs l' =>
    if h : l = l' then isTrue (by rw [h]) else isFalse (fun e => h (Cell.strs.inj e))
  | .typ t, .typ t' =>
    if h : t = t' then isTrue (by rw [h]) else isFalse (fun e => h (Cell.typ.inj e))
  | .bytes _, .strs _ => isFalse (fun e => Cell.noConfusion e)
  | .bytes _, .typ _ => isFalse (fun e => Cell.noConfusion e)
  | .strs _, .bytes _ => isFalse (fun e => Cell.noConfusion e)
  | .strs _, .typ _ => isFalse (fun e => Cell.noConfusion e)
  | .typ _, .bytes _ => isFalse (fun e => Cell.noConfusion e)
  | .typ _, .strs _ => isFalse (fun e => Cell.noConfusion e)

/-! ### Heap basics -/

theorem read_lt {h : Heap} {x : Addr} {c : Cell} (hr : h.read x = some c) :
    x < h.cells.length := by
  unfold Heap.read at hr
  exact (List.getElem?_eq_some_iff.1 hr).1

/-- `h'` extends `h` (allocation only). -/
def Ext (h h' : Heap) : Prop := ∃ ext, h'.cells = h.cells ++ ext

theorem Ext.refl (h : Heap) : Ext h h := ⟨[], by simp⟩

theorem Ext.trans {h1 h2 h3 : Heap} (a : Ext h1 h2) (b : Ext h2 h3) : Ext h1 h3 := by
  rcases a with ⟨e1, h1e⟩; rcases b with ⟨e2, h2e⟩
  exact ⟨e1 ++ e2, by rw [h2e, h1e, List.append_assoc]⟩

theorem Ext.alloc (h : Heap) (c : Cell) : Ext h (h.alloc c).1 := ⟨[c], rfl⟩

theorem Ext.length_le {h h' : Heap} (e : Ext h h') : h.cells.length ≤ h'.cells.length := by
  rcases e with ⟨ext, he⟩; rw [he, List.length_append]; omega

theorem Ext.read {h h' : Heap} (e : Ext h h') {x : Addr} {c : Cell}
    (hr : h.read x = some c) : h'.read x = some c := by
  rcases e with ⟨ext, he⟩
  have hlt := read_lt hr
  unfold Heap.read at *
  rw [he, List.getElem?_append_left hlt]; exact hr

theorem Ext.read_lt {h h' : Heap} (e : Ext h h') {x : Addr} (hlt : x < h.cells.length) :
    h'.read x = h.read x := by
  rcases e with ⟨ext, he⟩
  unfold Heap.read
  rw [he, List.getElem?_append_left hlt]

theorem read_alloc_new (h : Heap) (c : Cell) : (h.alloc c).1.read h.cells.length = some c := by
  simp [Heap.alloc, Heap.read]

theorem read_write_ne (h : Heap) {a x : Addr} (c : Cell) (hne : x ≠ a) :
    (h.write a c).read x = h.read x := by
  unfold Heap.write Heap.read
  simp only
  rw [List.getElem?_set_ne (Ne.symm hne)]

theorem read_write_self (h : Heap) {a : Addr} (c : Cell) (hlt : a < h.cells.length) :
    (h.write a c).read a = some c := by
  unfold Heap.write Heap.read
  simp only
  rw [List.getElem?_set_self hlt]

theorem length_write (h : Heap) (a : Addr) (c : Cell) :
    (h.write a c).cells.length = h.cells.length := by
  simp [Heap.write]

/-! ### Kinds, addresses -/

/-- kind of a cell -/
def ckind : Cell → Nat
  | .bytes _ => 0
  | .strs _ => 1
  | .typ _ => 2

/-- kind of cell a value's address must hold -/
def vkind : HVal → Nat
  | .strs _ => 1
  | _ => 0

/-- the slice address of a value, if any -/
def vaddr : HVal → Option Addr
  | .bytes (some a) => some a
  | .strs (some a) => some a
  | .ptrBytes (some (some a)) => some a
  | _ => none

theorem ckind_zero {c : Cell} : ckind c = 0 ↔ ∃ l, c = .bytes l := by
  cases c <;> simp [ckind]

theorem ckind_one {c : Cell} : ckind c = 1 ↔ ∃ l, c = .strs l := by
  cases c <;> simp [ckind]

theorem ckind_two {c : Cell} : ckind c = 2 ↔ ∃ t, c = .typ t := by
  cases c <;> simp [ckind]

theorem validVal_iff (h : Heap) (v : HVal) :
    ValidVal h v ↔ ∀ a, vaddr v = some a → ∃ c, h.read a = some c ∧ ckind c = vkind v := by
  cases v with
  | scalar x => simp [ValidVal, vaddr]
  | bytes o =>
    cases o with
    | none => simp [ValidVal, vaddr]
    | some a =>
      simp only [ValidVal, vaddr, vkind, Option.some.injEq, forall_eq', ckind_zero]
      constructor
      · rintro ⟨l, hl⟩; exact ⟨_, hl, l, rfl⟩
      · rintro ⟨c, hc, l, rfl⟩; exact ⟨l, hc⟩
  | ptrBytes o =>
    cases o with
    | none => simp [ValidVal, vaddr]
    | some o =>
      cases o with
      | none => simp [ValidVal, vaddr]
      | some a =>
        simp only [ValidVal, vaddr, vkind, Option.some.injEq, forall_eq', ckind_zero]
        constructor
        · rintro ⟨l, hl⟩; exact ⟨_, hl, l, rfl⟩
        · rintro ⟨c, hc, l, rfl⟩; exact ⟨l, hc⟩
  | strs o =>
    cases o with
    | none => simp [ValidVal, vaddr]
    | some a =>
      simp only [ValidVal, vaddr, vkind, Option.some.injEq, forall_eq', ckind_one]
      constructor
      · rintro ⟨l, hl⟩; exact ⟨_, hl, l, rfl⟩
      · rintro ⟨c, hc, l, rfl⟩; exact ⟨l, hc⟩

theorem validVal_of_vaddr_none {h : Heap} {v : HVal} (hn : vaddr v = none) : ValidVal h v := by
  rw [validVal_iff]; intro a ha; rw [hn] at ha; cases ha

theorem reach_eq (r : HRes) :
    r.reach = r.typ :: r.data.flatMap (fun p => (vaddr p.2).toList) := by
  unfold HRes.reach
  congr 1
  congr 1
  funext p
  rcases p with ⟨k, v⟩
  cases v with
  | scalar x => rfl
  | bytes o => cases o <;> rfl
  | ptrBytes o =>
    cases o with
    | none => rfl
    | some o => cases o <;> rfl
  | strs o => cases o <;> rfl

theorem mem_reach {r : HRes} {x : Addr} :
    x ∈ r.reach ↔ x = r.typ ∨ ∃ p ∈ r.data, vaddr p.2 = some x := by
  have h1 : x ∈ r.reach ↔ x = r.typ ∨ ∃ p ∈ r.data, x ∈ (vaddr p.2).toList := by
    rw [reach_eq, List.mem_cons, List.mem_flatMap]
  simpa only [Option.mem_toList] using h1

theorem observe_eq (h : Heap) (r : HRes) :
    r.observe h = (h.read r.typ, r.id,
      r.data.map (fun p => (p.1, p.2, (vaddr p.2).bind h.read))) := by
  unfold HRes.observe
  congr 2
  congr 1
  funext p
  rcases p with ⟨k, v⟩
  cases v with
  | scalar x => rfl
  | bytes o => cases o <;> rfl
  | ptrBytes o =>
    cases o with
    | none => rfl
    | some o => cases o <;> rfl
  | strs o => cases o <;> rfl

/-- The observation depends only on the cells the resource reaches. -/
theorem observe_congr {h h' : Heap} {r : HRes}
    (hr : ∀ x ∈ r.reach, h'.read x = h.read x) : r.observe h' = r.observe h := by
  rw [observe_eq, observe_eq, hr r.typ (mem_reach.2 (Or.inl rfl))]
  congr 2
  apply List.map_congr_left
  intro p hp
  cases hv : vaddr p.2 with
  | none => rfl
  | some a =>
    simp only [Option.bind_some]
    rw [hr a (mem_reach.2 (Or.inr ⟨p, hp, hv⟩))]

theorem content_congr {h h' : Heap} {v : HVal}
    (hr : ∀ a, vaddr v = some a → h'.read a = h.read a) : content h' v = content h v := by
  cases v with
  | scalar x => rfl
  | bytes o =>
    cases o with
    | none => rfl
    | some a => simp only [content]; rw [hr a rfl]
  | ptrBytes o =>
    cases o with
    | none => rfl
    | some o =>
      cases o with
      | none => rfl
      | some a => simp only [content]; rw [hr a rfl]
  | strs o =>
    cases o with
    | none => rfl
    | some a => simp only [content]; rw [hr a rfl]

/-! ### Monotonicity of validity -/

/-- Every allocated cell stays allocated with a cell of the same kind. -/
def KindPres (h h' : Heap) : Prop :=
  ∀ x c, h.read x = some c → ∃ c', h'.read x = some c' ∧ ckind c' = ckind c

theorem KindPres.refl (h : Heap) : KindPres h h := fun _ c hc => ⟨c, hc, rfl⟩

theorem Ext.kindPres {h h' : Heap} (e : Ext h h') : KindPres h h' :=
  fun _ c hc => ⟨c, e.read hc, rfl⟩

theorem KindPres.write {h : Heap} {a : Addr} {c c' : Cell} (hr : h.read a = some c)
    (hk : ckind c' = ckind c) : KindPres h (h.write a c') := by
  intro x d hd
  by_cases hx : x = a
  · subst hx
    rw [hr] at hd; cases hd
    exact ⟨c', read_write_self h c' (read_lt hr), hk⟩
  · exact ⟨d, by rw [read_write_ne h c' hx]; exact hd, rfl⟩

theorem validVal_kp {h h' : Heap} (kp : KindPres h h') {v : HVal} (hv : ValidVal h v) :
    ValidVal h' v := by
  rw [validVal_iff] at *
  intro a ha
  obtain ⟨c, hc, hk⟩ := hv a ha
  obtain ⟨c', hc', hk'⟩ := kp a c hc
  exact ⟨c', hc', hk'.trans hk⟩

theorem Valid.kp {h h' : Heap} (kp : KindPres h h') {r : HRes} (hv : Valid h r) :
    Valid h' r := by
  constructor
  · obtain ⟨t, ht⟩ := hv.typ
    obtain ⟨c', hc', hk'⟩ := kp _ _ ht
    obtain ⟨t', rfl⟩ := ckind_two.1 (by rw [hk']; rfl)
    exact ⟨t', hc'⟩
  · intro p hp; exact validVal_kp kp (hv.data p hp)

theorem Valid.ext {h h' : Heap} (e : Ext h h') {r : HRes} (hv : Valid h r) : Valid h' r :=
  hv.kp e.kindPres

theorem validVal_addr_lt {h : Heap} {v : HVal} (hv : ValidVal h v) {a : Addr}
    (ha : vaddr v = some a) : a < h.cells.length := by
  rw [validVal_iff] at hv
  obtain ⟨c, hc, _⟩ := hv a ha
  exact read_lt hc

theorem Valid.reach_lt {h : Heap} {r : HRes} (hv : Valid h r) {x : Addr} (hx : x ∈ r.reach) :
    x < h.cells.length := by
  rcases mem_reach.1 hx with rfl | ⟨p, hp, hx⟩
  · obtain ⟨t, ht⟩ := hv.typ; exact read_lt ht
  · exact validVal_addr_lt (hv.data p hp) hx

theorem content_ext {h h' : Heap} (e : Ext h h') {v : HVal} (hv : ValidVal h v) :
    content h' v = content h v :=
  content_congr (fun _ ha => e.read_lt (validVal_addr_lt hv ha))

theorem observe_ext {h h' : Heap} (e : Ext h h') {r : HRes} (hv : Valid h r) :
    r.observe h' = r.observe h :=
  observe_congr (fun _ hx => e.read_lt (hv.reach_lt hx))

theorem content_ne_dangling {h : Heap} {v : HVal} (hv : ValidVal h v) :
    content h v ≠ .dangling := by
  cases v with
  | scalar x => simp [content]
  | bytes o =>
    cases o with
    | none => simp [content]
    | some a => obtain ⟨l, hl⟩ := hv; simp [content, hl]
  | ptrBytes o =>
    cases o with
    | none => simp [content]
    | some o =>
      cases o with
      | none => simp [content]
      | some a => obtain ⟨l, hl⟩ := hv; simp [content, hl]
  | strs o =>
    cases o with
    | none => simp [content]
    | some a => obtain ⟨l, hl⟩ := hv; simp [content, hl]

/-! ### Sep -/

theorem Sep.symm {a b : HRes} (s : Sep a b) : Sep b a :=
  fun x hx hxa => s x hxa hx

/-! ### copyHVal, copyData -/

theorem copyHVal_spec {mode : String → StoreMode} (hm : FreshModes mode) {h : Heap} {v : HVal}
    (hv : ValidVal h v) :
    Ext h (copyHVal mode h v).1 ∧
    content (copyHVal mode h v).1 (copyHVal mode h v).2 = content h v ∧
    ValidVal (copyHVal mode h v).1 (copyHVal mode h v).2 ∧
    (∀ x, vaddr (copyHVal mode h v).2 = some x → h.cells.length ≤ x) := by
  obtain ⟨hm1, hm2, hm3⟩ := hm
  cases v with
  | scalar x => exact ⟨Ext.refl h, rfl, trivial, by simp [copyHVal, vaddr]⟩
  | bytes o =>
    cases o with
    | none => exact ⟨Ext.refl h, rfl, trivial, by simp [copyHVal, vaddr]⟩
    | some a =>
      obtain ⟨l, hl⟩ := hv
      simp only [copyHVal, hm1, hl, Heap.alloc]
      refine ⟨⟨[_], rfl⟩, ?_, ?_, ?_⟩
      · have hl' : h.cells[a]? = some _ := hl
        simp [content, Heap.read, hl']
      · exact ⟨l, by simp [Heap.read]⟩
      · intro x hx; simp only [vaddr, Option.some.injEq] at hx; subst hx; exact Nat.le_refl _
  | ptrBytes o =>
    cases o with
    | none => exact ⟨Ext.refl h, rfl, trivial, by simp [copyHVal, vaddr]⟩
    | some o =>
      cases o with
      | none => exact ⟨Ext.refl h, rfl, trivial, by simp [copyHVal, vaddr]⟩
      | some a =>
        obtain ⟨l, hl⟩ := hv
        simp only [copyHVal, hm3, hl, Heap.alloc]
        refine ⟨⟨[_], rfl⟩, ?_, ?_, ?_⟩
        · have hl' : h.cells[a]? = some _ := hl
          simp [content, Heap.read, hl']
        · exact ⟨l, by simp [Heap.read]⟩
        · intro x hx; simp only [vaddr, Option.some.injEq] at hx; subst hx; exact Nat.le_refl _
  | strs o =>
    cases o with
    | none => exact ⟨Ext.refl h, rfl, trivial, by simp [copyHVal, vaddr]⟩
    | some a =>
      obtain ⟨l, hl⟩ := hv
      simp only [copyHVal, hm2, hl, Heap.alloc]
      refine ⟨⟨[_], rfl⟩, ?_, ?_, ?_⟩
      · have hl' : h.cells[a]? = some _ := hl
        simp [content, Heap.read, hl']
      · exact ⟨l, by simp [Heap.read]⟩
      · intro x hx; simp only [vaddr, Option.some.injEq] at hx; subst hx; exact Nat.le_refl _

/-- `copyData` as a structural recursion. -/
def copyDataRec (mode : String → StoreMode) (h : Heap) : GoMap HVal → Heap × GoMap HVal
  | [] => (h, [])
  | p :: rest =>
    ((copyDataRec mode (copyHVal mode h p.2).1 rest).1,
     (p.1, (copyHVal mode h p.2).2) :: (copyDataRec mode (copyHVal mode h p.2).1 rest).2)

theorem copyData_fold (mode : String → StoreMode) :
    ∀ (d : GoMap HVal) (h : Heap) (acc : GoMap HVal),
      d.foldl (fun (acc : Heap × GoMap HVal) p =>
        let (h', v') := copyHVal mode acc.1 p.2
        (h', acc.2 ++ [(p.1, v')])) (h, acc) =
      ((copyDataRec mode h d).1, acc ++ (copyDataRec mode h d).2) := by
  intro d
  induction d with
  | nil => intro h acc; simp [copyDataRec]
  | cons p rest ih =>
    intro h acc
    simp only [List.foldl_cons]
    rw [ih]
    simp [copyDataRec]

theorem copyData_eq (mode : String → StoreMode) (h : Heap) (d : GoMap HVal) :
    copyData mode h d = copyDataRec mode h d := by
  unfold copyData
  rw [copyData_fold]
  simp

theorem copyDataRec_spec {mode : String → StoreMode} (hm : FreshModes mode) :
    ∀ (d : GoMap HVal) (h : Heap) (n : Nat), n ≤ h.cells.length →
      (∀ p ∈ d, ValidVal h p.2) →
      Ext h (copyDataRec mode h d).1 ∧
      (copyDataRec mode h d).2.map (·.1) = d.map (·.1) ∧
      (copyDataRec mode h d).2.map (fun p => (p.1, content (copyDataRec mode h d).1 p.2))
        = d.map (fun p => (p.1, content h p.2)) ∧
      (∀ p ∈ (copyDataRec mode h d).2, ValidVal (copyDataRec mode h d).1 p.2) ∧
      (∀ p ∈ (copyDataRec mode h d).2, ∀ x, vaddr p.2 = some x → n ≤ x) := by
  intro d
  induction d with
  | nil =>
    intro h n _ _
    exact ⟨Ext.refl h, rfl, rfl, by simp [copyDataRec], by simp [copyDataRec]⟩
  | cons p rest ih =>
    intro h n hn hv
    have hvp : ValidVal h p.2 := hv p (List.mem_cons_self ..)
    obtain ⟨e1, c1, v1, a1⟩ := copyHVal_spec hm hvp
    have hvr : ∀ q ∈ rest, ValidVal (copyHVal mode h p.2).1 q.2 :=
      fun q hq => validVal_kp e1.kindPres (hv q (List.mem_cons_of_mem _ hq))
    obtain ⟨e2, k2, c2, v2, a2⟩ :=
      ih (copyHVal mode h p.2).1 n (Nat.le_trans hn e1.length_le) hvr
    simp only [copyDataRec]
    refine ⟨e1.trans e2, ?_, ?_, ?_, ?_⟩
    · simp only [List.map_cons, k2]
    · simp only [List.map_cons]
      rw [c2, content_ext e2 v1, c1]
      congr 1
      apply List.map_congr_left
      intro q hq
      rw [content_ext e1 (hv q (List.mem_cons_of_mem _ hq))]
    · intro q hq
      rcases List.mem_cons.1 hq with rfl | hq
      · exact validVal_kp e2.kindPres v1
      · exact v2 q hq
    · intro q hq x hx
      rcases List.mem_cons.1 hq with rfl | hq
      · exact Nat.le_trans hn (a1 x hx)
      · exact a2 q hq x hx

/-! ### GoMap facts -/

theorem mem_set {β : Type} {m : GoMap β} {k : GoString} {v : β} {p : GoString × β}
    (hp : p ∈ GoMap.set m k v) : p ∈ m ∨ p = (k, v) := by
  induction m with
  | nil => simp [GoMap.set] at hp; exact Or.inr hp
  | cons q rest ih =>
    rcases q with ⟨k', v'⟩
    simp only [GoMap.set] at hp
    split at hp
    · rcases List.mem_cons.1 hp with rfl | hp
      · exact Or.inr rfl
      · exact Or.inl (List.mem_cons_of_mem _ hp)
    · rcases List.mem_cons.1 hp with rfl | hp
      · exact Or.inl (List.mem_cons_self ..)
      · rcases ih hp with h | h
        · exact Or.inl (List.mem_cons_of_mem _ h)
        · exact Or.inr h

theorem mem_of_get? {β : Type} {m : GoMap β} {k : GoString} {v : β}
    (hg : GoMap.get? m k = some v) : (k, v) ∈ m := by
  induction m with
  | nil => simp [GoMap.get?] at hg
  | cons q rest ih =>
    rcases q with ⟨k', v'⟩
    simp only [GoMap.get?] at hg
    split at hg
    · next hk => cases hg; subst hk; exact List.mem_cons_self ..
    · exact List.mem_cons_of_mem _ (ih hg)

/-! ### One operation -/

/-- What one operation on `a` guarantees about the heap and the resource. -/
structure StepOK (h : Heap) (a : HRes) (h' : Heap) (a' : HRes) : Prop where
  kp : KindPres h h'
  frame : ∀ x, x < h.cells.length → x ∉ a.reach → h'.read x = h.read x
  reach : ∀ x ∈ a'.reach, x ∈ a.reach ∨ h.cells.length ≤ x
  valid : Valid h' a'

theorem step_refl {h : Heap} {a : HRes} (hv : Valid h a) : StepOK h a h a :=
  ⟨KindPres.refl h, fun _ _ _ => rfl, fun _ hx => Or.inl hx, hv⟩

theorem step_id {h : Heap} {a : HRes} (hv : Valid h a) (id : GoString) :
    StepOK h a h { a with id := id } :=
  ⟨KindPres.refl h, fun _ _ _ => rfl, fun _ hx => Or.inl hx, ⟨hv.typ, hv.data⟩⟩

theorem step_set {h h' : Heap} {a : HRes} (hv : Valid h a) (e : Ext h h') (k : GoString)
    {v : HVal} (hvv : ValidVal h' v) (hva : ∀ x, vaddr v = some x → h.cells.length ≤ x) :
    StepOK h a h' { a with data := a.data.set k v } := by
  refine ⟨e.kindPres, fun x hx _ => e.read_lt hx, ?_, ?_⟩
  · intro x hx
    rcases mem_reach.1 hx with rfl | ⟨p, hp, hpx⟩
    · exact Or.inl (mem_reach.2 (Or.inl rfl))
    · rcases mem_set hp with hp | rfl
      · exact Or.inl (mem_reach.2 (Or.inr ⟨p, hp, hpx⟩))
      · exact Or.inr (hva x hpx)
  · have hv' := hv.ext e
    refine ⟨hv'.typ, ?_⟩
    intro p hp
    rcases mem_set hp with hp | rfl
    · exact hv'.data p hp
    · exact hvv

theorem step_write {h : Heap} {a : HRes} (hv : Valid h a) {x : Addr} (hx : x ∈ a.reach)
    {c c' : Cell} (hr : h.read x = some c) (hk : ckind c' = ckind c) :
    StepOK h a (h.write x c') a := by
  have kp := KindPres.write hr hk
  refine ⟨kp, ?_, fun _ hy => Or.inl hy, hv.kp kp⟩
  intro y _ hy
  apply read_write_ne
  intro e; subst e; exact hy hx

theorem apply_ok {h : Heap} {a : HRes} (hv : Valid h a) (op : HOp) :
    StepOK h a (a.apply h op).1 (a.apply h op).2 := by
  cases op with
  | setScalar k v =>
    exact step_set hv (Ext.refl h) k (v := .scalar v) trivial (by simp [vaddr])
  | setBytes k o =>
    cases o with
    | none => exact step_set hv (Ext.refl h) k (v := .bytes none) trivial (by simp [vaddr])
    | some l =>
      refine step_set hv (Ext.alloc h (.bytes l)) k (v := .bytes (some h.cells.length)) ?_ ?_
      · exact ⟨l, read_alloc_new h _⟩
      · intro x hx; simp only [vaddr, Option.some.injEq] at hx; subst hx; exact Nat.le_refl _
  | setStrs k o =>
    cases o with
    | none => exact step_set hv (Ext.refl h) k (v := .strs none) trivial (by simp [vaddr])
    | some l =>
      refine step_set hv (Ext.alloc h (.strs l)) k (v := .strs (some h.cells.length)) ?_ ?_
      · exact ⟨l, read_alloc_new h _⟩
      · intro x hx; simp only [vaddr, Option.some.injEq] at hx; subst hx; exact Nat.le_refl _
  | setID id => exact step_id hv id
  | writeBytes k i b =>
    simp only [HRes.apply]
    split
    · next x hg =>
      have hx : x ∈ a.reach := mem_reach.2 (Or.inr ⟨_, mem_of_get? hg, rfl⟩)
      split
      · next l hr => exact step_write hv hx hr rfl
      · exact step_refl hv
    · next x hg =>
      have hx : x ∈ a.reach := mem_reach.2 (Or.inr ⟨_, mem_of_get? hg, rfl⟩)
      split
      · next l hr => exact step_write hv hx hr rfl
      · exact step_refl hv
    · exact step_refl hv
  | writeStr k i s =>
    simp only [HRes.apply]
    split
    · next x hg =>
      have hx : x ∈ a.reach := mem_reach.2 (Or.inr ⟨_, mem_of_get? hg, rfl⟩)
      split
      · next l hr => exact step_write hv hx hr rfl
      · exact step_refl hv
    · exact step_refl hv
  | sortStrs k =>
    simp only [HRes.apply]
    split
    · next x hg =>
      have hx : x ∈ a.reach := mem_reach.2 (Or.inr ⟨_, mem_of_get? hg, rfl⟩)
      split
      · next l hr => exact step_write hv hx hr rfl
      · exact step_refl hv
    · exact step_refl hv
  | editType f =>
    simp only [HRes.apply]
    split
    · next t hr => exact step_write hv (mem_reach.2 (Or.inl rfl)) hr rfl
    · exact step_refl hv

/-- One step on `a` does not disturb a separate valid `b`. -/
theorem step_indep {h h' : Heap} {a a' b : HRes} (st : StepOK h a h' a') (hb : Valid h b)
    (s : Sep a b) : b.observe h' = b.observe h ∧ Valid h' b ∧ Sep a' b := by
  refine ⟨?_, hb.kp st.kp, ?_⟩
  · apply observe_congr
    intro x hx
    exact st.frame x (hb.reach_lt hx) (fun hxa => s x hxa hx)
  · intro x hx hxb
    rcases st.reach x hx with hxa | hge
    · exact s x hxa hxb
    · exact absurd (hb.reach_lt hxb) (Nat.not_lt.2 hge)

/-- The invariant over a whole operation history. -/
theorem applyAll_indep (b : HRes) :
    ∀ (ops : List HOp) (h : Heap) (a : HRes), Valid h a → Valid h b → Sep a b →
      b.observe (a.applyAll h ops).1 = b.observe h ∧
      Valid (a.applyAll h ops).1 (a.applyAll h ops).2 ∧
      Valid (a.applyAll h ops).1 b ∧ Sep (a.applyAll h ops).2 b := by
  intro ops
  induction ops with
  | nil => intro h a ha hb s; exact ⟨rfl, ha, hb, s⟩
  | cons op ops ih =>
    intro h a ha hb s
    have st := apply_ok ha op
    obtain ⟨o1, b1, s1⟩ := step_indep st hb s
    obtain ⟨o2, a2, b2, s2⟩ := ih _ _ st.valid b1 s1
    have e : a.applyAll h (op :: ops) = (a.apply h op).2.applyAll (a.apply h op).1 ops := by
      simp [HRes.applyAll]
    rw [e]
    exact ⟨o2.trans o1, a2, b2, s2⟩

/-! ### Copy and New -/

/-- Everything C18 needs to know about `Copy`. -/
theorem copy_spec {mode : String → StoreMode} (hm : FreshModes mode) {h : Heap} {r : HRes}
    (hv : Valid h r) :
    Ext h (r.copy mode h).1 ∧
    (r.copy mode h).2.id = r.id ∧
    (r.copy mode h).1.read (r.copy mode h).2.typ = h.read r.typ ∧
    (r.copy mode h).2.data.keys = r.data.keys ∧
    contents (r.copy mode h).1 (r.copy mode h).2 = contents h r ∧
    Valid (r.copy mode h).1 (r.copy mode h).2 ∧
    (∀ x ∈ (r.copy mode h).2.reach, h.cells.length ≤ x) := by
  obtain ⟨t, ht⟩ := hv.typ
  have e1 : Ext h (h.alloc (.typ t)).1 := Ext.alloc h _
  have hv1 : Valid (h.alloc (.typ t)).1 r := hv.ext e1
  obtain ⟨e2, k2, c2, v2, a2⟩ := copyDataRec_spec hm r.data (h.alloc (.typ t)).1
    h.cells.length e1.length_le hv1.data
  have hc : r.copy mode h = ((copyDataRec mode (h.alloc (.typ t)).1 r.data).1,
      { typ := h.cells.length, id := r.id,
        data := (copyDataRec mode (h.alloc (.typ t)).1 r.data).2 }) := by
    simp only [HRes.copy, ht, copyData_eq]
    rfl
  rw [hc]
  have hty : (copyDataRec mode (h.alloc (.typ t)).1 r.data).1.read h.cells.length
      = some (.typ t) := e2.read (read_alloc_new h _)
  refine ⟨e1.trans e2, rfl, ?_, k2, ?_, ⟨⟨t, hty⟩, v2⟩, ?_⟩
  · simp only; rw [hty, ht]
  · simp only [contents]
    rw [hty, ht, c2]
    congr 2
    apply List.map_congr_left
    intro q hq
    rw [content_ext e1 (hv.data q hq)]
  · intro x hx
    rcases mem_reach.1 hx with rfl | ⟨p, hp, hpx⟩
    · exact Nat.le_refl _
    · exact a2 p hp x hpx

theorem sep_of_fresh {h : Heap} {c r : HRes} (hv : Valid h r)
    (hc : ∀ x ∈ c.reach, h.cells.length ≤ x) : Sep c r := by
  intro x hx hxr
  exact absurd (hv.reach_lt hxr) (Nat.not_lt.2 (hc x hx))

theorem new_spec {h : Heap} {r : HRes} (hv : Valid h r) :
    Ext h (r.new h).1 ∧ (r.new h).2.id = [] ∧ (r.new h).2.data = [] ∧
    (r.new h).1.read (r.new h).2.typ = h.read r.typ ∧
    Valid (r.new h).1 (r.new h).2 ∧
    (∀ x ∈ (r.new h).2.reach, h.cells.length ≤ x) := by
  obtain ⟨t, ht⟩ := hv.typ
  have hn : r.new h = ((h.alloc (.typ t)).1, { typ := h.cells.length, id := [], data := [] }) := by
    simp only [HRes.new, ht]; rfl
  rw [hn]
  refine ⟨Ext.alloc h _, rfl, rfl, ?_, ⟨⟨t, read_alloc_new h _⟩, by simp⟩, ?_⟩
  · simp only; rw [read_alloc_new, ht]
  · intro x hx
    rcases mem_reach.1 hx with rfl | ⟨p, hp, _⟩
    · exact Nat.le_refl _
    · simp at hp

/-! ### Concrete heaps for the `decide` examples of C18 -/

/-- a heap with a type cell and one byte slice `[1, 2]` -/
def exHeapShared : Heap := { cells := [.typ Typ.empty, .bytes [1, 2]] }
/-- a resource with one `[]byte` field `"b"` -/
def exResShared : HRes := { typ := 0, id := [49], data := [([98], .bytes (some 1))] }

theorem exResShared_valid : Valid exHeapShared exResShared :=
  ⟨⟨_, rfl⟩, by
    intro p hp
    simp only [exResShared, List.mem_singleton] at hp
    subst hp
    exact ⟨_, rfl⟩⟩

/-- type cell, `[]byte` backing `[1,2]`, `*[]byte` backing `[3]`, `[]string` backing `["b","a"]` -/
def exHeap : Heap :=
  { cells := [.typ Typ.empty, .bytes [1, 2], .bytes [3], .strs [[98], [97]]] }
/-- fields `"x" : []byte`, `"y" : *[]byte`, `"z" : []string` -/
def exRes : HRes :=
  { typ := 0, id := [49],
    data := [([120], .bytes (some 1)), ([121], .ptrBytes (some (some 2))), ([122], .strs (some 3))] }

/-- `Copy` of `exRes` (soft modes, from the facts) -/
def exCopy : Heap × HRes := exRes.copy softStoreMode exHeap
/-- on the copy: write a byte through the `[]byte`, one through the `*[]byte`, sort the IDs -/
def exAfter : Heap × HRes :=
  exCopy.2.applyAll exCopy.1 [.writeBytes [120] 0 9, .writeBytes [121] 0 7, .sortStrs [122]]

end HeapL
end Jsonapi
