/-
Helper lemmas for Props/GenC03b.lean: the early-exit folds the translator prints for the loops of
`Document.Include` (a `List.range` fold that reads the members of a collection view by index, the
`ret'` state of a loop with `return`) against the model's `List.any`; the fold of `Identifiers.IDs`
that stores into the elements of a slice made by `make` against `List.map`.
-/
import Jsonapi.Generated.Funcs
import Jsonapi.Proofs.MarshalLemmas3
namespace Jsonapi.GenC03bL
open Jsonapi

/-- reading every index below the length gives the list back (`C.At(i)` for `i < C.Len()`) -/
theorem map_range_getD {α : Type} (l : List α) (dflt : α) :
    (List.range l.length).map (fun i => l.getD i dflt) = l := by
  apply List.ext_getElem
  · simp
  · intro i h1 h2
    simp only [List.getElem_map, List.getElem_range, List.getD_eq_getElem?_getD]
    rw [List.getElem?_eq_getElem h2]
    rfl

/-- a fold whose step does nothing once `ret'` is `some` (the step function is abstract: the
`match` the translator prints compiles to a matcher of its own) -/
theorem foldl_ret_some {α β : Type} (step : Option β → α → Option β)
    (hs : ∀ w x, step (some w) x = some w) (w : β) (l : List α) :
    l.foldl step (some w) = some w := by
  induction l with
  | nil => rfl
  | cons a l ih => simp only [List.foldl_cons, hs]; exact ih

/-- the loop `for … { if p x { return v } }`: `some v` iff some element satisfies `p` -/
theorem foldl_ret_any {α β : Type} (step : Option β → α → Option β) (p : α → Bool) (v : β)
    (hs : ∀ w x, step (some w) x = some w)
    (hn : ∀ x, step none x = if p x then some v else none) (l : List α) :
    l.foldl step none = if l.any p then some v else none := by
  induction l with
  | nil => rfl
  | cons a l ih =>
    simp only [List.foldl_cons, List.any_cons, hn]
    by_cases h : p a = true
    · simp only [h, if_true, Bool.true_or]
      exact foldl_ret_some step hs v l
    · have h' : p a = false := by simpa using h
      simp only [h', Bool.false_or]
      simpa using ih

/-- the same loop counting over the indices of `l` and reading `l[i]` -/
theorem foldl_range_ret_any {α β : Type} (step : Option β → Nat → Option β) (p : α → Bool) (v : β)
    (l : List α) (dflt : α)
    (hs : ∀ w i, step (some w) i = some w)
    (hn : ∀ i, step none i = if p (l.getD i dflt) then some v else none) :
    (List.range l.length).foldl step none = if l.any p then some v else none := by
  have h := foldl_ret_any (fun acc x => match acc with | some w => some w | none => if p x then some v else none)
    p v (fun _ _ => rfl) (fun _ => rfl) ((List.range l.length).map (fun i => l.getD i dflt))
  rw [List.foldl_map, map_range_getD] at h
  rw [← h]
  congr 1
  funext acc i
  cases acc with
  | some w => exact hs w i
  | none => exact hn i

/-- a fold that stores `g n` at index n for the first k indices -/
theorem foldl_set_range_aux {β : Type} (g : Nat → β) (acc : List β) :
    ∀ k, k ≤ acc.length →
      (List.range k).foldl (fun acc n => acc.set n (g n)) acc = (List.range k).map g ++ acc.drop k := by
  intro k
  induction k with
  | zero => intro _; simp
  | succ k ih =>
    intro hk
    have hk' : k ≤ acc.length := by omega
    rw [List.range_succ, List.foldl_append, ih hk']
    simp only [List.foldl_cons, List.foldl_nil, List.map_append, List.map_cons, List.map_nil]
    rw [List.set_append]
    simp only [List.length_map, List.length_range, Nat.lt_irrefl, if_false, Nat.sub_self]
    have hlt : k < acc.length := by omega
    simp only [List.append_assoc, List.cons_append, List.nil_append]
    rw [List.drop_eq_getElem_cons hlt, List.set_cons_zero]

/-- `for n := range l { out[n] = f(l[n]) }` on `out := make([]T, len(l))` -/
theorem foldl_set_range {α β : Type} (f : α → β) (l : List α) (z : β) (d : α) :
    (List.range l.length).foldl (fun acc n => acc.set n (f (l.getD n d))) (List.replicate l.length z) =
      l.map f := by
  rw [foldl_set_range_aux (fun n => f (l.getD n d)) _ l.length (by simp)]
  have h : (List.range l.length).map (fun n => f (l.getD n d)) =
      ((List.range l.length).map (fun n => l.getD n d)).map f := by simp
  rw [h, map_range_getD]
  simp
end Jsonapi.GenC03bL
