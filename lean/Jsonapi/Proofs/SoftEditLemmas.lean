/- Helper lemmas for C17S (a SoftResource whose type is edited while it holds values). -/
import Jsonapi.Spec.SoftEdit
import Jsonapi.Proofs.CollectionLemmas
import Jsonapi.Proofs.ResourceLemmas
namespace Jsonapi
open GoMap Spec

/-! ### Go maps: delete -/

namespace GoMap
variable {β : Type}

theorem get?_del (m : GoMap β) (k f : GoString) :
    get? (del m k) f = if f = k then none else get? m f := by
  have h := get?_filter (fun x => decide (x ≠ k)) m f
  unfold del
  refine h.trans ?_
  by_cases e : f = k <;> simp [e]

theorem has_del (m : GoMap β) (k f : GoString) :
    has (del m k) f = (decide (f ≠ k) && has m f) := by
  unfold has
  rw [get?_del]
  by_cases e : f = k <;> simp [e]

end GoMap

/-! ### Editing a keyed type -/

theorem Spec.isField_addAttr (t : Typ) (a : Attr) (f : GoString) :
    isField { t with attrs := t.attrs.set a.name a } f = (decide (f = a.name) || isField t f) := by
  unfold isField
  rw [Bool.eq_iff_iff]
  simp only [Bool.or_eq_true, decide_eq_true_eq, has_set]
  constructor
  · rintro ((h | h) | h)
    · exact .inl h
    · exact .inr (.inl h)
    · exact .inr (.inr h)
  · rintro (h | h | h)
    · exact .inl (.inl h)
    · exact .inl (.inr h)
    · exact .inr h

theorem Spec.isField_addRel (t : Typ) (r : Rel) (f : GoString) :
    isField { t with rels := t.rels.set r.fromName r } f = (decide (f = r.fromName) || isField t f) := by
  unfold isField
  rw [Bool.eq_iff_iff]
  simp only [Bool.or_eq_true, decide_eq_true_eq, has_set]
  constructor
  · rintro (h | h | h)
    · exact .inr (.inl h)
    · exact .inl h
    · exact .inr (.inr h)
  · rintro (h | h | h)
    · exact .inr (.inl h)
    · exact .inl h
    · exact .inr (.inr h)

/-- The type after `RemoveField f0`. -/
def Typ.without (t : Typ) (f0 : GoString) : Typ :=
  { t with attrs := t.attrs.del f0, rels := t.rels.del f0 }

theorem Spec.isField_without (t : Typ) (f0 f : GoString) :
    isField (t.without f0) f = (decide (f ≠ f0) && isField t f) := by
  unfold isField Typ.without
  simp only [has_del]
  cases decide (f ≠ f0) <;> simp

theorem Spec.fieldZero_without (t : Typ) (f0 f : GoString) (h : f ≠ f0) :
    fieldZero (t.without f0) f = fieldZero t f := by
  unfold fieldZero Typ.without
  simp only [get?_del, h, if_false]

theorem Spec.accepts_without (t : Typ) (f0 f : GoString) (v : GoVal) (h : f ≠ f0) :
    accepts (t.without f0) f v = accepts t f v := by
  unfold accepts Typ.without
  simp only [get?_del, h, if_false]

theorem TypKeyed.without {t : Typ} (h : TypKeyed t) (f0 : GoString) : TypKeyed (t.without f0) := by
  constructor
  · intro p hp; exact h.attrs p (mem_del hp)
  · intro p hp; exact h.rels p (mem_del hp)
  · exact h.ndA.sublist (keys_del_sublist _ _)
  · exact h.ndR.sublist (keys_del_sublist _ _)
  · intro k hk hk'
    exact h.disj k ((keys_del_sublist t.attrs f0).subset hk) ((keys_del_sublist t.rels f0).subset hk')

theorem Spec.fieldZero_addAttr_ne (t : Typ) (a : Attr) (f : GoString) (h : f ≠ a.name) :
    fieldZero { t with attrs := t.attrs.set a.name a } f = fieldZero t f := by
  unfold fieldZero
  simp only [get?_set_ne _ _ _ _ h]

theorem Spec.fieldZero_addRel_ne (t : Typ) (r : Rel) (f : GoString) (h : f ≠ r.fromName) :
    fieldZero { t with rels := t.rels.set r.fromName r } f = fieldZero t f := by
  unfold fieldZero
  simp only [get?_set_ne _ _ _ _ h]

theorem Spec.accepts_addAttr_ne (t : Typ) (a : Attr) (f : GoString) (v : GoVal) (h : f ≠ a.name) :
    accepts { t with attrs := t.attrs.set a.name a } f v = accepts t f v := by
  unfold accepts
  simp only [get?_set_ne _ _ _ _ h]

theorem Spec.accepts_addRel_ne (t : Typ) (r : Rel) (f : GoString) (v : GoVal) (h : f ≠ r.fromName) :
    accepts { t with rels := t.rels.set r.fromName r } f v = accepts t f v := by
  unfold accepts
  simp only [get?_set_ne _ _ _ _ h]

/-! ### Data maps that hold a value for exactly the fields of a type -/

/-- `D` holds a value for exactly the fields of `t` (what `check` establishes). -/
def Closed (t : Typ) (D : GoMap GoVal) : Prop := ∀ f, D.has f = isField t f

theorem closed_checkData {t : Typ} (ht : TypKeyed t) (d : GoMap GoVal) :
    Closed t (Soft.checkData t d) := by
  intro f
  unfold GoMap.has
  rw [Soft.checkData_get? ht d f]
  by_cases h : isField t f = true
  · simp [h]
  · have h' : isField t f = false := by simpa using h
    simp [h']

theorem Closed.get?_none {t : Typ} {D : GoMap GoVal} (h : Closed t D) {f : GoString}
    (hf : isField t f = false) : D.get? f = none :=
  (has_false_iff _ _).1 (by rw [h f, hf])

theorem Closed.get?_some {t : Typ} {D : GoMap GoVal} (h : Closed t D) {f : GoString}
    (hf : isField t f = true) : ∃ x, D.get? f = some x := by
  have := h f
  rw [hf] at this
  unfold GoMap.has at this
  cases hg : D.get? f with
  | none => rw [hg] at this; cases this
  | some x => exact ⟨x, rfl⟩

theorem Closed.set {t : Typ} {D : GoMap GoVal} (h : Closed t D) {k : GoString}
    (hk : isField t k = true) (w : GoVal) : Closed t (D.set k w) := by
  intro f
  rw [Bool.eq_iff_iff, has_set]
  constructor
  · rintro (e | e)
    · rw [e]; exact hk
    · rw [← h f]; exact e
  · intro e; exact .inr (by rw [h f]; exact e)

/-- A closed map reads as itself through the "value or zero" reading. -/
theorem Closed.self {t : Typ} {D : GoMap GoVal} (h : Closed t D) (f : GoString) :
    D.get? f = if isField t f = true then some ((D.get? f).getD (fieldZero t f)) else none := by
  by_cases hf : isField t f = true
  · obtain ⟨x, hx⟩ := h.get?_some hf
    simp [hf, hx]
  · have hf' : isField t f = false := by simpa using hf
    simp [hf', h.get?_none hf']

/-- Running `check` against a (new) type `t'` on data closed for `t`: the fields of `t'`
that are fields of `t` keep their value, the others get their zero value, all other names
are dropped. -/
theorem Closed.recheck {t t' : Typ} {D : GoMap GoVal} (h : Closed t D) (ht' : TypKeyed t')
    (f : GoString) :
    (Soft.checkData t' D).get? f =
      if isField t' f = true then (if isField t f = true then D.get? f else some (fieldZero t' f))
      else none := by
  rw [Soft.checkData_get? ht' D f]
  by_cases h' : isField t' f = true
  · simp only [h', if_true]
    by_cases hf : isField t f = true
    · obtain ⟨x, hx⟩ := h.get?_some hf
      simp [hf, hx]
    · have hf' : isField t f = false := by simpa using hf
      simp [hf', h.get?_none hf']
  · simp [h']

/-- The same, read through "value or zero" (what `Get` does after the next `check`). -/
theorem Closed.retyped {t t' : Typ} {D : GoMap GoVal} (h : Closed t D) (f : GoString) :
    (if isField t' f = true then some ((D.get? f).getD (fieldZero t' f)) else none) =
      if isField t' f = true then (if isField t f = true then D.get? f else some (fieldZero t' f))
      else none := by
  by_cases h' : isField t' f = true
  · simp only [h', if_true]
    by_cases hf : isField t f = true
    · obtain ⟨x, hx⟩ := h.get?_some hf
      simp [hf, hx]
    · have hf' : isField t f = false := by simpa using hf
      simp [hf', h.get?_none hf']
  · simp [h']

/-! ### The five calls on a resource given by its three components -/

theorem Soft.set_id (t : Typ) (id : GoString) (d : GoMap GoVal) (v : GoVal) :
    ({ typ := t, id := id, data := d } : Soft).set idName v =
      { typ := t, id := idOfVal v, data := Soft.checkData t d } := by
  unfold Soft.set Soft.check
  simp only [if_true]
  cases v with
  | val k p => cases k <;> cases p <;> rfl
  | _ => rfl

theorem Soft.removeField_eq (t : Typ) (id : GoString) (d : GoMap GoVal) (f0 : GoString) :
    ({ typ := t, id := id, data := d } : Soft).removeField f0 =
      { typ := t.without f0, id := id, data := Soft.checkData t d } := rfl

theorem Soft.setType_eq (t : Typ) (id : GoString) (d : GoMap GoVal) (t' : Typ) :
    ({ typ := t, id := id, data := d } : Soft).setType t' =
      { typ := t', id := id, data := Soft.checkData t d } := rfl

/-- Reading a resource whose data was checked against `t` and whose type is now `t'`
(the state every type edit leaves behind). -/
theorem Soft.get_retyped {t t' : Typ} (ht : TypKeyed t) (ht' : TypKeyed t') (id : GoString)
    (d : GoMap GoVal) (f : GoString) :
    ({ typ := t', id := id, data := Soft.checkData t d } : Soft).get f =
      if f = idName then .val .string (.s id)
      else if isField t' f = true then
        (if isField t f = true then (d.get? f).getD (fieldZero t f) else fieldZero t' f)
      else .nil := by
  rw [Soft.get_eq ht']
  by_cases h0 : f = idName
  · simp [h0]
  · simp only [h0, if_false]
    by_cases h' : isField t' f = true
    · simp only [h', if_true]
      rw [Soft.checkData_get? ht d f]
      by_cases hf : isField t f = true
      · simp [hf]
      · have hf' : isField t f = false := by simpa using hf
        simp [hf']
    · simp [h']

/-! ### The abstraction relation -/

theorem SoftAbs.mk' {t : Typ} {id : GoString} {D vals : GoMap GoVal} {t0 : Typ}
    (ht : TypKeyed t) (hid : isField t idName = false) (hD : Closed t0 D)
    (hv : ∀ f, vals.get? f =
      if isField t f = true then (if isField t0 f = true then D.get? f else some (fieldZero t f)) else none) :
    SoftAbs { typ := t, id := id, data := D } { typ := t, id := id, vals := vals } :=
  ⟨rfl, rfl, ht, hid, fun f => by rw [hv f]; exact (hD.retyped f).symm⟩

theorem SoftAbs.mkSame {t : Typ} {id : GoString} {D vals : GoMap GoVal}
    (ht : TypKeyed t) (hid : isField t idName = false) (hD : Closed t D)
    (hv : ∀ f, vals.get? f = D.get? f) :
    SoftAbs { typ := t, id := id, data := D } { typ := t, id := id, vals := vals } :=
  ⟨rfl, rfl, ht, hid, fun f => by rw [hv f]; exact hD.self f⟩

/-- The plain map of a reachable state is the checked data, name by name. -/
theorem SoftAbs.vals_check {s : Soft} {σ : Spec.SoftSt} (h : SoftAbs s σ) (f : GoString) :
    σ.vals.get? f = (Soft.checkData σ.typ s.data).get? f := by
  rw [h.vals f, Soft.checkData_get? h.keyed]

theorem SoftAbs.ofSoft (s : Soft) (hk : TypKeyed s.typ) (hid : isField s.typ idName = false) :
    SoftAbs s (Spec.SoftSt.ofSoft s) := by
  obtain ⟨t, id, d⟩ := s
  simp only [] at hk hid
  refine ⟨rfl, rfl, hk, hid, ?_⟩
  intro f
  show get? ((t.attrs.keys ++ t.rels.keys).map (fun f => (f, (d.get? f).getD (fieldZero t f)))) f =
    if isField t f = true then some ((d.get? f).getD (fieldZero t f)) else none
  rw [get?_map_mk]
  by_cases hf : isField t f = true
  · rw [if_pos (List.mem_append.2 ((isField_iff _ _).1 hf)), if_pos hf]
  · rw [if_neg (fun hm => hf ((isField_iff _ _).2 (List.mem_append.1 hm))), if_neg hf]

/-- Reads agree for every name. -/
theorem SoftAbs.get {s : Soft} {σ : Spec.SoftSt} (h : SoftAbs s σ) (f : GoString) :
    s.get f = σ.get f := by
  obtain ⟨t, id, d⟩ := s
  obtain ⟨t', id', vals⟩ := σ
  obtain ⟨h1, h2, h3, h4, h5⟩ := h
  simp only [] at h1 h2 h3 h4 h5
  subst h1 h2
  rw [Soft.get_eq h3]
  unfold Spec.SoftSt.get
  simp only []
  by_cases h0 : f = idName
  · simp [h0]
  · simp only [h0, if_false]
    rw [h5 f]
    by_cases hf : isField t f = true
    · simp [hf]
    · simp [hf]

/-- One operation in the domain keeps the relation. -/
theorem SoftAbs.step {s : Soft} {σ : Spec.SoftSt} (h : SoftAbs s σ) {op : SoftOp}
    (hop : op.ok σ.typ) : SoftAbs (s.apply op) (σ.step op) := by
  obtain ⟨t, id, d⟩ := s
  obtain ⟨t', id', vals⟩ := σ
  have hvc := h.vals_check
  obtain ⟨h1, h2, ht, hid, -⟩ := h
  simp only [] at h1 h2 ht hid hvc hop
  subst h1 h2
  have hD : Closed t (Soft.checkData t d) := closed_checkData ht d
  cases op with
  | set k v =>
    unfold Soft.apply Spec.SoftSt.step
    simp only []
    by_cases hk : k = idName
    · subst hk
      rw [Soft.set_id, if_pos rfl]
      exact SoftAbs.mkSame ht hid hD hvc
    · rw [Soft.set_eq t id d k v hk, if_neg hk]
      by_cases hacc : accepts t k v = true
      · rw [if_pos hacc, if_pos hacc]
        have hkf := accepts_isField hacc
        have hD' := hD.set hkf (stored t k v)
        refine SoftAbs.mkSame ht hid hD' (fun f => ?_)
        by_cases e : f = k
        · subst e; rw [get?_set_self, get?_set_self]
        · rw [get?_set_ne _ _ _ _ e, get?_set_ne _ _ _ _ e]; exact hvc f
      · rw [if_neg hacc, if_neg hacc]
        exact SoftAbs.mkSame ht hid hD hvc
  | addAttr a =>
    unfold Soft.apply Spec.SoftSt.step
    simp only []
    rw [Soft.addAttr_eq ht]
    by_cases hf : isField t a.name = true
    · rw [if_pos hf, if_pos hf]
      exact SoftAbs.mkSame ht hid hD hvc
    · have hf' : isField t a.name = false := by simpa using hf
      rw [if_neg hf, if_neg hf]
      have hid' : isField { t with attrs := t.attrs.set a.name a } idName = false := by
        rw [isField_addAttr, hid]
        have : ¬ idName = a.name := fun e => hop e.symm
        simp [this]
      refine SoftAbs.mk' (ht.setAttr hf') hid' hD (fun f => ?_)
      rw [isField_addAttr]
      by_cases e : f = a.name
      · subst e
        rw [get?_set_self]
        simp only [decide_true, Bool.true_or, if_true, hf', Bool.false_eq_true, if_false]
        rw [fieldZero_setAttr]
      · rw [get?_set_ne _ _ _ _ e, hvc f]
        simp only [e, decide_false, Bool.false_or]
        by_cases hff : isField t f = true
        · simp [hff]
        · have hff' : isField t f = false := by simpa using hff
          simp [hff', hD.get?_none hff']
  | addRel r =>
    unfold Soft.apply Spec.SoftSt.step
    simp only []
    rw [Soft.addRel_eq ht]
    by_cases hf : isField t r.fromName = true
    · rw [if_pos hf, if_pos hf]
      exact SoftAbs.mkSame ht hid hD hvc
    · have hf' : isField t r.fromName = false := by simpa using hf
      rw [if_neg hf, if_neg hf]
      have hid' : isField { t with rels := t.rels.set r.fromName r } idName = false := by
        rw [isField_addRel, hid]
        have : ¬ idName = r.fromName := fun e => hop e.symm
        simp [this]
      refine SoftAbs.mk' (ht.setRel hf') hid' hD (fun f => ?_)
      rw [isField_addRel]
      by_cases e : f = r.fromName
      · subst e
        rw [get?_set_self]
        simp only [decide_true, Bool.true_or, if_true, hf', Bool.false_eq_true, if_false]
        rw [fieldZero_setRel r hf']
      · rw [get?_set_ne _ _ _ _ e, hvc f]
        simp only [e, decide_false, Bool.false_or]
        by_cases hff : isField t f = true
        · simp [hff]
        · have hff' : isField t f = false := by simpa using hff
          simp [hff', hD.get?_none hff']
  | removeField f0 =>
    unfold Soft.apply Spec.SoftSt.step
    simp only []
    rw [Soft.removeField_eq]
    have hid' : isField (t.without f0) idName = false := by
      rw [isField_without, hid]; simp
    refine SoftAbs.mk' (ht.without f0) hid' hD (fun f => ?_)
    rw [get?_del, isField_without]
    by_cases e : f = f0
    · simp [e]
    · simp only [e, if_false, ne_eq, not_false_eq_true, decide_true, Bool.true_and]
      rw [hvc f]
      by_cases hff : isField t f = true
      · simp [hff]
      · have hff' : isField t f = false := by simpa using hff
        simp [hff', hD.get?_none hff']
  | setType t1 =>
    unfold Soft.apply Spec.SoftSt.step
    simp only []
    rw [Soft.setType_eq]
    obtain ⟨hk1, hid1, -⟩ := hop
    refine SoftAbs.mk' hk1 hid1 hD (fun f => ?_)
    rw [get?_map_mk]
    by_cases hf1 : isField t1 f = true
    · rw [if_pos (List.mem_append.2 ((isField_iff _ _).1 hf1)), if_pos hf1, hvc f]
      by_cases hff : isField t f = true
      · obtain ⟨x, hx⟩ := hD.get?_some hff
        simp [hff, hx]
      · have hff' : isField t f = false := by simpa using hff
        simp [hff', hD.get?_none hff']
    · rw [if_neg (fun hm => hf1 ((isField_iff _ _).2 (List.mem_append.1 hm))), if_neg hf1]

theorem SoftAbs.run {ops : List SoftOp} : ∀ {s : Soft} {σ : Spec.SoftSt}, SoftAbs s σ →
    SoftHistOk σ ops → SoftAbs (s.run ops) (σ.run ops) := by
  induction ops with
  | nil => intro s σ h _; exact h
  | cons op ops ih =>
    intro s σ h hok
    exact ih (h.step hok.1) hok.2

/-! ### Values stay well-typed (this is where `Compat` is used) -/

theorem Spec.stored_ok {t : Typ} {k : GoString} {v : GoVal} (h : accepts t k v = true) :
    accepts t k (stored t k v) = true ∨ stored t k v = fieldZero t k := by
  unfold stored fieldZero
  cases ha : t.attrs.get? k with
  | none => exact .inl h
  | some a =>
    simp only []
    split
    · exact .inr rfl
    · exact .inl h

theorem Compat.defs {t t' : Typ} (h : Compat t t') {f : GoString} (hf : isField t f = true)
    (hf' : isField t' f = true) : t'.attrs.get? f = t.attrs.get? f ∧ t'.rels.get? f = t.rels.get? f :=
  h f (List.mem_append.2 ((isField_iff t f).1 hf)) hf'

theorem SoftAbs.vals_field {s : Soft} {σ : Spec.SoftSt} (h : SoftAbs s σ) {f : GoString} {v : GoVal}
    (hv : σ.vals.get? f = some v) : isField σ.typ f = true := by
  rw [h.vals f] at hv
  by_cases hf : isField σ.typ f = true
  · exact hf
  · rw [if_neg hf] at hv; cases hv

theorem SoftTyped.step {s : Soft} {σ : Spec.SoftSt} (h : SoftAbs s σ) (hty : SoftTyped σ)
    {op : SoftOp} (hop : op.ok σ.typ) : SoftTyped (σ.step op) := by
  have hfield := fun f v => h.vals_field (f := f) (v := v)
  obtain ⟨t, id, vals⟩ := σ
  simp only [] at hop hfield
  unfold SoftTyped at hty ⊢
  simp only [] at hty
  cases op with
  | set k v =>
    unfold Spec.SoftSt.step
    simp only []
    by_cases hk : k = idName
    · rw [if_pos hk]; exact hty
    · rw [if_neg hk]
      by_cases hacc : accepts t k v = true
      · rw [if_pos hacc]
        intro f w hw
        simp only [] at hw ⊢
        by_cases e : f = k
        · subst e
          rw [get?_set_self] at hw
          cases hw
          exact stored_ok hacc
        · rw [get?_set_ne _ _ _ _ e] at hw
          exact hty f w hw
      · rw [if_neg hacc]; exact hty
  | addAttr a =>
    unfold Spec.SoftSt.step
    simp only []
    by_cases hf : isField t a.name = true
    · rw [if_pos hf]; exact hty
    · rw [if_neg hf]
      intro f w hw
      simp only [] at hw ⊢
      by_cases e : f = a.name
      · subst e
        rw [get?_set_self] at hw
        cases hw
        exact .inr (fieldZero_setAttr a).symm
      · rw [get?_set_ne _ _ _ _ e] at hw
        rw [accepts_addAttr_ne t a f w e, fieldZero_addAttr_ne t a f e]
        exact hty f w hw
  | addRel r =>
    unfold Spec.SoftSt.step
    simp only []
    by_cases hf : isField t r.fromName = true
    · rw [if_pos hf]; exact hty
    · have hf' : isField t r.fromName = false := by simpa using hf
      rw [if_neg hf]
      intro f w hw
      simp only [] at hw ⊢
      by_cases e : f = r.fromName
      · subst e
        rw [get?_set_self] at hw
        cases hw
        exact .inr (fieldZero_setRel r hf').symm
      · rw [get?_set_ne _ _ _ _ e] at hw
        rw [accepts_addRel_ne t r f w e, fieldZero_addRel_ne t r f e]
        exact hty f w hw
  | removeField f0 =>
    unfold Spec.SoftSt.step
    intro f w hw
    simp only [] at hw ⊢
    rw [get?_del] at hw
    by_cases e : f = f0
    · rw [if_pos e] at hw; cases hw
    · rw [if_neg e] at hw
      have := hty f w hw
      rw [← accepts_without t f0 f w e, ← fieldZero_without t f0 f e] at this
      exact this
  | setType t1 =>
    unfold Spec.SoftSt.step
    obtain ⟨-, -, hc⟩ := hop
    intro f w hw
    simp only [] at hw ⊢
    rw [get?_map_mk] at hw
    by_cases hm : f ∈ t1.attrs.keys ++ t1.rels.keys
    · rw [if_pos hm] at hw
      have hf1 : isField t1 f = true := (isField_iff _ _).2 (List.mem_append.1 hm)
      cases hg : vals.get? f with
      | none =>
        rw [hg] at hw
        simp only [Option.getD_none, Option.some.injEq] at hw
        exact .inr hw.symm
      | some x =>
        rw [hg] at hw
        simp only [Option.getD_some, Option.some.injEq] at hw
        subst hw
        obtain ⟨e1, e2⟩ := hc.defs (hfield f x hg) hf1
        have ea : accepts t1 f x = accepts t f x := by unfold accepts; rw [e1, e2]
        have ez : fieldZero t1 f = fieldZero t f := by unfold fieldZero; rw [e1, e2]
        rw [ea, ez]
        exact hty f x hg
    · rw [if_neg hm] at hw; cases hw

theorem SoftTyped.run {ops : List SoftOp} : ∀ {s : Soft} {σ : Spec.SoftSt}, SoftAbs s σ →
    SoftTyped σ → SoftHistOk σ ops → SoftTyped (σ.run ops) := by
  induction ops with
  | nil => intro s σ _ h _; exact h
  | cons op ops ih =>
    intro s σ h hty hok
    exact ih (h.step hok.1) (hty.step h hok.1) hok.2

/-- A resource that stores nothing: every field reads its zero value. -/
theorem SoftTyped.ofSoft_empty (t : Typ) (id : GoString) :
    SoftTyped (Spec.SoftSt.ofSoft { typ := t, id := id, data := [] }) := by
  intro f v hv
  simp only [Spec.SoftSt.ofSoft] at hv ⊢
  rw [get?_map_mk] at hv
  split at hv
  · simp only [get?, Option.getD_none, Option.some.injEq] at hv
    exact .inr hv.symm
  · cases hv

end Jsonapi
