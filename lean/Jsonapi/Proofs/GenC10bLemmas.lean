/-
Lemmas for Props/GenC10b.lean and Props/GenC09.lean: the loops of checkBytes and checkSlice as the
translator prints them (stated for any step function with the printed behaviour, so that they
do not depend on the auxiliary matchers of the generated definitions), the model's `checkVal`
against a value of another Go type, and `Gen.checkVal = checkVal` kind by kind.
-/
import Jsonapi.Generated.Funcs
import Jsonapi.Proofs.FilterLemmas
import Jsonapi.Proofs.DetLemmas
import Jsonapi.Props.GenC10
namespace Jsonapi
set_option linter.unusedSimpArgs false
set_option linter.unusedVariables false

theorem foldl_some_fix {α β : Type} (f : Option α → β → Option α) (h : ∀ v b, f (some v) b = some v) (v : α) (l : List β) :
    l.foldl f (some v) = some v := by
  induction l with
  | nil => rfl
  | cons b t ih => simp [List.foldl_cons, h, ih]

/-- the byte loop of `checkBytes`: the first position where the two slices differ -/
theorem bytes_mismatch_fold {c : Bool} (a b : List UInt8) (f : Option Bool → Nat → Option Bool)
    (h0 : ∀ i, f none i = if (decide ((a.getD i (0 : UInt8)) ≠ (b.getD i (0 : UInt8)))) then some c else none)
    (h1 : ∀ v i, f (some v) i = some v) :
    (List.range (min a.length b.length)).foldl f none
    = if a.take (min a.length b.length) = b.take (min a.length b.length) then none else some c := by
  induction a generalizing b f with
  | nil => simp
  | cons x a ih =>
    cases b with
    | nil => simp
    | cons y b =>
      simp only [List.length_cons, Nat.succ_min_succ, List.range_succ_eq_map, List.foldl_cons, List.foldl_map,
        List.take_succ_cons]
      rw [h0 0]
      simp only [List.getD_cons_zero]
      by_cases hxy : x = y
      · subst hxy
        simp only [ne_eq, not_true_eq_false, decide_false, Bool.false_eq_true, if_false]
        rw [ih b (fun r i => f r (i + 1)) (fun i => by rw [h0 (i + 1)]; simp only [List.getD_cons_succ]) (fun v i => h1 v (i + 1))]
        simp
      · simp only [ne_eq, hxy, not_false_eq_true, decide_true, if_true]
        rw [foldl_some_fix]
        · simp [hxy]
        · intro v b; exact h1 v _

theorem take_min_eq_iff (a b : List UInt8) :
    (a.take (min a.length b.length) = b.take (min a.length b.length) ∧ a.length = b.length) ↔ a = b := by
  constructor
  · rintro ⟨h, hl⟩
    rw [← hl, Nat.min_self, List.take_length] at h
    rw [h, hl, List.take_length]
  · rintro rfl; simp



theorem opCases (op : GoString) :
    op = [61] ∨ op = [33, 61] ∨ op = [60] ∨ op = [60, 61] ∨ op = [62] ∨ op = [62, 61] ∨
    (op ≠ [61] ∧ op ≠ [33, 61] ∧ op ≠ [60] ∧ op ≠ [60, 61] ∧ op ≠ [62] ∧ op ≠ [62, 61]) := by
  by_cases h1 : op = [61]; · exact .inl h1
  by_cases h2 : op = [33, 61]; · exact .inr (.inl h2)
  by_cases h3 : op = [60]; · exact .inr (.inr (.inl h3))
  by_cases h4 : op = [60, 61]; · exact .inr (.inr (.inr (.inl h4)))
  by_cases h5 : op = [62]; · exact .inr (.inr (.inr (.inr (.inl h5))))
  by_cases h6 : op = [62, 61]; · exact .inr (.inr (.inr (.inr (.inr (.inl h6)))))
  exact .inr (.inr (.inr (.inr (.inr (.inr ⟨h1, h2, h3, h4, h5, h6⟩)))))

theorem Gen_checkBytes_eq' (op : GoString) (a b : List UInt8) :
    Gen.checkBytes op a b = cmpOps op (a = b) (a < b) (b < a) := by
  unfold Gen.checkBytes
  rw [bytes_mismatch_fold a b _ (fun i => rfl) (fun v i => rfl)]
  rw [bytes_mismatch_fold a b _ (fun i => rfl) (fun v i => rfl)]
  simp only [cmpOps, Op.eq, Op.ne, Op.lt, Op.le, Op.gt, Op.ge]
  have hlen : (((a.length : Int) = (b.length : Int)) ↔ a.length = b.length) := by omega
  have heq : a = b ↔ (a.take (min a.length b.length) = b.take (min a.length b.length) ∧ a.length = b.length) :=
    (take_min_eq_iff a b).symm
  rcases Std.lt_trichotomy a b with h | h | h
  · have h1 : ¬ b < a := fun h' => List.lt_asymm h h'
    have h2 : a ≠ b := fun e => by rw [e] at h; exact List.lt_irrefl _ h
    have h3 : ¬ (a.take (min a.length b.length) = b.take (min a.length b.length) ∧ a.length = b.length) := fun e => h2 (heq.2 e)
    rcases opCases op with rfl | rfl | rfl | rfl | rfl | rfl | ⟨n1, n2, n3, n4, n5, n6⟩ <;> simp [*] <;>
      (split <;> simp_all)
  · subst h
    have h1 : ¬ a < a := List.lt_irrefl _
    rcases opCases op with rfl | rfl | rfl | rfl | rfl | rfl | ⟨n1, n2, n3, n4, n5, n6⟩ <;> simp [*]
  · have h1 : ¬ a < b := fun h' => List.lt_asymm h h'
    have h2 : a ≠ b := fun e => by rw [e] at h; exact List.lt_irrefl _ h
    have h3 : ¬ (a.take (min a.length b.length) = b.take (min a.length b.length) ∧ a.length = b.length) := fun e => h2 (heq.2 e)
    rcases opCases op with rfl | rfl | rfl | rfl | rfl | rfl | ⟨n1, n2, n3, n4, n5, n6⟩ <;> simp [*] <;>
      (split <;> simp_all)



/-- filter.go `checkBytes` (a nil and an empty slice compare alike: the loops and bytes.Compare see
the length and the elements only) -/
theorem Gen_checkBytes_eq (op : GoString) (a b : Option (List UInt8)) :
    cmpPay op (.bs a) (.bs b) = some (Gen.checkBytes op (a.getD []) (b.getD [])) := by
  have ha : Pay.bytesOf a = a.getD [] := by cases a <;> rfl
  have hb : Pay.bytesOf b = b.getD [] := by cases b <;> rfl
  simp only [cmpPay, ha, hb, Gen_checkBytes_eq']

abbrev SliceSt := Bool × Bool × Option (Res Bool)

theorem foldl_fix {σ β : Type} (f : σ → β → σ) (s : σ) (h : ∀ b, f s b = s) (l : List β) :
    l.foldl f s = s := by
  induction l with
  | nil => rfl
  | cons b t ih => simp [List.foldl_cons, h, ih]

/-- the element loop of `checkSlice` on two slices of one length: no read is out of range, the
loop stops at the first difference -/
theorem slice_fold (ra cb : List GoString) (f : SliceSt → Nat → SliceSt)
    (hs : ∀ e i y, cb[i]? = some y → f (e, false, none) i =
      if (decide ((ra.getD i ([] : GoString)) ≠ y)) then (false, true, none) else (e, false, none))
    (hb : ∀ e i, f (e, true, none) i = (e, true, none))
    (hl : ra.length = cb.length) :
    (List.range ra.length).foldl f (true, false, none)
      = if ra = cb then (true, false, none) else (false, true, none) := by
  induction ra generalizing cb f with
  | nil =>
    cases cb with
    | nil => simp
    | cons y cb => simp at hl
  | cons x ra ih =>
    cases cb with
    | nil => simp at hl
    | cons y cb =>
      simp only [List.length_cons, List.range_succ_eq_map, List.foldl_cons, List.foldl_map]
      rw [hs true 0 y (by simp)]
      simp only [List.getD_cons_zero]
      by_cases hxy : x = y
      · subst hxy
        simp only [ne_eq, not_true_eq_false, decide_false, Bool.false_eq_true, if_false]
        rw [ih cb (fun r i => f r (i + 1))
          (fun e i y h => by rw [hs e (i + 1) y (by simpa using h)]; simp only [List.getD_cons_succ])
          (fun e i => hb e (i + 1)) (by simpa using hl)]
        simp
      · simp only [ne_eq, hxy, not_false_eq_true, decide_true, if_true]
        rw [foldl_fix]
        · simp [hxy]
        · intro b; exact hb _ _

theorem sortStrings_length (l : List GoString) : (Typ.sortStrings l).length = l.length :=
  (DetL.sortStrings_perm l).length_eq

/-- filter.go `checkSlice`: the translated function never panics (the read `cval[i]`, whose
range the translator cannot establish, is in range because the lengths are equal) and is the
model's -/
theorem Gen_checkSlice_eq (op : GoString) (a b : List GoString) :
    Gen.checkSlice op a b = .ok (checkSlice op a b) := by
  unfold Gen.checkSlice checkSlice
  simp only [Op.eq, Op.ne]
  by_cases hl : a.length = b.length
  · have hl' : ((a.length : Int) = (b.length : Int)) := by omega
    simp only [decide_true, if_true, hl, true_and]
    rw [slice_fold (Typ.sortStrings a) (Typ.sortStrings b) _
      (fun e i y h => by simp only [h, Bool.false_eq_true, if_false])
      (fun e i => rfl)
      (by rw [sortStrings_length, sortStrings_length, hl])]
    by_cases he : Typ.sortStrings a = Typ.sortStrings b
    · simp only [he, if_true]
      rcases opCases op with rfl | rfl | rfl | rfl | rfl | rfl | ⟨n1, n2, n3, n4, n5, n6⟩ <;> simp [*]
    · simp only [he, if_false]
      rcases opCases op with rfl | rfl | rfl | rfl | rfl | rfl | ⟨n1, n2, n3, n4, n5, n6⟩ <;> simp [*]
  · have hl' : ¬ ((a.length : Int) = (b.length : Int)) := by omega
    simp only [hl', decide_false, Bool.false_eq_true, if_false, hl, false_and]
    rcases opCases op with rfl | rfl | rfl | rfl | rfl | rfl | ⟨n1, n2, n3, n4, n5, n6⟩ <;> simp [*]



/-- The GoVal is the image of a Go value: the payload has the shape and the range of its kind. -/
def GoVal.WF : GoVal → Prop
  | .val k p => k.payOk p = true
  | .ptr k (some p) => k.payOk p = true
  | _ => True

theorem checkVal_val_gen (op : GoString) (k : Kind) (p : Pay) (c : GoVal) :
    checkVal op (.val k p) c =
      (match c with
        | .val k' p' => if k = k' then (match cmpPay op p p' with | some b => .ok b | none => .panic) else .panic
        | _ => .panic) := by
  unfold checkVal
  dsimp only
  rw [if_neg (fun h => h (kind_val_case k))]
  cases c <;> rfl

theorem checkVal_ptr_gen (op : GoString) (k : Kind) (p : Option Pay) (c : GoVal) :
    checkVal op (.ptr k p) c =
      (match c with
        | .ptr k' p' => if k ≠ k' then .panic else
          (match p, p' with
          | none, none => .ok (if op = Op.eq then true else false)
          | none, some _ => .ok (if op = Op.ne then true else false)
          | some _, none => .ok (if op = Op.ne then true else false)
          | some a, some b => (match cmpPay op a b with | some r => .ok r | none => .panic))
        | _ => .panic) := by
  unfold checkVal
  dsimp only
  rw [if_neg (fun h => h (kind_ptr_case k))]
  cases c <;> rfl

theorem checkVal_strs_gen (op : GoString) (a : List GoString) (c : GoVal) :
    checkVal op (.strs a) c = (match c with | .strs b => .ok (checkSlice op a b) | _ => .panic) := by
  unfold checkVal
  dsimp only
  rw [if_neg (fun h => h strs_case)]
  cases c <;> rfl

theorem checkVal_nil (op : GoString) (c : GoVal) : checkVal op .nil c = .ok false := by
  unfold checkVal
  dsimp only [GoVal.goType]
  simp only [ite_self]

theorem checkVal_other (op : GoString) (t : Nat) (c : GoVal) : checkVal op (.other t) c = .ok false := by
  have h : ¬ (if "other" = "[]uint8" then "[]byte" else if "other" = "*[]uint8" then "*[]byte" else "other") ∈ Facts.checkValCases := by
    decide
  unfold checkVal
  dsimp only [GoVal.goType]
  simp only [ite_self]

/-- The hypothesis of `Gen_checkVal_eq`. When the resource's value is a nil pointer `(*T)(nil)` the
code asserts the type of the filter's value only for `=` and `!=`; for any other operator it returns
false without looking at it, where the model panics on a filter value of another type. -/
def CheckValDomain (op : GoString) (rval cval : GoVal) : Prop :=
  ∀ k, rval = .ptr k none → (∃ p, cval = .ptr k p) ∨ op = Op.eq ∨ op = Op.ne


theorem Gen_checkVal_val_string (same' : Nat → List Nat → Bool) (op : GoString) (a : GoString) (cval : GoVal) (hc : cval.WF) :
    Gen.checkVal op (.val .string (.s a)) cval same' = checkVal op (.val .string (.s a)) cval := by
  simp only [Gen.checkVal, Option.isNone_none, Option.isNone_some, if_true, Bool.false_eq_true, if_false]
  rw [checkVal_val_gen]
  split
  · simp only [if_true, Int.ofNat_eq_natCast, Gen_checkStr_eq]
  · rename_i h
    cases cval with
    | val k' p' =>
      by_cases hk : Kind.string = k'
      · subst hk
        cases p' <;> simp [GoVal.WF, Kind.payOk, Kind.range?] at hc
        exact absurd rfl (h _)
      · simp [hk]
    | _ => rfl

theorem Gen_checkVal_ptr_string_none (same' : Nat → List Nat → Bool) (op : GoString) (cval : GoVal) (hc : cval.WF)
    (hd : CheckValDomain op (.ptr .string none) cval) :
    Gen.checkVal op (.ptr .string none) cval same' = checkVal op (.ptr .string none) cval := by
  simp only [Gen.checkVal, Option.isNone_none, Option.isNone_some, if_true, Bool.false_eq_true, if_false]
  rw [checkVal_ptr_gen]
  have hd' := hd _ rfl
  cases cval with
  | ptr k' p' =>
    by_cases hk : Kind.string = k'
    · subst hk
      cases p' with
      | none => rcases opCases op with rfl | rfl | rfl | rfl | rfl | rfl | ⟨n1, n2, n3, n4, n5, n6⟩ <;> simp [Op.eq, Op.ne, *]
      | some q =>
        cases q <;> simp [GoVal.WF, Kind.payOk, Kind.range?] at hc
        rcases opCases op with rfl | rfl | rfl | rfl | rfl | rfl | ⟨n1, n2, n3, n4, n5, n6⟩ <;> simp [Op.eq, Op.ne, *]
    · have hk' : ¬ k' = Kind.string := fun e => hk e.symm
      rcases hd' with ⟨p, hp⟩ | rfl | rfl
      · injection hp with e1 e2; exact absurd e1.symm hk
      · simp [Op.eq, hk, hk']
      · simp [Op.ne, hk, hk']
  | _ =>
    rcases hd' with ⟨p, hp⟩ | rfl | rfl
    · cases hp
    · simp [Op.eq]
    · simp [Op.ne]

theorem Gen_checkVal_ptr_string_some (same' : Nat → List Nat → Bool) (op : GoString) (a : GoString) (cval : GoVal) (hc : cval.WF) :
    Gen.checkVal op (.ptr .string (some (.s a))) cval same' = checkVal op (.ptr .string (some (.s a))) cval := by
  simp only [Gen.checkVal, Option.isNone_none, Option.isNone_some, if_true, Bool.false_eq_true, if_false]
  rw [checkVal_ptr_gen]
  cases cval with
  | ptr k' p' =>
    by_cases hk : Kind.string = k'
    · subst hk
      cases p' with
      | none => rcases opCases op with rfl | rfl | rfl | rfl | rfl | rfl | ⟨n1, n2, n3, n4, n5, n6⟩ <;> simp [Op.eq, Op.ne, *]
      | some q =>
        cases q <;> simp [GoVal.WF, Kind.payOk, Kind.range?] at hc
        simp [Int.ofNat_eq_natCast, Gen_checkStr_eq]
    · have hk' : ¬ k' = Kind.string := fun e => hk e.symm
      simp [hk, hk']
  | _ => simp

theorem Gen_checkVal_val_int (same' : Nat → List Nat → Bool) (op : GoString) (a : Int) (cval : GoVal) (hc : cval.WF) :
    Gen.checkVal op (.val .int (.i a)) cval same' = checkVal op (.val .int (.i a)) cval := by
  simp only [Gen.checkVal, Option.isNone_none, Option.isNone_some, if_true, Bool.false_eq_true, if_false]
  rw [checkVal_val_gen]
  split
  · simp only [if_true, Int.ofNat_eq_natCast, Gen_checkInt_eq]
  · rename_i h
    cases cval with
    | val k' p' =>
      by_cases hk : Kind.int = k'
      · subst hk
        cases p' <;> simp [GoVal.WF, Kind.payOk, Kind.range?] at hc
        exact absurd rfl (h _)
      · simp [hk]
    | _ => rfl

theorem Gen_checkVal_ptr_int_none (same' : Nat → List Nat → Bool) (op : GoString) (cval : GoVal) (hc : cval.WF)
    (hd : CheckValDomain op (.ptr .int none) cval) :
    Gen.checkVal op (.ptr .int none) cval same' = checkVal op (.ptr .int none) cval := by
  simp only [Gen.checkVal, Option.isNone_none, Option.isNone_some, if_true, Bool.false_eq_true, if_false]
  rw [checkVal_ptr_gen]
  have hd' := hd _ rfl
  cases cval with
  | ptr k' p' =>
    by_cases hk : Kind.int = k'
    · subst hk
      cases p' with
      | none => rcases opCases op with rfl | rfl | rfl | rfl | rfl | rfl | ⟨n1, n2, n3, n4, n5, n6⟩ <;> simp [Op.eq, Op.ne, *]
      | some q =>
        cases q <;> simp [GoVal.WF, Kind.payOk, Kind.range?] at hc
        rcases opCases op with rfl | rfl | rfl | rfl | rfl | rfl | ⟨n1, n2, n3, n4, n5, n6⟩ <;> simp [Op.eq, Op.ne, *]
    · have hk' : ¬ k' = Kind.int := fun e => hk e.symm
      rcases hd' with ⟨p, hp⟩ | rfl | rfl
      · injection hp with e1 e2; exact absurd e1.symm hk
      · simp [Op.eq, hk, hk']
      · simp [Op.ne, hk, hk']
  | _ =>
    rcases hd' with ⟨p, hp⟩ | rfl | rfl
    · cases hp
    · simp [Op.eq]
    · simp [Op.ne]

theorem Gen_checkVal_ptr_int_some (same' : Nat → List Nat → Bool) (op : GoString) (a : Int) (cval : GoVal) (hc : cval.WF) :
    Gen.checkVal op (.ptr .int (some (.i a))) cval same' = checkVal op (.ptr .int (some (.i a))) cval := by
  simp only [Gen.checkVal, Option.isNone_none, Option.isNone_some, if_true, Bool.false_eq_true, if_false]
  rw [checkVal_ptr_gen]
  cases cval with
  | ptr k' p' =>
    by_cases hk : Kind.int = k'
    · subst hk
      cases p' with
      | none => rcases opCases op with rfl | rfl | rfl | rfl | rfl | rfl | ⟨n1, n2, n3, n4, n5, n6⟩ <;> simp [Op.eq, Op.ne, *]
      | some q =>
        cases q <;> simp [GoVal.WF, Kind.payOk, Kind.range?] at hc
        simp [Int.ofNat_eq_natCast, Gen_checkInt_eq]
    · have hk' : ¬ k' = Kind.int := fun e => hk e.symm
      simp [hk, hk']
  | _ => simp

theorem Gen_checkVal_val_int8 (same' : Nat → List Nat → Bool) (op : GoString) (a : Int) (cval : GoVal) (hc : cval.WF) :
    Gen.checkVal op (.val .int8 (.i a)) cval same' = checkVal op (.val .int8 (.i a)) cval := by
  simp only [Gen.checkVal, Option.isNone_none, Option.isNone_some, if_true, Bool.false_eq_true, if_false]
  rw [checkVal_val_gen]
  split
  · simp only [if_true, Int.ofNat_eq_natCast, Gen_checkInt_eq]
  · rename_i h
    cases cval with
    | val k' p' =>
      by_cases hk : Kind.int8 = k'
      · subst hk
        cases p' <;> simp [GoVal.WF, Kind.payOk, Kind.range?] at hc
        exact absurd rfl (h _)
      · simp [hk]
    | _ => rfl

theorem Gen_checkVal_ptr_int8_none (same' : Nat → List Nat → Bool) (op : GoString) (cval : GoVal) (hc : cval.WF)
    (hd : CheckValDomain op (.ptr .int8 none) cval) :
    Gen.checkVal op (.ptr .int8 none) cval same' = checkVal op (.ptr .int8 none) cval := by
  simp only [Gen.checkVal, Option.isNone_none, Option.isNone_some, if_true, Bool.false_eq_true, if_false]
  rw [checkVal_ptr_gen]
  have hd' := hd _ rfl
  cases cval with
  | ptr k' p' =>
    by_cases hk : Kind.int8 = k'
    · subst hk
      cases p' with
      | none => rcases opCases op with rfl | rfl | rfl | rfl | rfl | rfl | ⟨n1, n2, n3, n4, n5, n6⟩ <;> simp [Op.eq, Op.ne, *]
      | some q =>
        cases q <;> simp [GoVal.WF, Kind.payOk, Kind.range?] at hc
        rcases opCases op with rfl | rfl | rfl | rfl | rfl | rfl | ⟨n1, n2, n3, n4, n5, n6⟩ <;> simp [Op.eq, Op.ne, *]
    · have hk' : ¬ k' = Kind.int8 := fun e => hk e.symm
      rcases hd' with ⟨p, hp⟩ | rfl | rfl
      · injection hp with e1 e2; exact absurd e1.symm hk
      · simp [Op.eq, hk, hk']
      · simp [Op.ne, hk, hk']
  | _ =>
    rcases hd' with ⟨p, hp⟩ | rfl | rfl
    · cases hp
    · simp [Op.eq]
    · simp [Op.ne]

theorem Gen_checkVal_ptr_int8_some (same' : Nat → List Nat → Bool) (op : GoString) (a : Int) (cval : GoVal) (hc : cval.WF) :
    Gen.checkVal op (.ptr .int8 (some (.i a))) cval same' = checkVal op (.ptr .int8 (some (.i a))) cval := by
  simp only [Gen.checkVal, Option.isNone_none, Option.isNone_some, if_true, Bool.false_eq_true, if_false]
  rw [checkVal_ptr_gen]
  cases cval with
  | ptr k' p' =>
    by_cases hk : Kind.int8 = k'
    · subst hk
      cases p' with
      | none => rcases opCases op with rfl | rfl | rfl | rfl | rfl | rfl | ⟨n1, n2, n3, n4, n5, n6⟩ <;> simp [Op.eq, Op.ne, *]
      | some q =>
        cases q <;> simp [GoVal.WF, Kind.payOk, Kind.range?] at hc
        simp [Int.ofNat_eq_natCast, Gen_checkInt_eq]
    · have hk' : ¬ k' = Kind.int8 := fun e => hk e.symm
      simp [hk, hk']
  | _ => simp

theorem Gen_checkVal_val_int16 (same' : Nat → List Nat → Bool) (op : GoString) (a : Int) (cval : GoVal) (hc : cval.WF) :
    Gen.checkVal op (.val .int16 (.i a)) cval same' = checkVal op (.val .int16 (.i a)) cval := by
  simp only [Gen.checkVal, Option.isNone_none, Option.isNone_some, if_true, Bool.false_eq_true, if_false]
  rw [checkVal_val_gen]
  split
  · simp only [if_true, Int.ofNat_eq_natCast, Gen_checkInt_eq]
  · rename_i h
    cases cval with
    | val k' p' =>
      by_cases hk : Kind.int16 = k'
      · subst hk
        cases p' <;> simp [GoVal.WF, Kind.payOk, Kind.range?] at hc
        exact absurd rfl (h _)
      · simp [hk]
    | _ => rfl

theorem Gen_checkVal_ptr_int16_none (same' : Nat → List Nat → Bool) (op : GoString) (cval : GoVal) (hc : cval.WF)
    (hd : CheckValDomain op (.ptr .int16 none) cval) :
    Gen.checkVal op (.ptr .int16 none) cval same' = checkVal op (.ptr .int16 none) cval := by
  simp only [Gen.checkVal, Option.isNone_none, Option.isNone_some, if_true, Bool.false_eq_true, if_false]
  rw [checkVal_ptr_gen]
  have hd' := hd _ rfl
  cases cval with
  | ptr k' p' =>
    by_cases hk : Kind.int16 = k'
    · subst hk
      cases p' with
      | none => rcases opCases op with rfl | rfl | rfl | rfl | rfl | rfl | ⟨n1, n2, n3, n4, n5, n6⟩ <;> simp [Op.eq, Op.ne, *]
      | some q =>
        cases q <;> simp [GoVal.WF, Kind.payOk, Kind.range?] at hc
        rcases opCases op with rfl | rfl | rfl | rfl | rfl | rfl | ⟨n1, n2, n3, n4, n5, n6⟩ <;> simp [Op.eq, Op.ne, *]
    · have hk' : ¬ k' = Kind.int16 := fun e => hk e.symm
      rcases hd' with ⟨p, hp⟩ | rfl | rfl
      · injection hp with e1 e2; exact absurd e1.symm hk
      · simp [Op.eq, hk, hk']
      · simp [Op.ne, hk, hk']
  | _ =>
    rcases hd' with ⟨p, hp⟩ | rfl | rfl
    · cases hp
    · simp [Op.eq]
    · simp [Op.ne]

theorem Gen_checkVal_ptr_int16_some (same' : Nat → List Nat → Bool) (op : GoString) (a : Int) (cval : GoVal) (hc : cval.WF) :
    Gen.checkVal op (.ptr .int16 (some (.i a))) cval same' = checkVal op (.ptr .int16 (some (.i a))) cval := by
  simp only [Gen.checkVal, Option.isNone_none, Option.isNone_some, if_true, Bool.false_eq_true, if_false]
  rw [checkVal_ptr_gen]
  cases cval with
  | ptr k' p' =>
    by_cases hk : Kind.int16 = k'
    · subst hk
      cases p' with
      | none => rcases opCases op with rfl | rfl | rfl | rfl | rfl | rfl | ⟨n1, n2, n3, n4, n5, n6⟩ <;> simp [Op.eq, Op.ne, *]
      | some q =>
        cases q <;> simp [GoVal.WF, Kind.payOk, Kind.range?] at hc
        simp [Int.ofNat_eq_natCast, Gen_checkInt_eq]
    · have hk' : ¬ k' = Kind.int16 := fun e => hk e.symm
      simp [hk, hk']
  | _ => simp

theorem Gen_checkVal_val_int32 (same' : Nat → List Nat → Bool) (op : GoString) (a : Int) (cval : GoVal) (hc : cval.WF) :
    Gen.checkVal op (.val .int32 (.i a)) cval same' = checkVal op (.val .int32 (.i a)) cval := by
  simp only [Gen.checkVal, Option.isNone_none, Option.isNone_some, if_true, Bool.false_eq_true, if_false]
  rw [checkVal_val_gen]
  split
  · simp only [if_true, Int.ofNat_eq_natCast, Gen_checkInt_eq]
  · rename_i h
    cases cval with
    | val k' p' =>
      by_cases hk : Kind.int32 = k'
      · subst hk
        cases p' <;> simp [GoVal.WF, Kind.payOk, Kind.range?] at hc
        exact absurd rfl (h _)
      · simp [hk]
    | _ => rfl

theorem Gen_checkVal_ptr_int32_none (same' : Nat → List Nat → Bool) (op : GoString) (cval : GoVal) (hc : cval.WF)
    (hd : CheckValDomain op (.ptr .int32 none) cval) :
    Gen.checkVal op (.ptr .int32 none) cval same' = checkVal op (.ptr .int32 none) cval := by
  simp only [Gen.checkVal, Option.isNone_none, Option.isNone_some, if_true, Bool.false_eq_true, if_false]
  rw [checkVal_ptr_gen]
  have hd' := hd _ rfl
  cases cval with
  | ptr k' p' =>
    by_cases hk : Kind.int32 = k'
    · subst hk
      cases p' with
      | none => rcases opCases op with rfl | rfl | rfl | rfl | rfl | rfl | ⟨n1, n2, n3, n4, n5, n6⟩ <;> simp [Op.eq, Op.ne, *]
      | some q =>
        cases q <;> simp [GoVal.WF, Kind.payOk, Kind.range?] at hc
        rcases opCases op with rfl | rfl | rfl | rfl | rfl | rfl | ⟨n1, n2, n3, n4, n5, n6⟩ <;> simp [Op.eq, Op.ne, *]
    · have hk' : ¬ k' = Kind.int32 := fun e => hk e.symm
      rcases hd' with ⟨p, hp⟩ | rfl | rfl
      · injection hp with e1 e2; exact absurd e1.symm hk
      · simp [Op.eq, hk, hk']
      · simp [Op.ne, hk, hk']
  | _ =>
    rcases hd' with ⟨p, hp⟩ | rfl | rfl
    · cases hp
    · simp [Op.eq]
    · simp [Op.ne]

theorem Gen_checkVal_ptr_int32_some (same' : Nat → List Nat → Bool) (op : GoString) (a : Int) (cval : GoVal) (hc : cval.WF) :
    Gen.checkVal op (.ptr .int32 (some (.i a))) cval same' = checkVal op (.ptr .int32 (some (.i a))) cval := by
  simp only [Gen.checkVal, Option.isNone_none, Option.isNone_some, if_true, Bool.false_eq_true, if_false]
  rw [checkVal_ptr_gen]
  cases cval with
  | ptr k' p' =>
    by_cases hk : Kind.int32 = k'
    · subst hk
      cases p' with
      | none => rcases opCases op with rfl | rfl | rfl | rfl | rfl | rfl | ⟨n1, n2, n3, n4, n5, n6⟩ <;> simp [Op.eq, Op.ne, *]
      | some q =>
        cases q <;> simp [GoVal.WF, Kind.payOk, Kind.range?] at hc
        simp [Int.ofNat_eq_natCast, Gen_checkInt_eq]
    · have hk' : ¬ k' = Kind.int32 := fun e => hk e.symm
      simp [hk, hk']
  | _ => simp

theorem Gen_checkVal_val_int64 (same' : Nat → List Nat → Bool) (op : GoString) (a : Int) (cval : GoVal) (hc : cval.WF) :
    Gen.checkVal op (.val .int64 (.i a)) cval same' = checkVal op (.val .int64 (.i a)) cval := by
  simp only [Gen.checkVal, Option.isNone_none, Option.isNone_some, if_true, Bool.false_eq_true, if_false]
  rw [checkVal_val_gen]
  split
  · simp only [if_true, Int.ofNat_eq_natCast, Gen_checkInt_eq]
  · rename_i h
    cases cval with
    | val k' p' =>
      by_cases hk : Kind.int64 = k'
      · subst hk
        cases p' <;> simp [GoVal.WF, Kind.payOk, Kind.range?] at hc
        exact absurd rfl (h _)
      · simp [hk]
    | _ => rfl

theorem Gen_checkVal_ptr_int64_none (same' : Nat → List Nat → Bool) (op : GoString) (cval : GoVal) (hc : cval.WF)
    (hd : CheckValDomain op (.ptr .int64 none) cval) :
    Gen.checkVal op (.ptr .int64 none) cval same' = checkVal op (.ptr .int64 none) cval := by
  simp only [Gen.checkVal, Option.isNone_none, Option.isNone_some, if_true, Bool.false_eq_true, if_false]
  rw [checkVal_ptr_gen]
  have hd' := hd _ rfl
  cases cval with
  | ptr k' p' =>
    by_cases hk : Kind.int64 = k'
    · subst hk
      cases p' with
      | none => rcases opCases op with rfl | rfl | rfl | rfl | rfl | rfl | ⟨n1, n2, n3, n4, n5, n6⟩ <;> simp [Op.eq, Op.ne, *]
      | some q =>
        cases q <;> simp [GoVal.WF, Kind.payOk, Kind.range?] at hc
        rcases opCases op with rfl | rfl | rfl | rfl | rfl | rfl | ⟨n1, n2, n3, n4, n5, n6⟩ <;> simp [Op.eq, Op.ne, *]
    · have hk' : ¬ k' = Kind.int64 := fun e => hk e.symm
      rcases hd' with ⟨p, hp⟩ | rfl | rfl
      · injection hp with e1 e2; exact absurd e1.symm hk
      · simp [Op.eq, hk, hk']
      · simp [Op.ne, hk, hk']
  | _ =>
    rcases hd' with ⟨p, hp⟩ | rfl | rfl
    · cases hp
    · simp [Op.eq]
    · simp [Op.ne]

theorem Gen_checkVal_ptr_int64_some (same' : Nat → List Nat → Bool) (op : GoString) (a : Int) (cval : GoVal) (hc : cval.WF) :
    Gen.checkVal op (.ptr .int64 (some (.i a))) cval same' = checkVal op (.ptr .int64 (some (.i a))) cval := by
  simp only [Gen.checkVal, Option.isNone_none, Option.isNone_some, if_true, Bool.false_eq_true, if_false]
  rw [checkVal_ptr_gen]
  cases cval with
  | ptr k' p' =>
    by_cases hk : Kind.int64 = k'
    · subst hk
      cases p' with
      | none => rcases opCases op with rfl | rfl | rfl | rfl | rfl | rfl | ⟨n1, n2, n3, n4, n5, n6⟩ <;> simp [Op.eq, Op.ne, *]
      | some q =>
        cases q <;> simp [GoVal.WF, Kind.payOk, Kind.range?] at hc
        simp [Int.ofNat_eq_natCast, Gen_checkInt_eq]
    · have hk' : ¬ k' = Kind.int64 := fun e => hk e.symm
      simp [hk, hk']
  | _ => simp

theorem Gen_checkVal_val_uint (same' : Nat → List Nat → Bool) (op : GoString) (a : Nat) (cval : GoVal) (hc : cval.WF) :
    Gen.checkVal op (.val .uint (.i (Int.ofNat a))) cval same' = checkVal op (.val .uint (.i (Int.ofNat a))) cval := by
  simp only [Gen.checkVal, Option.isNone_none, Option.isNone_some, if_true, Bool.false_eq_true, if_false]
  rw [checkVal_val_gen]
  split
  · simp only [if_true, Int.ofNat_eq_natCast, Gen_checkUint_eq]
  · rename_i h
    cases cval with
    | val k' p' =>
      by_cases hk : Kind.uint = k'
      · subst hk
        cases p' <;> simp [GoVal.WF, Kind.payOk, Kind.range?] at hc
        rename_i w
        obtain ⟨n, rfl⟩ := Int.eq_ofNat_of_zero_le hc.1
        exact absurd rfl (h n)
      · simp [hk]
    | _ => rfl

theorem Gen_checkVal_ptr_uint_none (same' : Nat → List Nat → Bool) (op : GoString) (cval : GoVal) (hc : cval.WF)
    (hd : CheckValDomain op (.ptr .uint none) cval) :
    Gen.checkVal op (.ptr .uint none) cval same' = checkVal op (.ptr .uint none) cval := by
  simp only [Gen.checkVal, Option.isNone_none, Option.isNone_some, if_true, Bool.false_eq_true, if_false]
  rw [checkVal_ptr_gen]
  have hd' := hd _ rfl
  cases cval with
  | ptr k' p' =>
    by_cases hk : Kind.uint = k'
    · subst hk
      cases p' with
      | none => rcases opCases op with rfl | rfl | rfl | rfl | rfl | rfl | ⟨n1, n2, n3, n4, n5, n6⟩ <;> simp [Op.eq, Op.ne, *]
      | some q =>
        cases q <;> simp [GoVal.WF, Kind.payOk, Kind.range?] at hc
        rename_i w
        obtain ⟨n, rfl⟩ := Int.eq_ofNat_of_zero_le hc.1
        rcases opCases op with rfl | rfl | rfl | rfl | rfl | rfl | ⟨n1, n2, n3, n4, n5, n6⟩ <;> simp [Op.eq, Op.ne, *]
    · have hk' : ¬ k' = Kind.uint := fun e => hk e.symm
      rcases hd' with ⟨p, hp⟩ | rfl | rfl
      · injection hp with e1 e2; exact absurd e1.symm hk
      · simp [Op.eq, hk, hk']
      · simp [Op.ne, hk, hk']
  | _ =>
    rcases hd' with ⟨p, hp⟩ | rfl | rfl
    · cases hp
    · simp [Op.eq]
    · simp [Op.ne]

theorem Gen_checkVal_ptr_uint_some (same' : Nat → List Nat → Bool) (op : GoString) (a : Nat) (cval : GoVal) (hc : cval.WF) :
    Gen.checkVal op (.ptr .uint (some (.i (Int.ofNat a)))) cval same' = checkVal op (.ptr .uint (some (.i (Int.ofNat a)))) cval := by
  simp only [Gen.checkVal, Option.isNone_none, Option.isNone_some, if_true, Bool.false_eq_true, if_false]
  rw [checkVal_ptr_gen]
  cases cval with
  | ptr k' p' =>
    by_cases hk : Kind.uint = k'
    · subst hk
      cases p' with
      | none => rcases opCases op with rfl | rfl | rfl | rfl | rfl | rfl | ⟨n1, n2, n3, n4, n5, n6⟩ <;> simp [Op.eq, Op.ne, *]
      | some q =>
        cases q <;> simp [GoVal.WF, Kind.payOk, Kind.range?] at hc
        rename_i w
        obtain ⟨n, rfl⟩ := Int.eq_ofNat_of_zero_le hc.1
        simp [Int.ofNat_eq_natCast, Gen_checkUint_eq]
    · have hk' : ¬ k' = Kind.uint := fun e => hk e.symm
      simp [hk, hk']
  | _ => simp

theorem Gen_checkVal_val_uint8 (same' : Nat → List Nat → Bool) (op : GoString) (a : Nat) (cval : GoVal) (hc : cval.WF) :
    Gen.checkVal op (.val .uint8 (.i (Int.ofNat a))) cval same' = checkVal op (.val .uint8 (.i (Int.ofNat a))) cval := by
  simp only [Gen.checkVal, Option.isNone_none, Option.isNone_some, if_true, Bool.false_eq_true, if_false]
  rw [checkVal_val_gen]
  split
  · simp only [if_true, Int.ofNat_eq_natCast, Gen_checkUint_eq]
  · rename_i h
    cases cval with
    | val k' p' =>
      by_cases hk : Kind.uint8 = k'
      · subst hk
        cases p' <;> simp [GoVal.WF, Kind.payOk, Kind.range?] at hc
        rename_i w
        obtain ⟨n, rfl⟩ := Int.eq_ofNat_of_zero_le hc.1
        exact absurd rfl (h n)
      · simp [hk]
    | _ => rfl

theorem Gen_checkVal_ptr_uint8_none (same' : Nat → List Nat → Bool) (op : GoString) (cval : GoVal) (hc : cval.WF)
    (hd : CheckValDomain op (.ptr .uint8 none) cval) :
    Gen.checkVal op (.ptr .uint8 none) cval same' = checkVal op (.ptr .uint8 none) cval := by
  simp only [Gen.checkVal, Option.isNone_none, Option.isNone_some, if_true, Bool.false_eq_true, if_false]
  rw [checkVal_ptr_gen]
  have hd' := hd _ rfl
  cases cval with
  | ptr k' p' =>
    by_cases hk : Kind.uint8 = k'
    · subst hk
      cases p' with
      | none => rcases opCases op with rfl | rfl | rfl | rfl | rfl | rfl | ⟨n1, n2, n3, n4, n5, n6⟩ <;> simp [Op.eq, Op.ne, *]
      | some q =>
        cases q <;> simp [GoVal.WF, Kind.payOk, Kind.range?] at hc
        rename_i w
        obtain ⟨n, rfl⟩ := Int.eq_ofNat_of_zero_le hc.1
        rcases opCases op with rfl | rfl | rfl | rfl | rfl | rfl | ⟨n1, n2, n3, n4, n5, n6⟩ <;> simp [Op.eq, Op.ne, *]
    · have hk' : ¬ k' = Kind.uint8 := fun e => hk e.symm
      rcases hd' with ⟨p, hp⟩ | rfl | rfl
      · injection hp with e1 e2; exact absurd e1.symm hk
      · simp [Op.eq, hk, hk']
      · simp [Op.ne, hk, hk']
  | _ =>
    rcases hd' with ⟨p, hp⟩ | rfl | rfl
    · cases hp
    · simp [Op.eq]
    · simp [Op.ne]

theorem Gen_checkVal_ptr_uint8_some (same' : Nat → List Nat → Bool) (op : GoString) (a : Nat) (cval : GoVal) (hc : cval.WF) :
    Gen.checkVal op (.ptr .uint8 (some (.i (Int.ofNat a)))) cval same' = checkVal op (.ptr .uint8 (some (.i (Int.ofNat a)))) cval := by
  simp only [Gen.checkVal, Option.isNone_none, Option.isNone_some, if_true, Bool.false_eq_true, if_false]
  rw [checkVal_ptr_gen]
  cases cval with
  | ptr k' p' =>
    by_cases hk : Kind.uint8 = k'
    · subst hk
      cases p' with
      | none => rcases opCases op with rfl | rfl | rfl | rfl | rfl | rfl | ⟨n1, n2, n3, n4, n5, n6⟩ <;> simp [Op.eq, Op.ne, *]
      | some q =>
        cases q <;> simp [GoVal.WF, Kind.payOk, Kind.range?] at hc
        rename_i w
        obtain ⟨n, rfl⟩ := Int.eq_ofNat_of_zero_le hc.1
        simp [Int.ofNat_eq_natCast, Gen_checkUint_eq]
    · have hk' : ¬ k' = Kind.uint8 := fun e => hk e.symm
      simp [hk, hk']
  | _ => simp

theorem Gen_checkVal_val_uint16 (same' : Nat → List Nat → Bool) (op : GoString) (a : Nat) (cval : GoVal) (hc : cval.WF) :
    Gen.checkVal op (.val .uint16 (.i (Int.ofNat a))) cval same' = checkVal op (.val .uint16 (.i (Int.ofNat a))) cval := by
  simp only [Gen.checkVal, Option.isNone_none, Option.isNone_some, if_true, Bool.false_eq_true, if_false]
  rw [checkVal_val_gen]
  split
  · simp only [if_true, Int.ofNat_eq_natCast, Gen_checkUint_eq]
  · rename_i h
    cases cval with
    | val k' p' =>
      by_cases hk : Kind.uint16 = k'
      · subst hk
        cases p' <;> simp [GoVal.WF, Kind.payOk, Kind.range?] at hc
        rename_i w
        obtain ⟨n, rfl⟩ := Int.eq_ofNat_of_zero_le hc.1
        exact absurd rfl (h n)
      · simp [hk]
    | _ => rfl

theorem Gen_checkVal_ptr_uint16_none (same' : Nat → List Nat → Bool) (op : GoString) (cval : GoVal) (hc : cval.WF)
    (hd : CheckValDomain op (.ptr .uint16 none) cval) :
    Gen.checkVal op (.ptr .uint16 none) cval same' = checkVal op (.ptr .uint16 none) cval := by
  simp only [Gen.checkVal, Option.isNone_none, Option.isNone_some, if_true, Bool.false_eq_true, if_false]
  rw [checkVal_ptr_gen]
  have hd' := hd _ rfl
  cases cval with
  | ptr k' p' =>
    by_cases hk : Kind.uint16 = k'
    · subst hk
      cases p' with
      | none => rcases opCases op with rfl | rfl | rfl | rfl | rfl | rfl | ⟨n1, n2, n3, n4, n5, n6⟩ <;> simp [Op.eq, Op.ne, *]
      | some q =>
        cases q <;> simp [GoVal.WF, Kind.payOk, Kind.range?] at hc
        rename_i w
        obtain ⟨n, rfl⟩ := Int.eq_ofNat_of_zero_le hc.1
        rcases opCases op with rfl | rfl | rfl | rfl | rfl | rfl | ⟨n1, n2, n3, n4, n5, n6⟩ <;> simp [Op.eq, Op.ne, *]
    · have hk' : ¬ k' = Kind.uint16 := fun e => hk e.symm
      rcases hd' with ⟨p, hp⟩ | rfl | rfl
      · injection hp with e1 e2; exact absurd e1.symm hk
      · simp [Op.eq, hk, hk']
      · simp [Op.ne, hk, hk']
  | _ =>
    rcases hd' with ⟨p, hp⟩ | rfl | rfl
    · cases hp
    · simp [Op.eq]
    · simp [Op.ne]

theorem Gen_checkVal_ptr_uint16_some (same' : Nat → List Nat → Bool) (op : GoString) (a : Nat) (cval : GoVal) (hc : cval.WF) :
    Gen.checkVal op (.ptr .uint16 (some (.i (Int.ofNat a)))) cval same' = checkVal op (.ptr .uint16 (some (.i (Int.ofNat a)))) cval := by
  simp only [Gen.checkVal, Option.isNone_none, Option.isNone_some, if_true, Bool.false_eq_true, if_false]
  rw [checkVal_ptr_gen]
  cases cval with
  | ptr k' p' =>
    by_cases hk : Kind.uint16 = k'
    · subst hk
      cases p' with
      | none => rcases opCases op with rfl | rfl | rfl | rfl | rfl | rfl | ⟨n1, n2, n3, n4, n5, n6⟩ <;> simp [Op.eq, Op.ne, *]
      | some q =>
        cases q <;> simp [GoVal.WF, Kind.payOk, Kind.range?] at hc
        rename_i w
        obtain ⟨n, rfl⟩ := Int.eq_ofNat_of_zero_le hc.1
        simp [Int.ofNat_eq_natCast, Gen_checkUint_eq]
    · have hk' : ¬ k' = Kind.uint16 := fun e => hk e.symm
      simp [hk, hk']
  | _ => simp

theorem Gen_checkVal_val_uint32 (same' : Nat → List Nat → Bool) (op : GoString) (a : Nat) (cval : GoVal) (hc : cval.WF) :
    Gen.checkVal op (.val .uint32 (.i (Int.ofNat a))) cval same' = checkVal op (.val .uint32 (.i (Int.ofNat a))) cval := by
  simp only [Gen.checkVal, Option.isNone_none, Option.isNone_some, if_true, Bool.false_eq_true, if_false]
  rw [checkVal_val_gen]
  split
  · simp only [if_true, Int.ofNat_eq_natCast, Gen_checkUint_eq]
  · rename_i h
    cases cval with
    | val k' p' =>
      by_cases hk : Kind.uint32 = k'
      · subst hk
        cases p' <;> simp [GoVal.WF, Kind.payOk, Kind.range?] at hc
        rename_i w
        obtain ⟨n, rfl⟩ := Int.eq_ofNat_of_zero_le hc.1
        exact absurd rfl (h n)
      · simp [hk]
    | _ => rfl

theorem Gen_checkVal_ptr_uint32_none (same' : Nat → List Nat → Bool) (op : GoString) (cval : GoVal) (hc : cval.WF)
    (hd : CheckValDomain op (.ptr .uint32 none) cval) :
    Gen.checkVal op (.ptr .uint32 none) cval same' = checkVal op (.ptr .uint32 none) cval := by
  simp only [Gen.checkVal, Option.isNone_none, Option.isNone_some, if_true, Bool.false_eq_true, if_false]
  rw [checkVal_ptr_gen]
  have hd' := hd _ rfl
  cases cval with
  | ptr k' p' =>
    by_cases hk : Kind.uint32 = k'
    · subst hk
      cases p' with
      | none => rcases opCases op with rfl | rfl | rfl | rfl | rfl | rfl | ⟨n1, n2, n3, n4, n5, n6⟩ <;> simp [Op.eq, Op.ne, *]
      | some q =>
        cases q <;> simp [GoVal.WF, Kind.payOk, Kind.range?] at hc
        rename_i w
        obtain ⟨n, rfl⟩ := Int.eq_ofNat_of_zero_le hc.1
        rcases opCases op with rfl | rfl | rfl | rfl | rfl | rfl | ⟨n1, n2, n3, n4, n5, n6⟩ <;> simp [Op.eq, Op.ne, *]
    · have hk' : ¬ k' = Kind.uint32 := fun e => hk e.symm
      rcases hd' with ⟨p, hp⟩ | rfl | rfl
      · injection hp with e1 e2; exact absurd e1.symm hk
      · simp [Op.eq, hk, hk']
      · simp [Op.ne, hk, hk']
  | _ =>
    rcases hd' with ⟨p, hp⟩ | rfl | rfl
    · cases hp
    · simp [Op.eq]
    · simp [Op.ne]

theorem Gen_checkVal_ptr_uint32_some (same' : Nat → List Nat → Bool) (op : GoString) (a : Nat) (cval : GoVal) (hc : cval.WF) :
    Gen.checkVal op (.ptr .uint32 (some (.i (Int.ofNat a)))) cval same' = checkVal op (.ptr .uint32 (some (.i (Int.ofNat a)))) cval := by
  simp only [Gen.checkVal, Option.isNone_none, Option.isNone_some, if_true, Bool.false_eq_true, if_false]
  rw [checkVal_ptr_gen]
  cases cval with
  | ptr k' p' =>
    by_cases hk : Kind.uint32 = k'
    · subst hk
      cases p' with
      | none => rcases opCases op with rfl | rfl | rfl | rfl | rfl | rfl | ⟨n1, n2, n3, n4, n5, n6⟩ <;> simp [Op.eq, Op.ne, *]
      | some q =>
        cases q <;> simp [GoVal.WF, Kind.payOk, Kind.range?] at hc
        rename_i w
        obtain ⟨n, rfl⟩ := Int.eq_ofNat_of_zero_le hc.1
        simp [Int.ofNat_eq_natCast, Gen_checkUint_eq]
    · have hk' : ¬ k' = Kind.uint32 := fun e => hk e.symm
      simp [hk, hk']
  | _ => simp

theorem Gen_checkVal_val_uint64 (same' : Nat → List Nat → Bool) (op : GoString) (a : Nat) (cval : GoVal) (hc : cval.WF) :
    Gen.checkVal op (.val .uint64 (.i (Int.ofNat a))) cval same' = checkVal op (.val .uint64 (.i (Int.ofNat a))) cval := by
  simp only [Gen.checkVal, Option.isNone_none, Option.isNone_some, if_true, Bool.false_eq_true, if_false]
  rw [checkVal_val_gen]
  split
  · simp only [if_true, Int.ofNat_eq_natCast, Gen_checkUint_eq]
  · rename_i h
    cases cval with
    | val k' p' =>
      by_cases hk : Kind.uint64 = k'
      · subst hk
        cases p' <;> simp [GoVal.WF, Kind.payOk, Kind.range?] at hc
        rename_i w
        obtain ⟨n, rfl⟩ := Int.eq_ofNat_of_zero_le hc.1
        exact absurd rfl (h n)
      · simp [hk]
    | _ => rfl

theorem Gen_checkVal_ptr_uint64_none (same' : Nat → List Nat → Bool) (op : GoString) (cval : GoVal) (hc : cval.WF)
    (hd : CheckValDomain op (.ptr .uint64 none) cval) :
    Gen.checkVal op (.ptr .uint64 none) cval same' = checkVal op (.ptr .uint64 none) cval := by
  simp only [Gen.checkVal, Option.isNone_none, Option.isNone_some, if_true, Bool.false_eq_true, if_false]
  rw [checkVal_ptr_gen]
  have hd' := hd _ rfl
  cases cval with
  | ptr k' p' =>
    by_cases hk : Kind.uint64 = k'
    · subst hk
      cases p' with
      | none => rcases opCases op with rfl | rfl | rfl | rfl | rfl | rfl | ⟨n1, n2, n3, n4, n5, n6⟩ <;> simp [Op.eq, Op.ne, *]
      | some q =>
        cases q <;> simp [GoVal.WF, Kind.payOk, Kind.range?] at hc
        rename_i w
        obtain ⟨n, rfl⟩ := Int.eq_ofNat_of_zero_le hc.1
        rcases opCases op with rfl | rfl | rfl | rfl | rfl | rfl | ⟨n1, n2, n3, n4, n5, n6⟩ <;> simp [Op.eq, Op.ne, *]
    · have hk' : ¬ k' = Kind.uint64 := fun e => hk e.symm
      rcases hd' with ⟨p, hp⟩ | rfl | rfl
      · injection hp with e1 e2; exact absurd e1.symm hk
      · simp [Op.eq, hk, hk']
      · simp [Op.ne, hk, hk']
  | _ =>
    rcases hd' with ⟨p, hp⟩ | rfl | rfl
    · cases hp
    · simp [Op.eq]
    · simp [Op.ne]

theorem Gen_checkVal_ptr_uint64_some (same' : Nat → List Nat → Bool) (op : GoString) (a : Nat) (cval : GoVal) (hc : cval.WF) :
    Gen.checkVal op (.ptr .uint64 (some (.i (Int.ofNat a)))) cval same' = checkVal op (.ptr .uint64 (some (.i (Int.ofNat a)))) cval := by
  simp only [Gen.checkVal, Option.isNone_none, Option.isNone_some, if_true, Bool.false_eq_true, if_false]
  rw [checkVal_ptr_gen]
  cases cval with
  | ptr k' p' =>
    by_cases hk : Kind.uint64 = k'
    · subst hk
      cases p' with
      | none => rcases opCases op with rfl | rfl | rfl | rfl | rfl | rfl | ⟨n1, n2, n3, n4, n5, n6⟩ <;> simp [Op.eq, Op.ne, *]
      | some q =>
        cases q <;> simp [GoVal.WF, Kind.payOk, Kind.range?] at hc
        rename_i w
        obtain ⟨n, rfl⟩ := Int.eq_ofNat_of_zero_le hc.1
        simp [Int.ofNat_eq_natCast, Gen_checkUint_eq]
    · have hk' : ¬ k' = Kind.uint64 := fun e => hk e.symm
      simp [hk, hk']
  | _ => simp

theorem Gen_checkVal_val_bool (same' : Nat → List Nat → Bool) (op : GoString) (a : Bool) (cval : GoVal) (hc : cval.WF) :
    Gen.checkVal op (.val .bool (.b a)) cval same' = checkVal op (.val .bool (.b a)) cval := by
  simp only [Gen.checkVal, Option.isNone_none, Option.isNone_some, if_true, Bool.false_eq_true, if_false]
  rw [checkVal_val_gen]
  split
  · simp only [if_true, Int.ofNat_eq_natCast, Gen_checkBool_eq]
  · rename_i h
    cases cval with
    | val k' p' =>
      by_cases hk : Kind.bool = k'
      · subst hk
        cases p' <;> simp [GoVal.WF, Kind.payOk, Kind.range?] at hc
        exact absurd rfl (h _)
      · simp [hk]
    | _ => rfl

theorem Gen_checkVal_ptr_bool_none (same' : Nat → List Nat → Bool) (op : GoString) (cval : GoVal) (hc : cval.WF)
    (hd : CheckValDomain op (.ptr .bool none) cval) :
    Gen.checkVal op (.ptr .bool none) cval same' = checkVal op (.ptr .bool none) cval := by
  simp only [Gen.checkVal, Option.isNone_none, Option.isNone_some, if_true, Bool.false_eq_true, if_false]
  rw [checkVal_ptr_gen]
  have hd' := hd _ rfl
  cases cval with
  | ptr k' p' =>
    by_cases hk : Kind.bool = k'
    · subst hk
      cases p' with
      | none => rcases opCases op with rfl | rfl | rfl | rfl | rfl | rfl | ⟨n1, n2, n3, n4, n5, n6⟩ <;> simp [Op.eq, Op.ne, *]
      | some q =>
        cases q <;> simp [GoVal.WF, Kind.payOk, Kind.range?] at hc
        rcases opCases op with rfl | rfl | rfl | rfl | rfl | rfl | ⟨n1, n2, n3, n4, n5, n6⟩ <;> simp [Op.eq, Op.ne, *]
    · have hk' : ¬ k' = Kind.bool := fun e => hk e.symm
      rcases hd' with ⟨p, hp⟩ | rfl | rfl
      · injection hp with e1 e2; exact absurd e1.symm hk
      · simp [Op.eq, hk, hk']
      · simp [Op.ne, hk, hk']
  | _ =>
    rcases hd' with ⟨p, hp⟩ | rfl | rfl
    · cases hp
    · simp [Op.eq]
    · simp [Op.ne]

theorem Gen_checkVal_ptr_bool_some (same' : Nat → List Nat → Bool) (op : GoString) (a : Bool) (cval : GoVal) (hc : cval.WF) :
    Gen.checkVal op (.ptr .bool (some (.b a))) cval same' = checkVal op (.ptr .bool (some (.b a))) cval := by
  simp only [Gen.checkVal, Option.isNone_none, Option.isNone_some, if_true, Bool.false_eq_true, if_false]
  rw [checkVal_ptr_gen]
  cases cval with
  | ptr k' p' =>
    by_cases hk : Kind.bool = k'
    · subst hk
      cases p' with
      | none => rcases opCases op with rfl | rfl | rfl | rfl | rfl | rfl | ⟨n1, n2, n3, n4, n5, n6⟩ <;> simp [Op.eq, Op.ne, *]
      | some q =>
        cases q <;> simp [GoVal.WF, Kind.payOk, Kind.range?] at hc
        simp [Int.ofNat_eq_natCast, Gen_checkBool_eq]
    · have hk' : ¬ k' = Kind.bool := fun e => hk e.symm
      simp [hk, hk']
  | _ => simp

theorem Gen_checkVal_val_time (same' : Nat → List Nat → Bool) (op : GoString) (a : Time) (cval : GoVal) (hc : cval.WF) :
    Gen.checkVal op (.val .time (.t a)) cval same' = checkVal op (.val .time (.t a)) cval := by
  simp only [Gen.checkVal, Option.isNone_none, Option.isNone_some, if_true, Bool.false_eq_true, if_false]
  rw [checkVal_val_gen]
  split
  · simp only [if_true, Int.ofNat_eq_natCast, Gen_checkTime_eq]
  · rename_i h
    cases cval with
    | val k' p' =>
      by_cases hk : Kind.time = k'
      · subst hk
        cases p' <;> simp [GoVal.WF, Kind.payOk, Kind.range?] at hc
        exact absurd rfl (h _)
      · simp [hk]
    | _ => rfl

theorem Gen_checkVal_ptr_time_none (same' : Nat → List Nat → Bool) (op : GoString) (cval : GoVal) (hc : cval.WF)
    (hd : CheckValDomain op (.ptr .time none) cval) :
    Gen.checkVal op (.ptr .time none) cval same' = checkVal op (.ptr .time none) cval := by
  simp only [Gen.checkVal, Option.isNone_none, Option.isNone_some, if_true, Bool.false_eq_true, if_false]
  rw [checkVal_ptr_gen]
  have hd' := hd _ rfl
  cases cval with
  | ptr k' p' =>
    by_cases hk : Kind.time = k'
    · subst hk
      cases p' with
      | none => rcases opCases op with rfl | rfl | rfl | rfl | rfl | rfl | ⟨n1, n2, n3, n4, n5, n6⟩ <;> simp [Op.eq, Op.ne, *]
      | some q =>
        cases q <;> simp [GoVal.WF, Kind.payOk, Kind.range?] at hc
        rcases opCases op with rfl | rfl | rfl | rfl | rfl | rfl | ⟨n1, n2, n3, n4, n5, n6⟩ <;> simp [Op.eq, Op.ne, *]
    · have hk' : ¬ k' = Kind.time := fun e => hk e.symm
      rcases hd' with ⟨p, hp⟩ | rfl | rfl
      · injection hp with e1 e2; exact absurd e1.symm hk
      · simp [Op.eq, hk, hk']
      · simp [Op.ne, hk, hk']
  | _ =>
    rcases hd' with ⟨p, hp⟩ | rfl | rfl
    · cases hp
    · simp [Op.eq]
    · simp [Op.ne]

theorem Gen_checkVal_ptr_time_some (same' : Nat → List Nat → Bool) (op : GoString) (a : Time) (cval : GoVal) (hc : cval.WF) :
    Gen.checkVal op (.ptr .time (some (.t a))) cval same' = checkVal op (.ptr .time (some (.t a))) cval := by
  simp only [Gen.checkVal, Option.isNone_none, Option.isNone_some, if_true, Bool.false_eq_true, if_false]
  rw [checkVal_ptr_gen]
  cases cval with
  | ptr k' p' =>
    by_cases hk : Kind.time = k'
    · subst hk
      cases p' with
      | none => rcases opCases op with rfl | rfl | rfl | rfl | rfl | rfl | ⟨n1, n2, n3, n4, n5, n6⟩ <;> simp [Op.eq, Op.ne, *]
      | some q =>
        cases q <;> simp [GoVal.WF, Kind.payOk, Kind.range?] at hc
        simp [Int.ofNat_eq_natCast, Gen_checkTime_eq]
    · have hk' : ¬ k' = Kind.time := fun e => hk e.symm
      simp [hk, hk']
  | _ => simp

theorem Gen_checkVal_val_bytes (same' : Nat → List Nat → Bool) (op : GoString) (a : Option (List UInt8)) (cval : GoVal) (hc : cval.WF) :
    Gen.checkVal op (.val .bytes (.bs a)) cval same' = checkVal op (.val .bytes (.bs a)) cval := by
  simp only [Gen.checkVal, Option.isNone_none, Option.isNone_some, if_true, Bool.false_eq_true, if_false]
  rw [checkVal_val_gen]
  split
  · simp only [if_true, Int.ofNat_eq_natCast, Gen_checkBytes_eq]
  · rename_i h
    cases cval with
    | val k' p' =>
      by_cases hk : Kind.bytes = k'
      · subst hk
        cases p' <;> simp [GoVal.WF, Kind.payOk, Kind.range?] at hc
        exact absurd rfl (h _)
      · simp [hk]
    | _ => rfl

theorem Gen_checkVal_ptr_bytes_none (same' : Nat → List Nat → Bool) (op : GoString) (cval : GoVal) (hc : cval.WF)
    (hd : CheckValDomain op (.ptr .bytes none) cval) :
    Gen.checkVal op (.ptr .bytes none) cval same' = checkVal op (.ptr .bytes none) cval := by
  simp only [Gen.checkVal, Option.isNone_none, Option.isNone_some, if_true, Bool.false_eq_true, if_false]
  rw [checkVal_ptr_gen]
  have hd' := hd _ rfl
  cases cval with
  | ptr k' p' =>
    by_cases hk : Kind.bytes = k'
    · subst hk
      cases p' with
      | none => rcases opCases op with rfl | rfl | rfl | rfl | rfl | rfl | ⟨n1, n2, n3, n4, n5, n6⟩ <;> simp [Op.eq, Op.ne, *]
      | some q =>
        cases q <;> simp [GoVal.WF, Kind.payOk, Kind.range?] at hc
        rcases opCases op with rfl | rfl | rfl | rfl | rfl | rfl | ⟨n1, n2, n3, n4, n5, n6⟩ <;> simp [Op.eq, Op.ne, *]
    · have hk' : ¬ k' = Kind.bytes := fun e => hk e.symm
      rcases hd' with ⟨p, hp⟩ | rfl | rfl
      · injection hp with e1 e2; exact absurd e1.symm hk
      · simp [Op.eq, hk, hk']
      · simp [Op.ne, hk, hk']
  | _ =>
    rcases hd' with ⟨p, hp⟩ | rfl | rfl
    · cases hp
    · simp [Op.eq]
    · simp [Op.ne]

theorem Gen_checkVal_ptr_bytes_some (same' : Nat → List Nat → Bool) (op : GoString) (a : Option (List UInt8)) (cval : GoVal) (hc : cval.WF) :
    Gen.checkVal op (.ptr .bytes (some (.bs a))) cval same' = checkVal op (.ptr .bytes (some (.bs a))) cval := by
  simp only [Gen.checkVal, Option.isNone_none, Option.isNone_some, if_true, Bool.false_eq_true, if_false]
  rw [checkVal_ptr_gen]
  cases cval with
  | ptr k' p' =>
    by_cases hk : Kind.bytes = k'
    · subst hk
      cases p' with
      | none => rcases opCases op with rfl | rfl | rfl | rfl | rfl | rfl | ⟨n1, n2, n3, n4, n5, n6⟩ <;> simp [Op.eq, Op.ne, *]
      | some q =>
        cases q <;> simp [GoVal.WF, Kind.payOk, Kind.range?] at hc
        simp [Int.ofNat_eq_natCast, Gen_checkBytes_eq]
    · have hk' : ¬ k' = Kind.bytes := fun e => hk e.symm
      simp [hk, hk']
  | _ => simp

end Jsonapi
