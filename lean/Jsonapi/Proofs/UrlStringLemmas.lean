/-
C08: `url.Parse` + `Query()` (spec side: `Spec.parseRaw`) on the text `URL.String` emits
give back the decoded path and one value per emitted name.
-/
import Jsonapi.Proofs.UrlEscLemmas
import Jsonapi.Proofs.MapLemmas
import Jsonapi.Proofs.DetLemmas
namespace Jsonapi.UrlL.Esc
open Jsonapi

/-! ### `Spec.cut` -/

theorem cut_append_sep (sep : UInt8) : ∀ (a b : GoString), sep ∉ a →
    Spec.cut sep (a ++ sep :: b) = (a, some b)
  | [], b, _ => by simp [Spec.cut]
  | c :: a, b, h => by
    have hc : c ≠ sep := fun e => h (by simp [e])
    have ha : sep ∉ a := fun e => h (List.mem_cons_of_mem _ e)
    simp only [List.cons_append, Spec.cut, hc, if_false, cut_append_sep sep a b ha]

theorem cut_of_not_mem (sep : UInt8) : ∀ (a : GoString), sep ∉ a → Spec.cut sep a = (a, none)
  | [], _ => by simp [Spec.cut]
  | c :: a, h => by
    have hc : c ≠ sep := fun e => h (by simp [e])
    have ha : sep ∉ a := fun e => h (List.mem_cons_of_mem _ e)
    simp only [Spec.cut, hc, if_false, cut_of_not_mem sep a ha]

/-! ### `joinWith` -/

theorem joinWith_nil (sep : GoString) : joinWith sep [] = [] := rfl
theorem joinWith_single (sep x : GoString) : joinWith sep [x] = x := rfl
theorem joinWith_cons_cons (sep x y : GoString) (ys : List GoString) :
    joinWith sep (x :: y :: ys) = x ++ sep ++ joinWith sep (y :: ys) := rfl

theorem mem_joinWith {sep : GoString} {c : UInt8} : ∀ {l : List GoString},
    c ∈ joinWith sep l → c ∈ sep ∨ ∃ e ∈ l, c ∈ e
  | [], h => by simp [joinWith_nil] at h
  | [x], h => Or.inr ⟨x, by simp, h⟩
  | x :: y :: ys, h => by
    rw [joinWith_cons_cons, List.mem_append, List.mem_append] at h
    rcases h with (h | h) | h
    · exact Or.inr ⟨x, by simp, h⟩
    · exact Or.inl h
    · rcases mem_joinWith h with h | ⟨e, he, hc⟩
      · exact Or.inl h
      · exact Or.inr ⟨e, List.mem_cons_of_mem _ he, hc⟩

/-- `for … { s += g f + sep }` is `strings.Join` plus a trailing separator -/
theorem flatMap_sep (g : GoString → GoString) (sep : GoString) : ∀ (l : List GoString), l ≠ [] →
    l.flatMap (fun f => g f ++ sep) = joinWith sep (l.map g) ++ sep
  | [], h => absurd rfl h
  | [x], _ => by simp [joinWith_single]
  | x :: y :: ys, _ => by
    have ih := flatMap_sep g sep (y :: ys) (by simp)
    rw [List.flatMap_cons, ih]
    simp only [List.map_cons, joinWith_cons_cons, List.append_assoc]

/-- decoding a joined list of escaped items -/
theorem unescape_joinWith (p : Bool) (esc : GoString → GoString) (sepE sepD : GoString)
    (hesc : ∀ s rest, Spec.unescape p (esc s ++ rest) =
      (Spec.unescape p rest).map (fun r => s ++ r))
    (hsep : ∀ rest, Spec.unescape p (sepE ++ rest) =
      (Spec.unescape p rest).map (fun r => sepD ++ r)) :
    ∀ (l : List GoString) (rest : GoString),
      Spec.unescape p (joinWith sepE (l.map esc) ++ rest) =
        (Spec.unescape p rest).map (fun r => joinWith sepD l ++ r)
  | [], rest => by simp [joinWith_nil]
  | [x], rest => by simp only [List.map_cons, List.map_nil, joinWith_single, hesc]
  | x :: y :: ys, rest => by
    have ih := unescape_joinWith p esc sepE sepD hesc hsep (y :: ys) rest
    rw [List.map_cons, List.map_cons, joinWith_cons_cons, ← List.map_cons, joinWith_cons_cons,
      List.append_assoc, List.append_assoc, hesc, hsep, ih]
    cases Spec.unescape p rest with
    | none => rfl
    | some r => simp only [Option.map_some, List.append_assoc]

/-! ### `splitOn` -/

theorem splitOn_go_nil (sep : UInt8) (cur : GoString) : splitOn.go sep cur [] = [cur.reverse] := by
  simp [splitOn.go]

theorem splitOn_go_sep (sep : UInt8) (cur rest : GoString) :
    splitOn.go sep cur (sep :: rest) = cur.reverse :: splitOn.go sep [] rest := by
  simp [splitOn.go]

theorem splitOn_go_append (sep : UInt8) : ∀ (a cur rest : GoString), sep ∉ a →
    splitOn.go sep cur (a ++ rest) = splitOn.go sep (a.reverse ++ cur) rest
  | [], cur, rest, _ => by simp
  | c :: a, cur, rest, h => by
    have hc : c ≠ sep := fun e => h (by simp [e])
    have ha : sep ∉ a := fun e => h (List.mem_cons_of_mem _ e)
    simp only [List.cons_append, splitOn.go, hc, if_false]
    rw [splitOn_go_append sep a (c :: cur) rest ha]
    simp

theorem splitOn_go_joinWith (sep : UInt8) : ∀ (l : List GoString) (x : GoString),
    (∀ e ∈ x :: l, sep ∉ e) → splitOn.go sep [] (joinWith [sep] (x :: l)) = x :: l
  | [], x, h => by
    have hx := h x (by simp)
    have := splitOn_go_append sep x [] [] hx
    rw [List.append_nil] at this
    rw [joinWith_single, this, splitOn_go_nil]
    simp
  | y :: ys, x, h => by
    have hx := h x (by simp)
    have ih := splitOn_go_joinWith sep ys y (fun e he => h e (List.mem_cons_of_mem _ he))
    rw [joinWith_cons_cons, List.append_assoc, splitOn_go_append sep x [] _ hx]
    simp only [List.cons_append, List.nil_append, List.append_nil]
    rw [splitOn_go_sep, ih]
    simp

theorem splitOn_joinWith (sep : UInt8) (l : List GoString) (hl : l ≠ [])
    (h : ∀ e ∈ l, sep ∉ e) : splitOn sep (joinWith [sep] l) = l := by
  cases l with
  | nil => exact absurd rfl hl
  | cons x l => exact splitOn_go_joinWith sep l x h

theorem splitOn_nil (sep : UInt8) : splitOn sep [] = [[]] := by
  simp [splitOn, splitOn.go]

/-! ### One `name=value` pair and the fold of `Spec.parseQuery` -/

/-- `pair` is the emitted text of a parameter that decodes to `name`, `value` -/
def Enc (pair name value : GoString) : Prop :=
  ∃ en ev, pair = en ++ 61 :: ev ∧ (61 : UInt8) ∉ en ∧ (38 : UInt8) ∉ pair ∧
    Spec.unescape true en = some name ∧ Spec.unescape true ev = some value

/-- the body of the loop of `Spec.parseQuery` -/
def step (m : GoMap (List GoString)) (pair : GoString) : GoMap (List GoString) :=
  if pair = [] then m
  else
    let (k, v) := Spec.cut 61 pair
    match Spec.unescape true k, Spec.unescape true (v.getD []) with
    | some k', some v' => m.set k' ((m.get? k').getD [] ++ [v'])
    | _, _ => m

theorem parseQuery_eq (q : GoString) : Spec.parseQuery q = (splitOn 38 q).foldl step [] := rfl

theorem get?_none_of_not_mem {β : Type} : ∀ (m : GoMap β) (k : GoString), k ∉ m.keys →
    m.get? k = none
  | [], _, _ => rfl
  | (k', v) :: m, k, h => by
    simp only [GoMap.keys, List.map_cons, List.mem_cons, not_or] at h
    have hne : ¬ k' = k := fun e => h.1 e.symm
    simp only [GoMap.get?, hne, if_false]
    exact get?_none_of_not_mem m k h.2

theorem step_enc {m : GoMap (List GoString)} {pair name value : GoString}
    (h : Enc pair name value) (hk : name ∉ m.keys) : step m pair = m ++ [(name, [value])] := by
  obtain ⟨en, ev, rfl, h61, _, hen, hev⟩ := h
  have hne : en ++ 61 :: ev ≠ [] := by simp
  have hcut := cut_append_sep 61 en ev h61
  unfold step
  rw [if_neg hne, hcut]
  simp only [Option.getD_some, hen, hev, get?_none_of_not_mem m name hk, Option.getD_none,
    List.nil_append]
  exact GoMap.set_of_not_mem m name [value] hk

/-- relation between the emitted parameters and the entries of the values map -/
def EncEntry (pair : GoString) (e : GoString × List GoString) : Prop :=
  ∃ v, e.2 = [v] ∧ Enc pair e.1 v

theorem f2_append {α β : Type} {R : α → β → Prop} {l₁ l₁' : List α} {l₂ l₂' : List β}
    (h : Forall2 R l₁ l₂) (h' : Forall2 R l₁' l₂') : Forall2 R (l₁ ++ l₁') (l₂ ++ l₂') := by
  induction h with
  | nil => exact h'
  | cons hr _ ih => exact Forall2.cons hr ih

theorem f2_map {α β γ : Type} {R : α → β → Prop} (f : γ → α) (g : γ → β) :
    ∀ (l : List γ), (∀ x ∈ l, R (f x) (g x)) → Forall2 R (l.map f) (l.map g)
  | [], _ => Forall2.nil
  | x :: l, h => Forall2.cons (h x (by simp))
      (f2_map f g l (fun y hy => h y (List.mem_cons_of_mem _ hy)))

theorem f2_nil_left {α β : Type} {R : α → β → Prop} {l₂ : List β} (h : Forall2 R [] l₂) :
    l₂ = [] := by
  cases h; rfl

theorem f2_mem_left {α β : Type} {R : α → β → Prop} {l₁ : List α} {l₂ : List β}
    (h : Forall2 R l₁ l₂) : ∀ a ∈ l₁, ∃ b ∈ l₂, R a b := by
  induction h with
  | nil => intro a ha; cases ha
  | cons hr _ ih =>
    intro a ha
    rcases List.mem_cons.1 ha with rfl | ha
    · exact ⟨_, by simp, hr⟩
    · obtain ⟨b, hb, hab⟩ := ih a ha
      exact ⟨b, List.mem_cons_of_mem _ hb, hab⟩

theorem foldl_step {ps : List GoString} {vals : GoMap (List GoString)}
    (h : Forall2 EncEntry ps vals) :
    ∀ acc : GoMap (List GoString), (acc.keys ++ vals.keys).Nodup →
      ps.foldl step acc = acc ++ vals := by
  induction h with
  | nil => intro acc _; simp
  | @cons pair e ps vals hr _ ih =>
    intro acc hnd
    obtain ⟨name, vs⟩ := e
    obtain ⟨v, hv, henc⟩ := hr
    simp only at hv henc
    subst hv
    have hk : name ∉ acc.keys := by
      intro hmem
      have := (List.nodup_append.1 hnd).2.2 name hmem name (by simp [GoMap.keys])
      exact this rfl
    rw [List.foldl_cons, step_enc henc hk, ih]
    · simp
    · have : (acc ++ [(name, [v])]).keys ++ GoMap.keys vals
          = acc.keys ++ GoMap.keys ((name, [v]) :: vals) := by
        simp [GoMap.keys]
      rw [this]; exact hnd

/-! ### The whole string -/

theorem parseRaw_core (path dpath : GoString) (all : List GoString)
    (vals : GoMap (List GoString)) (hq : (63 : UInt8) ∉ path)
    (hp : Spec.unescape false path = some dpath) (hF : Forall2 EncEntry all vals)
    (hnd : vals.keys.Nodup) :
    Spec.parseRaw (path ++ (if all.isEmpty then [] else [63] ++ joinWith [38] all)) =
      some (dpath, vals) := by
  by_cases he : all = []
  · subst he
    have hv : vals = [] := f2_nil_left hF
    subst hv
    simp only [List.isEmpty_nil, if_true, List.append_nil]
    unfold Spec.parseRaw
    rw [cut_of_not_mem 63 path hq]
    simp only [hp, Option.getD_none, parseQuery_eq, splitOn_nil]
    rfl
  · have hemp : all.isEmpty = false := by
      cases all with
      | nil => exact absurd rfl he
      | cons _ _ => rfl
    simp only [hemp, Bool.false_eq_true, if_false, List.cons_append, List.nil_append]
    unfold Spec.parseRaw
    rw [cut_append_sep 63 path _ hq]
    have hamp : ∀ e ∈ all, (38 : UInt8) ∉ e := by
      intro e hmem
      obtain ⟨b, _, v, _, en, ev, _, _, h38, _⟩ := f2_mem_left hF e hmem
      exact h38
    simp only [hp, Option.getD_some, parseQuery_eq, splitOn_joinWith 38 all he hamp]
    rw [foldl_step hF [] (by simpa [GoMap.keys] using hnd)]
    simp

/-! ### Literals -/

def litFields : GoString := [102, 105, 101, 108, 100, 115]
def litPage : GoString := [112, 97, 103, 101]

theorem gs_fields : gs "fields%5B" = litFields ++ [37, 53, 66] := by decide
theorem gs_page : gs "page%5B" = litPage ++ [37, 53, 66] := by decide
theorem gs_close : gs "%5D=" = [37, 53, 68, 61] := by decide
theorem gs_filter : gs "filter=" = sFilter ++ [61] := by decide
theorem gs_sort : gs "sort=" = sSort ++ [61] := by decide

theorem fieldsName_eq (t : GoString) : Spec.fieldsName t = litFields ++ 91 :: (t ++ [93]) := by
  simp [Spec.fieldsName, sFieldsOpen, litFields]

theorem pageName_eq (k : GoString) : Spec.pageName k = litPage ++ 91 :: (k ++ [93]) := by
  simp [Spec.pageName, sPageOpen, litPage]

/-- a literal that needs no escaping and contains no separator -/
def PlainLit (l : GoString) : Prop := ∀ c ∈ l, c ≠ 37 ∧ c ≠ 43 ∧ c ≠ 61 ∧ c ≠ 38

theorem plain_fields : PlainLit litFields := by unfold PlainLit litFields; decide
theorem plain_page : PlainLit litPage := by unfold PlainLit litPage; decide
theorem plain_filter : PlainLit sFilter := by unfold PlainLit sFilter; decide
theorem plain_sort : PlainLit sSort := by unfold PlainLit sSort; decide

theorem unescape_lits (p : Bool) : ∀ (l : GoString), (∀ c ∈ l, c ≠ 37 ∧ c ≠ 43) →
    ∀ rest, Spec.unescape p (l ++ rest) = (Spec.unescape p rest).map (fun r => l ++ r)
  | [], _, rest => by simp
  | c :: l, h, rest => by
    have hc := h c (by simp)
    have ih := unescape_lits p l (fun x hx => h x (List.mem_cons_of_mem _ hx)) rest
    rw [List.cons_append, unescape_lit p hc.1 (fun _ => hc.2), ih]
    cases Spec.unescape p rest <;> rfl

/-! ### Building `Enc` -/

theorem enc_plain {lit ev value : GoString} (hl : PlainLit lit) (h38 : (38 : UInt8) ∉ ev)
    (hev : Spec.unescape true ev = some value) : Enc (lit ++ [61] ++ ev) lit value := by
  refine ⟨lit, ev, by simp, fun h => (hl 61 h).2.2.1 rfl, ?_, ?_, hev⟩
  · simp only [List.mem_append, List.mem_cons, List.not_mem_nil, or_false, not_or]
    exact ⟨⟨fun h => (hl 38 h).2.2.2 rfl, by decide⟩, h38⟩
  · have := unescape_lits true lit (fun c hc => ⟨(hl c hc).1, (hl c hc).2.1⟩) []
    simpa [unescape_nil] using this

theorem enc_bracket {lit ev value : GoString} (x : GoString) (hl : PlainLit lit)
    (h38 : (38 : UInt8) ∉ ev) (hev : Spec.unescape true ev = some value) :
    Enc (lit ++ [37, 53, 66] ++ queryEscape x ++ [37, 53, 68, 61] ++ ev)
      (lit ++ 91 :: (x ++ [93])) value := by
  refine ⟨lit ++ 37 :: 53 :: 66 :: (queryEscape x ++ [37, 53, 68]), ev, by simp, ?_, ?_, ?_, hev⟩
  · simp only [List.mem_append, List.mem_cons, List.not_mem_nil, or_false, not_or]
    exact ⟨fun h => (hl 61 h).2.2.1 rfl, by decide, by decide, by decide,
      queryEscape_no_eq x, by decide, by decide, by decide⟩
  · simp only [List.mem_append, List.mem_cons, List.not_mem_nil, or_false, not_or]
    exact ⟨⟨⟨⟨fun h => (hl 38 h).2.2.2 rfl, by decide, by decide, by decide⟩,
      queryEscape_no_amp x⟩, by decide, by decide, by decide, by decide⟩, h38⟩
  · rw [unescape_lits true lit (fun c hc => ⟨(hl c hc).1, (hl c hc).2.1⟩), unescape_5B,
      unescape_queryEscape_append, unescape_5D, unescape_nil]
    simp

/-- the value of a list parameter: items joined by "%2C" -/
theorem unescape_commaList (l : List GoString) :
    Spec.unescape true (joinWith pct2C (l.map queryEscape)) = some (joinWith [44] l) := by
  have := unescape_joinWith true queryEscape pct2C [44] unescape_queryEscape_append
    (fun rest => unescape_pct2C true rest) l []
  simpa [unescape_nil] using this

theorem commaList_no_amp (l : List GoString) :
    (38 : UInt8) ∉ joinWith pct2C (l.map queryEscape) := by
  intro h
  rcases mem_joinWith h with h | ⟨e, he, hc⟩
  · revert h; unfold pct2C; decide
  · obtain ⟨x, _, rfl⟩ := List.mem_map.1 he
    exact queryEscape_no_amp x hc

/-! ### The path -/

def encPath (fs : List GoString) : GoString :=
  match fs with
  | [] => []
  | fs => [47] ++ joinWith [47] (fs.map pathEscape)

def decPath (fs : List GoString) : GoString :=
  match fs with
  | [] => []
  | fs => [47] ++ joinWith [47] fs

theorem emittedPath_eq (u : URL) : Spec.emittedPath u = decPath u.fragments := rfl

theorem unescape_slashList (l : List GoString) :
    Spec.unescape false (joinWith [47] (l.map pathEscape)) = some (joinWith [47] l) := by
  have := unescape_joinWith false pathEscape [47] [47] unescape_pathEscape_append
    (fun rest => unescape_lit false (by decide) (fun e => by cases e) rest) l []
  simpa [unescape_nil] using this

theorem unescape_encPath (fs : List GoString) :
    Spec.unescape false (encPath fs) = some (decPath fs) := by
  cases fs with
  | nil => exact unescape_nil false
  | cons x l =>
    show Spec.unescape false (47 :: joinWith [47] ((x :: l).map pathEscape)) = _
    rw [unescape_lit false (by decide) (fun e => by cases e), unescape_slashList]
    rfl

theorem encPath_no_q (fs : List GoString) : (63 : UInt8) ∉ encPath fs := by
  cases fs with
  | nil => simp [encPath]
  | cons x l =>
    show (63 : UInt8) ∉ 47 :: joinWith [47] ((x :: l).map pathEscape)
    intro h
    rcases List.mem_cons.1 h with h | h
    · revert h; decide
    · rcases mem_joinWith h with h | ⟨e, he, hc⟩
      · revert h; decide
      · obtain ⟨y, _, rfl⟩ := List.mem_map.1 he
        exact pathEscape_no_q y hc

/-! ### The four parameter families -/

/-- which family a decoded name belongs to (by its first and third byte) -/
def fam : GoString → Nat
  | 102 :: _ :: 101 :: _ => 0
  | 102 :: _ :: 108 :: _ => 1
  | 112 :: _ => 2
  | 115 :: _ => 3
  | _ => 4

theorem fam_fields (t : GoString) : fam (Spec.fieldsName t) = 0 := by
  simp [Spec.fieldsName, sFieldsOpen, fam]
theorem fam_filter : fam sFilter = 1 := by simp [sFilter, fam]
theorem fam_page (k : GoString) : fam (Spec.pageName k) = 2 := by
  simp [Spec.pageName, sPageOpen, fam]
theorem fam_sort : fam sSort = 3 := by simp [sSort, fam]

theorem fieldsName_inj {a b : GoString} (h : Spec.fieldsName a = Spec.fieldsName b) : a = b := by
  simpa [Spec.fieldsName] using h

theorem pageName_inj {a b : GoString} (h : Spec.pageName a = Spec.pageName b) : a = b := by
  simpa [Spec.pageName] using h

theorem nodup_map_of_inj {f : GoString → GoString} (hf : ∀ a b, f a = f b → a = b)
    {l : List GoString} (h : l.Nodup) : (l.map f).Nodup :=
  List.Pairwise.map f (fun a b hab e => hab (hf a b e)) h

theorem nodup_fam_append {l₁ l₂ : List GoString} (n : Nat) (h₁ : l₁.Nodup) (h₂ : l₂.Nodup)
    (hf₁ : ∀ a ∈ l₁, fam a < n) (hf₂ : ∀ b ∈ l₂, fam b = n) :
    (l₁ ++ l₂).Nodup ∧ ∀ a ∈ l₁ ++ l₂, fam a < n + 1 := by
  refine ⟨List.nodup_append.2 ⟨h₁, h₂, ?_⟩, ?_⟩
  · intro a ha b hb e
    have := hf₁ a ha
    have := hf₂ b hb
    subst e; omega
  · intro a ha
    rcases List.mem_append.1 ha with ha | ha
    · have := hf₁ a ha; omega
    · have := hf₂ a ha; omega

theorem sortStrings_nodup {l : List GoString} (h : l.Nodup) : (Typ.sortStrings l).Nodup :=
  (List.Perm.nodup_iff (DetL.sortStrings_perm l)).2 h

theorem sortStrings_ne_nil {l : List GoString} (h : l ≠ []) : Typ.sortStrings l ≠ [] := by
  intro e
  have hp := DetL.sortStrings_perm l
  rw [e] at hp
  exact h (List.nil_perm.1 hp)

theorem get?_some_of_mem {β : Type} : ∀ (m : GoMap β) (k : GoString), k ∈ m.keys →
    ∃ v, m.get? k = some v
  | [], _, h => by simp [GoMap.keys] at h
  | (k', v) :: m, k, h => by
    by_cases hk : k' = k
    · exact ⟨v, by simp [GoMap.get?, hk]⟩
    · simp only [GoMap.keys, List.map_cons, List.mem_cons] at h
      rcases h with h | h
      · exact absurd h.symm hk
      · obtain ⟨w, hw⟩ := get?_some_of_mem m k h
        exact ⟨w, by simp [GoMap.get?, hk, hw]⟩

/-! #### fields -/

def fieldPar (u : URL) (t : GoString) : GoString :=
  (gs "fields%5B" ++ queryEscape t ++ gs "%5D=" ++
      ((Typ.sortStrings ((u.params.fields.get? t).getD [])).flatMap
        (fun f => queryEscape f ++ pct2C))).take
    ((gs "fields%5B" ++ queryEscape t ++ gs "%5D=" ++
      ((Typ.sortStrings ((u.params.fields.get? t).getD [])).flatMap
        (fun f => queryEscape f ++ pct2C))).length - 3)

def fieldPars (u : URL) : List GoString :=
  (Typ.sortStrings u.params.fields.keys).map (fieldPar u)

def fieldVals (u : URL) : GoMap (List GoString) :=
  (Typ.sortStrings u.params.fields.keys).map (fun t =>
    (Spec.fieldsName t, [joinWith [44] (Typ.sortStrings ((u.params.fields.get? t).getD []))]))

theorem take_trailing (a : GoString) (fs : List GoString) (hfs : fs ≠ []) :
    (a ++ fs.flatMap (fun f => queryEscape f ++ pct2C)).take
      ((a ++ fs.flatMap (fun f => queryEscape f ++ pct2C)).length - 3) =
    a ++ joinWith pct2C (fs.map queryEscape) := by
  rw [flatMap_sep queryEscape pct2C fs hfs, ← List.append_assoc]
  have : ((a ++ joinWith pct2C (fs.map queryEscape)) ++ pct2C).length - 3 =
      (a ++ joinWith pct2C (fs.map queryEscape)).length := by
    simp only [List.length_append, pct2C, List.length_cons, List.length_nil]
    omega
  rw [this, List.take_left]

theorem fieldPar_enc (u : URL) (hne : NoEmptySelection u) (t : GoString)
    (ht : t ∈ u.params.fields.keys) :
    Enc (fieldPar u t) (Spec.fieldsName t)
      (joinWith [44] (Typ.sortStrings ((u.params.fields.get? t).getD []))) := by
  obtain ⟨fs, hfs⟩ := get?_some_of_mem _ _ ht
  have hfs' : Typ.sortStrings ((u.params.fields.get? t).getD []) ≠ [] := by
    rw [hfs]; exact sortStrings_ne_nil (hne t fs hfs)
  unfold fieldPar
  rw [take_trailing _ _ hfs', gs_fields, gs_close, fieldsName_eq]
  exact enc_bracket t plain_fields (commaList_no_amp _) (unescape_commaList _)

theorem field_seg (u : URL) (hne : NoEmptySelection u) :
    Forall2 EncEntry (fieldPars u) (fieldVals u) := by
  refine f2_map _ _ _ (fun t ht => ?_)
  have ht' : t ∈ u.params.fields.keys := (DetL.sortStrings_perm _).mem_iff.1 ht
  exact ⟨_, rfl, fieldPar_enc u hne t ht'⟩

theorem fieldVals_keys (u : URL) :
    (fieldVals u).keys = (Typ.sortStrings u.params.fields.keys).map Spec.fieldsName := by
  simp [fieldVals, GoMap.keys, List.map_map, Function.comp_def]

/-! #### filter -/

def filterPars (u : URL) (env : StringEnv) : List GoString :=
  match u.params.filter with
  | some f => [gs "filter=" ++ queryEscape f]
  | none => if u.params.filterLabel ≠ [] then [gs "filter=" ++ queryEscape (rewriteBrace env.labelBody)] else []

def filterVals (u : URL) (env : StringEnv) : GoMap (List GoString) :=
  match u.params.filter with
  | some f => [(sFilter, [f])]
  | none => if u.params.filterLabel ≠ [] then [(sFilter, [rewriteBrace env.labelBody])] else []

theorem filter_enc (v : GoString) : Enc (gs "filter=" ++ queryEscape v) sFilter v := by
  rw [gs_filter]
  exact enc_plain plain_filter (queryEscape_no_amp v) (unescape_queryEscape v)

theorem filter_seg (u : URL) (env : StringEnv) :
    Forall2 EncEntry (filterPars u env) (filterVals u env) := by
  unfold filterPars filterVals
  cases u.params.filter with
  | some f => exact Forall2.cons ⟨_, rfl, filter_enc f⟩ Forall2.nil
  | none =>
    by_cases h : u.params.filterLabel ≠ []
    · rw [if_pos h, if_pos h]
      exact Forall2.cons ⟨_, rfl, filter_enc _⟩ Forall2.nil
    · rw [if_neg h, if_neg h]
      exact Forall2.nil

theorem filterVals_keys (u : URL) (env : StringEnv) :
    (filterVals u env).keys = [] ∨ (filterVals u env).keys = [sFilter] := by
  unfold filterVals
  cases u.params.filter with
  | some f => exact Or.inr rfl
  | none =>
    by_cases h : u.params.filterLabel ≠ []
    · rw [if_pos h]; exact Or.inr rfl
    · rw [if_neg h]; exact Or.inl rfl

/-! #### page -/

def pagePar (u : URL) (k : GoString) : GoString :=
  gs "page%5B" ++ queryEscape k ++ gs "%5D=" ++
    queryEscape (((u.params.page.get? k).map PageVal.text).getD [])

def pagePars (u : URL) : List GoString :=
  if u.isCol then (Typ.sortStrings u.params.page.keys).map (pagePar u) else []

def pageVals (u : URL) : GoMap (List GoString) :=
  if u.isCol then (Typ.sortStrings u.params.page.keys).map (fun k =>
    (Spec.pageName k, [((u.params.page.get? k).map PageVal.text).getD []])) else []

theorem pagePar_enc (u : URL) (k : GoString) :
    Enc (pagePar u k) (Spec.pageName k) (((u.params.page.get? k).map PageVal.text).getD []) := by
  unfold pagePar
  rw [gs_page, gs_close, pageName_eq]
  exact enc_bracket k plain_page (queryEscape_no_amp _) (unescape_queryEscape _)

theorem page_seg (u : URL) : Forall2 EncEntry (pagePars u) (pageVals u) := by
  unfold pagePars pageVals
  cases u.isCol with
  | true => exact f2_map _ _ _ (fun k _ => ⟨_, rfl, pagePar_enc u k⟩)
  | false => exact Forall2.nil

theorem pageVals_keys (u : URL) :
    (pageVals u).keys =
      if u.isCol then (Typ.sortStrings u.params.page.keys).map Spec.pageName else [] := by
  unfold pageVals
  cases u.isCol with
  | true => simp [GoMap.keys, List.map_map, Function.comp_def]
  | false => rfl

/-! #### sort -/

def sortPars (u : URL) : List GoString :=
  if u.params.sortingRules.isEmpty then []
  else [gs "sort=" ++ joinWith pct2C (u.params.sortingRules.map queryEscape)]

def sortVals (u : URL) : GoMap (List GoString) :=
  if u.params.sortingRules.isEmpty then [] else [(sSort, [joinWith [44] u.params.sortingRules])]

theorem sort_enc (l : List GoString) :
    Enc (gs "sort=" ++ joinWith pct2C (l.map queryEscape)) sSort (joinWith [44] l) := by
  rw [gs_sort]
  exact enc_plain plain_sort (commaList_no_amp l) (unescape_commaList l)

theorem sort_seg (u : URL) : Forall2 EncEntry (sortPars u) (sortVals u) := by
  unfold sortPars sortVals
  cases u.params.sortingRules.isEmpty with
  | true => exact Forall2.nil
  | false => exact Forall2.cons ⟨_, rfl, sort_enc _⟩ Forall2.nil

theorem sortVals_keys (u : URL) : (sortVals u).keys = [] ∨ (sortVals u).keys = [sSort] := by
  unfold sortVals
  cases u.params.sortingRules.isEmpty with
  | true => exact Or.inl rfl
  | false => exact Or.inr rfl

/-! ### Assembly -/

theorem string_eq (u : URL) (env : StringEnv) :
    u.string env = encPath u.fragments ++
      (if (fieldPars u ++ filterPars u env ++ pagePars u ++ sortPars u).isEmpty then []
       else [63] ++ joinWith [38] (fieldPars u ++ filterPars u env ++ pagePars u ++ sortPars u)) :=
  rfl

theorem emittedValues_eq (u : URL) (env : StringEnv) :
    Spec.emittedValues u env = fieldVals u ++ filterVals u env ++ pageVals u ++ sortVals u := rfl

theorem emitted_seg (u : URL) (env : StringEnv) (hne : NoEmptySelection u) :
    Forall2 EncEntry (fieldPars u ++ filterPars u env ++ pagePars u ++ sortPars u)
      (fieldVals u ++ filterVals u env ++ pageVals u ++ sortVals u) :=
  f2_append (f2_append (f2_append (field_seg u hne) (filter_seg u env)) (page_seg u)) (sort_seg u)

theorem emitted_keys_nodup (u : URL) (env : StringEnv)
    (hfk : u.params.fields.keys.Nodup) (hpk : u.isCol = true → u.params.page.keys.Nodup) :
    (fieldVals u ++ filterVals u env ++ pageVals u ++ sortVals u).keys.Nodup := by
  have hkeys : (fieldVals u ++ filterVals u env ++ pageVals u ++ sortVals u).keys =
      (fieldVals u).keys ++ (filterVals u env).keys ++ (pageVals u).keys ++ (sortVals u).keys := by
    simp [GoMap.keys]
  rw [hkeys]
  -- fields
  have h0 : (fieldVals u).keys.Nodup ∧ ∀ a ∈ (fieldVals u).keys, fam a < 1 := by
    rw [fieldVals_keys]
    refine ⟨nodup_map_of_inj (fun a b => fieldsName_inj) (sortStrings_nodup hfk), ?_⟩
    intro a ha
    obtain ⟨t, _, rfl⟩ := List.mem_map.1 ha
    rw [fam_fields]; omega
  -- filter
  have h1 : (filterVals u env).keys.Nodup ∧ ∀ a ∈ (filterVals u env).keys, fam a = 1 := by
    rcases filterVals_keys u env with h | h <;> rw [h]
    · simp
    · refine ⟨by simp, ?_⟩
      intro a ha
      rw [List.mem_singleton.1 ha, fam_filter]
  have h01 := nodup_fam_append 1 h0.1 h1.1 h0.2 h1.2
  -- page
  have h2 : (pageVals u).keys.Nodup ∧ ∀ a ∈ (pageVals u).keys, fam a = 2 := by
    rw [pageVals_keys]
    cases hc : u.isCol with
    | false => simp
    | true =>
      simp only [if_true]
      refine ⟨nodup_map_of_inj (fun a b => pageName_inj) (sortStrings_nodup (hpk hc)), ?_⟩
      intro a ha
      obtain ⟨t, _, rfl⟩ := List.mem_map.1 ha
      exact fam_page t
  have h012 := nodup_fam_append 2 h01.1 h2.1 h01.2 h2.2
  -- sort
  have h3 : (sortVals u).keys.Nodup ∧ ∀ a ∈ (sortVals u).keys, fam a = 3 := by
    rcases sortVals_keys u with h | h <;> rw [h]
    · simp
    · refine ⟨by simp, ?_⟩
      intro a ha
      rw [List.mem_singleton.1 ha, fam_sort]
  exact (nodup_fam_append 3 h012.1 h3.1 h012.2 h3.2).1

/-- C08 (spec side): parsing the text `URL.String` emits gives the decoded path and one
value per emitted name. -/
theorem parse_string (u : URL) (env : StringEnv) (hne : NoEmptySelection u)
    (hfk : u.params.fields.keys.Nodup) (hpk : u.isCol = true → u.params.page.keys.Nodup) :
    Spec.parseRaw (u.string env) = some (Spec.emittedPath u, Spec.emittedValues u env) := by
  rw [string_eq, emittedValues_eq, emittedPath_eq]
  exact parseRaw_core _ _ _ _ (encPath_no_q _) (unescape_encPath _) (emitted_seg u env hne)
    (emitted_keys_nodup u env hfk hpk)

/-- the same with the unconditional hypothesis on the page keys -/
theorem parse_string' (u : URL) (env : StringEnv) (hne : NoEmptySelection u)
    (hfk : u.params.fields.keys.Nodup) (hpk : u.params.page.keys.Nodup) :
    Spec.parseRaw (u.string env) = some (Spec.emittedPath u, Spec.emittedValues u env) :=
  parse_string u env hne hfk (fun _ => hpk)

end Jsonapi.UrlL.Esc

section
open Jsonapi.UrlL.Esc
#print axioms parse_string
#print axioms parse_string'
#print axioms parseRaw_core
#print axioms splitOn_joinWith
#print axioms foldl_step
#print axioms emitted_keys_nodup
end
