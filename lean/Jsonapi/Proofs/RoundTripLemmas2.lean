/-
Helper lemmas for the round-trip properties C01 / C02, part 2: the skeleton `encoding/json`
decodes from a resource object of the specification, and the relationship objects.
-/
import Jsonapi.Proofs.RoundTripLemmas
import Jsonapi.Props.C04
import Jsonapi.Props.C05
import Jsonapi.Props.C06
namespace Jsonapi
namespace RtL
open GoMap UnmL MarshalL


/-! ### maps obtained by decoding the members of an object -/

/-- decode every member value of an object's member list -/
def decMembers {β : Type} (g : Json → β) (l : List (GoString × Json)) : GoMap β :=
  l.map (fun p => (p.1, g p.2))

theorem get?_decMembers {β : Type} (g : Json → β) (l : List (GoString × Json)) (k : GoString) :
    GoMap.get? (decMembers g l) k = ((Json.obj l).get? k).map g := by
  induction l with
  | nil => rfl
  | cons p l ih =>
    obtain ⟨k', v⟩ := p
    by_cases h : k' = k
    · simp [decMembers, GoMap.get?, Json.get?, h]
    · have ih' : GoMap.get? (List.map (fun p => (p.1, g p.2)) l) k =
          Option.map g (Option.map (·.2) (List.find? (fun p => decide (p.1 = k)) l)) := ih
      simp [decMembers, GoMap.get?, Json.get?, h, ih']

theorem keys_decMembers {β : Type} (g : Json → β) (l : List (GoString × Json)) :
    keys (decMembers g l) = l.map (·.1) := by
  simp [decMembers, keys]

theorem mem_decMembers {β : Type} {g : Json → β} {l : List (GoString × Json)} {p : GoString × β}
    (h : p ∈ decMembers g l) : ∃ j, (p.1, j) ∈ l ∧ p.2 = g j := by
  simp only [decMembers, List.mem_map] at h
  obtain ⟨q, hq, rfl⟩ := h
  exact ⟨q.2, hq, rfl⟩

theorem sortMembers_nil : sortMembers [] = [] := by simp [sortMembers]

theorem keys_sorted_nodup {l : List (GoString × Json)} (h : (l.map (·.1)).Nodup) :
    ((sortMembers l).map (·.1)).Nodup :=
  ((sortMembers_perm l).map _).nodup_iff.2 h

/-! ### the skeleton of a resource object of the specification -/

theorem resObj_get_kmeta (r : ResView) (prepath : GoString) (fields : List GoString)
    (relData : GoMap (List GoString)) :
    (Spec.resourceObject r prepath fields relData).get? K.kmeta = none := by
  rw [resourceObject_eq]
  apply get?_sortMembers_none
  unfold topMembers
  cases (attrMembers r fields).isEmpty <;>
  cases (relMembers r prepath fields (wantOf r relData) r.rels).isEmpty <;>
  (simp only [Bool.false_eq_true, if_false, if_true, List.append_nil, List.cons_append,
    List.nil_append, List.map_cons, List.map_nil, List.isEmpty_nil]; decide)

theorem skeleton_eq (c : Spec.Codecs) (r : ResView) (prepath : GoString) (fields : List GoString)
    (relData : GoMap (List GoString)) :
    Spec.skeletonOf c (Spec.resourceObject r prepath fields relData) =
      { id := r.id, typ := r.typeName,
        attrs := decMembers (Spec.rawOf c) (sortMembers (attrMembers r fields)),
        rels := decMembers Spec.relRawOf
          (sortMembers (relMembers r prepath fields (wantOf r relData) r.rels)),
        smeta := [] } := by
  unfold Spec.skeletonOf
  rw [resObj_get_id, resObj_get_type, resObj_get_attributes, resObj_get_relationships,
    resObj_get_kmeta]
  congr 1
  · split
    · rename_i h
      rw [List.isEmpty_iff] at h
      rw [h, sortMembers_nil]; rfl
    · rfl
  · split
    · rename_i h
      rw [List.isEmpty_iff] at h
      rw [h, sortMembers_nil]; rfl
    · rfl



/-! ### relationship objects -/

theorem identOf_identifierJson (id t : GoString) :
    Spec.identOf (identifierJson id t) = some (id, t) := by
  have h : ¬ K.id = K.type := by decide
  simp [Spec.identOf, identifierJson, Json.get?, h]

theorem decIdents_identifiers (ids : List GoString) (t : GoString) :
    ((ids.map (fun id => identifierJson id t)).map Spec.identOf).foldr
      (fun x acc => match x, acc with
        | some i, some rest => some (i :: rest) | _, _ => none) (some []) =
    some (ids.map (fun id => (id, t))) := by
  induction ids with
  | nil => rfl
  | cons x l ih =>
    simp only [List.map_cons, List.foldr_cons, identOf_identifierJson]
    rw [ih]

theorem relRawOf_noData (r : ResView) (prepath : GoString) (rel : Rel) :
    Spec.relRawOf (Spec.relObject r prepath rel false) =
      { present := false, isNull := false, decIdent := none, decIdents := none } := by
  have : (Spec.relObject r prepath rel false).get? K.data = none := by
    simp [Spec.relObject, Json.get?]; decide
  simp [Spec.relRawOf, this]

theorem relRawOf_data (r : ResView) (prepath : GoString) (rel : Rel) :
    Spec.relRawOf (Spec.relObject r prepath rel true) =
      (match Spec.relDataJson r rel with
      | .null => { present := true, isNull := true, decIdent := some ([], []), decIdents := some [] }
      | .arr l => { present := true, isNull := false, decIdent := none,
                    decIdents := (l.map Spec.identOf).foldr (fun x acc => match x, acc with
                         | some i, some rest => some (i :: rest) | _, _ => none) (some []) }
      | d => { present := true, isNull := false, decIdent := Spec.identOf d, decIdents := none }) := by
  unfold Spec.relRawOf
  rw [relObject_get_data]
  cases Spec.relDataJson r rel <;> rfl

/-- the two fields of the schema's relationship that unmarshaling looks at agree with the
resource's -/
def RelAgree (rel rel' : Rel) : Prop := rel'.toOne = rel.toOne ∧ rel'.toType = rel.toType

theorem relValue_noData (r : ResView) (prepath : GoString) (rel rel' : Rel) :
    relValue rel' (Spec.relRawOf (Spec.relObject r prepath rel false)) = (none, false) ∧
    (Spec.relRawOf (Spec.relObject r prepath rel false)).present = false := by
  rw [relRawOf_noData]; exact ⟨rfl, rfl⟩

theorem relValue_toOne (r : ResView) (prepath : GoString) {rel rel' : Rel} (ha : RelAgree rel rel')
    (hone : rel.toOne = true) {id : GoString} (hg : r.get rel.fromName = .val .string (.s id)) :
    relValue rel' (Spec.relRawOf (Spec.relObject r prepath rel true)) =
      (some (.val .string (.s id)), false) ∧
    (Spec.relRawOf (Spec.relObject r prepath rel true)).present = true := by
  rw [relRawOf_data]
  have hd : Spec.relDataJson r rel = if id = [] then .null else identifierJson id rel.toType := by
    simp [Spec.relDataJson, hone, hg]
  rw [hd]
  have ho : rel'.toOne = true := ha.1.trans hone
  by_cases h : id = []
  · subst h
    simp [relValue, ho]
  · simp only [h, if_false, identifierJson]
    have := identOf_identifierJson id rel.toType
    simp only [identifierJson] at this
    simp [relValue, ho, this, ha.2]

theorem relValue_toMany (r : ResView) (prepath : GoString) {rel rel' : Rel} (ha : RelAgree rel rel')
    (hmany : rel.toOne = false) {ids : List GoString} (hg : r.get rel.fromName = .strs ids) :
    relValue rel' (Spec.relRawOf (Spec.relObject r prepath rel true)) =
      (some (.strs (Typ.sortStrings ids)), false) ∧
    (Spec.relRawOf (Spec.relObject r prepath rel true)).present = true := by
  rw [relRawOf_data]
  have hd : Spec.relDataJson r rel =
      .arr ((Typ.sortStrings ids).map (fun id => identifierJson id rel.toType)) := by
    simp [Spec.relDataJson, hmany, hg]
  rw [hd]
  have ho : rel'.toOne = false := ha.1.trans hmany
  simp only [decIdents_identifiers]
  simp [relValue, ho, ha.2, List.map_map, Function.comp_def]



/-! ### the domain of C01 -/

/-- A resource of the schema type `st` in the domain of C01: a well-typed keyed view whose
attribute definitions are the type's, whose relationship definitions agree with the type's
on name, cardinality and target type, and whose attribute values are in the codec domain. -/
structure ResDom (c : Spec.Codecs) (st : SType) (r : ResView) : Prop where
  keyed : r.keyedWf
  tname : r.typeName = st.typ.name
  attrs : ∀ key a, r.attrs.get? key = some a ↔ st.typ.attrs.get? key = some a
  rels : ∀ key, (r.rels.get? key).map Spec.relCore = (st.typ.rels.get? key).map Spec.relCore
  dom : ∀ key ∈ r.attrs.keys, Spec.codecDom c (r.get key)

theorem getType_of_mem {σ : SSchema} (hnd : (σ.map (·.typ.name)).Nodup) {st : SType} (h : st ∈ σ) :
    σ.getType st.typ.name = some st := by
  unfold SSchema.getType
  induction σ with
  | nil => cases h
  | cons x l ih =>
    simp only [List.map_cons, List.nodup_cons] at hnd
    rcases List.mem_cons.1 h with rfl | h'
    · simp
    · have hne : x.typ.name ≠ st.typ.name := by
        intro e
        exact hnd.1 (e ▸ List.mem_map.2 ⟨st, h', rfl⟩)
      simp only [List.find?_cons, hne, decide_false]
      exact ih hnd.2 h'

theorem wf_attr {r : ResView} (hr : r.keyedWf) {p : GoString × Attr} (hp : p ∈ r.attrs) :
    r.attrs.get? p.1 = some p.2 ∧ p.1 = p.2.name ∧ p.1 ∉ r.rels.keys ∧
    ∃ k, Kind.ofCode? p.2.ty = some k ∧
      ((r.get p.1).hasAttrType k p.2.nullable = true ∨ (p.2.nullable = true ∧ r.get p.1 = .nil)) := by
  obtain ⟨hwf, hk, -, hnd⟩ := hr
  have hndA := (List.nodup_append.1 hnd).1
  have hget : r.attrs.get? p.1 = some p.2 := get?_of_mem_nodup hndA (by cases p; exact hp)
  unfold ResView.wf at hwf
  rw [Bool.and_eq_true] at hwf
  have h := (List.all_eq_true.1 hwf.1) p hp
  rw [hget] at h
  simp only [Bool.and_eq_true, Bool.not_eq_true'] at h
  obtain ⟨h1, h2⟩ := h
  refine ⟨hget, hk p hp, ?_, ?_⟩
  · intro hm
    have := has_iff_mem_keys.2 hm
    rw [this] at h1; cases h1
  · cases hc : Kind.ofCode? p.2.ty with
    | none => rw [hc] at h2; cases h2
    | some k =>
      rw [hc] at h2
      refine ⟨k, rfl, ?_⟩
      simpa using h2

theorem ResDom.attr_info {c : Spec.Codecs} {st : SType} {r : ResView} (hd : ResDom c st r)
    {a : Attr} (ha : a ∈ GoMap.vals r.attrs) :
    r.attrs.get? a.name = some a ∧ st.typ.attrs.get? a.name = some a ∧ a.name ∈ r.attrs.keys ∧
    ∃ v', unmarshalToType a (Spec.rawOf c (encodeAttr (r.get a.name))) = .ok v' ∧
      Spec.sameVal v' (r.get a.name) := by
  obtain ⟨p, hp, rfl⟩ := List.mem_map.1 ha
  obtain ⟨h1, h2, -, k, hk, hv⟩ := wf_attr hd.keyed hp
  rw [h2] at h1 hv
  have hmem : p.2.name ∈ r.attrs.keys := mem_keys_of_get? h1
  exact ⟨h1, (hd.attrs _ _).1 h1, hmem, value_roundtrip c p.2 k hk _ hv (hd.dom _ hmem)⟩

theorem ResDom.rel_info {c : Spec.Codecs} {st : SType} {r : ResView} (hd : ResDom c st r)
    {rel : Rel} (h : rel ∈ GoMap.vals r.rels) :
    r.rels.get? rel.fromName = some rel ∧ rel.fromName ∈ r.rels.keys ∧
    ∃ rel', st.typ.rels.get? rel.fromName = some rel' ∧ RelAgree rel rel' := by
  obtain ⟨p, hp, rfl⟩ := List.mem_map.1 h
  have hndR := (List.nodup_append.1 hd.keyed.2.2.2).2.1
  have hkey := hd.keyed.2.2.1 p hp
  have hget : r.rels.get? p.2.fromName = some p.2 := by
    rw [← hkey]; exact get?_of_mem_nodup hndR (by cases p; exact hp)
  refine ⟨hget, mem_keys_of_get? hget, ?_⟩
  have := hd.rels p.2.fromName
  rw [hget] at this
  cases hs : st.typ.rels.get? p.2.fromName with
  | none => rw [hs] at this; cases this
  | some rel' =>
    rw [hs] at this
    simp only [Option.map_some, Option.some.injEq, Spec.relCore, Prod.mk.injEq] at this
    exact ⟨rel', rfl, this.2.1.symm, this.2.2.symm⟩

/-- what unmarshaling makes of one relationship object of the specification -/
theorem relValue_relObject {r : ResView} (hr : r.keyedWf) (prepath : GoString) {rel rel' : Rel}
    (hrel : rel ∈ GoMap.vals r.rels) (ha : RelAgree rel rel') (w : Bool) :
    ∃ x, relValue rel' (Spec.relRawOf (Spec.relObject r prepath rel w)) =
        (if w then some x else none, false) ∧
      (Spec.relRawOf (Spec.relObject r prepath rel w)).present = w ∧
      Spec.sameVal x (r.get rel.fromName) := by
  cases w with
  | false =>
    obtain ⟨h1, h2⟩ := relValue_noData r prepath rel rel'
    exact ⟨r.get rel.fromName, h1, h2, sameVal_refl _⟩
  | true =>
    rcases wf_rel_val hr hrel with ⟨hone, id, hg⟩ | ⟨hmany, ids, hg⟩
    · obtain ⟨h1, h2⟩ := relValue_toOne r prepath ha hone hg
      exact ⟨_, h1, h2, by rw [hg]; exact sameVal_refl _⟩
    · obtain ⟨h1, h2⟩ := relValue_toMany r prepath ha hmany hg
      refine ⟨_, h1, h2, ?_⟩
      rw [hg, sameVal_strs]
      exact sortStrings_perm ids



theorem mem_attrMembers {r : ResView} {fields : List GoString} {k : GoString} {j : Json}
    (h : (k, j) ∈ attrMembers r fields) :
    ∃ a ∈ GoMap.vals r.attrs, a.name ∈ fields ∧ k = a.name ∧ j = encodeAttr (r.get a.name) := by
  simp only [attrMembers, List.mem_map, List.mem_filter, List.contains_iff_mem] at h
  obtain ⟨a, ⟨ha, hf⟩, e⟩ := h
  cases e
  exact ⟨a, ha, hf, rfl, rfl⟩

theorem mem_relMembers {r : ResView} {prepath : GoString} {fields want : List GoString}
    {k : GoString} {j : Json} (h : (k, j) ∈ relMembers r prepath fields want r.rels) :
    ∃ rel ∈ GoMap.vals r.rels, rel.fromName ∈ fields ∧ k = rel.fromName ∧
      j = Spec.relObject r prepath rel (want.contains rel.fromName) := by
  simp only [relMembers, List.mem_map, List.mem_filter, List.contains_iff_mem] at h
  obtain ⟨a, ⟨ha, hf⟩, e⟩ := h
  cases e
  exact ⟨a, ha, hf, rfl, rfl⟩

theorem mem_sorted_of_dec {β : Type} {g : Json → β} {l : List (GoString × Json)} {p : GoString × β}
    (h : p ∈ decMembers g (sortMembers l)) : ∃ j, (p.1, j) ∈ l ∧ p.2 = g j := by
  obtain ⟨j, hj, e⟩ := mem_decMembers h
  exact ⟨j, (sortMembers_perm l).mem_iff.1 hj, e⟩

theorem get?_dec_sorted {β : Type} (g : Json → β) {l : List (GoString × Json)}
    (hnd : (l.map (·.1)).Nodup) {k : GoString} {j : Json} (h : (k, j) ∈ l) :
    GoMap.get? (decMembers g (sortMembers l)) k = some (g j) := by
  rw [get?_decMembers, get?_sortMembers_of_mem hnd h]; rfl

theorem get?_dec_sorted_some {β : Type} {g : Json → β} {l : List (GoString × Json)}
    {k : GoString} {x : β} (h : GoMap.get? (decMembers g (sortMembers l)) k = some x) :
    ∃ j, (k, j) ∈ l ∧ x = g j := by
  rw [get?_decMembers] at h
  cases hj : (Json.obj (sortMembers l)).get? k with
  | none => rw [hj] at h; cases h
  | some j =>
    rw [hj] at h
    simp only [Option.map_some, Option.some.injEq] at h
    exact ⟨j, mem_of_get?_sortMembers hj, h.symm⟩

theorem has_dec_sorted_false {β : Type} (g : Json → β) {l : List (GoString × Json)} {k : GoString}
    (h : k ∉ l.map (·.1)) : GoMap.has (decMembers g (sortMembers l)) k = false := by
  unfold GoMap.has
  rw [get?_decMembers, get?_sortMembers_none h]; rfl

theorem eq_of_name_eq {σ : SSchema} (hnd : (σ.map (·.typ.name)).Nodup) {a b : SType}
    (ha : a ∈ σ) (hb : b ∈ σ) (h : a.typ.name = b.typ.name) : a = b := by
  have h1 := getType_of_mem hnd ha
  have h2 := getType_of_mem hnd hb
  rw [h] at h1
  rw [h1] at h2
  exact Option.some.inj h2

/-- keys of the resource's attribute map are keys of the type's, and the same for relationships -/
theorem ResDom.keys_sub {c : Spec.Codecs} {st : SType} {r : ResView} (hd : ResDom c st r)
    {f : GoString} (hf : f ∈ r.attrs.keys ++ r.rels.keys) :
    f ∈ st.typ.attrs.keys ++ st.typ.rels.keys := by
  rcases List.mem_append.1 hf with h | h
  · obtain ⟨a, ha⟩ := exists_get?_of_mem_keys h
    exact List.mem_append_left _ (mem_keys_of_get? ((hd.attrs _ _).1 ha))
  · obtain ⟨rel, hrel⟩ := exists_get?_of_mem_keys h
    have := hd.rels f
    rw [hrel] at this
    cases hs : st.typ.rels.get? f with
    | none => rw [hs] at this; cases this
    | some rel' => exact List.mem_append_right _ (mem_keys_of_get? hs)

end RtL
end Jsonapi
