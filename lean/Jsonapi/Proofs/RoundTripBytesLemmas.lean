/-
Lemmas for the byte-level round trip (Props/C01B): what `encoding/json` reads back from the
bytes it wrote.

1. strings: `unquote (renderStrBody s) = s` for every valid UTF-8 `s` (every escape the
   renderer writes - the two-character escapes, backslash-u-00XX for control bytes and the three
   HTML bytes, U+2028 / U+2029 - and every well-formed multi-byte sequence copied verbatim);
2. trees: `parseJsonFull (render t) = some t` when all strings of `t` are valid UTF-8;
3. the struct decoder of Model/Decode.lean on the concrete syntax of a rendered resource
   object gives the skeleton `Spec.skeletonOf` reads off the tree.
-/
import Jsonapi.Model.Decode
import Jsonapi.Model.FilterJson
import Jsonapi.Proofs.FilterJsonLemmas
import Jsonapi.Proofs.DecodeLemmas
import Jsonapi.Proofs.JsonFullLemmas
import Jsonapi.Proofs.RoundTripLemmas3
import Jsonapi.Proofs.RoundTripCodecs
import Jsonapi.Proofs.MarshalJsonLemmas
namespace Jsonapi
namespace RtbL
open Spec JsonL FullL

/-! ### 1. strings -/

theorem hi_ne (b : UInt8) (h : 0x80 ≤ b) :
    b ≠ 34 ∧ b ≠ 92 ∧ b ≠ 8 ∧ b ≠ 12 ∧ b ≠ 10 ∧ b ≠ 13 ∧ b ≠ 9 ∧ b ≠ 60 ∧ b ≠ 62 ∧ b ≠ 38 ∧
      ¬ b < 32 ∧ ¬ b < 0x80 := by
  rw [UInt8.le_iff_toNat_le] at h
  have h80 : (0x80 : UInt8).toNat = 128 := rfl
  refine ⟨?_, ?_, ?_, ?_, ?_, ?_, ?_, ?_, ?_, ?_, ?_, ?_⟩ <;>
    first
    | (intro e; subst e; revert h; decide)
    | (rw [UInt8.lt_iff_toNat_lt]; intro h'
       first
       | (have : (32 : UInt8).toNat = 32 := rfl; omega)
       | omega)

theorem escByte_hi (b : UInt8) (h : 0x80 ≤ b) : escByte b = [b] := by
  obtain ⟨h1, h2, h3, h4, h5, h6, h7, h8, h9, h10, h11, _⟩ := hi_ne b h
  simp [escByte, h1, h2, h3, h4, h5, h6, h7, h8, h9, h10, h11]

/-- a byte other than E2 is rendered on its own -/
theorem rsb_cons (b : UInt8) (rest : GoString) (h : b ≠ 0xE2) :
    renderStrBody (b :: rest) = escByte b ++ renderStrBody rest := by
  match rest with
  | [] => simp [renderStrBody]
  | [c] => simp [renderStrBody]
  | c :: d :: r => rw [renderStrBody]; simp [h]

/-- a byte 80..BF or any byte ≥ 80 other than E2 is copied -/
theorem rsb_hi (b : UInt8) (rest : GoString) (h : 0x80 ≤ b) (h2 : b ≠ 0xE2) :
    renderStrBody (b :: rest) = b :: renderStrBody rest := by
  rw [rsb_cons b rest h2, escByte_hi b h]; rfl

theorem cont_ne_E2 (c : UInt8) (h : c ≤ 0xBF) : c ≠ 0xE2 := by
  intro e; subst e; revert h; decide

theorem unq_plain (n : Nat) (b : UInt8) (X : GoString) (h92 : b ≠ 92) (hlt : b < 0x80) :
    unquoteAux (n + 1) (b :: X) = b :: unquoteAux n X := by
  rw [unquoteAux.eq_def]
  simp [h92, hlt]

theorem unq_simple (n : Nat) (e c : UInt8) (X : GoString) (h : jsonUnescape e = some c)
    (hu : e ≠ 117) : unquoteAux (n + 1) (92 :: e :: X) = c :: unquoteAux n X := by
  rw [unquoteAux.eq_def]
  simp [h, hu]

theorem unq_u (n : Nat) (h1 h2 h3 h4 : UInt8) (X : GoString) (cp : Nat)
    (h : hex4 h1 h2 h3 h4 = some cp) (hlo : cp < 0xD800) :
    unquoteAux (n + 1) (92 :: 117 :: h1 :: h2 :: h3 :: h4 :: X) = utf8Enc cp ++ unquoteAux n X := by
  have a : ¬ (0xD800 ≤ cp ∧ cp < 0xDC00) := by omega
  have b : ¬ (0xDC00 ≤ cp ∧ cp < 0xE000) := by omega
  rw [unquoteAux.eq_def]
  simp [h, a, b]

theorem unq_u00 (n : Nat) (b : UInt8) (X : GoString) (hb : b.toNat < 128) :
    unquoteAux (n + 1) (escU00 b ++ X) = b :: unquoteAux n X := by
  have h0 : jsonHexVal 48 = some 0 := by decide
  have hcp : ((0 * 16 + 0) * 16 + b.toNat / 16 % 16) * 16 + b.toNat % 16 = b.toNat := by omega
  have hx : hex4 48 48 (jsonHexDigit (b.toNat / 16)) (jsonHexDigit b.toNat) = some b.toNat := by
    simp only [hex4, h0, jsonHexVal_hexDigit, hcp]
  have := unq_u n 48 48 (jsonHexDigit (b.toNat / 16)) (jsonHexDigit b.toNat) X b.toNat hx (by omega)
  simp only [escU00, List.cons_append, List.nil_append]
  rw [this]
  have hlt : b.toNat < 0x80 := hb
  simp [utf8Enc, hlt]

theorem unq_escByte (n : Nat) (b : UInt8) (X : GoString) (hb : b < 0x80) :
    unquoteAux (n + 1) (escByte b ++ X) = b :: unquoteAux n X := by
  have hbn : b.toNat < 128 := by
    have := UInt8.lt_iff_toNat_lt.mp hb
    have h80 : (0x80 : UInt8).toNat = 128 := rfl
    omega
  unfold escByte
  by_cases h1 : b = 34
  · subst h1; exact unq_simple n 34 34 X (by decide) (by decide)
  rw [if_neg h1]
  by_cases h2 : b = 92
  · subst h2; exact unq_simple n 92 92 X (by decide) (by decide)
  rw [if_neg h2]
  by_cases h3 : b = 8
  · subst h3; exact unq_simple n 98 8 X (by decide) (by decide)
  rw [if_neg h3]
  by_cases h4 : b = 12
  · subst h4; exact unq_simple n 102 12 X (by decide) (by decide)
  rw [if_neg h4]
  by_cases h5 : b = 10
  · subst h5; exact unq_simple n 110 10 X (by decide) (by decide)
  rw [if_neg h5]
  by_cases h6 : b = 13
  · subst h6; exact unq_simple n 114 13 X (by decide) (by decide)
  rw [if_neg h6]
  by_cases h7 : b = 9
  · subst h7; exact unq_simple n 116 9 X (by decide) (by decide)
  rw [if_neg h7]
  by_cases h8 : b < 32 ∨ b = 60 ∨ b = 62 ∨ b = 38
  · rw [if_pos h8]
    exact unq_u00 n b X hbn
  · rw [if_neg h8]
    exact unq_plain n b X h2 hb

theorem unq_2 (n : Nat) (b c : UInt8) (X : GoString) (hb : 0xC2 ≤ b ∧ b ≤ 0xDF)
    (hc : (0x80 ≤ c && c ≤ 0xBF) = true) :
    unquoteAux (n + 1) (b :: c :: X) = b :: c :: unquoteAux n X := by
  have h80 : 0x80 ≤ b := by
    have := UInt8.le_iff_toNat_le.mp hb.1
    rw [UInt8.le_iff_toNat_le]
    have e1 : (0xC2 : UInt8).toNat = 194 := rfl
    have e2 : (0x80 : UInt8).toNat = 128 := rfl
    omega
  obtain ⟨_, h92, _, _, _, _, _, _, _, _, _, hlt⟩ := hi_ne b h80
  rw [unquoteAux.eq_def]
  simp [h92, hlt, hb, hc]

theorem unq_3 (n : Nat) (b c d : UInt8) (X : GoString) (hb : 0xE0 ≤ b ∧ b ≤ 0xEF)
    (hc : (((if b = 0xE0 then 0xA0 else 0x80) ≤ c && c ≤ (if b = 0xED then 0x9F else 0xBF)) &&
            (0x80 ≤ d && d ≤ 0xBF)) = true) :
    unquoteAux (n + 1) (b :: c :: d :: X) = b :: c :: d :: unquoteAux n X := by
  have hbn := UInt8.le_iff_toNat_le.mp hb.1
  have e1 : (0xE0 : UInt8).toNat = 224 := rfl
  have h80 : 0x80 ≤ b := by
    rw [UInt8.le_iff_toNat_le]
    have e2 : (0x80 : UInt8).toNat = 128 := rfl
    omega
  obtain ⟨_, h92, _, _, _, _, _, _, _, _, _, hlt⟩ := hi_ne b h80
  have h2 : ¬ (0xC2 ≤ b ∧ b ≤ 0xDF) := by
    intro h
    have := UInt8.le_iff_toNat_le.mp h.2
    have e3 : (0xDF : UInt8).toNat = 223 := rfl
    omega
  rw [unquoteAux.eq_def]
  simp only [h92, if_false, hlt, h2, hb, and_self, if_true, hc]

theorem unq_4 (n : Nat) (b c d e : UInt8) (X : GoString) (hb : 0xF0 ≤ b ∧ b ≤ 0xF4)
    (hc : (((if b = 0xF0 then 0x90 else 0x80) ≤ c && c ≤ (if b = 0xF4 then 0x8F else 0xBF)) &&
            (0x80 ≤ d && d ≤ 0xBF) && (0x80 ≤ e && e ≤ 0xBF)) = true) :
    unquoteAux (n + 1) (b :: c :: d :: e :: X) = b :: c :: d :: e :: unquoteAux n X := by
  have hbn := UInt8.le_iff_toNat_le.mp hb.1
  have e1 : (0xF0 : UInt8).toNat = 240 := rfl
  have h80 : 0x80 ≤ b := by
    rw [UInt8.le_iff_toNat_le]
    have e2 : (0x80 : UInt8).toNat = 128 := rfl
    omega
  obtain ⟨_, h92, _, _, _, _, _, _, _, _, _, hlt⟩ := hi_ne b h80
  have h2 : ¬ (0xC2 ≤ b ∧ b ≤ 0xDF) := by
    intro h
    have := UInt8.le_iff_toNat_le.mp h.2
    have e3 : (0xDF : UInt8).toNat = 223 := rfl
    omega
  have h3 : ¬ (0xE0 ≤ b ∧ b ≤ 0xEF) := by
    intro h
    have := UInt8.le_iff_toNat_le.mp h.2
    have e3 : (0xEF : UInt8).toNat = 239 := rfl
    omega
  rw [unquoteAux.eq_def]
  simp only [h92, if_false, hlt, h2, h3, hb, and_self, if_true, hc]

theorem and_split {a b : Bool} (h : (a && b) = true) : a = true ∧ b = true := by
  cases a <;> cases b <;> simp_all

theorem cont_of (c : UInt8) (h : (0x80 ≤ c && c ≤ 0xBF) = true) : 0x80 ≤ c ∧ c ≤ 0xBF := by
  simpa using h

theorem cont3_of (b c : UInt8)
    (h : ((if b = 0xE0 then 0xA0 else 0x80) ≤ c && c ≤ (if b = 0xED then 0x9F else 0xBF)) = true) :
    0x80 ≤ c ∧ c ≤ 0xBF := by
  simp only [Bool.and_eq_true, decide_eq_true_eq] at h
  obtain ⟨h1, h2⟩ := h
  rw [UInt8.le_iff_toNat_le] at h1 h2
  rw [UInt8.le_iff_toNat_le, UInt8.le_iff_toNat_le]
  have e1 : (0x80 : UInt8).toNat = 128 := rfl
  have e2 : (0xBF : UInt8).toNat = 191 := rfl
  have e3 : (0xA0 : UInt8).toNat = 160 := rfl
  have e4 : (0x9F : UInt8).toNat = 159 := rfl
  constructor
  · split at h1 <;> omega
  · split at h2 <;> omega

theorem cont4_of (b c : UInt8)
    (h : ((if b = 0xF0 then 0x90 else 0x80) ≤ c && c ≤ (if b = 0xF4 then 0x8F else 0xBF)) = true) :
    0x80 ≤ c ∧ c ≤ 0xBF := by
  simp only [Bool.and_eq_true, decide_eq_true_eq] at h
  obtain ⟨h1, h2⟩ := h
  rw [UInt8.le_iff_toNat_le] at h1 h2
  rw [UInt8.le_iff_toNat_le, UInt8.le_iff_toNat_le]
  have e1 : (0x80 : UInt8).toNat = 128 := rfl
  have e2 : (0xBF : UInt8).toNat = 191 := rfl
  have e3 : (0x90 : UInt8).toNat = 144 := rfl
  have e4 : (0x8F : UInt8).toNat = 143 := rfl
  constructor
  · split at h1 <;> omega
  · split at h2 <;> omega

theorem rsb_cont (c : UInt8) (rest : GoString) (h : 0x80 ≤ c ∧ c ≤ 0xBF) :
    renderStrBody (c :: rest) = c :: renderStrBody rest :=
  rsb_hi c rest h.1 (cont_ne_E2 c h.2)

theorem ge_of_ge (b lo : UInt8) (h : lo ≤ b) (hl : 0x80 ≤ lo) : 0x80 ≤ b := by
  rw [UInt8.le_iff_toNat_le] at *
  omega

theorem unq_2028 (n : Nat) (X : GoString) :
    unquoteAux (n + 1) ([92, 117, 50, 48, 50, 56] ++ X) = [0xE2, 0x80, 0xA8] ++ unquoteAux n X := by
  have := unq_u n 50 48 50 56 X 0x2028 (by decide) (by decide)
  simp only [List.cons_append, List.nil_append] at this ⊢
  rw [this]; rfl

theorem unq_2029 (n : Nat) (X : GoString) :
    unquoteAux (n + 1) ([92, 117, 50, 48, 50, 57] ++ X) = [0xE2, 0x80, 0xA9] ++ unquoteAux n X := by
  have := unq_u n 50 48 50 57 X 0x2029 (by decide) (by decide)
  simp only [List.cons_append, List.nil_append] at this ⊢
  rw [this]; rfl

theorem escByte_len (b : UInt8) : 1 ≤ (escByte b).length := by
  unfold escByte escU00
  repeat' split
  all_goals simp

/-- The heart of the string round trip: Go's `unquote` on what Go's `appendString` wrote. -/
theorem unq_render (s : GoString) (h : utf8Valid s = true) :
    ∀ n, (renderStrBody s).length < n → unquoteAux n (renderStrBody s) = s := by
  fun_induction utf8Valid s with
  | case1 => intro n _; cases n <;> rfl
  | case2 b rest hb ih =>
    intro n hn
    have hne : b ≠ 0xE2 := by intro e; subst e; revert hb; decide
    rw [rsb_cons b rest hne] at hn ⊢
    obtain ⟨n, rfl⟩ : ∃ m, n = m + 1 := ⟨n - 1, by omega⟩
    have := escByte_len b
    rw [unq_escByte n b _ hb, ih h n (by simp only [List.length_append] at hn; omega)]
  | case3 b hb1 hb2 c r ih =>
    intro n hn
    have h := and_split h
    have hc := cont_of c h.1
    have h80 := ge_of_ge b 0xC2 hb2.1 (by decide)
    have hne : b ≠ 0xE2 := by intro e; subst e; revert hb2; decide
    rw [rsb_hi b _ h80 hne, rsb_cont c r hc] at hn ⊢
    obtain ⟨n, rfl⟩ : ∃ m, n = m + 1 := ⟨n - 1, by omega⟩
    rw [unq_2 n b c _ hb2 h.1, ih h.2 n (by simp only [List.length_cons] at hn; omega)]
  | case4 => cases h
  | case5 b hb1 hb2 hb3 c d r ih =>
    intro n hn
    obtain ⟨hcd0, hr⟩ := and_split h
    obtain ⟨hc, hd⟩ := and_split hcd0
    have hc' := cont3_of b c hc
    have hd' := cont_of d hd
    have h80 := ge_of_ge b 0xE0 hb3.1 (by decide)
    have hcd : (((if b = 0xE0 then 0xA0 else 0x80) ≤ c && c ≤ (if b = 0xED then 0x9F else 0xBF)) &&
            (0x80 ≤ d && d ≤ 0xBF)) = true := by rw [hc, hd]; rfl
    by_cases hE2 : b = 0xE2
    · subst hE2
      by_cases h28 : c = 0x80 ∧ d = 0xA8
      · obtain ⟨rfl, rfl⟩ := h28
        have e : renderStrBody (0xE2 :: 0x80 :: 0xA8 :: r)
            = [92, 117, 50, 48, 50, 56] ++ renderStrBody r := by rw [renderStrBody]; simp
        rw [e] at hn ⊢
        obtain ⟨n, rfl⟩ : ∃ m, n = m + 1 := ⟨n - 1, by omega⟩
        rw [unq_2028, ih hr n (by simp only [List.length_append, List.length_cons] at hn; omega)]
        rfl
      · by_cases h29 : c = 0x80 ∧ d = 0xA9
        · obtain ⟨rfl, rfl⟩ := h29
          have e : renderStrBody (0xE2 :: 0x80 :: 0xA9 :: r)
              = [92, 117, 50, 48, 50, 57] ++ renderStrBody r := by rw [renderStrBody]; simp
          rw [e] at hn ⊢
          obtain ⟨n, rfl⟩ : ∃ m, n = m + 1 := ⟨n - 1, by omega⟩
          rw [unq_2029, ih hr n (by simp only [List.length_append, List.length_cons] at hn; omega)]
          rfl
        · have e : renderStrBody (0xE2 :: c :: d :: r)
              = 0xE2 :: renderStrBody (c :: d :: r) := by
            rw [renderStrBody]
            simp only [true_and, h28, h29, if_false]
            rw [escByte_hi _ h80]; rfl
          rw [e, rsb_cont c _ hc', rsb_cont d r hd'] at hn ⊢
          obtain ⟨n, rfl⟩ : ∃ m, n = m + 1 := ⟨n - 1, by omega⟩
          rw [unq_3 n _ c d _ hb3 hcd, ih hr n (by simp only [List.length_cons] at hn; omega)]
    · rw [rsb_hi b _ h80 hE2, rsb_cont c _ hc', rsb_cont d r hd'] at hn ⊢
      obtain ⟨n, rfl⟩ : ∃ m, n = m + 1 := ⟨n - 1, by omega⟩
      rw [unq_3 n b c d _ hb3 hcd, ih hr n (by simp only [List.length_cons] at hn; omega)]
  | case6 => cases h
  | case7 b hb1 hb2 hb3 hb4 c d e r ih =>
    intro n hn
    obtain ⟨hcde0, hr⟩ := and_split h
    obtain ⟨hcd0, he⟩ := and_split hcde0
    obtain ⟨hc, hd⟩ := and_split hcd0
    have hc' := cont4_of b c hc
    have hd' := cont_of d hd
    have he' := cont_of e he
    have h80 := ge_of_ge b 0xF0 hb4.1 (by decide)
    have hne : b ≠ 0xE2 := by intro e; subst e; revert hb4; decide
    have hcd : (((if b = 0xF0 then 0x90 else 0x80) ≤ c && c ≤ (if b = 0xF4 then 0x8F else 0xBF)) &&
            (0x80 ≤ d && d ≤ 0xBF) && (0x80 ≤ e && e ≤ 0xBF)) = true := by rw [hc, hd, he]; rfl
    rw [rsb_hi b _ h80 hne, rsb_cont c _ hc', rsb_cont d _ hd', rsb_cont e r he'] at hn ⊢
    obtain ⟨n, rfl⟩ : ∃ m, n = m + 1 := ⟨n - 1, by omega⟩
    rw [unq_4 n b c d e _ hb4 hcd, ih hr n (by simp only [List.length_cons] at hn; omega)]
  | case8 => cases h
  | case9 => cases h

/-- `unquote (renderStrBody s) = s` for every valid UTF-8 string. -/
theorem unquote_render (s : GoString) (h : utf8Valid s = true) : unquote (renderStrBody s) = s :=
  unq_render s h _ (by omega)

/-! ### 2. trees whose strings are valid UTF-8 -/

/-- the full reader gives back every tree whose strings (keys included) are valid UTF-8 -/
theorem mapStr_unquote_id (t : Json) (h : strsAll utf8Valid t = true) :
    mapStr (fun s => unquote (renderStrBody s)) t = t :=
  mapStr_id _ utf8Valid unquote_render t h

theorem strsAllMembers_iff (p : GoString → Bool) (ms : List (GoString × Json)) :
    strsAllMembers p ms = true ↔ ∀ m ∈ ms, p m.1 = true ∧ strsAll p m.2 = true := by
  induction ms with
  | nil => simp [strsAllMembers]
  | cons m ms ih =>
    obtain ⟨k, v⟩ := m
    simp only [strsAllMembers, Bool.and_eq_true, ih, List.mem_cons, forall_eq_or_imp, and_assoc]

theorem strsAllList_iff (p : GoString → Bool) (l : List Json) :
    strsAllList p l = true ↔ ∀ v ∈ l, strsAll p v = true := by
  induction l with
  | nil => simp [strsAllList]
  | cons v vs ih => simp only [strsAllList, Bool.and_eq_true, ih, List.mem_cons, forall_eq_or_imp]

theorem numsOkMembers_iff (ms : List (GoString × Json)) :
    Json.numsOkMembers ms = true ↔ ∀ m ∈ ms, m.2.numsOk = true := by
  induction ms with
  | nil => simp [Json.numsOkMembers]
  | cons m ms ih =>
    obtain ⟨k, v⟩ := m
    simp only [Json.numsOkMembers, Bool.and_eq_true, ih, List.mem_cons, forall_eq_or_imp]

theorem numsOkList_iff (l : List Json) :
    Json.numsOkList l = true ↔ ∀ v ∈ l, v.numsOk = true := by
  induction l with
  | nil => simp [Json.numsOkList]
  | cons v vs ih => simp only [Json.numsOkList, Bool.and_eq_true, ih, List.mem_cons, forall_eq_or_imp]

theorem depthMembers_le (ms : List (GoString × Json)) (d : Nat) :
    depthMembers ms ≤ d ↔ ∀ m ∈ ms, depth m.2 ≤ d := by
  induction ms with
  | nil => simp [depthMembers]
  | cons m ms ih =>
    obtain ⟨k, v⟩ := m
    simp only [depthMembers, Nat.max_le, ih, List.mem_cons, forall_eq_or_imp]

theorem depthList_le (l : List Json) (d : Nat) :
    depthList l ≤ d ↔ ∀ v ∈ l, depth v ≤ d := by
  induction l with
  | nil => simp [depthList]
  | cons v vs ih => simp only [depthList, Nat.max_le, ih, List.mem_cons, forall_eq_or_imp]

/-! ### 3. the abstraction from the decoded skeleton to the one read off the tree -/

end RtbL

/-- The one difference between the raw value `encoding/json` hands to the library and the one
`Spec.rawOf` reads off the tree: the `bytes` of a STRING are the literal as written (escapes
included) on the byte side and quote-content-quote on the tree side - the library looks at
the first byte only - and the time decode of `null`, which the library never consults. The
conversion rewrites exactly these two and nothing else. -/
def RawVal.abstr (r : RawVal) : RawVal :=
  if r.bytes = sNull then { r with decTime := some default }
  else match r.bytes.head?, r.decStr with
    | some 34, some s => { r with bytes := [34] ++ s ++ [34] }
    | _, _ => r

/-- the conversion on a resource skeleton: every value of `attributes` through `RawVal.abstr` -/
def ResSke.abstr (sk : ResSke) : ResSke :=
  { sk with attrs := sk.attrs.map (fun p => (p.1, p.2.abstr)) }

/-- What the round trip asks of the delegated time decoder `D.decTime` (the raw text of a
value to `json.Unmarshal(raw, &time.Time{})`): it inverts `time.Time.MarshalJSON` on `TimeOk`
(the law of `Spec.Codecs`, on the rendered literal), and it rejects every text that is neither
a string literal nor `null` (time.Time.UnmarshalJSON: "input is not a JSON string").
`D.numCanon` is not constrained. -/
structure DelegatedOk (D : Delegated) (TimeOk : Time → Prop) : Prop where
  time_law : ∀ t, TimeOk t → D.decTime (renderStr (formatTime t)) = some t
  time_nonstr : ∀ raw, raw.head? ≠ some 34 → raw ≠ sNull → D.decTime raw = none

namespace RtbL
open Spec JsonL FullL GoMap

/-! #### base64 as `encoding/json` decodes it -/

theorem b64Val?_b64Char : ∀ n, n < 64 →
    b64Val? (b64Char n) = some n ∧ b64Char n ≠ 61 ∧ b64Char n ≠ 10 ∧ b64Char n ≠ 13 := by decide

theorem b64Char_mod (n : Nat) : b64Char n ≠ 10 ∧ b64Char n ≠ 13 := by
  by_cases h : n < 64
  · exact (b64Val?_b64Char n h).2.2
  · have h1 : ¬ n < 26 := by omega
    have h2 : ¬ n < 52 := by omega
    have h3 : ¬ n < 62 := by omega
    have h4 : ¬ n = 62 := by omega
    simp only [b64Char, h1, h2, h3, h4, if_false]
    decide

theorem b64enc_nocrlf (l : List UInt8) : ∀ c ∈ b64enc l, ¬ (c = 10 ∨ c = 13) := by
  fun_induction b64enc l with
  | case1 => intro c h; cases h
  | case2 a n =>
    intro c h
    simp only [List.mem_cons, List.not_mem_nil, or_false] at h
    rcases h with rfl | rfl | rfl | rfl
    · have := b64Char_mod (n / 4); intro h; rcases h with h | h <;> simp_all
    · have := b64Char_mod (n % 4 * 16); intro h; rcases h with h | h <;> simp_all
    · decide
    · decide
  | case3 a b n =>
    intro c h
    simp only [List.mem_cons, List.not_mem_nil, or_false] at h
    rcases h with rfl | rfl | rfl | rfl
    · have := b64Char_mod (n / 1024); intro h; rcases h with h | h <;> simp_all
    · have := b64Char_mod (n / 16 % 64); intro h; rcases h with h | h <;> simp_all
    · have := b64Char_mod (n % 16 * 4); intro h; rcases h with h | h <;> simp_all
    · decide
  | case4 a b c rest n ih =>
    intro x h
    simp only [List.mem_cons] at h
    rcases h with rfl | rfl | rfl | rfl | h
    · have := b64Char_mod (n / 262144); intro h; rcases h with h | h <;> simp_all
    · have := b64Char_mod (n / 4096 % 64); intro h; rcases h with h | h <;> simp_all
    · have := b64Char_mod (n / 64 % 64); intro h; rcases h with h | h <;> simp_all
    · have := b64Char_mod (n % 64); intro h; rcases h with h | h <;> simp_all
    · exact ih x h

theorem goB64Groups_b64enc (l : List UInt8) : goB64Groups (b64enc l) = some l := by
  fun_induction b64enc l with
  | case1 => rfl
  | case2 a n =>
    have ha : n < 256 := a.toNat_lt
    obtain ⟨h1, -⟩ := b64Val?_b64Char (n / 4) (by omega)
    obtain ⟨h2, -⟩ := b64Val?_b64Char (n % 4 * 16) (by omega)
    simp only [goB64Groups, h1, h2, and_self, if_true]
    congr 2
    apply RtL.ofNat_of_eq
    omega
  | case3 a b n =>
    have ha : a.toNat < 256 := a.toNat_lt
    have hb : b.toNat < 256 := b.toNat_lt
    have hn : n = a.toNat * 256 + b.toNat := rfl
    obtain ⟨h1, -⟩ := b64Val?_b64Char (n / 1024) (by omega)
    obtain ⟨h2, -⟩ := b64Val?_b64Char (n / 16 % 64) (by omega)
    obtain ⟨h3, h3', -⟩ := b64Val?_b64Char (n % 16 * 4) (by omega)
    simp only [goB64Groups, h1, h2, h3, h3', if_false, if_true]
    congr 2
    · apply RtL.ofNat_of_eq; omega
    · congr 1; apply RtL.ofNat_of_eq; omega
  | case4 a b c rest n ih =>
    have ha : a.toNat < 256 := a.toNat_lt
    have hb : b.toNat < 256 := b.toNat_lt
    have hc : c.toNat < 256 := c.toNat_lt
    have hn : n = a.toNat * 65536 + b.toNat * 256 + c.toNat := rfl
    obtain ⟨h1, -⟩ := b64Val?_b64Char (n / 262144) (by omega)
    obtain ⟨h2, -⟩ := b64Val?_b64Char (n / 4096 % 64) (by omega)
    obtain ⟨h3, h3', -⟩ := b64Val?_b64Char (n / 64 % 64) (by omega)
    obtain ⟨h4, h4', -⟩ := b64Val?_b64Char (n % 64) (by omega)
    simp only [goB64Groups, h1, h2, h3, h4, h3', h4', if_false, ih]
    congr 2
    · apply RtL.ofNat_of_eq; omega
    · congr 1
      · apply RtL.ofNat_of_eq; omega
      · congr 1; apply RtL.ofNat_of_eq; omega

/-- `encoding/json`'s base64 decoding of a `[]byte` inverts the model's encoder -/
theorem goB64_b64enc (l : List UInt8) : goB64 (b64enc l) = some l := by
  unfold goB64
  have : (b64enc l).filter (fun c => decide (c ≠ 10 ∧ c ≠ 13)) = b64enc l := by
    rw [List.filter_eq_self]
    intro c hc
    have := b64enc_nocrlf l c hc
    simp only [not_or] at this
    simp [this.1, this.2]
  rw [this]
  exact goB64Groups_b64enc l

end RtbL

/-- The `Spec.Codecs` the byte-level decoder induces: the time decoder on the rendered
literal, `encoding/json`'s own base64 decoding (modelled, `goB64`). -/
def codecsOf (D : Delegated) (TimeOk : Time → Prop) (h : DelegatedOk D TimeOk) : Spec.Codecs :=
  { parseTime := fun s => D.decTime (renderStr s)
    b64dec := goB64
    TimeOk := TimeOk
    time_law := h.time_law
    b64_law := RtbL.goB64_b64enc }

namespace RtbL
open Spec JsonL FullL GoMap

/-! #### the conversion is invisible to the library -/

theorem parseInt_quote (bits : Nat) (X : GoString) : parseInt bits (34 :: X) = none := by
  simp [parseInt, isDigit]

theorem parseUint_quote (bits : Nat) (X : GoString) : parseUint bits (34 :: X) = none := by
  simp [parseUint, isDigit]

theorem toType_abstr (a : Attr) (r : RawVal) : unmarshalToType a r.abstr = unmarshalToType a r := by
  unfold RawVal.abstr
  split
  · rename_i h
    simp only [unmarshalToType, h, if_true]
  · rename_i h
    split
    · rename_i s hh hs
      obtain ⟨X, hX⟩ : ∃ X, r.bytes = 34 :: X := by
        cases hb : r.bytes with
        | nil => rw [hb] at hh; cases hh
        | cons c X => rw [hb] at hh; simp only [List.head?_cons, Option.some.injEq] at hh; exact ⟨X, by rw [hh]⟩
      have n1 : ¬ ([34] ++ s ++ [34] : GoString) = sNull := by
        intro e; simp [sNull] at e
      have n2 : ¬ ([34] ++ s ++ [34] : GoString) = sTrue := by
        intro e; simp [sTrue] at e
      have n3 : ¬ ([34] ++ s ++ [34] : GoString) = sFalse := by
        intro e; simp [sFalse] at e
      have m2 : ¬ (34 :: X : GoString) = sTrue := by intro e; simp [sTrue] at e
      have m3 : ¬ (34 :: X : GoString) = sFalse := by intro e; simp [sFalse] at e
      have m1 : ¬ (34 :: X : GoString) = sNull := by intro e; simp [sNull] at e
      have e1 : ([34] ++ s ++ [34] : GoString) = 34 :: (s ++ [34]) := by simp
      simp only [unmarshalToType, n1, n2, n3, if_false, hX, m1, m2, m3]
      rw [e1]
      simp only [parseInt_quote, parseUint_quote, List.head?_cons]
      rfl
    · rfl

theorem unmarshalResource_abstr (σ : SSchema) (sk : ResSke) :
    unmarshalResource σ sk.abstr = unmarshalResource σ sk := by
  unfold unmarshalResource ResSke.abstr
  simp only [List.foldl_map, toType_abstr]

/-! ### 4. the shape of a marshaled resource object -/

end RtbL

namespace Json
def isStr : Json → Bool
  | .str _ => true
  | _ => false
def isScalar : Json → Bool
  | .arr _ => false
  | .obj _ => false
  | _ => true
def isObjOrNull : Json → Bool
  | .null => true
  | .obj _ => true
  | _ => false
end Json

/-- `{"id": string, "type": string}` in this order (what `identifierJson` builds) -/
def identShape : Json → Bool
  | .obj [(k1, .str _), (k2, .str _)] => k1 = K.id && k2 = K.type
  | _ => false

/-- a relationship's `data`: null, one identifier, an array of identifiers -/
def dataShape : Json → Bool
  | .null => true
  | .arr l => l.all identShape
  | j => identShape j

/-- a relationship object: distinct members among `data` (as above), `links`, `meta` (an object
or null each) -/
def relObjShape : Json → Bool
  | .obj ms => decide ((ms.map (·.1)).Nodup) && ms.all (fun p =>
      (p.1 = K.data && dataShape p.2) || (p.1 = K.links && p.2.isObjOrNull) ||
      (p.1 = K.kmeta && p.2.isObjOrNull))
  | _ => false

/-- The image of `marshalResource` (resource-level meta empty) as a decidable predicate: an
object with distinct members among `id` and `type` (strings), `links` (anything),
`attributes` (an object with distinct keys and scalar values: null, boolean, number, string)
and `relationships` (an object with distinct keys whose values are relationship objects). -/
def ResTreeShape : Json → Bool
  | .obj ms => decide ((ms.map (·.1)).Nodup) && ms.all (fun p =>
      (p.1 = K.id && p.2.isStr) || (p.1 = K.type && p.2.isStr) || p.1 = K.links ||
      (p.1 = K.attributes && (match p.2 with
        | .obj as => decide ((as.map (·.1)).Nodup) && as.all (fun q => q.2.isScalar)
        | _ => false)) ||
      (p.1 = K.relationships && (match p.2 with
        | .obj rs => decide ((rs.map (·.1)).Nodup) && rs.all (fun q => relObjShape q.2)
        | _ => false)))
  | _ => false

namespace RtbL
open Spec JsonL FullL GoMap

/-! #### lookups in objects with distinct keys, from the right -/

theorem get?_snoc_ne (ms : List (GoString × Json)) (k' : GoString) (v : Json) (k : GoString)
    (h : k' ≠ k) : (Json.obj (ms ++ [(k', v)])).get? k = (Json.obj ms).get? k := by
  simp only [Json.get?, List.find?_append, List.find?_cons, h, decide_false, List.find?_nil]
  cases List.find? (fun p => decide (p.1 = k)) ms <;> rfl

theorem get?_snoc_eq (ms : List (GoString × Json)) (k : GoString) (v : Json)
    (h : k ∉ ms.map (·.1)) : (Json.obj (ms ++ [(k, v)])).get? k = some v := by
  have : List.find? (fun q => decide (q.1 = k)) ms = none := MarshalL.find?_key_none h
  simp [Json.get?, List.find?_append, this]

theorem get?_none_of_not_mem (ms : List (GoString × Json)) (k : GoString)
    (h : k ∉ ms.map (·.1)) : (Json.obj ms).get? k = none := by
  simp [Json.get?, MarshalL.find?_key_none h]

/-! #### maps filled member by member -/

theorem foldl_set_nodup {β : Type} (g : Json → β) (as : List (GoString × Json))
    (cur : GoMap β) (hnd : (as.map (·.1)).Nodup) (hdis : ∀ k ∈ keys cur, k ∉ as.map (·.1)) :
    as.foldl (fun m p => GoMap.set m p.1 (g p.2)) cur = cur ++ as.map (fun p => (p.1, g p.2)) := by
  induction as generalizing cur with
  | nil => simp
  | cons p as ih =>
    simp only [List.map_cons, List.nodup_cons] at hnd
    have hp : p.1 ∉ keys cur := fun hk => hdis p.1 hk (by simp)
    simp only [List.foldl_cons, set_of_not_mem cur p.1 (g p.2) hp]
    rw [ih _ hnd.2]
    · simp
    · intro k hk
      simp only [keys, List.map_append, List.map_cons, List.map_nil, List.mem_append,
        List.mem_singleton] at hk
      rcases hk with hk | rfl
      · intro hk'; exact hdis k hk (by simp [hk'])
      · exact hnd.1

/-! #### keys -/

theorem unq_key (k : GoString) (h : utf8Valid k = true) : unquote (renderStrBody k) = k :=
  unquote_render k h

theorem attrsInto_toC (D : Delegated) (as : List (GoString × Json)) (cur : GoMap RawVal)
    (hk : ∀ p ∈ as, utf8Valid p.1 = true) :
    attrsInto D cur (toCMembers as) =
      as.foldl (fun m p => GoMap.set m p.1 (rawValOf D (toC p.2))) cur := by
  induction as generalizing cur with
  | nil => rfl
  | cons p as ih =>
    obtain ⟨k, v⟩ := p
    simp only [toCMembers, attrsInto, List.foldl_cons]
    rw [unq_key k (hk (k, v) (by simp))]
    exact ih _ (fun q hq => hk q (by simp [hq]))

/-! #### identifiers -/

theorem identShape_eq (j : Json) (h : identShape j = true) :
    ∃ i t, j = identifierJson i t := by
  unfold identShape at h
  split at h
  · rename_i k1 i k2 t
    simp only [Bool.and_eq_true, decide_eq_true_eq] at h
    exact ⟨i, t, by rw [h.1, h.2]; rfl⟩
  · cases h

theorem kid_unq : unquote (renderStrBody K.id) = K.id := unq_key _ (by decide)
theorem ktype_unq : unquote (renderStrBody K.type) = K.type := unq_key _ (by decide)

theorem decodeIdent_toC (i t : GoString) (hi : utf8Valid i = true) (ht : utf8Valid t = true) :
    decodeIdent (toC (identifierJson i t)) = some (i, t) := by
  have f0 : fieldIdx identFields K.id = some 0 := by decide
  have f1 : fieldIdx identFields K.type = some 1 := by decide
  simp only [identifierJson, toC, toCMembers, decodeIdent, identMembers, kid_unq, ktype_unq, f0, f1,
    setStrC, unq_key i hi, unq_key t ht]

theorem strs_ident (i t : GoString) (h : strsAll utf8Valid (identifierJson i t) = true) :
    utf8Valid i = true ∧ utf8Valid t = true := by
  simp only [identifierJson, strsAll, strsAllMembers, Bool.and_eq_true] at h
  exact ⟨h.1.2, h.2.1.2⟩

/-- (id, type) of an identifier object -/
def identPair (j : Json) : GoString × GoString := (strOf (j.get? K.id), strOf (j.get? K.type))

theorem identPair_ident (i t : GoString) : identPair (identifierJson i t) = (i, t) := by
  have h : ¬ K.id = K.type := by decide
  simp [identPair, identifierJson, Json.get?, strOf, h]

theorem identItems_toC (l : List Json) (hs : l.all identShape = true)
    (hu : ∀ v ∈ l, strsAll utf8Valid v = true) :
    identItems (toCItems l) = some (l.map identPair) ∧
      l.map Spec.identOf = (l.map identPair).map some := by
  induction l with
  | nil => exact ⟨rfl, rfl⟩
  | cons v vs ih =>
    simp only [List.all_cons, Bool.and_eq_true] at hs
    obtain ⟨i, t, rfl⟩ := identShape_eq v hs.1
    obtain ⟨hi, ht⟩ := strs_ident i t (hu _ (by simp))
    obtain ⟨ih1, ih2⟩ := ih hs.2 (fun v hv => hu v (by simp [hv]))
    constructor
    · simp only [toCItems, identItems, decodeIdent_toC i t hi ht, ih1, List.map_cons,
        identPair_ident]
    · simp only [List.map_cons, RtL.identOf_identifierJson, identPair_ident, ih2]

theorem foldr_all_some {α : Type} (f : Option α → Option (List α) → Option (List α))
    (hf : ∀ a rest, f (some a) (some rest) = some (a :: rest)) (vals : List α) :
    (vals.map some).foldr f (some []) = some vals := by
  induction vals with
  | nil => rfl
  | cons a vals ih => simp only [List.map_cons, List.foldr_cons, ih, hf]

/-- the relationship skeleton from the decoded `data` member equals the one read off the tree -/
theorem relRaw_data (j : Json)
    (hs : ∀ d, j.get? K.data = some d → dataShape d = true ∧ strsAll utf8Valid d = true) :
    Jsonapi.relRawOf ((j.get? K.data).map toC) = Spec.relRawOf j := by
  cases hget : j.get? K.data with
  | none => simp only [Spec.relRawOf, hget, Option.map_none]; rfl
  | some d =>
    obtain ⟨hsd, hud⟩ := hs d hget
    cases d with
    | null => simp only [Spec.relRawOf, hget, Option.map_some]; rfl
    | arr l =>
      simp only [dataShape] at hsd
      simp only [strsAll] at hud
      obtain ⟨h1, h2⟩ := identItems_toC l hsd ((strsAllList_iff _ _).1 hud)
      simp only [Spec.relRawOf, hget, Option.map_some, h2]
      rw [foldr_all_some _ (fun a rest => rfl)]
      simp only [Jsonapi.relRawOf, toC, decodeIdent, decodeIdents, h1]
    | obj ms =>
      have hs' : identShape (.obj ms) = true := by simpa [dataShape] using hsd
      obtain ⟨i, t, e⟩ := identShape_eq _ hs'
      rw [e] at hud hget ⊢
      obtain ⟨hi, ht⟩ := strs_ident i t hud
      have h1 := decodeIdent_toC i t hi ht
      simp only [Spec.relRawOf, hget, identifierJson, Option.map_some]
      simp only [identifierJson] at h1
      simp only [Jsonapi.relRawOf, h1]
      have := RtL.identOf_identifierJson i t
      simp only [identifierJson] at this
      simp only [this, toC, decodeIdents]
    | bool b => simp [dataShape, identShape] at hsd
    | num l => simp [dataShape, identShape] at hsd
    | str s => simp [dataShape, identShape] at hsd

/-! #### relationship objects -/

theorem isObjOrNull_toC (v : Json) (h : v.isObjOrNull = true) : Jsonapi.isObjOrNull (toC v) = true := by
  cases v <;> simp_all [Json.isObjOrNull, toC, Jsonapi.isObjOrNull]

/-- the last `data` member wins -/
def pickData (acc : Option CJson) (p : GoString × Json) : Option CJson :=
  if p.1 = K.data then some (toC p.2) else acc

def relMemberOk (p : GoString × Json) : Bool :=
  (p.1 = K.data && dataShape p.2) || (p.1 = K.links && p.2.isObjOrNull) ||
    (p.1 = K.kmeta && p.2.isObjOrNull)

theorem relMembers_toC (ms : List (GoString × Json)) (acc : Option CJson)
    (h : ∀ p ∈ ms, utf8Valid p.1 = true ∧ relMemberOk p = true) :
    relMembers acc (toCMembers ms) = some (ms.foldl pickData acc) := by
  induction ms generalizing acc with
  | nil => rfl
  | cons p ms ih =>
    obtain ⟨k, v⟩ := p
    obtain ⟨hk, hok⟩ := h (k, v) (by simp)
    have ih' := fun acc => ih acc (fun q hq => h q (by simp [hq]))
    simp only [toCMembers, relMembers, unq_key k hk, List.foldl_cons]
    simp only [relMemberOk, Bool.or_eq_true, Bool.and_eq_true, decide_eq_true_eq] at hok
    rcases hok with (⟨rfl, _⟩ | ⟨rfl, hv⟩) | ⟨rfl, hv⟩
    · have f : fieldIdx relFields K.data = some 0 := by decide
      simp only [f, ih', pickData, if_true]
    · have f : fieldIdx relFields K.links = some 1 := by decide
      have ne : ¬ K.links = K.data := by decide
      simp only [f, isObjOrNull_toC v hv, if_true, ih', pickData, ne, if_false]
    · have f : fieldIdx relFields K.kmeta = some 2 := by decide
      have ne : ¬ K.kmeta = K.data := by decide
      simp only [f, isObjOrNull_toC v hv, if_true, ih', pickData, ne, if_false]

theorem get?_cons (k' : GoString) (v : Json) (ms : List (GoString × Json)) (k : GoString) :
    (Json.obj ((k', v) :: ms)).get? k = if k' = k then some v else (Json.obj ms).get? k := by
  by_cases h : k' = k <;> simp [Json.get?, h]

theorem foldl_pick (ms : List (GoString × Json)) (acc : Option CJson)
    (hnd : (ms.map (·.1)).Nodup) :
    ms.foldl pickData acc = (((Json.obj ms).get? K.data).map toC).or acc := by
  induction ms generalizing acc with
  | nil => rfl
  | cons p ms ih =>
    obtain ⟨k, v⟩ := p
    simp only [List.map_cons, List.nodup_cons] at hnd
    rw [List.foldl_cons, ih _ hnd.2, get?_cons]
    by_cases hk : k = K.data
    · subst hk
      rw [get?_none_of_not_mem ms K.data hnd.1]
      simp [pickData]
    · simp [pickData, hk]

theorem mem_of_get? {ms : List (GoString × Json)} {k : GoString} {v : Json}
    (h : (Json.obj ms).get? k = some v) : (k, v) ∈ ms := by
  simp only [Json.get?, Option.map_eq_some_iff] at h
  obtain ⟨p, hp, rfl⟩ := h
  obtain ⟨h1, h2⟩ := MarshalL.mem_of_find?_key hp
  rw [← h2]; exact h1

theorem decodeRel_toC (j : Json) (hs : relObjShape j = true) (hu : strsAll utf8Valid j = true) :
    decodeRel (toC j) = some (Spec.relRawOf j) := by
  cases j with
  | obj ms =>
    simp only [relObjShape, Bool.and_eq_true, decide_eq_true_eq, List.all_eq_true] at hs
    obtain ⟨hnd, hall⟩ := hs
    simp only [strsAll] at hu
    have hu' := (strsAllMembers_iff _ _).1 hu
    have hall' : ∀ p ∈ ms, relMemberOk p = true := fun p hp => by
      have := hall p hp
      simpa [relMemberOk] using this
    have h1 := relMembers_toC ms none (fun p hp => ⟨(hu' p hp).1, hall' p hp⟩)
    simp only [toC, decodeRel, h1, Option.map_some, foldl_pick ms none hnd, Option.or_none]
    rw [relRaw_data]
    intro d hd
    have hm := mem_of_get? hd
    have hok := hall' _ hm
    simp only [relMemberOk, Bool.or_eq_true, Bool.and_eq_true, decide_eq_true_eq] at hok
    have n1 : ¬ K.data = K.links := by decide
    have n2 : ¬ K.data = K.kmeta := by decide
    rcases hok with (⟨_, hds⟩ | ⟨e, _⟩) | ⟨e, _⟩
    · exact ⟨hds, (hu' _ hm).2⟩
    · exact absurd e n1
    · exact absurd e n2
  | null => simp [relObjShape] at hs
  | bool b => simp [relObjShape] at hs
  | num l => simp [relObjShape] at hs
  | str s => simp [relObjShape] at hs
  | arr l => simp [relObjShape] at hs

theorem relsInto_toC (rs : List (GoString × Json)) (cur : GoMap RelRaw)
    (h : ∀ p ∈ rs, utf8Valid p.1 = true ∧ relObjShape p.2 = true ∧ strsAll utf8Valid p.2 = true) :
    relsInto cur (toCMembers rs) =
      some (rs.foldl (fun m p => GoMap.set m p.1 (Spec.relRawOf p.2)) cur) := by
  induction rs generalizing cur with
  | nil => rfl
  | cons p rs ih =>
    obtain ⟨k, v⟩ := p
    obtain ⟨hk, hs, hu⟩ := h (k, v) (by simp)
    simp only [toCMembers, relsInto, decodeRel_toC v hs hu, unq_key k hk, List.foldl_cons]
    exact ih _ (fun q hq => h q (by simp [hq]))

/-! #### attribute values -/

theorem numOk_facts (lit : GoString) (h : numOk lit = true) :
    lit ≠ sNull ∧ lit.head? ≠ some 34 := by
  have ha := numOk_all lit h
  constructor
  · intro e
    rw [e] at ha
    exact absurd ha (by decide)
  · intro e
    cases lit with
    | nil => cases e
    | cons c t =>
      simp only [List.head?_cons, Option.some.injEq] at e
      subst e
      simp only [List.all_cons, Bool.and_eq_true] at ha
      exact absurd ha.1 (by decide)

theorem rawVal_abstr (D : Delegated) (TimeOk : Time → Prop) (hD : DelegatedOk D TimeOk) (v : Json)
    (hsc : v.isScalar = true) (hn : v.numsOk = true) (hu : strsAll utf8Valid v = true) :
    (rawValOf D (toC v)).abstr = Spec.rawOf (codecsOf D TimeOk hD) v := by
  cases v with
  | null => simp [rawValOf, toC, CJson.raw, RawVal.abstr, Spec.rawOf]
  | bool b =>
    cases b
    · have h1 : ¬ sFalse = sNull := by decide
      have h2 := hD.time_nonstr sFalse (by decide) (by decide)
      simp only [rawValOf, toC, CJson.raw, RawVal.abstr, Spec.rawOf, Bool.false_eq_true, if_false,
        h1, h2]
      rfl
    · have h1 : ¬ sTrue = sNull := by decide
      have h2 := hD.time_nonstr sTrue (by decide) (by decide)
      simp only [rawValOf, toC, CJson.raw, RawVal.abstr, Spec.rawOf, if_true, if_false, h1, h2]
      rfl
  | num lit =>
    simp only [Json.numsOk] at hn
    obtain ⟨h1, h2⟩ := numOk_facts lit hn
    have h3 := hD.time_nonstr lit h2 h1
    simp only [rawValOf, toC, CJson.raw, RawVal.abstr, Spec.rawOf, h1, if_false, h3]
    split
    · rename_i e; cases e
    · rfl
  | str s =>
    simp only [strsAll] at hu
    have h1 : ¬ (34 :: (renderStrBody s ++ [34]) : GoString) = sNull := by
      intro e; simp [sNull] at e
    simp only [rawValOf, toC, CJson.raw, RawVal.abstr, Spec.rawOf, h1, if_false, unq_key s hu,
      List.head?_cons, codecsOf, renderStr]
  | arr l => cases hsc
  | obj ms => cases hsc

/-! #### the resource object -/

def attrsOk : Json → Bool
  | .obj as => decide ((as.map (·.1)).Nodup) && as.all (fun q => q.2.isScalar)
  | _ => false

def relsOk : Json → Bool
  | .obj rs => decide ((rs.map (·.1)).Nodup) && rs.all (fun q => relObjShape q.2)
  | _ => false

def topMemberOk (p : GoString × Json) : Bool :=
  (p.1 = K.id && p.2.isStr) || (p.1 = K.type && p.2.isStr) || p.1 = K.links ||
    (p.1 = K.attributes && attrsOk p.2) || (p.1 = K.relationships && relsOk p.2)

theorem shape_unfold (ms : List (GoString × Json)) :
    ResTreeShape (.obj ms) = (decide ((ms.map (·.1)).Nodup) && ms.all topMemberOk) := by
  rfl

/-- one member of the resource object into the skeleton, on the tree -/
def stepRes (D : Delegated) (acc : ResSke) (p : GoString × Json) : ResSke :=
  if p.1 = K.id then { acc with id := strOf (some p.2) }
  else if p.1 = K.type then { acc with typ := strOf (some p.2) }
  else if p.1 = K.attributes then
    { acc with
      attrs := ((membersOf (some p.2)).foldl (fun m q => GoMap.set m q.1 (rawValOf D (toC q.2))) acc.attrs) }
  else if p.1 = K.relationships then
    { acc with
      rels := ((membersOf (some p.2)).foldl (fun m q => GoMap.set m q.1 (Spec.relRawOf q.2)) acc.rels) }
  else acc

theorem resMembers_toC (D : Delegated) (ms : List (GoString × Json)) (acc : ResSke)
    (h : ∀ p ∈ ms, utf8Valid p.1 = true ∧ topMemberOk p = true ∧ strsAll utf8Valid p.2 = true) :
    resMembers D acc (toCMembers ms) = some (ms.foldl (stepRes D) acc) := by
  induction ms generalizing acc with
  | nil => rfl
  | cons p ms ih =>
    obtain ⟨k, v⟩ := p
    obtain ⟨hk, hok, hu⟩ := h (k, v) (by simp)
    have ih' := fun acc => ih acc (fun q hq => h q (by simp [hq]))
    simp only [toCMembers, resMembers, unq_key k hk, List.foldl_cons]
    simp only [topMemberOk, Bool.or_eq_true, Bool.and_eq_true, decide_eq_true_eq] at hok
    rcases hok with (((⟨rfl, hv⟩ | ⟨rfl, hv⟩) | rfl) | ⟨rfl, hv⟩) | ⟨rfl, hv⟩
    · have f : fieldIdx resFields K.id = some 0 := by decide
      cases v with
      | str s =>
        simp only [strsAll] at hu
        simp only [f, toC, setStrC, unq_key s hu, ih', stepRes, if_true, strOf]
      | _ => cases hv
    · have f : fieldIdx resFields K.type = some 1 := by decide
      have n1 : ¬ K.type = K.id := by decide
      cases v with
      | str s =>
        simp only [strsAll] at hu
        simp only [f, toC, setStrC, unq_key s hu, ih', stepRes, n1, if_false, if_true, strOf]
      | _ => cases hv
    · have f : fieldIdx resFields K.links = none := by decide
      have n1 : ¬ K.links = K.id := by decide
      have n2 : ¬ K.links = K.type := by decide
      have n3 : ¬ K.links = K.attributes := by decide
      have n4 : ¬ K.links = K.relationships := by decide
      simp only [f, ih', stepRes, n1, n2, n3, n4, if_false]
    · have f : fieldIdx resFields K.attributes = some 2 := by decide
      have n1 : ¬ K.attributes = K.id := by decide
      have n2 : ¬ K.attributes = K.type := by decide
      cases v with
      | obj as =>
        simp only [strsAll] at hu
        have hu' := (strsAllMembers_iff _ _).1 hu
        simp only [f, toC, attrsInto_toC D as acc.attrs (fun q hq => (hu' q hq).1), ih', stepRes,
          n1, n2, if_false, if_true, membersOf]
      | _ => cases hv
    · have f : fieldIdx resFields K.relationships = some 3 := by decide
      have n1 : ¬ K.relationships = K.id := by decide
      have n2 : ¬ K.relationships = K.type := by decide
      have n3 : ¬ K.relationships = K.attributes := by decide
      cases v with
      | obj rs =>
        simp only [strsAll] at hu
        have hu' := (strsAllMembers_iff _ _).1 hu
        simp only [relsOk, Bool.and_eq_true, decide_eq_true_eq, List.all_eq_true] at hv
        have hr := relsInto_toC rs acc.rels (fun q hq => ⟨(hu' q hq).1, hv.2 q hq, (hu' q hq).2⟩)
        simp only [f, toC, hr, ih', stepRes, n1, n2, n3, if_false, if_true, membersOf]
      | _ => cases hv

/-- the skeleton the struct decoder builds, read off the tree by member lookup -/
def skelD (D : Delegated) (o : Json) : ResSke :=
  { id := strOf (o.get? K.id), typ := strOf (o.get? K.type),
    attrs := (membersOf (o.get? K.attributes)).map (fun q => (q.1, rawValOf D (toC q.2))),
    rels := (membersOf (o.get? K.relationships)).map (fun q => (q.1, Spec.relRawOf q.2)),
    smeta := [] }

theorem keys_distinct :
    K.id ≠ K.type ∧ K.id ≠ K.attributes ∧ K.id ≠ K.relationships ∧ K.id ≠ K.links ∧
    K.type ≠ K.id ∧ K.type ≠ K.attributes ∧ K.type ≠ K.relationships ∧ K.type ≠ K.links ∧
    K.attributes ≠ K.id ∧ K.attributes ≠ K.type ∧ K.attributes ≠ K.relationships ∧
    K.attributes ≠ K.links ∧
    K.relationships ≠ K.id ∧ K.relationships ≠ K.type ∧ K.relationships ≠ K.attributes ∧
    K.relationships ≠ K.links ∧
    K.links ≠ K.id ∧ K.links ≠ K.type ∧ K.links ≠ K.attributes ∧ K.links ≠ K.relationships := by
  decide

theorem fold_stepRes (D : Delegated) (ms : List (GoString × Json))
    (hnd : ((ms.reverse).map (·.1)).Nodup) (hok : ∀ p ∈ ms, topMemberOk p = true) :
    ms.reverse.foldl (stepRes D) ResSke.zero = skelD D (.obj ms.reverse) := by
  induction ms with
  | nil => rfl
  | cons p ms ih =>
    obtain ⟨k, v⟩ := p
    rw [List.reverse_cons] at hnd ⊢
    rw [List.map_append, List.nodup_append] at hnd
    obtain ⟨hnd1, _, hdis⟩ := hnd
    have hp : k ∉ ms.reverse.map (·.1) := fun hm => hdis _ hm k (by simp) rfl
    rw [List.foldl_append, ih hnd1 (fun q hq => hok q (by simp [hq]))]
    have hokp := hok (k, v) (by simp)
    simp only [List.foldl_cons, List.foldl_nil]
    simp only [topMemberOk, Bool.or_eq_true, Bool.and_eq_true, decide_eq_true_eq] at hokp
    obtain ⟨a1, a2, a3, a4, b1, b2, b3, b4, c1, c2, c3, c4, e1, e2, e3, e4, l1, l2, l3, l4⟩ :=
      keys_distinct
    rcases hokp with (((⟨rfl, hv⟩ | ⟨rfl, hv⟩) | rfl) | ⟨rfl, hv⟩) | ⟨rfl, hv⟩
    · simp only [stepRes, skelD, if_true]
      rw [get?_snoc_eq _ _ v hp, get?_snoc_ne _ _ v K.type a1, get?_snoc_ne _ _ v K.attributes a2,
        get?_snoc_ne _ _ v K.relationships a3]
    · simp only [stepRes, skelD, if_true, b1, if_false]
      rw [get?_snoc_eq _ _ v hp, get?_snoc_ne _ _ v K.id b1, get?_snoc_ne _ _ v K.attributes b2,
        get?_snoc_ne _ _ v K.relationships b3]
    · simp only [stepRes, skelD, l1, l2, l3, l4, if_false]
      rw [get?_snoc_ne _ _ v K.id l1, get?_snoc_ne _ _ v K.type l2,
        get?_snoc_ne _ _ v K.attributes l3, get?_snoc_ne _ _ v K.relationships l4]
    · have hnone : (Json.obj ms.reverse).get? K.attributes = none := get?_none_of_not_mem _ _ hp
      cases v with
      | obj as =>
        simp only [attrsOk, Bool.and_eq_true, decide_eq_true_eq] at hv
        simp only [stepRes, skelD, if_true, c1, c2, if_false, hnone]
        rw [get?_snoc_eq _ _ _ hp, get?_snoc_ne _ _ _ K.id c1, get?_snoc_ne _ _ _ K.type c2,
          get?_snoc_ne _ _ _ K.relationships c3]
        simp only [membersOf, List.map_nil]
        rw [foldl_set_nodup (fun j => rawValOf D (toC j)) as [] hv.1 (fun k hk => by cases hk)]
        rfl
      | _ => cases hv
    · have hnone : (Json.obj ms.reverse).get? K.relationships = none := get?_none_of_not_mem _ _ hp
      cases v with
      | obj rs =>
        simp only [relsOk, Bool.and_eq_true, decide_eq_true_eq] at hv
        simp only [stepRes, skelD, if_true, e1, e2, e3, if_false, hnone]
        rw [get?_snoc_eq _ _ _ hp, get?_snoc_ne _ _ _ K.id e1, get?_snoc_ne _ _ _ K.type e2,
          get?_snoc_ne _ _ _ K.attributes e3]
        simp only [membersOf, List.map_nil]
        rw [foldl_set_nodup Spec.relRawOf rs [] hv.1 (fun k hk => by cases hk)]
        rfl
      | _ => cases hv

theorem topMemberOk_key (p : GoString × Json) (h : topMemberOk p = true) :
    p.1 = K.id ∨ p.1 = K.type ∨ p.1 = K.links ∨ p.1 = K.attributes ∨ p.1 = K.relationships := by
  simp only [topMemberOk, Bool.or_eq_true, Bool.and_eq_true, decide_eq_true_eq] at h
  rcases h with (((⟨e, _⟩ | ⟨e, _⟩) | e) | ⟨e, _⟩) | ⟨e, _⟩ <;> simp [e]

/-- The struct decoder on the concrete syntax of a rendered resource object. -/
theorem decodeRes_toC (D : Delegated) (TimeOk : Time → Prop) (hD : DelegatedOk D TimeOk) (t : Json)
    (hs : ResTreeShape t = true) (hn : t.numsOk = true) (hu : strsAll utf8Valid t = true) :
    ∃ sk, decodeRes D (toC t) = some sk ∧
      sk.abstr = Spec.skeletonOf (codecsOf D TimeOk hD) t := by
  cases t with
  | obj ms =>
    rw [shape_unfold] at hs
    simp only [Bool.and_eq_true, decide_eq_true_eq, List.all_eq_true] at hs
    obtain ⟨hnd, hok⟩ := hs
    simp only [strsAll] at hu
    have hu' := (strsAllMembers_iff _ _).1 hu
    simp only [Json.numsOk] at hn
    have hn' := (numsOkMembers_iff _).1 hn
    have h1 := resMembers_toC D ms ResSke.zero
      (fun p hp => ⟨(hu' p hp).1, hok p hp, (hu' p hp).2⟩)
    have h2 := fold_stepRes D ms.reverse (by rw [List.reverse_reverse]; exact hnd)
      (fun p hp => hok p (List.mem_reverse.1 hp))
    rw [List.reverse_reverse] at h2
    refine ⟨skelD D (.obj ms), by simp only [toC, decodeRes, h1, h2], ?_⟩
    -- field by field
    have hmeta : (Json.obj ms).get? K.kmeta = none := by
      cases hg : (Json.obj ms).get? K.kmeta with
      | none => rfl
      | some v =>
        have hk : K.kmeta = K.id ∨ K.kmeta = K.type ∨ K.kmeta = K.links ∨ K.kmeta = K.attributes ∨
            K.kmeta = K.relationships := topMemberOk_key _ (hok _ (mem_of_get? hg))
        exact absurd hk (by decide)
    have hattrs : (membersOf ((Json.obj ms).get? K.attributes)).map
        (fun q => (q.1, (rawValOf D (toC q.2)).abstr)) =
        (membersOf ((Json.obj ms).get? K.attributes)).map
          (fun q => (q.1, Spec.rawOf (codecsOf D TimeOk hD) q.2)) := by
      cases hg : (Json.obj ms).get? K.attributes with
      | none => rfl
      | some v =>
        have hm := mem_of_get? hg
        have hk := hok _ hm
        obtain ⟨_, _, _, _, _, _, _, _, c1, c2, c3, c4, _⟩ := keys_distinct
        simp only [topMemberOk, c1, c2, c3, c4, decide_false, Bool.false_and, Bool.false_or,
          Bool.or_false, Bool.and_eq_true, decide_eq_true_eq, true_and] at hk
        cases v with
        | obj as =>
          simp only [attrsOk, Bool.and_eq_true, decide_eq_true_eq, List.all_eq_true] at hk
          have hua := (hu' _ hm).2
          simp only [strsAll] at hua
          have hua' := (strsAllMembers_iff _ _).1 hua
          have hna := hn' _ hm
          simp only [Json.numsOk] at hna
          have hna' := (numsOkMembers_iff _).1 hna
          simp only [membersOf]
          apply List.map_congr_left
          intro q hq
          rw [rawVal_abstr D TimeOk hD q.2 (hk.2 q hq) (hna' q hq) (hua' q hq).2]
        | _ => rfl
    simp only [ResSke.abstr, skelD, Spec.skeletonOf, hmeta, List.map_map, membersOf]
    congr 1
  | null => cases hs
  | bool b => cases hs
  | num l => cases hs
  | str s => cases hs
  | arr l => cases hs

/-! ### 5. every marshaled resource object has the shape -/

theorem encodeAttr_scalar (v : GoVal) (h : ∀ l, v ≠ .strs l) : (encodeAttr v).isScalar = true := by
  cases v with
  | val k p =>
    cases p with
    | bs o => cases o <;> rfl
    | _ => rfl
  | ptr k o =>
    cases o with
    | none => rfl
    | some p =>
      cases p with
      | bs o => cases o <;> rfl
      | _ => rfl
  | strs l => exact absurd rfl (h l)
  | nil => rfl
  | other t => rfl

theorem encodeAttr_depth (v : GoVal) : depth (encodeAttr v) ≤ 1 := by
  cases v with
  | val k p =>
    cases p with
    | bs o => cases o <;> simp [encodeAttr, encodeVal, encodePay, depth]
    | _ => simp [encodeAttr, encodeVal, encodePay, depth]
  | ptr k o =>
    cases o with
    | none => simp [encodeAttr, encodeVal, depth]
    | some p =>
      cases p with
      | bs o => cases o <;> simp [encodeAttr, encodeVal, encodePay, depth]
      | _ => simp [encodeAttr, encodeVal, encodePay, depth]
  | strs l =>
    simp only [encodeAttr, encodeVal, depth]
    have : depthList (l.map Json.str) ≤ 0 := by
      rw [depthList_le]; intro v hv
      simp only [List.mem_map] at hv
      obtain ⟨s, -, rfl⟩ := hv
      simp [depth]
    omega
  | nil => simp [encodeAttr, encodeVal, depth]
  | other t => simp [encodeAttr, encodeVal, depth]

theorem identifierJson_shape (i t : GoString) : identShape (identifierJson i t) = true := by
  simp [identifierJson, identShape]

theorem relDataJson_shape (r : ResView) (rel : Rel) : dataShape (Spec.relDataJson r rel) = true := by
  unfold Spec.relDataJson
  split
  · split
    · split
      · rfl
      · simp [dataShape, identifierJson, identShape]
    · rfl
  · split
    · simp only [dataShape, List.all_map, List.all_eq_true]
      intro x _
      exact identifierJson_shape _ _
    · rfl

theorem identifiers_depth (ids : List GoString) (t : GoString) :
    depthList (ids.map (fun id => identifierJson id t)) ≤ 1 := by
  rw [depthList_le]; intro v hv
  simp only [List.mem_map] at hv
  obtain ⟨s, -, rfl⟩ := hv
  simp [identifierJson, depth, depthMembers]

theorem relDataJson_depth (r : ResView) (rel : Rel) : depth (Spec.relDataJson r rel) ≤ 2 := by
  unfold Spec.relDataJson
  split
  · split
    · split
      · simp [depth]
      · simp [identifierJson, depth, depthMembers]
    · simp [depth]
  · split
    · simp only [depth]
      have := identifiers_depth (Typ.sortStrings ‹List GoString›) rel.toType
      omega
    · simp [depth, depthList]

theorem relObject_shape (r : ResView) (prepath : GoString) (rel : Rel) (w : Bool) :
    relObjShape (Spec.relObject r prepath rel w) = true := by
  have n1 : ¬ K.links = K.data := by decide
  have n2 : ¬ K.data = K.links := by decide
  cases w
  · simp [Spec.relObject, relObjShape, buildRelationshipLinks, Json.isObjOrNull, n1]
  · simp [Spec.relObject, relObjShape, buildRelationshipLinks, Json.isObjOrNull, n1, n2,
      relDataJson_shape]

theorem relObject_depth (r : ResView) (prepath : GoString) (rel : Rel) (w : Bool) :
    depth (Spec.relObject r prepath rel w) ≤ 3 := by
  have h := relDataJson_depth r rel
  cases w
  · simp [Spec.relObject, buildRelationshipLinks, depth, depthMembers]
  · simp only [Spec.relObject, buildRelationshipLinks, depth, depthMembers, if_true,
      List.cons_append, List.nil_append]
    omega

open MarshalL in
/-- `Spec.resourceObject` (resource-level meta empty) has the shape, on C04's domain. -/
theorem resourceObject_shape {r : ResView} (hr : r.keyedWf) (prepath : GoString)
    (fields : List GoString) (relData : GoMap (List GoString)) :
    ResTreeShape (Spec.resourceObject r prepath fields relData) = true := by
  rw [resourceObject_eq, shape_unfold]
  simp only [Bool.and_eq_true, decide_eq_true_eq]
  refine ⟨RtL.keys_sorted_nodup (topMembers_nodup ..), ?_⟩
  rw [(sortMembers_perm _).all_eq, List.all_eq_true]
  intro p hp
  simp only [topMembers, List.isEmpty_nil, if_true, List.append_nil, List.mem_append, List.mem_cons,
    List.not_mem_nil, or_false] at hp
  rcases hp with ((rfl | rfl | rfl) | hp) | hp
  · simp [topMemberOk, Json.isStr]
  · simp [topMemberOk, Json.isStr]
  · simp [topMemberOk]
  · split at hp
    · cases hp
    · simp only [List.mem_cons, List.not_mem_nil, or_false] at hp
      subst hp
      have hnd := RtL.keys_sorted_nodup (attrMembers_keys_nodup hr fields)
      have hall : (sortMembers (attrMembers r fields)).all (fun q => q.2.isScalar) = true := by
        rw [(sortMembers_perm _).all_eq, List.all_eq_true]
        intro q hq
        obtain ⟨a, ha, -, -, hj⟩ := RtL.mem_attrMembers (k := q.1) (j := q.2) hq
        rw [hj]
        apply encodeAttr_scalar
        intro l hl
        simp only [GoMap.vals, List.mem_map] at ha
        obtain ⟨pa, hpa, rfl⟩ := ha
        obtain ⟨_, hname, _, k, _, hty⟩ := RtL.wf_attr hr hpa
        rw [← hname] at hl
        rcases hty with hty | ⟨_, hty⟩
        · rw [hl] at hty; cases hty
        · rw [hl] at hty; cases hty
      simp [topMemberOk, attrsOk, hnd, hall]
  · split at hp
    · cases hp
    · simp only [List.mem_cons, List.not_mem_nil, or_false] at hp
      subst hp
      have hnd := RtL.keys_sorted_nodup
        (relMembers_keys_nodup hr prepath fields (wantOf r relData))
      have hall : (sortMembers (MarshalL.relMembers r prepath fields (wantOf r relData) r.rels)).all
          (fun q => relObjShape q.2) = true := by
        rw [(sortMembers_perm _).all_eq, List.all_eq_true]
        intro q hq
        obtain ⟨rel, -, -, -, hj⟩ := RtL.mem_relMembers (k := q.1) (j := q.2) hq
        rw [hj]
        exact relObject_shape ..
      simp [topMemberOk, relsOk, hnd, hall]

open MarshalL in
theorem resourceObject_depth (r : ResView) (prepath : GoString)
    (fields : List GoString) (relData : GoMap (List GoString)) :
    depth (Spec.resourceObject r prepath fields relData) ≤ maxDepth := by
  rw [resourceObject_eq]
  simp only [depth]
  have : depthMembers (sortMembers (topMembers r prepath fields relData [])) ≤ 4 := by
    rw [depthMembers_le]
    intro p hp
    have hp := (sortMembers_perm _).mem_iff.1 hp
    simp only [topMembers, List.isEmpty_nil, if_true, List.append_nil, List.mem_append, List.mem_cons,
      List.not_mem_nil, or_false] at hp
    rcases hp with ((rfl | rfl | rfl) | hp) | hp
    · simp [depth]
    · simp [depth]
    · simp [depth, depthMembers]
    · split at hp
      · cases hp
      · simp only [List.mem_cons, List.not_mem_nil, or_false] at hp
        subst hp
        simp only [depth]
        have : depthMembers (sortMembers (attrMembers r fields)) ≤ 1 := by
          rw [depthMembers_le]
          intro q hq
          have hq := (sortMembers_perm _).mem_iff.1 hq
          obtain ⟨a, -, -, -, hj⟩ := RtL.mem_attrMembers (k := q.1) (j := q.2) hq
          rw [hj]; exact encodeAttr_depth _
        omega
    · split at hp
      · cases hp
      · simp only [List.mem_cons, List.not_mem_nil, or_false] at hp
        subst hp
        simp only [depth]
        have : depthMembers (sortMembers (MarshalL.relMembers r prepath fields (wantOf r relData) r.rels)) ≤ 3 := by
          rw [depthMembers_le]
          intro q hq
          have hq := (sortMembers_perm _).mem_iff.1 hq
          obtain ⟨rel, -, -, -, hj⟩ := RtL.mem_relMembers (k := q.1) (j := q.2) hq
          rw [hj]; exact relObject_depth ..
        omega
  simp only [maxDepth]
  omega

/-! ### 6. every string of a marshaled resource object is valid UTF-8 when the resource's are -/

end RtbL

/-- the strings a value carries are valid UTF-8 -/
def GoVal.utf8Ok : GoVal → Bool
  | .val _ (.s s) => utf8Valid s
  | .ptr _ (some (.s s)) => utf8Valid s
  | .strs l => l.all utf8Valid
  | _ => true

/-- The `validUtf8` hypothesis of C01 ("strings code point for code point", "every ID string
(valid UTF-8)"), decidable: the ID, the type name, the path prefix of the links, every
attribute name and string value, every relationship name, target type and ID. -/
def ResView.utf8Ok (r : ResView) (prepath : GoString) : Bool :=
  utf8Valid r.id && utf8Valid r.typeName && utf8Valid prepath &&
  r.attrs.all (fun p => utf8Valid p.2.name && (r.get p.2.name).utf8Ok) &&
  r.rels.all (fun p => utf8Valid p.2.fromName && utf8Valid p.2.toType && (r.get p.2.fromName).utf8Ok)

namespace RtbL
open Spec JsonL FullL GoMap

theorem utf8Valid_append (a b : GoString) (ha : utf8Valid a = true) (hb : utf8Valid b = true) :
    utf8Valid (a ++ b) = true := by
  fun_induction utf8Valid a with
  | case1 => exact hb
  | case2 b0 rest h0 ih =>
    rw [List.cons_append, utf8Valid.eq_def]; simp only [h0, if_true]; exact ih ha
  | case3 b0 h0 h1 c r ih =>
    obtain ⟨hc, hr⟩ := and_split ha
    rw [List.cons_append, List.cons_append, utf8Valid.eq_def]
    simp only [h0, if_false, h1, and_self, if_true, hc, ih hr, Bool.and_self]
  | case4 => cases ha
  | case5 b0 h0 h1 h2 c d r ih =>
    obtain ⟨hcd, hr⟩ := and_split ha
    rw [List.cons_append, List.cons_append, List.cons_append, utf8Valid.eq_def]
    simp only [h0, if_false, h1, h2, and_self, if_true, hcd, ih hr, Bool.and_self]
  | case6 => cases ha
  | case7 b0 h0 h1 h2 h3 c d e r ih =>
    obtain ⟨hcde, hr⟩ := and_split ha
    rw [List.cons_append, List.cons_append, List.cons_append, List.cons_append, utf8Valid.eq_def]
    simp only [h0, if_false, h1, h2, h3, and_self, if_true, hcde, ih hr, Bool.and_self]
  | case8 => cases ha
  | case9 => cases ha

theorem utf8Valid_ascii (s : GoString) (h : ∀ c ∈ s, c < 0x80) : utf8Valid s = true := by
  induction s with
  | nil => rfl
  | cons c s ih =>
    rw [utf8Valid.eq_def]
    simp only [h c (by simp), if_true]
    exact ih (fun x hx => h x (by simp [hx]))

theorem ascii_all (s : GoString) (h : s.all (fun c => decide (c < 0x80)) = true) :
    utf8Valid s = true :=
  utf8Valid_ascii s (by simpa using h)

theorem kv_id : utf8Valid K.id = true := ascii_all _ (by decide)
theorem kv_type : utf8Valid K.type = true := ascii_all _ (by decide)
theorem kv_links : utf8Valid K.links = true := ascii_all _ (by decide)
theorem kv_attributes : utf8Valid K.attributes = true := ascii_all _ (by decide)
theorem kv_relationships : utf8Valid K.relationships = true := ascii_all _ (by decide)
theorem kv_self : utf8Valid K.self = true := ascii_all _ (by decide)
theorem kv_related : utf8Valid K.related = true := ascii_all _ (by decide)
theorem kv_data : utf8Valid K.data = true := ascii_all _ (by decide)
theorem kv_slash : utf8Valid K.slash = true := ascii_all _ (by decide)
theorem kv_slashRel : utf8Valid K.slashRelationships = true := ascii_all _ (by decide)

theorem isDigit_lt (c : UInt8) (h : isDigit c = true) : c < 0x80 := by
  simp only [isDigit, Bool.and_eq_true, decide_eq_true_eq] at h
  have := UInt8.le_iff_toNat_le.mp h.2
  rw [UInt8.lt_iff_toNat_lt]
  have e1 : (57 : UInt8).toNat = 57 := rfl
  have e2 : (0x80 : UInt8).toNat = 128 := rfl
  omega

theorem printNat_ascii (n : Nat) : ∀ c ∈ printNat n, c < 0x80 := fun c hc =>
  isDigit_lt c (List.all_eq_true.1 (RtL.printNat_all_digit n) c hc)

theorem pad_ascii (w n : Nat) : ∀ c ∈ pad w n, c < 0x80 := by
  intro c hc
  simp only [pad, List.mem_append, List.mem_replicate] at hc
  rcases hc with ⟨_, rfl⟩ | hc
  · decide
  · exact printNat_ascii n c hc

theorem fracText_ascii (n : Nat) : ∀ c ∈ fracText n, c < 0x80 := by
  intro c hc
  unfold fracText at hc
  split at hc
  · cases hc
  · simp only [List.mem_cons, List.mem_reverse] at hc
    rcases hc with rfl | hc
    · decide
    · have := (List.dropWhile_sublist _).subset hc
      exact pad_ascii 9 n c (List.mem_reverse.1 this)

theorem zoneText_ascii (off : Int) : ∀ c ∈ zoneText off, c < 0x80 := by
  intro c hc
  unfold zoneText at hc
  split at hc
  · simp only [List.mem_singleton] at hc; subst hc; decide
  · simp only [List.mem_cons, List.mem_append, List.not_mem_nil, or_false] at hc
    rcases hc with rfl | (hc | rfl) | hc
    · split <;> decide
    · exact pad_ascii _ _ c hc
    · decide
    · exact pad_ascii _ _ c hc

theorem formatTime_ascii (t : Time) : ∀ c ∈ formatTime t, c < 0x80 := by
  intro c hc
  simp only [formatTime, List.mem_append, List.mem_singleton] at hc
  rcases hc with (((((((((((((hc | rfl) | hc) | rfl) | hc) | rfl) | hc) | rfl) | hc) | rfl) | hc) | hc) | hc)) <;>
    first
    | exact pad_ascii _ _ c hc
    | exact fracText_ascii _ c hc
    | exact zoneText_ascii _ c hc
    | decide

theorem b64Char_ascii (n : Nat) : b64Char n < 0x80 := by
  by_cases h : n < 64
  · revert n; decide
  · have h1 : ¬ n < 26 := by omega
    have h2 : ¬ n < 52 := by omega
    have h3 : ¬ n < 62 := by omega
    have h4 : ¬ n = 62 := by omega
    simp only [b64Char, h1, h2, h3, h4, if_false]
    decide

theorem b64enc_ascii (l : List UInt8) : ∀ c ∈ b64enc l, c < 0x80 := by
  fun_induction b64enc l with
  | case1 => intro c h; cases h
  | case2 a n =>
    intro c h
    simp only [List.mem_cons, List.not_mem_nil, or_false] at h
    rcases h with rfl | rfl | rfl | rfl <;> first | exact b64Char_ascii _ | decide
  | case3 a b n =>
    intro c h
    simp only [List.mem_cons, List.not_mem_nil, or_false] at h
    rcases h with rfl | rfl | rfl | rfl <;> first | exact b64Char_ascii _ | decide
  | case4 a b c rest n ih =>
    intro x h
    simp only [List.mem_cons] at h
    rcases h with rfl | rfl | rfl | rfl | h
    · exact b64Char_ascii _
    · exact b64Char_ascii _
    · exact b64Char_ascii _
    · exact b64Char_ascii _
    · exact ih x h

theorem encodePay_strs (p : Pay) (h : ∀ s, p = .s s → utf8Valid s = true) :
    strsAll utf8Valid (encodePay p) = true := by
  cases p with
  | s v => exact h v rfl
  | i v => rfl
  | b v => rfl
  | t v => exact utf8Valid_ascii _ (formatTime_ascii v)
  | bs o =>
    cases o with
    | none => rfl
    | some v => exact utf8Valid_ascii _ (b64enc_ascii v)

theorem encodeAttr_val (k : Kind) (p : Pay) :
    encodeAttr (.val k p) = (match p with
      | .bs none => .str []
      | p => encodePay p) := by
  cases p with
  | bs o => cases o <;> rfl
  | _ => rfl

theorem encodeAttr_ptr (k : Kind) (p : Pay) :
    encodeAttr (.ptr k (some p)) = (match p with
      | .bs none => .str []
      | p => encodePay p) := by
  cases p with
  | bs o => cases o <;> rfl
  | _ => rfl

theorem encodeAttr_strs (v : GoVal) (h : v.utf8Ok = true) :
    strsAll utf8Valid (encodeAttr v) = true := by
  cases v with
  | val k p =>
    rw [encodeAttr_val]
    split
    · rfl
    · apply encodePay_strs
      intro s e; subst e; exact h
  | ptr k o =>
    cases o with
    | none => rfl
    | some p =>
      rw [encodeAttr_ptr]
      split
      · rfl
      · apply encodePay_strs
        intro s e; subst e; exact h
  | strs l =>
    show strsAllList utf8Valid (l.map Json.str) = true
    rw [strsAllList_iff]
    intro j hj
    simp only [List.mem_map] at hj
    obtain ⟨s, hs, rfl⟩ := hj
    exact List.all_eq_true.1 h s hs
  | nil => rfl
  | other t => rfl

theorem selfLink_valid (r : ResView) (prepath : GoString) (h1 : utf8Valid r.id = true)
    (h2 : utf8Valid r.typeName = true) (h3 : utf8Valid prepath = true) :
    utf8Valid (buildSelfLink r prepath) = true := by
  have hs : utf8Valid K.slash = true := kv_slash
  have hl : utf8Valid (if prepath.getLast? = some 47 then prepath else prepath ++ K.slash) = true := by
    split
    · exact h3
    · exact utf8Valid_append _ _ h3 hs
  unfold buildSelfLink
  simp only []
  split
  · exact utf8Valid_append _ _ (utf8Valid_append _ _ (utf8Valid_append _ _ hl h2) hs) h1
  · exact hl

theorem relLinks_strs (r : ResView) (prepath rel : GoString) (h1 : utf8Valid r.id = true)
    (h2 : utf8Valid r.typeName = true) (h3 : utf8Valid prepath = true) (h4 : utf8Valid rel = true) :
    strsAll utf8Valid (buildRelationshipLinks r prepath rel) = true := by
  have hl := selfLink_valid r prepath h1 h2 h3
  have k1 := kv_related
  have k2 := kv_self
  have k3 := kv_slash
  have k4 := kv_slashRel
  simp only [buildRelationshipLinks, strsAll, strsAllMembers, k1, k2, Bool.and_true,
    utf8Valid_append _ _ (utf8Valid_append _ _ hl k3) h4,
    utf8Valid_append _ _ (utf8Valid_append _ _ hl k4) h4]

theorem identifierJson_strs (i t : GoString) (hi : utf8Valid i = true) (ht : utf8Valid t = true) :
    strsAll utf8Valid (identifierJson i t) = true := by
  have k1 := kv_id
  have k2 := kv_type
  simp only [identifierJson, strsAll, strsAllMembers, k1, k2, hi, ht, Bool.and_self]

theorem relDataJson_strs (r : ResView) (rel : Rel) (ht : utf8Valid rel.toType = true)
    (hv : (r.get rel.fromName).utf8Ok = true) :
    strsAll utf8Valid (Spec.relDataJson r rel) = true := by
  unfold Spec.relDataJson
  split
  · split
    · rename_i id heq
      rw [heq] at hv
      split
      · rfl
      · exact identifierJson_strs _ _ hv ht
    · rfl
  · split
    · rename_i ids heq
      rw [heq] at hv
      simp only [strsAll]
      rw [strsAllList_iff]
      intro j hj
      simp only [List.mem_map] at hj
      obtain ⟨s, hs, rfl⟩ := hj
      have hs' := (MarshalL.sortStrings_perm ids).mem_iff.1 hs
      exact identifierJson_strs _ _ (List.all_eq_true.1 hv s hs') ht
    · rfl

theorem relObject_strs (r : ResView) (prepath : GoString) (rel : Rel) (w : Bool)
    (h1 : utf8Valid r.id = true) (h2 : utf8Valid r.typeName = true) (h3 : utf8Valid prepath = true)
    (h4 : utf8Valid rel.fromName = true) (ht : utf8Valid rel.toType = true)
    (hv : (r.get rel.fromName).utf8Ok = true) :
    strsAll utf8Valid (Spec.relObject r prepath rel w) = true := by
  have k1 := kv_data
  have k2 := kv_links
  have hl := relLinks_strs r prepath rel.fromName h1 h2 h3 h4
  have hd := relDataJson_strs r rel ht hv
  cases w
  · simp only [Spec.relObject, Bool.false_eq_true, if_false, List.nil_append, strsAll,
      strsAllMembers, k2, hl, Bool.and_self]
  · simp only [Spec.relObject, if_true, List.cons_append, List.nil_append, strsAll,
      strsAllMembers, k1, k2, hl, hd, Bool.and_self]

open MarshalL in
/-- Every string (keys included) of `Spec.resourceObject` is valid UTF-8 when the resource's
strings are. -/
theorem resourceObject_strs (r : ResView) (prepath : GoString)
    (fields : List GoString) (relData : GoMap (List GoString)) (hu : r.utf8Ok prepath = true) :
    strsAll utf8Valid (Spec.resourceObject r prepath fields relData) = true := by
  simp only [ResView.utf8Ok, Bool.and_eq_true, List.all_eq_true] at hu
  obtain ⟨⟨⟨⟨h1, h2⟩, h3⟩, hA⟩, hR⟩ := hu
  rw [resourceObject_eq]
  simp only [strsAll]
  rw [strsAllMembers_iff]
  intro p hp
  have hp := (sortMembers_perm _).mem_iff.1 hp
  simp only [topMembers, List.isEmpty_nil, if_true, List.append_nil, List.mem_append, List.mem_cons,
    List.not_mem_nil, or_false] at hp
  rcases hp with ((rfl | rfl | rfl) | hp) | hp
  · exact ⟨kv_id, h1⟩
  · exact ⟨kv_type, h2⟩
  · refine ⟨kv_links, ?_⟩
    have k := kv_self
    simp only [strsAll, strsAllMembers, k, selfLink_valid r prepath h1 h2 h3, Bool.and_self]
  · split at hp
    · cases hp
    · simp only [List.mem_cons, List.not_mem_nil, or_false] at hp
      subst hp
      refine ⟨kv_attributes, ?_⟩
      simp only [strsAll]
      rw [strsAllMembers_iff]
      intro q hq
      have hq := (sortMembers_perm _).mem_iff.1 hq
      obtain ⟨a, ha, -, hk, hj⟩ := RtL.mem_attrMembers (k := q.1) (j := q.2) hq
      simp only [GoMap.vals, List.mem_map] at ha
      obtain ⟨pa, hpa, rfl⟩ := ha
      have := hA pa hpa
      rw [hk, hj]
      exact ⟨this.1, encodeAttr_strs _ this.2⟩
  · split at hp
    · cases hp
    · simp only [List.mem_cons, List.not_mem_nil, or_false] at hp
      subst hp
      refine ⟨kv_relationships, ?_⟩
      simp only [strsAll]
      rw [strsAllMembers_iff]
      intro q hq
      have hq := (sortMembers_perm _).mem_iff.1 hq
      obtain ⟨rel, ha, -, hk, hj⟩ := RtL.mem_relMembers (k := q.1) (j := q.2) hq
      simp only [GoMap.vals, List.mem_map] at ha
      obtain ⟨pa, hpa, rfl⟩ := ha
      have := hR pa hpa
      rw [hk, hj]
      exact ⟨this.1.1, relObject_strs r prepath _ _ h1 h2 h3 this.1.1 this.1.2 this.2⟩

/-! ### 7. a cheap sufficient condition: ASCII -/

end RtbL

def asciiStr (s : GoString) : Bool := s.all (fun c => decide (c < 0x80))

def GoVal.asciiOk : GoVal → Bool
  | .val _ (.s s) => asciiStr s
  | .ptr _ (some (.s s)) => asciiStr s
  | .strs l => l.all asciiStr
  | _ => true

/-- `ResView.utf8Ok` with "is ASCII" for "is valid UTF-8": implies it
(`RtbL.utf8Ok_of_ascii`) and evaluates quickly. -/
def ResView.asciiOk (r : ResView) (prepath : GoString) : Bool :=
  asciiStr r.id && asciiStr r.typeName && asciiStr prepath &&
  r.attrs.all (fun p => asciiStr p.2.name && (r.get p.2.name).asciiOk) &&
  r.rels.all (fun p => asciiStr p.2.fromName && asciiStr p.2.toType && (r.get p.2.fromName).asciiOk)

namespace RtbL
open Spec JsonL FullL GoMap

theorem valid_of_asciiStr (s : GoString) (h : asciiStr s = true) : utf8Valid s = true :=
  ascii_all s h

theorem val_utf8Ok_of_ascii (v : GoVal) (h : v.asciiOk = true) : v.utf8Ok = true := by
  cases v with
  | val k p =>
    cases p with
    | s x => exact valid_of_asciiStr x h
    | _ => rfl
  | ptr k o =>
    cases o with
    | none => rfl
    | some p =>
      cases p with
      | s x => exact valid_of_asciiStr x h
      | _ => rfl
  | strs l =>
    simp only [GoVal.utf8Ok, GoVal.asciiOk, List.all_eq_true] at h ⊢
    exact fun x hx => valid_of_asciiStr x (h x hx)
  | nil => rfl
  | other t => rfl

theorem utf8Ok_of_ascii (r : ResView) (prepath : GoString) (h : r.asciiOk prepath = true) :
    r.utf8Ok prepath = true := by
  simp only [ResView.asciiOk, Bool.and_eq_true, List.all_eq_true] at h
  obtain ⟨⟨⟨⟨h1, h2⟩, h3⟩, hA⟩, hR⟩ := h
  simp only [ResView.utf8Ok, Bool.and_eq_true, List.all_eq_true]
  refine ⟨⟨⟨⟨valid_of_asciiStr _ h1, valid_of_asciiStr _ h2⟩, valid_of_asciiStr _ h3⟩, ?_⟩, ?_⟩
  · intro p hp
    exact ⟨valid_of_asciiStr _ (hA p hp).1, val_utf8Ok_of_ascii _ (hA p hp).2⟩
  · intro p hp
    exact ⟨⟨valid_of_asciiStr _ (hR p hp).1.1, valid_of_asciiStr _ (hR p hp).1.2⟩,
      val_utf8Ok_of_ascii _ (hR p hp).2⟩

end RtbL
end Jsonapi
