/-
Helper lemmas for C20, part 1: `splitComma`, the facts `Check` establishes, the maps
built by Wrap/BuildType as folds of `GoMap.set`, and what they contain.
-/
import Jsonapi.Model.Struct
import Jsonapi.Proofs.MapLemmas
namespace Jsonapi

/-! ### strings.Split(s, ",") -/

theorem splitComma_go_head (cur s : GoString) :
    (splitComma.go cur s).head? = some (cur.reverse ++ s.takeWhile (fun c => c ≠ comma)) := by
  induction s generalizing cur with
  | nil => simp [splitComma.go]
  | cons c rest ih =>
    unfold splitComma.go
    by_cases h : c = comma
    · simp [h]
    · simp [h, ih]

theorem splitComma_go_length_pos (cur s : GoString) : 1 ≤ (splitComma.go cur s).length := by
  induction s generalizing cur with
  | nil => simp [splitComma.go]
  | cons c rest ih =>
    unfold splitComma.go
    split
    · simp
    · exact ih _

theorem splitComma_length_pos (s : GoString) : 1 ≤ (splitComma s).length :=
  splitComma_go_length_pos [] s

theorem splitComma_head (s : GoString) :
    (splitComma s).head? = some (s.takeWhile (fun c => c ≠ comma)) := by
  have := splitComma_go_head [] s
  simpa [splitComma] using this

/-- The first piece of the split tag is "rel" exactly when the tag is "rel" or starts
with "rel,". -/
theorem takeWhile_eq_sRel_iff (s : GoString) :
    s.takeWhile (fun c => c ≠ comma) = sRel ↔ (s = sRel ∨ hasPrefix s sRelComma = true) := by
  constructor
  · intro h
    have hs := List.takeWhile_append_dropWhile (p := fun c => decide (c ≠ comma)) (l := s)
    have hd := List.head?_dropWhile_not (fun c => decide (c ≠ comma)) s
    rw [h] at hs
    cases hdw : s.dropWhile (fun c => decide (c ≠ comma)) with
    | nil => left; rw [hdw] at hs; simpa using hs.symm
    | cons c r =>
      right
      rw [hdw] at hs hd
      have hd : c = comma := by simpa using hd
      subst hd
      rw [← hs]
      simp [hasPrefix, sRelComma, sRel, comma]
  · rintro (h | h)
    · subst h; decide
    · unfold hasPrefix at h
      rw [List.isPrefixOf_iff_prefix] at h
      obtain ⟨t, ht⟩ := h
      subst ht
      simp [sRelComma, sRel, comma, List.takeWhile]

theorem splitComma_head_rel_iff (s : GoString) :
    (splitComma s).head? = some sRel ↔ (s = sRel ∨ hasPrefix s sRelComma = true) := by
  rw [splitComma_head, Option.some.injEq, takeWhile_eq_sRel_iff]

theorem SField.head_rel_iff (f : SField) :
    (splitComma f.api).head? = some sRel ↔ f.isRelTagged = true := by
  rw [splitComma_head_rel_iff]
  simp [SField.isRelTagged]

theorem SField.isAttr_api_ne {f : SField} (h : f.isAttr = true) : f.api ≠ [] := by
  simp only [SField.isAttr, decide_eq_true_eq] at h
  rw [h]; decide

theorem SField.isRelTagged_api_ne {f : SField} (h : f.isRelTagged = true) : f.api ≠ [] := by
  intro e
  simp [SField.isRelTagged, e, sRel, sRelComma, hasPrefix] at h

theorem SField.not_attr_and_rel {f : SField} (h : f.isAttr = true) : f.isRelTagged = false := by
  simp only [SField.isAttr, decide_eq_true_eq] at h
  rw [SField.isRelTagged, h]; decide

/-! ### The attribute types accepted by Check -/

theorem checkAttrTypes_iff (t : GoTy) :
    t.name ∈ Facts.checkAttrTypes ↔ ∃ k n, t = .attr k n := by
  constructor
  · intro h
    cases t with
    | attr k n => exact ⟨k, n, rfl⟩
    | strs => exact absurd h (by decide)
    | other n sk =>
      exfalso
      have h1 : ∀ x ∈ Facts.checkAttrTypes, x.toList.head? ≠ some 'o' := by decide
      have h2 : ("other" ++ toString n).toList.head? = some 'o' := by
        simp [String.toList_append]
      exact h1 _ h h2
  · rintro ⟨k, n, rfl⟩
    cases k <;> cases n <;> decide

/-! ### What Check establishes -/

/-- json names of api-tagged fields are pairwise distinct when non-empty (the `names`
map of Check). -/
def Uniq (d : StructDecl) : Prop :=
  d.Pairwise (fun f g => f.api ≠ [] → g.api ≠ [] → f.json ≠ [] → f.json ≠ g.json)

theorem namesOk_spec (seen : List GoString) (d : StructDecl)
    (h : checkStruct.namesOk seen d = true) :
    (∀ f ∈ d, f.api ≠ [] → f.json ≠ [] → f.json ∉ seen) ∧
    (∀ f ∈ d, f.name ≠ sID → (f.isAttr = true ∨ f.isRelTagged = true) →
        f.json ≠ [] ∧ f.json ≠ idName) ∧
    Uniq d := by
  induction d generalizing seen with
  | nil => exact ⟨by simp, by simp, List.Pairwise.nil⟩
  | cons f rest ih =>
    unfold checkStruct.namesOk at h
    by_cases hapi : f.api = []
    · simp only [hapi, if_true] at h
      obtain ⟨h1, h2, h3⟩ := ih seen h
      refine ⟨?_, ?_, ?_⟩
      · intro g hg
        rcases List.mem_cons.1 hg with rfl | hg
        · intro hh; exact absurd hapi hh
        · exact h1 g hg
      · intro g hg hne hfld
        rcases List.mem_cons.1 hg with rfl | hg
        · rcases hfld with hf | hf
          · exact absurd hapi (SField.isAttr_api_ne hf)
          · exact absurd hapi (SField.isRelTagged_api_ne hf)
        · exact h2 g hg hne hfld
      · exact List.pairwise_cons.2 ⟨fun g _ hh => absurd hapi hh, h3⟩
    · simp only [hapi, if_false] at h
      split at h
      · exact absurd h (by simp)
      · rename_i hc
        obtain ⟨h1, h2, h3⟩ := ih _ h
        simp only [Bool.or_eq_true, Bool.and_eq_true, decide_eq_true_eq, not_or, not_and,
          List.contains_eq_mem, ne_eq] at hc
        obtain ⟨hc1, hc2⟩ := hc
        refine ⟨?_, ?_, ?_⟩
        · intro g hg
          rcases List.mem_cons.1 hg with rfl | hg
          · intro _ hj; exact hc2 hj
          · intro ha hj hm
            exact h1 g hg ha hj (List.mem_cons_of_mem _ hm)
        · intro g hg hne hfld
          rcases List.mem_cons.1 hg with rfl | hg
          · exact hc1 ⟨hne, hfld⟩
          · exact h2 g hg hne hfld
        · refine List.pairwise_cons.2 ⟨?_, h3⟩
          intro g hg _ hga hfj e
          have := h1 g hg hga (by rw [← e]; exact hfj)
          exact this (by rw [← e]; exact List.mem_cons_self)

/-- Everything `Check` verified, as propositions. -/
structure CheckFacts (d : StructDecl) : Prop where
  idf : ∃ idf, d.find? (fun f => f.name = sID) = some idf ∧ idf.ty.isStringKind = true ∧
    idf.api ≠ [] ∧ idf.isAttr = false ∧ idf.isRelTagged = false
  names : checkStruct.namesOk [] d = true
  attrs : ∀ f ∈ d, f.isAttr = true → ∃ k n, f.ty = .attr k n
  rels : ∀ f ∈ d, f.isRelTagged = true →
    2 ≤ (splitComma f.api).length ∧ (splitComma f.api).length ≤ 3 ∧
    (f.ty = .attr .string false ∨ f.ty = .strs)

theorem checkFacts {d : StructDecl} (h : checkStruct d = true) : CheckFacts d := by
  unfold checkStruct at h
  split at h
  · exact absurd h (by simp)
  · rename_i idf hf
    simp only [Bool.and_eq_true, List.all_eq_true, Bool.or_eq_true,
      decide_eq_true_eq, ne_eq, Bool.or_eq_false_iff, Bool.not_eq_eq_eq_not,
      Bool.not_true, decide_eq_false_iff_not] at h
    obtain ⟨⟨⟨⟨⟨h1, h2⟩, h3⟩, h4⟩, h5⟩, h6⟩ := h
    refine ⟨⟨idf, hf, h1, h2, ?_, ?_⟩, h4, ?_, ?_⟩
    · simp [SField.isAttr, h3.1.1]
    · simp [SField.isRelTagged, h3.1.2, h3.2]
    · intro f hf ha
      rcases h5 f hf with hh | hh
      · rw [ha] at hh; exact absurd hh (by simp)
      · exact (checkAttrTypes_iff _).1 hh
    · intro f hf hr
      rcases h6 f hf with hh | hh
      · rw [hr] at hh; exact absurd hh (by simp)
      · exact ⟨hh.1.1, hh.1.2, hh.2⟩

theorem CheckFacts.uniq {d : StructDecl} (c : CheckFacts d) : Uniq d :=
  (namesOk_spec [] d c.names).2.2

theorem CheckFacts.json_ok {d : StructDecl} (c : CheckFacts d) {f : SField} (hf : f ∈ d)
    (hne : f.name ≠ sID) (hfld : f.isAttr = true ∨ f.isRelTagged = true) :
    f.json ≠ [] ∧ f.json ≠ idName :=
  (namesOk_spec [] d c.names).2.1 f hf hne hfld

/-! ### Maps built by a loop of `m[key f] = val f` -/

namespace GoMap
variable {β : Type}

theorem mem_set {m : GoMap β} {k : GoString} {v : β} {x : GoString × β} (h : x ∈ set m k v) :
    x ∈ m ∨ x = (k, v) := by
  induction m with
  | nil => simp only [set, List.mem_singleton] at h; exact Or.inr h
  | cons p m ih =>
    obtain ⟨k', v'⟩ := p
    unfold set at h
    split at h
    · rcases List.mem_cons.1 h with h | h
      · exact Or.inr h
      · exact Or.inl (List.mem_cons_of_mem _ h)
    · rcases List.mem_cons.1 h with h | h
      · exact Or.inl (h ▸ List.mem_cons_self)
      · rcases ih h with h | h
        · exact Or.inl (List.mem_cons_of_mem _ h)
        · exact Or.inr h

theorem get?_some_mem {m : GoMap β} {k : GoString} {v : β} (h : get? m k = some v) :
    (k, v) ∈ m := by
  induction m with
  | nil => simp [get?] at h
  | cons p m ih =>
    obtain ⟨k', v'⟩ := p
    unfold get? at h
    split at h
    · rename_i e
      simp only [Option.some.injEq] at h
      subst e; subst h; exact List.mem_cons_self
    · exact List.mem_cons_of_mem _ (ih h)

theorem mem_keys_get? {m : GoMap β} {k : GoString} (h : k ∈ keys m) : ∃ v, get? m k = some v := by
  induction m with
  | nil => simp [keys] at h
  | cons p m ih =>
    obtain ⟨k', v'⟩ := p
    unfold get?
    by_cases e : k' = k
    · exact ⟨v', by simp [e]⟩
    · simp only [e, if_false]
      apply ih
      simp only [keys, List.map_cons, List.mem_cons] at h
      rcases h with h | h
      · exact absurd h.symm e
      · exact h

theorem mem_keys_of_mem {m : GoMap β} {x : GoString × β} (h : x ∈ m) : x.1 ∈ keys m :=
  List.mem_map.2 ⟨x, h, rfl⟩

end GoMap

/-- The loop `for f in l { if p f { m[key f] = val f } }`. -/
def foldSet {α β : Type} (p : α → Bool) (key : α → GoString) (val : α → β)
    (l : List α) (m : GoMap β) : GoMap β :=
  l.foldl (fun m f => if p f then m.set (key f) (val f) else m) m

section foldSet
variable {α β : Type} (p : α → Bool) (key : α → GoString) (val : α → β)

theorem foldSet_nil (m : GoMap β) : foldSet p key val [] m = m := rfl

theorem foldSet_cons (a : α) (l : List α) (m : GoMap β) :
    foldSet p key val (a :: l) m =
      foldSet p key val l (if p a then m.set (key a) (val a) else m) := rfl

theorem foldSet_append (l₁ l₂ : List α) (m : GoMap β) :
    foldSet p key val (l₁ ++ l₂) m = foldSet p key val l₂ (foldSet p key val l₁ m) := by
  simp [foldSet, List.foldl_append]

/-- Every entry comes from the initial map or from a selected element. -/
theorem foldSet_mem {l : List α} {m : GoMap β} {x : GoString × β}
    (h : x ∈ foldSet p key val l m) :
    x ∈ m ∨ ∃ f ∈ l, p f = true ∧ x = (key f, val f) := by
  induction l generalizing m with
  | nil => exact Or.inl h
  | cons a l ih =>
    rw [foldSet_cons] at h
    rcases ih h with h | ⟨f, hf, hp, hx⟩
    · split at h
      · rename_i hpa
        rcases GoMap.mem_set h with h | h
        · exact Or.inl h
        · exact Or.inr ⟨a, List.mem_cons_self, hpa, h⟩
      · exact Or.inl h
    · exact Or.inr ⟨f, List.mem_cons_of_mem _ hf, hp, hx⟩

/-- A key that no selected element writes keeps its entry. -/
theorem foldSet_get?_of_not {l : List α} {m : GoMap β} {k : GoString}
    (h : ∀ g ∈ l, p g = true → key g ≠ k) :
    (foldSet p key val l m).get? k = m.get? k := by
  induction l generalizing m with
  | nil => rfl
  | cons a l ih =>
    rw [foldSet_cons, ih (fun g hg => h g (List.mem_cons_of_mem _ hg))]
    split
    · rename_i hpa
      exact GoMap.get?_set_ne _ _ _ _ (fun e => h a List.mem_cons_self hpa e.symm)
    · rfl

/-- A selected element whose key is not written again later is found in the result. -/
theorem foldSet_get?_at {l₁ l₂ : List α} {f : α} {m : GoMap β} (hp : p f = true)
    (h : ∀ g ∈ l₂, p g = true → key g ≠ key f) :
    (foldSet p key val (l₁ ++ f :: l₂) m).get? (key f) = some (val f) := by
  rw [foldSet_append, foldSet_cons, foldSet_get?_of_not p key val h]
  simp only [hp, if_true]
  exact GoMap.get?_set_self _ _ _

end foldSet

/-! ### structAttrs and structRels as such loops -/

/-- The Attr that Wrap/BuildType record for an attribute field. -/
def attrOf (f : SField) : Attr :=
  match f.ty with
  | .attr k n => { name := f.json, ty := k.code, nullable := n }
  | _ => { name := f.json, ty := 0, nullable := false }

/-- The Rel that Wrap/BuildType record for a relationship field. -/
def relOf (typeName : GoString) (f : SField) : Rel :=
  { fromType := typeName, fromName := f.json, toOne := decide (f.ty ≠ .strs),
    toType := ((splitComma f.api)[1]?).getD [],
    toName := if (splitComma f.api).length = 3 then ((splitComma f.api)[2]?).getD [] else [],
    fromOne := false }

theorem structAttrs_eq (d : StructDecl) :
    structAttrs d = foldSet SField.isAttr SField.json attrOf d [] := by
  unfold structAttrs foldSet
  congr 1
  funext m f
  unfold attrOf
  split
  · split <;> simp_all
  · rfl

theorem structRels_go (tn : GoString) (d : StructDecl) (m : GoMap Rel)
    (h : ∀ f ∈ d, f.isRelTagged = true → 2 ≤ (splitComma f.api).length) :
    d.foldl (fun acc f =>
      match acc with
      | .ok m =>
        let tag := splitComma f.api
        let inv := if tag.length = 3 then tag[2]?.getD [] else []
        if tag.head? = some sRel then
          match tag[1]? with
          | none => .panic
          | some target =>
            .ok (m.set f.json { fromName := f.json, toOne := f.ty ≠ .strs, toType := target,
                                toName := inv, fromType := tn, fromOne := false })
        else .ok m
      | e => e) (Res.ok m) = .ok (foldSet SField.isRelTagged SField.json (relOf tn) d m) := by
  induction d generalizing m with
  | nil => rfl
  | cons f rest ih =>
    rw [List.foldl_cons, foldSet_cons]
    by_cases hr : f.isRelTagged = true
    · have hlen := h f List.mem_cons_self hr
      have hhead := (SField.head_rel_iff f).2 hr
      obtain ⟨target, ht⟩ : ∃ t, (splitComma f.api)[1]? = some t := by
        exact ⟨(splitComma f.api)[1], List.getElem?_eq_getElem (by omega)⟩
      simp only [hhead, if_true, ht, hr]
      rw [ih _ (fun g hg => h g (List.mem_cons_of_mem _ hg))]
      simp [relOf, ht]
    · have hhead : ¬ (splitComma f.api).head? = some sRel := fun e => hr ((SField.head_rel_iff f).1 e)
      simp only [hhead, if_false, hr]
      exact ih _ (fun g hg => h g (List.mem_cons_of_mem _ hg))

theorem structRels_eq (tn : GoString) (d : StructDecl)
    (h : ∀ f ∈ d, f.isRelTagged = true → 2 ≤ (splitComma f.api).length) :
    structRels tn d = .ok (foldSet SField.isRelTagged SField.json (relOf tn) d []) :=
  structRels_go tn d [] h

/-! ### Wrap and BuildType once Check accepted -/

/-- The relationship map of an accepted struct. -/
def relsOf (d : StructDecl) : GoMap Rel :=
  foldSet SField.isRelTagged SField.json (relOf (structTypeName d)) d []

theorem CheckFacts.structRels_ok {d : StructDecl} (c : CheckFacts d) :
    structRels (structTypeName d) d = .ok (relsOf d) :=
  structRels_eq _ d (fun f hf hr => (c.rels f hf hr).1)

theorem buildType_ok {d : StructDecl} (h : checkStruct d = true) :
    buildType d = .ok { name := structTypeName d, attrs := structAttrs d, rels := relsOf d } := by
  unfold buildType
  rw [(checkFacts h).structRels_ok]
  simp [h]

theorem wrap_ok {d : StructDecl} (h : checkStruct d = true) (vals : List GoVal) :
    wrap d vals = .ok { decl := d, vals := vals, typ := structTypeName d,
                        attrs := structAttrs d, rels := relsOf d } := by
  unfold wrap
  rw [(checkFacts h).structRels_ok]
  simp [h]

theorem CheckFacts.typeName {d : StructDecl} (c : CheckFacts d) :
    ∃ idf ∈ d, idf.name = sID ∧ structTypeName d = idf.api := by
  obtain ⟨idf, hf, hk, _⟩ := c.idf
  refine ⟨idf, List.mem_of_find?_eq_some hf, ?_, ?_⟩
  · simpa using List.find?_some hf
  · simp [structTypeName, hf, hk]

theorem Uniq.later {d l₁ l₂ : StructDecl} {f : SField} (hu : Uniq d) (hd : d = l₁ ++ f :: l₂)
    (ha : f.api ≠ []) (hj : f.json ≠ []) : ∀ g ∈ l₂, g.api ≠ [] → g.json ≠ f.json := by
  subst hd
  have h1 := (List.pairwise_append.1 hu).2.1
  have h2 := (List.pairwise_cons.1 h1).1
  intro g hg hga e
  exact h2 g hg ha hga hj e.symm

theorem CheckFacts.attrs_get? {d : StructDecl} (c : CheckFacts d) {f : SField} (hf : f ∈ d)
    (hne : f.name ≠ sID) (ha : f.isAttr = true) :
    (structAttrs d).get? f.json = some (attrOf f) := by
  obtain ⟨l₁, l₂, hd⟩ := List.append_of_mem hf
  have hl := c.uniq.later hd (SField.isAttr_api_ne ha) (c.json_ok hf hne (Or.inl ha)).1
  rw [structAttrs_eq, hd]
  exact foldSet_get?_at SField.isAttr SField.json attrOf ha
    (fun g hg hga => hl g hg (SField.isAttr_api_ne hga))

theorem CheckFacts.rels_get? {d : StructDecl} (c : CheckFacts d) {f : SField} (hf : f ∈ d)
    (hne : f.name ≠ sID) (hr : f.isRelTagged = true) :
    (relsOf d).get? f.json = some (relOf (structTypeName d) f) := by
  obtain ⟨l₁, l₂, hd⟩ := List.append_of_mem hf
  have hl := c.uniq.later hd (SField.isRelTagged_api_ne hr) (c.json_ok hf hne (Or.inr hr)).1
  unfold relsOf
  generalize structTypeName d = tn
  rw [hd]
  exact foldSet_get?_at SField.isRelTagged SField.json (relOf tn) hr
    (fun g hg hga => hl g hg (SField.isRelTagged_api_ne hga))

theorem structAttrs_mem {d : StructDecl} {x : GoString × Attr} (h : x ∈ structAttrs d) :
    ∃ f ∈ d, f.isAttr = true ∧ x = (f.json, attrOf f) := by
  rw [structAttrs_eq] at h
  rcases foldSet_mem _ _ _ h with h | h
  · simp at h
  · exact h

theorem relsOf_mem {d : StructDecl} {x : GoString × Rel} (h : x ∈ relsOf d) :
    ∃ f ∈ d, f.isRelTagged = true ∧ x = (f.json, relOf (structTypeName d) f) := by
  rcases foldSet_mem _ _ _ h with h | h
  · simp at h
  · exact h

end Jsonapi
