/-
Helper lemmas for C09 (Range): orderings, the correspondence between `Less` and the
specification's comparison, sorting with a comparator that is a strict weak order on
the members of the slice only, selection, filtering and pagination.
-/
import Jsonapi.Spec.Range
namespace Jsonapi
open List Spec

deriving instance DecidableEq for ResView

/-! ### Three-valued comparisons -/

/-- "`≤` is transitive at this triple, and a tie between the ends forces ties in the
middle" — the form of transitivity that survives lexicographic products. -/
def TrLe (o1 o2 o3 : Ordering) : Prop :=
  o1 ≠ .gt → o2 ≠ .gt → (o3 ≠ .gt ∧ (o3 = .eq → o1 = .eq ∧ o2 = .eq))

/-- "later comparisons break ties" -/
def lexO (o O : Ordering) : Ordering := match o with | .eq => O | o => o

theorem TrLe.lex {o1 o2 o3 O1 O2 O3 : Ordering} (h : TrLe o1 o2 o3) (H : TrLe O1 O2 O3) :
    TrLe (lexO o1 O1) (lexO o2 O2) (lexO o3 O3) := by
  unfold TrLe at *
  cases o1 <;> cases o2 <;> cases o3 <;> simp_all [lexO]

theorem TrLe.comm {o1 o2 o3 : Ordering} (h : TrLe o1 o2 o3) : TrLe o2 o1 o3 := by
  unfold TrLe at *
  cases o1 <;> cases o2 <;> cases o3 <;> simp_all

theorem TrLe.eq : TrLe .eq .eq .eq := by simp [TrLe]

theorem eq_of_eq_swap {o : Ordering} (h : o = o.swap) : o = .eq := by
  cases o <;> simp_all

/-! ### byte strings -/

theorem lt_of_not_lt_of_ne {a b : List UInt8} (h1 : ¬ a < b) (h2 : a ≠ b) : b < a := by
  have h3 : b ≤ a := List.not_lt.1 h1
  rcases List.le_iff_lt_or_eq.1 h3 with h | h
  · exact h
  · exact absurd h.symm h2

theorem cmpIds_swap (a b : GoString) : cmpIds b a = (cmpIds a b).swap := by
  unfold cmpIds
  by_cases h1 : a < b
  · have := List.lt_asymm h1
    have hne : ¬ b = a := by rintro rfl; exact List.lt_irrefl _ h1
    simp [h1, this, hne]
  · by_cases h2 : a = b
    · subst h2; simp [h1]
    · have : b < a := lt_of_not_lt_of_ne h1 h2
      simp [h1, h2, this]

theorem cmpIds_ne_gt {a b : GoString} : cmpIds a b ≠ .gt ↔ a ≤ b := by
  unfold cmpIds
  by_cases h1 : a < b
  · simp [h1, List.le_of_lt h1]
  · by_cases h2 : a = b
    · subst h2; simp [h1]
    · have : b < a := lt_of_not_lt_of_ne h1 h2
      simp [h1, h2, this]

theorem cmpIds_eq {a b : GoString} : cmpIds a b = .eq ↔ a = b := by
  unfold cmpIds
  by_cases h1 : a < b
  · have hne : ¬ a = b := by rintro rfl; exact List.lt_irrefl _ h1
    simp [h1, hne]
  · by_cases h2 : a = b <;> simp [h1, h2]

theorem cmpIds_trLe (a b c : GoString) : TrLe (cmpIds a b) (cmpIds b c) (cmpIds a c) := by
  intro h1 h2
  rw [cmpIds_ne_gt] at *
  refine ⟨List.le_trans h1 h2, fun h => ?_⟩
  simp only [cmpIds_eq] at *
  subst h
  have := List.le_antisymm h1 h2
  exact ⟨this, this.symm⟩

/-! ### integers -/

def cmpInt (a b : Int) : Ordering := if a < b then .lt else if a = b then .eq else .gt

theorem cmpInt_swap (a b : Int) : cmpInt b a = (cmpInt a b).swap := by
  unfold cmpInt
  split <;> split <;> (try split) <;> (try split) <;> simp <;> omega

theorem cmpInt_ne_gt {a b : Int} : cmpInt a b ≠ .gt ↔ a ≤ b := by
  unfold cmpInt
  split <;> (try split) <;> simp <;> omega

theorem cmpInt_eq {a b : Int} : cmpInt a b = .eq ↔ a = b := by
  unfold cmpInt
  split <;> (try split) <;> simp <;> omega

theorem cmpInt_trLe (a b c : Int) : TrLe (cmpInt a b) (cmpInt b c) (cmpInt a c) := by
  intro h1 h2
  rw [cmpInt_ne_gt] at *
  simp only [cmpInt_eq]
  omega

/-! ### instants -/

def cmpTime (a b : Time) : Ordering :=
  if a.before b then .lt else if a.equal b then .eq else .gt

theorem cmpTime_swap (a b : Time) : cmpTime b a = (cmpTime a b).swap := by
  unfold cmpTime Time.before Time.equal
  simp only [decide_eq_true_eq]
  split <;> split <;> (try split) <;> (try split) <;> simp <;> omega

theorem cmpTime_ne_gt {a b : Time} :
    cmpTime a b ≠ .gt ↔ (a.sec < b.sec ∨ (a.sec = b.sec ∧ a.nsec ≤ b.nsec)) := by
  unfold cmpTime Time.before Time.equal
  simp only [decide_eq_true_eq]
  split <;> (try split) <;> simp <;> omega

theorem cmpTime_eq {a b : Time} : cmpTime a b = .eq ↔ (a.sec = b.sec ∧ a.nsec = b.nsec) := by
  unfold cmpTime Time.before Time.equal
  simp only [decide_eq_true_eq]
  split <;> (try split) <;> simp <;> omega

theorem cmpTime_trLe (a b c : Time) : TrLe (cmpTime a b) (cmpTime b c) (cmpTime a c) := by
  intro h1 h2
  rw [cmpTime_ne_gt] at *
  simp only [cmpTime_eq]
  omega

/-! ### payloads -/

/-- payload class: 0 string, 1 integer, 2 boolean, 3 time, 4 bytes -/
def Pay.cls : Pay → Nat
  | .s _ => 0 | .i _ => 1 | .b _ => 2 | .t _ => 3 | .bs _ => 4

def Kind.cls : Kind → Nat
  | .string => 0 | .bool => 2 | .time => 3 | .bytes => 4 | _ => 1

theorem Kind.cls_of_payOk {k : Kind} {p : Pay} (h : k.payOk p = true) : p.cls = k.cls := by
  cases p <;> cases k <;> simp_all [Kind.payOk, Kind.range?, Pay.cls, Kind.cls]

theorem cmpPay_swap (p q : Pay) : Spec.cmpPay q p = (Spec.cmpPay p q).swap := by
  cases p <;> cases q <;> try rfl
  · exact cmpIds_swap _ _
  · exact cmpInt_swap _ _
  · rename_i a b; cases a <;> cases b <;> rfl
  · exact cmpTime_swap _ _
  · exact cmpIds_swap _ _

theorem cmpPay_trLe {p q r : Pay} (h1 : p.cls = q.cls) (h2 : q.cls = r.cls) :
    TrLe (Spec.cmpPay p q) (Spec.cmpPay q r) (Spec.cmpPay p r) := by
  cases p <;> cases q <;> simp [Pay.cls] at h1 <;> cases r <;> simp [Pay.cls] at h2
  · exact cmpIds_trLe _ _ _
  · exact cmpInt_trLe _ _ _
  · rename_i a b c; cases a <;> cases b <;> cases c <;> simp [TrLe, Spec.cmpPay]
  · exact cmpTime_trLe _ _ _
  · exact cmpIds_trLe _ _ _

/-! ### spec values -/

theorem cmpSVal_swap (v w : SVal) : cmpSVal w v = (cmpSVal v w).swap := by
  cases v <;> cases w <;> try rfl
  exact cmpPay_swap _ _

/-- nil, or a payload of the kind -/
def PayClass (k : Kind) (v : SVal) : Prop := v = .nil ∨ ∃ p, v = .pay p ∧ k.payOk p = true

theorem cmpSVal_trLe {k : Kind} {u v w : SVal} (hu : PayClass k u) (hv : PayClass k v)
    (hw : PayClass k w) : TrLe (cmpSVal u v) (cmpSVal v w) (cmpSVal u w) := by
  rcases hu with rfl | ⟨p, rfl, hp⟩ <;> rcases hv with rfl | ⟨q, rfl, hq⟩ <;>
    rcases hw with rfl | ⟨r, rfl, hr⟩ <;> try (simp [TrLe, cmpSVal]; done)
  exact cmpPay_trLe ((Kind.cls_of_payOk hp).trans (Kind.cls_of_payOk hq).symm)
    ((Kind.cls_of_payOk hq).trans (Kind.cls_of_payOk hr).symm)

/-! ### `Less` against the specification, one value pair -/

/-- What one rule of `Less` does with a three-way comparison. -/
def ruleRes : Ordering → RuleRes
  | .lt => .decided true
  | .eq => .tie
  | .gt => .decided false

/-- a leading '-' reverses the comparison -/
def orient (inv : Bool) (o : Ordering) : Ordering := if inv then o.swap else o

theorem lessList (inv : Bool) (a b : List UInt8) :
    (if a = b then RuleRes.tie else .decided (xorInv (decide (a < b)) inv)) =
      ruleRes (orient inv (cmpIds a b)) := by
  unfold cmpIds
  by_cases h1 : a = b
  · subst h1; simp [List.lt_irrefl, ruleRes, orient]
  · by_cases h2 : a < b
    · simp [h1, h2, xorInv, orient]; cases inv <;> rfl
    · simp [h1, h2, xorInv, orient]; cases inv <;> rfl

theorem lessPay_spec (inv : Bool) {p q : Pay} (h : p.cls = q.cls) :
    lessPay inv p q = ruleRes (orient inv (Spec.cmpPay p q)) := by
  cases p <;> cases q <;> simp [Pay.cls] at h
  · exact lessList inv _ _
  · rename_i a b
    simp only [lessPay, Spec.cmpPay]
    by_cases h1 : a = b
    · subst h1; simp [ruleRes, orient]
    · by_cases h2 : a < b
      · simp [h1, h2, xorInv, orient]; cases inv <;> rfl
      · simp [h1, h2, xorInv, orient]; cases inv <;> rfl
  · rename_i a b; cases a <;> cases b <;> cases inv <;> rfl
  · rename_i a b
    simp only [lessPay, Spec.cmpPay]
    by_cases h1 : a.equal b = true
    · have h2 : a.before b = false := by
        simp only [Time.equal, Time.before, decide_eq_true_eq, decide_eq_false_iff_not] at *
        omega
      simp [h1, h2, ruleRes, orient]
    · by_cases h2 : a.before b = true
      · simp [h1, h2, xorInv, orient]; cases inv <;> rfl
      · simp [h1, h2, xorInv, orient]; cases inv <;> rfl
  · exact lessList inv _ _

/-- The name under which the Go type of an attribute (kind, nullable) appears as a case
of the type switch in `Less` (`[]uint8` is spelled `[]byte` there). -/
def caseName (k : Kind) (nullable : Bool) : String :=
  if nullable then (if k = .bytes then "*[]byte" else "*" ++ k.goName)
  else (if k = .bytes then "[]byte" else k.goName)

theorem tn_val (k : Kind) :
    (if k.goName = "[]uint8" then "[]byte"
     else if k.goName = "*[]uint8" then "*[]byte" else k.goName) = caseName k false := by
  cases k <;> decide

theorem tn_ptr (k : Kind) :
    (if "*" ++ k.goName = "[]uint8" then "[]byte"
     else if "*" ++ k.goName = "*[]uint8" then "*[]byte" else "*" ++ k.goName)
    = caseName k true := by
  cases k <;> decide

theorem lessVal_val (inv : Bool) (k : Kind) (p q : Pay)
    (hc : caseName k false ∈ Facts.lessCases) (hp : k.payOk p = true) (hq : k.payOk q = true) :
    lessVal inv (.val k p) (.val k q) = ruleRes (orient inv (Spec.cmpPay p q)) := by
  unfold lessVal
  have htn : (if (GoVal.val k p).goType = "[]uint8" then "[]byte"
     else if (GoVal.val k p).goType = "*[]uint8" then "*[]byte" else (GoVal.val k p).goType)
     = caseName k false := tn_val k
  simp only [htn]
  rw [if_neg (fun h => h hc)]
  simp only [if_true]
  exact lessPay_spec inv ((Kind.cls_of_payOk hp).trans (Kind.cls_of_payOk hq).symm)

theorem lessVal_ptr (inv : Bool) (k : Kind) (p q : Option Pay)
    (hc : caseName k true ∈ Facts.lessCases)
    (hp : ∀ x, p = some x → k.payOk x = true) (hq : ∀ x, q = some x → k.payOk x = true) :
    lessVal inv (.ptr k p) (.ptr k q) =
      ruleRes (orient inv (cmpSVal (sval (.ptr k p)) (sval (.ptr k q)))) := by
  unfold lessVal
  have htn : (if (GoVal.ptr k p).goType = "[]uint8" then "[]byte"
     else if (GoVal.ptr k p).goType = "*[]uint8" then "*[]byte" else (GoVal.ptr k p).goType)
     = caseName k true := tn_ptr k
  simp only [htn]
  rw [if_neg (fun h => h hc)]
  simp only [ne_eq, not_true_eq_false, if_false]
  cases p with
  | none => cases q <;> cases inv <;> rfl
  | some x =>
    cases q with
    | none => cases inv <;> rfl
    | some y =>
      exact lessPay_spec inv ((Kind.cls_of_payOk (hp x rfl)).trans (Kind.cls_of_payOk (hq y rfl)).symm)

/-! ### what `wf` says about one attribute -/

theorem GoMap.mem_of_get? {β} {m : GoMap β} {k : GoString} {v : β} (h : m.get? k = some v) :
    (k, v) ∈ m := by
  induction m with
  | nil => simp [GoMap.get?] at h
  | cons p m ih =>
    obtain ⟨k', v'⟩ := p
    simp only [GoMap.get?] at h
    by_cases e : k' = k
    · simp only [e, if_true, Option.some.injEq] at h
      subst e; subst h; exact List.mem_cons_self
    · simp only [e, if_false] at h
      exact List.mem_cons_of_mem _ (ih h)

/-- The value of a declared attribute of a well-formed resource. -/
theorem wf_attr_rg {r : ResView} (hwf : r.wf = true) {name : GoString} {at' : Attr}
    (h : r.attrs.get? name = some at') :
    ∃ k, Kind.ofCode? at'.ty = some k ∧
      ((r.get name).hasAttrType k at'.nullable = true ∨
        (at'.nullable = true ∧ r.get name = .nil)) := by
  unfold ResView.wf at hwf
  rw [Bool.and_eq_true] at hwf
  have h1 := List.all_eq_true.1 hwf.1 _ (GoMap.mem_of_get? h)
  simp only [h, Bool.and_eq_true] at h1
  have h2 := h1.2
  split at h2
  · rename_i k hk
    refine ⟨k, hk, ?_⟩
    simpa using h2
  · cases h2

/-- `getAttrVal` on a declared attribute of a well-formed resource: a value of the
declared Go type, with the same reading in the specification as `Get`. -/
theorem wf_getAttrVal {r : ResView} (hwf : r.wf = true) {name : GoString} {at' : Attr}
    (h : r.attrs.get? name = some at') :
    ∃ k, Kind.ofCode? at'.ty = some k ∧
      ((at'.nullable = false ∧ ∃ p, getAttrVal r name = .val k p ∧ k.payOk p = true ∧
          sval (r.get name) = .pay p) ∨
       (at'.nullable = true ∧ ∃ op, getAttrVal r name = .ptr k op ∧
          (∀ x, op = some x → k.payOk x = true) ∧ sval (r.get name) = sval (.ptr k op))) := by
  obtain ⟨k, hk, hv⟩ := wf_attr_rg hwf h
  refine ⟨k, hk, ?_⟩
  unfold getAttrVal
  rcases hv with hv | ⟨hn, hv⟩
  · cases hg : r.get name with
    | val k' p =>
      simp only [hg, GoVal.hasAttrType, Bool.and_eq_true, Bool.not_eq_true', decide_eq_true_eq] at hv
      obtain ⟨⟨hn, rfl⟩, hp⟩ := hv
      exact .inl ⟨hn, p, rfl, hp, rfl⟩
    | ptr k' op =>
      cases op with
      | none =>
        simp only [hg, GoVal.hasAttrType, Bool.and_eq_true, decide_eq_true_eq] at hv
        obtain ⟨hn, rfl⟩ := hv
        exact .inr ⟨hn, none, rfl, by simp, rfl⟩
      | some p =>
        simp only [hg, GoVal.hasAttrType, Bool.and_eq_true, decide_eq_true_eq] at hv
        obtain ⟨⟨hn, rfl⟩, hp⟩ := hv
        exact .inr ⟨hn, some p, rfl, by simpa using hp, rfl⟩
    | strs l => simp [hg, GoVal.hasAttrType] at hv
    | nil => simp [hg, GoVal.hasAttrType] at hv
    | other t => simp [hg, GoVal.hasAttrType] at hv
  · right
    refine ⟨hn, none, ?_, by simp, ?_⟩
    · simp [hv, h, hn, hk]
    · rw [hv]; rfl

/-- The specification's reading of a declared attribute is nil or a payload of the kind. -/
theorem wf_payClass {r : ResView} (hwf : r.wf = true) {name : GoString} {at' : Attr}
    (h : r.attrs.get? name = some at') {k : Kind} (hk : Kind.ofCode? at'.ty = some k) :
    PayClass k (sval (r.get name)) := by
  obtain ⟨k', hk', hv⟩ := wf_getAttrVal hwf h
  rw [hk] at hk'; cases hk'
  rcases hv with ⟨_, p, _, hp, hs⟩ | ⟨_, op, _, hp, hs⟩
  · exact .inr ⟨p, hs, hp⟩
  · rw [hs]
    cases op with
    | none => exact .inl rfl
    | some x => exact .inr ⟨x, rfl, hp x rfl⟩

/-! ### rules -/

/-- The comparison of one field, before orientation. -/
def cmpField (name : GoString) (a b : ResView) : Ordering :=
  if name = idName then cmpIds a.id b.id
  else cmpSVal (sval (a.get name)) (sval (b.get name))

theorem cmpRule_eq (rule : GoString) (a b : ResView) :
    cmpRule rule a b = orient (splitRule rule).1 (cmpField (splitRule rule).2 a b) := by
  unfold cmpRule orient cmpField
  rfl

theorem cmpRules_cons (r : GoString) (rs : List GoString) (a b : ResView) :
    cmpRules (r :: rs) a b = lexO (cmpRule r a b) (cmpRules rs a b) := by
  show (match cmpRule r a b with | .eq => cmpRules rs a b | o => o) = _
  unfold lexO
  cases cmpRule r a b <;> rfl

theorem cmpField_swap (name : GoString) (a b : ResView) :
    cmpField name b a = (cmpField name a b).swap := by
  unfold cmpField
  split
  · exact cmpIds_swap _ _
  · exact cmpSVal_swap _ _

theorem orient_swap (inv : Bool) (o : Ordering) : orient inv o.swap = (orient inv o).swap := by
  cases inv <;> rfl

theorem cmpRule_swap (rule : GoString) (a b : ResView) :
    cmpRule rule b a = (cmpRule rule a b).swap := by
  rw [cmpRule_eq, cmpRule_eq, cmpField_swap, orient_swap]

theorem lexO_swap (o O : Ordering) : (lexO o O).swap = lexO o.swap O.swap := by
  cases o <;> rfl

theorem cmpRules_swap (rules : List GoString) (a b : ResView) :
    cmpRules rules b a = (cmpRules rules a b).swap := by
  induction rules with
  | nil => rfl
  | cons r rs ih => rw [cmpRules_cons, cmpRules_cons, lexO_swap, cmpRule_swap, ih]

theorem cmpRules_refl (rules : List GoString) (a : ResView) : cmpRules rules a a = .eq :=
  eq_of_eq_swap (cmpRules_swap rules a a)

/-- The rule sorts by `id`, or by an attribute that every resource of `c` declares with one
and the same definition. -/
def RuleTyped (c : List ResView) (rule : GoString) : Prop :=
  (splitRule rule).2 = idName ∨
    ∃ at' : Attr, ∀ r ∈ c, r.attrs.get? (splitRule rule).2 = some at'

/-- The rule sorts by `id`, or by an attribute whose Go type has a case in `Less`. -/
def RuleCased (c : List ResView) (rule : GoString) : Prop :=
  (splitRule rule).2 = idName ∨
    ∀ r ∈ c, ∀ at', r.attrs.get? (splitRule rule).2 = some at' →
      ∀ k, Kind.ofCode? at'.ty = some k → caseName k at'.nullable ∈ Facts.lessCases

theorem RuleTyped.mono {c c' : List ResView} (h : ∀ r ∈ c', r ∈ c) {rule : GoString}
    (ht : RuleTyped c rule) : RuleTyped c' rule := by
  rcases ht with ht | ⟨at', ht⟩
  · exact .inl ht
  · exact .inr ⟨at', fun r hr => ht r (h r hr)⟩

theorem RuleCased.mono {c c' : List ResView} (h : ∀ r ∈ c', r ∈ c) {rule : GoString}
    (ht : RuleCased c rule) : RuleCased c' rule := by
  rcases ht with ht | ht
  · exact .inl ht
  · exact .inr (fun r hr => ht r (h r hr))

section members
variable {col : List ResView} (hwf : ∀ r ∈ col, r.wf = true)
include hwf

theorem cmpField_trLe {rule : GoString} (ht : RuleTyped col rule) {a b c : ResView}
    (ha : a ∈ col) (hb : b ∈ col) (hc : c ∈ col) :
    TrLe (cmpField (splitRule rule).2 a b) (cmpField (splitRule rule).2 b c)
      (cmpField (splitRule rule).2 a c) := by
  unfold cmpField
  rcases ht with ht | ⟨at', ht⟩
  · simp only [ht, if_true]; exact cmpIds_trLe _ _ _
  · by_cases hid : (splitRule rule).2 = idName
    · simp only [hid, if_true]; exact cmpIds_trLe _ _ _
    · simp only [hid, if_false]
      obtain ⟨k, hk, _⟩ := wf_attr_rg (hwf a ha) (ht a ha)
      exact cmpSVal_trLe (wf_payClass (hwf a ha) (ht a ha) hk)
        (wf_payClass (hwf b hb) (ht b hb) hk) (wf_payClass (hwf c hc) (ht c hc) hk)

theorem cmpRule_trLe {rule : GoString} (ht : RuleTyped col rule) {a b c : ResView}
    (ha : a ∈ col) (hb : b ∈ col) (hc : c ∈ col) :
    TrLe (cmpRule rule a b) (cmpRule rule b c) (cmpRule rule a c) := by
  simp only [cmpRule_eq]
  cases (splitRule rule).1
  · exact cmpField_trLe hwf ht ha hb hc
  · simp only [orient, if_true]
    rw [← cmpField_swap, ← cmpField_swap, ← cmpField_swap]
    exact (cmpField_trLe hwf ht hc hb ha).comm

theorem cmpRules_trLe {rules : List GoString} (ht : ∀ rule ∈ rules, RuleTyped col rule)
    {a b c : ResView} (ha : a ∈ col) (hb : b ∈ col) (hc : c ∈ col) :
    TrLe (cmpRules rules a b) (cmpRules rules b c) (cmpRules rules a c) := by
  induction rules with
  | nil => exact TrLe.eq
  | cons r rs ih =>
    simp only [cmpRules_cons]
    exact (cmpRule_trLe hwf (ht r List.mem_cons_self) ha hb hc).lex
      (ih (fun rule hr => ht rule (List.mem_cons_of_mem _ hr)))

theorem cmpRules_lt_trans {rules : List GoString} (ht : ∀ rule ∈ rules, RuleTyped col rule)
    {a b c : ResView} (ha : a ∈ col) (hb : b ∈ col) (hc : c ∈ col)
    (h1 : cmpRules rules a b = .lt) (h2 : cmpRules rules b c = .lt) :
    cmpRules rules a c = .lt := by
  have := cmpRules_trLe hwf ht ha hb hc
  unfold TrLe at this
  rw [h1, h2] at this
  revert this
  cases cmpRules rules a c <;> simp

theorem cmpRules_nlt_trans {rules : List GoString} (ht : ∀ rule ∈ rules, RuleTyped col rule)
    {a b c : ResView} (ha : a ∈ col) (hb : b ∈ col) (hc : c ∈ col)
    (h1 : cmpRules rules a b ≠ .lt) (h2 : cmpRules rules b c ≠ .lt) :
    cmpRules rules a c ≠ .lt := by
  have := cmpRules_trLe hwf ht hc hb ha
  unfold TrLe at this
  rw [cmpRules_swap rules b c, cmpRules_swap rules a b, cmpRules_swap rules a c] at this
  revert this h1 h2
  cases cmpRules rules a c <;> cases cmpRules rules a b <;> cases cmpRules rules b c <;> simp

end members

/-! ### `Less` against the specification -/

theorem less_cons (r : GoString) (rest : List GoString) (a b : ResView) :
    less (r :: rest) a b =
      if (splitRule r).2 = idName then .ok (xorInv (decide (a.id < b.id)) (splitRule r).1)
      else match lessVal (splitRule r).1 (getAttrVal a (splitRule r).2) (getAttrVal b (splitRule r).2) with
        | .decided x => .ok x
        | .tie => less rest a b
        | .panic => .panic := by
  rw [less]
  cases splitRule r
  rfl

/-- One non-`id` rule on two well-formed resources that declare the attribute alike. -/
theorem lessVal_field {a b : ResView} (hwa : a.wf = true) (hwb : b.wf = true)
    {name : GoString} {at' : Attr} (ha : a.attrs.get? name = some at')
    (hb : b.attrs.get? name = some at')
    (hc : ∀ k, Kind.ofCode? at'.ty = some k → caseName k at'.nullable ∈ Facts.lessCases)
    (inv : Bool) :
    lessVal inv (getAttrVal a name) (getAttrVal b name) =
      ruleRes (orient inv (cmpSVal (sval (a.get name)) (sval (b.get name)))) := by
  obtain ⟨k, hk, hva⟩ := wf_getAttrVal hwa ha
  obtain ⟨k', hk', hvb⟩ := wf_getAttrVal hwb hb
  rw [hk] at hk'; cases hk'
  have hc' := hc k hk
  rcases hva with ⟨hn, p, hp1, hp2, hp3⟩ | ⟨hn, p, hp1, hp2, hp3⟩ <;>
    rcases hvb with ⟨hn', q, hq1, hq2, hq3⟩ | ⟨hn', q, hq1, hq2, hq3⟩
  · rw [hp1, hq1, hp3, hq3]; rw [hn] at hc'
    exact lessVal_val inv k p q hc' hp2 hq2
  · rw [hn] at hn'; cases hn'
  · rw [hn] at hn'; cases hn'
  · rw [hp1, hq1, hp3, hq3]; rw [hn] at hc'
    exact lessVal_ptr inv k p q hc' hp2 hq2

theorem ruleRes_lexO_id (inv : Bool) (x y : GoString) (O : Ordering) (h : x ≠ y) :
    xorInv (decide (x < y)) inv = (lexO (orient inv (cmpIds x y)) O == .lt) := by
  unfold cmpIds
  by_cases h1 : x < y
  · cases inv <;> simp [h1, xorInv, orient, lexO]
  · cases inv <;> simp [h1, h, xorInv, orient, lexO]

/-- `Less` never panics on well-formed resources under typed rules with cases, and
computes "strictly before" when the two IDs differ. -/
theorem less_spec_aux {col : List ResView} (hwf : ∀ r ∈ col, r.wf = true)
    {a b : ResView} (ha : a ∈ col) (hb : b ∈ col) :
    ∀ {rules : List GoString}, (∀ rule ∈ rules, RuleTyped col rule) →
      (∀ rule ∈ rules, RuleCased col rule) →
      (∃ x, less rules a b = .ok x) ∧
        (a.id ≠ b.id → less rules a b = .ok (cmpRules rules a b == .lt))
  | [], _, _ => ⟨⟨false, rfl⟩, fun _ => rfl⟩
  | r :: rest, ht, hc => by
    have ih := less_spec_aux hwf ha hb (rules := rest)
      (fun rule hr => ht rule (List.mem_cons_of_mem _ hr))
      (fun rule hr => hc rule (List.mem_cons_of_mem _ hr))
    rw [less_cons, cmpRules_cons, cmpRule_eq]
    by_cases hid : (splitRule r).2 = idName
    · rw [if_pos hid]
      refine ⟨⟨_, rfl⟩, fun hne => ?_⟩
      unfold cmpField
      rw [if_pos hid, ruleRes_lexO_id _ _ _ _ hne]
    · rw [if_neg hid]
      have ht' := (ht r List.mem_cons_self).resolve_left hid
      have hc' := (hc r List.mem_cons_self).resolve_left hid
      obtain ⟨at', hat⟩ := ht'
      rw [lessVal_field (hwf a ha) (hwf b hb) (hat a ha) (hat b hb) (hc' a ha at' (hat a ha))]
      unfold cmpField
      rw [if_neg hid]
      generalize orient (splitRule r).1 (cmpSVal (sval (a.get (splitRule r).2)) (sval (b.get (splitRule r).2))) = o
      cases o
      · exact ⟨⟨_, rfl⟩, fun _ => rfl⟩
      · exact ih
      · exact ⟨⟨_, rfl⟩, fun _ => rfl⟩

/-! ### sorting with a comparator that is a strict weak order on the slice only -/

theorem merge_congr' {α} {r s : α → α → Bool} {l l' : List α}
    (hl : ∀ a ∈ l, ∀ b ∈ l', r a b = s a b) : l.merge l' r = l.merge l' s := by
  have := List.map_merge (f := id) (r := r) (s := s) (l := l) (l' := l') hl
  simpa using this

open List.MergeSort.Internal in
/-- Merge sort on a duplicate-free list only consults the comparator on two different
elements of the list. -/
theorem mergeSort_congr_nodup {α} {r s : α → α → Bool} :
    ∀ (l : List α), l.Nodup → (∀ a ∈ l, ∀ b ∈ l, a ≠ b → r a b = s a b) →
      l.mergeSort r = l.mergeSort s
  | [], _, _ => by simp
  | [x], _, _ => by simp
  | a :: b :: l, hnd, hl => by
    simp only [mergeSort, splitInTwo_fst, splitInTwo_snd]
    generalize hn : ((a :: b :: l).length + 1) / 2 = n
    have hn1 : 0 < n := by simp at hn; omega
    have hn2 : n < (a :: b :: l).length := by simp at hn ⊢; omega
    have hnd' := hnd
    rw [← List.take_append_drop n (a :: b :: l)] at hnd'
    have hdisj := (List.nodup_append.1 hnd').2.2
    have : ((a :: b :: l).take n).length < (a :: b :: l).length := by
      rw [List.length_take]; omega
    have : ((a :: b :: l).drop n).length < (a :: b :: l).length := by
      rw [List.length_drop]; omega
    rw [mergeSort_congr_nodup (r := r) (s := s) _ (List.nodup_append.1 hnd').1
      (fun a am b bm => hl a (mem_of_mem_take am) b (mem_of_mem_take bm))]
    rw [mergeSort_congr_nodup (r := r) (s := s) _ (List.nodup_append.1 hnd').2.1
      (fun a am b bm => hl a (mem_of_mem_drop am) b (mem_of_mem_drop bm))]
    apply merge_congr'
    intro x hx y hy
    rw [mem_mergeSort] at hx hy
    exact hl x (mem_of_mem_take hx) y (mem_of_mem_drop hy) (hdisj x hx y hy)
  termination_by l => l.length

/-- A sorter that only consults the comparator on two different elements of the slice
sorts as soon as the comparator agrees, on those, with a strict weak order on the slice. -/
theorem Sorter.sorted_of_local (S : Sorter)
    (hS : ∀ (lt lt' : ResView → ResView → Bool) (l : List ResView), l.Nodup →
      (∀ a ∈ l, ∀ b ∈ l, a ≠ b → lt a b = lt' a b) → S.sort lt l = S.sort lt' l)
    (lt lts : ResView → ResView → Bool) (l : List ResView) (hnd : l.Nodup)
    (hirr : ∀ a ∈ l, lts a a = false)
    (htr : ∀ a ∈ l, ∀ b ∈ l, ∀ c ∈ l, lts a b = true → lts b c = true → lts a c = true)
    (hntr : ∀ a ∈ l, ∀ b ∈ l, ∀ c ∈ l, lts a b = false → lts b c = false → lts a c = false)
    (hag : ∀ a ∈ l, ∀ b ∈ l, a ≠ b → lt a b = lts a b) :
    (S.sort lt l).Pairwise (fun a b => lts b a = false) := by
  -- extend `lts` to all resources: members as before, members before non-members
  let lt' : ResView → ResView → Bool := fun a b =>
    if a ∈ l ∧ b ∈ l then lts a b else decide (a ∈ l ∧ b ∉ l)
  have hin : ∀ a ∈ l, ∀ b ∈ l, lt' a b = lts a b := fun a ha b hb => by
    simp only [lt', ha, hb, and_self, if_true]
  rw [hS lt lt' l hnd (fun a ha b hb hne => (hag a ha b hb hne).trans (hin a ha b hb).symm)]
  have hsorted := S.sorted lt' l
    (fun a => by
      by_cases ha : a ∈ l
      · rw [hin a ha a ha]; exact hirr a ha
      · simp [lt', ha])
    (fun a b c h1 h2 => by
      by_cases ha : a ∈ l <;> by_cases hb : b ∈ l <;> by_cases hc : c ∈ l <;>
        simp only [lt', ha, hb, hc, and_self, and_true, and_false, if_true,
          if_false, not_true_eq_false, not_false_eq_true, decide_true, decide_false] at h1 h2 ⊢ <;>
        first | exact htr a ha b hb c hc h1 h2 | contradiction | rfl)
    (fun a b c h1 h2 => by
      by_cases ha : a ∈ l <;> by_cases hb : b ∈ l <;> by_cases hc : c ∈ l <;>
        simp only [lt', ha, hb, hc, and_self, and_true, and_false, if_true,
          if_false, not_true_eq_false, not_false_eq_true, decide_true, decide_false] at h1 h2 ⊢ <;>
        first | exact hntr a ha b hb c hc h1 h2 | contradiction | rfl)
  refine hsorted.imp_of_mem ?_
  intro a b ha hb h
  have ha' := (S.perm lt' l).mem_iff.1 ha
  have hb' := (S.perm lt' l).mem_iff.1 hb
  rw [← hin b hb' a ha']; exact h

/-! ### selection, filtering, pagination -/

theorem filter_eq_of_nodup (ids : List GoString) (hnd : ids.Nodup) (x : GoString) :
    ids.filter (fun i => decide (x = i)) = if ids.contains x then [x] else [] := by
  induction ids with
  | nil => rfl
  | cons i ids ih =>
    have hnd' := List.nodup_cons.1 hnd
    rw [List.filter_cons, ih hnd'.2]
    by_cases h : x = i
    · subst h
      simp [hnd'.1]
    · simp [h]

theorem selectIds_eq (c : List ResView) (ids : List GoString) (hnd : ids.Nodup) :
    selectIds c ids = c.filter (fun r => ids.isEmpty || ids.contains r.id) := by
  unfold selectIds
  by_cases he : ids.isEmpty = true
  · simp only [he, if_true, Bool.true_or]
    exact (List.filter_eq_self.2 (fun _ _ => rfl)).symm
  · simp only [he, if_false, Bool.false_eq_true, Bool.false_or]
    induction c with
    | nil => rfl
    | cons r rs ih =>
      rw [List.flatMap_cons, ih, filter_eq_of_nodup ids hnd, List.filter_cons]
      by_cases h : r.id ∈ ids <;> simp [h]

/-- "the filter allows the resource" (no filter allows everything) -/
def evalOpt (f : Option Filter) (r : ResView) : Bool :=
  match f with
  | none => true
  | some flt => Spec.eval r flt

theorem applyFilter_eq (f : Option Filter) (l : List ResView)
    (hf : ∀ flt, f = some flt → ∀ r ∈ l, isAllowed r flt = .ok (Spec.eval r flt)) :
    applyFilter f l = .ok (l.filter (evalOpt f)) := by
  induction l with
  | nil => rfl
  | cons r rs ih =>
    cases f with
    | none =>
      rw [applyFilter]
      exact congrArg Res.ok (List.filter_eq_self.2 (fun _ _ => rfl)).symm
    | some flt =>
      have ih' := ih (fun flt' h r' hr' => hf flt' h r' (List.mem_cons_of_mem _ hr'))
      rw [applyFilter, hf flt rfl r List.mem_cons_self]
      rw [ih', List.filter_cons]
      have he : evalOpt (some flt) r = Spec.eval r flt := rfl
      rw [he]

theorem matching_eq (c : List ResView) (ids : List GoString) (f : Option Filter) :
    Spec.matching c ids f =
      (c.filter (fun r => ids.isEmpty || ids.contains r.id)).filter (evalOpt f) := by
  rw [List.filter_filter]
  unfold Spec.matching
  apply List.filter_congr
  intro r _
  rw [Bool.and_comm]
  cases f <;> rfl

theorem paginate_eq (col : List ResView) (size num : Nat) (hs : size < 2 ^ 64)
    (hp : num * size < 2 ^ 63) : paginate col size num = .ok (Spec.page col size num) := by
  unfold paginate Spec.page
  have h1 : num * size % 2 ^ 64 = num * size := Nat.mod_eq_of_lt (by omega)
  have h2 : size % 2 ^ 64 = size := Nat.mod_eq_of_lt hs
  simp only [h1, h2]
  rw [if_neg (by omega)]
  by_cases h : num * size ≥ col.length
  · rw [if_pos h, List.drop_of_length_le h, List.take_nil]
  · rw [if_neg h]

/-- Consecutive pages laid end to end are a prefix of the list. -/
theorem pages_flatMap (l : List ResView) (size k : Nat) :
    (List.range k).flatMap (fun n => Spec.page l size n) = l.take (k * size) := by
  induction k with
  | zero => simp
  | succ k ih =>
    rw [List.range_succ, List.flatMap_append, ih]
    simp only [List.flatMap_cons, List.flatMap_nil, List.append_nil, Spec.page]
    rw [Nat.succ_mul, List.take_add]

/-! ### no two orderings when `id` is among the rules -/

theorem nodup_of_nodup_map_id {l : List ResView} (h : (l.map (·.id)).Nodup) : l.Nodup :=
  (List.pairwise_map.1 h).imp (fun hne e => hne (congrArg _ e))

theorem eq_of_id_eq {l : List ResView} (h : (l.map (·.id)).Nodup) {a b : ResView}
    (ha : a ∈ l) (hb : b ∈ l) (e : a.id = b.id) : a = b := by
  induction l with
  | nil => cases ha
  | cons x xs ih =>
    rw [List.map_cons, List.nodup_cons] at h
    rcases List.mem_cons.1 ha with rfl | ha' <;> rcases List.mem_cons.1 hb with rfl | hb'
    · rfl
    · exact absurd (List.mem_map.2 ⟨b, hb', e.symm⟩) h.1
    · exact absurd (List.mem_map.2 ⟨a, ha', e⟩) h.1
    · exact ih h.2 ha' hb'

theorem id_eq_of_cmpRules_eq {rules : List GoString} {a b : ResView}
    (hid : idName ∈ rules.map (fun r => (splitRule r).2)) (h : cmpRules rules a b = .eq) :
    a.id = b.id := by
  induction rules with
  | nil => simp at hid
  | cons r rs ih =>
    rw [cmpRules_cons] at h
    have h1 : cmpRule r a b = .eq := by
      revert h; unfold lexO; cases cmpRule r a b <;> simp
    have h2 : cmpRules rs a b = .eq := by rw [h1] at h; exact h
    rw [List.map_cons, List.mem_cons] at hid
    rcases hid with hid | hid
    · rw [cmpRule_eq, ← hid] at h1
      unfold cmpField at h1
      rw [if_pos rfl] at h1
      have : cmpIds a.id b.id = .eq := by
        revert h1; unfold orient; cases (splitRule r).1 <;> cases cmpIds a.id b.id <;> simp
      exact cmpIds_eq.1 this
    · exact ih hid h2

/-- Two orderings of the same resources (IDs unique) that both respect rules mentioning
`id` are the same list. -/
theorem sorted_unique {rules : List GoString}
    (hid : idName ∈ rules.map (fun r => (splitRule r).2))
    {l l₁ l₂ : List ResView} (hu : (l.map (·.id)).Nodup)
    (p₁ : l₁.Perm l) (p₂ : l₂.Perm l)
    (s₁ : l₁.Pairwise (fun a b => Spec.le rules a b = true))
    (s₂ : l₂.Pairwise (fun a b => Spec.le rules a b = true)) : l₁ = l₂ := by
  refine List.Perm.eq_of_pairwise (le := fun a b => Spec.le rules a b = true) ?_ s₁ s₂
    (p₁.trans p₂.symm)
  intro a b ha hb h1 h2
  apply eq_of_id_eq hu (p₁.mem_iff.1 ha) (p₂.mem_iff.1 hb)
  apply id_eq_of_cmpRules_eq hid
  unfold Spec.le at h1 h2
  rw [cmpRules_swap rules a b] at h2
  revert h1 h2
  cases cmpRules rules a b <;> simp

/-! ### `Range` -/

theorem beq_lt_true {o : Ordering} : (o == Ordering.lt) = true ↔ o = .lt := by
  cases o <;> decide

theorem beq_lt_false {o : Ordering} : (o == Ordering.lt) = false ↔ o ≠ .lt := by
  cases o <;> decide

theorem lessB_spec {col : List ResView} (hwf : ∀ r ∈ col, r.wf = true)
    {rules : List GoString} (ht : ∀ rule ∈ rules, RuleTyped col rule)
    (hc : ∀ rule ∈ rules, RuleCased col rule) {a b : ResView} (ha : a ∈ col) (hb : b ∈ col)
    (hne : a.id ≠ b.id) : lessB rules a b = (cmpRules rules a b == .lt) := by
  unfold lessB
  rw [(less_spec_aux hwf ha hb ht hc).2 hne]

theorem no_panic {col : List ResView} (hwf : ∀ r ∈ col, r.wf = true)
    {rules : List GoString} (ht : ∀ rule ∈ rules, RuleTyped col rule)
    (hc : ∀ rule ∈ rules, RuleCased col rule) :
    col.any (fun a => col.any (fun b => (less rules a b).isPanic)) = false := by
  rw [List.any_eq_false]
  intro a ha
  rw [Bool.not_eq_true, List.any_eq_false]
  intro b hb
  obtain ⟨x, hx⟩ := (less_spec_aux hwf ha hb ht hc).1
  rw [hx]; simp [Res.isPanic]

/-- The assembly: what `Range` returns, for a sorter that only consults `Less` on two
different elements of the slice. -/
theorem range_spec (S : Sorter)
    (hS : ∀ (lt lt' : ResView → ResView → Bool) (l : List ResView), l.Nodup →
      (∀ a ∈ l, ∀ b ∈ l, a ≠ b → lt a b = lt' a b) → S.sort lt l = S.sort lt' l)
    (c : List ResView) (ids : List GoString) (f : Option Filter) (rules rules' : List GoString)
    (hr : rules' = if rules.isEmpty then [idName] else rules)
    (hwf : ∀ r ∈ c, r.wf = true) (hu : (c.map (·.id)).Nodup) (hids : ids.Nodup)
    (ht : ∀ rule ∈ rules', RuleTyped c rule) (hc : ∀ rule ∈ rules', RuleCased c rule)
    (hf : ∀ flt, f = some flt → ∀ r ∈ c, isAllowed r flt = .ok (Spec.eval r flt)) :
    (S.sort (lessB rules') (Spec.matching c ids f)).Perm (Spec.matching c ids f) ∧
    (S.sort (lessB rules') (Spec.matching c ids f)).Pairwise
      (fun a b => Spec.le rules' a b = true) ∧
    ∀ size num, size < 2 ^ 64 → num * size < 2 ^ 63 →
      range S c ids f rules size num =
        .ok (Spec.page (S.sort (lessB rules') (Spec.matching c ids f)) size num) := by
  have hsub : ∀ r ∈ Spec.matching c ids f, r ∈ c := fun r hr => (List.mem_filter.1 hr).1
  have hcol : applyFilter f (selectIds c ids) = .ok (Spec.matching c ids f) := by
    rw [selectIds_eq c ids hids, applyFilter_eq, matching_eq]
    intro flt hflt r hr
    exact hf flt hflt r (List.mem_filter.1 hr).1
  have hwf' : ∀ r ∈ Spec.matching c ids f, r.wf = true := fun r hr => hwf r (hsub r hr)
  have ht' : ∀ rule ∈ rules', RuleTyped (Spec.matching c ids f) rule :=
    fun rule h => (ht rule h).mono hsub
  have hc' : ∀ rule ∈ rules', RuleCased (Spec.matching c ids f) rule :=
    fun rule h => (hc rule h).mono hsub
  have hu' : ((Spec.matching c ids f).map (·.id)).Nodup :=
    List.Nodup.sublist (List.Sublist.map _ List.filter_sublist) hu
  refine ⟨S.perm _ _, ?_, ?_⟩
  · have := S.sorted_of_local hS (lessB rules') (fun a b => cmpRules rules' a b == .lt)
      (Spec.matching c ids f) (nodup_of_nodup_map_id hu')
      (fun a _ => by simp only [cmpRules_refl]; rfl)
      (fun x hx y hy z hz h1 h2 => by
        rw [beq_lt_true] at *
        exact cmpRules_lt_trans hwf' ht' hx hy hz h1 h2)
      (fun x hx y hy z hz h1 h2 => by
        rw [beq_lt_false] at *
        exact cmpRules_nlt_trans hwf' ht' hx hy hz h1 h2)
      (fun x hx y hy hne =>
        lessB_spec hwf' ht' hc' hx hy (fun e => hne (eq_of_id_eq hu' hx hy e)))
    refine this.imp ?_
    intro a b h
    unfold Spec.le
    rw [cmpRules_swap rules' a b] at h
    revert h
    cases cmpRules rules' a b <;> simp
  · intro size num hs hp
    unfold range
    rw [hcol]
    simp only [← hr]
    rw [no_panic hwf' ht' hc']
    exact paginate_eq _ _ _ hs hp

theorem splitRule_neg {r : GoString} (h : (splitRule r).1 = true) :
    r = 45 :: (splitRule r).2 := by
  unfold splitRule at *
  split at h
  · rfl
  · cases h

theorem xorInv_self_false (x : GoString) : xorInv (decide (x < x)) false = false := by
  simp [xorInv, List.lt_irrefl]

/-- Without a rule `-id`, `Less` is irreflexive. -/
theorem less_self {col : List ResView} (hwf : ∀ r ∈ col, r.wf = true) {a : ResView}
    (ha : a ∈ col) :
    ∀ {rules : List GoString}, (∀ rule ∈ rules, RuleTyped col rule) →
      (∀ rule ∈ rules, RuleCased col rule) → (∀ rule ∈ rules, rule ≠ 45 :: idName) →
      less rules a a = .ok false
  | [], _, _, _ => rfl
  | r :: rest, ht, hc, hn => by
    have ih := less_self hwf ha (rules := rest)
      (fun rule hr => ht rule (List.mem_cons_of_mem _ hr))
      (fun rule hr => hc rule (List.mem_cons_of_mem _ hr))
      (fun rule hr => hn rule (List.mem_cons_of_mem _ hr))
    rw [less_cons]
    by_cases hid : (splitRule r).2 = idName
    · rw [if_pos hid]
      have : (splitRule r).1 = false := by
        cases h : (splitRule r).1
        · rfl
        · have := splitRule_neg h
          rw [hid] at this
          exact absurd this (hn r List.mem_cons_self)
      rw [this, xorInv_self_false]
    · rw [if_neg hid]
      have ht' := (ht r List.mem_cons_self).resolve_left hid
      have hc' := (hc r List.mem_cons_self).resolve_left hid
      obtain ⟨at', hat⟩ := ht'
      rw [lessVal_field (hwf a ha) (hwf a ha) (hat a ha) (hat a ha) (hc' a ha at' (hat a ha))]
      have : cmpSVal (sval (a.get (splitRule r).2)) (sval (a.get (splitRule r).2)) = .eq :=
        eq_of_eq_swap (cmpSVal_swap _ _)
      rw [this]
      have : orient (splitRule r).1 .eq = .eq := by cases (splitRule r).1 <;> rfl
      rw [this]
      exact ih

theorem less_neg_id_self (a : ResView) : less [45 :: idName] a a = .ok true := by
  simp [less, splitRule, xorInv, List.lt_irrefl]

/-! ### the specification's insertion sort -/

theorem perm_insertBy (le : ResView → ResView → Bool) (x : ResView) (l : List ResView) :
    (insertBy le x l).Perm (x :: l) := by
  induction l with
  | nil => exact List.Perm.refl _
  | cons y ys ih =>
    unfold insertBy
    split
    · exact List.Perm.refl _
    · exact (List.Perm.cons y ih).trans (List.Perm.swap x y ys)

theorem perm_sortBy (le : ResView → ResView → Bool) (l : List ResView) :
    (sortBy le l).Perm l := by
  induction l with
  | nil => exact List.Perm.refl _
  | cons x xs ih =>
    show (insertBy le x (sortBy le xs)).Perm (x :: xs)
    exact (perm_insertBy le x _).trans (List.Perm.cons x ih)

theorem pairwise_insertBy {le : ResView → ResView → Bool} {s : List ResView}
    (htot : ∀ a ∈ s, ∀ b ∈ s, le a b = false → le b a = true)
    (htr : ∀ a ∈ s, ∀ b ∈ s, ∀ c ∈ s, le a b = true → le b c = true → le a c = true)
    (x : ResView) (hx : x ∈ s) (l : List ResView) (hl : ∀ y ∈ l, y ∈ s)
    (hp : l.Pairwise (fun a b => le a b = true)) :
    (insertBy le x l).Pairwise (fun a b => le a b = true) := by
  induction l with
  | nil => simp [insertBy]
  | cons y ys ih =>
    have hy : y ∈ s := hl y List.mem_cons_self
    have hys : ∀ z ∈ ys, z ∈ s := fun z hz => hl z (List.mem_cons_of_mem _ hz)
    rw [List.pairwise_cons] at hp
    unfold insertBy
    by_cases h : le x y = true
    · rw [if_pos h]
      refine List.pairwise_cons.2 ⟨?_, List.pairwise_cons.2 hp⟩
      intro z hz
      rcases List.mem_cons.1 hz with rfl | hz'
      · exact h
      · exact htr x hx y hy z (hys z hz') h (hp.1 z hz')
    · rw [if_neg h]
      refine List.pairwise_cons.2 ⟨?_, ih hys hp.2⟩
      intro z hz
      have hz' := (perm_insertBy le x ys).mem_iff.1 hz
      rcases List.mem_cons.1 hz' with rfl | hz''
      · exact htot _ hx y hy (by simpa using h)
      · exact hp.1 z hz''

theorem pairwise_sortBy {le : ResView → ResView → Bool} {s : List ResView}
    (htot : ∀ a ∈ s, ∀ b ∈ s, le a b = false → le b a = true)
    (htr : ∀ a ∈ s, ∀ b ∈ s, ∀ c ∈ s, le a b = true → le b c = true → le a c = true)
    (l : List ResView) (hl : ∀ y ∈ l, y ∈ s) :
    (sortBy le l).Pairwise (fun a b => le a b = true) := by
  induction l with
  | nil => exact List.Pairwise.nil
  | cons x xs ih =>
    show (insertBy le x (sortBy le xs)).Pairwise _
    have hxs : ∀ y ∈ xs, y ∈ s := fun y hy => hl y (List.mem_cons_of_mem _ hy)
    exact pairwise_insertBy htot htr x (hl x List.mem_cons_self) _
      (fun y hy => hxs y ((perm_sortBy le xs).mem_iff.1 hy)) (ih hxs)

/-- The specification's sort does sort, on well-formed resources under typed rules. -/
theorem pairwise_sortBy_le {col : List ResView} (hwf : ∀ r ∈ col, r.wf = true)
    {rules : List GoString} (ht : ∀ rule ∈ rules, RuleTyped col rule) :
    (sortBy (Spec.le rules) col).Pairwise (fun a b => Spec.le rules a b = true) := by
  apply pairwise_sortBy (s := col) _ _ col (fun _ h => h)
  · intro a _ b _ h
    unfold Spec.le at *
    rw [cmpRules_swap rules a b]
    revert h
    cases cmpRules rules a b <;> simp
  · intro a ha b hb c hc h1 h2
    have := cmpRules_trLe hwf ht ha hb hc
    unfold Spec.le TrLe at *
    revert this h1 h2
    cases cmpRules rules a b <;> cases cmpRules rules b c <;> cases cmpRules rules a c <;> simp

end Jsonapi
