/- Helper lemmas for C05 / C06 / C13, part 2: canonical readings and typing, histories,
the invariant of a resource under construction (soft or wrapped) and the generic fold. -/
import Jsonapi.Proofs.UnmarshalLemmas
namespace Jsonapi
open GoMap

/-- Well-formed schema for unmarshaling: unique non-empty type names, well-formed types
whose field names are usable ("id" and "" excluded), struct-backed types declarable. -/
def SSchema.WF (σ : SSchema) : Prop :=
  (σ.map (·.typ.name)).Nodup ∧
  ∀ st ∈ σ, st.typ.name ≠ [] ∧ TypWF st.typ ∧ Spec.namesOk st.typ = true ∧
    (st.backed = true → Spec.structable st.typ = true)

namespace UnmL

/-! ### canonical reading -/

def canonPay (k : Kind) (p : Pay) : Pay :=
  match k, p with
  | .bytes, .bs none => .bs (some [])
  | _, p => p

theorem canon_val (k : Kind) (p : Pay) : Spec.canon (.val k p) = .val k (canonPay k p) := by
  cases k <;> cases p <;> first | rfl | (rename_i o; cases o <;> rfl)

theorem canon_ptr_some (k : Kind) (p : Pay) :
    Spec.canon (.ptr k (some p)) = .ptr k (some (canonPay k p)) := by
  cases k <;> cases p <;> first | rfl | (rename_i o; cases o <;> rfl)

theorem canon_ptr_none (k : Kind) : Spec.canon (.ptr k none) = .nil := rfl
theorem canon_strs (l : List GoString) : Spec.canon (.strs l) = .strs l := rfl
theorem canon_nil : Spec.canon .nil = .nil := rfl
theorem canon_other (n : Nat) : Spec.canon (.other n) = .other n := rfl

theorem payOk_canonPay (k' k : Kind) (p : Pay) : k'.payOk (canonPay k p) = k'.payOk p := by
  cases k <;> cases p <;> first | rfl | (rename_i o; cases o <;> rfl)

theorem canon_eq_string {x : GoVal} {id : GoString} (h : Spec.canon x = .val .string (.s id)) :
    x = .val .string (.s id) := by
  cases x with
  | val k p =>
    rw [canon_val] at h
    simp only [GoVal.val.injEq] at h
    obtain ⟨rfl, h⟩ := h
    cases p <;> simp_all [canonPay]
  | ptr k p =>
    cases p with
    | none => cases h
    | some p => rw [canon_ptr_some] at h; cases h
  | strs l => cases h
  | nil => cases h
  | other n => cases h

theorem canon_eq_strs {x : GoVal} {l : List GoString} (h : Spec.canon x = .strs l) : x = .strs l := by
  cases x with
  | val k p => rw [canon_val] at h; cases h
  | ptr k p =>
    cases p with
    | none => cases h
    | some p => rw [canon_ptr_some] at h; cases h
  | strs l' => exact h
  | nil => cases h
  | other n => cases h

theorem canon_eq_nil {x : GoVal} (h : Spec.canon x = .nil) : x = .nil ∨ ∃ k, x = .ptr k none := by
  cases x with
  | val k p => rw [canon_val] at h; cases h
  | ptr k p =>
    cases p with
    | none => exact .inr ⟨k, rfl⟩
    | some p => rw [canon_ptr_some] at h; cases h
  | strs l' => cases h
  | nil => exact .inl rfl
  | other n => cases h

/-- A value read back with the same canonical reading as a well-typed value is itself
well-typed (or untyped nil for a nullable attribute), provided a typed nil pointer read
back has the declared kind. -/
theorem canon_typed {x y : GoVal} {k : Kind} {n : Bool} (h : Spec.canon x = Spec.canon y)
    (hy : y.hasAttrType k n = true ∨ (n = true ∧ y = .nil))
    (hx : ∀ k', x = .ptr k' none → k' = k) :
    x.hasAttrType k n = true ∨ (n = true ∧ x = .nil) := by
  have nilcase : n = true → Spec.canon x = .nil → x.hasAttrType k n = true ∨ (n = true ∧ x = .nil) := by
    intro hn hc
    rcases canon_eq_nil hc with e | ⟨k', e⟩
    · exact .inr ⟨hn, e⟩
    · have := hx k' e
      subst this e
      left; simp [GoVal.hasAttrType, hn]
  rcases hy with hy | ⟨hn, hy⟩
  · cases y with
    | val ky py =>
      simp only [GoVal.hasAttrType, Bool.and_eq_true, Bool.not_eq_true', decide_eq_true_eq] at hy
      obtain ⟨⟨hn, hk⟩, hp⟩ := hy
      subst hk
      rw [canon_val] at h
      cases x with
      | val kx px =>
        rw [canon_val] at h
        simp only [GoVal.val.injEq] at h
        obtain ⟨rfl, hpp⟩ := h
        left
        simp only [GoVal.hasAttrType, hn, Bool.not_false, Bool.true_and, decide_true]
        rw [← payOk_canonPay kx kx px, hpp, payOk_canonPay]; exact hp
      | ptr kx px =>
        cases px with
        | none => cases h
        | some px => rw [canon_ptr_some] at h; cases h
      | strs l => cases h
      | nil => cases h
      | other m => cases h
    | ptr ky py =>
      cases py with
      | none =>
        simp only [GoVal.hasAttrType, Bool.and_eq_true, decide_eq_true_eq] at hy
        exact nilcase hy.1 h
      | some py =>
        simp only [GoVal.hasAttrType, Bool.and_eq_true, decide_eq_true_eq] at hy
        obtain ⟨⟨hn, hk⟩, hp⟩ := hy
        subst hk
        rw [canon_ptr_some] at h
        cases x with
        | val kx px => rw [canon_val] at h; cases h
        | ptr kx px =>
          cases px with
          | none => cases h
          | some px =>
            rw [canon_ptr_some] at h
            simp only [GoVal.ptr.injEq, Option.some.injEq] at h
            obtain ⟨rfl, hpp⟩ := h
            left
            simp only [GoVal.hasAttrType, hn, Bool.true_and, decide_true]
            rw [← payOk_canonPay kx kx px, hpp, payOk_canonPay]; exact hp
        | strs l => cases h
        | nil => cases h
        | other m => cases h
    | strs l => simp [GoVal.hasAttrType] at hy
    | nil => simp [GoVal.hasAttrType] at hy
    | other m => simp [GoVal.hasAttrType] at hy
  · subst hy
    exact nilcase hn h

/-! ### typing of the stored values of a SoftResource -/

/-- Every stored attribute value has the dynamic Go type of its attribute. -/
def SoftTyped (t : Typ) (d : GoMap GoVal) : Prop :=
  ∀ f a x, t.attrs.get? f = some a → d.get? f = some x → x.attrType = (a.ty, a.nullable)

theorem attr_of_get? {t : Typ} (ht : TypWF t) {f : GoString} {a : Attr} (h : t.attrs.get? f = some a) :
    f = a.name ∧ a.name ≠ [] ∧ ∃ k, Kind.ofCode? a.ty = some k := by
  obtain ⟨h1, h2, h3, h4⟩ := ht.attrs _ (mem_of_get? h)
  exact ⟨h1, h2, validKind h3 h4⟩

theorem rel_of_get? {t : Typ} (ht : TypWF t) {f : GoString} {r : Rel} (h : t.rels.get? f = some r) :
    f = r.fromName ∧ r.fromName ≠ [] ∧ r.toType ≠ [] ∧ t.attrs.get? f = none := by
  obtain ⟨h1, h2, h3⟩ := ht.rels _ (mem_of_get? h)
  exact ⟨h1, h2, h3, get?_eq_none_of_not_mem (fun h' => ht.disj f h' (mem_keys_of_get? h))⟩

theorem zero_attrType {a : Attr} {k : Kind} (hk : Kind.ofCode? a.ty = some k) :
    a.zero.attrType = (a.ty, a.nullable) := by
  have hc := Kind.code_of_ofCode? hk
  simp only [Attr.zero, hk, GoVal.zero]
  cases a.nullable <;> simp [GoVal.attrType, hc]

theorem SoftTyped.check {t : Typ} (ht : TypWF t) {d : GoMap GoVal}
    (hk : ∀ x ∈ keys d, x ∈ t.fieldKeys) (h : SoftTyped t d) : SoftTyped t (Soft.checkData t d) := by
  intro f a x ha hx
  have hf : f ∈ t.fieldKeys := List.mem_append_left _ (mem_keys_of_get? ha)
  rw [(checkData_spec ht d hk).2 f hf] at hx
  simp only [Option.some.injEq] at hx
  cases hd : d.get? f with
  | some y => rw [hd] at hx; simp only [Option.getD_some] at hx; subst hx; exact h f a y ha hd
  | none =>
    rw [hd] at hx; simp only [Option.getD_none] at hx; subst hx
    obtain ⟨_, _, k, hkk⟩ := attr_of_get? ht ha
    simp only [rawZero, ha]
    exact zero_attrType hkk

theorem SoftTyped.set_attr {t : Typ} {d : GoMap GoVal} (h : SoftTyped t d) {k : GoString} {a : Attr}
    {v : GoVal} (ha : t.attrs.get? k = some a) (hv : v.attrType = (a.ty, a.nullable)) :
    SoftTyped t (d.set k v) := by
  intro f a' x ha' hx
  by_cases e : f = k
  · subst e
    rw [get?_set_self] at hx
    rw [ha] at ha'
    cases ha'; cases hx; exact hv
  · rw [get?_set_ne _ _ _ _ e] at hx
    exact h f a' x ha' hx

theorem SoftTyped.set_other {t : Typ} {d : GoMap GoVal} (h : SoftTyped t d) {k : GoString}
    {v : GoVal} (ha : t.attrs.get? k = none) : SoftTyped t (d.set k v) := by
  intro f a' x ha' hx
  by_cases e : f = k
  · subst e; rw [ha] at ha'; cases ha'
  · rw [get?_set_ne _ _ _ _ e] at hx
    exact h f a' x ha' hx

theorem SoftTyped.step {t : Typ} (ht : TypWF t) {s : Soft} (hs : s.typ = t)
    (hk : ∀ x ∈ keys s.data, x ∈ t.fieldKeys) (h : SoftTyped t s.data) (k : GoString) (v : GoVal) :
    SoftTyped t (s.set k v).data := by
  subst hs
  have hc := SoftTyped.check ht hk h
  unfold Soft.set Soft.check
  simp only []
  split
  · exact hc
  · split
    · rename_i a ha
      split
      · rename_i hv; exact hc.set_attr ha hv
      · split
        · obtain ⟨_, _, kk, hkk⟩ := attr_of_get? ht ha
          exact hc.set_attr ha (zero_attrType hkk)
        · exact hc
    · rename_i ha
      split
      · split
        · split
          · exact hc.set_other ha
          · exact hc
        · split
          · exact hc
          · exact hc.set_other ha
        · exact hc
      · exact hc

/-! ### histories -/

theorem specGet_append_of_not_mem (t : Typ) (h rest : Hist) (f : GoString)
    (hf : f ∉ rest.map (·.1)) : Spec.specGet t (h ++ rest) f = Spec.specGet t h f := by
  induction rest generalizing h with
  | nil => simp
  | cons e rest ih =>
    simp only [List.map_cons, List.mem_cons, not_or] at hf
    have : h ++ e :: rest = (h ++ [e]) ++ rest := by simp
    rw [this, ih _ hf.2]
    obtain ⟨k, v⟩ := e
    rw [specGet_snoc, if_neg (fun e' => hf.1 e'.symm)]

theorem specId_append_of_not_mem (h rest : Hist) (hf : idName ∉ rest.map (·.1)) :
    Spec.specId (h ++ rest) = Spec.specId h := by
  induction rest generalizing h with
  | nil => simp
  | cons e rest ih =>
    simp only [List.map_cons, List.mem_cons, not_or] at hf
    have : h ++ e :: rest = (h ++ [e]) ++ rest := by simp
    rw [this, ih _ hf.2]
    obtain ⟨k, v⟩ := e
    rw [specId_snoc, if_neg (fun e' => hf.1 e'.symm)]

theorem specGet_of_not_mem (t : Typ) (h : Hist) (f : GoString) (hf : f ∉ h.map (·.1)) :
    Spec.specGet t h f = Spec.zeroOf t f := by
  have := specGet_append_of_not_mem t [] h f hf
  rw [List.nil_append] at this
  rw [this]; rfl

theorem specGet_of_mem (t : Typ) (h : Hist) (f : GoString) (v : GoVal) (hnd : (h.map (·.1)).Nodup)
    (hm : (f, v) ∈ h) : Spec.specGet t h f = Spec.canon v := by
  obtain ⟨h1, h2, e⟩ := List.append_of_mem hm
  subst e
  have hnot : f ∉ h2.map (·.1) := by
    simp only [List.map_append, List.map_cons, List.nodup_append, List.nodup_cons] at hnd
    exact hnd.2.1.1
  have : h1 ++ (f, v) :: h2 = (h1 ++ [(f, v)]) ++ h2 := by simp
  rw [this, specGet_append_of_not_mem _ _ _ _ hnot, specGet_snoc, if_pos rfl]

/-- The abstract value of a field after well-typed Sets is the canonical reading of a
well-typed value or of the field's zero value. -/
theorem specGet_typed {t : Typ} {h : Hist} (hok : SetHistOk t h) (f : GoString) :
    ∃ y, Spec.specGet t h f = Spec.canon y ∧ (Spec.setOk t f y = true ∨ y = rawZero t f) := by
  unfold Spec.specGet
  cases hfind : h.reverse.find? (fun p => p.1 = f) with
  | none => exact ⟨rawZero t f, (canon_rawZero t f).symm, .inr rfl⟩
  | some p =>
    have hm : p ∈ h := by simpa using List.mem_of_find?_eq_some hfind
    have hp : p.1 = f := by simpa using List.find?_some hfind
    refine ⟨p.2, rfl, .inl ?_⟩
    rw [← hp]; exact hok p hm

/-! ### the generic fold -/

theorem foldl_err {α β : Type} (f : Res α → β → Res α) (herr : ∀ b, f .err b = .err) (l : List β) :
    l.foldl f .err = .err := by
  induction l with
  | nil => rfl
  | cons b l ih => simp only [List.foldl_cons, herr, ih]

/-- A loop over payload entries: each entry either is bad (error), or is good and then
performs a Set (recorded in the history) or nothing. -/
theorem fold_inv {α β : Type} (f : Res α → β → Res α) (herr : ∀ b, f .err b = .err)
    (I : Hist → α → Prop) (entry : β → Option (GoString × GoVal)) (good : β → Bool)
    (h1 : ∀ h a b e, I h a → good b = true → entry b = some e →
      ∃ a', f (.ok a) b = .ok a' ∧ I (h ++ [e]) a')
    (h2 : ∀ h a b, I h a → good b = true → entry b = none → f (.ok a) b = .ok a)
    (h3 : ∀ h a b, I h a → good b = false → f (.ok a) b = .err)
    (l : List β) : ∀ h a, I h a →
      (l.all good = true → ∃ a', l.foldl f (.ok a) = .ok a' ∧ I (h ++ l.filterMap entry) a') ∧
      (l.all good = false → l.foldl f (.ok a) = .err) := by
  induction l with
  | nil => intro h a inv; exact ⟨fun _ => ⟨a, rfl, by simpa using inv⟩, fun hh => by simp at hh⟩
  | cons b l ih =>
    intro h a inv
    simp only [List.all_cons, List.foldl_cons]
    cases hg : good b with
    | false =>
      rw [h3 h a b inv hg, foldl_err f herr]
      exact ⟨fun hh => by simp at hh, fun _ => rfl⟩
    | true =>
      simp only [Bool.true_and]
      cases he : entry b with
      | none =>
        rw [h2 h a b inv hg he]
        simp only [List.filterMap_cons, he]
        exact ih h a inv
      | some e =>
        obtain ⟨a', e1, inv'⟩ := h1 h a b e inv hg he
        rw [e1]
        simp only [List.filterMap_cons, he]
        have := ih (h ++ [e]) a' inv'
        simpa [List.append_assoc] using this

/-- keys of the recorded history are keys of the payload, in order -/
theorem filterMap_keys_sublist {β : Type} (entry : GoString × β → Option (GoString × GoVal))
    (hk : ∀ p e, entry p = some e → e.1 = p.1) (l : GoMap β) :
    ((l.filterMap entry).map (·.1)).Sublist (keys l) := by
  induction l with
  | nil => exact List.Sublist.slnil
  | cons p l ih =>
    simp only [List.filterMap_cons, keys, List.map_cons]
    cases he : entry p with
    | none => exact List.Sublist.cons _ ih
    | some e =>
      simp only [List.map_cons]
      rw [hk p e he]
      exact List.Sublist.cons_cons _ ih

end UnmL
end Jsonapi
