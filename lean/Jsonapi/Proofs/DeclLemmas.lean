/- Helper lemmas for C17, part 3: the struct a user would declare for a type
(`declOfTyp`), `Check`/`Wrap` on it, and the wrapper's Get/Set against the history. -/
import Jsonapi.Proofs.ResourceLemmas
namespace Jsonapi
open GoMap

/-! ### `strings.Split(s, ",")` -/

theorem splitComma_go_append (cur a b : GoString) (h : comma ∉ a) :
    splitComma.go cur (a ++ b) = splitComma.go (a.reverse ++ cur) b := by
  induction a generalizing cur with
  | nil => rfl
  | cons c a ih =>
    simp only [List.mem_cons, not_or] at h
    have hc : ¬ c = comma := fun e => h.1 e.symm
    simp only [List.cons_append, splitComma.go, hc, if_false]
    rw [ih _ h.2]
    simp

theorem splitComma_nocomma (a : GoString) (h : comma ∉ a) : splitComma a = [a] := by
  have := splitComma_go_append [] a [] h
  simp only [List.append_nil] at this
  unfold splitComma
  rw [this]
  simp [splitComma.go]

theorem splitComma_comma (a b : GoString) (h : comma ∉ a) :
    splitComma (a ++ comma :: b) = a :: splitComma b := by
  unfold splitComma
  rw [splitComma_go_append [] a _ h]
  simp [splitComma.go]

theorem split_at_comma (s : GoString) :
    comma ∉ s ∨ ∃ a b, comma ∉ a ∧ s = a ++ comma :: b := by
  induction s with
  | nil => exact .inl (by simp)
  | cons c s ih =>
    by_cases hc : c = comma
    · exact .inr ⟨[], s, by simp, by simp [hc]⟩
    · rcases ih with h | ⟨a, b, h, e⟩
      · exact .inl (by simp only [List.mem_cons, not_or]; exact ⟨fun e => hc e.symm, h⟩)
      · exact .inr ⟨c :: a, b, by simp only [List.mem_cons, not_or]; exact ⟨fun e => hc e.symm, h⟩,
          by simp [e]⟩

/-- The first comma-separated piece is "rel" only for "rel" itself and for "rel,…". -/
theorem head_splitComma_rel (s : GoString) (h : (splitComma s).head? = some sRel) :
    s = sRel ∨ hasPrefix s sRelComma = true := by
  rcases split_at_comma s with hs | ⟨a, b, ha, e⟩
  · rw [splitComma_nocomma s hs] at h
    simp only [List.head?_cons, Option.some.injEq] at h
    exact .inl h
  · rw [e, splitComma_comma a b ha] at h
    simp only [List.head?_cons, Option.some.injEq] at h
    subst h
    right
    rw [e]
    simp [hasPrefix, sRel, sRelComma, comma]

/-! ### The declaration built for a type -/

def idField (t : Typ) : SField :=
  { name := sID, ty := .attr .string false, json := idName, api := t.name }

def attrTy (a : Attr) : GoTy :=
  match Kind.ofCode? a.ty with
  | some k => .attr k a.nullable
  | none => .other 0 false

def attrField (p : GoString × Attr) : SField :=
  { name := [70], ty := attrTy p.2, json := p.2.name, api := sAttr }

def relTy (r : Rel) : GoTy := if r.toOne then .attr .string false else .strs

def relApi (r : Rel) : GoString :=
  sRelComma ++ r.toType ++ (if r.toName = [] then [] else comma :: r.toName)

def relField (p : GoString × Rel) : SField :=
  { name := [70], ty := relTy p.2, json := p.2.fromName, api := relApi p.2 }

theorem declOfTyp_eq (t : Typ) :
    declOfTyp t = idField t :: ((Typ.sortByKey t.attrs).map attrField ++ (Typ.sortByKey t.rels).map relField) :=
  rfl

theorem sortByKey_perm {β} (m : GoMap β) : (Typ.sortByKey m).Perm m := List.mergeSort_perm _ _

theorem mem_declOfTyp (t : Typ) (f : SField) :
    f ∈ declOfTyp t ↔ f = idField t ∨ (∃ p ∈ t.attrs, f = attrField p) ∨ (∃ p ∈ t.rels, f = relField p) := by
  rw [declOfTyp_eq]
  simp only [List.mem_cons, List.mem_append, List.mem_map, (sortByKey_perm _).mem_iff]
  constructor
  · rintro (h | ⟨p, hp, e⟩ | ⟨p, hp, e⟩)
    · exact .inl h
    · exact .inr (.inl ⟨p, hp, e.symm⟩)
    · exact .inr (.inr ⟨p, hp, e.symm⟩)
  · rintro (h | ⟨p, hp, e⟩ | ⟨p, hp, e⟩)
    · exact .inl h
    · exact .inr (.inl ⟨p, hp, e.symm⟩)
    · exact .inr (.inr ⟨p, hp, e.symm⟩)

/-- json tags of the declaration: "id" and then a permutation of the field names. -/
theorem declOfTyp_json_perm {t : Typ} (ht : TypWF t) :
    ((declOfTyp t).map (·.json)).Perm (idName :: t.fieldKeys) := by
  rw [declOfTyp_eq]
  simp only [List.map_cons, List.map_append, List.map_map]
  refine List.Perm.cons _ (List.Perm.append ?_ ?_)
  · refine ((sortByKey_perm t.attrs).map _).trans ?_
    unfold GoMap.keys
    rw [List.map_congr_left (fun p hp => by
      show ((fun x : SField => x.json) ∘ attrField) p = p.1
      exact ((ht.attrs p hp).1).symm)]
  · refine ((sortByKey_perm t.rels).map _).trans ?_
    unfold GoMap.keys
    rw [List.map_congr_left (fun p hp => by
      show ((fun x : SField => x.json) ∘ relField) p = p.1
      exact ((ht.rels p hp).1).symm)]

theorem fieldKeys_nodup {t : Typ} (ht : TypWF t) : t.fieldKeys.Nodup := by
  unfold Typ.fieldKeys
  rw [List.nodup_append]
  exact ⟨ht.ndA, ht.ndR, fun a ha b hb e => ht.disj a ha (e ▸ hb)⟩

theorem declOfTyp_json_nodup {t : Typ} (ht : TypWF t) (hn : Spec.namesOk t = true) :
    ((declOfTyp t).map (·.json)).Nodup := by
  rw [(declOfTyp_json_perm ht).nodup_iff, List.nodup_cons]
  exact ⟨fun h => (namesOk_mem hn h).1 rfl, fieldKeys_nodup ht⟩

/-! ### `Check` accepts the declaration -/

/-- A type for which the declared struct passes `Check` and `Wrap`: the type name is
non-empty and does not read as a field tag, and no relationship target contains a comma. -/
def Spec.structable (t : Typ) : Bool :=
  t.name ≠ [] && t.name ≠ sAttr && t.name ≠ sRel && !hasPrefix t.name sRelComma &&
  t.rels.all (fun p => !p.2.toType.contains comma && !p.2.toName.contains comma)

theorem structable_name {t : Typ} (h : Spec.structable t = true) :
    t.name ≠ [] ∧ t.name ≠ sAttr ∧ t.name ≠ sRel ∧ hasPrefix t.name sRelComma = false := by
  unfold Spec.structable at h
  simp only [Bool.and_eq_true, decide_eq_true_eq, Bool.not_eq_true'] at h
  exact ⟨h.1.1.1.1, h.1.1.1.2, h.1.1.2, h.1.2⟩

theorem structable_rel {t : Typ} (h : Spec.structable t = true) {p : GoString × Rel} (hp : p ∈ t.rels) :
    comma ∉ p.2.toType ∧ comma ∉ p.2.toName := by
  unfold Spec.structable at h
  simp only [Bool.and_eq_true, List.all_eq_true] at h
  have := h.2 p hp
  simpa using this

theorem validKind {n : Nat} (h1 : 1 ≤ n) (h2 : n ≤ 14) : ∃ k, Kind.ofCode? n = some k := by
  have : ∀ n, n < 15 → 1 ≤ n → (Kind.ofCode? n).isSome = true := by decide
  have := this n (by omega) h1
  cases h : Kind.ofCode? n with
  | none => rw [h] at this; cases this
  | some k => exact ⟨k, rfl⟩

theorem attrTy_name_mem (k : Kind) (n : Bool) : (GoTy.attr k n).name ∈ Facts.checkAttrTypes := by
  cases k <;> cases n <;> decide

theorem relApi_eq (r : Rel) :
    relApi r = sRel ++ comma :: (r.toType ++ (if r.toName = [] then [] else comma :: r.toName)) := by
  simp [relApi, sRelComma, sRel, comma]

theorem splitComma_relApi (r : Rel) (h1 : comma ∉ r.toType) (h2 : comma ∉ r.toName) :
    splitComma (relApi r) =
      if r.toName = [] then [sRel, r.toType] else [sRel, r.toType, r.toName] := by
  rw [relApi_eq, splitComma_comma _ _ (by decide)]
  split
  · rw [List.append_nil, splitComma_nocomma _ h1]
  · rw [splitComma_comma _ _ h1, splitComma_nocomma _ h2]

theorem relApi_isRelTagged (r : Rel) : hasPrefix (relApi r) sRelComma = true := by
  simp [hasPrefix, relApi, List.append_assoc]

theorem relApi_ne_nil (r : Rel) : relApi r ≠ [] := by
  simp [relApi, sRelComma]

theorem relApi_ne_attr (r : Rel) : relApi r ≠ sAttr := by
  simp [relApi, sRelComma, sAttr]

theorem namesOk_of (seen : List GoString) (l : StructDecl)
    (h1 : ∀ f ∈ l, f.api ≠ [] ∧ f.json ≠ [] ∧ (f.name ≠ sID → f.json ≠ idName) ∧ f.json ∉ seen)
    (h2 : (l.map (·.json)).Nodup) : checkStruct.namesOk seen l = true := by
  induction l generalizing seen with
  | nil => rfl
  | cons f rest ih =>
    obtain ⟨a1, a2, a3, a4⟩ := h1 f List.mem_cons_self
    simp only [List.map_cons, List.nodup_cons] at h2
    unfold checkStruct.namesOk
    rw [if_neg a1]
    simp only []
    have hc : ¬ (((f.name ≠ sID && (f.isAttr || f.isRelTagged)) && (f.json = [] || f.json = idName)) ||
        (f.json ≠ [] && seen.contains f.json)) = true := by
      simp only [Bool.or_eq_true, Bool.and_eq_true, decide_eq_true_eq, List.contains_eq_mem, not_or,
        not_and]
      refine ⟨?_, fun _ => a4⟩
      rintro ⟨hid, _⟩
      exact ⟨a2, a3 hid⟩
    rw [if_neg hc]
    apply ih
    · intro g hg
      obtain ⟨b1, b2, b3, b4⟩ := h1 g (List.mem_cons_of_mem _ hg)
      refine ⟨b1, b2, b3, ?_⟩
      simp only [List.mem_cons, not_or]
      exact ⟨fun e => h2.1 (e ▸ List.mem_map.2 ⟨g, hg, rfl⟩), b4⟩
    · exact h2.2

theorem checkStruct_declOfTyp {t : Typ} (ht : TypWF t) (hn : Spec.namesOk t = true)
    (hs : Spec.structable t = true) : checkStruct (declOfTyp t) = true := by
  obtain ⟨n1, n2, n3, n4⟩ := structable_name hs
  have hfind : (declOfTyp t).find? (fun f => f.name = sID) = some (idField t) := by
    rw [declOfTyp_eq]; simp [idField]
  unfold checkStruct
  rw [hfind]
  simp only [Bool.and_eq_true]
  refine ⟨⟨⟨⟨⟨rfl, by simp [idField, n1]⟩, ?_⟩, ?_⟩, ?_⟩, ?_⟩
  · simp [idField, n2, n3, n4]
  · apply namesOk_of _ _ _ (declOfTyp_json_nodup ht hn)
    intro f hf
    rcases (mem_declOfTyp t f).1 hf with e | ⟨p, hp, e⟩ | ⟨p, hp, e⟩
    · subst e; exact ⟨n1, by simp [idField, idName], fun h => absurd rfl h, by simp⟩
    · subst e
      have hk : p.2.name ∈ t.fieldKeys :=
        List.mem_append_left _ (List.mem_map.2 ⟨p, hp, (ht.attrs p hp).1⟩)
      exact ⟨by simp [attrField, sAttr], (namesOk_mem hn hk).2, fun _ => (namesOk_mem hn hk).1, by simp⟩
    · subst e
      have hk : p.2.fromName ∈ t.fieldKeys :=
        List.mem_append_right _ (List.mem_map.2 ⟨p, hp, (ht.rels p hp).1⟩)
      exact ⟨relApi_ne_nil _, (namesOk_mem hn hk).2, fun _ => (namesOk_mem hn hk).1, by simp⟩
  · rw [List.all_eq_true]
    intro f hf
    rcases (mem_declOfTyp t f).1 hf with e | ⟨p, hp, e⟩ | ⟨p, hp, e⟩
    · subst e; simp [SField.isAttr, idField, n2]
    · subst e
      obtain ⟨_, _, k1, k2⟩ := ht.attrs p hp
      obtain ⟨k, hk⟩ := validKind k1 k2
      have : (attrField p).ty = .attr k p.2.nullable := by simp [attrField, attrTy, hk]
      rw [this]
      simp [attrTy_name_mem]
    · subst e; simp [SField.isAttr, relField, relApi_ne_attr]
  · rw [List.all_eq_true]
    intro f hf
    rcases (mem_declOfTyp t f).1 hf with e | ⟨p, hp, e⟩ | ⟨p, hp, e⟩
    · subst e; simp [SField.isRelTagged, idField, n3, n4]
    · subst e
      have : (attrField p).isRelTagged = false := by
        have h0 : (decide (sAttr = sRel) || hasPrefix sAttr sRelComma) = false := by decide
        exact h0
      simp [this]
    · subst e
      obtain ⟨c1, c2⟩ := structable_rel hs hp
      have hsp := splitComma_relApi p.2 c1 c2
      have hlen : 2 ≤ (splitComma (relField p).api).length ∧ (splitComma (relField p).api).length ≤ 3 := by
        show 2 ≤ (splitComma (relApi p.2)).length ∧ (splitComma (relApi p.2)).length ≤ 3
        rw [hsp]; split <;> simp
      have hty : (relField p).ty = .attr .string false ∨ (relField p).ty = .strs := by
        simp only [relField, relTy]; split <;> simp
      simp only [Bool.or_eq_true, Bool.and_eq_true, decide_eq_true_eq]
      exact .inr ⟨hlen, hty⟩

/-- The relationship loop of `Wrap` does not index out of range. -/
theorem structRels_ok (n : GoString) (l : StructDecl)
    (h : ∀ f ∈ l, (splitComma f.api).head? = some sRel → ∃ x, (splitComma f.api)[1]? = some x) :
    ∀ m0 : GoMap Rel, ∃ m, l.foldl (fun (acc : Res (GoMap Rel)) f =>
      match acc with
      | .ok m =>
        let tag := splitComma f.api
        let inv := if tag.length = 3 then tag[2]?.getD [] else []
        if tag.head? = some sRel then
          match tag[1]? with
          | none => .panic
          | some target =>
            .ok (m.set f.json { fromName := f.json, toOne := f.ty ≠ .strs, toType := target,
                                toName := inv, fromType := n, fromOne := false })
        else .ok m
      | e => e) (.ok m0) = .ok m := by
  induction l with
  | nil => intro m0; exact ⟨m0, rfl⟩
  | cons f rest ih =>
    intro m0
    simp only [List.foldl_cons]
    by_cases hh : (splitComma f.api).head? = some sRel
    · obtain ⟨x, hx⟩ := h f List.mem_cons_self hh
      simp only [hh, if_true, hx]
      exact ih (fun g hg => h g (List.mem_cons_of_mem _ hg)) _
    · simp only [hh, if_false]
      exact ih (fun g hg => h g (List.mem_cons_of_mem _ hg)) _

theorem structTypeName_declOfTyp (t : Typ) : structTypeName (declOfTyp t) = t.name := by
  unfold structTypeName
  have hfind : (declOfTyp t).find? (fun f => f.name = sID) = some (idField t) := by
    rw [declOfTyp_eq]; simp [idField]
  rw [hfind]; rfl

theorem structRels_declOfTyp {t : Typ} (hs : Spec.structable t = true) (n : GoString) :
    ∃ m, structRels n (declOfTyp t) = .ok m := by
  obtain ⟨n1, n2, n3, n4⟩ := structable_name hs
  unfold structRels
  apply structRels_ok
  intro f hf hh
  rcases (mem_declOfTyp t f).1 hf with e | ⟨p, hp, e⟩ | ⟨p, hp, e⟩
  · subst e
    rcases head_splitComma_rel _ hh with h | h
    · exact absurd h n3
    · rw [show (idField t).api = t.name from rfl, n4] at h; cases h
  · subst e
    have : splitComma (attrField p).api = [sAttr] := by simp only [attrField]; decide
    rw [this] at hh; exact absurd hh (by decide)
  · subst e
    obtain ⟨c1, c2⟩ := structable_rel hs hp
    show ∃ x, (splitComma (relApi p.2))[1]? = some x
    rw [splitComma_relApi p.2 c1 c2]
    split <;> exact ⟨_, rfl⟩

/-- `Wrap` succeeds on the declared struct. -/
theorem wrap_declOfTyp {t : Typ} (ht : TypWF t) (hn : Spec.namesOk t = true)
    (hs : Spec.structable t = true) (vals : List GoVal) :
    ∃ w, wrap (declOfTyp t) vals = .ok w ∧ w.decl = declOfTyp t ∧ w.vals = vals ∧ w.typ = t.name ∧
      w.attrs = structAttrs (declOfTyp t) ∧
      structRels t.name (declOfTyp t) = .ok w.rels := by
  obtain ⟨m, hm⟩ := structRels_declOfTyp hs t.name
  unfold wrap
  rw [checkStruct_declOfTyp ht hn hs, structTypeName_declOfTyp, hm]
  exact ⟨_, rfl, rfl, rfl, rfl, rfl, rfl⟩

/-! ### Field lookup in the declaration -/

/-- The Go type of the struct field declared for a field name. -/
def fieldTy (t : Typ) (k : GoString) : GoTy :=
  match t.attrs.get? k with
  | some a => attrTy a
  | none => match t.rels.get? k with
    | some r => relTy r
    | none => .other 0 false

/-- index selected by getField / setField in the declaration of `t` -/
def didx (t : Typ) (k : GoString) : Option Nat :=
  (declOfTyp t).findIdx? (fun f => f.json = k && f.api ≠ [])

theorem ty_of_mem_decl {t : Typ} (ht : TypWF t) (hn : Spec.namesOk t = true) {k : GoString}
    (hk : k ∈ t.fieldKeys) {f : SField} (hf : f ∈ declOfTyp t) (hj : f.json = k) :
    f.ty = fieldTy t k := by
  rcases (mem_declOfTyp t f).1 hf with e | ⟨p, hp, e⟩ | ⟨p, hp, e⟩
  · subst e; exact absurd hj.symm (namesOk_mem hn hk).1
  · subst e
    have e1 : p.1 = k := ((ht.attrs p hp).1).trans hj
    have hg : t.attrs.get? k = some p.2 := by
      rw [← e1]; exact get?_of_mem_nodup ht.ndA hp
    simp [fieldTy, hg, attrField]
  · subst e
    have e1 : p.1 = k := ((ht.rels p hp).1).trans hj
    have hkr : k ∈ t.rels.keys := List.mem_map.2 ⟨p, hp, e1⟩
    have hg : t.rels.get? k = some p.2 := by
      rw [← e1]; exact get?_of_mem_nodup ht.ndR hp
    have hna : t.attrs.get? k = none := get?_eq_none_of_not_mem (fun h => ht.disj k h hkr)
    simp [fieldTy, hg, hna, relField]

theorem exists_field_of_key {t : Typ} (ht : TypWF t) {k : GoString} (hk : k ∈ t.fieldKeys) :
    ∃ f ∈ declOfTyp t, f.json = k ∧ f.api ≠ [] := by
  rcases List.mem_append.1 hk with h | h
  · obtain ⟨p, hp, e⟩ := List.mem_map.1 h
    exact ⟨attrField p, (mem_declOfTyp t _).2 (.inr (.inl ⟨p, hp, rfl⟩)),
      ((ht.attrs p hp).1).symm.trans e, by simp [attrField, sAttr]⟩
  · obtain ⟨p, hp, e⟩ := List.mem_map.1 h
    exact ⟨relField p, (mem_declOfTyp t _).2 (.inr (.inr ⟨p, hp, rfl⟩)),
      ((ht.rels p hp).1).symm.trans e, relApi_ne_nil _⟩

/-- A field name selects a non-ID field of the declaration, of the expected Go type. -/
theorem didx_spec {t : Typ} (ht : TypWF t) (hn : Spec.namesOk t = true) {k : GoString}
    (hk : k ∈ t.fieldKeys) :
    ∃ i f, didx t k = some i ∧ i ≠ 0 ∧ (declOfTyp t)[i]? = some f ∧ f.json = k ∧ f.ty = fieldTy t k := by
  unfold didx
  cases hfi : (declOfTyp t).findIdx? (fun f => f.json = k && f.api ≠ []) with
  | none =>
    exfalso
    rw [List.findIdx?_eq_none_iff] at hfi
    obtain ⟨f, hf, e1, e2⟩ := exists_field_of_key ht hk
    have := hfi f hf
    simp [e1, e2] at this
  | some i =>
    obtain ⟨hlt, hp, _⟩ := List.findIdx?_eq_some_iff_getElem.1 hfi
    simp only [Bool.and_eq_true, decide_eq_true_eq] at hp
    refine ⟨i, (declOfTyp t)[i], rfl, ?_, by simp [hlt], hp.1,
      ty_of_mem_decl ht hn hk (List.getElem_mem hlt) hp.1⟩
    intro e
    subst e
    have : (declOfTyp t)[0].json = idName := by simp [declOfTyp_eq, idField]
    exact (namesOk_mem hn hk).1 (hp.1.symm.trans this)

theorem didx_inj {t : Typ} {k k' : GoString} {i : Nat} (h : didx t k = some i) (h' : didx t k' = some i) :
    k = k' := by
  unfold didx at h h'
  obtain ⟨hlt, hp, _⟩ := List.findIdx?_eq_some_iff_getElem.1 h
  obtain ⟨_, hp', _⟩ := List.findIdx?_eq_some_iff_getElem.1 h'
  simp only [Bool.and_eq_true, decide_eq_true_eq] at hp hp'
  exact hp.1.symm.trans hp'.1

theorem idIdx_declOfTyp (t : Typ) : (declOfTyp t).findIdx? (fun f => f.name = sID) = some 0 := by
  rw [declOfTyp_eq]; simp [List.findIdx?_cons, idField]

/-! ### Zero values of the declared fields -/

theorem canon_attrTy_zero {a : Attr} (h1 : 1 ≤ a.ty) (h2 : a.ty ≤ 14) :
    Spec.canon (attrTy a).zero = Spec.canon a.zero := by
  obtain ⟨k, hk⟩ := validKind h1 h2
  simp only [attrTy, Attr.zero, hk, GoTy.zero, GoTy.zero.GoVal.zero', GoVal.zero]
  cases a.nullable <;> cases k <;> rfl

theorem relTy_zero (r : Rel) : (relTy r).zero = r.zero := by
  unfold relTy Rel.zero
  split <;> rfl

theorem canon_fieldTy_zero {t : Typ} (ht : TypWF t) {k : GoString} (hk : k ∈ t.fieldKeys) :
    Spec.canon (fieldTy t k).zero = Spec.zeroOf t k := by
  unfold fieldTy Spec.zeroOf
  rcases List.mem_append.1 hk with h | h
  · obtain ⟨a, ha⟩ := exists_get?_of_mem_keys h
    obtain ⟨_, _, k1, k2⟩ := ht.attrs _ (mem_of_get? ha)
    simp only [ha]
    exact canon_attrTy_zero k1 k2
  · have hna : t.attrs.get? k = none := get?_eq_none_of_not_mem (fun h' => ht.disj k h' h)
    obtain ⟨r, hr⟩ := exists_get?_of_mem_keys h
    simp only [hna, hr]
    rw [relTy_zero, canon_relZero]

/-! ### The wrapper against the history -/

/-- What holds of the wrapped struct after the calls of `h`. -/
structure WInv (t : Typ) (h : Hist) (w : Wrapped) : Prop where
  decl : w.decl = declOfTyp t
  typ : w.typ = t.name
  len : w.vals.length = (declOfTyp t).length
  id : w.vals[0]? = some (.val .string (.s (Spec.specId h)))
  vals : ∀ f ∈ t.fieldKeys, ∀ i, didx t f = some i →
    ∃ v, w.vals[i]? = some v ∧ Spec.canon v = Spec.specGet t h f

theorem WInv.getID {t : Typ} {h : Hist} {w : Wrapped} (inv : WInv t h w) : w.getID = Spec.specId h := by
  unfold Wrapped.getID
  rw [inv.decl, idIdx_declOfTyp]
  simp only [inv.id]

theorem WInv.get_id {t : Typ} {h : Hist} {w : Wrapped} (inv : WInv t h w) :
    w.get idName = .ok (.val .string (.s (Spec.specId h))) := by
  unfold Wrapped.get
  rw [if_pos rfl, inv.getID]

theorem WInv.get_field {t : Typ} (ht : TypWF t) (hn : Spec.namesOk t = true) {h : Hist} {w : Wrapped}
    (inv : WInv t h w) {f : GoString} (hf : f ∈ t.fieldKeys) :
    ∃ v, w.get f = .ok v ∧ Spec.canon v = Spec.specGet t h f := by
  obtain ⟨hid, hne⟩ := namesOk_mem hn hf
  obtain ⟨i, _, hi, _, _, _, _⟩ := didx_spec ht hn hf
  obtain ⟨v, hv, hc⟩ := inv.vals f hf i hi
  unfold Wrapped.get Wrapped.getField Wrapped.fieldIdx
  rw [if_neg hid, if_neg hne, inv.decl]
  unfold didx at hi
  rw [hi]
  simp only []
  rw [hv]
  split
  · rename_i e; cases e
  · rename_i k' e
    simp only [Option.some.injEq] at e
    subst e
    exact ⟨.nil, rfl, by rw [← hc]; rfl⟩
  · rename_i v' _ e
    simp only [Option.some.injEq] at e
    subst e
    exact ⟨v, rfl, hc⟩

theorem WInv.init {t : Typ} (ht : TypWF t) (hn : Spec.namesOk t = true) (w : Wrapped)
    (hd : w.decl = declOfTyp t) (hv : w.vals = Wrapped.zeroVals (declOfTyp t))
    (hty : w.typ = t.name) : WInv t [] w := by
  refine ⟨hd, hty, by rw [hv]; simp [Wrapped.zeroVals], ?_, ?_⟩
  · rw [hv]; simp [Wrapped.zeroVals, declOfTyp_eq, idField, GoTy.zero, GoTy.zero.GoVal.zero', GoVal.zero,
      specId_nil]
  · intro f hf i hi
    obtain ⟨i', g, hi', _, hg, _, hty⟩ := didx_spec ht hn hf
    rw [hi] at hi'
    simp only [Option.some.injEq] at hi'
    subst hi'
    refine ⟨g.ty.zero, by rw [hv]; simp [Wrapped.zeroVals, hg], ?_⟩
    rw [hty, specGet_nil]
    exact canon_fieldTy_zero ht hf

theorem accepts_of_hasAttrType {v : GoVal} {k : Kind} {n : Bool} (h : v.hasAttrType k n = true) :
    (GoTy.attr k n).accepts v = true := by
  cases v with
  | val k' p =>
    simp only [GoVal.hasAttrType, Bool.and_eq_true, Bool.not_eq_true', decide_eq_true_eq] at h
    obtain ⟨⟨h1, h2⟩, _⟩ := h
    subst h1 h2; simp [GoTy.accepts]
  | ptr k' p =>
    cases p with
    | none =>
      simp only [GoVal.hasAttrType, Bool.and_eq_true, decide_eq_true_eq] at h
      obtain ⟨h1, h2⟩ := h
      subst h1 h2; simp [GoTy.accepts]
    | some p =>
      simp only [GoVal.hasAttrType, Bool.and_eq_true, decide_eq_true_eq] at h
      obtain ⟨⟨h1, h2⟩, _⟩ := h
      subst h1 h2; simp [GoTy.accepts]
  | strs l => simp [GoVal.hasAttrType] at h
  | nil => simp [GoVal.hasAttrType] at h
  | other n => simp [GoVal.hasAttrType] at h

/-- A well-typed value for field `k`: either a non-nil value the field's Go type accepts,
or untyped nil for a nullable attribute (stored as the typed nil pointer). -/
theorem setOk_field {t : Typ} {k : GoString} {v : GoVal} (hkid : k ≠ idName)
    (hok : Spec.setOk t k v = true) :
    k ∈ t.fieldKeys ∧
    ((v ≠ .nil ∧ (fieldTy t k).accepts v = true) ∨
     (v = .nil ∧ Spec.canon (fieldTy t k).zero = .nil)) := by
  unfold Spec.setOk at hok
  rw [if_neg hkid] at hok
  unfold fieldTy
  cases ha : t.attrs.get? k with
  | some a =>
    refine ⟨List.mem_append_left _ (mem_keys_of_get? ha), ?_⟩
    simp only [ha] at hok ⊢
    cases hkind : Kind.ofCode? a.ty with
    | none => simp [hkind] at hok
    | some kind =>
      simp only [hkind, Bool.or_eq_true, Bool.and_eq_true, decide_eq_true_eq] at hok
      simp only [attrTy, hkind]
      rcases hok with hok | ⟨hnul, hnil⟩
      · left
        refine ⟨?_, accepts_of_hasAttrType hok⟩
        intro e; subst e; simp [GoVal.hasAttrType] at hok
      · right
        exact ⟨hnil, by simp [hnul, GoTy.zero, GoTy.zero.GoVal.zero', Spec.canon]⟩
  | none =>
    simp only [ha] at hok ⊢
    cases hr : t.rels.get? k with
    | none => simp [hr] at hok
    | some r =>
      refine ⟨List.mem_append_right _ (mem_keys_of_get? hr), ?_⟩
      simp only [hr] at hok ⊢
      left
      split at hok
      · simp [relTy, hok, GoTy.accepts]
      · simp only [Bool.not_eq_true'] at hok
        simp [relTy, hok, GoTy.accepts]
      · cases hok

/-- One well-typed Set succeeds and keeps the invariant. -/
theorem WInv.step {t : Typ} (ht : TypWF t) (hn : Spec.namesOk t = true) {h : Hist} {w : Wrapped}
    (inv : WInv t h w) (k : GoString) (v : GoVal) (hok : Spec.setOk t k v = true) :
    ∃ w', w.set k v = .ok w' ∧ WInv t (h ++ [(k, v)]) w' := by
  have hpos : 0 < (declOfTyp t).length := by rw [declOfTyp_eq]; simp
  by_cases hkid : k = idName
  · -- the ID
    have hd0 : (declOfTyp t)[0]? = some (idField t) := by rw [declOfTyp_eq]; rfl
    refine ⟨{ w with vals := w.vals.set 0 (.val .string (.s (idOf v))) }, ?_, ?_⟩
    · unfold Wrapped.set Wrapped.setID
      rw [if_pos hkid, inv.decl, idIdx_declOfTyp]
      simp only [hd0]
      rfl
    · refine ⟨inv.decl, inv.typ, by simp [inv.len], ?_, ?_⟩
      · rw [specId_snoc, if_pos hkid]
        simp [inv.len, hpos]
      · intro f hf i hi
        obtain ⟨i', _, hi', hne, _, _, _⟩ := didx_spec ht hn hf
        rw [hi] at hi'; simp only [Option.some.injEq] at hi'; subst hi'
        obtain ⟨x, hx, hc⟩ := inv.vals f hf i hi
        refine ⟨x, by simp only [List.getElem?_set, if_neg (Ne.symm hne)]; exact hx, ?_⟩
        rw [specGet_snoc, if_neg (fun e => (namesOk_mem hn hf).1 (e.symm.trans hkid))]
        exact hc
  · obtain ⟨hkf, hcase⟩ := setOk_field hkid hok
    obtain ⟨i, g, hi, hne0, hg, hgj, hgty⟩ := didx_spec ht hn hkf
    have hlt : i < w.vals.length := by
      rw [inv.len]
      exact (List.getElem?_eq_some_iff.1 hg).1
    -- the stored value
    have key : ∀ x : GoVal, Spec.canon x = Spec.canon v →
        WInv t (h ++ [(k, v)]) { w with vals := w.vals.set i x } := by
      intro x hx
      refine ⟨inv.decl, inv.typ, by simp [inv.len], ?_, ?_⟩
      · rw [specId_snoc, if_neg hkid]
        simp only [List.getElem?_set, if_neg hne0]
        exact inv.id
      · intro f hf j hj
        rw [specGet_snoc]
        by_cases e : k = f
        · subst e
          rw [hi] at hj; simp only [Option.some.injEq] at hj; subst hj
          exact ⟨x, by simp [hlt], by rw [if_pos rfl]; exact hx⟩
        · have hij : i ≠ j := fun e' => e (didx_inj hi (e' ▸ hj))
          obtain ⟨y, hy, hc⟩ := inv.vals f hf j hj
          exact ⟨y, by simp only [List.getElem?_set, if_neg hij]; exact hy, by rw [if_neg e]; exact hc⟩
    have hfi : w.fieldIdx k = some i := by
      unfold Wrapped.fieldIdx; rw [inv.decl]; exact hi
    unfold Wrapped.set Wrapped.setField
    rw [if_neg hkid, if_neg (namesOk_mem hn hkf).2, hfi]
    have hg' : w.decl[i]? = some g := by rw [inv.decl]; exact hg
    simp only [hg']
    rcases hcase with ⟨hnn, hacc⟩ | ⟨hnil, hz⟩
    · rw [if_neg hnn, hgty, if_pos hacc]
      exact ⟨_, rfl, key v rfl⟩
    · rw [if_pos hnil]
      refine ⟨_, rfl, key _ ?_⟩
      rw [hgty, hz, hnil]; rfl

/-- All the Sets of a history, one after the other (a panic or error is absorbing). -/
def runSets (w : Wrapped) (h : Hist) : Res Wrapped :=
  h.foldl (fun acc p => acc.bind (fun w => w.set p.1 p.2)) (.ok w)

theorem WInv.run {t : Typ} (ht : TypWF t) (hn : Spec.namesOk t = true) (h : Hist) (hok : SetHistOk t h) :
    ∀ (pre : Hist) (w : Wrapped), WInv t pre w →
      ∃ w', runSets w h = .ok w' ∧ WInv t (pre ++ h) w' := by
  induction h with
  | nil => intro pre w inv; exact ⟨w, rfl, by simpa using inv⟩
  | cons p h ih =>
    intro pre w inv
    obtain ⟨w1, h1, inv1⟩ := WInv.step ht hn inv p.1 p.2 (hok p List.mem_cons_self)
    obtain ⟨w2, h2, inv2⟩ := ih (fun q hq => hok q (List.mem_cons_of_mem _ hq)) _ w1 inv1
    refine ⟨w2, ?_, by simpa [List.append_assoc] using inv2⟩
    unfold runSets at h2 ⊢
    simp only [List.foldl_cons, Res.bind, h1]
    exact h2

/-! ### The attribute and relationship maps `Wrap` builds for the declaration -/

/-- the loop body of `structAttrs` -/
def attrsStep (m : GoMap Attr) (f : SField) : GoMap Attr :=
  if f.isAttr then
    match f.ty with
    | .attr k n => m.set f.json { name := f.json, ty := k.code, nullable := n }
    | _ => m.set f.json { name := f.json, ty := 0, nullable := false }
  else m

theorem structAttrs_eq_foldl (d : StructDecl) : structAttrs d = d.foldl attrsStep [] := rfl

theorem attrsStep_skip (l : StructDecl) (m : GoMap Attr) (h : ∀ f ∈ l, f.isAttr = false) :
    l.foldl attrsStep m = m := by
  induction l generalizing m with
  | nil => rfl
  | cons f l ih =>
    simp only [List.foldl_cons]
    have : attrsStep m f = m := by unfold attrsStep; rw [h f List.mem_cons_self]; rfl
    rw [this]
    exact ih m (fun g hg => h g (List.mem_cons_of_mem _ hg))

theorem attrsStep_attrField (m : GoMap Attr) (p : GoString × Attr)
    (hp : p.1 = p.2.name ∧ p.2.name ≠ [] ∧ 1 ≤ p.2.ty ∧ p.2.ty ≤ 14) :
    attrsStep m (attrField p) = m.set p.1 p.2 := by
  obtain ⟨k, hk⟩ := validKind hp.2.2.1 hp.2.2.2
  have hc := Kind.code_of_ofCode? hk
  unfold attrsStep
  have h1 : (attrField p).isAttr = true := by simp [attrField, SField.isAttr]
  have h2 : (attrField p).ty = .attr k p.2.nullable := by simp [attrField, attrTy, hk]
  rw [h1, if_pos rfl, h2]
  simp only [attrField, hc, ← hp.1]
  rw [hp.1]

theorem foldl_attrFields (A : GoMap Attr) (m : GoMap Attr)
    (hA : ∀ p ∈ A, p.1 = p.2.name ∧ p.2.name ≠ [] ∧ 1 ≤ p.2.ty ∧ p.2.ty ≤ 14)
    (hnd : (m.keys ++ A.keys).Nodup) :
    (A.map attrField).foldl attrsStep m = m ++ A := by
  induction A generalizing m with
  | nil => simp
  | cons p A ih =>
    simp only [List.map_cons, List.foldl_cons]
    rw [attrsStep_attrField m p (hA p List.mem_cons_self)]
    have hnm : p.1 ∉ m.keys := by
      intro hm
      rw [List.nodup_append] at hnd
      exact hnd.2.2 _ hm _ (by simp [keys]) rfl
    rw [set_of_not_mem m p.1 p.2 hnm]
    rw [ih (m ++ [(p.1, p.2)]) (fun q hq => hA q (List.mem_cons_of_mem _ hq))
      (by simpa [keys, List.append_assoc] using hnd)]
    simp

theorem sortByKey_keys_perm {β} (m : GoMap β) : (Typ.sortByKey m).keys.Perm m.keys :=
  (sortByKey_perm m).map _

theorem structAttrs_declOfTyp {t : Typ} (ht : TypWF t) (hs : Spec.structable t = true) :
    structAttrs (declOfTyp t) = Typ.sortByKey t.attrs := by
  obtain ⟨_, n2, _, _⟩ := structable_name hs
  rw [structAttrs_eq_foldl, declOfTyp_eq, List.foldl_cons, List.foldl_append]
  have h0 : attrsStep [] (idField t) = [] := by
    unfold attrsStep
    have : (idField t).isAttr = false := by simp [SField.isAttr, idField, n2]
    rw [this]; rfl
  rw [h0, foldl_attrFields _ [] (fun p hp => ht.attrs p ((sortByKey_perm _).mem_iff.1 hp))
    (by simpa [keys] using (sortByKey_keys_perm t.attrs).nodup_iff.2 ht.ndA)]
  rw [attrsStep_skip]
  · rfl
  · intro f hf
    obtain ⟨p, _, e⟩ := List.mem_map.1 hf
    subst e
    simp [SField.isAttr, relField, relApi_ne_attr]

/-- the loop body of `structRels` -/
def relsStep (n : GoString) (acc : Res (GoMap Rel)) (f : SField) : Res (GoMap Rel) :=
  match acc with
  | .ok m =>
    let tag := splitComma f.api
    let inv := if tag.length = 3 then tag[2]?.getD [] else []
    if tag.head? = some sRel then
      match tag[1]? with
      | none => .panic
      | some target =>
        .ok (m.set f.json { fromName := f.json, toOne := f.ty ≠ .strs, toType := target,
                            toName := inv, fromType := n, fromOne := false })
    else .ok m
  | e => e

theorem structRels_eq_foldl (n : GoString) (d : StructDecl) :
    structRels n d = d.foldl (relsStep n) (.ok []) := rfl

theorem relsStep_skip (n : GoString) (l : StructDecl) (m : GoMap Rel)
    (h : ∀ f ∈ l, (splitComma f.api).head? ≠ some sRel) :
    l.foldl (relsStep n) (.ok m) = .ok m := by
  induction l with
  | nil => rfl
  | cons f l ih =>
    simp only [List.foldl_cons]
    have : relsStep n (.ok m) f = .ok m := by
      unfold relsStep
      simp only [h f List.mem_cons_self, if_false]
    rw [this]
    exact ih (fun g hg => h g (List.mem_cons_of_mem _ hg))

/-- The relationship definition `Wrap` derives from the declared field. -/
def normRel (n : GoString) (r : Rel) : Rel := { r with fromType := n, fromOne := false }

theorem relsStep_relField (n : GoString) (m : GoMap Rel) (p : GoString × Rel)
    (hp : p.1 = p.2.fromName) (c1 : comma ∉ p.2.toType) (c2 : comma ∉ p.2.toName) :
    relsStep n (.ok m) (relField p) = .ok (m.set p.1 (normRel n p.2)) := by
  have hsp := splitComma_relApi p.2 c1 c2
  unfold relsStep
  simp only [show (relField p).api = relApi p.2 from rfl, hsp]
  have hone : decide ((relField p).ty ≠ GoTy.strs) = p.2.toOne := by
    simp only [relField, relTy]
    by_cases ho : p.2.toOne = true <;> simp [ho]
  by_cases hN : p.2.toName = []
  · simp only [hN, if_true, List.head?_cons, List.length_cons, List.length_nil]
    simp only [show (0 + 1 + 1 = 3) = False from by simp, if_false, List.getElem?_cons_succ,
      List.getElem?_cons_zero]
    rw [hone, hp]
    simp only [relField, normRel, ← hN]
  · simp only [hN, if_false, List.head?_cons, List.length_cons, List.length_nil, if_true,
      List.getElem?_cons_succ, List.getElem?_cons_zero, Option.getD_some]
    rw [hone, hp]
    simp only [relField, normRel]

theorem foldl_relFields (n : GoString) (R : GoMap Rel) (m : GoMap Rel)
    (hR : ∀ p ∈ R, p.1 = p.2.fromName ∧ comma ∉ p.2.toType ∧ comma ∉ p.2.toName)
    (hnd : (m.keys ++ R.keys).Nodup) :
    (R.map relField).foldl (relsStep n) (.ok m) = .ok (m ++ R.map (fun p => (p.1, normRel n p.2))) := by
  induction R generalizing m with
  | nil => simp
  | cons p R ih =>
    simp only [List.map_cons, List.foldl_cons]
    obtain ⟨a1, a2, a3⟩ := hR p List.mem_cons_self
    rw [relsStep_relField n m p a1 a2 a3]
    have hnm : p.1 ∉ m.keys := by
      intro hm
      rw [List.nodup_append] at hnd
      exact hnd.2.2 _ hm _ (by simp [keys]) rfl
    rw [set_of_not_mem m p.1 _ hnm]
    rw [ih (m ++ [(p.1, normRel n p.2)]) (fun q hq => hR q (List.mem_cons_of_mem _ hq))
      (by simpa [keys, List.append_assoc] using hnd)]
    simp

theorem structRels_declOfTyp_eq {t : Typ} (ht : TypWF t) (hs : Spec.structable t = true) :
    structRels t.name (declOfTyp t) =
      .ok ((Typ.sortByKey t.rels).map (fun p => (p.1, normRel t.name p.2))) := by
  obtain ⟨_, _, n3, n4⟩ := structable_name hs
  rw [structRels_eq_foldl, declOfTyp_eq, List.foldl_cons, List.foldl_append]
  have h0 : relsStep t.name (.ok []) (idField t) = .ok [] := by
    have := relsStep_skip t.name [idField t] [] (by
      intro f hf hh
      simp only [List.mem_singleton] at hf; subst hf
      rcases head_splitComma_rel _ hh with h | h
      · exact absurd h n3
      · rw [show (idField t).api = t.name from rfl, n4] at h; cases h)
    simpa using this
  rw [h0, relsStep_skip]
  · have := foldl_relFields t.name (Typ.sortByKey t.rels) []
      (fun p hp => by
        have hp' := (sortByKey_perm _).mem_iff.1 hp
        exact ⟨(ht.rels p hp').1, structable_rel hs hp'⟩)
      (by simpa [keys] using (sortByKey_keys_perm t.rels).nodup_iff.2 ht.ndR)
    simpa using this
  · intro f hf
    obtain ⟨p, _, e⟩ := List.mem_map.1 hf
    subst e
    have : splitComma (attrField p).api = [sAttr] := by simp only [attrField]; decide
    rw [this]; decide

/-! ### The view of a wrapped struct -/

theorem filterMap_get_eq (names : List GoString) (g : GoString → Res GoVal)
    (h : ∀ n ∈ names, ∃ v, g n = .ok v) :
    names.filterMap (fun n => match g n with | .ok v => some (n, v) | _ => none) =
      names.map (fun n => (n, match g n with | .ok v => v | _ => GoVal.nil)) := by
  induction names with
  | nil => rfl
  | cons a l ih =>
    obtain ⟨v, hv⟩ := h a List.mem_cons_self
    simp only [List.filterMap_cons, List.map_cons, hv]
    rw [ih (fun n hn => h n (List.mem_cons_of_mem _ hn))]

/-- When the wrapper's field maps have the type's field names, every Get of the view
succeeds and the view holds exactly what Get returns. -/
theorem WInv.view {t : Typ} (ht : TypWF t) (hn : Spec.namesOk t = true) {h : Hist} {w : Wrapped}
    (inv : WInv t h w) (hA : w.attrs.keys.Perm t.attrs.keys) (hR : w.rels.keys.Perm t.rels.keys) :
    ∃ v, w.view = some v ∧ v.typeName = w.typ ∧ v.id = Spec.specId h ∧ v.attrs = w.attrs ∧
      v.rels = w.rels ∧ ∀ f ∈ t.fieldKeys, ∀ x, w.get f = .ok x → v.get f = x := by
  have hnames : ∀ n, n ∈ w.attrs.keys ++ w.rels.keys ↔ n ∈ t.fieldKeys := by
    intro n
    unfold Typ.fieldKeys
    simp only [List.mem_append, hA.mem_iff, hR.mem_iff]
  have hall : ∀ n ∈ w.attrs.keys ++ w.rels.keys, ∃ v, w.get n = .ok v := by
    intro n hn'
    obtain ⟨v, hv, _⟩ := inv.get_field ht hn ((hnames n).1 hn')
    exact ⟨v, hv⟩
  unfold Wrapped.view
  simp only []
  generalize hvals : List.filterMap _ (w.attrs.keys ++ w.rels.keys) = vals
  have e : vals = (w.attrs.keys ++ w.rels.keys).map
      (fun n => (n, match w.get n with | .ok v => v | _ => GoVal.nil)) := by
    rw [← hvals]; exact filterMap_get_eq _ _ hall
  subst e
  simp only [List.length_map, if_true]
  refine ⟨_, rfl, rfl, inv.getID, rfl, rfl, ?_⟩
  intro f hf x hx
  unfold ResView.get
  simp only []
  rw [get?_map_mk, if_pos ((hnames f).2 hf), hx]
  rfl

end Jsonapi
