/- Helper lemmas for C06 / C13, part 6: acceptance of integer literals per kind, and what
the fields of an accepted resource read. -/
import Jsonapi.Proofs.UnmarshalLemmas5
namespace Jsonapi
open GoMap
namespace UnmL

/-! ### integer kinds -/

theorem signed_accept (k : Kind) (hs : k.isSigned = true) (s : GoString) (hplus : s.head? ≠ some 43)
    (n : Int) :
    parseInt k.bits s = some n ↔
      Spec.intLit s = some n ∧ ∃ lo hi, k.range? = some (lo, hi) ∧ lo ≤ n ∧ n ≤ hi := by
  rw [parseInt_spec k.bits s n hplus, Kind.signed_range k hs]
  constructor
  · rintro ⟨h1, h2, h3⟩
    exact ⟨h1, _, _, rfl, h2, by omega⟩
  · rintro ⟨h1, lo, hi, e, h2, h3⟩
    simp only [Option.some.injEq, Prod.mk.injEq] at e
    obtain ⟨rfl, rfl⟩ := e
    exact ⟨h1, h2, by omega⟩

theorem unsigned_accept (k : Kind) (hu : k.isUnsigned = true) (s : GoString) (n : Int) :
    (∃ m : Nat, parseUint k.bits s = some m ∧ (m : Int) = n) ↔
      Spec.intLit s = some n ∧ (∃ lo hi, k.range? = some (lo, hi) ∧ lo ≤ n ∧ n ≤ hi) ∧
        s.head? ≠ some 45 := by
  rw [Kind.unsigned_range k hu]
  constructor
  · rintro ⟨m, h, rfl⟩
    obtain ⟨h1, h2, h3⟩ := (parseUint_intLit k.bits s m).1 h
    exact ⟨h1, ⟨_, _, rfl, by omega, by omega⟩, h3⟩
  · rintro ⟨h1, ⟨lo, hi, e, h2, h3⟩, h4⟩
    simp only [Option.some.injEq, Prod.mk.injEq] at e
    obtain ⟨rfl, rfl⟩ := e
    refine ⟨n.toNat, (parseUint_intLit k.bits s n.toNat).2 ⟨?_, ?_, h4⟩, ?_⟩
    · rw [h1]; congr 1; omega
    · omega
    · omega

/-! ### what the fields of an accepted resource read -/

theorem all_attrEntry {t : Typ} {l : GoMap RawVal} (h : attrsOk t l = true) {p : GoString × RawVal}
    (hp : p ∈ l) : ∃ e, attrEntry t p = some e := by
  unfold attrsOk at h
  rw [List.all_eq_true] at h
  have := h p hp
  cases he : attrEntry t p with
  | none => rw [he] at this; cases this
  | some e => exact ⟨e, rfl⟩

theorem all_relOk {t : Typ} {l : GoMap RelRaw} (h : relsOk t l = true) {p : GoString × RelRaw}
    (hp : p ∈ l) : ∃ rel, t.rels.get? p.1 = some rel ∧ (relValue rel p.2).2 = false := by
  unfold relsOk at h
  rw [List.all_eq_true] at h
  have := h p hp
  unfold relOk at this
  cases hr : t.rels.get? p.1 with
  | none => rw [hr] at this; cases this
  | some rel => rw [hr] at this; exact ⟨rel, rfl, by simpa using this⟩

theorem relEntry_of_present {t : Typ} {p : GoString × RelRaw} {rel : Rel}
    (hr : t.rels.get? p.1 = some rel) (hp : p.2.present = true) :
    ∃ x, (relValue rel p.2).1 = some x ∧ relEntry t p = some (rel.fromName, x) := by
  have := relValue_isSome rel p.2
  rw [hp] at this
  cases hv : (relValue rel p.2).1 with
  | none => rw [hv] at this; cases this
  | some x => exact ⟨x, rfl, by simp [relEntry, hr, hv]⟩

theorem attrsOk_iff (t : Typ) (l : GoMap RawVal) :
    attrsOk t l = true ↔
      ∀ p ∈ l, ∃ a v, t.attrs.get? p.1 = some a ∧ unmarshalToType a p.2 = .ok v := by
  unfold attrsOk
  rw [List.all_eq_true]
  refine forall_congr' fun p => forall_congr' fun _ => ?_
  unfold attrEntry
  cases ha : t.attrs.get? p.1 with
  | none => simp
  | some a =>
    cases hv : unmarshalToType a p.2 with
    | ok v => simp [hv]
    | err => simp [hv]
    | panic => simp [hv]

theorem relsOk_iff (t : Typ) (l : GoMap RelRaw) :
    relsOk t l = true ↔
      ∀ p ∈ l, ∃ rel, t.rels.get? p.1 = some rel ∧ (relValue rel p.2).2 = false := by
  unfold relsOk
  rw [List.all_eq_true]
  refine forall_congr' fun p => forall_congr' fun _ => ?_
  unfold relOk
  cases hr : t.rels.get? p.1 with
  | none => simp
  | some rel => simp

/-- Reading the history of an accepted payload, field by field. -/
theorem fullHist_reads {t : Typ} (ht : TypWF t) (hn : Spec.namesOk t = true) (sk : ResSke)
    (hA : sk.attrs.keys.Nodup) (hR : sk.rels.keys.Nodup)
    (okA : attrsOk t sk.attrs = true) (okR : relsOk t sk.rels = true) :
    (∀ key raw, sk.attrs.get? key = some raw → ∃ a x, t.attrs.get? key = some a ∧
      unmarshalToType a raw = .ok x ∧ Spec.specGet t (fullHist t sk) key = Spec.canon x) ∧
    (∀ key rv, sk.rels.get? key = some rv → ∃ rel, t.rels.get? key = some rel ∧
      (relValue rel rv).2 = false ∧
      (rv.present = true → ∃ x, (relValue rel rv).1 = some x ∧
        Spec.specGet t (fullHist t sk) key = x)) ∧
    (∀ f, sk.attrs.has f = false → (∀ rv, sk.rels.get? f = some rv → rv.present = false) →
      f ≠ idName → Spec.specGet t (fullHist t sk) f = Spec.zeroOf t f) := by
  have hnd := fullHist_nodup ht hn sk hA hR
  refine ⟨?_, ?_, ?_⟩
  · intro key raw hg
    have hm := mem_of_get? hg
    obtain ⟨e, he⟩ := all_attrEntry okA hm
    obtain ⟨a, ha, hv, e1, _⟩ := attrEntry_some ht he
    refine ⟨a, e.2, ha, hv, ?_⟩
    have hmem := mem_fullHist_attr sk hm he
    have : e = (key, e.2) := by
      have e1' : e.1 = key := e1
      rw [← e1']
    rw [this] at hmem
    exact specGet_of_mem t _ key e.2 hnd hmem
  · intro key rv hg
    have hm := mem_of_get? hg
    obtain ⟨rel, hr, hbad⟩ := all_relOk okR hm
    refine ⟨rel, hr, hbad, fun hp => ?_⟩
    obtain ⟨x, hx, he⟩ := relEntry_of_present (p := (key, rv)) hr hp
    refine ⟨x, hx, ?_⟩
    have hmem := mem_fullHist_rel sk hm he
    rw [← (rel_of_get? ht hr).1] at hmem
    rw [specGet_of_mem t _ key x hnd hmem]
    have := relValue_typed rel rv x hx
    split at this
    · obtain ⟨id, rfl⟩ := this; rfl
    · obtain ⟨l, rfl⟩ := this; rfl
  · intro f hf hrel hid
    apply specGet_of_not_mem
    simp only [fullHist, List.map_cons, List.map_append, List.mem_cons, List.mem_append, not_or]
    refine ⟨hid, ?_, ?_⟩
    · intro h
      have := has_iff_mem_keys.2 (attrHist_keys ht _ _ h).1
      rw [hf] at this; cases this
    · intro h
      obtain ⟨⟨p, hp, e, hpres⟩, _⟩ := relHist_keys ht _ _ h
      have hg : sk.rels.get? f = some p.2 := by
        rw [← e]; exact get?_of_mem_nodup hR hp
      rw [hrel p.2 hg] at hpres; cases hpres

end UnmL
end Jsonapi
