/- Helper lemmas for C13, part 7: the fields of a partially unmarshaled resource. -/
import Jsonapi.Proofs.UnmarshalLemmas6
namespace Jsonapi
open GoMap
namespace UnmL

theorem mem_fullHist_keys {t : Typ} (ht : TypWF t) (sk : ResSke) (f : GoString)
    (h : f ∈ (fullHist t sk).map (·.1)) :
    f = idName ∨ (f ∈ keys sk.attrs ∧ f ∈ t.attrs.keys) ∨
      ((∃ p ∈ sk.rels, p.1 = f ∧ p.2.present = true) ∧ f ∈ t.rels.keys) := by
  simp only [fullHist, List.map_cons, List.map_append, List.mem_cons, List.mem_append] at h
  rcases h with h | h | h
  · exact .inl h
  · exact .inr (.inl (attrHist_keys ht _ _ h))
  · exact .inr (.inr (relHist_keys ht _ _ h))

theorem attr_key_in_hist {t : Typ} (ht : TypWF t) (sk : ResSke) (okA : attrsOk t sk.attrs = true)
    {f : GoString} (hf : f ∈ keys sk.attrs) :
    f ∈ (fullHist t sk).map (·.1) ∧ f ∈ t.attrs.keys := by
  obtain ⟨p, hp, rfl⟩ := List.mem_map.1 hf
  obtain ⟨e, he⟩ := all_attrEntry okA hp
  obtain ⟨a, ha, _, e1, _⟩ := attrEntry_some ht he
  exact ⟨List.mem_map.2 ⟨e, mem_fullHist_attr sk hp he, e1⟩, mem_keys_of_get? ha⟩

theorem rel_key_in_hist {t : Typ} (ht : TypWF t) (sk : ResSke) (okR : relsOk t sk.rels = true)
    {p : GoString × RelRaw} (hp : p ∈ sk.rels) (hpres : p.2.present = true) :
    p.1 ∈ (fullHist t sk).map (·.1) ∧ p.1 ∈ t.rels.keys := by
  obtain ⟨rel, hr, _⟩ := all_relOk okR hp
  obtain ⟨x, _, he⟩ := relEntry_of_present hr hpres
  exact ⟨List.mem_map.2 ⟨_, mem_fullHist_rel sk hp he, (rel_of_get? ht hr).1.symm⟩, mem_keys_of_get? hr⟩

/-- The type of the partial resource holds exactly the attributes of the payload and the
relationships of the payload that carry data. -/
theorem partial_field_sets {t : Typ} (ht : TypWF t) (hn : Spec.namesOk t = true) (sk : ResSke)
    (hR : sk.rels.keys.Nodup) (okA : attrsOk t sk.attrs = true) (okR : relsOk t sk.rels = true)
    {s : Soft} (inv : PInv t (fullHist t sk) s) :
    (∀ key, s.typ.attrs.has key = true ↔ sk.attrs.has key = true) ∧
    (∀ key, s.typ.rels.has key = true ↔ ∃ v, sk.rels.get? key = some v ∧ v.present = true) := by
  constructor
  · intro key
    rw [has_iff_mem_keys, has_iff_mem_keys]
    constructor
    · intro hk
      have hkt := inv.sub.attrKeys hk
      obtain ⟨_, hh⟩ := (inv.flds key).1 (List.mem_append_left _ hk)
      rcases mem_fullHist_keys ht sk key hh with h | h | h
      · exact absurd h (namesOk_mem hn (List.mem_append_left _ hkt)).1
      · exact h.1
      · exact absurd h.2 (ht.disj key hkt)
    · intro hk
      obtain ⟨h1, h2⟩ := attr_key_in_hist ht sk okA hk
      have hid := (namesOk_mem hn (List.mem_append_left _ h2)).1
      rcases List.mem_append.1 ((inv.flds key).2 ⟨hid, h1⟩) with h | h
      · exact h
      · exact absurd (inv.sub.relKeys h) (ht.disj key h2)
  · intro key
    rw [has_iff_mem_keys]
    constructor
    · intro hk
      have hkt := inv.sub.relKeys hk
      obtain ⟨_, hh⟩ := (inv.flds key).1 (List.mem_append_right _ hk)
      rcases mem_fullHist_keys ht sk key hh with h | h | h
      · exact absurd h (namesOk_mem hn (List.mem_append_right _ hkt)).1
      · exact absurd hkt (ht.disj key h.2)
      · obtain ⟨⟨p, hp, e, hpres⟩, _⟩ := h
        exact ⟨p.2, by rw [← e]; exact get?_of_mem_nodup hR hp, hpres⟩
    · rintro ⟨v, hg, hpres⟩
      obtain ⟨h1, h2⟩ := rel_key_in_hist ht sk okR (mem_of_get? hg) hpres
      have hid := (namesOk_mem hn (List.mem_append_right _ h2)).1
      rcases List.mem_append.1 ((inv.flds key).2 ⟨hid, h1⟩) with h | h
      · exact absurd h2 (ht.disj key (inv.sub.attrKeys h))
      · exact h

/-- A field of the partial resource reads as the abstract resource over the schema type. -/
theorem partial_get {t : Typ} (ht : TypWF t) (hn : Spec.namesOk t = true) {h : Hist} {s : Soft}
    (inv : PInv t h s) {key : GoString} (hf : key ∈ s.typ.fieldKeys) :
    Spec.canon (s.get key) = Spec.specGet t h key := by
  have hid := (namesOk_mem (inv.sub.namesOk_mono hn) hf).1
  rw [Soft.get_field inv.wf s rfl inv.inv.keys hf hid, inv.inv.vals key hf]
  exact (inv.sub.specGet_eq inv.wf ht h hf).symm

end UnmL
end Jsonapi
