/-
Helper lemmas for C04 / C03, part 3: collections, documents, Include.
-/
import Jsonapi.Proofs.MarshalLemmas2
namespace Jsonapi.MarshalL
open Jsonapi

/-- resources of the primary data -/
def docPrimary (d : Document) : List ResView :=
  match d.data with
  | .res r => [r]
  | .col _ ms => ms
  | _ => []

/-- every resource a document marshals -/
def docResources (d : Document) : List ResView := docPrimary d ++ d.included

theorem res_fold_aux (F : Res (List Json × List ResView) → ResView → Res (List Json × List ResView))
    (g : ResView → Json) (l : List ResView) :
    ∀ (js : List Json) (rs : List ResView),
    (∀ js rs r, r ∈ l → ∃ r', F (.ok (js, rs)) r = .ok (js ++ [g r], rs ++ [r'])) →
    ∃ rs', l.foldl F (.ok (js, rs)) = .ok (js ++ l.map g, rs') := by
  induction l with
  | nil => intro js rs _; exact ⟨rs, by simp⟩
  | cons a l ih =>
    intro js rs hF
    obtain ⟨r', h⟩ := hF js rs a (List.mem_cons_self ..)
    simp only [List.foldl_cons, h]
    obtain ⟨rs', h'⟩ := ih (js ++ [g a]) (rs ++ [r'])
      (fun js rs r hr => hF js rs r (List.mem_cons_of_mem _ hr))
    exact ⟨rs', by rw [h']; simp⟩

theorem res_fold (F : Res (List Json × List ResView) → ResView → Res (List Json × List ResView))
    (g : ResView → Json) (l : List ResView)
    (hF : ∀ js rs r, r ∈ l → ∃ r', F (.ok (js, rs)) r = .ok (js ++ [g r], rs ++ [r'])) :
    ∃ rs', l.foldl F (.ok ([], [])) = .ok (l.map g, rs') := by
  simpa using res_fold_aux F g l [] [] hF

theorem marshalCollection_eq (c : List ResView) (hc : ∀ r ∈ c, r.keyedWf) (prepath : GoString)
    (fields : GoMap (List GoString)) (relData : GoMap (List GoString)) :
    ∃ c', marshalCollection c prepath fields relData =
      .ok (.arr (c.map (fun r =>
        Spec.resourceObject r prepath (Spec.selection fields r.typeName) relData)), c') := by
  unfold marshalCollection
  apply Exists.elim (res_fold _ (fun r =>
        Spec.resourceObject r prepath (Spec.selection fields r.typeName) relData) c ?_)
  · rintro rs' h
    rw [h]
    exact ⟨rs', rfl⟩
  · intro js rs r hr
    obtain ⟨r', h, -⟩ := marshalResource_eq r (hc r hr) prepath
      ((fields.get? r.typeName).getD []) relData []
    simp only [h]
    exact ⟨r', rfl⟩

theorem map_sortById_isEmpty {β} (g : ResView → β) (l : List ResView) :
    ((sortById l).map g).isEmpty = l.isEmpty := by
  rw [← sortById_isEmpty l]
  cases sortById l <;> rfl

theorem sortById_eq_nil (l : List ResView) : sortById l = [] ↔ l = [] := by
  rw [← List.isEmpty_iff, ← List.isEmpty_iff, sortById_isEmpty]

theorem incRes_eq (included : List ResView) (g : ResView → Json) (dj : Option Json)
    (F : Res (List Json × List ResView) → ResView → Res (List Json × List ResView))
    (hF : ∀ js rs r, r ∈ included → ∃ r', F (.ok (js, rs)) r = .ok (js ++ [g r], rs ++ [r'])) :
    ∃ incs', (if (if included.isEmpty = true then [] else sortById included).isEmpty = true ∨
                dj.isNone = true then
          Res.ok ([], if included.isEmpty = true then [] else sortById included)
        else List.foldl F (Res.ok ([], []))
          (if included.isEmpty = true then [] else sortById included)) =
      Res.ok (if included.isEmpty = true ∨ dj.isNone = true then []
              else (sortById included).map g, incs') := by
  by_cases hI : included.isEmpty = true
  · simp [hI]
  · have hS : (sortById included).isEmpty = false := by
      rw [sortById_isEmpty]; simpa using hI
    cases dj with
    | none => simp [hI]
    | some d =>
      simp only [hI, hS, if_false, Option.isNone_some, Bool.false_eq_true, or_self]
      exact res_fold F g (sortById included)
        (fun js rs r hr => hF js rs r ((sortById_perm included).mem_iff.1 hr))

theorem marshalDocument_eq' (doc : Document) (hdom : ∀ r ∈ docResources doc, r.keyedWf)
    (fields : GoMap (List GoString)) (selfHref : GoString) :
    ∃ doc', marshalDocument doc fields selfHref =
      match Spec.documentTree doc fields selfHref with
      | some t => .ok (t, doc')
      | none => .err := by
  obtain ⟨data, included, links, relData, dmeta, errors, prePath⟩ := doc
  have hincl : ∀ (js : List Json) (rs : List ResView) (r : ResView), r ∈ included →
      ∃ r', (match marshalResource r prePath ((fields.get? r.typeName).getD []) relData with
          | Res.ok (j, r') => Res.ok (js ++ [j], rs ++ [r'])
          | Res.err => Res.err
          | Res.panic => Res.panic) =
        Res.ok (js ++ [Spec.resourceObject r prePath (Spec.selection fields r.typeName) relData],
          rs ++ [r']) := by
    intro js rs r hr
    obtain ⟨r', h, -⟩ := marshalResource_eq r
      (hdom r (by simp only [docResources]; exact List.mem_append_right _ hr)) prePath
      ((fields.get? r.typeName).getD []) relData []
    exact ⟨r', by rw [h]; rfl⟩
  unfold marshalDocument Spec.documentTree Spec.dataMember
  simp only [docResources, docPrimary] at hdom
  cases data with
  | other =>
    refine ⟨{ data := DocData.other,
              included := if included.isEmpty then [] else sortById included,
              links := links, relData := relData,
              dmeta := dmeta, errors := errors, prePath := prePath }, ?_⟩
    cases hE : errors.isEmpty <;> simp
  | ident id typ =>
    try simp only []
    apply Exists.elim (incRes_eq included (fun r => Spec.resourceObject r prePath
      (Spec.selection fields r.typeName) relData) (some (identifierJson id typ)) _ ?_)
    · intro incs' h
      rw [h]
      refine ⟨{ data := DocData.ident id typ, included := incs', links := links, relData := relData,
                dmeta := dmeta, errors := errors, prePath := prePath }, ?_⟩
      cases hE : errors.isEmpty <;> cases hI : included.isEmpty <;>
        simp [hE, hI, sortById_eq_nil, Spec.selection, List.isEmpty_iff.1, List.isEmpty_eq_false_iff.1]
    · exact hincl
  | idents isNil l =>
    try simp only []
    apply Exists.elim (incRes_eq included (fun r => Spec.resourceObject r prePath
      (Spec.selection fields r.typeName) relData) (some (.arr (l.map (fun p => identifierJson p.1 p.2)))) _ ?_)
    · intro incs' h
      rw [h]
      refine ⟨{ data := DocData.idents isNil l, included := incs', links := links, relData := relData,
                dmeta := dmeta, errors := errors, prePath := prePath }, ?_⟩
      cases hE : errors.isEmpty <;> cases hI : included.isEmpty <;>
        simp [hE, hI, sortById_eq_nil, Spec.selection, List.isEmpty_iff.1, List.isEmpty_eq_false_iff.1]
    · exact hincl
  | none =>
    try simp only []
    apply Exists.elim (incRes_eq included (fun r => Spec.resourceObject r prePath
      (Spec.selection fields r.typeName) relData) (if errors.isEmpty then some .null else none) _ ?_)
    · intro incs' h
      rw [h]
      refine ⟨{ data := DocData.none, included := incs', links := links, relData := relData,
                dmeta := dmeta, errors := errors, prePath := prePath }, ?_⟩
      cases hE : errors.isEmpty <;> cases hI : included.isEmpty <;>
        simp [hE, hI, sortById_eq_nil, Spec.selection, List.isEmpty_iff.1, List.isEmpty_eq_false_iff.1]
    · exact hincl
  | res r =>
    obtain ⟨r', hr', -⟩ := marshalResource_eq r (hdom r (by simp)) prePath
      ((fields.get? r.typeName).getD []) relData []
    simp only [hr']
    try simp only []
    apply Exists.elim (incRes_eq included (fun r => Spec.resourceObject r prePath
      (Spec.selection fields r.typeName) relData) (some (Spec.resourceObject r prePath ((fields.get? r.typeName).getD []) relData)) _ ?_)
    · intro incs' h
      rw [h]
      refine ⟨{ data := DocData.res r', included := incs', links := links, relData := relData,
                dmeta := dmeta, errors := errors, prePath := prePath }, ?_⟩
      cases hE : errors.isEmpty <;> cases hI : included.isEmpty <;>
        simp [hE, hI, sortById_eq_nil, Spec.selection, List.isEmpty_iff.1, List.isEmpty_eq_false_iff.1]
    · exact hincl
  | col tn ms =>
    obtain ⟨ms', hms'⟩ := marshalCollection_eq ms (fun r hr => hdom r (by simp [hr])) prePath
      fields relData
    simp only [hms']
    try simp only []
    apply Exists.elim (incRes_eq included (fun r => Spec.resourceObject r prePath
      (Spec.selection fields r.typeName) relData) (some (.arr (ms.map (fun r => Spec.resourceObject r prePath (Spec.selection fields r.typeName) relData)))) _ ?_)
    · intro incs' h
      rw [h]
      refine ⟨{ data := DocData.col tn ms', included := incs', links := links, relData := relData,
                dmeta := dmeta, errors := errors, prePath := prePath }, ?_⟩
      cases hE : errors.isEmpty <;> cases hI : included.isEmpty <;>
        simp [hE, hI, sortById_eq_nil, Spec.selection, List.isEmpty_iff.1, List.isEmpty_eq_false_iff.1]
    · exact hincl

theorem marshalDocument_eq (doc : Document) (hdom : ∀ r ∈ docResources doc, r.keyedWf)
    (fields : GoMap (List GoString)) (selfHref : GoString) :
    (Spec.documentTree doc fields selfHref = none → marshalDocument doc fields selfHref = .err) ∧
    (∀ t, Spec.documentTree doc fields selfHref = some t →
      ∃ doc', marshalDocument doc fields selfHref = .ok (t, doc')) := by
  obtain ⟨doc', h⟩ := marshalDocument_eq' doc hdom fields selfHref
  constructor
  · intro hn; rw [h, hn]
  · intro t ht; exact ⟨doc', by rw [h, ht]⟩

/-! ### Include -/

/-- the (type, id) pair of a resource -/
def resPair (r : ResView) : GoString × GoString := (r.typeName, r.id)

theorem resKey_of_resPair {a b : ResView} (h : resPair a = resPair b) : resKey a = resKey b := by
  simp only [resPair, Prod.mk.injEq] at h
  simp only [resKey, h.1, h.2]

theorem primaryKeys_eq (d : Document) : Spec.primaryKeys d = (docPrimary d).map resKey := by
  unfold Spec.primaryKeys docPrimary
  cases d.data <;> rfl

/-- `Include`'s test "the resource is already in the primary data" -/
def inPrimaryB (d : Document) (r : ResView) : Bool :=
  match d.data with
  | .res p => resKey p = resKey r
  | .col tn ms => (tn = [] || tn = r.typeName) && ms.any (fun m => resKey m = resKey r)
  | _ => false

theorem include_eq (d : Document) (r : ResView) :
    d.include r = if inPrimaryB d r = true then d
      else if d.included.any (fun x => resKey x = resKey r) = true then d
      else { d with included := d.included ++ [r] } := by
  unfold Document.include inPrimaryB
  cases d.data <;> rfl

theorem include_data (d : Document) (r : ResView) : (d.include r).data = d.data := by
  rw [include_eq]
  split
  · rfl
  · split <;> rfl

theorem docPrimary_congr {d d' : Document} (h : d'.data = d.data) : docPrimary d' = docPrimary d := by
  unfold docPrimary; rw [h]

/-- a typed collection holds resources of its type only -/
def TypedCol (d : Document) : Prop :=
  match d.data with
  | .col tn ms => tn ≠ [] → ∀ m ∈ ms, m.typeName = tn
  | _ => True

instance c04_decTypedCol (d : Document) : Decidable (TypedCol d) := by
  unfold TypedCol
  cases d.data <;> exact inferInstance

theorem TypedCol.col {d : Document} (h : TypedCol d) {tn : GoString} {ms : List ResView}
    (hd : d.data = .col tn ms) (htn : tn ≠ []) : ∀ m ∈ ms, m.typeName = tn := by
  unfold TypedCol at h
  rw [hd] at h
  exact h htn

theorem TypedCol.congr {d d' : Document} (h : TypedCol d) (hd : d'.data = d.data) : TypedCol d' := by
  unfold TypedCol at *
  rw [hd]; exact h

theorem include_step {γ : Type} (f : ResView → γ)
    (hf : ∀ a b, f a = f b → resKey a = resKey b)
    (d : Document) (r : ResView) (htyped : TypedCol d)
    (hty : ∀ m ∈ docPrimary d, f m = f r → m.typeName = r.typeName)
    (hnd : ((docPrimary d ++ d.included).map f).Nodup) :
    ((docPrimary (d.include r) ++ (d.include r).included).map f).Nodup := by
  rw [docPrimary_congr (include_data d r), include_eq]
  split
  · exact hnd
  · rename_i hprim
    split
    · exact hnd
    · rename_i hinc
      simp only [List.any_eq_true, decide_eq_true_eq, not_exists, not_and] at hinc
      show ((docPrimary d ++ (d.included ++ [r])).map f).Nodup
      rw [← List.append_assoc, List.map_append, List.map_cons, List.map_nil]
      have hperm : (List.map f (docPrimary d ++ d.included) ++ [f r]).Perm
          (f r :: List.map f (docPrimary d ++ d.included)) := List.perm_append_singleton _ _
      rw [hperm.nodup_iff, List.nodup_cons]
      refine ⟨?_, hnd⟩
      intro hmem
      obtain ⟨m, hm, hfm⟩ := List.mem_map.1 hmem
      have hkey : resKey m = resKey r := hf _ _ hfm
      rcases List.mem_append.1 hm with hp | hi
      · apply hprim
        have htn := hty m hp hfm
        unfold inPrimaryB
        unfold docPrimary at hp
        cases hdata : d.data with
        | res p =>
          rw [hdata] at hp
          simp only [List.mem_singleton] at hp
          subst hp
          simp [hkey]
        | col tn ms =>
          rw [hdata] at hp
          simp only at hp
          simp only [Bool.and_eq_true, Bool.or_eq_true, decide_eq_true_eq, List.any_eq_true]
          refine ⟨?_, m, hp, hkey⟩
          by_cases htn0 : tn = []
          · exact Or.inl htn0
          · exact Or.inr ((htyped.col hdata htn0 m hp).symm.trans htn)
        | none => rw [hdata] at hp; cases hp
        | ident _ _ => rw [hdata] at hp; cases hp
        | idents _ _ => rw [hdata] at hp; cases hp
        | other => rw [hdata] at hp; cases hp
      · exact hinc m hi hkey

theorem include_fold {γ : Type} (f : ResView → γ)
    (hf : ∀ a b, f a = f b → resKey a = resKey b) (ops : List ResView) :
    ∀ (d0 : Document), TypedCol d0 →
    (∀ r ∈ ops, ∀ m ∈ docPrimary d0, f m = f r → m.typeName = r.typeName) →
    ((docPrimary d0 ++ d0.included).map f).Nodup →
    (ops.foldl Document.include d0).data = d0.data ∧
    ((docPrimary (ops.foldl Document.include d0) ++
        (ops.foldl Document.include d0).included).map f).Nodup := by
  induction ops with
  | nil => intro d0 _ _ h; exact ⟨rfl, h⟩
  | cons r ops ih =>
    intro d0 htyped hty hnd
    simp only [List.foldl_cons]
    have hdata := include_data d0 r
    have hprim := docPrimary_congr hdata
    obtain ⟨h1, h2⟩ := ih (d0.include r)
      (htyped.congr hdata)
      (by intro x hx m hm; rw [hprim] at hm; exact hty x (List.mem_cons_of_mem _ hx) m hm)
      (include_step f hf d0 r htyped (hty r (List.mem_cons_self ..)) hnd)
    exact ⟨h1.trans hdata, h2⟩

/-! ### keys that determine the (type, id) pair -/

theorem append_sep_inj {c : UInt8} : ∀ (x y s t : List UInt8), c ∉ s → c ∉ t →
    x ++ [c] ++ s = y ++ [c] ++ t → x = y ∧ s = t := by
  intro x
  induction x with
  | nil =>
    intro y s t hs ht h
    cases y with
    | nil => simp at h; exact ⟨rfl, h⟩
    | cons b y =>
      simp only [List.nil_append, List.cons_append, List.cons.injEq] at h
      exfalso; apply hs; rw [h.2]; simp
  | cons a x ih =>
    intro y s t hs ht h
    cases y with
    | nil =>
      simp only [List.nil_append, List.cons_append, List.cons.injEq] at h
      exfalso; apply ht; rw [← h.2]; simp
    | cons b y =>
      simp only [List.cons_append, List.cons.injEq] at h
      obtain ⟨h1, h2⟩ := ih y s t hs ht (by simpa using h.2)
      exact ⟨by rw [h.1, h1], h2⟩

/-- when type names contain no space, the `id ++ " " ++ type` key determines the pair -/
theorem resKey_inj_of_noSpace {a b : ResView} (ha : (32 : UInt8) ∉ a.typeName)
    (hb : (32 : UInt8) ∉ b.typeName) (h : resKey a = resKey b) :
    a.typeName = b.typeName ∧ a.id = b.id := by
  obtain ⟨h1, h2⟩ := append_sep_inj a.id b.id a.typeName b.typeName ha hb h
  exact ⟨h2, h1⟩

/-- The key `id ++ " " ++ type` that Include compares determines the type, for the resources
handed to Include against those of the primary data. (True whenever type names contain no
space.) -/
def KeyFaithful (ops : List ResView) (d0 : Document) : Prop :=
  ∀ r ∈ ops, ∀ m ∈ docPrimary d0, resKey m = resKey r → m.typeName = r.typeName

/-! ### the document tree -/

theorem get?_sortMembers_unique {l : List (GoString × Json)} {k : GoString} {v : Json}
    (hmem : (k, v) ∈ l) (huniq : ∀ p ∈ l, p.1 = k → p.2 = v) :
    (Json.obj (sortMembers l)).get? k = some v := by
  have hh : (Json.obj (sortMembers l)).has k = true :=
    has_sortMembers.2 (List.mem_map.2 ⟨(k, v), hmem, rfl⟩)
  unfold Json.has at hh
  obtain ⟨w, hw⟩ := Option.isSome_iff_exists.1 hh
  have := huniq _ (mem_of_get?_sortMembers hw) rfl
  simp only at this
  rw [hw, this]

def docBody (doc : Document) (fields : GoMap (List GoString)) : List (GoString × Json) :=
  if !doc.errors.isEmpty then [(K.errors, .arr (doc.errors.map ErrorObj.toJson))]
  else match Spec.dataMember doc fields with
    | some dj =>
      [(K.data, dj)] ++
      (if doc.included.isEmpty then []
       else [(K.included, .arr ((sortById doc.included).map (fun r =>
          Spec.resourceObject r doc.prePath (Spec.selection fields r.typeName) doc.relData)))])
    | none => []

def docLinks (doc : Document) (selfHref : GoString) : List (GoString × Json) :=
  (doc.links.filter (fun p => p.1 ≠ K.self)).map (fun p => (p.1, p.2.toJson)) ++
    [(K.self, Json.str selfHref)]

def docMembers (doc : Document) (fields : GoMap (List GoString)) (selfHref : GoString) :
    List (GoString × Json) :=
  docBody doc fields ++
    (if doc.dmeta.isEmpty then [] else [(K.kmeta, Json.obj doc.dmeta)]) ++
    [(K.links, Json.obj (sortMembers (docLinks doc selfHref))),
     (K.jsonapi, Json.obj [(K.version, .str K.v10)])]

theorem ite_none_some {α} {c : Prop} [Decidable c] {x t : α}
    (h : (if c then none else some x) = some t) : t = x := by
  split at h
  · cases h
  · cases h; rfl

theorem documentTree_some {doc : Document} {fields : GoMap (List GoString)} {selfHref : GoString}
    {t : Json} (h : Spec.documentTree doc fields selfHref = some t) :
    t = .obj (sortMembers (docMembers doc fields selfHref)) := by
  unfold Spec.documentTree at h
  exact ite_none_some h

theorem docBody_keys (doc : Document) (fields : GoMap (List GoString)) :
    (docBody doc fields).map (·.1) = [K.errors] ∨ (docBody doc fields).map (·.1) = [K.data] ∨
    (docBody doc fields).map (·.1) = [K.data, K.included] ∨ (docBody doc fields).map (·.1) = [] := by
  unfold docBody
  split
  · exact Or.inl rfl
  · split
    · split
      · exact Or.inr (Or.inl rfl)
      · exact Or.inr (Or.inr (Or.inl rfl))
    · exact Or.inr (Or.inr (Or.inr rfl))

theorem docMembers_keys (doc : Document) (fields : GoMap (List GoString)) (selfHref : GoString) :
    (docMembers doc fields selfHref).map (·.1) =
      (docBody doc fields).map (·.1) ++ (if doc.dmeta.isEmpty then [] else [K.kmeta]) ++
        [K.links, K.jsonapi] := by
  unfold docMembers
  cases doc.dmeta.isEmpty <;> simp

theorem docMembers_nodup (doc : Document) (fields : GoMap (List GoString)) (selfHref : GoString) :
    ((docMembers doc fields selfHref).map (·.1)).Nodup := by
  rw [docMembers_keys]
  rcases docBody_keys doc fields with h | h | h | h <;> rw [h] <;>
    cases doc.dmeta.isEmpty <;> decide

theorem docLinks_self (doc : Document) (selfHref : GoString) :
    (Json.obj (sortMembers (docLinks doc selfHref))).get? K.self = some (.str selfHref) := by
  apply get?_sortMembers_unique
  · simp [docLinks]
  · intro p hp hk
    simp only [docLinks, List.mem_append, List.mem_map, List.mem_filter, List.mem_singleton] at hp
    rcases hp with ⟨q, ⟨-, hq⟩, rfl⟩ | rfl
    · simp at hq; exact absurd hk hq
    · rfl

end Jsonapi.MarshalL
