/-
The full-grammar reader on the compact text the model's renderer writes: the rendered text of a
tree (`Json.render`, on which `Spec.parseJson` gives the tree back: `JsonL.parseJson_render`)
is read by `Spec.parseJsonC` as the concrete syntax `Json.toC` of the tree - no white space,
every string spelled as `renderStrBody` spells it - provided the tree is nested at most
`maxDepth` deep.
-/
import Jsonapi.Spec.JsonFull
import Jsonapi.Proofs.JsonTextLemmas
namespace Jsonapi
namespace FullL
open Spec JsonL

/-! ### the concrete syntax of a rendered tree, and its depth -/

mutual
def toC : Json → CJson
  | .null => .null
  | .bool b => .bool b
  | .num l => .num l
  | .str s => .str (renderStrBody s)
  | .arr l => .arr [] (toCItems l)
  | .obj ms => .obj [] (toCMembers ms)
def toCItems : List Json → List CItem
  | [] => []
  | v :: vs => ([], toC v, []) :: toCItems vs
def toCMembers : List (GoString × Json) → List CMember
  | [] => []
  | (k, v) :: ms => ([], renderStrBody k, [58], toC v, []) :: toCMembers ms
end

mutual
/-- how deep arrays and objects are nested -/
def depth : Json → Nat
  | .arr l => 1 + depthList l
  | .obj ms => 1 + depthMembers ms
  | _ => 0
def depthList : List Json → Nat
  | [] => 0
  | v :: vs => max (depth v) (depthList vs)
def depthMembers : List (GoString × Json) → Nat
  | [] => 0
  | (_, v) :: ms => max (depth v) (depthMembers ms)
end

mutual
/-- every string of the tree (keys included) through `f` -/
def mapStr (f : GoString → GoString) : Json → Json
  | .str s => .str (f s)
  | .arr l => .arr (mapStrList f l)
  | .obj ms => .obj (mapStrMembers f ms)
  | t => t
def mapStrList (f : GoString → GoString) : List Json → List Json
  | [] => []
  | v :: vs => mapStr f v :: mapStrList f vs
def mapStrMembers (f : GoString → GoString) : List (GoString × Json) → List (GoString × Json)
  | [] => []
  | (k, v) :: ms => (f k, mapStr f v) :: mapStrMembers f ms
end

/-! ### strings -/

theorem scanStr_plain (b : UInt8) (rest : GoString) (h1 : b ≠ 34) (h2 : b ≠ 92)
    (h3 : ¬ b < 32) : scanStr (b :: rest) = consStr [b] (scanStr rest) := by
  rw [scanStr.eq_def]
  simp [h1, h2, h3]

theorem scanStr_simple (e c : UInt8) (rest : GoString) (h : jsonUnescape e = some c)
    (hu : e ≠ 117) : scanStr (92 :: e :: rest) = consStr [92, e] (scanStr rest) := by
  rw [scanStr.eq_def]
  simp [h, hu]

theorem scanStr_u (h1 h2 h3 h4 : UInt8) (rest : GoString)
    (a1 : (jsonHexVal h1).isSome = true) (a2 : (jsonHexVal h2).isSome = true)
    (a3 : (jsonHexVal h3).isSome = true) (a4 : (jsonHexVal h4).isSome = true) :
    scanStr (92 :: 117 :: h1 :: h2 :: h3 :: h4 :: rest)
      = consStr [92, 117, h1, h2, h3, h4] (scanStr rest) := by
  rw [scanStr.eq_def]
  simp [a1, a2, a3, a4]

theorem hexDigit_isSome (n : Nat) : (jsonHexVal (jsonHexDigit n)).isSome = true := by
  rw [jsonHexVal_hexDigit]; rfl

theorem scanStr_u00 (b : UInt8) (rest : GoString) :
    scanStr (escU00 b ++ rest) = consStr (escU00 b) (scanStr rest) := by
  simp only [escU00, List.cons_append, List.nil_append]
  exact scanStr_u _ _ _ _ rest (by decide) (by decide) (hexDigit_isSome _) (hexDigit_isSome _)

theorem scanStr_escByte (b : UInt8) (rest : GoString) :
    scanStr (escByte b ++ rest) = consStr (escByte b) (scanStr rest) := by
  unfold escByte
  by_cases h1 : b = 34
  · subst h1; exact scanStr_simple 34 34 rest (by decide) (by decide)
  rw [if_neg h1]
  by_cases h2 : b = 92
  · subst h2; exact scanStr_simple 92 92 rest (by decide) (by decide)
  rw [if_neg h2]
  by_cases h3 : b = 8
  · subst h3; exact scanStr_simple 98 8 rest (by decide) (by decide)
  rw [if_neg h3]
  by_cases h4 : b = 12
  · subst h4; exact scanStr_simple 102 12 rest (by decide) (by decide)
  rw [if_neg h4]
  by_cases h5 : b = 10
  · subst h5; exact scanStr_simple 110 10 rest (by decide) (by decide)
  rw [if_neg h5]
  by_cases h6 : b = 13
  · subst h6; exact scanStr_simple 114 13 rest (by decide) (by decide)
  rw [if_neg h6]
  by_cases h7 : b = 9
  · subst h7; exact scanStr_simple 116 9 rest (by decide) (by decide)
  rw [if_neg h7]
  by_cases h8 : b < 32 ∨ b = 60 ∨ b = 62 ∨ b = 38
  · rw [if_pos h8]
    exact scanStr_u00 b rest
  · rw [if_neg h8]
    exact scanStr_plain b rest h1 h2 (fun h => h8 (Or.inl h))

theorem consStr_some (pre a r : GoString) : consStr pre (some (a, r)) = some (pre ++ a, r) := rfl

/-- the scanner takes the rendered characters of a string up to the closing quote as they are -/
theorem scanStr_render (s r : GoString) :
    scanStr (renderStrBody s ++ 34 :: r) = some (renderStrBody s, r) := by
  fun_induction renderStrBody s with
  | case1 => rw [scanStr.eq_def]; simp
  | case2 b c d rest h ih =>
    have hu := scanStr_u 50 48 50 56 (renderStrBody rest ++ 34 :: r) (by decide) (by decide)
      (by decide) (by decide)
    rw [List.append_assoc]
    simp only [List.cons_append, List.nil_append] at hu ⊢
    rw [hu, ih]; rfl
  | case3 b c d rest _ h ih =>
    have hu := scanStr_u 50 48 50 57 (renderStrBody rest ++ 34 :: r) (by decide) (by decide)
      (by decide) (by decide)
    rw [List.append_assoc]
    simp only [List.cons_append, List.nil_append] at hu ⊢
    rw [hu, ih]; rfl
  | case4 b c d rest _ _ ih =>
    rw [List.append_assoc, scanStr_escByte, ih, consStr_some]
  | case5 b rest _ ih =>
    rw [List.append_assoc, scanStr_escByte, ih, consStr_some]

/-! ### white space in compact text -/

/-- the next input byte is not white space and cannot extend a number token -/
def stopOk : GoString → Bool
  | [] => true
  | c :: _ => !isNumByte c && !isWs c

theorem stopOk_93 (r : GoString) : stopOk (93 :: r) = true := rfl
theorem stopOk_44 (r : GoString) : stopOk (44 :: r) = true := rfl
theorem stopOk_125 (r : GoString) : stopOk (125 :: r) = true := rfl

theorem numStop_of_stopOk (r : GoString) (h : stopOk r = true) : numStop r = true := by
  cases r with
  | nil => rfl
  | cons c t => simp only [stopOk, Bool.and_eq_true] at h; exact h.1

theorem ws_of_head (c : UInt8) (t : GoString) (h : isWs c = false) :
    dropWs (c :: t) = c :: t ∧ takeWs (c :: t) = [] := by
  simp [dropWs, takeWs, List.dropWhile_cons, List.takeWhile_cons, h]

theorem ws_of_stopOk (r : GoString) (h : stopOk r = true) : dropWs r = r ∧ takeWs r = [] := by
  cases r with
  | nil => exact ⟨rfl, rfl⟩
  | cons c t =>
    simp only [stopOk, Bool.and_eq_true, Bool.not_eq_true'] at h
    exact ws_of_head c t h.2

/-- the first byte of a rendered value is neither a closing bracket nor white space -/
theorem render_head' (t : Json) (h : t.numsOk = true) :
    ∃ c u, t.render = c :: u ∧ c ≠ 93 ∧ isWs c = false := by
  cases t with
  | null => exact ⟨_, _, rfl, by decide, by decide⟩
  | bool b => cases b <;> exact ⟨_, _, rfl, by decide, by decide⟩
  | num lit =>
    simp only [Json.numsOk] at h
    cases lit with
    | nil => exact absurd rfl (numOk_ne_nil _ h)
    | cons c u =>
      have := numOk_all _ h
      simp only [List.all_cons, Bool.and_eq_true] at this
      have hc := this.1
      refine ⟨c, u, rfl, ?_, ?_⟩
      · intro e; rw [e] at hc; exact absurd hc (by decide)
      · cases hw : isWs c with
        | false => rfl
        | true =>
          exfalso
          simp only [isWs, Bool.or_eq_true, decide_eq_true_eq] at hw
          rcases hw with ((e | e) | e) | e <;> (rw [e] at hc; exact absurd hc (by decide))
  | str s => exact ⟨_, _, rfl, by decide, by decide⟩
  | arr l => exact ⟨_, _, rfl, by decide, by decide⟩
  | obj ms => exact ⟨_, _, rfl, by decide, by decide⟩

/-! ### one step of the value reader -/

theorem parseC_num (f d : Nat) (lit r : GoString) (h : numOk lit = true)
    (hr : numStop r = true) : parseC (f + 1) d (lit ++ r) = some (.num lit, r) := by
  cases lit with
  | nil => exact absurd rfl (numOk_ne_nil _ h)
  | cons c t =>
    have hs := span_numOk (c :: t) r h hr
    have hc : isNumByte c = true := by
      have := numOk_all _ h
      simp only [List.all_cons, Bool.and_eq_true] at this
      exact this.1
    simp only [List.cons_append] at hs ⊢
    rw [parseC.eq_def]
    simp only [hc, if_true, hs.1, hs.2, h]

theorem parseC_null (f d : Nat) (r : GoString) :
    parseC (f + 1) d ([110, 117, 108, 108] ++ r) = some (.null, r) := by
  have h : isNumByte 110 = false := by decide
  rw [parseC.eq_def]
  simp [h, stripPrefix]

theorem parseC_true (f d : Nat) (r : GoString) :
    parseC (f + 1) d ([116, 114, 117, 101] ++ r) = some (.bool true, r) := by
  have h : isNumByte 116 = false := by decide
  rw [parseC.eq_def]
  simp [h, stripPrefix]

theorem parseC_false (f d : Nat) (r : GoString) :
    parseC (f + 1) d ([102, 97, 108, 115, 101] ++ r) = some (.bool false, r) := by
  have h : isNumByte 102 = false := by decide
  rw [parseC.eq_def]
  simp [h, stripPrefix]

theorem parseC_str (f d : Nat) (s r : GoString) :
    parseC (f + 1) d (renderStr s ++ r) = some (.str (renderStrBody s), r) := by
  have h : isNumByte 34 = false := by decide
  have hb := scanStr_render s r
  rw [parseC.eq_def]
  simp [renderStr, h, hb]

theorem parseC_arr_nil (f d : Nat) (r : GoString) :
    parseC (f + 1) (d + 1) (91 :: 93 :: r) = some (.arr [] [], r) := by
  have h : isNumByte 91 = false := by decide
  have hw := ws_of_head 93 r (by decide)
  rw [parseC.eq_def]
  simp [h, hw.1, hw.2]

theorem parseC_arr_cons (f d : Nat) (s : GoString)
    (hs : ∃ c t, s = c :: t ∧ c ≠ 93 ∧ isWs c = false) :
    parseC (f + 1) (d + 1) (91 :: s)
      = (parseElemsC f d [] s).map (fun p => (CJson.arr [] p.1, p.2)) := by
  obtain ⟨c, t, rfl, hc, hw⟩ := hs
  have h : isNumByte 91 = false := by decide
  have hws := ws_of_head c t hw
  rw [parseC.eq_def]
  simp [h, hws.1, hws.2, hc]

theorem parseC_obj_nil (f d : Nat) (r : GoString) :
    parseC (f + 1) (d + 1) (123 :: 125 :: r) = some (.obj [] [], r) := by
  have h : isNumByte 123 = false := by decide
  have hw := ws_of_head 125 r (by decide)
  rw [parseC.eq_def]
  simp [h, hw.1, hw.2]

theorem parseC_obj_cons (f d : Nat) (t : GoString) :
    parseC (f + 1) (d + 1) (123 :: 34 :: t)
      = (parseMembersC f d [] (34 :: t)).map (fun p => (CJson.obj [] p.1, p.2)) := by
  have h : isNumByte 123 = false := by decide
  have hws := ws_of_head 34 t (by decide)
  rw [parseC.eq_def]
  simp [h, hws.1, hws.2]

theorem parseElemsC_last (f d : Nat) (pre s : GoString) (v : CJson) (r : GoString)
    (h : parseC f d s = some (v, 93 :: r)) :
    parseElemsC (f + 1) d pre s = some ([(pre, v, [])], r) := by
  have hw := ws_of_head 93 r (by decide)
  rw [parseElemsC.eq_def]
  simp [h, hw.1, hw.2]

theorem parseElemsC_more (f d : Nat) (pre s : GoString) (v : CJson) (c : UInt8) (t : GoString)
    (vs : List CItem) (r' : GoString) (h : parseC f d s = some (v, 44 :: c :: t))
    (hc : isWs c = false) (h2 : parseElemsC f d [] (c :: t) = some (vs, r')) :
    parseElemsC (f + 1) d pre s = some ((pre, v, []) :: vs, r') := by
  have hw := ws_of_head 44 (c :: t) (by decide)
  have hw2 := ws_of_head c t hc
  rw [parseElemsC.eq_def]
  simp [h, hw.1, hw.2, hw2.1, hw2.2, h2]

theorem parseMembersC_last (f d : Nat) (pre s1 k : GoString) (c : UInt8) (t : GoString)
    (v : CJson) (r : GoString) (hk : scanStr s1 = some (k, 58 :: c :: t)) (hc : isWs c = false)
    (hv : parseC f d (c :: t) = some (v, 125 :: r)) :
    parseMembersC (f + 1) d pre (34 :: s1) = some ([(pre, k, [58], v, [])], r) := by
  have hw := ws_of_head 58 (c :: t) (by decide)
  have hw2 := ws_of_head c t hc
  have hw3 := ws_of_head 125 r (by decide)
  rw [parseMembersC.eq_def]
  simp [hk, hw.1, hw.2, hw2.1, hw2.2, hv, hw3.1, hw3.2]

theorem parseMembersC_more (f d : Nat) (pre s1 k : GoString) (c : UInt8) (t : GoString)
    (v : CJson) (t' : GoString) (ms : List CMember) (r' : GoString)
    (hk : scanStr s1 = some (k, 58 :: c :: t)) (hc : isWs c = false)
    (hv : parseC f d (c :: t) = some (v, 44 :: 34 :: t'))
    (h2 : parseMembersC f d [] (34 :: t') = some (ms, r')) :
    parseMembersC (f + 1) d pre (34 :: s1) = some ((pre, k, [58], v, []) :: ms, r') := by
  have hw := ws_of_head 58 (c :: t) (by decide)
  have hw2 := ws_of_head c t hc
  have hw3 := ws_of_head 44 (34 :: t') (by decide)
  have hw4 := ws_of_head 34 t' (by decide)
  rw [parseMembersC.eq_def]
  simp [hk, hw.1, hw.2, hw2.1, hw2.2, hv, hw3.1, hw3.2, hw4.1, hw4.2, h2]

/-! ### the tree round trip -/

theorem renderMembers_head (m : GoString × Json) (ms : List (GoString × Json)) :
    ∃ t, Json.renderMembers (m :: ms) = 34 :: t := by
  obtain ⟨k, v⟩ := m
  exact ⟨renderStrBody k ++ 34 :: 58 :: (v.render ++ (sepBefore ms ++ Json.renderMembers ms)),
    by simp [renderMembers_cons, renderStr]⟩

mutual
theorem parseC_render (t : Json) (h : t.numsOk = true) (r : GoString)
    (hr : stopOk r = true) (f : Nat) (hf : need t ≤ f) (d : Nat) (hd : depth t ≤ d) :
    parseC f d (t.render ++ r) = some (toC t, r) :=
  match t with
  | .null => by
    obtain ⟨f, rfl⟩ : ∃ g, f = g + 1 := ⟨f - 1, by simp [need] at hf; omega⟩
    exact parseC_null f d r
  | .bool true => by
    obtain ⟨f, rfl⟩ : ∃ g, f = g + 1 := ⟨f - 1, by simp [need] at hf; omega⟩
    exact parseC_true f d r
  | .bool false => by
    obtain ⟨f, rfl⟩ : ∃ g, f = g + 1 := ⟨f - 1, by simp [need] at hf; omega⟩
    exact parseC_false f d r
  | .num lit => by
    obtain ⟨f, rfl⟩ : ∃ g, f = g + 1 := ⟨f - 1, by simp [need] at hf; omega⟩
    simp only [Json.numsOk] at h
    exact parseC_num f d lit r h (numStop_of_stopOk r hr)
  | .str s => by
    obtain ⟨f, rfl⟩ : ∃ g, f = g + 1 := ⟨f - 1, by simp [need] at hf; omega⟩
    exact parseC_str f d s r
  | .arr l => by
    obtain ⟨f, rfl⟩ : ∃ g, f = g + 1 := ⟨f - 1, by simp [need] at hf; omega⟩
    obtain ⟨d, rfl⟩ : ∃ e, d = e + 1 := ⟨d - 1, by simp [depth] at hd; omega⟩
    simp only [Json.numsOk] at h
    have hf' : needList l ≤ f := by simp only [need] at hf; omega
    have hd' : depthList l ≤ d := by simp only [depth] at hd; omega
    have ih := parseElemsC_render l h r f hf' d hd'
    cases l with
    | nil => exact parseC_arr_nil f d r
    | cons v vs =>
      have e : (Json.arr (v :: vs)).render ++ r = 91 :: (Json.renderList (v :: vs) ++ 93 :: r) := by
        simp [Json.render]
      rw [e, parseC_arr_cons, ih (by simp)]
      · rfl
      · simp only [Json.numsOkList, Bool.and_eq_true] at h
        obtain ⟨c, u, hc, hne, hw⟩ := render_head' v h.1
        exact ⟨c, u ++ (sepBefore vs ++ Json.renderList vs) ++ 93 :: r,
          by simp [renderList_cons, hc], hne, hw⟩
  | .obj ms => by
    obtain ⟨f, rfl⟩ : ∃ g, f = g + 1 := ⟨f - 1, by simp [need] at hf; omega⟩
    obtain ⟨d, rfl⟩ : ∃ e, d = e + 1 := ⟨d - 1, by simp [depth] at hd; omega⟩
    simp only [Json.numsOk] at h
    have hf' : needMembers ms ≤ f := by simp only [need] at hf; omega
    have hd' : depthMembers ms ≤ d := by simp only [depth] at hd; omega
    have ih := parseMembersC_render ms h r f hf' d hd'
    cases ms with
    | nil => exact parseC_obj_nil f d r
    | cons m ms =>
      obtain ⟨t', ht'⟩ := renderMembers_head m ms
      have e : (Json.obj (m :: ms)).render ++ r
          = 123 :: (Json.renderMembers (m :: ms) ++ 125 :: r) := by
        simp [Json.render]
      have ih' := ih (by simp)
      rw [e]
      rw [ht'] at ih' ⊢
      rw [List.cons_append] at ih' ⊢
      rw [parseC_obj_cons, ih']
      rfl
theorem parseElemsC_render (l : List Json) (h : Json.numsOkList l = true) (r : GoString)
    (f : Nat) (hf : needList l ≤ f) (d : Nat) (hd : depthList l ≤ d) (hne : l ≠ []) :
    parseElemsC f d [] (Json.renderList l ++ 93 :: r) = some (toCItems l, r) :=
  match l with
  | [] => absurd rfl hne
  | v :: vs => by
    simp only [Json.numsOkList, Bool.and_eq_true] at h
    obtain ⟨f, rfl⟩ : ∃ g, f = g + 1 := ⟨f - 1, by simp [needList] at hf; omega⟩
    have hfv : need v ≤ f := by simp only [needList] at hf; omega
    have hfs : needList vs ≤ f := by simp only [needList] at hf; omega
    have hdv : depth v ≤ d := by simp only [depthList] at hd; omega
    have hds : depthList vs ≤ d := by simp only [depthList] at hd; omega
    have ih := parseElemsC_render vs h.2 r f hfs d hds
    cases vs with
    | nil =>
      have e : Json.renderList [v] ++ 93 :: r = v.render ++ 93 :: r := by
        simp [Json.renderList, sepBefore]
      rw [e]
      exact parseElemsC_last f d [] _ (toC v) r (parseC_render v h.1 _ (stopOk_93 r) f hfv d hdv)
    | cons w ws =>
      have hw : Json.numsOk w = true := by
        have := h.2; simp only [Json.numsOkList, Bool.and_eq_true] at this; exact this.1
      obtain ⟨c, u, hc, _, hcw⟩ := render_head' w hw
      have e : Json.renderList (v :: w :: ws) ++ 93 :: r
          = v.render ++ 44 :: (Json.renderList (w :: ws) ++ 93 :: r) := by
        simp [Json.renderList, sepBefore]
      have e2 : Json.renderList (w :: ws) ++ 93 :: r
          = c :: (u ++ (sepBefore ws ++ Json.renderList ws) ++ 93 :: r) := by
        simp [renderList_cons, hc]
      have ih' := ih (by simp)
      rw [e]
      rw [e2] at ih' ⊢
      exact parseElemsC_more f d [] _ (toC v) c _ (toCItems (w :: ws)) r
        (parseC_render v h.1 _ (stopOk_44 _) f hfv d hdv) hcw ih'
theorem parseMembersC_render (ms : List (GoString × Json)) (h : Json.numsOkMembers ms = true)
    (r : GoString) (f : Nat) (hf : needMembers ms ≤ f) (d : Nat) (hd : depthMembers ms ≤ d)
    (hne : ms ≠ []) :
    parseMembersC f d [] (Json.renderMembers ms ++ 125 :: r) = some (toCMembers ms, r) :=
  match ms with
  | [] => absurd rfl hne
  | (k, v) :: ms => by
    simp only [Json.numsOkMembers, Bool.and_eq_true] at h
    obtain ⟨f, rfl⟩ : ∃ g, f = g + 1 := ⟨f - 1, by simp [needMembers] at hf; omega⟩
    have hfv : need v ≤ f := by simp only [needMembers] at hf; omega
    have hfs : needMembers ms ≤ f := by simp only [needMembers] at hf; omega
    have hdv : depth v ≤ d := by simp only [depthMembers] at hd; omega
    have hds : depthMembers ms ≤ d := by simp only [depthMembers] at hd; omega
    have ih := parseMembersC_render ms h.2 r f hfs d hds
    obtain ⟨c, u, hc, _, hcw⟩ := render_head' v h.1
    cases ms with
    | nil =>
      have e : Json.renderMembers [(k, v)] ++ 125 :: r
          = 34 :: (renderStrBody k ++ 34 :: 58 :: c :: (u ++ 125 :: r)) := by
        simp [Json.renderMembers, sepBefore, renderStr, hc]
      have hv := parseC_render v h.1 (125 :: r) (stopOk_125 r) f hfv d hdv
      rw [hc, List.cons_append] at hv
      rw [e]
      exact parseMembersC_last f d [] _ (renderStrBody k) c _ (toC v) r (scanStr_render k _) hcw hv
    | cons m ms' =>
      obtain ⟨t', ht'⟩ := renderMembers_head m ms'
      have e : Json.renderMembers ((k, v) :: m :: ms') ++ 125 :: r
          = 34 :: (renderStrBody k ++ 34 :: 58 :: c ::
              (u ++ 44 :: 34 :: (t' ++ 125 :: r))) := by
        rw [renderMembers_cons, ht', hc]
        simp [renderStr, sepBefore]
      have hv := parseC_render v h.1 (44 :: 34 :: (t' ++ 125 :: r)) (stopOk_44 _) f hfv d hdv
      rw [hc, List.cons_append] at hv
      have ih' := ih (by simp)
      rw [ht', List.cons_append] at ih'
      rw [e]
      exact parseMembersC_more f d [] _ (renderStrBody k) c _ (toC v) _ (toCMembers (m :: ms')) r
        (scanStr_render k _) hcw hv ih'
end

/-- the rendered text of a tree nested at most `maxDepth` deep is read as its concrete syntax -/
theorem parseJsonC_render (t : Json) (h : t.numsOk = true) (hd : depth t ≤ maxDepth) :
    parseJsonC t.render = some (toC t) := by
  obtain ⟨c, u, hc, _, hw⟩ := render_head' t h
  have hws : dropWs t.render = t.render := by rw [hc]; exact (ws_of_head c u hw).1
  have hf : need t ≤ 2 * t.render.length + 2 := by have := need_le t; omega
  have hp := parseC_render t h [] rfl _ hf maxDepth hd
  rw [List.append_nil] at hp
  unfold parseJsonC
  rw [hws, hp]
  rfl

mutual
theorem toJson_toC (t : Json) :
    (toC t).toJson = mapStr (fun s => unquote (renderStrBody s)) t :=
  match t with
  | .null => rfl
  | .bool _ => rfl
  | .num _ => rfl
  | .str _ => rfl
  | .arr l => by simp only [toC, CJson.toJson, mapStr, toJsonItems_toC l]
  | .obj ms => by simp only [toC, CJson.toJson, mapStr, toJsonMembers_toC ms]
theorem toJsonItems_toC (l : List Json) :
    CJson.toJsonItems (toCItems l) = mapStrList (fun s => unquote (renderStrBody s)) l :=
  match l with
  | [] => rfl
  | v :: vs => by simp only [toCItems, CJson.toJsonItems, mapStrList, toJson_toC v, toJsonItems_toC vs]
theorem toJsonMembers_toC (ms : List (GoString × Json)) :
    CJson.toJsonMembers (toCMembers ms) = mapStrMembers (fun s => unquote (renderStrBody s)) ms :=
  match ms with
  | [] => rfl
  | (k, v) :: ms => by
    simp only [toCMembers, CJson.toJsonMembers, mapStrMembers, toJson_toC v, toJsonMembers_toC ms]
end

/-! ### plain strings: printable ASCII that the renderer does not escape -/

def plainByte (b : UInt8) : Bool :=
  decide (32 ≤ b ∧ b < 128 ∧ b ≠ 34 ∧ b ≠ 92 ∧ b ≠ 60 ∧ b ≠ 62 ∧ b ≠ 38)

theorem escByte_plain (b : UInt8) (h : plainByte b = true) : escByte b = [b] := by
  simp only [plainByte, decide_eq_true_eq] at h
  obtain ⟨h0, h1, h2, h3, h4, h5, h6⟩ := h
  have n8 : b ≠ 8 := by intro e; subst e; exact absurd h0 (by decide)
  have n12 : b ≠ 12 := by intro e; subst e; exact absurd h0 (by decide)
  have n10 : b ≠ 10 := by intro e; subst e; exact absurd h0 (by decide)
  have n13 : b ≠ 13 := by intro e; subst e; exact absurd h0 (by decide)
  have n9 : b ≠ 9 := by intro e; subst e; exact absurd h0 (by decide)
  have nlt : ¬ b < 32 := UInt8.not_lt.mpr h0
  simp [escByte, h2, h3, h4, h5, h6, n8, n12, n10, n13, n9, nlt]

theorem plain_ne_E2 (b : UInt8) (h : plainByte b = true) : b ≠ 0xE2 := by
  intro e; subst e; exact absurd h (by decide)

theorem renderStrBody_plain (s : GoString) (h : s.all plainByte = true) : renderStrBody s = s := by
  fun_induction renderStrBody s with
  | case1 => rfl
  | case2 b c d rest hb ih =>
    simp only [List.all_cons, Bool.and_eq_true] at h
    exact absurd hb.1 (plain_ne_E2 b h.1)
  | case3 b c d rest _ hb ih =>
    simp only [List.all_cons, Bool.and_eq_true] at h
    exact absurd hb.1 (plain_ne_E2 b h.1)
  | case4 b c d rest _ _ ih =>
    have h' := h
    simp only [List.all_cons, Bool.and_eq_true] at h
    rw [escByte_plain b h.1, ih (by simp only [List.all_cons, Bool.and_eq_true]; exact h.2)]
    rfl
  | case5 b rest _ ih =>
    simp only [List.all_cons, Bool.and_eq_true] at h
    rw [escByte_plain b h.1, ih h.2]
    rfl

theorem unquoteAux_plain (s : GoString) (h : s.all plainByte = true) (n : Nat) (hn : s.length < n) :
    unquoteAux n s = s := by
  induction s generalizing n with
  | nil => cases n <;> rfl
  | cons b r ih =>
    obtain ⟨n, rfl⟩ : ∃ m, n = m + 1 := ⟨n - 1, by simp at hn; omega⟩
    simp only [List.all_cons, Bool.and_eq_true] at h
    have hb := h.1
    simp only [plainByte, decide_eq_true_eq] at hb
    have h92 : b ≠ 92 := hb.2.2.2.1
    have hlt : b < 0x80 := hb.2.1
    have ihr := ih h.2 n (by simp at hn; omega)
    rw [unquoteAux.eq_def]
    simp [h92, hlt, ihr]

theorem unquote_render_plain (s : GoString) (h : s.all plainByte = true) :
    unquote (renderStrBody s) = s := by
  rw [renderStrBody_plain s h]
  exact unquoteAux_plain s h _ (by omega)

mutual
/-- every string of the tree (keys included) satisfies `p` -/
def strsAll (p : GoString → Bool) : Json → Bool
  | .str s => p s
  | .arr l => strsAllList p l
  | .obj ms => strsAllMembers p ms
  | _ => true
def strsAllList (p : GoString → Bool) : List Json → Bool
  | [] => true
  | v :: vs => strsAll p v && strsAllList p vs
def strsAllMembers (p : GoString → Bool) : List (GoString × Json) → Bool
  | [] => true
  | (k, v) :: ms => p k && strsAll p v && strsAllMembers p ms
end

mutual
theorem mapStr_id (f : GoString → GoString) (p : GoString → Bool) (hf : ∀ s, p s = true → f s = s)
    (t : Json) (h : strsAll p t = true) : mapStr f t = t :=
  match t with
  | .null => rfl
  | .bool _ => rfl
  | .num _ => rfl
  | .str s => by simp only [strsAll] at h; simp only [mapStr, hf s h]
  | .arr l => by simp only [strsAll] at h; simp only [mapStr, mapStrList_id f p hf l h]
  | .obj ms => by simp only [strsAll] at h; simp only [mapStr, mapStrMembers_id f p hf ms h]
theorem mapStrList_id (f : GoString → GoString) (p : GoString → Bool) (hf : ∀ s, p s = true → f s = s)
    (l : List Json) (h : strsAllList p l = true) : mapStrList f l = l :=
  match l with
  | [] => rfl
  | v :: vs => by
    simp only [strsAllList, Bool.and_eq_true] at h
    simp only [mapStrList, mapStr_id f p hf v h.1, mapStrList_id f p hf vs h.2]
theorem mapStrMembers_id (f : GoString → GoString) (p : GoString → Bool)
    (hf : ∀ s, p s = true → f s = s) (ms : List (GoString × Json))
    (h : strsAllMembers p ms = true) : mapStrMembers f ms = ms :=
  match ms with
  | [] => rfl
  | (k, v) :: ms => by
    simp only [strsAllMembers, Bool.and_eq_true] at h
    simp only [mapStrMembers, hf k h.1.1, mapStr_id f p hf v h.1.2, mapStrMembers_id f p hf ms h.2]
end

end FullL
end Jsonapi
