/-
Helper lemmas for C03 ("a successful marshal returns syntactically valid JSON"): every
tree the marshaling builds has well-formed number literals (`Json.numsOk`), provided the
JSON values the caller supplies verbatim (meta objects, error sources) have. With
`JsonL.parseJson_render` this makes the rendered bytes parse back to the tree.

The only numbers the marshaling itself creates come from `printInt` (`encodePay`);
everything else it adds is strings, null, booleans, arrays and objects.
-/
import Jsonapi.Proofs.MarshalLemmas4
import Jsonapi.Proofs.JsonTextLemmas
namespace Jsonapi

/-! ### the side condition on the input -/

/-- the JSON values an error object carries verbatim (`source`, `meta`) have well-formed
number literals -/
def ErrorObj.numsOk (e : ErrorObj) : Prop :=
  Json.numsOkMembers e.source = true ∧ Json.numsOkMembers e.emeta = true

/-- the meta of a link has well-formed number literals -/
def LinkObj.numsOk (l : LinkObj) : Prop := Json.numsOkMembers l.lmeta = true

/-- Every JSON value the caller supplies verbatim to `MarshalDocument` has well-formed
number literals: the document's meta, the meta of each link, each error's source and meta.
(Resource objects carry no meta in a `Document`: `marshalDocument` calls `marshalResource`
with its default `rmeta := []`, as do `Spec.dataMember` / `Spec.documentTree` with
`Spec.resourceObject`; resource-level meta only appears in `C03_valid_json_resource`.) -/
def Document.numsOk (doc : Document) : Prop :=
  Json.numsOkMembers doc.dmeta = true ∧
  (∀ p ∈ doc.links, p.2.numsOk) ∧
  (∀ e ∈ doc.errors, e.numsOk)

instance c03_decErrorNumsOk (e : ErrorObj) : Decidable e.numsOk := by
  unfold ErrorObj.numsOk; exact inferInstance

instance c03_decLinkNumsOk (l : LinkObj) : Decidable l.numsOk := by
  unfold LinkObj.numsOk; exact inferInstance

instance c03_decDocNumsOk (doc : Document) : Decidable doc.numsOk := by
  unfold Document.numsOk; exact inferInstance

namespace MJsonL
open MarshalL

/-! ### `numsOk` of lists and members, by membership -/

theorem numsOkMembers_iff (ms : List (GoString × Json)) :
    Json.numsOkMembers ms = true ↔ ∀ p ∈ ms, p.2.numsOk = true := by
  induction ms with
  | nil => simp [Json.numsOkMembers]
  | cons p ms ih =>
    obtain ⟨k, v⟩ := p
    simp [Json.numsOkMembers, ih]

theorem numsOkList_iff (l : List Json) :
    Json.numsOkList l = true ↔ ∀ v ∈ l, v.numsOk = true := by
  induction l with
  | nil => simp [Json.numsOkList]
  | cons v l ih => simp [Json.numsOkList, ih]

theorem numsOk_obj (ms : List (GoString × Json)) :
    (Json.obj ms).numsOk = true ↔ ∀ p ∈ ms, p.2.numsOk = true := by
  rw [← numsOkMembers_iff]; simp [Json.numsOk]

theorem numsOk_arr (l : List Json) :
    (Json.arr l).numsOk = true ↔ ∀ v ∈ l, v.numsOk = true := by
  rw [← numsOkList_iff]; simp [Json.numsOk]

theorem numsOk_str (s : GoString) : (Json.str s).numsOk = true := by simp [Json.numsOk]
theorem numsOk_null : Json.null.numsOk = true := by simp [Json.numsOk]
theorem numsOk_bool (b : Bool) : (Json.bool b).numsOk = true := by simp [Json.numsOk]

theorem numsOkMembers_perm {a b : List (GoString × Json)} (h : a.Perm b) :
    Json.numsOkMembers a = Json.numsOkMembers b := by
  rw [Bool.eq_iff_iff, numsOkMembers_iff, numsOkMembers_iff]
  exact ⟨fun H p hp => H p (h.mem_iff.2 hp), fun H p hp => H p (h.mem_iff.1 hp)⟩

/-- sorting the members of an object does not change whether its numbers are well formed -/
theorem numsOkMembers_sortMembers (ms : List (GoString × Json)) :
    Json.numsOkMembers (sortMembers ms) = Json.numsOkMembers ms :=
  numsOkMembers_perm (sortMembers_perm ms)

theorem numsOk_obj_sort (ms : List (GoString × Json)) :
    (Json.obj (sortMembers ms)).numsOk = true ↔ ∀ p ∈ ms, p.2.numsOk = true := by
  rw [← numsOkMembers_iff, ← numsOkMembers_sortMembers]; simp [Json.numsOk]

theorem numsOkMembers_append (a b : List (GoString × Json)) :
    Json.numsOkMembers (a ++ b) = (Json.numsOkMembers a && Json.numsOkMembers b) := by
  rw [Bool.eq_iff_iff, Bool.and_eq_true, numsOkMembers_iff, numsOkMembers_iff, numsOkMembers_iff]
  simp only [List.mem_append]
  exact ⟨fun H => ⟨fun p hp => H p (Or.inl hp), fun p hp => H p (Or.inr hp)⟩,
    fun H p hp => hp.elim (H.1 p) (H.2 p)⟩

/-- `m[k] = v` on a Go map of JSON values -/
theorem mem_set {β} (m : GoMap β) (k : GoString) (v : β) {p : GoString × β}
    (h : p ∈ GoMap.set m k v) : p ∈ m ∨ p = (k, v) := by
  induction m with
  | nil => simp [GoMap.set] at h; exact Or.inr h
  | cons q m ih =>
    obtain ⟨k', v'⟩ := q
    simp only [GoMap.set] at h
    split at h
    · rcases List.mem_cons.1 h with e | h'
      · exact Or.inr e
      · exact Or.inl (List.mem_cons_of_mem _ h')
    · rcases List.mem_cons.1 h with e | h'
      · exact Or.inl (e ▸ List.mem_cons_self ..)
      · exact (ih h').imp (List.mem_cons_of_mem _) id

theorem membersOk_set {m : List (GoString × Json)} {k : GoString} {v : Json}
    (hm : ∀ p ∈ m, p.2.numsOk = true) (hv : v.numsOk = true) :
    ∀ p ∈ GoMap.set m k v, p.2.numsOk = true := by
  intro p hp
  rcases mem_set m k v hp with h | h
  · exact hm p h
  · subst h; exact hv

/-! ### values -/

/-- the only numbers the marshaling writes are `strconv` integers -/
theorem encodePay_numsOk (p : Pay) : (encodePay p).numsOk = true := by
  cases p with
  | i v => simp [encodePay, Json.numsOk, JsonL.printInt_numOk]
  | bs o => cases o <;> simp [encodePay, Json.numsOk]
  | _ => simp [encodePay, Json.numsOk]

theorem encodeVal_numsOk (v : GoVal) : (encodeVal v).numsOk = true := by
  cases v with
  | val k p => exact encodePay_numsOk p
  | ptr k o =>
    cases o with
    | none => simp [encodeVal, Json.numsOk]
    | some p => exact encodePay_numsOk p
  | strs l =>
    simp only [encodeVal, numsOk_arr, List.mem_map]
    rintro v ⟨s, -, rfl⟩
    exact numsOk_str s
  | _ => simp [encodeVal, Json.numsOk]

theorem encodeAttr_numsOk (v : GoVal) : (encodeAttr v).numsOk = true := by
  unfold encodeAttr
  split
  · exact numsOk_str _
  · exact numsOk_str _
  · exact encodeVal_numsOk _

/-! ### identifiers, links, relationship objects -/

theorem identifierJson_numsOk (id typ : GoString) : (identifierJson id typ).numsOk = true := by
  simp [identifierJson, Json.numsOk, Json.numsOkMembers]

theorem relLinks_numsOk (r : ResView) (prepath rel : GoString) :
    (buildRelationshipLinks r prepath rel).numsOk = true := by
  simp [buildRelationshipLinks, Json.numsOk, Json.numsOkMembers]

theorem identifiers_numsOk (ids : List GoString) (typ : GoString) :
    (Json.arr (ids.map (fun id => identifierJson id typ))).numsOk = true := by
  simp only [numsOk_arr, List.mem_map]
  rintro v ⟨s, -, rfl⟩
  exact identifierJson_numsOk ..

theorem relDataJson_numsOk (r : ResView) (rel : Rel) : (Spec.relDataJson r rel).numsOk = true := by
  unfold Spec.relDataJson
  split
  · split
    · split
      · exact numsOk_null
      · exact identifierJson_numsOk ..
    · exact numsOk_null
  · split
    · exact identifiers_numsOk ..
    · simp [Json.numsOk, Json.numsOkList]

theorem relObject_numsOk (r : ResView) (prepath : GoString) (rel : Rel) (w : Bool) :
    (Spec.relObject r prepath rel w).numsOk = true := by
  unfold Spec.relObject
  rw [numsOk_obj]
  intro p hp
  cases w
  · simp at hp; subst hp; exact relLinks_numsOk ..
  · simp at hp
    rcases hp with rfl | rfl
    · exact relDataJson_numsOk ..
    · exact relLinks_numsOk ..

/-- whatever relationship object the model's `marshalRel` returns -/
theorem marshalRel_numsOk {r : ResView} {prepath : GoString} {rel : Rel} {w : Bool}
    {j : Json} {o : Option (List GoString)}
    (h : marshalRel r prepath rel w = .ok (j, o)) : j.numsOk = true := by
  have hl := relLinks_numsOk r prepath rel.fromName
  unfold marshalRel at h
  simp only [] at h
  split at h
  · split at h
    · split at h
      · simp only [Res.ok.injEq, Prod.mk.injEq] at h
        rw [← h.1, numsOk_obj]
        intro p hp
        simp at hp
        rcases hp with rfl | rfl
        · dsimp only
          split <;> first | exact identifierJson_numsOk .. | exact numsOk_null
        · exact hl
      · cases h
    · simp only [Res.ok.injEq, Prod.mk.injEq] at h
      rw [← h.1, numsOk_obj]
      intro p hp
      simp at hp; subst hp; exact hl
  · split at h
    · split at h
      · simp only [Res.ok.injEq, Prod.mk.injEq] at h
        rw [← h.1, numsOk_obj]
        intro p hp
        simp at hp
        rcases hp with rfl | rfl
        · exact identifiers_numsOk ..
        · exact hl
      · cases h
    · simp only [Res.ok.injEq, Prod.mk.injEq] at h
      rw [← h.1, numsOk_obj]
      intro p hp
      simp at hp; subst hp; exact hl

/-! ### resource objects -/

theorem attrMembers_numsOk (r : ResView) (fields : List GoString) :
    ∀ p ∈ attrMembers r fields, p.2.numsOk = true := by
  intro p hp
  simp only [attrMembers, List.mem_map] at hp
  obtain ⟨a, -, rfl⟩ := hp
  exact encodeAttr_numsOk _

theorem relMembers_numsOk (r : ResView) (prepath : GoString) (fields want : List GoString)
    (l : GoMap Rel) : ∀ p ∈ relMembers r prepath fields want l, p.2.numsOk = true := by
  intro p hp
  simp only [relMembers, List.mem_map] at hp
  obtain ⟨a, -, rfl⟩ := hp
  exact relObject_numsOk ..

/-- the members of a resource object, given the attribute and relationship members -/
theorem resMembers_numsOk (r : ResView) (prepath : GoString)
    (attrs rels : List (GoString × Json)) (rmeta : Meta)
    (ha : ∀ p ∈ attrs, p.2.numsOk = true) (hr : ∀ p ∈ rels, p.2.numsOk = true)
    (hm : Json.numsOkMembers rmeta = true) :
    (Json.obj (sortMembers (
      [(K.id, Json.str r.id), (K.type, Json.str r.typeName),
       (K.links, Json.obj [(K.self, .str (buildSelfLink r prepath))])] ++
      (if attrs.isEmpty then [] else [(K.attributes, Json.obj (sortMembers attrs))]) ++
      (if rels.isEmpty then [] else [(K.relationships, Json.obj (sortMembers rels))]) ++
      (if rmeta.isEmpty then [] else [(K.kmeta, Json.obj rmeta)])))).numsOk = true := by
  rw [numsOk_obj_sort]
  intro p hp
  simp only [List.mem_append, List.mem_cons, List.not_mem_nil, or_false] at hp
  rcases hp with ((((rfl | rfl | rfl) | hp) | hp) | hp)
  · exact numsOk_str _
  · exact numsOk_str _
  · simp [Json.numsOk, Json.numsOkMembers]
  · split at hp
    · cases hp
    · simp only [List.mem_cons, List.not_mem_nil, or_false] at hp
      subst hp; exact (numsOk_obj_sort _).2 ha
  · split at hp
    · cases hp
    · simp only [List.mem_cons, List.not_mem_nil, or_false] at hp
      subst hp; exact (numsOk_obj_sort _).2 hr
  · split at hp
    · cases hp
    · simp only [List.mem_cons, List.not_mem_nil, or_false] at hp
      subst hp; simpa [Json.numsOk] using hm

/-- the specification's resource object has well-formed numbers whenever its meta has -/
theorem resourceObject_numsOk (r : ResView) (prepath : GoString) (fields : List GoString)
    (relData : GoMap (List GoString)) (rmeta : Meta) (hm : Json.numsOkMembers rmeta = true) :
    (Spec.resourceObject r prepath fields relData rmeta).numsOk = true :=
  resMembers_numsOk r prepath (attrMembers r fields)
    (relMembers r prepath fields (wantOf r relData) r.rels) rmeta
    (attrMembers_numsOk r fields) (relMembers_numsOk _ _ _ _ _) hm

/-- a plain fold preserves a predicate on the accumulator -/
theorem foldl_pres {σ α : Type} (F : σ → α → σ) (P : σ → Prop) (hF : ∀ s a, P s → P (F s a)) :
    ∀ (l : List α) (s : σ), P s → P (l.foldl F s) := by
  intro l
  induction l with
  | nil => intro s h; exact h
  | cons a l ih => intro s h; exact ih _ (hF s a h)

/-- The model's `marshalResource`, whatever the resource (no well-formedness hypothesis):
a successful result has well-formed numbers whenever the meta has. -/
theorem marshalResource_numsOk {r : ResView} {prepath : GoString} {fields : List GoString}
    {relData : GoMap (List GoString)} {rmeta : Meta} {j : Json} {r' : ResView}
    (hm : Json.numsOkMembers rmeta = true)
    (h : marshalResource r prepath fields relData rmeta = .ok (j, r')) : j.numsOk = true := by
  unfold marshalResource at h
  simp only [] at h
  split at h
  · rename_i rels r'' hrels
    simp only [Res.ok.injEq, Prod.mk.injEq] at h
    rw [← h.1]
    refine resMembers_numsOk r prepath _ rels rmeta ?_ ?_ hm
    · refine foldl_pres _ (fun (m : List (GoString × Json)) => ∀ p ∈ m, p.2.numsOk = true) ?_ _ _ (by simp)
      intro s a hs
      split
      · exact membersOk_set hs (encodeAttr_numsOk _)
      · exact hs
    · have := foldl_pres
        (fun (acc : Res (List (GoString × Json) × ResView)) (p : GoString × Rel) =>
          match acc with
          | .ok (m, r') =>
            if fields.contains p.2.fromName then
              match marshalRel r' prepath p.2
                  (((relData.get? r.typeName).getD []).contains p.2.fromName) with
              | .ok (j, none) => .ok (GoMap.set m p.2.fromName j, r')
              | .ok (j, some sorted) =>
                .ok (GoMap.set m p.2.fromName j,
                  { r' with vals := GoMap.set r'.vals p.2.fromName (.strs sorted) })
              | .err => .err
              | .panic => .panic
            else .ok (m, r')
          | e => e)
        (fun acc => ∀ m r', acc = .ok (m, r') → ∀ p ∈ m, p.2.numsOk = true) ?_
        r.rels (.ok ([], r)) (by intro m r' e; cases e; simp)
      · exact this rels r'' hrels
      · intro s a hs m r1 e
        split at e
        · rename_i m0 r0
          split at e
          · split at e
            · rename_i j0 hj
              simp only [Res.ok.injEq, Prod.mk.injEq] at e
              rw [← e.1]
              exact membersOk_set (hs m0 r0 rfl) (marshalRel_numsOk hj)
            · rename_i j0 sorted hj
              simp only [Res.ok.injEq, Prod.mk.injEq] at e
              rw [← e.1]
              exact membersOk_set (hs m0 r0 rfl) (marshalRel_numsOk hj)
            · cases e
            · cases e
          · cases e
            exact hs m r1 rfl
        · exact hs m r1 e
  · cases h
  · cases h

/-- the fold `marshalCollection` and the included resources of `marshalDocument` run -/
theorem resFold_numsOk (prepath : GoString) (fields : GoMap (List GoString))
    (relData : GoMap (List GoString)) (l : List ResView) {js : List Json} {rs : List ResView}
    (h : l.foldl (fun (acc : Res (List Json × List ResView)) r =>
      match acc with
      | .ok (js, rs) =>
        (match marshalResource r prepath ((fields.get? r.typeName).getD []) relData with
          | .ok (j, r') => .ok (js ++ [j], rs ++ [r'])
          | .err => .err
          | .panic => .panic)
      | e => e) (.ok ([], [])) = .ok (js, rs)) :
    ∀ v ∈ js, v.numsOk = true := by
  have := foldl_pres
    (fun (acc : Res (List Json × List ResView)) (r : ResView) =>
      match acc with
      | .ok (js, rs) =>
        (match marshalResource r prepath ((fields.get? r.typeName).getD []) relData with
          | .ok (j, r') => .ok (js ++ [j], rs ++ [r'])
          | .err => .err
          | .panic => .panic)
      | e => e)
    (fun acc => ∀ js rs, acc = .ok (js, rs) → ∀ v ∈ js, v.numsOk = true) ?_
    l (.ok ([], [])) (by intro js rs e; cases e; simp)
  · exact this js rs h
  · intro s a hs js1 rs1 e
    split at e
    · rename_i js0 rs0
      split at e
      · rename_i j0 r0 hj
        cases e
        intro v hv
        rcases List.mem_append.1 hv with hv | hv
        · exact hs js0 rs0 rfl v hv
        · simp only [List.mem_cons, List.not_mem_nil, or_false] at hv
          subst hv
          exact marshalResource_numsOk (by simp [Json.numsOkMembers]) hj
      · cases e
      · cases e
    · exact hs js1 rs1 e

theorem marshalCollection_numsOk {c : List ResView} {prepath : GoString}
    {fields : GoMap (List GoString)} {relData : GoMap (List GoString)} {j : Json}
    {c' : List ResView} (h : marshalCollection c prepath fields relData = .ok (j, c')) :
    j.numsOk = true := by
  unfold marshalCollection at h
  simp only [] at h
  split at h
  · rename_i js rs hfold
    simp only [Res.ok.injEq, Prod.mk.injEq] at h
    rw [← h.1, numsOk_arr]
    exact resFold_numsOk prepath fields relData c hfold
  · cases h
  · cases h

/-! ### documents -/

theorem linkToJson_numsOk (l : LinkObj) (h : l.numsOk) : l.toJson.numsOk = true := by
  unfold LinkObj.toJson
  split
  · exact numsOk_str _
  · unfold LinkObj.numsOk at h
    simp [Json.numsOk, Json.numsOkMembers, h]

theorem errorToJson_numsOk (e : ErrorObj) (h : e.numsOk) : e.toJson.numsOk = true := by
  unfold ErrorObj.toJson
  rw [numsOk_obj_sort]
  intro p hp
  simp only [List.mem_append] at hp
  rcases hp with (((((((hp | hp) | hp) | hp) | hp) | hp) | hp) | hp) <;> split at hp <;>
    simp only [List.mem_cons, List.not_mem_nil, or_false] at hp <;> subst hp
  · exact numsOk_str _
  · exact numsOk_str _
  · exact numsOk_str _
  · exact numsOk_str _
  · exact numsOk_str _
  · rw [numsOk_obj_sort]
    intro q hq
    simp only [List.mem_map] at hq
    obtain ⟨a, -, rfl⟩ := hq
    exact numsOk_str _
  · simpa [Json.numsOk] using h.1
  · simpa [Json.numsOk] using h.2

theorem errors_numsOk (doc : Document) (hn : doc.numsOk) :
    (Json.arr (doc.errors.map ErrorObj.toJson)).numsOk = true := by
  simp only [numsOk_arr, List.mem_map]
  rintro v ⟨e, he, rfl⟩
  exact errorToJson_numsOk e (hn.2.2 e he)

theorem docLinks_numsOk (doc : Document) (selfHref : GoString) (hn : doc.numsOk) :
    ∀ p ∈ docLinks doc selfHref, p.2.numsOk = true := by
  intro p hp
  simp only [docLinks, List.mem_append, List.mem_map, List.mem_filter, List.mem_cons,
    List.not_mem_nil, or_false] at hp
  rcases hp with ⟨q, ⟨hq, -⟩, rfl⟩ | rfl
  · exact linkToJson_numsOk _ (hn.2.1 q hq)
  · exact numsOk_str _

/-- the top-level members, for any body whose values have well-formed numbers -/
theorem shapeMembers_numsOk (doc : Document) (selfHref : GoString)
    (body : List (GoString × Json)) (hn : doc.numsOk) (hb : ∀ p ∈ body, p.2.numsOk = true) :
    (Json.obj (sortMembers (shapeMembers doc selfHref body))).numsOk = true := by
  rw [numsOk_obj_sort]
  intro p hp
  simp only [shapeMembers, List.mem_append, List.mem_cons, List.not_mem_nil, or_false] at hp
  rcases hp with ((hp | hp) | rfl | rfl)
  · exact hb p hp
  · split at hp
    · cases hp
    · simp only [List.mem_cons, List.not_mem_nil, or_false] at hp
      subst hp; simpa [Json.numsOk] using hn.1
  · exact (numsOk_obj_sort _).2 (docLinks_numsOk doc selfHref hn)
  · simp [Json.numsOk, Json.numsOkMembers]

theorem dataMember_numsOk (doc : Document) (fields : GoMap (List GoString)) (dj : Json)
    (h : Spec.dataMember doc fields = some dj) : dj.numsOk = true := by
  unfold Spec.dataMember at h
  split at h
  · split at h
    · cases h; exact numsOk_null
    · cases h
  · cases h; exact resourceObject_numsOk _ _ _ _ _ (by simp [Json.numsOkMembers])
  · cases h
    simp only [numsOk_arr, List.mem_map]
    rintro v ⟨r, -, rfl⟩
    exact resourceObject_numsOk _ _ _ _ _ (by simp [Json.numsOkMembers])
  · cases h; exact identifierJson_numsOk ..
  · cases h
    simp only [numsOk_arr, List.mem_map]
    rintro v ⟨r, -, rfl⟩
    exact identifierJson_numsOk ..
  · cases h

theorem docBody_numsOk (doc : Document) (fields : GoMap (List GoString)) (hn : doc.numsOk) :
    ∀ p ∈ docBody doc fields, p.2.numsOk = true := by
  intro p hp
  unfold docBody at hp
  split at hp
  · simp only [List.mem_cons, List.not_mem_nil, or_false] at hp
    subst hp; exact errors_numsOk doc hn
  · split at hp
    · rename_i dj hdj
      simp only [List.mem_append, List.mem_cons, List.not_mem_nil, or_false] at hp
      rcases hp with rfl | hp
      · exact dataMember_numsOk doc fields dj hdj
      · split at hp
        · cases hp
        · simp only [List.mem_cons, List.not_mem_nil, or_false] at hp
          subst hp
          simp only [numsOk_arr, List.mem_map]
          rintro v ⟨r, -, rfl⟩
          exact resourceObject_numsOk _ _ _ _ _ (by simp [Json.numsOkMembers])
    · cases hp

/-- the specification's document tree has well-formed numbers whenever the values the
caller supplies have -/
theorem documentTree_numsOk {doc : Document} {fields : GoMap (List GoString)}
    {selfHref : GoString} {t : Json} (hn : doc.numsOk)
    (h : Spec.documentTree doc fields selfHref = some t) : t.numsOk = true := by
  rw [documentTree_some h]
  exact shapeMembers_numsOk doc selfHref (docBody doc fields) hn (docBody_numsOk doc fields hn)

/-- The model's `marshalDocument`, whatever the resources: a successful result has
well-formed numbers whenever the values the caller supplies have. -/
theorem marshalDocument_numsOk {doc : Document} {fields : GoMap (List GoString)}
    {selfHref : GoString} {t : Json} {doc' : Document} (hn : doc.numsOk)
    (h : marshalDocument doc fields selfHref = .ok (t, doc')) : t.numsOk = true := by
  unfold marshalDocument at h
  simp only [] at h
  split at h
  · split at h
    · rename_i _ data data' hdata _ incs incs' hincs
      simp only [Res.ok.injEq, Prod.mk.injEq] at h
      rw [← h.1]
      refine shapeMembers_numsOk doc selfHref _ hn ?_
      have hd : ∀ dj, data = some dj → dj.numsOk = true := by
        intro dj e
        subst e
        split at hdata
        · split at hdata
          · rename_i j r' hj
            cases hdata
            exact marshalResource_numsOk (by simp [Json.numsOkMembers]) hj
          · cases hdata
          · cases hdata
        · split at hdata
          · rename_i j ms' hj
            cases hdata
            exact marshalCollection_numsOk hj
          · cases hdata
          · cases hdata
        · cases hdata; exact identifierJson_numsOk ..
        · cases hdata
          simp only [numsOk_arr, List.mem_map]
          rintro v ⟨r, -, rfl⟩
          exact identifierJson_numsOk ..
        · split at hdata <;> cases hdata
        · split at hdata <;> cases hdata
          exact numsOk_null
      have hi : ∀ v ∈ incs, v.numsOk = true := by
        generalize (if doc.included.isEmpty = true then [] else sortById doc.included) = incSorted
          at hincs
        split at hincs
        · cases hincs; simp
        · exact resFold_numsOk _ _ _ _ hincs
      intro p hp
      split at hp
      · rename_i e he
        simp only [List.mem_cons, List.not_mem_nil, or_false] at hp
        subst hp
        split at he
        · cases he
        · cases he; exact errors_numsOk doc hn
      · rename_i dj _
        simp only [List.mem_append, List.mem_cons, List.not_mem_nil, or_false] at hp
        rcases hp with rfl | hp
        · exact hd dj rfl
        · split at hp
          · cases hp
          · simp only [List.mem_cons, List.not_mem_nil, or_false] at hp
            subst hp
            exact (numsOk_arr _).2 hi
      · cases hp
    · cases h
    · cases h
  · cases h
  · cases h

end MJsonL
end Jsonapi
