/-
Helper lemmas for the round-trip property C02, part 3: resources and identifiers of a
document, and the round trip of a data document.
-/
import Jsonapi.Proofs.RoundTripLemmas5
namespace Jsonapi
namespace RtL
open GoMap UnmL MarshalL


/-! ### what comes back for the resources and identifiers of a document -/

/-- One resource of a document comes back: of its type, with the round trip of C01 for the
selection of its own type and the document's relationship-data list. -/
def ResBack (σ : SSchema) (fields relData : GoMap (List GoString)) (r : ResView) (x : AnyRes) : Prop :=
  ∃ st ∈ σ, st.typ.name = r.typeName ∧
    RoundTrips st.typ (Spec.selection fields r.typeName) (wantOf r relData) r x

/-- An identifier comes back as a resource of its type with that ID and every field zero. -/
def IdentBack (σ : SSchema) (id typ : GoString) (x : AnyRes) : Prop :=
  ∃ st ∈ σ, st.typ.name = typ ∧ ∃ v, x.view? = some v ∧ v.typeName = typ ∧ v.id = id ∧
    ∀ f ∈ st.typ.attrs.keys ++ st.typ.rels.keys, Spec.canon (v.get f) = Spec.zeroOf st.typ f

theorem resSkeOf_resObj (c : Spec.Codecs) (r : ResView) (prepath : GoString) (fields : List GoString)
    (relData : GoMap (List GoString)) :
    Spec.resSkeOf c (Spec.resourceObject r prepath fields relData) =
      some (Spec.skeletonOf c (Spec.resourceObject r prepath fields relData)) := rfl

theorem res_back (c : Spec.Codecs) (σ : SSchema) (hσ : σ.WF) (fields relData : GoMap (List GoString))
    (prepath : GoString) (r : ResView) (hd : ∃ st ∈ σ, ResDom c st r) :
    ∃ x, unmarshalRes? σ (Spec.resSkeOf c
        (Spec.resourceObject r prepath (Spec.selection fields r.typeName) relData)) = .ok x ∧
      ResBack σ fields relData r x := by
  obtain ⟨st, hst, hd⟩ := hd
  obtain ⟨x, h1, h2⟩ := resource_roundtrip c σ hσ st hst r hd prepath
    (Spec.selection fields r.typeName) relData
  exact ⟨x, by rw [resSkeOf_resObj]; exact h1, st, hst, hd.tname.symm, h2⟩

theorem skeleton_ident (c : Spec.Codecs) (id typ : GoString) :
    Spec.resSkeOf c (identifierJson id typ) =
      some { id := id, typ := typ, attrs := [], rels := [], smeta := [] } := by
  have h1 : ¬ K.id = K.type := by decide
  have h2 : ¬ K.id = K.attributes := by decide
  have h3 : ¬ K.type = K.attributes := by decide
  have h4 : ¬ K.id = K.relationships := by decide
  have h5 : ¬ K.type = K.relationships := by decide
  have h6 : ¬ K.id = K.kmeta := by decide
  have h7 : ¬ K.type = K.kmeta := by decide
  simp [Spec.resSkeOf, Spec.skeletonOf, identifierJson, Json.get?, Json.isObj, Spec.strOf,
    Spec.membersOf, h1, h2, h3, h4, h5, h6, h7]

theorem ident_back (c : Spec.Codecs) (σ : SSchema) (hσ : σ.WF) (id typ : GoString)
    (ht : ∃ st ∈ σ, st.typ.name = typ) :
    ∃ x, unmarshalRes? σ (Spec.resSkeOf c (identifierJson id typ)) = .ok x ∧ IdentBack σ id typ x := by
  obtain ⟨st, hst, rfl⟩ := ht
  rw [skeleton_ident]
  have hacc : ∃ x, unmarshalResource σ
      { id := id, typ := st.typ.name, attrs := [], rels := [], smeta := [] } = .ok x := by
    rw [C05_accept_iff σ hσ]
    exact ⟨st, getType_of_mem hσ.1 hst, (by intro p hp; cases hp), (by intro p hp; cases hp)⟩
  obtain ⟨x, hx⟩ := hacc
  refine ⟨x, hx, ?_⟩
  obtain ⟨st', hst', hname, v, hv, h1, h2, -, -, hZ⟩ := C06_stored σ hσ _ x
    (by simp [GoMap.keys]) (by simp [GoMap.keys]) hx
  have : st' = st := eq_of_name_eq hσ.1 hst' hst hname
  subst this
  refine ⟨st', hst', rfl, v, hv, h1, h2, ?_⟩
  intro f hf
  exact hZ f hf rfl (by intro rv hrv; cases hrv)

theorem identOf_resObj (r : ResView) (prepath : GoString) (fields : List GoString)
    (relData : GoMap (List GoString)) :
    (Spec.identOf (Spec.resourceObject r prepath fields relData)).isSome = true := by
  have h1 := resObj_get_id r prepath fields relData []
  have h2 := resObj_get_type r prepath fields relData []
  rw [resourceObject_eq] at h1 h2 ⊢
  simp only [Spec.identOf, h1, h2]
  rfl



/-! ### the data document -/

/-- Domain of C02: every resource of the document (primary and included) is a resource of
some type of the schema in the domain of C01; the types of identifiers exist in the schema. -/
structure DocDom (c : Spec.Codecs) (σ : SSchema) (doc : Document) : Prop where
  res : ∀ r ∈ docResources doc, ∃ st ∈ σ, ResDom c st r
  ident : ∀ id typ, doc.data = .ident id typ → ∃ st ∈ σ, st.typ.name = typ
  idents : ∀ b l, doc.data = .idents b l → ∀ p ∈ l, ∃ st ∈ σ, st.typ.name = p.2

/-- How the primary data comes back: the same kind, resources element-wise in order. -/
def DataBack (σ : SSchema) (fields relData : GoMap (List GoString)) : DocData → UDocData → Prop
  | .none, .none => True
  | .res r, .res x => ResBack σ fields relData r x
  | .col _ ms, .col xs => Forall2 (ResBack σ fields relData) ms xs
  | .ident id typ, .res x => IdentBack σ id typ x
  | .idents _ l, .col xs => Forall2 (fun p x => IdentBack σ p.1 p.2 x) l xs
  | _, _ => False

theorem dataStep_null {σ : SSchema} {sk : DocSke} (h : sk.data = .null) :
    dataStep σ sk = .ok (.none, []) := by
  unfold dataStep; rw [h]

theorem dataStep_res {σ : SSchema} {sk : DocSke} {s : ResSke?} {x : AnyRes} (h : sk.data = .res s)
    (hx : unmarshalRes? σ s = .ok x) : dataStep σ sk = .ok (.res x, []) := by
  unfold dataStep; rw [h]; simp only [hx]

theorem dataStep_col {σ : SSchema} {sk : DocSke} {l : List ResSke?} {xs : List AnyRes}
    (h : sk.data = .col (some l)) (hx : unmarshalList σ l = .ok xs) :
    dataStep σ sk = .ok (.col xs, []) := by
  unfold dataStep; rw [h]; simp only [hx]

theorem docSke_included (c : Spec.Codecs) {doc : Document} {fields : GoMap (List GoString)}
    {selfHref : GoString} {t : Json} (h : Spec.documentTree doc fields selfHref = some t)
    (he : doc.errors = []) :
    (Spec.docSkeletonOf c t).included = (sortById doc.included).map (fun r =>
      (true, Spec.resSkeOf c (Spec.resourceObject r doc.prePath
        (Spec.selection fields r.typeName) doc.relData))) := by
  obtain ⟨dj, hdj⟩ := dataMember_of_tree h he
  obtain ⟨-, -, h3⟩ := tree_data h he hdj
  simp only [Spec.docSkeletonOf, h3]
  cases hi : doc.included with
  | nil => simp [sortById]
  | cons x l =>
    simp only [List.isEmpty_cons, Bool.false_eq_true, if_false, List.map_map]
    apply List.map_congr_left
    intro r _
    simp only [Function.comp, identOf_resObj, Bool.and_true]
    rfl

theorem docSke_data (c : Spec.Codecs) {doc : Document} {fields : GoMap (List GoString)}
    {selfHref : GoString} {t : Json} (h : Spec.documentTree doc fields selfHref = some t)
    (he : doc.errors = []) {dj : Json} (hdj : Spec.dataMember doc fields = some dj) :
    (Spec.docSkeletonOf c t).data = Spec.dataSkeOf c dj := by
  obtain ⟨-, h2, -⟩ := tree_data h he hdj
  simp only [Spec.docSkeletonOf, h2]

theorem document_finish (σ : SSchema) (doc : Document)
    (fields : GoMap (List GoString)) (sk : DocSke) {incs : List AnyRes}
    (hany : sk.included.any (fun p => !p.1) = false)
    (hincs : unmarshalList σ (sk.included.map (·.2)) = .ok incs)
    (hincB : Forall2 (ResBack σ fields doc.relData) (sortById doc.included) incs)
    (hmeta : sk.dmeta = doc.dmeta) (D : DocData) (dd : UDocData)
    (h1 : dataStep σ sk = .ok (dd, [])) (h2 : DataBack σ fields doc.relData D dd) :
    ∃ d, unmarshalDocument σ (some sk) = .ok d ∧
      DataBack σ fields doc.relData D d.data ∧
      Forall2 (ResBack σ fields doc.relData) (sortById doc.included) d.included ∧
      d.errors = [] ∧ d.dmeta = doc.dmeta :=
  ⟨_, unmarshalDocument_of_steps h1 hany hincs, h2, hincB, rfl, hmeta⟩

theorem document_roundtrip (c : Spec.Codecs) (σ : SSchema) (hσ : σ.WF) (doc : Document)
    (hdom : DocDom c σ doc) (he : doc.errors = []) (fields : GoMap (List GoString))
    (selfHref : GoString) (t : Json) (ht : Spec.documentTree doc fields selfHref = some t) :
    ∃ d, unmarshalDocument σ (some (Spec.docSkeletonOf c t)) = .ok d ∧
      DataBack σ fields doc.relData doc.data d.data ∧
      Forall2 (ResBack σ fields doc.relData) (sortById doc.included) d.included ∧
      d.errors = [] ∧ d.dmeta = doc.dmeta := by
  obtain ⟨dj, hdj⟩ := dataMember_of_tree ht he
  -- included
  have hinc := docSke_included c ht he
  have hany : (Spec.docSkeletonOf c t).included.any (fun p => !p.1) = false := by
    rw [hinc]; simp
  obtain ⟨incs, hincs, hincB⟩ := unmarshalList_map (σ := σ)
    (fun r => Spec.resSkeOf c (Spec.resourceObject r doc.prePath
      (Spec.selection fields r.typeName) doc.relData))
    (ResBack σ fields doc.relData) (sortById doc.included)
    (fun r hr => res_back c σ hσ fields doc.relData doc.prePath r
      (hdom.res r (List.mem_append_right _ ((sortById_perm _).mem_iff.1 hr))))
  have hincs' : unmarshalList σ ((Spec.docSkeletonOf c t).included.map (·.2)) = .ok incs := by
    rw [hinc, List.map_map]; exact hincs
  -- data
  have hdata := docSke_data c ht he hdj
  have fin := document_finish σ doc fields _ hany hincs' hincB (docSke_dmeta c ht)
  unfold Spec.dataMember at hdj
  cases hd : doc.data with
  | other => rw [hd] at hdj; cases hdj
  | none =>
    rw [hd] at hdj
    simp only [he, List.isEmpty_nil, if_true, Option.some.injEq] at hdj
    subst hdj
    exact fin _ .none (dataStep_null hdata) trivial
  | res r =>
    rw [hd] at hdj
    simp only [Option.some.injEq] at hdj
    subst hdj
    obtain ⟨x, hx, hb⟩ := res_back c σ hσ fields doc.relData doc.prePath r
      (hdom.res r (List.mem_append_left _ (by simp [docPrimary, hd])))
    rw [resourceObject_eq] at hdata hx
    exact fin _ (.res x) (dataStep_res hdata hx) hb
  | col tn ms =>
    rw [hd] at hdj
    simp only [Option.some.injEq] at hdj
    subst hdj
    obtain ⟨xs, hxs, hb⟩ := unmarshalList_map (σ := σ)
      (fun r => Spec.resSkeOf c (Spec.resourceObject r doc.prePath
        (Spec.selection fields r.typeName) doc.relData))
      (ResBack σ fields doc.relData) ms
      (fun r hr => res_back c σ hσ fields doc.relData doc.prePath r
        (hdom.res r (List.mem_append_left _ (by simp [docPrimary, hd, hr]))))
    have hdata' : (Spec.docSkeletonOf c t).data = .col (some (List.map _ _)) :=
      hdata.trans (by simp only [Spec.dataSkeOf, List.map_map]; rfl)
    exact fin _ (.col xs) (dataStep_col hdata' hxs) hb
  | ident id typ =>
    rw [hd] at hdj
    simp only [Option.some.injEq] at hdj
    subst hdj
    obtain ⟨x, hx, hb⟩ := ident_back c σ hσ id typ (hdom.ident id typ hd)
    exact fin _ (.res x) (dataStep_res hdata hx) hb
  | idents b l =>
    rw [hd] at hdj
    simp only [Option.some.injEq] at hdj
    subst hdj
    obtain ⟨xs, hxs, hb⟩ := unmarshalList_map (σ := σ)
      (fun (p : GoString × GoString) => Spec.resSkeOf c (identifierJson p.1 p.2))
      (fun p x => IdentBack σ p.1 p.2 x) l
      (fun p hp => ident_back c σ hσ p.1 p.2 (hdom.idents b l hd p hp))
    have hdata' : (Spec.docSkeletonOf c t).data = .col (some (List.map _ _)) :=
      hdata.trans (by simp only [Spec.dataSkeOf, List.map_map]; rfl)
    exact fin _ (.col xs) (dataStep_col hdata' hxs) hb

end RtL
end Jsonapi
