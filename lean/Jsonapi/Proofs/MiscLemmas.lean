/-
Helper lemmas for Props/CMisc.lean: association lists with unique keys (the pigeonhole
step behind the symmetry of `reflect.DeepEqual` on maps), `mapDeepEqual`, the two small
collections, decimal printing of three-digit codes.
-/
import Jsonapi.Model.Misc
import Jsonapi.Proofs.DetLemmas
import Jsonapi.Proofs.RoundTripLemmas
namespace Jsonapi.MiscL
open Jsonapi GoMap

/-! ### lists -/

theorem length_le_of_nodup_subset {α : Type} [DecidableEq α] :
    ∀ (l₁ l₂ : List α), l₁.Nodup → (∀ x ∈ l₁, x ∈ l₂) → l₁.length ≤ l₂.length
  | [], _, _, _ => Nat.zero_le _
  | a :: l₁, l₂, hnd, hsub => by
    have ha : a ∈ l₂ := hsub a (List.mem_cons_self)
    rw [List.nodup_cons] at hnd
    have hsub' : ∀ x ∈ l₁, x ∈ l₂.erase a := by
      intro x hx
      have hne : x ≠ a := fun e => hnd.1 (e ▸ hx)
      exact (List.mem_erase_of_ne hne).2 (hsub x (List.mem_cons_of_mem _ hx))
    have ih := length_le_of_nodup_subset l₁ (l₂.erase a) hnd.2 hsub'
    have hl := List.length_erase_of_mem ha
    have hpos : 0 < l₂.length := List.length_pos_of_mem ha
    simp only [List.length_cons]
    omega

/-- Pigeonhole: a duplicate-free list included in a list that is not longer covers it. -/
theorem subset_of_nodup_length {α : Type} [DecidableEq α] :
    ∀ (l₁ l₂ : List α), l₁.Nodup → (∀ x ∈ l₁, x ∈ l₂) → l₂.length ≤ l₁.length →
      ∀ x ∈ l₂, x ∈ l₁
  | [], l₂, _, _, hlen => by
    intro x hx
    have : l₂ = [] := List.eq_nil_of_length_eq_zero (by simpa using hlen)
    rw [this] at hx; cases hx
  | a :: l₁, l₂, hnd, hsub, hlen => by
    have ha : a ∈ l₂ := hsub a (List.mem_cons_self)
    rw [List.nodup_cons] at hnd
    have hsub' : ∀ x ∈ l₁, x ∈ l₂.erase a := by
      intro x hx
      have hne : x ≠ a := fun e => hnd.1 (e ▸ hx)
      exact (List.mem_erase_of_ne hne).2 (hsub x (List.mem_cons_of_mem _ hx))
    have hl := List.length_erase_of_mem ha
    have hpos : 0 < l₂.length := List.length_pos_of_mem ha
    have hlen' : (l₂.erase a).length ≤ l₁.length := by
      simp only [List.length_cons] at hlen; omega
    have ih := subset_of_nodup_length l₁ (l₂.erase a) hnd.2 hsub' hlen'
    intro x hx
    by_cases e : x = a
    · rw [e]; exact List.mem_cons_self
    · exact List.mem_cons_of_mem _ (ih x ((List.mem_erase_of_ne e).2 hx))

/-! ### association lists -/

variable {β : Type}

theorem get?_eq_none_iff (m : GoMap β) (k : GoString) : get? m k = none ↔ k ∉ keys m := by
  induction m with
  | nil => simp [get?, keys]
  | cons p m ih =>
    obtain ⟨k', v⟩ := p
    by_cases e : k' = k
    · simp [get?, keys, e]
    · have e' : ¬ k = k' := fun h => e h.symm
      simp only [get?, e, if_false, ih, keys, List.map_cons, List.mem_cons, e', false_or]

theorem mem_of_get? (m : GoMap β) (k : GoString) (v : β) (h : get? m k = some v) : (k, v) ∈ m := by
  induction m with
  | nil => simp [get?] at h
  | cons p m ih =>
    obtain ⟨k', v'⟩ := p
    by_cases e : k' = k
    · simp only [get?, e, if_true, Option.some.injEq] at h
      rw [e, h]; exact List.mem_cons_self
    · simp only [get?, e, if_false] at h
      exact List.mem_cons_of_mem _ (ih h)

theorem get?_of_mem (m : GoMap β) (hnd : (keys m).Nodup) (k : GoString) (v : β) (h : (k, v) ∈ m) :
    get? m k = some v := by
  induction m with
  | nil => cases h
  | cons p m ih =>
    obtain ⟨k', v'⟩ := p
    simp only [keys, List.map_cons, List.nodup_cons] at hnd
    rcases List.mem_cons.1 h with e | h'
    · cases e; simp [get?]
    · have hk : k ∈ keys m := List.mem_map.2 ⟨(k, v), h', rfl⟩
      have e : ¬ k' = k := fun e => hnd.1 (e ▸ hk)
      simp only [get?, e, if_false]
      exact ih hnd.2 h'

theorem mem_keys_of_get? (m : GoMap β) (k : GoString) (v : β) (h : get? m k = some v) : k ∈ keys m := by
  apply Classical.byContradiction
  intro hn
  rw [(get?_eq_none_iff m k).2 hn] at h
  cases h

/-- Two maps (unique keys) with the same lookups have the same number of entries. -/
theorem length_eq_of_get?_eq (m₁ m₂ : GoMap β) (h₁ : (keys m₁).Nodup) (h₂ : (keys m₂).Nodup)
    (h : ∀ k, get? m₁ k = get? m₂ k) : m₁.length = m₂.length := by
  have s12 : ∀ k ∈ keys m₁, k ∈ keys m₂ := by
    intro k hk
    apply Classical.byContradiction
    intro hn
    have := (get?_eq_none_iff m₂ k).2 hn
    rw [← h k] at this
    exact (get?_eq_none_iff m₁ k).1 this hk
  have s21 : ∀ k ∈ keys m₂, k ∈ keys m₁ := by
    intro k hk
    apply Classical.byContradiction
    intro hn
    have := (get?_eq_none_iff m₁ k).2 hn
    rw [h k] at this
    exact (get?_eq_none_iff m₂ k).1 this hk
  have a := length_le_of_nodup_subset _ _ h₁ s12
  have b := length_le_of_nodup_subset _ _ h₂ s21
  simp only [keys, List.length_map] at a b
  omega

/-- Lookups do not depend on the iteration order (unique keys). -/
theorem get?_perm {m₁ m₂ : GoMap β} (hp : m₁.Perm m₂) (h₁ : (keys m₁).Nodup) (k : GoString) :
    get? m₁ k = get? m₂ k := by
  have h₂ : (keys m₂).Nodup := (List.Perm.map (fun p : GoString × β => p.1) hp).nodup_iff.1 h₁
  cases h : get? m₁ k with
  | none =>
    have hn := (get?_eq_none_iff m₁ k).1 h
    have hn2 : k ∉ keys m₂ := fun hk => hn ((List.Perm.map (fun p : GoString × β => p.1) hp).mem_iff.2 hk)
    exact ((get?_eq_none_iff m₂ k).2 hn2).symm
  | some v =>
    exact (get?_of_mem m₂ h₂ k v (hp.mem_iff.1 (mem_of_get? m₁ k v h))).symm

/-! ### `mapDeepEqual` -/

theorem all_iff [DecidableEq β] (m₁ m₂ : GoMap β) :
    m₁.all (fun p => decide (get? m₂ p.1 = some p.2)) = true ↔
      ∀ p ∈ m₁, get? m₂ p.1 = some p.2 := by
  simp only [List.all_eq_true, decide_eq_true_eq]

/-- `reflect.DeepEqual` on two maps with unique keys: same nil-ness and same lookups. -/
theorem mapDeepEqual_iff [DecidableEq β] (n₁ n₂ : Bool) (m₁ m₂ : GoMap β)
    (h₁ : (keys m₁).Nodup) (h₂ : (keys m₂).Nodup) :
    TypeV.mapDeepEqual n₁ n₂ m₁ m₂ = true ↔ n₁ = n₂ ∧ ∀ k, get? m₁ k = get? m₂ k := by
  unfold TypeV.mapDeepEqual
  simp only [Bool.and_eq_true, decide_eq_true_eq, all_iff]
  constructor
  · rintro ⟨⟨hn, hlen⟩, hall⟩
    refine ⟨hn, ?_⟩
    have s12 : ∀ k ∈ keys m₁, k ∈ keys m₂ := by
      intro k hk
      obtain ⟨p, hp, rfl⟩ := List.mem_map.1 hk
      exact mem_keys_of_get? m₂ p.1 p.2 (hall p hp)
    have s21 := subset_of_nodup_length (keys m₁) (keys m₂) h₁ s12
      (by simp only [keys, List.length_map]; omega)
    intro k
    cases h : get? m₁ k with
    | some v => exact (hall (k, v) (mem_of_get? m₁ k v h)).symm
    | none =>
      have hn1 := (get?_eq_none_iff m₁ k).1 h
      have hn2 : k ∉ keys m₂ := fun hk => hn1 (s21 k hk)
      exact ((get?_eq_none_iff m₂ k).2 hn2).symm
  · rintro ⟨hn, hget⟩
    refine ⟨⟨hn, length_eq_of_get?_eq m₁ m₂ h₁ h₂ hget⟩, ?_⟩
    intro p hp
    rw [← hget p.1]
    exact get?_of_mem m₁ h₁ p.1 p.2 hp

theorem mapDeepEqual_self [DecidableEq β] (n : Bool) (m : GoMap β) (h : (keys m).Nodup) :
    TypeV.mapDeepEqual n n m m = true :=
  (mapDeepEqual_iff n n m m h h).2 ⟨rfl, fun _ => rfl⟩

/-! ### `Type.Equal` -/

theorem equal_iff (t u : TypeV) (ht : t.WF) (hu : u.WF) :
    t.equal u = true ↔
      t.name = u.name ∧ t.attrsNil = u.attrsNil ∧ t.relsNil = u.relsNil ∧
      (∀ k, get? t.attrs k = get? u.attrs k) ∧ (∀ k, get? t.rels k = get? u.rels k) := by
  unfold TypeV.equal
  simp only [Bool.and_eq_true, decide_eq_true_eq,
    mapDeepEqual_iff _ _ _ _ ht.1 hu.1, mapDeepEqual_iff _ _ _ _ ht.2 hu.2]
  constructor
  · rintro ⟨⟨a, b, c⟩, d, e⟩; exact ⟨a, b, d, c, e⟩
  · rintro ⟨a, b, d, c, e⟩; exact ⟨⟨a, b, c⟩, d, e⟩

/-! ### the two collections -/

theorem rcoll_run_col {α : Type} (rs : List (RArg α)) : ∀ c : RColl α, (c.run rs).col = c.col ++ rs := by
  induction rs with
  | nil => intro c; simp [RColl.run]
  | cons r rs ih =>
    intro c
    have := ih (c.add r)
    simp only [RColl.run, List.foldl_cons] at this ⊢
    rw [this]; simp [RColl.add]

theorem wcoll_run {α : Type} (rs : List (RArg α)) :
    ∀ c : WColl α, (c.run rs).col = c.col ++ RArg.accepted rs ∧ (c.run rs).typ = c.typ := by
  induction rs with
  | nil => intro c; simp [WColl.run, RArg.accepted]
  | cons r rs ih =>
    intro c
    have := ih (c.add r)
    simp only [WColl.run, List.foldl_cons] at this ⊢
    rw [this.1, this.2]
    cases r with
    | wrapper w => simp [WColl.add, RArg.accepted]
    | other x => simp [WColl.add, RArg.accepted]

/-! ### decimal printing of a three-digit code -/

theorem printNat_length_three (n : Nat) (h1 : 100 ≤ n) (h2 : n < 1000) : (printNat n).length = 3 := by
  rw [printNat, if_neg (by omega), printNat, if_neg (by omega), printNat, if_pos (by omega)]
  rfl

theorem goAtoi_printNat (n : Nat) (h : n < 2 ^ 63) : goAtoi (printNat n) = n := by
  have hp : parseInt 64 (printInt (n : Int)) = some (n : Int) :=
    RtL.parseInt_printInt 64 (n : Int) (by simp only [Nat.reducePow, Nat.reduceSub]; omega)
      (by simp only [Nat.reducePow, Nat.reduceSub]; omega)
  have hpi : printInt (n : Int) = printNat n := by
    unfold printInt
    rw [if_neg (by omega)]
    rfl
  rw [hpi] at hp
  unfold goAtoi
  rw [hp]

/-! ### error constructors -/

/-- Does the template start with a non-empty literal? -/
def headLit : List Piece → Bool
  | .lit (_ :: _) :: _ => true
  | _ => false

theorem mem_ite_singleton {α : Type} (c : Prop) [Decidable c] (a x : α) :
    x ∈ (if c then [a] else []) ↔ c ∧ x = a := by
  by_cases h : c <;> simp [h]

theorem mem_ite_nil_singleton {α : Type} (c : Prop) [Decidable c] (a x : α) :
    x ∈ (if c then [] else [a]) ↔ ¬ c ∧ x = a := by
  by_cases h : c <;> simp [h]

theorem set_ne_nil {β : Type} (m : GoMap β) (k : GoString) (v : β) : GoMap.set m k v ≠ [] := by
  cases m with
  | nil => simp [GoMap.set]
  | cons p m =>
    obtain ⟨k', v'⟩ := p
    simp only [GoMap.set]
    split <;> simp

theorem instMap_eq_nil (q : GoString → GoString) (args : List GoString)
    (ws : List (GoString × List Piece)) : ErrCtor.instMap q args ws = [] ↔ ws = [] := by
  have key : ∀ (ws : List (GoString × List Piece)) (m : Meta), m ≠ [] →
      ws.foldl (fun m w => GoMap.set m w.1 (Json.str (ErrCtor.inst q args w.2))) m ≠ [] := by
    intro ws
    induction ws with
    | nil => intro m hm; exact hm
    | cons w ws ih => intro m _; exact ih _ (set_ne_nil _ _ _)
  cases ws with
  | nil => simp [ErrCtor.instMap]
  | cons w ws =>
    simp only [ErrCtor.instMap, List.foldl_cons]
    constructor
    · intro h; exact absurd h (key ws _ (set_ne_nil _ _ _))
    · intro h; cases h

end Jsonapi.MiscL
