/-
Helper lemmas for `C16_rels_coherent` (Props/C16.lean): what `Check` reporting nothing gives
for one relationship, the value of the completion `Schema.complete` in a coherent schema, and
the counting of the entries of `Rels()`.
-/
import Jsonapi.Proofs.C14Lemmas
namespace Jsonapi
open Schema GoMap

namespace Rel

/-- `Normalize` keeps a relationship exactly when it is one-way or its (type, name) end is
not after the other end: a condition on the four names only. -/
theorem normalize_eq_self_iff (r : Rel) :
    r.normalize = r ↔ (r.toName = [] ∨ r.fromType < r.toType ∨
      (r.fromType = r.toType ∧ (r.fromName < r.toName ∨ r.fromName = r.toName))) := by
  unfold normalize
  by_cases h1 : r.toName = []
  · simp [h1]
  · by_cases h2 : r.fromType < r.toType
    · simp [h1, h2]
    · by_cases h3 : r.fromType = r.toType ∧ (r.fromName < r.toName ∨ r.fromName = r.toName)
      · rw [if_neg h1, if_neg h2, if_pos h3]; simp [h3]
      · simp only [h1, h2, h3, if_false, false_or, iff_false]
        intro h
        have e1 : r.toType = r.fromType := congrArg Rel.fromType h
        have e2 : r.toName = r.fromName := congrArg Rel.fromName h
        exact h3 ⟨e1.symm, .inr e2.symm⟩

/-- Whether `Normalize` keeps a relationship depends on its names only. -/
theorem normalize_eq_self_congr {a b : Rel} (h1 : a.fromType = b.fromType)
    (h2 : a.fromName = b.fromName) (h3 : a.toType = b.toType) (h4 : a.toName = b.toName) :
    a.normalize = a ↔ b.normalize = b := by
  rw [normalize_eq_self_iff, normalize_eq_self_iff, h1, h2, h3, h4]

theorem normalize_eq_self_or_invert (r : Rel) : r.normalize = r ∨ r.normalize = r.invert := by
  unfold Rel.normalize; (repeat' split) <;> simp

/-- Of a two-way relationship `r` and a relationship `r'` with the inverted names, `Normalize`
keeps at least one, and it keeps both only when `r` is its own inverse. -/
theorem canon_pair {r r' : Rel} (h1 : r'.fromType = r.toType) (h2 : r'.fromName = r.toName)
    (h3 : r'.toType = r.fromType) (h4 : r'.toName = r.fromName) (ht : r.toName ≠ []) (hf : r.fromName ≠ []) :
    (r.normalize = r ∨ r'.normalize = r') ∧
    (r.normalize = r → r'.normalize = r' → r.fromType = r.toType ∧ r.fromName = r.toName) := by
  have hc : r'.normalize = r' ↔ r.invert.normalize = r.invert :=
    normalize_eq_self_congr h1 h2 h3 h4
  by_cases hs : r.fromType = r.toType ∧ r.fromName = r.toName
  · refine ⟨.inl ?_, fun _ _ => hs⟩
    rw [normalize_eq_self_iff]; exact .inr (.inr ⟨hs.1, .inr hs.2⟩)
  · have hi := normalize_invert r ht hf hs
    constructor
    · rcases normalize_eq_self_or_invert r with h | h
      · exact .inl h
      · exact .inr (hc.2 (by rw [hi, h]))
    · intro ha hb
      have : r.invert = r := by rw [← hc.1 hb, hi, ha]
      exact absurd ⟨(congrArg Rel.fromType this).symm, (congrArg Rel.fromName this).symm⟩ hs

end Rel

namespace Schema

/-- The relationships of a schema, each with the type that owns it. -/
def ends (σ : Schema) : List (Typ × Rel) :=
  σ.types.flatMap (fun t => t.rels.vals.map (fun r => (t, r)))

theorem mem_ends {σ : Schema} {e : Typ × Rel} :
    e ∈ σ.ends ↔ e.1 ∈ σ.types ∧ e.2 ∈ e.1.rels.vals := by
  obtain ⟨t, r⟩ := e
  simp only [ends, List.mem_flatMap, List.mem_map, Prod.mk.injEq]
  constructor
  · rintro ⟨t', ht', r', hr', rfl, rfl⟩; exact ⟨ht', hr'⟩
  · rintro ⟨ht, hr⟩; exact ⟨t, ht, r, hr, rfl, rfl⟩

/-! ### what `Check` reporting nothing says about one relationship -/

theorem checkRel_zero {σ : Schema} (hc : σ.check = []) {t : Typ} (ht : t ∈ σ.types) {r : Rel}
    (hr : r ∈ t.rels.vals) : σ.checkRel t r = 0 := by
  unfold check at hc
  rw [List.flatMap_eq_nil_iff] at hc
  have h := hc t ht
  rw [List.filterMap_eq_nil_iff] at h
  obtain ⟨p, hp, rfl⟩ := List.mem_map.1 hr
  have := h p hp
  by_cases h0 : σ.checkRel t p.2 = 0
  · exact h0
  · simp [h0] at this

/-- The target type of every relationship exists. -/
theorem target_mem {σ : Schema} (hc : σ.check = []) {t : Typ} (ht : t ∈ σ.types) {r : Rel}
    (hr : r ∈ t.rels.vals) : σ.getType r.toType ∈ σ.types ∧ (σ.getType r.toType).name = r.toType := by
  have h := checkRel_zero hc ht hr
  unfold checkRel checkTarget at h
  rcases getType_cases σ r.toType with h' | h'
  · exact h'
  · rw [h'] at h; simp [Typ.empty] at h

/-- A relationship that names an inverse is reciprocated in the target type. -/
theorem recip_exists {σ : Schema} (hc : σ.check = []) {t : Typ} (ht : t ∈ σ.types) {r : Rel}
    (hr : r ∈ t.rels.vals) (h2 : r.toName ≠ []) :
    ∃ r' ∈ (σ.getType r.toType).rels.vals,
      r'.fromName = r.toName ∧ r'.toName = r.fromName ∧ r'.toType = t.name := by
  have h := checkRel_zero hc ht hr
  unfold checkRel checkInverse at h
  rw [if_neg h2] at h
  by_cases hf : r.fromType ≠ t.name
  · rw [if_pos hf] at h; omega
  · rw [if_neg hf] at h
    by_cases ha : (σ.getType r.toType).rels.any (fun p =>
        decide (r.fromName = p.2.toName ∧ r.toName = p.2.fromName ∧ p.2.toType = t.name)) = true
    · obtain ⟨p, hp, hd⟩ := List.any_eq_true.1 ha
      have hd' := of_decide_eq_true hd
      exact ⟨p.2, List.mem_map.2 ⟨p, hp, rfl⟩, hd'.2.1.symm, hd'.1.symm, hd'.2.2⟩
    · rw [if_neg ha] at h; omega

/-! ### relationship names are unique within a well-formed type -/

theorem pairwise_fromName {t : Typ} (h : TypWF t) :
    t.rels.vals.Pairwise (fun a b => a.fromName ≠ b.fromName) := by
  have h1 : t.rels.Pairwise (fun p q => p.1 ≠ q.1) := List.pairwise_map.1 h.ndR
  have h2 : t.rels.Pairwise (fun p q => p.2.fromName ≠ q.2.fromName) := by
    refine h1.imp_of_mem ?_
    intro p q hp hq hne
    rw [← (h.rels p hp).1, ← (h.rels q hq).1]; exact hne
  exact List.pairwise_map.2 h2

theorem eq_of_pairwise_ne {α β : Type} (f : α → β) {l : List α}
    (h : l.Pairwise (fun a b => f a ≠ f b)) {a b : α} (ha : a ∈ l) (hb : b ∈ l) (e : f a = f b) :
    a = b := by
  induction l with
  | nil => cases ha
  | cons x l ih =>
    rw [List.pairwise_cons] at h
    rcases List.mem_cons.1 ha with rfl | ha' <;> rcases List.mem_cons.1 hb with rfl | hb'
    · rfl
    · exact absurd e (h.1 b hb')
    · exact absurd e.symm (h.1 a ha')
    · exact ih h.2 ha' hb'

theorem rel_unique {t : Typ} (h : TypWF t) {a b : Rel} (ha : a ∈ t.rels.vals) (hb : b ∈ t.rels.vals)
    (e : a.fromName = b.fromName) : a = b :=
  eq_of_pairwise_ne Rel.fromName (pairwise_fromName h) ha hb e

theorem fromName_ne_nil {t : Typ} (h : TypWF t) {r : Rel} (hr : r ∈ t.rels.vals) : r.fromName ≠ [] := by
  obtain ⟨p, hp, rfl⟩ := List.mem_map.1 hr
  exact (h.rels p hp).2.1

/-! ### the completion in a coherent schema -/

theorem all_eq_of_forall_eq {α : Type} (f : α → Bool) {l : List α} {a : α} (hne : a ∈ l)
    (h : ∀ x ∈ l, x = a) : l.all f = f a := by
  cases hf : f a
  · rw [List.all_eq_false]; exact ⟨a, hne, by simp [hf]⟩
  · rw [List.all_eq_true]; intro x hx; rw [h x hx]; exact hf

/-- The completion of a two-way relationship whose target type is well-formed and holds a
relationship pointing back: the other side's cardinality is that relationship's `ToOne`. -/
theorem complete_of_recip {σ : Schema} {t : Typ} {r r' : Rel} (h2 : r.toName ≠ [])
    (hwf : TypWF (σ.getType r.toType)) (hr' : r' ∈ (σ.getType r.toType).rels.vals)
    (ha : r'.fromName = r.toName) (hb : r'.toName = r.fromName) (hc : r'.toType = t.name) :
    σ.complete t r = { r with fromOne := r'.toOne } := by
  have hmem : r' ∈ σ.backRels t r := by
    unfold backRels; rw [List.mem_filter]; exact ⟨hr', decide_eq_true ⟨ha, hb, hc⟩⟩
  have hall : ∀ x ∈ σ.backRels t r, x = r' := by
    intro x hx
    unfold backRels at hx; rw [List.mem_filter] at hx
    exact rel_unique hwf hx.1 hr' ((of_decide_eq_true hx.2).1.trans ha.symm)
  have hne : (σ.backRels t r).isEmpty = false := by
    cases hl : σ.backRels t r with
    | nil => rw [hl] at hmem; cases hmem
    | cons _ _ => rfl
  unfold complete
  rw [if_neg h2, hne, all_eq_of_forall_eq _ hmem hall]
  rfl

/-- The completion keeps the four names and `ToOne`. -/
theorem complete_fields (σ : Schema) (t : Typ) (r : Rel) :
    σ.complete t r = { r with fromOne := (σ.complete t r).fromOne } := by
  unfold complete
  by_cases h1 : r.toName = []
  · rw [if_pos h1]
  · by_cases h2 : (σ.backRels t r).isEmpty <;> simp [h1, h2]

theorem complete_oneway (σ : Schema) (t : Typ) {r : Rel} (h : r.toName = []) : σ.complete t r = r := by
  unfold complete; rw [if_pos h]

theorem complete_canon (σ : Schema) (t : Typ) (r : Rel) :
    (σ.complete t r).normalize = σ.complete t r ↔ r.normalize = r := by
  apply Rel.normalize_eq_self_congr <;> rw [complete_fields σ t r]

/-- The data of a coherent schema: C14's invariant, `Check` reports nothing, every
relationship's `FromType` is its owning type. -/
structure Coherent (σ : Schema) : Prop where
  inv : Inv σ
  check : σ.check = []
  owner : ∀ t ∈ σ.types, ∀ r ∈ t.rels.vals, r.fromType = t.name

/-- The heart of `C16_rels_coherent`: in a coherent schema the two sides of a two-way
relationship are completed to a relationship and its inverse, which normalise alike. -/
theorem coherent_pair {σ : Schema} (h : Coherent σ) {t : Typ} (ht : t ∈ σ.types) {r : Rel}
    (hr : r ∈ t.rels.vals) (h2 : r.toName ≠ []) :
    ∃ r', σ.getType r.toType ∈ σ.types ∧ r' ∈ (σ.getType r.toType).rels.vals ∧
      r'.fromName = r.toName ∧ r'.toName = r.fromName ∧ r'.toType = t.name ∧ r'.toName ≠ [] ∧
      σ.complete t r = { r with fromOne := r'.toOne } ∧
      σ.complete (σ.getType r.toType) r' = (σ.complete t r).invert ∧
      (σ.complete (σ.getType r.toType) r').normalize = (σ.complete t r).normalize ∧
      ((r.fromType = r.toType ∧ r.fromName = r.toName) → σ.getType r.toType = t ∧ r' = r) := by
  obtain ⟨ht', hn'⟩ := target_mem h.check ht hr
  obtain ⟨r', hr', ha, hb, hc⟩ := recip_exists h.check ht hr h2
  have hwf' : TypWF (σ.getType r.toType) := (h.inv.2 _ ht').2
  have hwf : TypWF t := (h.inv.2 _ ht).2
  have hfn : r.fromName ≠ [] := fromName_ne_nil hwf hr
  have h2' : r'.toName ≠ [] := by rw [hb]; exact hfn
  have ho : r.fromType = t.name := h.owner t ht r hr
  have ho' : r'.fromType = r.toType := by rw [h.owner _ ht' r' hr', hn']
  have hback : σ.getType r'.toType = t := by rw [hc]; exact getType_of_mem h.inv.1 ht
  have c1 : σ.complete t r = { r with fromOne := r'.toOne } := complete_of_recip h2 hwf' hr' ha hb hc
  have c2 : σ.complete (σ.getType r.toType) r' = { r' with fromOne := r.toOne } :=
    complete_of_recip (t := σ.getType r.toType) h2' (by rw [hback]; exact hwf) (by rw [hback]; exact hr)
      hb.symm ha.symm hn'.symm
  have cinv : σ.complete (σ.getType r.toType) r' = (σ.complete t r).invert := by
    rw [c1, c2]
    obtain ⟨a1, a2, a3, a4, a5, a6⟩ := r
    obtain ⟨b1, b2, b3, b4, b5, b6⟩ := r'
    simp only at ha hb hc ho ho'
    simp only [Rel.invert, Rel.mk.injEq]
    exact ⟨ho', ha, trivial, hc.trans ho.symm, hb, trivial⟩
  have hself : (r.fromType = r.toType ∧ r.fromName = r.toName) → σ.getType r.toType = t ∧ r' = r := by
    rintro ⟨e1, e2⟩
    have et : σ.getType r.toType = t := by
      rw [← e1, ho]; exact getType_of_mem h.inv.1 ht
    refine ⟨et, ?_⟩
    exact rel_unique hwf (by rw [← et]; exact hr') hr (by rw [ha, e2])
  refine ⟨r', ht', hr', ha, hb, hc, h2', c1, cinv, ?_, hself⟩
  rw [cinv]
  by_cases hs : r.fromType = r.toType ∧ r.fromName = r.toName
  · -- its own inverse: the completed relationship is its own inverse too
    obtain ⟨et, er⟩ := hself hs
    have : (σ.complete t r).invert = σ.complete t r := by
      rw [← cinv, et, er]
    rw [this]
  · apply Rel.normalize_invert
    · rw [complete_fields σ t r]; exact h2
    · rw [complete_fields σ t r]; exact hfn
    · rw [complete_fields σ t r]; exact hs

/-! ### counting -/

/-- Distinct (type, relationship) ends of a coherent schema differ in (FromType, FromName). -/
theorem ends_pairwise {σ : Schema} (h : Coherent σ) :
    σ.ends.Pairwise (fun a b => ¬ (a.2.fromType = b.2.fromType ∧ a.2.fromName = b.2.fromName)) := by
  unfold ends
  rw [List.pairwise_flatMap]
  constructor
  · intro t ht
    rw [List.pairwise_map]
    exact (pairwise_fromName (h.inv.2 t ht).2).imp (fun hne e => hne e.2)
  · have h1 : σ.types.Pairwise (fun a b => a.name ≠ b.name) := List.pairwise_map.1 h.inv.1
    refine h1.imp_of_mem ?_
    intro a b ha hb hne x hx y hy
    obtain ⟨r, hr, rfl⟩ := List.mem_map.1 hx
    obtain ⟨r', hr', rfl⟩ := List.mem_map.1 hy
    intro e
    exact hne (by rw [← h.owner a ha r hr, ← h.owner b hb r' hr']; exact e.1)

theorem countP_split {α : Type} (p q : α → Bool) (hq : ∀ x, q x = true → p x = true) (l : List α) :
    l.countP p = l.countP q + l.countP (fun x => !q x && p x) := by
  induction l with
  | nil => rfl
  | cons a l ih =>
    simp only [List.countP_cons, ih]
    cases hqa : q a
    · cases hpa : p a <;> simp <;> omega
    · have := hq a hqa; simp [this]; omega

/-- The entries of `Rels()` of a coherent schema are, up to order, the completions of the ends
that `Normalize` keeps: every one-way relationship, and of each two-way pair the end whose
(type, name) is not after the other's. -/
theorem relsSorted_perm_canon {σ : Schema} (h : Coherent σ) :
    σ.relsSorted.Perm ((σ.ends.filter (fun e => decide (e.2.normalize = e.2))).map
      (fun e => σ.complete e.1 e.2)) ∧
    ((σ.ends.filter (fun e => decide (e.2.normalize = e.2))).map (fun e => σ.complete e.1 e.2)).Nodup := by
  have nd : ((σ.ends.filter (fun e => decide (e.2.normalize = e.2))).map
      (fun e => σ.complete e.1 e.2)).Nodup := by
    rw [List.nodup_iff_pairwise_ne, List.pairwise_map]
    refine ((ends_pairwise h).filter _).imp ?_
    intro a b hab e
    apply hab
    rw [complete_fields σ a.1 a.2, complete_fields σ b.1 b.2] at e
    have e1 := congrArg Rel.fromType e
    have e2 := congrArg Rel.fromName e
    exact ⟨e1, e2⟩
  refine ⟨?_, nd⟩
  rw [List.perm_ext_iff_of_nodup (nodup_relsSorted σ) nd]
  intro x
  rw [mem_relsSorted]
  simp only [List.mem_map, List.mem_filter, decide_eq_true_eq, mem_ends]
  constructor
  · rintro ⟨t, ht, r, hr, rfl⟩
    rcases Rel.normalize_eq_self_or_invert (σ.complete t r) with hn | hn
    · exact ⟨(t, r), ⟨⟨ht, hr⟩, (complete_canon σ t r).1 hn⟩, hn.symm⟩
    · by_cases h2 : r.toName = []
      · have : σ.complete t r = r := complete_oneway σ t h2
        refine ⟨(t, r), ⟨⟨ht, hr⟩, ?_⟩, ?_⟩
        · simp [Rel.normalize, h2]
        · rw [this]; simp [Rel.normalize, h2]
      · obtain ⟨r', ht', hr', _, _, _, _, _, cinv, hnorm, _⟩ := coherent_pair h ht hr h2
        refine ⟨(σ.getType r.toType, r'), ⟨⟨ht', hr'⟩, ?_⟩, ?_⟩
        · apply (complete_canon σ _ r').1
          rw [hnorm, hn, cinv]
        · rw [hn, cinv]
  · rintro ⟨e, ⟨⟨ht, hr⟩, hcan⟩, rfl⟩
    exact ⟨e.1, ht, e.2, hr, (complete_canon σ e.1 e.2).2 hcan⟩

end Schema
end Jsonapi
