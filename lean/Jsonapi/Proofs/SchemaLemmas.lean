/-
Helper lemmas about the schema model (used by Props/C14, C15, C16).
-/
import Jsonapi.Model.Schema
namespace Jsonapi

theorem List.count_eq_one_of_mem' {α} [DecidableEq α] {a : α} {l : List α}
    (d : l.Nodup) (h : a ∈ l) : l.count a = 1 := by
  rw [d.count]; simp [h]

namespace List
theorem count_eq_one_of_mem {α} [DecidableEq α] {a : α} {l : List α}
    (d : l.Nodup) (h : a ∈ l) : l.count a = 1 := Jsonapi.List.count_eq_one_of_mem' d h
end List

/-! ### Rel.normalize -/
namespace Rel

theorem normalize_idem (r : Rel) : r.normalize.normalize = r.normalize := by
  unfold normalize
  by_cases h1 : r.toName = []
  · simp [h1]
  · simp only [h1, if_false]
    by_cases h2 : r.fromType < r.toType
    · simp [h2, h1]
    · simp only [h2, if_false]
      by_cases h3 : r.fromType = r.toType ∧ (r.fromName < r.toName ∨ r.fromName = r.toName)
      · simp [h3, h1]
      · simp only [h3, if_false]
        -- r was inverted
        simp only [invert]
        by_cases h4 : r.fromName = []
        · simp [h4]
        · simp only [h4, if_false]
          rcases Std.lt_trichotomy r.fromType r.toType with hlt | heq | hgt
          · exact absurd hlt h2
          · -- same type: names decide; fromName > toName
            have hn : ¬ (r.fromName < r.toName ∨ r.fromName = r.toName) := fun hn => h3 ⟨heq, hn⟩
            rcases Std.lt_trichotomy r.fromName r.toName with a | a | a
            · exact absurd (.inl a) hn
            · exact absurd (.inr a) hn
            · have : ¬ r.toType < r.fromType := by rw [heq]; exact List.lt_irrefl _
              simp [heq, a]
          · simp [hgt]

theorem normalize_invert (r : Rel) (ht : r.toName ≠ []) (hf : r.fromName ≠ [])
    (hs : ¬ (r.fromType = r.toType ∧ r.fromName = r.toName)) :
    r.invert.normalize = r.normalize := by
  obtain ⟨ft, fn, to1, tt, tn, fo⟩ := r
  simp only [ne_eq] at ht hf hs
  simp only [normalize, invert, ht, hf, if_false]
  show (if tt < ft then _ else if tt = ft ∧ (tn < fn ∨ tn = fn) then _ else _) = (if ft < tt then _ else if ft = tt ∧ (fn < tn ∨ fn = tn) then _ else _)
  rcases Std.lt_trichotomy ft tt with hlt | heq | hgt
  · have h2 : ¬ tt = ft := fun e => by rw [e] at hlt; exact List.lt_irrefl _ hlt
    rw [if_neg (List.lt_asymm hlt), if_neg (fun h => h2 h.1), if_pos hlt]
  · subst heq
    have hne : fn ≠ tn := fun e => hs ⟨rfl, e⟩
    rw [if_neg (List.lt_irrefl _), if_neg (List.lt_irrefl _)]
    rcases Std.lt_trichotomy fn tn with a | a | a
    · rw [if_neg, if_pos ⟨rfl, .inl a⟩]
      rintro ⟨_, h | h⟩
      · exact List.lt_asymm a h
      · exact hne h.symm
    · exact absurd a hne
    · rw [if_pos ⟨rfl, .inl a⟩, if_neg]
      rintro ⟨_, h | h⟩
      · exact List.lt_asymm a h
      · exact hne h
  · have h2 : ¬ ft = tt := fun e => by rw [e] at hgt; exact List.lt_irrefl _ hgt
    rw [if_pos hgt, if_neg (List.lt_asymm hgt), if_neg (fun h => h2 h.1)]

/-! ### the sort order of `Rels()` -/

theorem key_inj {a b : Rel} (h : a.key = b.key) : a = b := by
  cases a; cases b
  simp only [key, List.cons.injEq, and_true] at h
  obtain ⟨h1, h2, h3, h4, h5, h6⟩ := h
  simp only [mk.injEq]
  refine ⟨h1, h2, ?_, h3, h4, ?_⟩
  · revert h5; rename_i a _ _ _ _ _ b _ _ _; cases a <;> cases b <;> simp
  · revert h6; rename_i _ _ a _ _ _ _ _ b <;> cases a <;> cases b <;> simp

theorem le_iff (a b : Rel) : le a b = true ↔ a.key ≤ b.key := by
  simp only [le, less, Bool.not_eq_true', decide_eq_false_iff_not]; exact Iff.rfl

theorem le_trans' (a b c : Rel) (h1 : le a b = true) (h2 : le b c = true) : le a c = true := by
  rw [le_iff] at *; exact List.le_trans h1 h2

theorem le_total' (a b : Rel) : (le a b || le b a) = true := by
  rw [Bool.or_eq_true, le_iff, le_iff]; exact List.le_total _ _

theorem le_antisymm' (a b : Rel) (h1 : le a b = true) (h2 : le b a = true) : a = b := by
  rw [le_iff] at *; exact key_inj (List.le_antisymm h1 h2)

end Rel

namespace Schema

theorem mem_dedup {α} [DecidableEq α] (a : α) (l : List α) : a ∈ dedup l ↔ a ∈ l := by
  induction l with
  | nil => simp [dedup]
  | cons b l ih =>
    unfold dedup; split
    · rename_i h; rw [ih]; constructor
      · exact fun h' => List.mem_cons_of_mem _ h'
      · intro h'; rcases List.mem_cons.1 h' with e | e
        · rw [e]; exact h
        · exact e
    · simp [ih]

theorem nodup_dedup {α} [DecidableEq α] (l : List α) : (dedup l).Nodup := by
  induction l with
  | nil => simp [dedup]
  | cons b l ih =>
    unfold dedup; split
    · exact ih
    · rename_i h; exact List.nodup_cons.2 ⟨fun h' => h ((mem_dedup _ _).1 h'), ih⟩

theorem mem_relSet (σ : Schema) (x : Rel) :
    x ∈ σ.relSet ↔ ∃ t ∈ σ.types, ∃ r ∈ t.rels.vals, (σ.complete t r).normalize = x := by
  simp [relSet, mem_dedup, List.mem_flatMap, List.mem_map]

theorem mem_relsSorted (σ : Schema) (x : Rel) :
    x ∈ σ.relsSorted ↔ ∃ t ∈ σ.types, ∃ r ∈ t.rels.vals, (σ.complete t r).normalize = x := by
  rw [relsSorted, (List.mergeSort_perm _ _).mem_iff, mem_relSet]

theorem nodup_relsSorted (σ : Schema) : σ.relsSorted.Nodup :=
  (List.mergeSort_perm _ _).nodup_iff.2 (nodup_dedup _)

theorem relsSorted_ext (σ₁ σ₂ : Schema)
    (h : ∀ x, (∃ t ∈ σ₁.types, ∃ r ∈ t.rels.vals, (σ₁.complete t r).normalize = x) ↔
              (∃ t ∈ σ₂.types, ∃ r ∈ t.rels.vals, (σ₂.complete t r).normalize = x)) :
    σ₁.relsSorted = σ₂.relsSorted := by
  apply List.Perm.eq_of_pairwise (le := fun a b => Rel.le a b = true)
  · intro a b _ _ h1 h2; exact Rel.le_antisymm' a b h1 h2
  · exact List.pairwise_mergeSort Rel.le_trans' Rel.le_total' _
  · exact List.pairwise_mergeSort Rel.le_trans' Rel.le_total' _
  · rw [List.perm_ext_iff_of_nodup (nodup_relsSorted _) (nodup_relsSorted _)]
    intro x; rw [mem_relsSorted, mem_relsSorted]; exact h x

/-! #### the completion does not depend on the order of the types or of the map entries -/

/-- The completion, from what it reads of the target type: its matching relationships. -/
theorem complete_congr (σ₁ σ₂ : Schema) (t₁ t₂ : Typ) (r : Rel) (hn : t₁.name = t₂.name)
    (hp : (σ₁.getType r.toType).rels.Perm (σ₂.getType r.toType).rels) :
    σ₁.complete t₁ r = σ₂.complete t₂ r := by
  have hb : (σ₁.backRels t₁ r).Perm (σ₂.backRels t₂ r) := by
    unfold backRels; rw [hn]; exact (hp.map (·.2)).filter _
  unfold complete
  rw [hb.isEmpty_eq, hb.all_eq]

/-- In a list of types with distinct names, the first type of a name is the type of that name. -/
theorem find?_name_of_nodup {l : List Typ} (nd : (l.map (·.name)).Nodup) {t : Typ} (ht : t ∈ l) :
    l.find? (fun u => decide (u.name = t.name)) = some t := by
  induction l with
  | nil => cases ht
  | cons a l ih =>
    rw [List.map_cons, List.nodup_cons] at nd
    rw [List.find?_cons]
    rcases List.mem_cons.1 ht with rfl | ht'
    · simp
    · have : ¬ a.name = t.name := fun e => nd.1 (e ▸ List.mem_map.2 ⟨t, ht', rfl⟩)
      simp only [this, decide_false]
      exact ih nd.2 ht'

theorem getType_of_mem {σ : Schema} (nd : (σ.types.map (·.name)).Nodup) {t : Typ}
    (ht : t ∈ σ.types) : σ.getType t.name = t := by
  unfold getType; rw [find?_name_of_nodup nd ht]

/-- `GetType` returns a type of the schema with that name, or the zero type. -/
theorem getType_cases (σ : Schema) (n : GoString) :
    (σ.getType n ∈ σ.types ∧ (σ.getType n).name = n) ∨ σ.getType n = Typ.empty := by
  unfold getType
  cases h : σ.types.find? (fun t => decide (t.name = n)) with
  | none => exact .inr rfl
  | some t =>
    refine .inl ⟨List.mem_of_find?_eq_some h, ?_⟩
    simpa using List.find?_some h

theorem getType_perm (σ₁ σ₂ : Schema) (h : σ₁.types.Perm σ₂.types)
    (nd : (σ₁.types.map (·.name)).Nodup) (n : GoString) : σ₁.getType n = σ₂.getType n := by
  have nd₂ : (σ₂.types.map (·.name)).Nodup := (h.map _).nodup_iff.1 nd
  rcases getType_cases σ₁ n with ⟨hm, hn⟩ | he
  · have := getType_of_mem nd₂ (h.mem_iff.1 hm)
    rw [hn] at this; exact this.symm
  · rcases getType_cases σ₂ n with ⟨hm, hn⟩ | he₂
    · have := getType_of_mem nd (h.mem_iff.2 hm)
      rw [hn] at this; exact this
    · rw [he, he₂]

/-- Types in another order (distinct names, as C14 keeps them: with two types of one name
`GetType` - hence the completion - would depend on which comes first). -/
theorem relsSorted_types_perm (σ₁ σ₂ : Schema) (h : σ₁.types.Perm σ₂.types)
    (nd : (σ₁.types.map (·.name)).Nodup) :
    σ₁.relsSorted = σ₂.relsSorted := by
  have hc : ∀ t r, σ₁.complete t r = σ₂.complete t r := fun t r =>
    complete_congr σ₁ σ₂ t t r rfl (by rw [getType_perm σ₁ σ₂ h nd])
  apply relsSorted_ext; intro x
  constructor
  · rintro ⟨t, ht, r, hr, e⟩; exact ⟨t, h.mem_iff.1 ht, r, hr, by rw [← hc]; exact e⟩
  · rintro ⟨t, ht, r, hr, e⟩; exact ⟨t, h.mem_iff.2 ht, r, hr, by rw [hc]; exact e⟩

theorem getType_forall₂ (l₁ l₂ : List Typ)
    (h : Forall2 (fun t₁ t₂ : Typ => t₁.name = t₂.name ∧ t₁.rels.Perm t₂.rels) l₁ l₂) (n : GoString) :
    (getType ⟨l₁⟩ n).rels.Perm (getType ⟨l₂⟩ n).rels := by
  unfold getType
  induction h with
  | nil => exact .refl _
  | @cons a b l₁ l₂ hab _ ih =>
    simp only [List.find?_cons, ← hab.1]
    by_cases e : a.name = n
    · simp only [e, decide_true]; exact hab.2
    · simp only [e, decide_false]; exact ih

/-- The same types in the same order, each with its map iterated in another order. -/
theorem relsSorted_forall₂ (σ₁ σ₂ : Schema)
    (h : Forall2 (fun t₁ t₂ : Typ => t₁.name = t₂.name ∧ t₁.rels.Perm t₂.rels) σ₁.types σ₂.types) :
    σ₁.relsSorted = σ₂.relsSorted := by
  apply relsSorted_ext; intro x
  have hc : ∀ t₁ t₂ r, t₁.name = t₂.name → σ₁.complete t₁ r = σ₂.complete t₂ r := fun t₁ t₂ r hn =>
    complete_congr σ₁ σ₂ t₁ t₂ r hn (getType_forall₂ _ _ h _)
  have key : ∀ (l₁ l₂ : List Typ),
      Forall2 (fun t₁ t₂ : Typ => t₁.name = t₂.name ∧ t₁.rels.Perm t₂.rels) l₁ l₂ →
      ((∃ t ∈ l₁, ∃ r ∈ t.rels.vals, (σ₁.complete t r).normalize = x) ↔
       (∃ t ∈ l₂, ∃ r ∈ t.rels.vals, (σ₂.complete t r).normalize = x)) := by
    intro l₁ l₂ hf
    induction hf with
    | nil => simp
    | @cons a b l₁ l₂ hp _ ih =>
      have hv : ∀ r, r ∈ GoMap.vals a.rels ↔ r ∈ GoMap.vals b.rels := fun r =>
        (hp.2.map (·.2)).mem_iff
      simp only [List.mem_cons, exists_eq_or_imp, hv, ih, hc a b _ hp.1]
  exact key _ _ h

end Schema
end Jsonapi

namespace Jsonapi
theorem C16_normalize_mem' (r : Rel) : r.normalize = r ∨ r.normalize = r.invert := by
  unfold Rel.normalize; (repeat' split) <;> simp
theorem Rel.invert_invert (r : Rel) : r.invert.invert = r := by cases r; rfl
end Jsonapi
