/-
Definitions shared by the C07 / C08 proof files: the parameter names `URL.String` emits,
the decoded path and values map that `url.Parse` + `Query()` return on `URL.String`'s
output, and the exclusion of the known "type without fields" defect.
-/
import Jsonapi.Spec.Url
namespace Jsonapi.Spec
open Jsonapi

/-- `"fields[" + t + "]"` -/
def fieldsName (t : GoString) : GoString := sFieldsOpen ++ t ++ [93]
/-- `"page[" + k + "]"` -/
def pageName (k : GoString) : GoString := sPageOpen ++ k ++ [93]

/-- The decoded path of `u.String()`: `"/" + strings.Join(fragments, "/")`. -/
def emittedPath (u : URL) : GoString :=
  match u.fragments with
  | [] => []
  | fs => [47] ++ joinWith [47] fs

/-- The values map of `u.String()` (in the order the parameters are emitted): one value
per name. -/
def emittedValues (u : URL) (env : StringEnv) : GoMap (List GoString) :=
  (Typ.sortStrings u.params.fields.keys).map (fun t =>
      (fieldsName t, [joinWith [44] (Typ.sortStrings ((u.params.fields.get? t).getD []))])) ++
  (match u.params.filter with
    | some f => [(sFilter, [f])]
    | none => if u.params.filterLabel ≠ [] then [(sFilter, [rewriteBrace env.labelBody])] else []) ++
  (if u.isCol then (Typ.sortStrings u.params.page.keys).map (fun k =>
      (pageName k, [((u.params.page.get? k).map PageVal.text).getD []])) else []) ++
  (if u.params.sortingRules.isEmpty then [] else [(sSort, [joinWith [44] u.params.sortingRules])])

/-- The value of the emitted `filter` parameter ("" when there is none). -/
def emittedFilterValue (u : URL) (env : StringEnv) : GoString :=
  match u.params.filter with
  | some f => f
  | none => if u.params.filterLabel ≠ [] then rewriteBrace env.labelBody else []

end Jsonapi.Spec

namespace Jsonapi

/-- Exclusion of the known defect: `String()` of a URL whose field selection for some
type is empty (a type without any field) does not parse back. -/
def NoEmptySelection (u : URL) : Prop := ∀ t fs, u.params.fields.get? t = some fs → fs ≠ []

/-! ### `rewriteBrace` (url.go: a leading `{` of the label body is written backslash-u-0-0-7-b) -/

/-- the rewritten body never starts with `{` -/
theorem rewriteBrace_head (b : GoString) : (rewriteBrace b).head? ≠ some 123 := by
  unfold rewriteBrace
  split
  · simp
  · rename_i h
    cases b with
    | nil => simp
    | cons c t =>
      intro hc
      simp only [List.head?_cons, Option.some.injEq] at hc
      exact h t (by rw [hc])

/-- a non-empty body stays non-empty -/
theorem rewriteBrace_ne_nil (b : GoString) (h : b ≠ []) : rewriteBrace b ≠ [] := by
  unfold rewriteBrace
  split
  · simp
  · exact h

/-- a body that does not start with `{` is left alone -/
theorem rewriteBrace_of_head (b : GoString) (h : b.head? ≠ some 123) : rewriteBrace b = b := by
  unfold rewriteBrace
  split
  · simp at h
  · rfl

/-- a body that starts with `{`: the first byte becomes the six bytes of the escape -/
theorem rewriteBrace_brace (t : GoString) :
    rewriteBrace (123 :: t) = [92, 117, 48, 48, 55, 98] ++ t := rfl

end Jsonapi
