/-
Definitions shared by the C07 / C08 proof files: the parameter names `URL.String` emits,
the decoded path and values map that `url.Parse` + `Query()` return on `URL.String`'s
output, and the exclusion of the known "type without fields" defect.
-/
import Jsonapi.Spec.Url
namespace Jsonapi.Spec
open Jsonapi

/-- `"fields[" + t + "]"` -/
def fieldsName (t : GoString) : GoString := sFieldsOpen ++ t ++ [93]
/-- `"page[" + k + "]"` -/
def pageName (k : GoString) : GoString := sPageOpen ++ k ++ [93]

/-- The decoded path of `u.String()`: `"/" + strings.Join(fragments, "/")`. -/
def emittedPath (u : URL) : GoString :=
  match u.fragments with
  | [] => []
  | fs => [47] ++ joinWith [47] fs

/-- The values map of `u.String()` (in the order the parameters are emitted): one value
per name. -/
def emittedValues (u : URL) (env : StringEnv) : GoMap (List GoString) :=
  (Typ.sortStrings u.params.fields.keys).map (fun t =>
      (fieldsName t, [joinWith [44] (Typ.sortStrings ((u.params.fields.get? t).getD []))])) ++
  (match u.params.filter with
    | some f => [(sFilter, [f])]
    | none => if u.params.filterLabel ≠ [] then [(sFilter, [env.labelBody])] else []) ++
  (if u.isCol then (Typ.sortStrings u.params.page.keys).map (fun k =>
      (pageName k, [((u.params.page.get? k).map PageVal.text).getD []])) else []) ++
  (if u.params.sortingRules.isEmpty then [] else [(sSort, [joinWith [44] u.params.sortingRules])])

/-- The value of the emitted `filter` parameter ("" when there is none). -/
def emittedFilterValue (u : URL) (env : StringEnv) : GoString :=
  match u.params.filter with
  | some f => f
  | none => if u.params.filterLabel ≠ [] then env.labelBody else []

end Jsonapi.Spec

namespace Jsonapi

/-- Exclusion of the known defect: `String()` of a URL whose field selection for some
type is empty (a type without any field) does not parse back. -/
def NoEmptySelection (u : URL) : Prop := ∀ t fs, u.params.fields.get? t = some fs → fs ≠ []

end Jsonapi
