/-
Helper lemmas for C07 (NewURL: total, schema-valid result) about the model in
`Jsonapi/Model/Url.lean`.
-/
import Jsonapi.Proofs.C14Lemmas
import Jsonapi.Proofs.DetLemmas
import Jsonapi.Proofs.UrlEmitDefs
import Jsonapi.Proofs.UrlNumLemmas
namespace Jsonapi.UrlL
open Jsonapi Schema GoMap

/-! ### folds that stop at the first error -/

/-- `foldl` with the "keep the first error" step, as a structural recursion. -/
def rfold {α β : Type} (f : α → β → Res α) : Res α → List β → Res α
  | r, [] => r
  | .ok a, b :: l => rfold f (f a b) l
  | .err, _ :: _ => .err
  | .panic, _ :: _ => .panic

theorem foldl_eq_rfold {α β : Type} (g : Res α → β → Res α) (f : α → β → Res α)
    (hok : ∀ a b, g (.ok a) b = f a b) (herr : ∀ b, g .err b = .err)
    (hpanic : ∀ b, g .panic b = .panic) (l : List β) (r : Res α) :
    l.foldl g r = rfold f r l := by
  induction l generalizing r with
  | nil => cases r <;> rfl
  | cons b l ih =>
    cases r with
    | ok a => simp only [List.foldl_cons, rfold, hok]; exact ih _
    | err => simp only [List.foldl_cons, rfold, herr]; rw [ih]; cases l <;> rfl
    | panic => simp only [List.foldl_cons, rfold, hpanic]; rw [ih]; cases l <;> rfl

theorem rfold_err {α β : Type} (f : α → β → Res α) (l : List β) : rfold f .err l = .err := by
  cases l <;> rfl
theorem rfold_panic {α β : Type} (f : α → β → Res α) (l : List β) : rfold f .panic l = .panic := by
  cases l <;> rfl

theorem rfold_no_panic {α β : Type} (f : α → β → Res α) (hf : ∀ a b, f a b ≠ .panic)
    (l : List β) (r : Res α) (hr : r ≠ .panic) : rfold f r l ≠ .panic := by
  induction l generalizing r with
  | nil => exact hr
  | cons b l ih =>
    cases r with
    | ok a => exact ih _ (hf a b)
    | err => simp [rfold]
    | panic => exact absurd rfl hr

/-- An invariant of the accumulator carried to an `ok` result. -/
theorem rfold_inv {α β : Type} (f : α → β → Res α) (Q : α → Prop)
    (hstep : ∀ a b a', Q a → f a b = .ok a' → Q a')
    (l : List β) (a0 a : α) (h0 : Q a0) (h : rfold f (.ok a0) l = .ok a) : Q a := by
  induction l generalizing a0 with
  | nil => simp only [rfold] at h; cases h; exact h0
  | cons b l ih =>
    simp only [rfold] at h
    cases hfb : f a0 b with
    | ok a1 => rw [hfb] at h; exact ih a1 (hstep a0 b a1 h0 hfb) h
    | err => rw [hfb, rfold_err] at h; cases h
    | panic => rw [hfb, rfold_panic] at h; cases h

/-- The same with an invariant that may mention the elements processed so far. -/
theorem rfold_inv_mem {α β : Type} (f : α → β → Res α) (l : List β) (Q : α → Prop)
    (hstep : ∀ a b a', b ∈ l → Q a → f a b = .ok a' → Q a')
    (a0 a : α) (h0 : Q a0) (h : rfold f (.ok a0) l = .ok a) : Q a := by
  induction l generalizing a0 with
  | nil => simp only [rfold] at h; cases h; exact h0
  | cons b l ih =>
    simp only [rfold] at h
    cases hfb : f a0 b with
    | ok a1 =>
      rw [hfb] at h
      exact ih (fun a b' a' hb' => hstep a b' a' (List.mem_cons_of_mem _ hb')) a1
        (hstep a0 b a1 List.mem_cons_self h0 hfb) h
    | err => rw [hfb, rfold_err] at h; cases h
    | panic => rw [hfb, rfold_panic] at h; cases h

theorem newSimpleURL_eq (path : GoString) (values : GoMap (List GoString)) (fd : FilterDec) :
    newSimpleURL path values fd =
      rfold (fun su (p : GoString × List GoString) => simpleStep fd su p.1 p.2)
        (.ok { fragments := parseFragments path, fields := [], filterLabel := [], filter := none,
               sortingRules := [], page := [], incl := [] }) values := by
  unfold newSimpleURL
  exact foldl_eq_rfold _ _ (fun _ _ => rfl) (fun _ => rfl) (fun _ => rfl) _ _


/-! ### `newParams` with its parts named -/

def pIncs (su : SimpleURL) : List GoString := pruneIncludes (Typ.sortStrings su.incl)

def pFields0 (σ : Schema) (su : SimpleURL) (resType : GoString) : GoMap (List GoString) :=
  (checkInclusions σ resType (pIncs su)).foldl (fun (m : GoMap (List GoString)) t => m.set t []) []

def pFields1 (σ : Schema) (su : SimpleURL) (resType : GoString) : GoMap (List GoString) :=
  if resType ≠ [] then
    (pFields0 σ su resType).set resType []
  else pFields0 σ su resType

/-- the names of a requested selection that are `id` or a field of the type -/
def sel (typ : Typ) (l : List GoString) : List GoString :=
  l.flatMap (fun f => if f = idName then [idName] else typ.fields.filter (· = f))

def fieldStep (σ : Schema) (resType : GoString) (m : GoMap (List GoString))
    (p : GoString × List GoString) : Res (GoMap (List GoString)) :=
  if p.1 ≠ resType ∧ (σ.getType p.1).name = [] then .err
  else if (σ.getType p.1).name ≠ [] then
    if (sel (σ.getType p.1) p.2).eraseDups.length ≠ (sel (σ.getType p.1) p.2).length then .err
    else .ok (m.set p.1 (sel (σ.getType p.1) p.2))
  else .ok m

def pFieldsRes (σ : Schema) (su : SimpleURL) (resType : GoString) : Res (GoMap (List GoString)) :=
  rfold (fieldStep σ resType) (.ok (pFields1 σ su resType)) su.fields

def fillDefault (σ : Schema) (fm : GoMap (List GoString)) : GoMap (List GoString) :=
  fm.map (fun p => if p.2.isEmpty then (p.1, (σ.getType p.1).fields) else p)

def pIsCol (σ : Schema) (su : SimpleURL) : Bool :=
  if su.fragments.length = 1 then true
  else if su.fragments.length ≥ 3 then
    match (σ.getType (su.fragments.head?.getD [])).rels.get? (su.fragments.getLast?.getD []) with
    | some rel => !rel.toOne
    | none => true
  else false

def attrNames (σ : Schema) (resType : GoString) : List GoString :=
  (σ.getType resType).attrs.vals.map (·.name)

def pRules (σ : Schema) (su : SimpleURL) (resType : GoString) : List GoString :=
  if pIsCol σ su then
    Spec.validRules σ resType su.sortingRules ++
    Typ.sortStrings ((attrNames σ resType).filter (fun a =>
      !(Spec.validRules σ resType su.sortingRules).any (fun rule => Spec.stripDash rule = a))) ++
    (if su.sortingRules.any (fun rule => Spec.stripDash rule = idName) then [] else [idName])
  else []

def pIncl (σ : Schema) (su : SimpleURL) (resType : GoString) : List (List Rel) :=
  (pIncs su).filterMap (fun inc => resolvePath σ resType (splitOn 46 inc))

theorem newParams_eq (σ : Schema) (su : SimpleURL) (resType : GoString) :
    newParams σ su resType =
      match pFieldsRes σ su resType with
      | .ok fm => .ok { fields := fillDefault σ fm, filterLabel := su.filterLabel, filter := su.filter,
                        sortingRules := pRules σ su resType, page := su.page,
                        incl := pIncl σ su resType }
      | .err => .err
      | .panic => .panic := by
  unfold newParams
  simp only []
  rw [foldl_eq_rfold (f := fieldStep σ resType)]
  · rfl
  · intro a b; rfl
  · intro b; rfl
  · intro b; rfl


/-! ### `newURL` -/

theorem newURL_ok (σ : Schema) (su : SimpleURL) (u : URL) (h : newURL σ su = .ok u) :
    ∃ f0 rest p, su.fragments = f0 :: rest ∧ (σ.getType f0).name ≠ [] ∧
      u.fragments = su.fragments ∧ newParams σ su u.resType = .ok p ∧ u.params = p ∧
      ((su.fragments.length ≤ 2 ∧ u.resType = (σ.getType f0).name ∧
          u.isCol = decide (su.fragments.length = 1) ∧ u.rel = default ∧
          u.resID = (if su.fragments.length = 2 then su.fragments[1]?.getD [] else [])) ∨
       (su.fragments.length ≥ 3 ∧ ∃ rel,
          (σ.getType f0).rels.get? (su.fragments.getLast?.getD []) = some rel ∧
          σ.hasType rel.toType = true ∧ u.rel = rel ∧ u.isCol = !rel.toOne ∧
          u.resType = rel.toType ∧ u.resID = [])) := by
  unfold newURL at h
  split at h
  · cases h
  · rename_i f0 rest hfr
    simp only [] at h
    split at h
    · cases h
    · rename_i hname
      refine ⟨f0, rest, ?_⟩
      by_cases hn : su.fragments.length ≥ 3
      · simp only [hn, if_true] at h
        cases hrel : (σ.getType f0).rels.get? (su.fragments.getLast?.getD []) with
        | none => simp [hrel] at h
        | some rel =>
          simp only [hrel] at h
          by_cases hht : σ.hasType rel.toType = true
          · simp only [hht, Bool.not_true, Bool.false_eq_true, if_false] at h
            cases hp : newParams σ su rel.toType with
            | ok p =>
              simp only [hp] at h
              cases h
              exact ⟨p, hfr, hname, rfl, hp, rfl, .inr ⟨hn, rel, rfl, hht, rfl, rfl, rfl, by
                have : ¬ su.fragments.length = 2 := by omega
                simp [this]⟩⟩
            | err => simp [hp] at h
            | panic => simp [hp] at h
          · simp [hht] at h
      · simp only [hn, if_false] at h
        have hle : su.fragments.length ≤ 2 := by omega
        cases hp : newParams σ su (if su.fragments.length ≤ 2 then (σ.getType f0).name else []) with
        | ok p =>
          simp only [hp] at h
          cases h
          refine ⟨p, hfr, hname, rfl, hp, rfl, .inl ⟨hle, ?_, rfl, rfl, rfl⟩⟩
          simp [hle]
        | err => simp [hp] at h
        | panic => simp [hp] at h


/-! ### totality -/

/-- what a query parameter name means to `NewSimpleURL` -/
inductive NameClass where
  | fields (t : GoString)
  | page (k : GoString)
  | filter
  | sort
  | incl
  | other
deriving DecidableEq, Repr

def classify (name : GoString) : NameClass :=
  if hasPrefix name sFieldsOpen && name.getLast? = some 93 && name.length > 8 then
    .fields ((name.drop 7).dropLast)
  else if hasPrefix name sPageOpen && name.getLast? = some 93 && name.length > 6 then
    .page ((name.drop 5).dropLast)
  else if name = sFilter then .filter
  else if name = sSort then .sort
  else if name = sInclude then .incl
  else .other

def pageVal (v : GoString) : PageVal :=
  match parseInt 64 v with
  | some n => .int n
  | none => .str v

def filterStep (fd : FilterDec) (su : SimpleURL) (v : GoString) : Res SimpleURL :=
  if v = [] then .err
  else if v.head? ≠ some 123 then
    (match fd.label with
      | some l => .ok { su with filterLabel := l }
      | none => .err)
  else
    (match fd.filter with
      | some f => .ok { su with filter := some f }
      | none => .err)

theorem simpleStep_eq (fd : FilterDec) (su : SimpleURL) (name : GoString) (vs : List GoString) :
    simpleStep fd su name vs =
      match classify name with
      | .fields t => .ok { su with fields := su.fields.set t (parseCommaList (firstVal vs)) }
      | .page k => .ok (if firstVal vs = [] then su
                        else { su with page := su.page.set k (pageVal (firstVal vs)) })
      | .filter => filterStep fd su (firstVal vs)
      | .sort => .ok { su with sortingRules := su.sortingRules ++ vs.flatMap parseCommaList }
      | .incl => .ok { su with incl := su.incl ++ vs.flatMap parseCommaList }
      | .other => .err := by
  unfold simpleStep classify
  split
  · rfl
  · split
    · simp only []
      split
      · rfl
      · unfold pageVal
        split <;> simp [*]
    · split
      · rfl
      · split
        · rfl
        · split
          · rfl
          · rfl

theorem simpleStep_no_panic (fd : FilterDec) (su : SimpleURL) (name : GoString) (vs : List GoString) :
    simpleStep fd su name vs ≠ .panic := by
  rw [simpleStep_eq]
  cases classify name <;> simp only [ne_eq, reduceCtorEq, not_false_eq_true]
  unfold filterStep
  repeat' split
  all_goals simp

theorem newSimpleURL_no_panic (path : GoString) (values : GoMap (List GoString)) (fd : FilterDec) :
    newSimpleURL path values fd ≠ .panic := by
  rw [newSimpleURL_eq]
  exact rfold_no_panic _ (fun a (b : GoString × List GoString) => simpleStep_no_panic fd a b.1 b.2) _ _ (by simp)

theorem fieldStep_no_panic (σ : Schema) (resType : GoString) (m : GoMap (List GoString))
    (p : GoString × List GoString) : fieldStep σ resType m p ≠ .panic := by
  unfold fieldStep
  repeat' split
  all_goals simp

theorem newParams_no_panic (σ : Schema) (su : SimpleURL) (resType : GoString) :
    newParams σ su resType ≠ .panic := by
  rw [newParams_eq]
  have := rfold_no_panic (fieldStep σ resType) (fieldStep_no_panic σ resType) su.fields
    (.ok (pFields1 σ su resType)) (by simp)
  unfold pFieldsRes
  split
  · simp
  · simp
  · rename_i h; exact absurd h this

theorem newURL_no_panic (σ : Schema) (su : SimpleURL) : newURL σ su ≠ .panic := by
  unfold newURL
  split
  · simp
  · simp only []
    split
    · simp
    · split
      · rename_i u hu
        have := newParams_no_panic σ su u.resType
        split
        · simp
        · simp
        · rename_i h; exact absurd h this
      · intro he
        split at he
        · split at he
          · split at he <;> cases he
          · cases he
        · cases he

theorem newURLFrom_no_panic (σ : Schema)
    (parsed : Option (GoString × GoMap (List GoString) × FilterDec)) :
    newURLFrom σ parsed ≠ .panic := by
  unfold newURLFrom
  split
  · simp
  · rename_i path values fd
    split
    · exact newURL_no_panic σ _
    · simp
    · rename_i h; exact absurd h (newSimpleURL_no_panic path values fd)

/-- What an `ok` result of `newURLFrom` tells. -/
theorem newURLFrom_ok (σ : Schema) (parsed : Option (GoString × GoMap (List GoString) × FilterDec))
    (u : URL) (h : newURLFrom σ parsed = .ok u) :
    ∃ path values fd su, parsed = some (path, values, fd) ∧ newSimpleURL path values fd = .ok su ∧
      newURL σ su = .ok u := by
  unfold newURLFrom at h
  split at h
  · cases h
  · rename_i path values fd
    split at h
    · rename_i su hsu; exact ⟨path, values, fd, su, rfl, hsu, h⟩
    · cases h
    · cases h

/-! ### schema facts -/

theorem getType_name_ne (σ : Schema) (n : GoString) (h : (σ.getType n).name ≠ []) :
    σ.hasType n = true ∧ (σ.getType n).name = n ∧ σ.getType n ∈ σ.types := by
  by_cases hh : σ.hasType n = true
  · exact ⟨hh, (getType_mem hh).2, (getType_mem hh).1⟩
  · rw [getType_absent hh] at h; exact absurd rfl h

theorem hasType_name_ne {σ : Schema} (hσ : Inv σ) {n : GoString} (h : σ.hasType n = true) :
    n ≠ [] ∧ (σ.getType n).name = n ∧ TypWF (σ.getType n) := by
  obtain ⟨hm, hn⟩ := getType_mem h
  exact ⟨hn ▸ (hσ.2 _ hm).1, hn, (hσ.2 _ hm).2⟩

theorem restype_ok (σ : Schema) (su : SimpleURL) (u : URL) (h : newURL σ su = .ok u) :
    σ.hasType u.resType = true := by
  obtain ⟨f0, rest, p, hfr, hname, _, _, _, hc⟩ := newURL_ok σ su u h
  rcases hc with ⟨_, hrt, _⟩ | ⟨_, rel, _, hht, _, _, hrt, _⟩
  · rw [hrt, (getType_name_ne σ f0 hname).2.1]; exact (getType_name_ne σ f0 hname).1
  · rw [hrt]; exact hht


/-! ### GoMap facts -/

section gomap
variable {β : Type}

theorem get?_set (m : GoMap β) (k k' : GoString) (v : β) :
    get? (set m k v) k' = if k = k' then some v else get? m k' := by
  by_cases h : k = k'
  · subst h; simp [get?_set_self]
  · simp only [h, if_false]; exact get?_set_ne m k k' v (fun e => h e.symm)

theorem keys_set (m : GoMap β) (k : GoString) (v : β) :
    keys (set m k v) = if k ∈ keys m then keys m else keys m ++ [k] := by
  induction m with
  | nil => simp [GoMap.set, GoMap.keys]
  | cons p m ih =>
    obtain ⟨k', v'⟩ := p
    by_cases h : k' = k
    · subst h; simp [GoMap.set, GoMap.keys]
    · have h' : ¬ k = k' := fun e => h e.symm
      simp only [GoMap.set, h, if_false]
      simp only [GoMap.keys, List.map_cons, List.mem_cons, h', false_or] at ih ⊢
      rw [ih]; split <;> rename_i hm <;> simp [hm]

theorem nodup_keys_set (m : GoMap β) (k : GoString) (v : β) (h : (keys m).Nodup) :
    (keys (set m k v)).Nodup := by
  rw [keys_set]; split
  · exact h
  · rename_i hk
    rw [List.nodup_append]
    exact ⟨h, by simp, by intro a ha b hb; simp at hb; subst hb; intro e; subst e; exact hk ha⟩

theorem mem_keys_set (m : GoMap β) (k k' : GoString) (v : β) :
    k' ∈ keys (set m k v) ↔ k' = k ∨ k' ∈ keys m := by
  rw [keys_set]; split
  · rename_i h; constructor
    · exact fun h' => .inr h'
    · rintro (e | e)
      · exact e ▸ h
      · exact e
  · simp only [List.mem_append, List.mem_singleton]; exact Or.comm

theorem get?_mem {m : GoMap β} {k : GoString} {v : β} (h : get? m k = some v) : (k, v) ∈ m := by
  induction m with
  | nil => simp [get?] at h
  | cons p m ih =>
    obtain ⟨k', v'⟩ := p
    simp only [get?] at h
    split at h
    · rename_i e; cases h; subst e; exact List.mem_cons_self
    · exact List.mem_cons_of_mem _ (ih h)

theorem mem_keys_iff (m : GoMap β) (k : GoString) : k ∈ keys m ↔ ∃ v, get? m k = some v := by
  induction m with
  | nil => simp [keys, get?]
  | cons p m ih =>
    obtain ⟨k', v'⟩ := p
    simp only [keys, List.map_cons, List.mem_cons, get?] at ih ⊢
    by_cases h : k' = k
    · subst h; simp
    · have h' : ¬ k = k' := fun e => h e.symm
      simp only [h, h', if_false, false_or]; exact ih

theorem get?_of_mem_nodup {m : GoMap β} (hnd : (keys m).Nodup) {k : GoString} {v : β}
    (h : (k, v) ∈ m) : get? m k = some v := by
  induction m with
  | nil => cases h
  | cons p m ih =>
    obtain ⟨k', v'⟩ := p
    simp only [keys, List.map_cons, List.nodup_cons] at hnd
    simp only [get?]
    rcases List.mem_cons.1 h with e | e
    · cases e; simp
    · have : k' ≠ k := by
        intro e'; subst e'
        exact hnd.1 (List.mem_map.2 ⟨(k', v), e, rfl⟩)
      simp only [this, if_false]; exact ih hnd.2 e

theorem get?_none_of_not_mem {m : GoMap β} {k : GoString} (h : k ∉ keys m) : get? m k = none := by
  cases hg : get? m k with
  | none => rfl
  | some v => exact absurd ((mem_keys_iff m k).2 ⟨v, hg⟩) h

end gomap

theorem keys_fillDefault (σ : Schema) (fm : GoMap (List GoString)) :
    keys (fillDefault σ fm) = keys fm := by
  unfold fillDefault keys
  rw [List.map_map]
  apply List.map_congr_left
  intro p _; simp only [Function.comp]; split <;> rfl

theorem get?_fillDefault (σ : Schema) (fm : GoMap (List GoString)) (t : GoString) :
    get? (fillDefault σ fm) t =
      (get? fm t).map (fun l => if l.isEmpty then (σ.getType t).fields else l) := by
  induction fm with
  | nil => rfl
  | cons p fm ih =>
    obtain ⟨k, l⟩ := p
    unfold fillDefault at ih ⊢
    by_cases h : k = t
    · subst h
      simp only [List.map_cons]
      split
      · rename_i he
        have hl : l = [] := by simpa using he
        subst hl; simp [GoMap.get?]
      · rename_i he
        have hl : l ≠ [] := by simpa using he
        simp [GoMap.get?, hl]
    · simp only [List.map_cons]
      have : get? ((if l.isEmpty then (k, (σ.getType k).fields) else (k, l)) ::
          List.map (fun p => if p.2.isEmpty then (p.1, (σ.getType p.1).fields) else p) fm) t =
          get? (List.map (fun p => if p.2.isEmpty then (p.1, (σ.getType p.1).fields) else p) fm) t := by
        split <;> simp [get?, h]
      rw [this, ih]; simp [get?, h]

/-! ### `eraseDups` -/

theorem eraseDups_length_le : ∀ (l : List GoString), l.eraseDups.length ≤ l.length
  | [] => by simp
  | a :: as => by
    rw [List.eraseDups_cons]
    have := eraseDups_length_le (as.filter (fun b => !b == a))
    have := List.length_filter_le (fun b => !b == a) as
    simp only [List.length_cons]; omega
termination_by l => l.length
decreasing_by
  simp only [List.length_cons]
  have := List.length_filter_le (fun b => !b == a) as
  omega

theorem nodup_of_eraseDups_length : ∀ (l : List GoString), l.eraseDups.length = l.length → l.Nodup
  | [], _ => List.nodup_nil
  | a :: as, h => by
    rw [List.eraseDups_cons] at h
    simp only [List.length_cons] at h
    have h1 := eraseDups_length_le (as.filter (fun b => !b == a))
    have h2 := List.length_filter_le (fun b => !b == a) as
    have hlen : (as.filter (fun b => !b == a)).length = as.length := by omega
    have hall := List.length_filter_eq_length_iff.1 hlen
    have hfil : as.filter (fun b => !b == a) = as := List.filter_eq_self.2 hall
    rw [hfil] at h
    have ih := nodup_of_eraseDups_length as (by omega)
    refine List.nodup_cons.2 ⟨?_, ih⟩
    intro hm; have := hall a hm; simp at this
termination_by l => l.length

theorem eraseDups_of_nodup : ∀ (l : List GoString), l.Nodup → l.eraseDups = l
  | [], _ => by simp
  | a :: as, h => by
    rw [List.nodup_cons] at h
    rw [List.eraseDups_cons]
    have hfil : as.filter (fun b => !b == a) = as := by
      rw [List.filter_eq_self]
      intro b hb
      have : b ≠ a := fun e => h.1 (e ▸ hb)
      simp [this]
    rw [hfil, eraseDups_of_nodup as h.2]

/-! ### fields of a well-formed type -/

theorem attr_names_eq_keys {t : Typ} (h : TypWF t) : t.attrs.vals.map (·.name) = t.attrs.keys := by
  unfold GoMap.vals GoMap.keys
  rw [List.map_map]
  apply List.map_congr_left
  intro p hp; exact (h.attrs p hp).1.symm

theorem rel_names_eq_keys {t : Typ} (h : TypWF t) : t.rels.vals.map (·.fromName) = t.rels.keys := by
  unfold GoMap.vals GoMap.keys
  rw [List.map_map]
  apply List.map_congr_left
  intro p hp; exact (h.rels p hp).1.symm

theorem fields_nodup {t : Typ} (h : TypWF t) : t.fields.Nodup := by
  unfold Typ.fields
  rw [(DetL.sortStrings_perm _).nodup_iff, attr_names_eq_keys h, rel_names_eq_keys h,
    List.nodup_append]
  exact ⟨h.ndA, h.ndR, fun a ha b hb e => h.disj a ha (e ▸ hb)⟩

theorem mem_fields_iff {t : Typ} (f : GoString) :
    f ∈ t.fields ↔ f ∈ t.attrs.vals.map (·.name) ∨ f ∈ t.rels.vals.map (·.fromName) := by
  unfold Typ.fields
  rw [(DetL.sortStrings_perm _).mem_iff, List.mem_append]


/-! ### names -/

theorem bracket_iff (pre name t : GoString) :
    ((hasPrefix name pre && decide (name.getLast? = some 93) &&
        decide (name.length > pre.length + 1)) = true ∧ (name.drop pre.length).dropLast = t) ↔
      (name = pre ++ t ++ [93] ∧ t ≠ []) := by
  constructor
  · rintro ⟨hc, ht⟩
    simp only [Bool.and_eq_true, decide_eq_true_eq] at hc
    obtain ⟨⟨hp, hl⟩, hlen⟩ := hc
    obtain ⟨r, rfl⟩ := List.isPrefixOf_iff_prefix.1 hp
    have hr : r.length > 1 := by simp at hlen; omega
    have hd : List.drop pre.length (pre ++ r) = r := by simp
    rw [hd] at ht
    have hl' : r.getLast? = some 93 := by
      rw [List.getLast?_append] at hl
      cases hr' : r.getLast? with
      | none => rw [List.getLast?_eq_none_iff] at hr'; subst hr'; simp at hr
      | some c => rw [hr'] at hl; simpa using hl
    have hr2 : r.dropLast ++ [93] = r := by
      cases r with
      | nil => simp at hr
      | cons a r' =>
        rw [List.getLast?_eq_some_getLast (by simp)] at hl'
        have hh := List.dropLast_concat_getLast (l := a :: r') (by simp)
        simp only [Option.some.injEq] at hl'
        rw [hl'] at hh; exact hh
    subst ht
    refine ⟨?_, ?_⟩
    · rw [List.append_assoc, hr2]
    · intro e; rw [e] at hr2; rw [← hr2] at hr; simp at hr
  · rintro ⟨rfl, hne⟩
    have h1 : hasPrefix (pre ++ t ++ [93]) pre = true := by
      unfold hasPrefix
      rw [List.isPrefixOf_iff_prefix, List.append_assoc]; exact List.prefix_append _ _
    have h2 : (pre ++ t ++ [93]).getLast? = some 93 := by simp
    have h3 : (pre ++ t ++ [93]).length > pre.length + 1 := by
      have : t.length > 0 := List.length_pos_iff.2 hne
      simp; omega
    have h4 : ((pre ++ t ++ [93]).drop pre.length).dropLast = t := by simp
    refine ⟨?_, h4⟩
    simp only [Bool.and_eq_true, decide_eq_true_eq]
    exact ⟨⟨h1, h2⟩, h3⟩

theorem classify_fields_iff (name t : GoString) :
    classify name = .fields t ↔ name = Spec.fieldsName t ∧ t ≠ [] := by
  refine Iff.trans ?_ (bracket_iff sFieldsOpen name t)
  unfold classify
  constructor
  · intro h
    split at h
    · rename_i hc; cases h; exact ⟨hc, rfl⟩
    · repeat' split at h
      all_goals cases h
  · rintro ⟨hc, ht⟩
    have hc' : (hasPrefix name sFieldsOpen && decide (name.getLast? = some 93) &&
        decide (name.length > 8)) = true := hc
    rw [if_pos hc']
    have : sFieldsOpen.length = 7 := rfl
    rw [this] at ht; rw [ht]

theorem hasPrefix_fields_page (k : GoString) : hasPrefix (Spec.pageName k) sFieldsOpen = false := by
  unfold hasPrefix Spec.pageName sPageOpen sFieldsOpen
  simp [List.isPrefixOf]

theorem classify_page_iff (name k : GoString) :
    classify name = .page k ↔ name = Spec.pageName k ∧ k ≠ [] := by
  refine Iff.trans ?_ (bracket_iff sPageOpen name k)
  unfold classify
  constructor
  · intro h
    split at h
    · cases h
    · split at h
      · rename_i hc; cases h; exact ⟨hc, rfl⟩
      · repeat' split at h
        all_goals cases h
  · rintro ⟨hc, ht⟩
    have hc' : (hasPrefix name sPageOpen && decide (name.getLast? = some 93) &&
        decide (name.length > 6)) = true := hc
    have hname := ((bracket_iff sPageOpen name k).1 ⟨hc, ht⟩).1
    have hnf : hasPrefix name sFieldsOpen = false := by
      rw [hname]; exact hasPrefix_fields_page k
    simp only [hnf, Bool.false_and, Bool.false_eq_true, if_false]
    rw [if_pos hc']
    have : sPageOpen.length = 5 := rfl
    rw [this] at ht; rw [ht]


/-! ### field selections -/

/-- every entry names a schema type and lists distinct names that are `id` or fields of it -/
def GoodMap (σ : Schema) (m : GoMap (List GoString)) : Prop :=
  ∀ t l, m.get? t = some l → σ.hasType t = true ∧ l.Nodup ∧
    ∀ f ∈ l, f = idName ∨ f ∈ (σ.getType t).fields

theorem goodMap_nil (σ : Schema) : GoodMap σ [] := by
  intro t l h; simp [GoMap.get?] at h

theorem goodMap_set {σ : Schema} {m : GoMap (List GoString)} (hm : GoodMap σ m) {t : GoString}
    {l : List GoString} (ht : σ.hasType t = true) (hl : l.Nodup)
    (hf : ∀ f ∈ l, f = idName ∨ f ∈ (σ.getType t).fields) : GoodMap σ (m.set t l) := by
  intro t' l' h
  rw [get?_set] at h
  split at h
  · rename_i e; subst e; cases h; exact ⟨ht, hl, hf⟩
  · exact hm t' l' h

theorem walk_hasType (σ : Schema) : ∀ (ws : List GoString) (cur : GoString),
    ∀ t ∈ (checkInclusions.walk σ cur ws).1, σ.hasType t = true := by
  intro ws
  induction ws with
  | nil => intro cur t h; simp [checkInclusions.walk] at h
  | cons w ws ih =>
    intro cur t h
    unfold checkInclusions.walk at h
    simp only [] at h
    split at h
    · exact ih cur t h
    · split at h
      · rename_i rel hrel
        split at h
        · rename_i hht
          simp only [List.mem_cons] at h
          rcases h with e | e
          · rw [e]; exact hht
          · exact ih _ t e
        · simp at h
      · simp at h

theorem checkInclusions_hasType (σ : Schema) (rt : GoString) (l : List GoString) :
    ∀ t ∈ checkInclusions σ rt l, σ.hasType t = true := by
  fun_induction checkInclusions σ rt l
  · intro t h; cases h
  · rename_i b rest ts hw ih
    intro t h
    rcases List.mem_append.1 h with e | e
    · have := walk_hasType σ (splitOn 46 b) rt t
      rw [hw] at this; exact this e
    · exact ih t e
  · rename_i b rest ts ok hw hok ih
    intro t h
    rcases List.mem_append.1 h with e | e
    · have := walk_hasType σ (splitOn 46 b) rt t
      rw [hw] at this; exact this e
    · cases rest with
      | nil => cases e
      | cons r rest' => exact ih t e

theorem foldl_set_nil_good (σ : Schema) (l : List GoString) (m : GoMap (List GoString))
    (hm : GoodMap σ m) (hl : ∀ t ∈ l, σ.hasType t = true) :
    GoodMap σ (l.foldl (fun (m : GoMap (List GoString)) t => m.set t []) m) := by
  induction l generalizing m with
  | nil => exact hm
  | cons t l ih =>
    simp only [List.foldl_cons]
    exact ih _ (goodMap_set hm (hl t List.mem_cons_self) List.nodup_nil (by simp))
      (fun t' ht' => hl t' (List.mem_cons_of_mem _ ht'))

theorem foldl_set_nil_nodup (l : List GoString) (m : GoMap (List GoString))
    (hm : (keys m).Nodup) :
    (keys (l.foldl (fun (m : GoMap (List GoString)) t => m.set t []) m)).Nodup := by
  induction l generalizing m with
  | nil => exact hm
  | cons t l ih => simp only [List.foldl_cons]; exact ih _ (nodup_keys_set m t [] hm)

theorem foldl_set_nil_empty (l : List GoString) (m : GoMap (List GoString))
    (hm : ∀ t v, m.get? t = some v → v = []) :
    ∀ t v, (l.foldl (fun (m : GoMap (List GoString)) t => m.set t []) m).get? t = some v → v = [] := by
  induction l generalizing m with
  | nil => exact hm
  | cons t l ih =>
    simp only [List.foldl_cons]
    apply ih
    intro t' v h
    rw [get?_set] at h
    split at h
    · cases h; rfl
    · exact hm t' v h

theorem pFields1_good (σ : Schema) (su : SimpleURL) (resType : GoString)
    (hrt : σ.hasType resType = true) : GoodMap σ (pFields1 σ su resType) := by
  have h0 : GoodMap σ (pFields0 σ su resType) :=
    foldl_set_nil_good σ _ [] (goodMap_nil σ) (checkInclusions_hasType σ resType _)
  unfold pFields1
  split
  · exact goodMap_set h0 hrt List.nodup_nil (by simp)
  · exact h0

theorem pFields1_nodup (σ : Schema) (su : SimpleURL) (resType : GoString) :
    (keys (pFields1 σ su resType)).Nodup := by
  have h0 : (keys (pFields0 σ su resType)).Nodup := foldl_set_nil_nodup _ [] (by simp [GoMap.keys])
  unfold pFields1
  split
  · exact nodup_keys_set _ _ _ h0
  · exact h0

theorem pFields1_empty (σ : Schema) (su : SimpleURL) (resType : GoString) :
    ∀ t v, (pFields1 σ su resType).get? t = some v → v = [] := by
  have h0 : ∀ t v, (pFields0 σ su resType).get? t = some v → v = [] :=
    foldl_set_nil_empty _ [] (by intro t v h; simp [GoMap.get?] at h)
  unfold pFields1
  split
  · intro t v h
    rw [get?_set] at h
    split at h
    · cases h; rfl
    · exact h0 t v h
  · exact h0

theorem pFields1_resType (σ : Schema) (su : SimpleURL) (resType : GoString) (h : resType ≠ []) :
    (pFields1 σ su resType).get? resType = some [] := by
  unfold pFields1
  rw [if_pos h, get?_set_self]

theorem mem_sel {typ : Typ} {l : List GoString} {f : GoString} (h : f ∈ sel typ l) :
    (f = idName ∨ f ∈ typ.fields) ∧ f ∈ l := by
  unfold sel at h
  rw [List.mem_flatMap] at h
  obtain ⟨a, ha, hf⟩ := h
  split at hf
  · rename_i e; simp only [List.mem_singleton] at hf; rw [hf]; exact ⟨.inl rfl, e ▸ ha⟩
  · have := List.mem_filter.1 hf
    have e : f = a := by simpa using this.2
    exact ⟨.inr this.1, e ▸ ha⟩

theorem sel_eq_nil {typ : Typ} {l : List GoString}
    (h : ∀ f ∈ l, f ≠ idName ∧ f ∉ typ.fields) : sel typ l = [] := by
  unfold sel
  rw [List.flatMap_eq_nil_iff]
  intro f hf
  rw [if_neg (h f hf).1, List.filter_eq_nil_iff]
  intro a ha; simp only [decide_eq_true_eq]; intro e; exact (h f hf).2 (e ▸ ha)

theorem fieldStep_good {σ : Schema} {resType : GoString} {m m' : GoMap (List GoString)}
    {p : GoString × List GoString} (hm : GoodMap σ m) (h : fieldStep σ resType m p = .ok m') :
    GoodMap σ m' := by
  unfold fieldStep at h
  split at h
  · cases h
  · split at h
    · rename_i hname
      split at h
      · cases h
      · rename_i hlen
        cases h
        have hlen' : (sel (σ.getType p.1) p.2).eraseDups.length = (sel (σ.getType p.1) p.2).length := by
          simpa using hlen
        exact goodMap_set hm (getType_name_ne σ p.1 hname).1 (nodup_of_eraseDups_length _ hlen')
          (fun f hf => (mem_sel hf).1)
    · cases h; exact hm

theorem fieldStep_nodup {σ : Schema} {resType : GoString} {m m' : GoMap (List GoString)}
    {p : GoString × List GoString} (hm : (keys m).Nodup) (h : fieldStep σ resType m p = .ok m') :
    (keys m').Nodup := by
  unfold fieldStep at h
  split at h
  · cases h
  · split at h
    · split at h
      · cases h
      · cases h; exact nodup_keys_set _ _ _ hm
    · cases h; exact hm

/-- an entry of the selection map is still empty or is the valid part of a request -/
theorem fieldStep_from {σ : Schema} {resType : GoString} {fields : GoMap (List GoString)}
    {m m' : GoMap (List GoString)} {p : GoString × List GoString} (hp : p ∈ fields)
    (hm : ∀ t l, m.get? t = some l → l = [] ∨ ∃ q, (t, q) ∈ fields ∧ l = sel (σ.getType t) q)
    (h : fieldStep σ resType m p = .ok m') :
    ∀ t l, m'.get? t = some l → l = [] ∨ ∃ q, (t, q) ∈ fields ∧ l = sel (σ.getType t) q := by
  unfold fieldStep at h
  split at h
  · cases h
  · split at h
    · split at h
      · cases h
      · cases h
        intro t l hl
        rw [get?_set] at hl
        split at hl
        · rename_i e; subst e; cases hl; exact .inr ⟨p.2, hp, rfl⟩
        · exact hm t l hl
    · cases h; exact hm


/-! ### what `newSimpleURL` collects -/

theorem classify_sort_iff (name : GoString) : classify name = .sort ↔ name = sSort := by
  unfold classify
  constructor
  · intro h
    repeat' split at h
    all_goals first | (cases h; assumption) | cases h
  · rintro rfl; decide

theorem classify_incl_iff (name : GoString) : classify name = .incl ↔ name = sInclude := by
  unfold classify
  constructor
  · intro h
    repeat' split at h
    all_goals first | (cases h; assumption) | cases h
  · rintro rfl; decide

theorem classify_filter_iff (name : GoString) : classify name = .filter ↔ name = sFilter := by
  unfold classify
  constructor
  · intro h
    repeat' split at h
    all_goals first | (cases h; assumption) | cases h
  · rintro rfl; decide

end Jsonapi.UrlL

namespace Jsonapi.Spec
open Jsonapi

/-- the sorting rules the caller asked for: all values of the `sort` parameter, each split
at commas (empty items dropped), in order -/
def requestedRules (values : GoMap (List GoString)) : List GoString :=
  values.flatMap (fun p => if p.1 = sSort then p.2.flatMap parseCommaList else [])

/-- the inclusion paths the caller asked for -/
def requestedIncludes (values : GoMap (List GoString)) : List GoString :=
  values.flatMap (fun p => if p.1 = sInclude then p.2.flatMap parseCommaList else [])

end Jsonapi.Spec

namespace Jsonapi.UrlL
open Jsonapi Schema GoMap

/-- a list-valued component that every step extends by a function of the entry -/
theorem rfold_acc {α β γ : Type} (f : α → β → Res α) (π : α → List γ) (g : β → List γ)
    (hstep : ∀ a b a', f a b = .ok a' → π a' = π a ++ g b)
    (l : List β) (a0 a : α) (h : rfold f (.ok a0) l = .ok a) : π a = π a0 ++ l.flatMap g := by
  induction l generalizing a0 with
  | nil => simp only [rfold] at h; cases h; simp
  | cons b l ih =>
    simp only [rfold] at h
    cases hfb : f a0 b with
    | ok a1 =>
      rw [hfb] at h
      rw [ih a1 h, hstep a0 b a1 hfb, List.flatMap_cons, List.append_assoc]
    | err => rw [hfb, rfold_err] at h; cases h
    | panic => rw [hfb, rfold_panic] at h; cases h

theorem filterStep_ok {fd : FilterDec} {su su' : SimpleURL} {v : GoString}
    (h : filterStep fd su v = .ok su') :
    su'.fragments = su.fragments ∧ su'.fields = su.fields ∧ su'.sortingRules = su.sortingRules ∧
    su'.page = su.page ∧ su'.incl = su.incl ∧ v ≠ [] ∧
    ((v.head? ≠ some 123 ∧ fd.label = some su'.filterLabel ∧ su'.filter = su.filter) ∨
     (v.head? = some 123 ∧ fd.filter = su'.filter ∧ su'.filter ≠ none ∧
        su'.filterLabel = su.filterLabel)) := by
  unfold filterStep at h
  split at h
  · cases h
  · rename_i hv
    split at h
    · rename_i hh
      split at h
      · rename_i l hl; cases h; exact ⟨rfl, rfl, rfl, rfl, rfl, hv, .inl ⟨hh, hl, rfl⟩⟩
      · cases h
    · rename_i hh
      split at h
      · rename_i f hf; cases h
        exact ⟨rfl, rfl, rfl, rfl, rfl, hv, .inr ⟨by simpa using hh, hf, by simp, rfl⟩⟩
      · cases h

theorem simpleStep_fragments {fd : FilterDec} {su su' : SimpleURL} {name : GoString}
    {vs : List GoString} (h : simpleStep fd su name vs = .ok su') :
    su'.fragments = su.fragments := by
  rw [simpleStep_eq] at h
  cases hc : classify name <;> simp only [hc] at h
  · cases h; rfl
  · cases h; split <;> rfl
  · exact (filterStep_ok h).1
  · cases h; rfl
  · cases h; rfl
  · cases h

theorem simpleStep_sort {fd : FilterDec} {su su' : SimpleURL} {name : GoString}
    {vs : List GoString} (h : simpleStep fd su name vs = .ok su') :
    su'.sortingRules = su.sortingRules ++
      (if name = sSort then vs.flatMap parseCommaList else []) := by
  rw [simpleStep_eq] at h
  cases hc : classify name <;> simp only [hc] at h
  all_goals
    first
    | (have hn : ¬ name = sSort := by
        intro e; rw [(classify_sort_iff name).2 e] at hc; cases hc
       rw [if_neg hn, List.append_nil])
    | (rw [if_pos ((classify_sort_iff name).1 hc)])
  · cases h; rfl
  · cases h; split <;> rfl
  · exact (filterStep_ok h).2.2.1
  · cases h; rfl
  · cases h; rfl
  · cases h

theorem simpleStep_incl {fd : FilterDec} {su su' : SimpleURL} {name : GoString}
    {vs : List GoString} (h : simpleStep fd su name vs = .ok su') :
    su'.incl = su.incl ++ (if name = sInclude then vs.flatMap parseCommaList else []) := by
  rw [simpleStep_eq] at h
  cases hc : classify name <;> simp only [hc] at h
  all_goals
    first
    | (have hn : ¬ name = sInclude := by
        intro e; rw [(classify_incl_iff name).2 e] at hc; cases hc
       rw [if_neg hn, List.append_nil])
    | (rw [if_pos ((classify_incl_iff name).1 hc)])
  · cases h; rfl
  · cases h; split <;> rfl
  · exact (filterStep_ok h).2.2.2.2.1
  · cases h; rfl
  · cases h; rfl
  · cases h

theorem newSimpleURL_fragments {path : GoString} {values : GoMap (List GoString)} {fd : FilterDec}
    {su : SimpleURL} (h : newSimpleURL path values fd = .ok su) :
    su.fragments = parseFragments path := by
  rw [newSimpleURL_eq] at h
  exact rfold_inv _ (fun su => su.fragments = parseFragments path)
    (fun a b a' ha hs => (simpleStep_fragments hs).trans ha) _ _ _ rfl h

theorem newSimpleURL_sort {path : GoString} {values : GoMap (List GoString)} {fd : FilterDec}
    {su : SimpleURL} (h : newSimpleURL path values fd = .ok su) :
    su.sortingRules = Spec.requestedRules values := by
  rw [newSimpleURL_eq] at h
  have := rfold_acc _ (fun su : SimpleURL => su.sortingRules)
    (fun p : GoString × List GoString => if p.1 = sSort then p.2.flatMap parseCommaList else [])
    (fun a b a' hs => simpleStep_sort hs) _ _ _ h
  simp only [List.nil_append] at this; exact this

theorem newSimpleURL_incl {path : GoString} {values : GoMap (List GoString)} {fd : FilterDec}
    {su : SimpleURL} (h : newSimpleURL path values fd = .ok su) :
    su.incl = Spec.requestedIncludes values := by
  rw [newSimpleURL_eq] at h
  have := rfold_acc _ (fun su : SimpleURL => su.incl)
    (fun p : GoString × List GoString => if p.1 = sInclude then p.2.flatMap parseCommaList else [])
    (fun a b a' hs => simpleStep_incl hs) _ _ _ h
  simp only [List.nil_append] at this; exact this

theorem mem_set {β : Type} {m : GoMap β} {k : GoString} {v : β} {p : GoString × β}
    (h : p ∈ GoMap.set m k v) : p = (k, v) ∨ p ∈ m := by
  induction m with
  | nil => simp [GoMap.set] at h; exact .inl h
  | cons q m ih =>
    obtain ⟨k', v'⟩ := q
    simp only [GoMap.set] at h
    split at h
    · rcases List.mem_cons.1 h with e | e
      · exact .inl e
      · exact .inr (List.mem_cons_of_mem _ e)
    · rcases List.mem_cons.1 h with e | e
      · exact .inr (e ▸ List.mem_cons_self)
      · rcases ih e with e' | e'
        · exact .inl e'
        · exact .inr (List.mem_cons_of_mem _ e')

/-- every entry of the simple URL's field map comes from a `fields[t]` parameter -/
theorem newSimpleURL_fields {path : GoString} {values : GoMap (List GoString)} {fd : FilterDec}
    {su : SimpleURL} (h : newSimpleURL path values fd = .ok su) :
    ∀ p ∈ su.fields, p.1 ≠ [] ∧ ∃ vs, (Spec.fieldsName p.1, vs) ∈ values ∧
      p.2 = parseCommaList (firstVal vs) := by
  rw [newSimpleURL_eq] at h
  refine rfold_inv_mem _ values (fun su : SimpleURL => ∀ p ∈ su.fields, p.1 ≠ [] ∧
    ∃ vs, (Spec.fieldsName p.1, vs) ∈ values ∧ p.2 = parseCommaList (firstVal vs)) ?_ _ _
    (by intro p hp; cases hp) h
  intro a b a' hb ha hs
  rw [simpleStep_eq] at hs
  cases hc : classify b.1 <;> simp only [hc] at hs
  · rename_i t
    cases hs
    intro p hp
    rcases mem_set hp with e | e
    · obtain ⟨hn, ht⟩ := (classify_fields_iff _ _).1 hc
      subst e
      refine ⟨ht, b.2, ?_, rfl⟩
      rw [← hn]; exact hb
    · exact ha p e
  · cases hs; split <;> exact ha
  · rw [(filterStep_ok hs).2.1]; exact ha
  · cases hs; exact ha
  · cases hs; exact ha
  · cases hs

theorem newSimpleURL_fields_nodup {path : GoString} {values : GoMap (List GoString)}
    {fd : FilterDec} {su : SimpleURL} (h : newSimpleURL path values fd = .ok su) :
    (keys su.fields).Nodup ∧ (keys su.page).Nodup := by
  rw [newSimpleURL_eq] at h
  refine rfold_inv _ (fun su : SimpleURL => (keys su.fields).Nodup ∧ (keys su.page).Nodup) ?_ _ _ _
    (by simp [GoMap.keys]) h
  intro a b a' ha hs
  rw [simpleStep_eq] at hs
  cases hc : classify b.1 <;> simp only [hc] at hs
  · cases hs; exact ⟨nodup_keys_set _ _ _ ha.1, ha.2⟩
  · cases hs; split
    · exact ha
    · exact ⟨ha.1, nodup_keys_set _ _ _ ha.2⟩
  · rw [(filterStep_ok hs).2.1, (filterStep_ok hs).2.2.2.1]; exact ha
  · cases hs; exact ha
  · cases hs; exact ha
  · cases hs

/-! ### `newParams`: the result -/

theorem newParams_ok {σ : Schema} {su : SimpleURL} {resType : GoString} {p : Params}
    (h : newParams σ su resType = .ok p) :
    ∃ fm, pFieldsRes σ su resType = .ok fm ∧ p.fields = fillDefault σ fm ∧
      p.filterLabel = su.filterLabel ∧ p.filter = su.filter ∧
      p.sortingRules = pRules σ su resType ∧ p.page = su.page ∧ p.incl = pIncl σ su resType := by
  rw [newParams_eq] at h
  split at h
  · rename_i fm hfm; cases h; exact ⟨fm, hfm, rfl, rfl, rfl, rfl, rfl, rfl⟩
  · cases h
  · cases h

theorem params_fields {σ : Schema} (hσ : Inv σ) {su : SimpleURL} {resType : GoString} {p : Params}
    (hrt : σ.hasType resType = true) (h : newParams σ su resType = .ok p) :
    (∀ t fs, p.fields.get? t = some fs → σ.hasType t = true ∧
      (∀ f ∈ fs, f = idName ∨ f ∈ (σ.getType t).fields) ∧ fs.Nodup) ∧ (keys p.fields).Nodup := by
  obtain ⟨fm, hfm, hf, _⟩ := newParams_ok h
  unfold pFieldsRes at hfm
  have hgood : GoodMap σ fm :=
    rfold_inv _ (GoodMap σ) (fun a b a' ha hs => fieldStep_good ha hs) _ _ _
      (pFields1_good σ su resType hrt) hfm
  have hnd : (keys fm).Nodup :=
    rfold_inv _ (fun m => (keys m).Nodup) (fun a b a' ha hs => fieldStep_nodup ha hs) _ _ _
      (pFields1_nodup σ su resType) hfm
  refine ⟨?_, by rw [hf, keys_fillDefault]; exact hnd⟩
  intro t fs hget
  rw [hf, get?_fillDefault] at hget
  cases hl : fm.get? t with
  | none => rw [hl] at hget; cases hget
  | some l =>
    rw [hl] at hget
    simp only [Option.map_some, Option.some.injEq] at hget
    obtain ⟨ht, hlnd, hlf⟩ := hgood t l hl
    refine ⟨ht, ?_⟩
    split at hget
    · subst hget
      exact ⟨fun f hf => .inr hf, fields_nodup (hasType_name_ne hσ ht).2.2⟩
    · subst hget; exact ⟨hlf, hlnd⟩

theorem params_fields_default {σ : Schema} {su : SimpleURL} {resType : GoString} {p : Params}
    (h : newParams σ su resType = .ok p) (t : GoString) (fs : List GoString)
    (hget : p.fields.get? t = some fs)
    (hreq : ∀ q, (t, q) ∈ su.fields → ∀ f ∈ q, f ≠ idName ∧ f ∉ (σ.getType t).fields) :
    fs = (σ.getType t).fields := by
  obtain ⟨fm, hfm, hf, _⟩ := newParams_ok h
  unfold pFieldsRes at hfm
  have hfrom : ∀ t l, fm.get? t = some l → l = [] ∨ ∃ q, (t, q) ∈ su.fields ∧ l = sel (σ.getType t) q :=
    rfold_inv_mem _ su.fields
      (fun m => ∀ t l, m.get? t = some l → l = [] ∨ ∃ q, (t, q) ∈ su.fields ∧ l = sel (σ.getType t) q)
      (fun a b a' hb ha hs => fieldStep_from hb ha hs) _ _
      (fun t l hl => .inl (pFields1_empty σ su resType t l hl)) hfm
  rw [hf, get?_fillDefault] at hget
  cases hl : fm.get? t with
  | none => rw [hl] at hget; cases hget
  | some l =>
    rw [hl] at hget
    simp only [Option.map_some, Option.some.injEq] at hget
    have hnil : l = [] := by
      rcases hfrom t l hl with e | ⟨q, hq, e⟩
      · exact e
      · rw [e]; exact sel_eq_nil (hreq q hq)
    subst hnil
    simpa using hget.symm


/-! ### inclusions -/

theorem resolve_go_valid {σ : Schema} (hσ : Inv σ) : ∀ (ws : List GoString) (cur : GoString)
    (path : List Rel), resolvePath.go σ cur ws = some path →
      Spec.validChain σ cur path = true ∧ path.length = ws.length := by
  intro ws
  induction ws with
  | nil =>
    intro cur path h
    simp only [resolvePath.go, Option.some.injEq] at h
    subst h; exact ⟨rfl, rfl⟩
  | cons w ws ih =>
    intro cur path h
    unfold resolvePath.go at h
    simp only [] at h
    split at h
    · rename_i rel hrel
      split at h
      · cases h
      · rename_i hc
        simp only [Bool.or_eq_true, decide_eq_true_eq, Bool.not_eq_true', not_or,
          Bool.not_eq_false] at hc
        obtain ⟨hname, hht⟩ := hc
        cases hgo : resolvePath.go σ rel.toType ws with
        | none => rw [hgo] at h; cases h
        | some rest =>
          rw [hgo] at h
          simp only [Option.map_some, Option.some.injEq] at h
          subst h
          obtain ⟨hv, hl⟩ := ih _ _ hgo
          have hwf := (hσ.2 _ (getType_name_ne σ cur hname).2.2).2
          have hw : w = rel.fromName := (hwf.rels (w, rel) (get?_mem hrel)).1
          refine ⟨?_, by simp [hl]⟩
          unfold Spec.validChain
          simp only [Bool.and_eq_true, decide_eq_true_eq]
          exact ⟨⟨⟨hname, by rw [← hw]; exact hrel⟩, hht⟩, hv⟩
    · cases h

theorem resolvePath_valid {σ : Schema} (hσ : Inv σ) {rt : GoString} {ws : List GoString}
    {path : List Rel} (h : resolvePath σ rt ws = some path) :
    Spec.validChain σ rt path = true ∧ path.length = ws.length :=
  resolve_go_valid hσ ws rt path h

theorem prune_subset : ∀ (l : List GoString), ∀ x ∈ pruneIncludes l, x ∈ l := by
  intro l
  induction l with
  | nil => intro x h; simp [pruneIncludes] at h
  | cons a rest ih =>
    intro x h
    unfold pruneIncludes at h
    split at h
    · simp only [List.mem_singleton] at h; rw [h]; exact List.mem_cons_self
    · rename_i b rest' hb
      split at h
      · exact List.mem_cons_of_mem _ (ih x (hb ▸ h))
      · rcases List.mem_cons.1 h with e | e
        · rw [e]; exact List.mem_cons_self
        · exact List.mem_cons_of_mem _ (ih x (hb ▸ e))

/-- the pruning loop only drops an element that another element of the list extends -/
theorem prune_keeps : ∀ (l : List GoString), ∀ x ∈ l,
    x ∈ pruneIncludes l ∨ ∃ b ∈ l, hasPrefix b (x ++ [46]) = true := by
  intro l
  induction l with
  | nil => intro x h; cases h
  | cons a rest ih =>
    intro x h
    rcases List.mem_cons.1 h with e | e
    · subst e
      unfold pruneIncludes
      split
      · exact .inl (List.mem_singleton.2 rfl)
      · rename_i b rest' hb
        split
        · rename_i hext
          unfold extendsPath at hext
          simp only [Bool.or_eq_true, decide_eq_true_eq] at hext
          rcases hext with e | e
          · subst e; exact .inl List.mem_cons_self
          · refine .inr ⟨b, List.mem_cons_of_mem _ (prune_subset rest b ?_), e⟩
            rw [hb]; exact List.mem_cons_self
        · exact .inl List.mem_cons_self
    · rcases ih x e with h' | ⟨b, hb, hp⟩
      · left
        unfold pruneIncludes
        split
        · rename_i hnil; rw [hnil] at h'; cases h'
        · rename_i b rest' hb
          rw [hb] at h'
          split
          · exact h'
          · exact List.mem_cons_of_mem _ h'
      · exact .inr ⟨b, List.mem_cons_of_mem _ hb, hp⟩

theorem params_incl_valid {σ : Schema} (hσ : Inv σ) {su : SimpleURL} {resType : GoString}
    {p : Params} (h : newParams σ su resType = .ok p) :
    ∀ path ∈ p.incl, path ≠ [] ∧ Spec.validChain σ resType path = true := by
  obtain ⟨fm, _, _, _, _, _, _, hi⟩ := newParams_ok h
  intro path hp
  rw [hi] at hp
  unfold pIncl at hp
  obtain ⟨inc, _, hr⟩ := List.mem_filterMap.1 hp
  obtain ⟨hv, hl⟩ := resolvePath_valid hσ hr
  refine ⟨?_, hv⟩
  intro e; subst e
  have := Num.splitOn_ne_nil 46 inc
  cases hs : splitOn 46 inc with
  | nil => exact this hs
  | cons a b => rw [hs] at hl; simp at hl

theorem params_incl_kept {σ : Schema} {su : SimpleURL} {resType : GoString}
    {p : Params} (h : newParams σ su resType = .ok p) (q : GoString) (hq : q ∈ su.incl)
    (path : List Rel) (hr : resolvePath σ resType (splitOn 46 q) = some path) :
    path ∈ p.incl ∨ ∃ q' ∈ su.incl, hasPrefix q' (q ++ [46]) = true := by
  obtain ⟨fm, _, _, _, _, _, _, hi⟩ := newParams_ok h
  have hq' : q ∈ Typ.sortStrings su.incl := (DetL.sortStrings_perm _).mem_iff.2 hq
  rcases prune_keeps _ q hq' with hk | ⟨b, hb, hp⟩
  · left
    rw [hi]; unfold pIncl pIncs
    exact List.mem_filterMap.2 ⟨q, hk, hr⟩
  · exact .inr ⟨b, (DetL.sortStrings_perm _).mem_iff.1 hb, hp⟩

/-! ### sorting rules -/

theorem isCol_agree {σ : Schema} {su : SimpleURL} {u : URL} (h : newURL σ su = .ok u) :
    pIsCol σ su = u.isCol := by
  obtain ⟨f0, rest, p, hfr, hname, _, _, _, hc⟩ := newURL_ok σ su u h
  unfold pIsCol
  rcases hc with ⟨hle, _, hcol, _⟩ | ⟨hge, rel, hrel, _, _, hcol, _⟩
  · rw [hcol]
    by_cases h1 : su.fragments.length = 1
    · simp [h1]
    · have : ¬ su.fragments.length ≥ 3 := by omega
      simp [h1, this]
  · have h1 : ¬ su.fragments.length = 1 := by omega
    rw [if_neg h1, if_pos hge, hcol]
    have : su.fragments.head?.getD [] = f0 := by rw [hfr]; rfl
    rw [this, hrel]

theorem stripDash_idName : Spec.stripDash idName = idName := by decide

theorem pRules_facts (σ : Schema) (su : SimpleURL) (resType : GoString) (hcol : pIsCol σ su = true) :
    Spec.validRules σ resType su.sortingRules <+: pRules σ su resType ∧
    (∀ rule ∈ pRules σ su resType, rule ∈ attrNames σ resType ∨ Spec.stripDash rule = idName ∨
        Spec.stripDash rule ∈ attrNames σ resType) ∧
    (∃ rule ∈ pRules σ su resType, Spec.stripDash rule = idName) := by
  unfold pRules
  rw [if_pos hcol]
  refine ⟨⟨_, (List.append_assoc _ _ _).symm⟩, ?_, ?_⟩
  · intro rule hr
    simp only [List.mem_append] at hr
    rcases hr with (hr | hr) | hr
    · right
      unfold Spec.validRules at hr
      have := (List.mem_filter.1 hr).2
      simp only [Bool.or_eq_true, decide_eq_true_eq, List.contains_iff_mem] at this
      exact this
    · left
      exact (List.mem_filter.1 ((DetL.sortStrings_perm _).mem_iff.1 hr)).1
    · split at hr
      · cases hr
      · simp only [List.mem_singleton] at hr; rw [hr]; exact .inr (.inl stripDash_idName)
  · by_cases hid : su.sortingRules.any (fun rule => Spec.stripDash rule = idName) = true
    · obtain ⟨r, hr, he⟩ := List.any_eq_true.1 hid
      have he' : Spec.stripDash r = idName := by simpa using he
      refine ⟨r, ?_, he'⟩
      simp only [List.mem_append]
      left; left
      unfold Spec.validRules
      exact List.mem_filter.2 ⟨hr, by simp [he']⟩
    · refine ⟨idName, ?_, stripDash_idName⟩
      simp only [List.mem_append]
      right; rw [if_neg hid]; exact List.mem_singleton.2 rfl

theorem stripDash_of_no_dash {a : GoString} (h : a.head? ≠ some 45) : Spec.stripDash a = a := by
  unfold Spec.stripDash
  split
  · simp at h
  · rfl

end Jsonapi.UrlL
