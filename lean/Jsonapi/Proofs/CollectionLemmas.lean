/- Helper lemmas for C19 (SoftCollection behaves as a plain ordered list). -/
import Jsonapi.Spec.Collection
import Jsonapi.Proofs.MapLemmas
import Jsonapi.Proofs.C14Lemmas
namespace Jsonapi

/-! ### More on Go maps -/

namespace GoMap
variable {β : Type}

theorem get?_eq_none_iff (m : GoMap β) (k : GoString) : get? m k = none ↔ k ∉ keys m := by
  induction m with
  | nil => simp [get?, keys]
  | cons p m ih =>
    obtain ⟨k', v⟩ := p
    by_cases h : k' = k
    · simp [get?, keys, h]
    · have h' : ¬ k = k' := fun e => h e.symm
      simp only [get?, h, if_false, ih, keys, List.map_cons, List.mem_cons, h', false_or]

theorem has_iff (m : GoMap β) (k : GoString) : has m k = true ↔ k ∈ keys m := by
  unfold has
  rw [Option.isSome_iff_ne_none, ne_eq, get?_eq_none_iff, Classical.not_not]

theorem has_false_iff (m : GoMap β) (k : GoString) : has m k = false ↔ get? m k = none := by
  unfold has; cases get? m k <;> simp

theorem has_of_get? {m : GoMap β} {k : GoString} {v : β} (h : get? m k = some v) : has m k = true := by
  unfold has; rw [h]; rfl

theorem get?_mem {m : GoMap β} {k : GoString} {v : β} (h : get? m k = some v) : (k, v) ∈ m := by
  induction m with
  | nil => simp [get?] at h
  | cons p m ih =>
    obtain ⟨k', v'⟩ := p
    unfold get? at h
    split at h
    · rename_i e; cases h; subst e; exact List.mem_cons_self
    · exact List.mem_cons_of_mem _ (ih h)

theorem has_set (m : GoMap β) (k k' : GoString) (v : β) :
    has (set m k v) k' = true ↔ (k' = k ∨ has m k' = true) := by
  by_cases h : k' = k
  · subst h; simp [has, get?_set_self]
  · simp [has, get?_set_ne _ _ _ _ h, h]

/-- Filtering on keys. -/
theorem get?_filter (q : GoString → Bool) (m : GoMap β) (k : GoString) :
    get? (m.filter (fun p => q p.1)) k = if q k = true then get? m k else none := by
  induction m with
  | nil => simp [get?]
  | cons p m ih =>
    obtain ⟨k', v⟩ := p
    by_cases hq : q k' = true
    · rw [List.filter_cons_of_pos (by simpa using hq)]
      by_cases h : k' = k
      · subst h; simp [get?, hq]
      · simp only [get?, h, if_false, ih]
    · rw [List.filter_cons_of_neg (by simpa using hq)]
      by_cases h : k' = k
      · subst h; simp [hq, ih]
      · simp only [get?, h, if_false, ih]

/-- `check`'s first half for one of the two maps of the type: give every entry that
has no value its zero value. -/
theorem get?_fill_c19 (nm : β → GoString) (z : β → GoVal) (m : GoMap β)
    (hk : ∀ p ∈ m, p.1 = nm p.2) (d : GoMap GoVal) (f : GoString) :
    get? (m.foldl (fun d p => if has d (nm p.2) then d else set d (nm p.2) (z p.2)) d) f =
      match get? d f with
      | some v => some v
      | none => (get? m f).map z := by
  induction m generalizing d with
  | nil => simp only [List.foldl_nil]; cases get? d f <;> simp [get?]
  | cons p m ih =>
    obtain ⟨k, b⟩ := p
    have hkb : k = nm b := hk (k, b) List.mem_cons_self
    rw [List.foldl_cons, ih (fun p hp => hk p (List.mem_cons_of_mem _ hp))]
    by_cases hh : has d (nm b) = true
    · simp only [hh, if_true]
      cases hd : get? d f with
      | some v => rfl
      | none =>
        have : ¬ k = f := by
          intro e; rw [hkb] at e; rw [e] at hh
          simp [has, hd] at hh
        simp [get?, this]
    · have hh' : has d (nm b) = false := by simpa using hh
      simp only [hh', Bool.false_eq_true, if_false]
      have hn : get? d (nm b) = none := (has_false_iff _ _).1 hh'
      by_cases e : f = nm b
      · subst e
        rw [get?_set_self, hn]; simp [get?, hkb]
      · rw [get?_set_ne _ _ _ _ e]
        have : ¬ k = f := fun e' => e (by rw [← e', hkb])
        cases get? d f <;> simp [get?, this]

end GoMap

/-! ### Keyed types, fields -/

open GoMap

theorem TypWF.keyed {t : Typ} (h : TypWF t) : TypKeyed t :=
  ⟨fun p hp => (h.attrs p hp).1, fun p hp => (h.rels p hp).1, h.ndA, h.ndR, h.disj⟩

namespace Spec

theorem isField_iff (t : Typ) (f : GoString) :
    isField t f = true ↔ f ∈ t.attrs.keys ∨ f ∈ t.rels.keys := by
  unfold isField; rw [Bool.or_eq_true, has_iff, has_iff]

theorem isField_false_iff (t : Typ) (f : GoString) :
    isField t f = false ↔ f ∉ t.attrs.keys ∧ f ∉ t.rels.keys := by
  rw [← Bool.not_eq_true, isField_iff, not_or]

theorem isField_of_attr {t : Typ} {f : GoString} {a : Attr} (h : t.attrs.get? f = some a) :
    isField t f = true := by
  unfold isField; rw [has_of_get? h]; rfl

theorem isField_of_rel {t : Typ} {f : GoString} {r : Rel} (h : t.rels.get? f = some r) :
    isField t f = true := by
  unfold isField; rw [has_of_get? h]; simp

theorem isField_false_get? {t : Typ} {f : GoString} (h : isField t f = false) :
    t.attrs.get? f = none ∧ t.rels.get? f = none := by
  unfold isField at h
  rw [Bool.or_eq_false_iff, has_false_iff, has_false_iff] at h
  exact h

end Spec
open Spec

theorem Soft.fields_eq_c19 {t : Typ} (ht : TypKeyed t) : Soft.fields t = t.attrs.keys ++ t.rels.keys := by
  unfold Soft.fields GoMap.vals GoMap.keys
  rw [List.map_map, List.map_map]
  congr 1
  · apply List.map_congr_left; intro p hp; exact (ht.attrs p hp).symm
  · apply List.map_congr_left; intro p hp; exact (ht.rels p hp).symm

theorem Soft.contains_fields {t : Typ} (ht : TypKeyed t) (f : GoString) :
    (Soft.fields t).contains f = isField t f := by
  rw [Bool.eq_iff_iff, isField_iff, Soft.fields_eq_c19 ht]
  simp

theorem Soft.fields_length (t : Typ) :
    (Soft.fields t).length = (t.attrs.keys ++ t.rels.keys).length := by
  simp [Soft.fields, GoMap.vals, GoMap.keys]

theorem TypKeyed.nodup_keys {t : Typ} (ht : TypKeyed t) : (t.attrs.keys ++ t.rels.keys).Nodup := by
  rw [List.nodup_append]
  exact ⟨ht.ndA, ht.ndR, fun a ha b hb e => ht.disj a ha (e ▸ hb)⟩

/-! ### `check` on the data map -/

/-- The first half of `check`: fill in the zero values. -/
def Soft.fill (t : Typ) (d : GoMap GoVal) : GoMap GoVal :=
  t.rels.foldl (fun d p => if d.has p.2.fromName then d else d.set p.2.fromName p.2.zero)
    (t.attrs.foldl (fun d p => if d.has p.2.name then d else d.set p.2.name p.2.zero) d)

theorem Soft.checkData_eq (t : Typ) (d : GoMap GoVal) :
    Soft.checkData t d =
      if (Soft.fields t).length < (Soft.fill t d).length
      then (Soft.fill t d).filter (fun p => (Soft.fields t).contains p.1) else Soft.fill t d := rfl

theorem Soft.get?_fill_c19 {t : Typ} (ht : TypKeyed t) (d : GoMap GoVal) (f : GoString) :
    (Soft.fill t d).get? f =
      match d.get? f with
      | some v => some v
      | none => if isField t f = true then some (fieldZero t f) else none := by
  unfold Soft.fill
  rw [GoMap.get?_fill_c19 Rel.fromName Rel.zero t.rels ht.rels,
    GoMap.get?_fill_c19 Attr.name Attr.zero t.attrs ht.attrs]
  unfold isField fieldZero GoMap.has
  cases d.get? f <;> cases t.attrs.get? f <;> cases t.rels.get? f <;> simp

/-- A field always has a value after `check`: the one it had, else its zero value. -/
theorem Soft.checkData_get?_field {t : Typ} (ht : TypKeyed t) (d : GoMap GoVal) {f : GoString}
    (hf : isField t f = true) :
    (Soft.checkData t d).get? f = some ((d.get? f).getD (fieldZero t f)) := by
  have h2 : (Soft.fill t d).get? f = some ((d.get? f).getD (fieldZero t f)) := by
    rw [Soft.get?_fill_c19 ht]; cases d.get? f <;> simp [hf]
  rw [Soft.checkData_eq]; split
  · refine (GoMap.get?_filter (fun k => (Soft.fields t).contains k) _ f).trans ?_
    simp only [Soft.contains_fields ht, hf, if_true]; exact h2
  · exact h2

/-- A name that is no field has no value after `check` (this is where the test "more
values than fields" of the Go code is shown to be exact). -/
theorem Soft.checkData_get?_nonfield {t : Typ} (ht : TypKeyed t) (d : GoMap GoVal)
    {f : GoString} (hf : isField t f = false) :
    (Soft.checkData t d).get? f = none := by
  rw [Soft.checkData_eq]; split
  · refine (GoMap.get?_filter (fun k => (Soft.fields t).contains k) _ f).trans ?_
    simp only [Soft.contains_fields ht, hf, Bool.false_eq_true, if_false]
  · rename_i hlen
    rw [GoMap.get?_eq_none_iff]
    intro hmem
    apply hlen
    have hfK := (isField_false_iff t f).1 hf
    have hnd : (f :: (t.attrs.keys ++ t.rels.keys)).Nodup := by
      rw [List.nodup_cons]
      exact ⟨by simpa using hfK, ht.nodup_keys⟩
    have hsub : (f :: (t.attrs.keys ++ t.rels.keys)) ⊆ (Soft.fill t d).keys := by
      intro k hk
      rcases List.mem_cons.1 hk with e | hk
      · subst e; exact hmem
      · have hkf : isField t k = true := (isField_iff t k).2 (List.mem_append.1 hk)
        have : (Soft.fill t d).get? k ≠ none := by
          rw [Soft.get?_fill_c19 ht]; cases d.get? k <;> simp [hkf]
        exact Classical.not_not.1 (fun hn => this ((GoMap.get?_eq_none_iff _ _).2 hn))
    have hle := hnd.length_le_of_subset hsub
    rw [Soft.fields_length]
    simp only [List.length_cons, GoMap.keys, List.length_map] at hle ⊢
    omega

theorem Soft.checkData_get? {t : Typ} (ht : TypKeyed t) (d : GoMap GoVal) (f : GoString) :
    (Soft.checkData t d).get? f =
      if isField t f = true then some ((d.get? f).getD (fieldZero t f)) else none := by
  split
  · rename_i hf; exact Soft.checkData_get?_field ht d hf
  · rename_i hf; exact Soft.checkData_get?_nonfield ht d (by simpa using hf)

/-! ### Reading a stored resource -/

theorem Soft.get_eq {t : Typ} (ht : TypKeyed t) (id : GoString) (d : GoMap GoVal) (f : GoString) :
    ({ typ := t, id := id, data := d } : Soft).get f =
      if f = idName then .val .string (.s id)
      else if isField t f = true then (d.get? f).getD (fieldZero t f) else .nil := by
  unfold Soft.get Soft.check
  simp only []
  by_cases h0 : f = idName
  · simp [h0]
  · simp only [h0, if_false]
    by_cases hf : isField t f = true
    · rw [Soft.checkData_get?_field ht d hf]
      simp only [hf, if_true, Option.getD_some]
      unfold isField at hf
      rw [Bool.or_eq_true] at hf
      by_cases ha : t.attrs.has f = true
      · simp [ha]
      · rcases hf with hf | hf
        · exact absurd hf ha
        · simp [ha, hf]
    · have hf' := hf
      unfold isField at hf'
      rw [Bool.or_eq_true, not_or] at hf'
      simp [hf, hf'.1, hf'.2]

theorem Spec.Row.get_eq (t : Typ) (row : Spec.Row) (f : GoString) :
    Spec.Row.get t row f =
      if f = idName then .val .string (.s row.id)
      else if isField t f = true then (row.vals.get? f).getD (fieldZero t f) else .nil := by
  unfold Spec.Row.get
  by_cases h0 : f = idName
  · simp [h0]
  · simp only [h0, if_false]
    by_cases hf : isField t f = true
    · have hf' := hf
      unfold isField at hf'
      rw [Bool.or_eq_true] at hf'
      rw [if_pos hf', if_pos hf]
      unfold fieldZero
      cases row.vals.get? f <;> rfl
    · have hf' := hf
      unfold isField at hf'
      rw [Bool.or_eq_true] at hf'
      rw [if_neg hf', if_neg hf]

/-- The data invariant gives observational equality through `Get`. -/
theorem RowAbs.mk' {t : Typ} (ht : TypKeyed t) (id : GoString) {d vals : GoMap GoVal}
    (h : RowInv t d vals) : RowAbs t (id, d) { id := id, vals := vals } := by
  refine ⟨rfl, ?_, h⟩
  intro f
  rw [Soft.get_eq ht, Spec.Row.get_eq]
  by_cases h0 : f = idName
  · simp [h0]
  · simp only [h0, if_false]
    by_cases hf : isField t f = true
    · simp only [hf, if_true]
      cases hv : vals.get? f with
      | some v => rw [h.sub f v hv]
      | none =>
        cases hd : d.get? f with
        | none => rfl
        | some v => simp only [Option.getD_some, Option.getD_none]; exact h.zero f v hd hv
    · simp [hf]


/-! ### Growing a type -/

/-- `t'` extends `t`: every field of `t` is a field of `t'` with the same definition. -/
def Ext (t t' : Typ) : Prop :=
  ∀ f, isField t f = true →
    isField t' f = true ∧ t'.attrs.get? f = t.attrs.get? f ∧ t'.rels.get? f = t.rels.get? f

theorem Ext.refl (t : Typ) : Ext t t := fun _ h => ⟨h, rfl, rfl⟩

theorem Ext.trans {t1 t2 t3 : Typ} (h12 : Ext t1 t2) (h23 : Ext t2 t3) : Ext t1 t3 := by
  intro f hf
  obtain ⟨a, b, c⟩ := h12 f hf
  obtain ⟨a', b', c'⟩ := h23 f a
  exact ⟨a', b'.trans b, c'.trans c⟩

theorem Ext.fieldZero {t t' : Typ} (h : Ext t t') {f : GoString} (hf : isField t f = true) :
    fieldZero t' f = fieldZero t f := by
  unfold Spec.fieldZero; rw [(h f hf).2.1, (h f hf).2.2]

theorem Ext.setAttr {t : Typ} {a : Attr} (hn : isField t a.name = false) :
    Ext t { t with attrs := t.attrs.set a.name a } := by
  intro f hf
  have hne : f ≠ a.name := fun e => by rw [e, hn] at hf; cases hf
  have hg : (t.attrs.set a.name a).get? f = t.attrs.get? f := get?_set_ne _ _ _ _ hne
  refine ⟨?_, hg, rfl⟩
  unfold isField GoMap.has at hf ⊢
  simp only [hg]; exact hf

theorem Ext.setRel {t : Typ} {r : Rel} (hn : isField t r.fromName = false) :
    Ext t { t with rels := t.rels.set r.fromName r } := by
  intro f hf
  have hne : f ≠ r.fromName := fun e => by rw [e, hn] at hf; cases hf
  have hg : (t.rels.set r.fromName r).get? f = t.rels.get? f := get?_set_ne _ _ _ _ hne
  refine ⟨?_, rfl, hg⟩
  unfold isField GoMap.has at hf ⊢
  simp only [hg]; exact hf

theorem TypKeyed.setAttr {t : Typ} (h : TypKeyed t) {a : Attr} (hn : isField t a.name = false) :
    TypKeyed { t with attrs := t.attrs.set a.name a } := by
  obtain ⟨hnA, hnR⟩ := (isField_false_iff t _).1 hn
  have hset := set_of_not_mem t.attrs a.name a hnA
  constructor
  · intro p hp
    simp only [hset, List.mem_append, List.mem_singleton] at hp
    rcases hp with hp | hp
    · exact h.attrs p hp
    · subst hp; rfl
  · exact h.rels
  · simp only [hset, keys, List.map_append, List.map_cons, List.map_nil]
    rw [List.nodup_append]
    exact ⟨h.ndA, by simp, by
      intro x hx y hy; simp at hy; subst hy; intro e; subst e; exact hnA hx⟩
  · exact h.ndR
  · intro k hk
    simp only [hset, keys, List.map_append, List.map_cons, List.map_nil, List.mem_append,
      List.mem_singleton] at hk
    rcases hk with hk | hk
    · exact h.disj k hk
    · subst hk; exact hnR

theorem TypKeyed.setRel {t : Typ} (h : TypKeyed t) {r : Rel} (hn : isField t r.fromName = false) :
    TypKeyed { t with rels := t.rels.set r.fromName r } := by
  obtain ⟨hnA, hnR⟩ := (isField_false_iff t _).1 hn
  have hset := set_of_not_mem t.rels r.fromName r hnR
  constructor
  · exact h.attrs
  · intro p hp
    simp only [hset, List.mem_append, List.mem_singleton] at hp
    rcases hp with hp | hp
    · exact h.rels p hp
    · subst hp; rfl
  · exact h.ndA
  · simp only [hset, keys, List.map_append, List.map_cons, List.map_nil]
    rw [List.nodup_append]
    exact ⟨h.ndR, by simp, by
      intro x hx y hy; simp at hy; subst hy; intro e; subst e; exact hnR hx⟩
  · intro k hk
    simp only [hset, keys, List.map_append, List.map_cons, List.map_nil, List.mem_append,
      List.mem_singleton, not_or]
    exact ⟨h.disj k hk, fun e => by subst e; exact hnA hk⟩

/-- `Type.AddAttr` either leaves the type alone or adds a fresh attribute. -/
theorem Typ.addAttr_cases {t : Typ} (ht : TypKeyed t) (a : Attr) :
    ((t.addAttr a).1 = t ∧ (t.addAttr a).2 ≠ .ok ()) ∨
    (isField t a.name = false ∧ t.addAttr a = ({ t with attrs := t.attrs.set a.name a }, .ok ())) := by
  unfold Typ.addAttr
  split; exact .inl ⟨rfl, by simp⟩
  split; exact .inl ⟨rfl, by simp⟩
  split; exact .inl ⟨rfl, by simp⟩
  split; exact .inl ⟨rfl, by simp⟩
  rename_i h1 h2 h3 h4
  refine .inr ⟨?_, rfl⟩
  rw [isField_false_iff]
  constructor
  · intro hm
    obtain ⟨p, hp, e⟩ := List.mem_map.1 hm
    apply h3
    unfold Typ.attrNameUsed
    exact List.any_eq_true.2 ⟨p, hp, by simp [← ht.attrs p hp, e]⟩
  · intro hm
    obtain ⟨p, hp, e⟩ := List.mem_map.1 hm
    apply h4
    unfold Typ.relNameUsed
    exact List.any_eq_true.2 ⟨p, hp, by simp [← ht.rels p hp, e]⟩

theorem Typ.addRel_cases {t : Typ} (ht : TypKeyed t) (r : Rel) :
    ((t.addRel r).1 = t ∧ (t.addRel r).2 ≠ .ok ()) ∨
    (isField t r.fromName = false ∧ t.addRel r = ({ t with rels := t.rels.set r.fromName r }, .ok ())) := by
  unfold Typ.addRel
  split; exact .inl ⟨rfl, by simp⟩
  split; exact .inl ⟨rfl, by simp⟩
  split; exact .inl ⟨rfl, by simp⟩
  split; exact .inl ⟨rfl, by simp⟩
  rename_i h1 h2 h3 h4
  refine .inr ⟨?_, rfl⟩
  rw [isField_false_iff]
  constructor
  · intro hm
    obtain ⟨p, hp, e⟩ := List.mem_map.1 hm
    apply h4
    unfold Typ.attrNameUsed
    exact List.any_eq_true.2 ⟨p, hp, by simp [← ht.attrs p hp, e]⟩
  · intro hm
    obtain ⟨p, hp, e⟩ := List.mem_map.1 hm
    apply h3
    unfold Typ.relNameUsed
    exact List.any_eq_true.2 ⟨p, hp, by simp [← ht.rels p hp, e]⟩

/-! ### The data invariant -/

theorem RowInv.nil (t : Typ) : RowInv t [] [] :=
  ⟨fun _ h => by simp [GoMap.has, GoMap.get?] at h,
   fun _ h => by simp [GoMap.has, GoMap.get?] at h,
   fun _ _ h => by simp [GoMap.get?] at h, fun _ _ h => by simp [GoMap.get?] at h⟩

theorem RowInv.ext {t t' : Typ} {d vals : GoMap GoVal} (h : RowInv t d vals) (he : Ext t t') :
    RowInv t' d vals :=
  ⟨fun f hf => (he f (h.dField f hf)).1, fun f hf => (he f (h.vField f hf)).1, h.sub,
   fun f v hd hv => by
     rw [he.fieldZero (h.dField f (has_of_get? hd))]; exact h.zero f v hd hv⟩

/-- Running `check` under a (new) type `t'` whose common fields with `t` have the same
zero value, against forgetting the recorded values that are no field of `t'`. -/
theorem RowInv.recheck {t t' : Typ} {d vals vals' : GoMap GoVal} (h : RowInv t d vals)
    (ht' : TypKeyed t')
    (hz : ∀ f, isField t f = true → isField t' f = true → fieldZero t' f = fieldZero t f)
    (hv : ∀ f, vals'.get? f = if isField t' f = true then vals.get? f else none) :
    RowInv t' (Soft.checkData t' d) vals' := by
  have hg := Soft.checkData_get? ht' d
  constructor
  · intro f hf
    unfold GoMap.has at hf
    rw [hg f] at hf
    by_cases hff : isField t' f = true
    · exact hff
    · simp [hff] at hf
  · intro f hf
    unfold GoMap.has at hf
    rw [hv f] at hf
    by_cases hff : isField t' f = true
    · exact hff
    · simp [hff] at hf
  · intro f v hvf
    rw [hv f] at hvf
    by_cases hff : isField t' f = true
    · simp only [hff, if_true] at hvf
      rw [hg f, if_pos hff, h.sub f v hvf]; rfl
    · simp [hff] at hvf
  · intro f v hdf hvf
    rw [hg f] at hdf
    by_cases hff : isField t' f = true
    · simp only [hff, if_true, Option.some.injEq] at hdf
      rw [hv f, if_pos hff] at hvf
      cases hd : d.get? f with
      | none => rw [hd] at hdf; exact hdf.symm
      | some w =>
        rw [hd] at hdf
        simp only [Option.getD_some] at hdf
        subst hdf
        rw [hz f (h.dField f (has_of_get? hd)) hff]
        exact h.zero f _ hd hvf
    · simp [hff] at hdf

theorem RowInv.check {t : Typ} {d vals : GoMap GoVal} (h : RowInv t d vals) (ht : TypKeyed t) :
    RowInv t (Soft.checkData t d) vals := by
  apply h.recheck ht (fun _ _ _ => rfl)
  intro f
  split
  · rfl
  · rename_i hf
    cases hv : vals.get? f with
    | none => rfl
    | some v => exact absurd (h.vField f (has_of_get? hv)) hf

theorem RowInv.set {t : Typ} {d vals : GoMap GoVal} (h : RowInv t d vals) {f : GoString}
    (hf : isField t f = true) (v : GoVal) : RowInv t (d.set f v) (vals.set f v) := by
  constructor
  · intro k hk
    rcases (has_set _ _ _ _).1 hk with e | hk
    · rw [e]; exact hf
    · exact h.dField k hk
  · intro k hk
    rcases (has_set _ _ _ _).1 hk with e | hk
    · rw [e]; exact hf
    · exact h.vField k hk
  · intro k w hk
    by_cases e : k = f
    · subst e; rw [get?_set_self] at hk ⊢; exact hk
    · rw [get?_set_ne _ _ _ _ e] at hk ⊢; exact h.sub k w hk
  · intro k w hd hv
    by_cases e : k = f
    · subst e; rw [get?_set_self] at hv; cases hv
    · rw [get?_set_ne _ _ _ _ e] at hd hv; exact h.zero k w hd hv


/-! ### `Set`, `AddAttr`, `AddRel` of a SoftResource against the specification -/

@[simp] theorem Soft.check_typ (s : Soft) : s.check.typ = s.typ := rfl
@[simp] theorem Soft.check_id (s : Soft) : s.check.id = s.id := rfl
@[simp] theorem Soft.check_data (s : Soft) : s.check.data = Soft.checkData s.typ s.data := rfl

/-- `Set` on a name other than "id": `check`, then record the value iff it is accepted. -/
theorem Soft.set_eq (t : Typ) (id : GoString) (d : GoMap GoVal) (k : GoString) (v : GoVal)
    (hk : k ≠ idName) :
    ({ typ := t, id := id, data := d } : Soft).set k v =
      { typ := t, id := id,
        data := if accepts t k v = true then (Soft.checkData t d).set k (stored t k v)
                else Soft.checkData t d } := by
  unfold Soft.set Spec.accepts Spec.stored
  simp only [hk, if_false, Soft.check]
  cases ha : t.attrs.get? k with
  | some a =>
    simp only []
    by_cases h1 : v.attrType = (a.ty, a.nullable)
    · simp [h1]
    · by_cases h2 : v = .nil ∧ a.nullable = true
      · obtain ⟨e1, e2⟩ := h2
        subst e1
        rw [e2] at h1
        simp [h1, e2]
      · simp only [h1, h2, if_false]
        have : ¬ (v = .nil ∧ a.nullable = true) := h2
        simp [this]
  | none =>
    simp only []
    cases hr : t.rels.get? k with
    | none => simp
    | some r =>
      simp only []
      split
      · by_cases hto : r.toOne = true <;> simp [hto]
      · by_cases hto : r.toOne = true <;> simp [hto]
      · rename_i hx1 hx2
        split
        · exact absurd rfl (hx1 _)
        · exact absurd rfl (hx2 _)
        · simp

theorem Soft.addAttr_eq {t : Typ} (ht : TypKeyed t) (id : GoString) (d : GoMap GoVal) (a : Attr) :
    ({ typ := t, id := id, data := d } : Soft).addAttr a =
      { typ := if isField t a.name = true then t else { t with attrs := t.attrs.set a.name a },
        id := id, data := Soft.checkData t d } := by
  unfold Soft.addAttr
  simp only [Soft.check, Soft.contains_fields ht]
  split <;> rfl

theorem Soft.addRel_eq {t : Typ} (ht : TypKeyed t) (id : GoString) (d : GoMap GoVal) (r : Rel) :
    ({ typ := t, id := id, data := d } : Soft).addRel r =
      { typ := if isField t r.fromName = true then t else { t with rels := t.rels.set r.fromName r },
        id := id, data := Soft.checkData t d } := by
  unfold Soft.addRel
  simp only [Soft.check, Soft.contains_fields ht]
  split <;> rfl

theorem Spec.accepts_isField {t : Typ} {f : GoString} {v : GoVal} (h : accepts t f v = true) :
    isField t f = true := by
  unfold Spec.accepts at h
  cases ha : t.attrs.get? f with
  | some a => exact isField_of_attr ha
  | none =>
    cases hr : t.rels.get? f with
    | some r => exact isField_of_rel hr
    | none => simp [ha, hr] at h

/-! ### `Add`: the resource under construction against the accumulated row -/

structure AddInv (id : GoString) (s : Soft) (acc : Typ × GoMap GoVal) : Prop where
  typ : s.typ = acc.1
  id : s.id = id
  keyed : TypKeyed acc.1
  inv : RowInv acc.1 s.data acc.2

theorem AddInv.setStep {id sid : GoString} {t : Typ} {d vals : GoMap GoVal}
    (hid : sid = id) (ht : TypKeyed t) (h : RowInv t d vals)
    (k : GoString) (v : GoVal) (hk : k ≠ idName) :
    AddInv id (({ typ := t, id := sid, data := d } : Soft).set k v)
      (t, if accepts t k v = true then vals.set k (stored t k v) else vals) := by
  rw [Soft.set_eq t sid d k v hk]
  refine ⟨rfl, hid, ht, ?_⟩
  simp only []
  split
  · rename_i hacc; exact (h.check ht).set (accepts_isField hacc) _
  · exact h.check ht

theorem AddInv.attrStep {id : GoString} {s : Soft} {acc : Typ × GoMap GoVal} (h : AddInv id s acc)
    (a : Attr) (v : GoVal) (hk : a.name ≠ idName) :
    AddInv id ((s.addAttr a).set a.name v) (addAttrField v acc a) ∧
      Ext acc.1 (addAttrField v acc a).1 := by
  obtain ⟨t, sid, d⟩ := s
  obtain ⟨t', vals⟩ := acc
  obtain ⟨h1, h2, h3, h4⟩ := h
  simp only [] at h1 h2 h3 h4
  subst h1
  have hc := h4.check h3
  unfold addAttrField
  rw [Soft.addAttr_eq h3]
  by_cases hf : isField t a.name = true
  · simp only [hf, if_true]
    exact ⟨AddInv.setStep h2 h3 hc a.name v hk, Ext.refl _⟩
  · have hf' : isField t a.name = false := by simpa using hf
    simp only [hf', Bool.false_eq_true, if_false]
    have he : Ext t { t with attrs := t.attrs.set a.name a } := Ext.setAttr hf'
    exact ⟨AddInv.setStep h2 (h3.setAttr hf') (hc.ext he) a.name v hk, he⟩

theorem AddInv.relStep {id : GoString} {s : Soft} {acc : Typ × GoMap GoVal} (h : AddInv id s acc)
    (r : Rel) (v : GoVal) (hk : r.fromName ≠ idName) :
    AddInv id ((s.addRel r).set r.fromName v) (addRelField v acc r) ∧
      Ext acc.1 (addRelField v acc r).1 := by
  obtain ⟨t, sid, d⟩ := s
  obtain ⟨t', vals⟩ := acc
  obtain ⟨h1, h2, h3, h4⟩ := h
  simp only [] at h1 h2 h3 h4
  subst h1
  have hc := h4.check h3
  unfold addRelField
  rw [Soft.addRel_eq h3]
  by_cases hf : isField t r.fromName = true
  · simp only [hf, if_true]
    exact ⟨AddInv.setStep h2 h3 hc r.fromName v hk, Ext.refl _⟩
  · have hf' : isField t r.fromName = false := by simpa using hf
    simp only [hf', Bool.false_eq_true, if_false]
    have he : Ext t { t with rels := t.rels.set r.fromName r } := Ext.setRel hf'
    exact ⟨AddInv.setStep h2 (h3.setRel hf') (hc.ext he) r.fromName v hk, he⟩


theorem AddInv.attrFold (r : ResView) (id : GoString) :
    ∀ (l : GoMap Attr) (s : Soft) (acc : Typ × GoMap GoVal), AddInv id s acc →
      (∀ p ∈ l, p.2.name ≠ idName) →
      AddInv id (l.foldl (fun (s : Soft) p => (s.addAttr p.2).set p.2.name (r.get p.2.name)) s)
        (l.foldl (fun acc p => addAttrField (r.get p.2.name) acc p.2) acc) ∧
      Ext acc.1 (l.foldl (fun acc p => addAttrField (r.get p.2.name) acc p.2) acc).1 := by
  intro l
  induction l with
  | nil => intro s acc h _; exact ⟨h, Ext.refl _⟩
  | cons p l ih =>
    intro s acc h hl
    obtain ⟨h1, e1⟩ := h.attrStep p.2 (r.get p.2.name) (hl p List.mem_cons_self)
    obtain ⟨h2, e2⟩ := ih _ _ h1 (fun q hq => hl q (List.mem_cons_of_mem _ hq))
    exact ⟨h2, e1.trans e2⟩

/-- `Add`'s treatment of one relationship in the model (the body of its second loop). -/
def SColl.relStepM (r : ResView) (acc : Res Soft) (p : GoString × Rel) : Res Soft :=
  match acc with
  | .ok s =>
    let s' := s.addRel p.2
    (match r.get p.2.fromName with
      | .val .string (.s id) => if p.2.toOne then .ok (s'.set p.2.fromName (.val .string (.s id))) else .panic
      | .strs l => if p.2.toOne then .panic else .ok (s'.set p.2.fromName (.strs l))
      | _ => .panic)
  | e => e

theorem SColl.add_eq (c : SColl) (r : ResView) :
    c.add r =
      match r.rels.foldl (SColl.relStepM r)
          (.ok (r.attrs.foldl (fun (s : Soft) p => (s.addAttr p.2).set p.2.name (r.get p.2.name))
            { typ := c.typ, id := r.id, data := [] })) with
      | .ok s => .ok { typ := s.typ, col := c.col ++ [(s.id, s.data)] }
      | .err => .err
      | .panic => .panic := rfl

theorem SColl.relStepM_ok (r : ResView) (s : Soft) (p : GoString × Rel)
    (h : relValOk r p.2 = true) :
    SColl.relStepM r (.ok s) p = .ok ((s.addRel p.2).set p.2.fromName (r.get p.2.fromName)) := by
  unfold relValOk at h
  unfold SColl.relStepM
  simp only []
  split at h
  · rename_i heq; rw [heq]; simp [h]
  · rename_i heq; rw [heq]; simp only [Bool.not_eq_true'] at h; simp [h]
  · cases h

theorem AddInv.relFold (r : ResView) (id : GoString) :
    ∀ (l : GoMap Rel) (s : Soft) (acc : Typ × GoMap GoVal), AddInv id s acc →
      (∀ p ∈ l, p.2.fromName ≠ idName ∧ relValOk r p.2 = true) →
      ∃ s', l.foldl (SColl.relStepM r) (.ok s) = .ok s' ∧
        AddInv id s' (l.foldl (fun acc p => addRelField (r.get p.2.fromName) acc p.2) acc) ∧
        Ext acc.1 (l.foldl (fun acc p => addRelField (r.get p.2.fromName) acc p.2) acc).1 := by
  intro l
  induction l with
  | nil => intro s acc h _; exact ⟨s, rfl, h, Ext.refl _⟩
  | cons p l ih =>
    intro s acc h hl
    obtain ⟨hn, hv⟩ := hl p List.mem_cons_self
    obtain ⟨h1, e1⟩ := h.relStep p.2 (r.get p.2.fromName) hn
    obtain ⟨s', hs', h2, e2⟩ := ih _ _ h1 (fun q hq => hl q (List.mem_cons_of_mem _ hq))
    refine ⟨s', ?_, h2, e1.trans e2⟩
    rw [List.foldl_cons, SColl.relStepM_ok r s p hv]
    exact hs'

/-! ### Pointwise related lists -/

namespace Forall2
variable {α β : Type} {R : α → β → Prop}

theorem imp {R' : α → β → Prop} (himp : ∀ a b, R a b → R' a b) {l₁ : List α} {l₂ : List β}
    (h : Forall2 R l₁ l₂) : Forall2 R' l₁ l₂ := by
  induction h with
  | nil => exact .nil
  | cons hab _ ih => exact .cons (himp _ _ hab) ih

theorem append {l₁ l₁' : List α} {l₂ l₂' : List β} (h : Forall2 R l₁ l₂) (h' : Forall2 R l₁' l₂') :
    Forall2 R (l₁ ++ l₁') (l₂ ++ l₂') := by
  induction h with
  | nil => exact h'
  | cons hab _ ih => exact .cons hab ih

theorem length_eq {l₁ : List α} {l₂ : List β} (h : Forall2 R l₁ l₂) : l₁.length = l₂.length := by
  induction h with
  | nil => rfl
  | cons _ _ ih => simp [ih]

theorem map {γ δ : Type} {R' : γ → δ → Prop} (f : α → γ) (g : β → δ)
    (hfg : ∀ a b, R a b → R' (f a) (g b)) {l₁ : List α} {l₂ : List β} (h : Forall2 R l₁ l₂) :
    Forall2 R' (l₁.map f) (l₂.map g) := by
  induction h with
  | nil => exact .nil
  | cons hab _ ih => exact .cons (hfg _ _ hab) ih

/-- The same index holds related elements. -/
theorem getElem? {l₁ : List α} {l₂ : List β} (h : Forall2 R l₁ l₂) (i : Nat) :
    match l₁[i]?, l₂[i]? with
    | some a, some b => R a b
    | none, none => True
    | _, _ => False := by
  induction h generalizing i with
  | nil => simp
  | cons hab _ ih =>
    cases i with
    | zero => simpa using hab
    | succ i => simpa using ih i

theorem eraseFirst {p : α → Bool} {q : β → Bool} (hpq : ∀ a b, R a b → p a = q b)
    {l₁ : List α} {l₂ : List β} (h : Forall2 R l₁ l₂) :
    Forall2 R (Schema.eraseFirst p l₁) (Schema.eraseFirst q l₂) := by
  induction h with
  | nil => exact .nil
  | cons hab hrest ih =>
    unfold Schema.eraseFirst
    rw [hpq _ _ hab]
    split
    · exact hrest
    · exact .cons hab ih

/-- The first match is at the same position. -/
theorem find? {p : α → Bool} {q : β → Bool} (hpq : ∀ a b, R a b → p a = q b)
    {l₁ : List α} {l₂ : List β} (h : Forall2 R l₁ l₂) :
    match l₁.find? p, l₂.find? q with
    | some a, some b => R a b
    | none, none => True
    | _, _ => False := by
  induction h with
  | nil => simp
  | @cons a b _ _ hab _ ih =>
    rw [List.find?_cons, List.find?_cons, hpq _ _ hab]
    by_cases hq : q b = true
    · simp only [hq]; exact hab
    · simp only [Bool.not_eq_true] at hq
      simp only [hq]; exact ih

end Forall2

/-! ### One step of the simulation -/

theorem RowAbs.of_inv {t : Typ} (ht : TypKeyed t) {m : GoString × GoMap GoVal} {row : Spec.Row}
    (hid : m.1 = row.id) (h : RowInv t m.2 row.vals) : RowAbs t m row := by
  obtain ⟨i, d⟩ := m
  obtain ⟨ri, rv⟩ := row
  simp only [] at hid h
  subst hid
  exact RowAbs.mk' ht _ h

theorem RowAbs.ext {t t' : Typ} {m : GoString × GoMap GoVal} {row : Spec.Row}
    (h : RowAbs t m row) (he : Ext t t') (ht' : TypKeyed t') : RowAbs t' m row :=
  RowAbs.of_inv ht' h.id (h.inv.ext he)

theorem Compat.fieldZero {t t' : Typ} (h : Compat t t') {f : GoString} (hf : isField t f = true)
    (hf' : isField t' f = true) : fieldZero t' f = fieldZero t f := by
  have hm : f ∈ t.attrs.keys ++ t.rels.keys := List.mem_append.2 ((isField_iff t f).1 hf)
  obtain ⟨h1, h2⟩ := h f hm hf'
  unfold Spec.fieldZero; rw [h1, h2]

/-- Growing the type (compatibly) keeps every stored row. -/
theorem Abs.ext {c : SColl} {σ : Spec.Store} (h : Abs c σ) {t' : Typ} (he : Ext c.typ t')
    (ht' : TypKeyed t') : Abs { c with typ := t' } { σ with typ := t' } :=
  ⟨rfl, ht', h.rows.imp (fun _ _ hr => hr.ext he ht')⟩

theorem Abs.add {c : SColl} {σ : Spec.Store} (h : Abs c σ) {r : ResView} (hr : ViewWF r) :
    ∃ c', c.add r = .ok c' ∧ Abs c' (σ.add r) := by
  obtain ⟨hA, hR⟩ := hr
  have h0 : AddInv r.id { typ := c.typ, id := r.id, data := [] } (σ.typ, []) :=
    ⟨h.typ, rfl, h.typ ▸ h.keyed, RowInv.nil _⟩
  obtain ⟨h1, e1⟩ := AddInv.attrFold r r.id r.attrs _ _ h0 hA
  obtain ⟨s', hs', h2, e2⟩ := AddInv.relFold r r.id r.rels _ _ h1 hR
  have he : Ext c.typ s'.typ := by
    rw [h2.typ, h.typ]; exact e1.trans e2
  have hk : TypKeyed s'.typ := h2.typ ▸ h2.keyed
  refine ⟨{ typ := s'.typ, col := c.col ++ [(s'.id, s'.data)] }, ?_, ?_⟩
  · rw [SColl.add_eq, hs']
  · refine ⟨h2.typ, hk, ?_⟩
    unfold Spec.Store.add Spec.addFields
    apply Forall2.append
    · exact h.rows.imp (fun _ _ hr => hr.ext he hk)
    · refine .cons ?_ .nil
      exact RowAbs.of_inv hk h2.id (by rw [h2.typ]; exact h2.inv)

theorem Abs.remove {c : SColl} {σ : Spec.Store} (h : Abs c σ) (id : GoString) :
    Abs (c.remove id) (σ.remove id) :=
  ⟨h.typ, h.keyed, h.rows.eraseFirst (fun _ _ hr => by simp only [hr.id])⟩

theorem Abs.addAttr {c : SColl} {σ : Spec.Store} (h : Abs c σ) (a : Attr) :
    Abs (c.addAttr a).1 (σ.addAttr a) := by
  have hc : (c.addAttr a).1 = { c with typ := (c.typ.addAttr a).1 } := rfl
  rw [hc]
  unfold Spec.Store.addAttr
  rw [← h.typ]
  rcases Typ.addAttr_cases h.keyed a with ⟨e, _⟩ | ⟨hn, e⟩
  · rw [e]; exact ⟨rfl, h.keyed, h.rows⟩
  · rw [e]; exact h.ext (Ext.setAttr hn) (h.keyed.setAttr hn)

theorem Abs.addRel {c : SColl} {σ : Spec.Store} (h : Abs c σ) (r : Rel) :
    Abs (c.addRel r).1 (σ.addRel r) := by
  have hc : (c.addRel r).1 = { c with typ := (c.typ.addRel r).1 } := rfl
  rw [hc]
  unfold Spec.Store.addRel
  rw [← h.typ]
  rcases Typ.addRel_cases h.keyed r with ⟨e, _⟩ | ⟨hn, e⟩
  · rw [e]; exact ⟨rfl, h.keyed, h.rows⟩
  · rw [e]; exact h.ext (Ext.setRel hn) (h.keyed.setRel hn)

theorem Abs.setType {c : SColl} {σ : Spec.Store} (h : Abs c σ) {t' : Typ} (ht' : TypKeyed t')
    (hc : Compat c.typ t') : Abs (c.setType t') (σ.setType t') := by
  refine ⟨rfl, ht', ?_⟩
  unfold SColl.setType Spec.Store.setType
  apply Forall2.map _ _ _ h.rows
  intro m row hr
  show RowAbs t' (m.1, Soft.checkData t' m.2)
    { id := row.id, vals := row.vals.filter (fun p => isField t' p.1) }
  refine RowAbs.of_inv ht' hr.id ?_
  exact hr.inv.recheck ht' (fun f hf hf' => hc.fieldZero hf hf')
    (fun f => GoMap.get?_filter (fun k => isField t' k) row.vals f)

theorem Abs.step {c : SColl} {σ : Spec.Store} (h : Abs c σ) {op : ColOp} (hop : op.ok σ.typ) :
    ∃ c', colStep c op = .ok c' ∧ Abs c' (σ.step op) := by
  cases op with
  | add r => exact h.add hop
  | remove id => exact ⟨_, rfl, h.remove id⟩
  | addAttr a => exact ⟨_, rfl, h.addAttr a⟩
  | addRel r => exact ⟨_, rfl, h.addRel r⟩
  | setType t' => exact ⟨_, rfl, h.setType hop.1 (h.typ ▸ hop.2)⟩

theorem Abs.run {ops : List ColOp} : ∀ {c : SColl} {σ : Spec.Store}, Abs c σ → HistOk σ ops →
    ∃ c', colRun c ops = .ok c' ∧ Abs c' (σ.run ops) := by
  induction ops with
  | nil => intro c σ h _; exact ⟨c, rfl, h⟩
  | cons op ops ih =>
    intro c σ h hok
    obtain ⟨c1, hs, h1⟩ := h.step hok.1
    obtain ⟨c2, hr, h2⟩ := ih h1 hok.2
    refine ⟨c2, ?_, h2⟩
    unfold colRun; rw [hs]; exact hr


/-! ### For the corollaries -/

theorem Forall2.of_mem_left {α β : Type} {R : α → β → Prop} {l₁ : List α} {l₂ : List β}
    (h : Forall2 R l₁ l₂) {a : α} (ha : a ∈ l₁) : ∃ b ∈ l₂, R a b := by
  induction h with
  | nil => cases ha
  | cons hab _ ih =>
    rcases List.mem_cons.1 ha with e | ha
    · subst e; exact ⟨_, List.mem_cons_self, hab⟩
    · obtain ⟨b, hb, hr⟩ := ih ha; exact ⟨b, List.mem_cons_of_mem _ hb, hr⟩

theorem Forall2.of_mem_right {α β : Type} {R : α → β → Prop} {l₁ : List α} {l₂ : List β}
    (h : Forall2 R l₁ l₂) {b : β} (hb : b ∈ l₂) : ∃ a ∈ l₁, R a b := by
  induction h with
  | nil => cases hb
  | cons hab _ ih =>
    rcases List.mem_cons.1 hb with e | hb
    · subst e; exact ⟨_, List.mem_cons_self, hab⟩
    · obtain ⟨a, ha, hr⟩ := ih hb; exact ⟨a, List.mem_cons_of_mem _ ha, hr⟩

theorem Schema.eraseFirst_hit {α : Type} (p : α → Bool) (pre : List α) (x : α) (post : List α)
    (hx : p x = true) (hpre : ∀ y ∈ pre, p y = false) :
    Schema.eraseFirst p (pre ++ x :: post) = pre ++ post := by
  induction pre with
  | nil => simp [Schema.eraseFirst, hx]
  | cons y pre ih =>
    have hy : p y = false := hpre y List.mem_cons_self
    simp only [List.cons_append, Schema.eraseFirst, hy, Bool.false_eq_true, if_false]
    rw [ih (fun z hz => hpre z (List.mem_cons_of_mem _ hz))]

theorem Schema.eraseFirst_miss {α : Type} (p : α → Bool) (l : List α)
    (h : ∀ y ∈ l, p y = false) : Schema.eraseFirst p l = l := by
  induction l with
  | nil => rfl
  | cons y l ih =>
    have hy : p y = false := h y List.mem_cons_self
    simp only [Schema.eraseFirst, hy, Bool.false_eq_true, if_false]
    rw [ih (fun z hz => h z (List.mem_cons_of_mem _ hz))]

theorem Schema.eraseFirst_sub {α : Type} (p : α → Bool) (l : List α) :
    (Schema.eraseFirst p l).Sublist l := by
  induction l with
  | nil => exact List.Sublist.refl _
  | cons x xs ih =>
    unfold Schema.eraseFirst; split
    · exact List.sublist_cons_self _ _
    · exact ih.cons_cons _

/-- A name that was no field when the resource was last touched reads as the zero value
of its (new) definition. -/
theorem RowAbs.get_new_field {t t' : Typ} {m : GoString × GoMap GoVal} {row : Spec.Row}
    (h : RowAbs t m row) (ht' : TypKeyed t') {f : GoString} (hf : isField t f = false)
    (hf' : isField t' f = true) (hid : f ≠ idName) :
    ({ typ := t', id := m.1, data := m.2 } : Soft).get f = fieldZero t' f := by
  rw [Soft.get_eq ht']
  simp only [hid, if_false, hf', if_true]
  cases hd : m.2.get? f with
  | none => rfl
  | some v =>
    have := h.inv.dField f (has_of_get? hd)
    rw [hf] at this; cases this

theorem Spec.fieldZero_setAttr {t : Typ} (a : Attr) :
    fieldZero { t with attrs := t.attrs.set a.name a } a.name = a.zero := by
  unfold Spec.fieldZero; simp only [get?_set_self]

theorem Spec.fieldZero_setRel {t : Typ} (r : Rel) (hn : isField t r.fromName = false) :
    fieldZero { t with rels := t.rels.set r.fromName r } r.fromName = r.zero := by
  unfold Spec.fieldZero
  simp only [get?_set_self, (isField_false_get? hn).1]

theorem Spec.isField_setAttr {t : Typ} (a : Attr) :
    isField { t with attrs := t.attrs.set a.name a } a.name = true :=
  isField_of_attr (get?_set_self _ _ _)

theorem Spec.isField_setRel {t : Typ} (r : Rel) :
    isField { t with rels := t.rels.set r.fromName r } r.fromName = true :=
  isField_of_rel (get?_set_self _ _ _)

end Jsonapi
