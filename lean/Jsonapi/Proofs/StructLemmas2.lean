/-
Helper lemmas for C20, part 2: the Wrapper methods (Get, Set, SetID, New, Copy) on a wrapped
value of an accepted struct, and the well-typedness invariant they preserve.
-/
import Jsonapi.Proofs.StructLemmas
namespace Jsonapi

/-! ### Definitions used in the statement of C20 -/

/-- The value exists in Go: the payload has the shape and range of its kind. -/
def GoVal.wellFormed : GoVal → Bool
  | .val k p => k.payOk p
  | .ptr k (some p) => k.payOk p
  | _ => true

/-- What `getField` returns for a stored field value: nil pointers read as untyped nil. -/
def GoVal.read : GoVal → GoVal
  | .ptr _ none => .nil
  | v => v

/-- Go guarantees that a struct has at most one field named `ID` (field names are unique,
blank `_` fields aside). -/
def SingleID (d : StructDecl) : Prop :=
  ∀ f ∈ d, ∀ g ∈ d, f.name = sID → g.name = sID → f = g

/-- Well-typedness of a wrapped struct value: one value per field, each of the field's Go
type (and a real value of that type); the ID field may instead hold the string that SetID
stored (the model keeps a named string type opaque). -/
def Wrapped.WT (w : Wrapped) : Prop :=
  w.vals.length = w.decl.length ∧
  ∀ (i : Nat) (f : SField) (v : GoVal), w.decl[i]? = some f → w.vals[i]? = some v →
    (f.ty.accepts v = true ∧ v.wellFormed = true) ∨
    (f.name = sID ∧ ∃ id, v = .val .string (.s id))

/-- The wrapper of struct `d` holding the field values `vals`. -/
def mkW (d : StructDecl) (vals : List GoVal) : Wrapped :=
  { decl := d, vals := vals, typ := structTypeName d, attrs := structAttrs d, rels := relsOf d }

@[simp] theorem mkW_decl (d : StructDecl) (vals : List GoVal) : (mkW d vals).decl = d := rfl
@[simp] theorem mkW_vals (d : StructDecl) (vals : List GoVal) : (mkW d vals).vals = vals := rfl
@[simp] theorem mkW_attrs (d : StructDecl) (vals : List GoVal) :
    (mkW d vals).attrs = structAttrs d := rfl
@[simp] theorem mkW_rels (d : StructDecl) (vals : List GoVal) : (mkW d vals).rels = relsOf d := rfl

theorem wrap_mkW {d : StructDecl} (h : checkStruct d = true) (vals : List GoVal) :
    wrap d vals = .ok (mkW d vals) := wrap_ok h vals

theorem eq_mkW_of_wrap {d : StructDecl} (h : checkStruct d = true) {vals : List GoVal}
    {w : Wrapped} (hw : wrap d vals = .ok w) : w = mkW d vals := by
  rw [wrap_mkW h, Res.ok.injEq] at hw
  exact hw.symm

/-! ### Values and types -/

theorem GoTy.zero_ok (t : GoTy) : t.accepts t.zero = true ∧ t.zero.wellFormed = true := by
  cases t with
  | attr k n => cases k <;> cases n <;> exact ⟨by decide, by decide⟩
  | strs => exact ⟨rfl, rfl⟩
  | other n sk => exact ⟨by simp [GoTy.zero, GoTy.accepts], rfl⟩

theorem GoTy.accepts_nil (t : GoTy) : t.accepts .nil = false := by
  cases t with
  | attr k n => cases n <;> rfl
  | strs => rfl
  | other n sk => rfl

theorem GoTy.accepts_string {v : GoVal} (h : (GoTy.attr .string false).accepts v = true)
    (hw : v.wellFormed = true) : ∃ id, v = .val .string (.s id) := by
  cases v with
  | val k p =>
    simp only [GoTy.accepts, decide_eq_true_eq] at h
    subst h
    cases p with
    | s id => exact ⟨id, rfl⟩
    | i _ => simp [GoVal.wellFormed, Kind.payOk, Kind.range?] at hw
    | b _ => simp [GoVal.wellFormed, Kind.payOk] at hw
    | t _ => simp [GoVal.wellFormed, Kind.payOk] at hw
    | bs _ => simp [GoVal.wellFormed, Kind.payOk] at hw
  | ptr k p => simp [GoTy.accepts] at h
  | strs l => simp [GoTy.accepts] at h
  | nil => simp [GoTy.accepts] at h
  | other n => simp [GoTy.accepts] at h

theorem GoTy.accepts_strs {v : GoVal} (h : GoTy.strs.accepts v = true) : ∃ l, v = .strs l := by
  cases v with
  | strs l => exact ⟨l, rfl⟩
  | val k p => simp [GoTy.accepts] at h
  | ptr k p => simp [GoTy.accepts] at h
  | nil => simp [GoTy.accepts] at h
  | other n => simp [GoTy.accepts] at h

theorem GoVal.read_cases (v : GoVal) : (v.read = .nil ∧ ∃ k, v = .ptr k none) ∨ v.read = v := by
  cases v with
  | ptr k p => cases p with
    | none => exact Or.inl ⟨rfl, k, rfl⟩
    | some p => exact Or.inr rfl
  | val k p => exact Or.inr rfl
  | strs l => exact Or.inr rfl
  | nil => exact Or.inr rfl
  | other n => exact Or.inr rfl

/-! ### Locating fields -/

theorem find?_findIdx? {α : Type} {p : α → Bool} {l : List α} {a : α} (h : l.find? p = some a) :
    ∃ i, l.findIdx? p = some i ∧ l[i]? = some a := by
  induction l with
  | nil => simp at h
  | cons x l ih =>
    rw [List.findIdx?_cons]
    rw [List.find?_cons] at h
    by_cases hp : p x = true
    · simp only [hp] at h
      exact ⟨0, by simp [hp], by simpa using h⟩
    · simp only [hp] at h
      obtain ⟨i, hi, ha⟩ := ih h
      exact ⟨i + 1, by simp [hp, hi], by simpa using ha⟩

/-- The ID field: its index, found by `FieldByName("ID")`. -/
theorem CheckFacts.idIdx {d : StructDecl} (c : CheckFacts d) :
    ∃ i idf, d.findIdx? (fun f => f.name = sID) = some i ∧ d[i]? = some idf ∧
      idf.name = sID ∧ idf.ty.isStringKind = true := by
  obtain ⟨idf, hf, hk, _⟩ := c.idf
  obtain ⟨i, hi, ha⟩ := find?_findIdx? hf
  exact ⟨i, idf, hi, ha, by simpa using List.find?_some hf, hk⟩

/-- With a single ID field, attribute and relationship fields are not named ID. -/
theorem CheckFacts.field_not_ID {d : StructDecl} (c : CheckFacts d) (hs : SingleID d)
    {f : SField} (hf : f ∈ d) (hfld : f.isAttr = true ∨ f.isRelTagged = true) :
    f.name ≠ sID := by
  intro hn
  obtain ⟨idf, hfi, _, _, ha, hr⟩ := c.idf
  have hm := List.mem_of_find?_eq_some hfi
  have hi : idf.name = sID := by simpa using List.find?_some hfi
  have := hs f hf idf hm hn hi
  subst this
  rcases hfld with h | h
  · rw [ha] at h; exact absurd h (by simp)
  · rw [hr] at h; exact absurd h (by simp)

/-- getField / setField reach a declared field through its json name. -/
theorem CheckFacts.fieldIdx {d : StructDecl} (c : CheckFacts d) {i : Nat} {f : SField}
    (hi : d[i]? = some f) (hne : f.name ≠ sID)
    (hfld : f.isAttr = true ∨ f.isRelTagged = true) :
    d.findIdx? (fun g => g.json = f.json && g.api ≠ []) = some i := by
  obtain ⟨hlt, hfi⟩ := List.getElem?_eq_some_iff.1 hi
  have hf : f ∈ d := List.mem_of_getElem? hi
  have hapi : f.api ≠ [] := by
    rcases hfld with h | h
    · exact SField.isAttr_api_ne h
    · exact SField.isRelTagged_api_ne h
  have hj := (c.json_ok hf hne hfld).1
  rw [List.findIdx?_eq_some_iff_getElem]
  refine ⟨hlt, by simp [hfi, hapi], ?_⟩
  intro j hji hp
  simp only [Bool.and_eq_true, decide_eq_true_eq, ne_eq] at hp
  have := (List.pairwise_iff_getElem.1 c.uniq) j i (by omega) hlt hji hp.2
    (by rw [hfi]; exact hapi) (by rw [hp.1]; exact hj)
  rw [hfi] at this
  exact this hp.1

/-! ### Get and Set on a wrapped accepted struct -/

section ops
variable {d : StructDecl} {vals : List GoVal} {i : Nat} {f : SField}

theorem get_mkW (c : CheckFacts d) (hi : d[i]? = some f) (hne : f.name ≠ sID)
    (hfld : f.isAttr = true ∨ f.isRelTagged = true) {v : GoVal} (hv : vals[i]? = some v) :
    (mkW d vals).get f.json = .ok v.read := by
  have hj := c.json_ok (List.mem_of_getElem? hi) hne hfld
  unfold Wrapped.get
  rw [if_neg hj.2]
  unfold Wrapped.getField Wrapped.fieldIdx
  rw [if_neg hj.1]
  simp only [mkW_decl, mkW_vals, c.fieldIdx hi hne hfld, hv]
  cases v with
  | ptr k p => cases p <;> rfl
  | val k p => rfl
  | strs l => rfl
  | nil => rfl
  | other n => rfl

theorem set_mkW (c : CheckFacts d) (hi : d[i]? = some f) (hne : f.name ≠ sID)
    (hfld : f.isAttr = true ∨ f.isRelTagged = true) {u : GoVal} (hu : f.ty.accepts u = true) :
    (mkW d vals).set f.json u = .ok (mkW d (vals.set i u)) := by
  have hj := c.json_ok (List.mem_of_getElem? hi) hne hfld
  have hnil : u ≠ .nil := by
    intro e; rw [e, GoTy.accepts_nil] at hu; exact absurd hu (by simp)
  unfold Wrapped.set
  rw [if_neg hj.2]
  unfold Wrapped.setField Wrapped.fieldIdx
  rw [if_neg hj.1]
  simp only [mkW_decl, c.fieldIdx hi hne hfld, hi, if_neg hnil, hu, if_true]
  rfl

theorem set_nil_mkW (c : CheckFacts d) (hi : d[i]? = some f) (hne : f.name ≠ sID)
    (hfld : f.isAttr = true ∨ f.isRelTagged = true) :
    (mkW d vals).set f.json .nil = .ok (mkW d (vals.set i f.ty.zero)) := by
  have hj := c.json_ok (List.mem_of_getElem? hi) hne hfld
  unfold Wrapped.set
  rw [if_neg hj.2]
  unfold Wrapped.setField Wrapped.fieldIdx
  rw [if_neg hj.1]
  simp only [mkW_decl, c.fieldIdx hi hne hfld, hi, if_true]
  rfl

theorem WT_set (h : (mkW d vals).WT) (hi : d[i]? = some f) {u : GoVal}
    (hu : (f.ty.accepts u = true ∧ u.wellFormed = true) ∨
          (f.name = sID ∧ ∃ id, u = .val .string (.s id))) :
    (mkW d (vals.set i u)).WT := by
  refine ⟨by simpa using h.1, ?_⟩
  intro j g v hj hv
  simp only [mkW_decl] at hj
  simp only [mkW_vals, List.getElem?_set] at hv
  split at hv
  · rename_i e
    subst e
    split at hv
    · rw [hi, Option.some.injEq] at hj
      rw [Option.some.injEq] at hv
      subst hj; subst hv; exact hu
    · exact absurd hv (by simp)
  · exact h.2 j g v hj hv

theorem WT_zero (d : StructDecl) : (mkW d (Wrapped.zeroVals d)).WT := by
  refine ⟨by simp [Wrapped.zeroVals], ?_⟩
  intro j g v hj hv
  simp only [mkW_decl] at hj
  simp only [mkW_vals, Wrapped.zeroVals, List.getElem?_map, hj, Option.map_some,
    Option.some.injEq] at hv
  subst hv
  exact Or.inl g.ty.zero_ok

/-- Under WT every declared field holds a value. -/
theorem WT_val (h : (mkW d vals).WT) (hi : d[i]? = some f) : ∃ v, vals[i]? = some v := by
  obtain ⟨hlt, _⟩ := List.getElem?_eq_some_iff.1 hi
  have : i < vals.length := by have := h.1; simp only [mkW_decl, mkW_vals] at this; omega
  exact ⟨vals[i], List.getElem?_eq_getElem this⟩

theorem getID_set (hi : d[i]? = some f) (hne : f.name ≠ sID) (u : GoVal) :
    (mkW d (vals.set i u)).getID = (mkW d vals).getID := by
  unfold Wrapped.getID
  simp only [mkW_decl, mkW_vals]
  cases hx : d.findIdx? (fun f => decide (f.name = sID)) with
  | none => rfl
  | some j =>
    have hji : i ≠ j := by
      intro e
      subst e
      obtain ⟨hlt, hp, _⟩ := List.findIdx?_eq_some_iff_getElem.1 hx
      obtain ⟨_, hfi⟩ := List.getElem?_eq_some_iff.1 hi
      rw [hfi] at hp
      exact hne (by simpa using hp)
    simp only [List.getElem?_set_ne hji]

/-- Setting one field leaves every other name unchanged. -/
theorem get_set_other (hi : d[i]? = some f) (hne : f.name ≠ sID) (u : GoVal)
    {key : GoString} (hk : key ≠ f.json) :
    (mkW d (vals.set i u)).get key = (mkW d vals).get key := by
  unfold Wrapped.get
  split
  · rw [getID_set hi hne]
  · unfold Wrapped.getField Wrapped.fieldIdx
    split
    · rfl
    · simp only [mkW_decl, mkW_vals]
      cases hx : d.findIdx? (fun g => decide (g.json = key) && decide (g.api ≠ [])) with
      | none => rfl
      | some j =>
        have hji : i ≠ j := by
          intro e
          subst e
          obtain ⟨hlt, hp, _⟩ := List.findIdx?_eq_some_iff_getElem.1 hx
          obtain ⟨_, hfi⟩ := List.getElem?_eq_some_iff.1 hi
          rw [hfi] at hp
          simp only [Bool.and_eq_true, decide_eq_true_eq] at hp
          exact hk hp.1.symm
        simp only [List.getElem?_set_ne hji]

theorem setID_mkW (c : CheckFacts d) :
    ∃ i idf, d[i]? = some idf ∧ idf.name = sID ∧
      (∀ vals id, (mkW d vals).setID id = .ok (mkW d (vals.set i (.val .string (.s id))))) ∧
      (∀ (vals : List GoVal) id, i < vals.length → (mkW d (vals.set i (.val .string (.s id)))).getID = id) := by
  obtain ⟨i, idf, hx, hi, hn, hk⟩ := c.idIdx
  refine ⟨i, idf, hi, hn, ?_, ?_⟩
  · intro vals id
    unfold Wrapped.setID
    simp only [mkW_decl, hx, hi, hk, if_true]
    rfl
  · intro vals id hlt
    unfold Wrapped.getID
    simp [hx, hlt]

/-- Writing back what was read from a well-typed field succeeds. -/
theorem set_read_mkW (c : CheckFacts d) (h : (mkW d vals).WT) (hi : d[i]? = some f)
    (hne : f.name ≠ sID) (hfld : f.isAttr = true ∨ f.isRelTagged = true) {v : GoVal}
    (hv : f.ty.accepts v = true) (hw : v.wellFormed = true) :
    ∃ vs, (mkW d vals).set f.json v.read = .ok (mkW d vs) ∧ (mkW d vs).WT := by
  rcases v.read_cases with ⟨hr, _⟩ | hr
  · rw [hr]
    exact ⟨_, set_nil_mkW c hi hne hfld, WT_set h hi (Or.inl f.ty.zero_ok)⟩
  · rw [hr]
    exact ⟨_, set_mkW c hi hne hfld hv, WT_set h hi (Or.inl ⟨hv, hw⟩)⟩

/-- A declared field of a well-typed wrapper: its index, its value, and what Get returns. -/
theorem field_get (c : CheckFacts d) (h : (mkW d vals).WT) (hf : f ∈ d) (hne : f.name ≠ sID)
    (hfld : f.isAttr = true ∨ f.isRelTagged = true) :
    ∃ (i : Nat) (v : GoVal), d[i]? = some f ∧ vals[i]? = some v ∧ f.ty.accepts v = true ∧
      v.wellFormed = true ∧ (mkW d vals).get f.json = .ok v.read := by
  obtain ⟨i, hi⟩ := List.mem_iff_getElem?.1 hf
  obtain ⟨v, hv⟩ := WT_val h hi
  rcases h.2 i f v hi hv with ⟨ha, hw⟩ | ⟨hn, _⟩
  · exact ⟨i, v, hi, hv, ha, hw, get_mkW c hi hne hfld hv⟩
  · exact absurd hn hne

end ops

/-! ### Copy -/

theorem foldl_res_inv {α σ : Type} (step : Res σ → α → Res σ) (Inv : σ → Prop) (l : List α)
    (hstep : ∀ p ∈ l, ∀ x, Inv x → ∃ x', step (.ok x) p = .ok x' ∧ Inv x')
    (x0 : σ) (h0 : Inv x0) : ∃ x', l.foldl step (.ok x0) = .ok x' ∧ Inv x' := by
  induction l generalizing x0 with
  | nil => exact ⟨x0, rfl, h0⟩
  | cons a l ih =>
    obtain ⟨x1, hx1, h1⟩ := hstep a List.mem_cons_self x0 h0
    rw [List.foldl_cons, hx1]
    exact ih (fun p hp => hstep p (List.mem_cons_of_mem _ hp)) x1 h1

/-- One iteration of Copy's attribute loop. -/
def copyAttrStep (w : Wrapped) : Res Wrapped → GoString × Attr → Res Wrapped :=
  fun acc p =>
    match acc with
    | .ok (x : Wrapped) => (match w.get p.2.name with
      | .ok v => x.set p.2.name v
      | _ => .panic)
    | e => e

/-- One iteration of Copy's relationship loop. -/
def copyRelStep (w : Wrapped) : Res Wrapped → GoString × Rel → Res Wrapped :=
  fun acc p =>
    match acc with
    | .ok (x : Wrapped) => (match w.get p.2.fromName with
      | .ok (.val .string (.s id)) => if p.2.toOne then x.set p.2.fromName (.val .string (.s id)) else .panic
      | .ok (.strs l) => if p.2.toOne then .panic else x.set p.2.fromName (.strs l)
      | _ => .panic)
    | e => e

theorem copy_eq (w : Wrapped) :
    w.copy = match w.new.bind (fun nw => nw.setID w.getID) with
      | .ok nw => w.rels.foldl (copyRelStep w) (w.attrs.foldl (copyAttrStep w) (.ok nw))
      | e => e := rfl

theorem attrOf_name (f : SField) : (attrOf f).name = f.json := by
  unfold attrOf; split <;> rfl

section copy
variable {d : StructDecl} {vals : List GoVal}

theorem copyAttrStep_ok (c : CheckFacts d) (hs : SingleID d) (h : (mkW d vals).WT)
    {p : GoString × Attr} (hp : p ∈ structAttrs d) {vs : List GoVal} (hx : (mkW d vs).WT) :
    ∃ vs', copyAttrStep (mkW d vals) (.ok (mkW d vs)) p = .ok (mkW d vs') ∧ (mkW d vs').WT := by
  obtain ⟨f, hf, ha, rfl⟩ := structAttrs_mem hp
  have hne := c.field_not_ID hs hf (Or.inl ha)
  obtain ⟨i, v, hi, _, hav, hwv, hget⟩ := field_get c h hf hne (Or.inl ha)
  simp only [copyAttrStep, attrOf_name, hget]
  exact set_read_mkW c hx hi hne (Or.inl ha) hav hwv

theorem copyRelStep_ok (c : CheckFacts d) (hs : SingleID d) (h : (mkW d vals).WT)
    {p : GoString × Rel} (hp : p ∈ relsOf d) {vs : List GoVal} (hx : (mkW d vs).WT) :
    ∃ vs', copyRelStep (mkW d vals) (.ok (mkW d vs)) p = .ok (mkW d vs') ∧ (mkW d vs').WT := by
  obtain ⟨f, hf, hr, rfl⟩ := relsOf_mem hp
  have hne := c.field_not_ID hs hf (Or.inr hr)
  obtain ⟨i, v, hi, _, hav, hwv, hget⟩ := field_get c h hf hne (Or.inr hr)
  rcases (c.rels f hf hr).2.2 with hty | hty
  · rw [hty] at hav
    obtain ⟨id, rfl⟩ := GoTy.accepts_string hav hwv
    simp only [copyRelStep, relOf, hget, GoVal.read, hty]
    refine ⟨_, ?_, WT_set hx hi (Or.inl ⟨by rw [hty]; exact hav, hwv⟩)⟩
    simpa using set_mkW c hi hne (Or.inr hr) (by rw [hty]; exact hav)
  · rw [hty] at hav
    obtain ⟨l, rfl⟩ := GoTy.accepts_strs hav
    simp only [copyRelStep, relOf, hget, GoVal.read, hty]
    refine ⟨_, ?_, WT_set hx hi (Or.inl ⟨by rw [hty]; exact hav, hwv⟩)⟩
    simpa using set_mkW c hi hne (Or.inr hr) (by rw [hty]; exact hav)

theorem copy_mkW (hc : checkStruct d = true) (hs : SingleID d) (h : (mkW d vals).WT) :
    ∃ vs, (mkW d vals).copy = .ok (mkW d vs) ∧ (mkW d vs).WT := by
  have c := checkFacts hc
  obtain ⟨i0, idf, hi0, hn0, hset, _⟩ := setID_mkW c
  have hnew : (mkW d vals).new = .ok (mkW d (Wrapped.zeroVals d)) := wrap_mkW hc _
  have h1 : ((mkW d vals).new.bind fun nw => nw.setID (mkW d vals).getID) =
      .ok (mkW d ((Wrapped.zeroVals d).set i0 (.val .string (.s (mkW d vals).getID)))) := by
    rw [hnew]; exact hset _ _
  have hwt1 := WT_set (WT_zero d) hi0 (u := .val .string (.s (mkW d vals).getID))
    (Or.inr ⟨hn0, _, rfl⟩)
  rw [copy_eq, h1]
  simp only [mkW_attrs, mkW_rels]
  obtain ⟨x1, hx1, vs1, rfl, hw1⟩ := foldl_res_inv (copyAttrStep (mkW d vals))
    (fun x => ∃ vs, x = mkW d vs ∧ (mkW d vs).WT) (structAttrs d)
    (by
      rintro p hp x ⟨vs, rfl, hx⟩
      obtain ⟨vs', e, hw'⟩ := copyAttrStep_ok c hs h hp hx
      exact ⟨_, e, vs', rfl, hw'⟩)
    _ ⟨_, rfl, hwt1⟩
  rw [hx1]
  obtain ⟨x2, hx2, vs2, rfl, hw2⟩ := foldl_res_inv (copyRelStep (mkW d vals))
    (fun x => ∃ vs, x = mkW d vs ∧ (mkW d vs).WT) (relsOf d)
    (by
      rintro p hp x ⟨vs, rfl, hx⟩
      obtain ⟨vs', e, hw'⟩ := copyRelStep_ok c hs h hp hx
      exact ⟨_, e, vs', rfl, hw'⟩)
    _ ⟨_, rfl, hw1⟩
  exact ⟨vs2, hx2, hw2⟩

end copy

/-! ### The parts of C20_accept_safe, for `mkW d vals` -/

section safe
variable {d : StructDecl} {vals : List GoVal}

/-- Every attribute / relationship name of the wrapper is the json name of a tagged field. -/
theorem keys_field {key : GoString} (hk : key ∈ (structAttrs d).keys ++ (relsOf d).keys) :
    ∃ f ∈ d, (f.isAttr = true ∨ f.isRelTagged = true) ∧ f.json = key := by
  rcases List.mem_append.1 hk with hk | hk
  · obtain ⟨x, hx, rfl⟩ := List.mem_map.1 hk
    obtain ⟨f, hf, ha, rfl⟩ := structAttrs_mem hx
    exact ⟨f, hf, Or.inl ha, rfl⟩
  · obtain ⟨x, hx, rfl⟩ := List.mem_map.1 hk
    obtain ⟨f, hf, hr, rfl⟩ := relsOf_mem hx
    exact ⟨f, hf, Or.inr hr, rfl⟩

theorem safe_get (c : CheckFacts d) (hs : SingleID d) (h : (mkW d vals).WT) {key : GoString}
    (hk : key ∈ (structAttrs d).keys ++ (relsOf d).keys) : ∃ v, (mkW d vals).get key = .ok v := by
  obtain ⟨f, hf, hfld, rfl⟩ := keys_field hk
  obtain ⟨i, v, _, _, _, _, hget⟩ := field_get c h hf (c.field_not_ID hs hf hfld) hfld
  exact ⟨_, hget⟩

theorem safe_get_rel (c : CheckFacts d) (hs : SingleID d) (h : (mkW d vals).WT) {key : GoString}
    {r : Rel} (hr : (relsOf d).get? key = some r) :
    ∃ v, (mkW d vals).get key = .ok v ∧
      (if r.toOne = true then ∃ id, v = .val .string (.s id) else ∃ l, v = .strs l) := by
  obtain ⟨f, hf, hrel, hx⟩ := relsOf_mem (GoMap.get?_some_mem hr)
  obtain ⟨rfl, rfl⟩ := Prod.mk.inj hx
  obtain ⟨i, v, _, _, hav, hwv, hget⟩ := field_get c h hf (c.field_not_ID hs hf (Or.inr hrel)) (Or.inr hrel)
  rcases (c.rels f hf hrel).2.2 with hty | hty
  · rw [hty] at hav
    obtain ⟨id, rfl⟩ := GoTy.accepts_string hav hwv
    exact ⟨_, hget, by simp [relOf, hty, GoVal.read]⟩
  · rw [hty] at hav
    obtain ⟨l, rfl⟩ := GoTy.accepts_strs hav
    exact ⟨_, hget, by simp [relOf, hty, GoVal.read]⟩

theorem safe_set (c : CheckFacts d) (h : (mkW d vals).WT) {f : SField} (hf : f ∈ d)
    (hne : f.name ≠ sID) (hfld : f.isAttr = true ∨ f.isRelTagged = true) :
    (∀ v, f.ty.accepts v = true → v.wellFormed = true →
      ∃ vs, (mkW d vals).set f.json v = .ok (mkW d vs) ∧ (mkW d vs).WT ∧
        (mkW d vs).get f.json = .ok v.read ∧
        ∀ key, key ≠ f.json → (mkW d vs).get key = (mkW d vals).get key) ∧
    (∃ vs, (mkW d vals).set f.json .nil = .ok (mkW d vs) ∧ (mkW d vs).WT ∧
        (mkW d vs).get f.json = .ok f.ty.zero.read ∧
        ∀ key, key ≠ f.json → (mkW d vs).get key = (mkW d vals).get key) := by
  obtain ⟨i, hi⟩ := List.mem_iff_getElem?.1 hf
  obtain ⟨v0, hv0⟩ := WT_val h hi
  have hlt : i < vals.length := (List.getElem?_eq_some_iff.1 hv0).1
  have hread : ∀ u, (mkW d (vals.set i u)).get f.json = .ok u.read := fun u =>
    get_mkW c hi hne hfld (by simp [hlt])
  refine ⟨?_, ?_⟩
  · intro v hv hw
    exact ⟨_, set_mkW c hi hne hfld hv, WT_set h hi (Or.inl ⟨hv, hw⟩), hread v,
      fun key hk => get_set_other hi hne v hk⟩
  · exact ⟨_, set_nil_mkW c hi hne hfld, WT_set h hi (Or.inl f.ty.zero_ok), hread _,
      fun key hk => get_set_other hi hne _ hk⟩

theorem zero_read_nullable (k : Kind) : (GoTy.attr k true).zero.read = .nil := by
  simp [GoTy.zero, GoTy.zero.GoVal.zero', GoVal.read]

theorem safe_setID (c : CheckFacts d) (h : (mkW d vals).WT) (v : GoVal) :
    ∃ vs, (mkW d vals).set idName v = .ok (mkW d vs) ∧ (mkW d vs).WT ∧
      (mkW d vs).getID = (match v with | .val .string (.s id) => id | _ => []) := by
  obtain ⟨i0, idf, hi0, hn0, hset, hget⟩ := setID_mkW c
  obtain ⟨v0, hv0⟩ := WT_val h hi0
  have hlt : i0 < vals.length := (List.getElem?_eq_some_iff.1 hv0).1
  unfold Wrapped.set
  rw [if_pos rfl, hset]
  exact ⟨_, rfl, WT_set h hi0 (Or.inr ⟨hn0, _, rfl⟩), hget _ _ hlt⟩

end safe

end Jsonapi
