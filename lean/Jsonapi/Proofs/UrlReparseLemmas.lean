/-
Helper lemmas for C08 (String() parses back): what `newSimpleURL` / `newURL` compute on
the values map that `String()` emits.
-/
import Jsonapi.Proofs.UrlLemmas
namespace Jsonapi.UrlL
open Jsonapi Schema GoMap

/-! ### more about folds -/

theorem rfold_append {α β : Type} (f : α → β → Res α) (l₁ l₂ : List β) (r : Res α) :
    rfold f r (l₁ ++ l₂) = rfold f (rfold f r l₁) l₂ := by
  induction l₁ generalizing r with
  | nil => cases r <;> rfl
  | cons b l ih =>
    cases r with
    | ok a => simp only [List.cons_append, rfold]; exact ih _
    | err => simp only [List.cons_append, rfold, rfold_err]
    | panic => simp only [List.cons_append, rfold, rfold_panic]

theorem rfold_single {α β : Type} (f : α → β → Res α) (a : α) (b : β) :
    rfold f (.ok a) [b] = f a b := by
  simp only [rfold]

/-- the step function of `newSimpleURL` -/
abbrev sstep (fd : FilterDec) : SimpleURL → GoString × List GoString → Res SimpleURL :=
  fun su p => simpleStep fd su p.1 p.2

theorem sstep_eq (fd : FilterDec) (su : SimpleURL) (n : GoString) (vs : List GoString) :
    sstep fd su (n, vs) = simpleStep fd su n vs := rfl

theorem get?_foldl_set {β : Type} (h : GoString → β) (ts : List GoString) (m0 : GoMap β)
    (k : GoString) :
    (ts.foldl (fun m t => m.set t (h t)) m0).get? k = if k ∈ ts then some (h k) else m0.get? k := by
  induction ts generalizing m0 with
  | nil => simp
  | cons t ts ih =>
    simp only [List.foldl_cons, List.mem_cons]
    rw [ih, get?_set]
    by_cases h1 : k ∈ ts
    · simp [h1]
    · by_cases h2 : t = k
      · subst h2; simp [h1]
      · have : ¬ k = t := fun e => h2 e.symm
        simp [h1, h2, this]

theorem keys_foldl_set_nodup {β : Type} (h : GoString → β) (ts : List GoString) (m0 : GoMap β)
    (hm : (keys m0).Nodup) : (keys (ts.foldl (fun m t => m.set t (h t)) m0)).Nodup := by
  induction ts generalizing m0 with
  | nil => exact hm
  | cons t ts ih => simp only [List.foldl_cons]; exact ih _ (nodup_keys_set _ _ _ hm)

theorem foldl_set_eq_append {β : Type} (h : GoString → β) (ts : List GoString) (m0 : GoMap β)
    (hnd : ts.Nodup) (hdis : ∀ t ∈ ts, t ∉ keys m0) :
    ts.foldl (fun m t => m.set t (h t)) m0 = m0 ++ ts.map (fun t => (t, h t)) := by
  induction ts generalizing m0 with
  | nil => simp
  | cons t ts ih =>
    rw [List.nodup_cons] at hnd
    simp only [List.foldl_cons, List.map_cons]
    rw [set_of_not_mem _ _ _ (hdis t List.mem_cons_self), ih _ hnd.2]
    · simp
    · intro t' ht'
      simp only [GoMap.keys, List.map_append, List.map_cons, List.map_nil, List.mem_append,
        List.mem_singleton, not_or]
      exact ⟨hdis t' (List.mem_cons_of_mem _ ht'), fun e => hnd.1 (e ▸ ht')⟩

/-! ### the four segments of the emitted values -/

theorem seg_fields (fd : FilterDec) (g : GoString → GoString) : ∀ (ts : List GoString)
    (su : SimpleURL), (∀ t ∈ ts, t ≠ []) →
    rfold (sstep fd) (.ok su) (ts.map (fun t => (Spec.fieldsName t, [g t]))) =
      .ok { su with fields := ts.foldl (fun m t => m.set t (parseCommaList (g t))) su.fields } := by
  intro ts
  induction ts with
  | nil => intro su _; rfl
  | cons t ts ih =>
    intro su hne
    simp only [List.map_cons, rfold, List.foldl_cons]
    have hc : classify (Spec.fieldsName t) = .fields t :=
      (classify_fields_iff _ _).2 ⟨rfl, hne t List.mem_cons_self⟩
    rw [sstep_eq, simpleStep_eq, hc]
    simp only []
    rw [ih _ (fun t' ht' => hne t' (List.mem_cons_of_mem _ ht'))]
    rfl

theorem seg_page (fd : FilterDec) (g : GoString → GoString) : ∀ (ks : List GoString)
    (su : SimpleURL), (∀ k ∈ ks, k ≠ [] ∧ g k ≠ []) →
    rfold (sstep fd) (.ok su) (ks.map (fun k => (Spec.pageName k, [g k]))) =
      .ok { su with page := ks.foldl (fun m k => m.set k (pageVal (g k))) su.page } := by
  intro ks
  induction ks with
  | nil => intro su _; rfl
  | cons k ks ih =>
    intro su hne
    simp only [List.map_cons, rfold, List.foldl_cons]
    have hc : classify (Spec.pageName k) = .page k :=
      (classify_page_iff _ _).2 ⟨rfl, (hne k List.mem_cons_self).1⟩
    rw [sstep_eq, simpleStep_eq, hc]
    have hv : ¬ firstVal [g k] = [] := (hne k List.mem_cons_self).2
    simp only [if_neg hv]
    rw [ih _ (fun k' hk' => hne k' (List.mem_cons_of_mem _ hk'))]
    rfl

theorem seg_sort (fd : FilterDec) (su : SimpleURL) (v : GoString) :
    rfold (sstep fd) (.ok su) [(sSort, [v])] =
      .ok { su with sortingRules := su.sortingRules ++ parseCommaList v } := by
  rw [rfold_single, sstep_eq, simpleStep_eq, (classify_sort_iff _).2 rfl]
  simp

theorem seg_filter (fd : FilterDec) (su : SimpleURL) (v : GoString) :
    rfold (sstep fd) (.ok su) [(sFilter, [v])] = filterStep fd su v := by
  rw [rfold_single, sstep_eq, simpleStep_eq, (classify_filter_iff _).2 rfl]
  rfl


/-! ### more invariants of `newSimpleURL` -/

theorem simpleStep_filter_other {fd : FilterDec} {su su' : SimpleURL} {name : GoString}
    {vs : List GoString} (hc : name ≠ sFilter) (h : simpleStep fd su name vs = .ok su') :
    su'.filter = su.filter ∧ su'.filterLabel = su.filterLabel := by
  rw [simpleStep_eq] at h
  cases hcl : classify name <;> simp only [hcl] at h
  · cases h; exact ⟨rfl, rfl⟩
  · cases h; split <;> exact ⟨rfl, rfl⟩
  · exact absurd ((classify_filter_iff name).1 hcl) hc
  · cases h; exact ⟨rfl, rfl⟩
  · cases h; exact ⟨rfl, rfl⟩
  · cases h

theorem simpleStep_filter_self {fd : FilterDec} {su su' : SimpleURL} {vs : List GoString}
    (h : simpleStep fd su sFilter vs = .ok su') :
    (su'.filter = su.filter ∧ fd.label = some su'.filterLabel) ∨
    (su'.filterLabel = su.filterLabel ∧ su'.filter ≠ none ∧ fd.filter = su'.filter) := by
  rw [simpleStep_eq, (classify_filter_iff _).2 rfl] at h
  obtain ⟨_, _, _, _, _, _, hc⟩ := filterStep_ok h
  rcases hc with ⟨_, h1, h2⟩ | ⟨_, h1, h2, h3⟩
  · exact .inl ⟨h2, h1⟩
  · exact .inr ⟨h3, h2, h1⟩

theorem rfold_nofilter (fd : FilterDec) (l : GoMap (List GoString)) (su0 su : SimpleURL)
    (hl : ∀ p ∈ l, p.1 ≠ sFilter) (h : rfold (sstep fd) (.ok su0) l = .ok su) :
    su.filter = su0.filter ∧ su.filterLabel = su0.filterLabel := by
  refine rfold_inv_mem (sstep fd) l
    (fun su => su.filter = su0.filter ∧ su.filterLabel = su0.filterLabel) ?_ su0 su ⟨rfl, rfl⟩ h
  intro a b a' hb ha hs
  obtain ⟨h1, h2⟩ := simpleStep_filter_other (hl b hb) hs
  exact ⟨h1.trans ha.1, h2.trans ha.2⟩

/-- with unique names (a Go map) at most one of filter / filter label is set, and they are
what the decoders returned -/
theorem rfold_excl (fd : FilterDec) : ∀ (l : GoMap (List GoString)) (su0 su : SimpleURL),
    (keys l).Nodup → su0.filter = none → su0.filterLabel = [] →
    rfold (sstep fd) (.ok su0) l = .ok su →
    (su.filter = none ∨ su.filterLabel = []) := by
  intro l
  induction l with
  | nil =>
    intro su0 su _ h1 h2 h
    simp only [rfold] at h; cases h; exact .inl h1
  | cons b l ih =>
    intro su0 su hnd h1 h2 h
    simp only [rfold] at h
    simp only [GoMap.keys, List.map_cons, List.nodup_cons] at hnd
    cases hs : sstep fd su0 b with
    | ok su1 =>
      rw [hs] at h
      by_cases hb : b.1 = sFilter
      · have hl : ∀ p ∈ l, p.1 ≠ sFilter := by
          intro p hp e
          exact hnd.1 (List.mem_map.2 ⟨p, hp, e.trans hb.symm⟩)
        obtain ⟨e1, e2⟩ := rfold_nofilter fd l su1 su hl h
        have hs' : simpleStep fd su0 sFilter b.2 = .ok su1 := by rw [← hb]; exact hs
        rcases simpleStep_filter_self hs' with ⟨h3, _⟩ | ⟨h3, _⟩
        · exact .inl (by rw [e1, h3, h1])
        · exact .inr (by rw [e2, h3, h2])
      · obtain ⟨e1, e2⟩ := simpleStep_filter_other hb hs
        exact ih su1 su hnd.2 (e1.trans h1) (e2.trans h2) h
    | err => rw [hs, rfold_err] at h; cases h
    | panic => rw [hs, rfold_panic] at h; cases h

theorem newSimpleURL_excl {path : GoString} {values : GoMap (List GoString)} {fd : FilterDec}
    {su : SimpleURL} (hnd : (keys values).Nodup) (h : newSimpleURL path values fd = .ok su) :
    su.filter = none ∨ su.filterLabel = [] := by
  rw [newSimpleURL_eq] at h
  exact rfold_excl fd values _ su hnd rfl rfl h

/-- page values are what `pageVal` makes of a non-empty string, under non-empty keys -/
theorem newSimpleURL_page {path : GoString} {values : GoMap (List GoString)} {fd : FilterDec}
    {su : SimpleURL} (h : newSimpleURL path values fd = .ok su) :
    ∀ p ∈ su.page, p.1 ≠ [] ∧ ∃ s, s ≠ [] ∧ p.2 = pageVal s := by
  rw [newSimpleURL_eq] at h
  refine rfold_inv _ (fun su : SimpleURL => ∀ p ∈ su.page, p.1 ≠ [] ∧ ∃ s, s ≠ [] ∧ p.2 = pageVal s)
    ?_ _ _ _ (by intro p hp; cases hp) h
  intro a b a' ha hs
  rw [simpleStep_eq] at hs
  cases hc : classify b.1 <;> simp only [hc] at hs
  · cases hs; exact ha
  · rename_i k
    cases hs
    split
    · exact ha
    · rename_i hv
      intro p hp
      rcases mem_set hp with e | e
      · subst e; exact ⟨((classify_page_iff _ _).1 hc).2, _, hv, rfl⟩
      · exact ha p e
  · rw [(filterStep_ok hs).2.2.2.1]; exact ha
  · cases hs; exact ha
  · cases hs; exact ha
  · cases hs

/-- re-reading the text of a page value gives the value back -/
theorem pageVal_text (s : GoString) (hs : s ≠ []) :
    (pageVal s).text ≠ [] ∧ pageVal (pageVal s).text = pageVal s := by
  unfold pageVal
  cases hp : parseInt 64 s with
  | none => simp only [PageVal.text]; exact ⟨hs, by rw [hp]⟩
  | some n =>
    simp only [PageVal.text]
    obtain ⟨h1, h2⟩ := Num.parseInt_range s n hp
    exact ⟨Num.printInt_ne_nil n, by rw [Num.parseInt_printInt n h1 h2]⟩


/-! ### `newURL` reads the simple URL through its fragments and `newParams` -/

def urlHead (σ : Schema) (frags : List GoString) : Res URL :=
  match frags with
  | [] => .err
  | f0 :: _ =>
    if (σ.getType f0).name = [] then .err
    else if frags.length ≥ 3 then
      match (σ.getType f0).rels.get? (frags.getLast?.getD []) with
      | some rel =>
        if !σ.hasType rel.toType then .err
        else .ok { fragments := frags, isCol := !rel.toOne, resType := rel.toType,
                   resID := if frags.length = 2 then (frags[1]?.getD []) else [],
                   rel := rel, params := default }
      | none => .err
    else .ok { fragments := frags, isCol := frags.length = 1,
               resType := if frags.length ≤ 2 then (σ.getType f0).name else [],
               resID := if frags.length = 2 then (frags[1]?.getD []) else [],
               rel := default, params := default }

theorem newURL_eq (σ : Schema) (su : SimpleURL) :
    newURL σ su =
      match urlHead σ su.fragments with
      | .ok u0 =>
        (match newParams σ su u0.resType with
          | .ok p => .ok { u0 with params := p }
          | .err => .err
          | .panic => .panic)
      | .err => .err
      | .panic => .panic := by
  unfold newURL urlHead
  cases su.fragments with
  | nil => rfl
  | cons f0 rest =>
    simp only []
    by_cases h1 : (σ.getType f0).name = []
    · simp [h1]
    · simp only [h1, if_false]
      by_cases h3 : (f0 :: rest).length ≥ 3
      · simp only [h3, if_true]
        cases (σ.getType f0).rels.get? ((f0 :: rest).getLast?.getD []) with
        | none => rfl
        | some rel =>
          by_cases h4 : σ.hasType rel.toType = true
          · simp [h4]; rfl
          · simp [h4]
      · simp only [h3, if_false]; rfl

theorem newURL_ok' {σ : Schema} {su : SimpleURL} {u : URL} (h : newURL σ su = .ok u) :
    ∃ u0 p, urlHead σ su.fragments = .ok u0 ∧ newParams σ su u0.resType = .ok p ∧
      u = { u0 with params := p } := by
  rw [newURL_eq] at h
  split at h
  · rename_i u0 hu0
    split at h
    · rename_i p hp; cases h; exact ⟨u0, p, hu0, hp, rfl⟩
    · cases h
    · cases h
  · cases h
  · cases h

theorem pIsCol_congr (σ : Schema) {su su' : SimpleURL} (h : su'.fragments = su.fragments) :
    pIsCol σ su' = pIsCol σ su := by
  unfold pIsCol; rw [h]

/-! ### the field fold on a canonical request -/

theorem filter_eq_singleton : ∀ {l : List GoString}, l.Nodup → ∀ {f : GoString}, f ∈ l →
    l.filter (fun x => decide (x = f)) = [f]
  | [], _, _, hf => by cases hf
  | a :: l, hnd, f, hf => by
    rw [List.nodup_cons] at hnd
    by_cases e : a = f
    · subst e
      have : l.filter (fun x => decide (x = a)) = [] := by
        rw [List.filter_eq_nil_iff]
        intro x hx; simp only [decide_eq_true_eq]; intro e; exact hnd.1 (e ▸ hx)
      simp [this]
    · have hf' : f ∈ l := by
        rcases List.mem_cons.1 hf with e' | e'
        · exact absurd e'.symm e
        · exact e'
      simp only [List.filter_cons, e, decide_false, Bool.false_eq_true, if_false]
      exact filter_eq_singleton hnd.2 hf'

theorem sel_self {typ : Typ} (hnd : typ.fields.Nodup) : ∀ {l : List GoString},
    (∀ f ∈ l, f = idName ∨ f ∈ typ.fields) → sel typ l = l
  | [], _ => rfl
  | a :: l, hl => by
    have ih := sel_self hnd (l := l) (fun f hf => hl f (List.mem_cons_of_mem _ hf))
    unfold sel at ih ⊢
    rw [List.flatMap_cons, ih]
    by_cases e : a = idName
    · simp [e]
    · rw [if_neg e]
      rcases hl a List.mem_cons_self with h | h
      · exact absurd h e
      · rw [filter_eq_singleton hnd h]; rfl

theorem fields_refold {σ : Schema} (hσ : Inv σ) (rt : GoString) (h : GoString → List GoString) :
    ∀ (ts : List GoString) (m0 : GoMap (List GoString)),
    (∀ t ∈ ts, σ.hasType t = true ∧ (h t).Nodup ∧
      ∀ f ∈ h t, f = idName ∨ f ∈ (σ.getType t).fields) →
    rfold (fieldStep σ rt) (.ok m0) (ts.map (fun t => (t, h t))) =
      .ok (ts.foldl (fun m t => m.set t (h t)) m0) := by
  intro ts
  induction ts with
  | nil => intro m0 _; rfl
  | cons t ts ih =>
    intro m0 hts
    obtain ⟨ht, hnd, hf⟩ := hts t List.mem_cons_self
    obtain ⟨htne, hname, hwf⟩ := hasType_name_ne hσ ht
    simp only [List.map_cons, rfold, List.foldl_cons]
    have hstep : fieldStep σ rt m0 (t, h t) = .ok (m0.set t (h t)) := by
      unfold fieldStep
      have hn : (σ.getType t).name ≠ [] := by rw [hname]; exact htne
      simp only []
      rw [if_neg (fun hc => hn hc.2), if_pos hn, sel_self (fields_nodup hwf) hf,
        eraseDups_of_nodup _ hnd]
      simp
    rw [hstep]
    exact ih _ (fun t' ht' => hts t' (List.mem_cons_of_mem _ ht'))

/-! ### the sorting rules are a fixed point -/

theorem stripDash_cases (rule : GoString) :
    rule = Spec.stripDash rule ∨ rule = 45 :: Spec.stripDash rule := by
  unfold Spec.stripDash
  split
  · exact .inr rfl
  · exact .inl rfl

theorem validRules_self (σ : Schema) (rt : GoString) (R : List GoString)
    (h : ∀ rule ∈ R, Spec.stripDash rule = idName ∨ Spec.stripDash rule ∈ attrNames σ rt) :
    Spec.validRules σ rt R = R := by
  unfold Spec.validRules
  rw [List.filter_eq_self]
  intro rule hr
  simp only [Bool.or_eq_true, decide_eq_true_eq, List.contains_iff_mem]
  exact h rule hr

theorem pRules_fix (σ : Schema) (su su' : SimpleURL) (rt : GoString)
    (hdash : ∀ a ∈ attrNames σ rt, a.head? ≠ some 45)
    (hcol : pIsCol σ su = true) (hcol' : pIsCol σ su' = true)
    (hs : su'.sortingRules = pRules σ su rt) : pRules σ su' rt = pRules σ su rt := by
  obtain ⟨_, hall, hid⟩ := pRules_facts σ su rt hcol
  have hall' : ∀ rule ∈ pRules σ su rt,
      Spec.stripDash rule = idName ∨ Spec.stripDash rule ∈ attrNames σ rt := by
    intro rule hr
    rcases hall rule hr with e | e
    · right; rw [stripDash_of_no_dash (hdash rule e)]; exact e
    · exact e
  have hcover : ∀ a ∈ attrNames σ rt,
      (pRules σ su rt).any (fun rule => Spec.stripDash rule = a) = true := by
    intro a ha
    by_cases hv : (Spec.validRules σ rt su.sortingRules).any (fun rule => Spec.stripDash rule = a) = true
    · obtain ⟨r, hr, he⟩ := List.any_eq_true.1 hv
      refine List.any_eq_true.2 ⟨r, ?_, he⟩
      unfold pRules; rw [if_pos hcol]
      simp only [List.mem_append]; left; left; exact hr
    · refine List.any_eq_true.2 ⟨a, ?_, by simp [stripDash_of_no_dash (hdash a ha)]⟩
      unfold pRules; rw [if_pos hcol]
      simp only [List.mem_append]; left; right
      rw [(DetL.sortStrings_perm _).mem_iff]
      exact List.mem_filter.2 ⟨ha, by simpa using hv⟩
  have hidf : (pRules σ su rt).any (fun rule => Spec.stripDash rule = idName) = true := by
    obtain ⟨r, hr, he⟩ := hid
    exact List.any_eq_true.2 ⟨r, hr, by simp [he]⟩
  conv => lhs; unfold pRules
  rw [if_pos hcol', hs, validRules_self σ rt _ hall', if_pos hidf]
  have : (attrNames σ rt).filter (fun a =>
      !(pRules σ su rt).any (fun rule => Spec.stripDash rule = a)) = [] := by
    rw [List.filter_eq_nil_iff]
    intro a ha; simp [hcover a ha]
  rw [this]
  simp [Typ.sortStrings]


/-! ### `newSimpleURL` on the emitted values -/

def segA (u : URL) : GoMap (List GoString) :=
  (Typ.sortStrings u.params.fields.keys).map (fun t =>
    (Spec.fieldsName t, [joinWith [44] (Typ.sortStrings ((u.params.fields.get? t).getD []))]))

def segB (u : URL) (env : StringEnv) : GoMap (List GoString) :=
  match u.params.filter with
  | some f => [(sFilter, [f])]
  | none => if u.params.filterLabel ≠ [] then [(sFilter, [rewriteBrace env.labelBody])] else []

def segC (u : URL) : GoMap (List GoString) :=
  if u.isCol then (Typ.sortStrings u.params.page.keys).map (fun k =>
    (Spec.pageName k, [((u.params.page.get? k).map PageVal.text).getD []])) else []

def segD (u : URL) : GoMap (List GoString) :=
  if u.params.sortingRules.isEmpty then [] else [(sSort, [joinWith [44] u.params.sortingRules])]

theorem emittedValues_segs (u : URL) (env : StringEnv) :
    Spec.emittedValues u env = segA u ++ segB u env ++ segC u ++ segD u := rfl

theorem foldl_set_congr {β : Type} (h h' : GoString → β) (ts : List GoString) (m0 : GoMap β)
    (hh : ∀ t ∈ ts, h t = h' t) :
    ts.foldl (fun m t => m.set t (h t)) m0 = ts.foldl (fun m t => m.set t (h' t)) m0 := by
  induction ts generalizing m0 with
  | nil => rfl
  | cons t ts ih =>
    simp only [List.foldl_cons]
    rw [hh t List.mem_cons_self]
    exact ih _ (fun t' ht' => hh t' (List.mem_cons_of_mem _ ht'))

/-- what the rest of a step leaves alone -/
def SameBut (su su2 : SimpleURL) : Prop :=
  su2.fragments = su.fragments ∧ su2.incl = su.incl

theorem run_segA (fd : FilterDec) (u : URL) (su : SimpleURL)
    (hkeys : ∀ t ∈ u.params.fields.keys, t ≠ [])
    (hfld : ∀ t fs, u.params.fields.get? t = some fs → ∀ f ∈ fs, f ≠ [] ∧ (44 : UInt8) ∉ f) :
    ∃ su2, rfold (sstep fd) (.ok su) (segA u) = .ok su2 ∧ SameBut su su2 ∧
      su2.filter = su.filter ∧ su2.filterLabel = su.filterLabel ∧ su2.page = su.page ∧
      su2.sortingRules = su.sortingRules ∧
      su2.fields = (Typ.sortStrings u.params.fields.keys).foldl (fun m t =>
        m.set t (Typ.sortStrings ((u.params.fields.get? t).getD []))) su.fields := by
  have hk : ∀ t ∈ Typ.sortStrings u.params.fields.keys, t ≠ [] :=
    fun t ht => hkeys t ((DetL.sortStrings_perm _).mem_iff.1 ht)
  refine ⟨_, seg_fields fd _ _ su hk, ⟨rfl, rfl⟩, rfl, rfl, rfl, rfl, ?_⟩
  apply foldl_set_congr
  intro t _
  apply Num.parseCommaList_joinWith
  intro f hf
  have hf' := (DetL.sortStrings_perm _).mem_iff.1 hf
  cases hg : u.params.fields.get? t with
  | none => rw [hg] at hf'; cases hf'
  | some fs => rw [hg] at hf'; exact hfld t fs hg f hf'

theorem run_segB (fd' : FilterDec) (u : URL) (env : StringEnv) (su : SimpleURL)
    (h1 : su.filter = none) (h2 : su.filterLabel = [])
    (hexcl : u.params.filter = none ∨ u.params.filterLabel = [])
    (hfilter : ∀ f, u.params.filter = some f → f.head? = some 123 ∧ fd'.filter = some f)
    (hlabel : u.params.filter = none → u.params.filterLabel ≠ [] →
      rewriteBrace env.labelBody ≠ [] ∧ (rewriteBrace env.labelBody).head? ≠ some 123 ∧
      fd'.label = some u.params.filterLabel) :
    ∃ su2, rfold (sstep fd') (.ok su) (segB u env) = .ok su2 ∧ SameBut su su2 ∧
      su2.fields = su.fields ∧ su2.page = su.page ∧ su2.sortingRules = su.sortingRules ∧
      su2.filter = u.params.filter ∧ su2.filterLabel = u.params.filterLabel := by
  unfold segB
  cases hf : u.params.filter with
  | some f =>
    obtain ⟨hh, hd⟩ := hfilter f hf
    have hl : u.params.filterLabel = [] := by
      rcases hexcl with e | e
      · rw [hf] at e; cases e
      · exact e
    have hne : f ≠ [] := by intro e; subst e; simp at hh
    simp only []
    rw [seg_filter]
    unfold filterStep
    rw [if_neg hne, if_neg (by simp [hh]), hd]
    exact ⟨_, rfl, ⟨rfl, rfl⟩, rfl, rfl, rfl, rfl, by simp [h2, hl]⟩
  | none =>
    simp only []
    by_cases hl : u.params.filterLabel ≠ []
    · obtain ⟨hb, hh, hd⟩ := hlabel hf hl
      rw [if_pos hl, seg_filter]
      unfold filterStep
      rw [if_neg hb, if_pos hh, hd]
      exact ⟨_, rfl, ⟨rfl, rfl⟩, rfl, rfl, rfl, by simp [h1], rfl⟩
    · rw [if_neg hl]
      have hl' : u.params.filterLabel = [] := by simpa using hl
      exact ⟨su, rfl, ⟨rfl, rfl⟩, rfl, rfl, rfl, h1, by rw [h2, hl']⟩

theorem run_segC (fd : FilterDec) (u : URL) (su : SimpleURL) (h0 : su.page = [])
    (hpage : u.isCol = true → ∀ p ∈ u.params.page, p.1 ≠ [] ∧ ∃ s, s ≠ [] ∧ p.2 = pageVal s) :
    ∃ su2, rfold (sstep fd) (.ok su) (segC u) = .ok su2 ∧ SameBut su su2 ∧
      su2.fields = su.fields ∧ su2.filter = su.filter ∧ su2.filterLabel = su.filterLabel ∧
      su2.sortingRules = su.sortingRules ∧
      (u.isCol = true → ∀ k, su2.page.get? k = u.params.page.get? k) ∧
      (keys su2.page).Nodup := by
  unfold segC
  by_cases hcol : u.isCol = true
  · rw [if_pos hcol]
    have hval : ∀ k ∈ u.params.page.keys, ∃ s, s ≠ [] ∧ u.params.page.get? k = some (pageVal s) ∧ k ≠ [] := by
      intro k hk
      obtain ⟨v, hv⟩ := (mem_keys_iff _ _).1 hk
      obtain ⟨hkne, s, hs, e⟩ := hpage hcol (k, v) (get?_mem hv)
      exact ⟨s, hs, by rw [hv]; exact congrArg some e, hkne⟩
    have hpre : ∀ k ∈ Typ.sortStrings u.params.page.keys,
        k ≠ [] ∧ ((u.params.page.get? k).map PageVal.text).getD [] ≠ [] := by
      intro k hk
      obtain ⟨s, hs, hg, hkne⟩ := hval k ((DetL.sortStrings_perm _).mem_iff.1 hk)
      rw [hg]; exact ⟨hkne, (pageVal_text s hs).1⟩
    refine ⟨_, seg_page fd _ _ su hpre, ⟨rfl, rfl⟩, rfl, rfl, rfl, rfl, ?_, ?_⟩
    rotate_left
    · simp only []
      exact keys_foldl_set_nodup _ _ _ (by rw [h0]; simp [GoMap.keys])
    intro _ k
    simp only []
    rw [get?_foldl_set (fun k => pageVal (((u.params.page.get? k).map PageVal.text).getD [])), h0]
    by_cases hk : k ∈ u.params.page.keys
    · rw [if_pos ((DetL.sortStrings_perm _).mem_iff.2 hk)]
      obtain ⟨s, hs, hg, _⟩ := hval k hk
      rw [hg]; simp only [Option.map_some, Option.getD_some]
      rw [(pageVal_text s hs).2]
    · rw [if_neg (fun h => hk ((DetL.sortStrings_perm _).mem_iff.1 h)), get?_none_of_not_mem hk]
      rfl
  · rw [if_neg hcol]
    exact ⟨su, rfl, ⟨rfl, rfl⟩, rfl, rfl, rfl, rfl, fun h => absurd h hcol,
      by rw [h0]; simp [GoMap.keys]⟩

theorem run_segD (fd : FilterDec) (u : URL) (su : SimpleURL) (h0 : su.sortingRules = [])
    (hrules : ∀ r ∈ u.params.sortingRules, r ≠ [] ∧ (44 : UInt8) ∉ r) :
    ∃ su2, rfold (sstep fd) (.ok su) (segD u) = .ok su2 ∧ SameBut su su2 ∧
      su2.fields = su.fields ∧ su2.filter = su.filter ∧ su2.filterLabel = su.filterLabel ∧
      su2.page = su.page ∧ su2.sortingRules = u.params.sortingRules := by
  unfold segD
  by_cases he : u.params.sortingRules.isEmpty = true
  · rw [if_pos he]
    have : u.params.sortingRules = [] := by simpa using he
    exact ⟨su, rfl, ⟨rfl, rfl⟩, rfl, rfl, rfl, rfl, by rw [h0, this]⟩
  · rw [if_neg he, seg_sort]
    refine ⟨_, rfl, ⟨rfl, rfl⟩, rfl, rfl, rfl, rfl, ?_⟩
    simp only []
    rw [h0, Num.parseCommaList_joinWith _ hrules]; rfl

theorem reparse_simple (u : URL) (env : StringEnv) (fd' : FilterDec)
    (hfr : ∀ x ∈ u.fragments, x ≠ [] ∧ (47 : UInt8) ∉ x)
    (hkeys : ∀ t ∈ u.params.fields.keys, t ≠ [])
    (hfld : ∀ t fs, u.params.fields.get? t = some fs → ∀ f ∈ fs, f ≠ [] ∧ (44 : UInt8) ∉ f)
    (hpage : u.isCol = true → ∀ p ∈ u.params.page, p.1 ≠ [] ∧ ∃ s, s ≠ [] ∧ p.2 = pageVal s)
    (hrules : ∀ r ∈ u.params.sortingRules, r ≠ [] ∧ (44 : UInt8) ∉ r)
    (hexcl : u.params.filter = none ∨ u.params.filterLabel = [])
    (hfilter : ∀ f, u.params.filter = some f → f.head? = some 123 ∧ fd'.filter = some f)
    (hlabel : u.params.filter = none → u.params.filterLabel ≠ [] →
      rewriteBrace env.labelBody ≠ [] ∧ (rewriteBrace env.labelBody).head? ≠ some 123 ∧
      fd'.label = some u.params.filterLabel) :
    ∃ su', newSimpleURL (Spec.emittedPath u) (Spec.emittedValues u env) fd' = .ok su' ∧
      su'.fragments = u.fragments ∧
      su'.fields = (Typ.sortStrings u.params.fields.keys).foldl
        (fun (m : GoMap (List GoString)) t =>
          m.set t (Typ.sortStrings ((u.params.fields.get? t).getD []))) [] ∧
      su'.filterLabel = u.params.filterLabel ∧ su'.filter = u.params.filter ∧
      su'.sortingRules = u.params.sortingRules ∧
      (u.isCol = true → ∀ k, su'.page.get? k = u.params.page.get? k) ∧ su'.incl = [] ∧
      (keys su'.page).Nodup := by
  rw [newSimpleURL_eq, emittedValues_segs, rfold_append, rfold_append, rfold_append,
    Num.parseFragments_emittedPath u hfr]
  obtain ⟨s1, e1, ⟨a1, a2⟩, a3, a4, a5, a6, a7⟩ := run_segA fd' u _ hkeys hfld
  rw [show (fun su (p : GoString × List GoString) => simpleStep fd' su p.1 p.2) = sstep fd' from rfl, e1]
  obtain ⟨s2, e2, ⟨b1, b2⟩, b3, b4, b5, b6, b7⟩ :=
    run_segB fd' u env s1 (a3.trans rfl) (a4.trans rfl) hexcl hfilter hlabel
  rw [e2]
  obtain ⟨s3, e3, ⟨c1, c2⟩, c3, c4, c5, c6, c7, c8⟩ := run_segC fd' u s2 (b4.trans (a5.trans rfl)) hpage
  rw [e3]
  obtain ⟨s4, e4, ⟨d1, d2⟩, d3, d4, d5, d6, d7⟩ :=
    run_segD fd' u s3 (c6.trans (b5.trans (a6.trans rfl))) hrules
  rw [e4]
  refine ⟨s4, rfl, ?_, ?_, ?_, ?_, d7, ?_, ?_, ?_⟩
  · rw [d1, c1, b1, a1]
  · rw [d3, c3, b3, a7]
  · rw [d5, c5, b7]
  · rw [d4, c4, b6]
  · intro hc k; rw [d6]; exact c7 hc k
  · rw [d2, c2, b2, a2]
  · rw [d6]; exact c8


/-! ### `newParams` on the re-parsed simple URL -/

theorem fieldStep_keys {σ : Schema} {rt : GoString} {m m' : GoMap (List GoString)}
    {p : GoString × List GoString} {k : GoString} (hk : k ∈ keys m)
    (h : fieldStep σ rt m p = .ok m') : k ∈ keys m' := by
  unfold fieldStep at h
  split at h
  · cases h
  · split at h
    · split at h
      · cases h
      · cases h; exact (mem_keys_set _ _ _ _).2 (.inr hk)
    · cases h; exact hk

theorem params_has_resType {σ : Schema} {su : SimpleURL} {rt : GoString} {p : Params}
    (hrt : rt ≠ []) (h : newParams σ su rt = .ok p) : rt ∈ keys p.fields := by
  obtain ⟨fm, hfm, hf, _⟩ := newParams_ok h
  unfold pFieldsRes at hfm
  rw [hf, keys_fillDefault]
  exact rfold_inv _ (fun m => rt ∈ keys m) (fun a b a' ha hs => fieldStep_keys ha hs) _ _ _
    ((mem_keys_iff _ _).2 ⟨[], pFields1_resType σ su rt hrt⟩) hfm

theorem pFields1_no_incl (σ : Schema) (su : SimpleURL) (rt : GoString) (hi : su.incl = [])
    (hrt : rt ≠ []) : pFields1 σ su rt = [(rt, [])] := by
  unfold pFields1 pFields0 pIncs
  rw [hi, if_pos hrt]
  simp [Typ.sortStrings, pruneIncludes, checkInclusions, GoMap.set]

theorem pIncl_no_incl (σ : Schema) (su : SimpleURL) (rt : GoString) (hi : su.incl = []) :
    pIncl σ su rt = [] := by
  unfold pIncl pIncs
  rw [hi]
  simp [Typ.sortStrings, pruneIncludes]

theorem reparse_params {σ : Schema} (hσ : Inv σ) (su su' : SimpleURL) (rt : GoString) (p : Params)
    (hrt : σ.hasType rt = true) (hp : newParams σ su rt = .ok p)
    (hne : ∀ t fs, p.fields.get? t = some fs → fs ≠ [])
    (hdash : ∀ a ∈ attrNames σ rt, a.head? ≠ some 45)
    (hfr : su'.fragments = su.fragments)
    (hfields : su'.fields = (Typ.sortStrings p.fields.keys).foldl
        (fun (m : GoMap (List GoString)) t =>
          m.set t (Typ.sortStrings ((p.fields.get? t).getD []))) [])
    (hincl : su'.incl = []) (hsort : su'.sortingRules = p.sortingRules) :
    ∃ p', newParams σ su' rt = .ok p' ∧
      (∀ t, p'.fields.get? t = (p.fields.get? t).map Typ.sortStrings) ∧
      (keys p'.fields).Nodup ∧ p'.sortingRules = p.sortingRules ∧ p'.page = su'.page ∧
      p'.filterLabel = su'.filterLabel ∧ p'.filter = su'.filter ∧ p'.incl = [] := by
  obtain ⟨hgood, hknd⟩ := params_fields hσ hrt hp
  have hrtne : rt ≠ [] := (hasType_name_ne hσ hrt).1
  have hrtk : rt ∈ keys p.fields := params_has_resType hrtne hp
  let hh : GoString → List GoString := fun t => Typ.sortStrings ((p.fields.get? t).getD [])
  let sk := Typ.sortStrings p.fields.keys
  have hsk : ∀ t, t ∈ sk ↔ t ∈ keys p.fields := fun t => (DetL.sortStrings_perm _).mem_iff
  have hsknd : sk.Nodup := (DetL.sortStrings_perm _).nodup_iff.2 hknd
  have hf2 : su'.fields = sk.map (fun t => (t, hh t)) := by
    rw [hfields]
    have := foldl_set_eq_append hh sk [] hsknd (by intro t _ h; cases h)
    simpa using this
  have hcond : ∀ t ∈ sk, σ.hasType t = true ∧ (hh t).Nodup ∧
      ∀ f ∈ hh t, f = idName ∨ f ∈ (σ.getType t).fields := by
    intro t ht
    obtain ⟨fs, hfs⟩ := (mem_keys_iff _ _).1 ((hsk t).1 ht)
    obtain ⟨h1, h2, h3⟩ := hgood t fs hfs
    have e : hh t = Typ.sortStrings fs := by show Typ.sortStrings _ = _; rw [hfs]; rfl
    rw [e]
    exact ⟨h1, (DetL.sortStrings_perm _).nodup_iff.2 h3,
      fun f hf => h2 f ((DetL.sortStrings_perm _).mem_iff.1 hf)⟩
  have hres : pFieldsRes σ su' rt =
      .ok (sk.foldl (fun m t => m.set t (hh t)) [(rt, [])]) := by
    unfold pFieldsRes
    rw [pFields1_no_incl σ su' rt hincl hrtne, hf2]
    exact fields_refold hσ rt hh sk _ hcond
  obtain ⟨_, _, _, _, _, hps, _, _⟩ := newParams_ok hp
  have hcol : pIsCol σ su' = pIsCol σ su := pIsCol_congr σ hfr
  have hrules : pRules σ su' rt = p.sortingRules := by
    rw [hps]
    by_cases hc : pIsCol σ su = true
    · exact pRules_fix σ su su' rt hdash hc (hcol.trans hc) (hsort.trans hps)
    · unfold pRules; rw [hcol]; simp [hc]
  rw [newParams_eq, hres]
  refine ⟨_, rfl, ?_, ?_, hrules, rfl, rfl, rfl, pIncl_no_incl σ su' rt hincl⟩
  · intro t
    simp only []
    rw [get?_fillDefault, get?_foldl_set hh]
    by_cases ht : t ∈ keys p.fields
    · rw [if_pos ((hsk t).2 ht)]
      obtain ⟨fs, hfs⟩ := (mem_keys_iff _ _).1 ht
      have e : hh t = Typ.sortStrings fs := by show Typ.sortStrings _ = _; rw [hfs]; rfl
      rw [hfs, e]
      have hnil : Typ.sortStrings fs ≠ [] := by
        intro he
        have := (DetL.sortStrings_perm fs).length_eq
        rw [he] at this
        exact hne t fs hfs (List.length_eq_zero_iff.1 this.symm)
      simp [hnil]
    · rw [if_neg (fun h => ht ((hsk t).1 h)), get?_none_of_not_mem ht]
      have hrt' : ¬ rt = t := fun e => ht (e ▸ hrtk)
      simp [GoMap.get?, hrt']
  · simp only []
    rw [keys_fillDefault]
    exact keys_foldl_set_nodup hh sk _ (by simp [GoMap.keys])


/-! ### the re-parse -/

/-- Names the URL syntax can carry: no comma in an attribute or relationship name, no
attribute name starting with '-'. -/
structure NamesOK (σ : Schema) : Prop where
  attrs : ∀ t ∈ σ.types, ∀ a ∈ t.attrs.vals, (44 : UInt8) ∉ a.name ∧ a.name.head? ≠ some 45
  rels : ∀ t ∈ σ.types, ∀ r ∈ t.rels.vals, (44 : UInt8) ∉ r.fromName

theorem field_name_ok {σ : Schema} (hσ : Inv σ) (hn : NamesOK σ) {t : GoString}
    (ht : σ.hasType t = true) {f : GoString} (hf : f = idName ∨ f ∈ (σ.getType t).fields) :
    f ≠ [] ∧ (44 : UInt8) ∉ f := by
  obtain ⟨hm, _⟩ := getType_mem ht
  have hwf := (hσ.2 _ hm).2
  rcases hf with e | e
  · subst e; decide
  · rcases (mem_fields_iff f).1 e with h | h
    · obtain ⟨a, ha, rfl⟩ := List.mem_map.1 h
      obtain ⟨pp, hpp, hpa⟩ := List.mem_map.1 ha
      subst hpa
      exact ⟨(hwf.attrs pp hpp).2.1, (hn.attrs _ hm _ ha).1⟩
    · obtain ⟨r, hr, rfl⟩ := List.mem_map.1 h
      obtain ⟨pp, hpp, hpa⟩ := List.mem_map.1 hr
      subst hpa
      exact ⟨(hwf.rels pp hpp).2.1, hn.rels _ hm _ hr⟩

theorem attr_name_ok {σ : Schema} (hσ : Inv σ) (hn : NamesOK σ) {rt : GoString}
    (ht : σ.hasType rt = true) : ∀ a ∈ attrNames σ rt,
    a ≠ [] ∧ (44 : UInt8) ∉ a ∧ a.head? ≠ some 45 := by
  obtain ⟨hm, _⟩ := getType_mem ht
  have hwf := (hσ.2 _ hm).2
  intro a h
  obtain ⟨a, ha, rfl⟩ := List.mem_map.1 h
  obtain ⟨pp, hpp, hpa⟩ := List.mem_map.1 ha
  subst hpa
  exact ⟨(hwf.attrs pp hpp).2.1, (hn.attrs _ hm _ ha).1, (hn.attrs _ hm _ ha).2⟩

theorem rule_ok {σ : Schema} {rt : GoString}
    (hc : ∀ a ∈ attrNames σ rt, a ≠ [] ∧ (44 : UInt8) ∉ a) {rule : GoString}
    (h : rule ∈ attrNames σ rt ∨ Spec.stripDash rule = idName ∨
      Spec.stripDash rule ∈ attrNames σ rt) : rule ≠ [] ∧ (44 : UInt8) ∉ rule := by
  have key : (Spec.stripDash rule ≠ [] ∧ (44 : UInt8) ∉ Spec.stripDash rule) →
      rule ≠ [] ∧ (44 : UInt8) ∉ rule := by
    intro hs
    rcases stripDash_cases rule with e | e
    · rw [e]; exact hs
    · rw [e]
      refine ⟨by simp, ?_⟩
      intro hm
      rcases List.mem_cons.1 hm with e' | e'
      · exact absurd e' (by decide)
      · exact hs.2 e'
  rcases h with h | h | h
  · exact hc rule h
  · apply key; rw [h]; decide
  · exact key (hc _ h)

theorem urlHead_fragments {σ : Schema} {fr : List GoString} {u0 : URL}
    (h : urlHead σ fr = .ok u0) : u0.fragments = fr := by
  unfold urlHead at h
  split at h
  · cases h
  · split at h
    · cases h
    · split at h
      · split at h
        · split at h
          · cases h
          · cases h; rfl
        · cases h
      · cases h; rfl

theorem reparse_core {σ : Schema} (hσ : Inv σ) (hn : NamesOK σ) (path : GoString)
    (values : GoMap (List GoString)) (fd : FilterDec) (u : URL)
    (h : newURLFrom σ (some (path, values, fd)) = .ok u) (hvnd : (keys values).Nodup)
    (hne : NoEmptySelection u) (env : StringEnv) (fd' : FilterDec)
    (hfilter : ∀ f, u.params.filter = some f → f.head? = some 123 ∧ fd'.filter = some f)
    (hlabel : u.params.filter = none → u.params.filterLabel ≠ [] →
      rewriteBrace env.labelBody ≠ [] ∧ (rewriteBrace env.labelBody).head? ≠ some 123 ∧
      fd'.label = some u.params.filterLabel) :
    ∃ u', newURLFrom σ (some (Spec.emittedPath u, Spec.emittedValues u env, fd')) = .ok u' ∧
      u'.fragments = u.fragments ∧ u'.resType = u.resType ∧ u'.resID = u.resID ∧
      u'.rel = u.rel ∧ u'.isCol = u.isCol ∧
      (∀ t, u'.params.fields.get? t = (u.params.fields.get? t).map Typ.sortStrings) ∧
      (keys u'.params.fields).Nodup ∧
      u'.params.sortingRules = u.params.sortingRules ∧
      (u.isCol = true → ∀ k, u'.params.page.get? k = u.params.page.get? k) ∧
      (keys u'.params.page).Nodup ∧
      u'.params.filterLabel = u.params.filterLabel ∧ u'.params.filter = u.params.filter ∧
      u'.params.incl = [] := by
  obtain ⟨path', values', fd0, su, hpar, hsu, hu⟩ := newURLFrom_ok σ _ u h
  cases hpar
  obtain ⟨u0, p, hu0, hp, hue⟩ := newURL_ok' hu
  have hrt : σ.hasType u.resType = true := restype_ok σ su u hu
  have e_params : u.params = p := by rw [hue]
  have e_rt : u.resType = u0.resType := by rw [hue]
  have e_fr : u.fragments = su.fragments := by
    rw [hue]; show u0.fragments = _; exact urlHead_fragments hu0
  rw [← e_rt] at hp
  obtain ⟨hgood, hknd⟩ := params_fields hσ hrt hp
  obtain ⟨fm, _, _, hpl, hpf, hps, hpp, _⟩ := newParams_ok hp
  have hnames := attr_name_ok hσ hn hrt
  -- facts for the simple URL
  have hfr : ∀ x ∈ u.fragments, x ≠ [] ∧ (47 : UInt8) ∉ x := by
    rw [e_fr, newSimpleURL_fragments hsu]; exact Num.parseFragments_mem path
  have hkeys : ∀ t ∈ u.params.fields.keys, t ≠ [] := by
    rw [e_params]
    intro t ht
    obtain ⟨fs, hfs⟩ := (mem_keys_iff _ _).1 ht
    exact (hasType_name_ne hσ (hgood t fs hfs).1).1
  have hfld : ∀ t fs, u.params.fields.get? t = some fs → ∀ f ∈ fs, f ≠ [] ∧ (44 : UInt8) ∉ f := by
    rw [e_params]
    intro t fs hfs f hf
    exact field_name_ok hσ hn (hgood t fs hfs).1 ((hgood t fs hfs).2.1 f hf)
  have hpage : u.isCol = true → ∀ q ∈ u.params.page, q.1 ≠ [] ∧ ∃ s, s ≠ [] ∧ q.2 = pageVal s := by
    intro _; rw [e_params, hpp]; exact newSimpleURL_page hsu
  have hrules : ∀ r ∈ u.params.sortingRules, r ≠ [] ∧ (44 : UInt8) ∉ r := by
    rw [e_params, hps]
    intro r hr
    by_cases hc : pIsCol σ su = true
    · exact rule_ok (fun a ha => ⟨(hnames a ha).1, (hnames a ha).2.1⟩)
        ((pRules_facts σ su u.resType hc).2.1 r hr)
    · unfold pRules at hr; simp [hc] at hr
  have hexcl : u.params.filter = none ∨ u.params.filterLabel = [] := by
    rw [e_params, hpf, hpl]; exact newSimpleURL_excl hvnd hsu
  obtain ⟨su', hsu', s1, s2, s3, s4, s5, s6, s7, s8⟩ :=
    reparse_simple u env fd' hfr hkeys hfld hpage hrules hexcl hfilter hlabel
  have hne' : ∀ t fs, p.fields.get? t = some fs → fs ≠ [] := by rw [← e_params]; exact hne
  obtain ⟨p', hp', q1, q2, q3, q4, q5, q6, q7⟩ :=
    reparse_params hσ su su' u.resType p hrt hp hne' (fun a ha => (hnames a ha).2.2)
      (s1.trans e_fr) (by rw [← e_params]; exact s2) s7 (by rw [← e_params]; exact s5)
  refine ⟨{ u0 with params := p' }, ?_, ?_, ?_, ?_, ?_, ?_, ?_, q2, ?_, ?_, ?_, ?_, ?_, q7⟩
  · unfold newURLFrom
    simp only [hsu']
    rw [newURL_eq, s1.trans e_fr, hu0]
    simp only []
    rw [← e_rt, hp']
  · rw [hue]
  · rw [hue]
  · rw [hue]
  · rw [hue]
  · rw [hue]
  · intro t; rw [e_params]; exact q1 t
  · rw [e_params]; exact q3
  · intro hc k
    show p'.page.get? k = _
    rw [q4]; exact s6 hc k
  · show (keys p'.page).Nodup
    rw [q4]; exact s8
  · show p'.filterLabel = _
    rw [q5, s3]
  · show p'.filter = _
    rw [q6, s4]


/-! ### evaluating `newURLFrom` on concrete inputs without inclusions

(`checkInclusions` is defined by well-founded recursion and does not reduce under `decide`;
this lemma steps around it.) -/

theorem eval_no_incl (σ : Schema) (path : GoString) (values : GoMap (List GoString))
    (fd : FilterDec) (su : SimpleURL) (u0 : URL) (fm : GoMap (List GoString))
    (hs : newSimpleURL path values fd = .ok su) (hi : su.incl = [])
    (hh : urlHead σ su.fragments = .ok u0) (hrt : u0.resType ≠ [])
    (hf : rfold (fieldStep σ u0.resType) (.ok [(u0.resType, [])]) su.fields = .ok fm) :
    newURLFrom σ (some (path, values, fd)) =
      .ok { u0 with params :=
        { fields := fillDefault σ fm, filterLabel := su.filterLabel, filter := su.filter,
          sortingRules := pRules σ su u0.resType, page := su.page, incl := [] } } := by
  unfold newURLFrom
  simp only [hs]
  rw [newURL_eq, hh]
  simp only []
  rw [newParams_eq]
  have : pFieldsRes σ su u0.resType = .ok fm := by
    unfold pFieldsRes
    rw [pFields1_no_incl σ su _ hi hrt]; exact hf
  rw [this]
  simp only []
  rw [pIncl_no_incl σ su _ hi]

end Jsonapi.UrlL
