/-
The codec laws of `Spec.Codecs` are satisfiable: a decoder for the model's own base64
encoder (so `b64enc` is injective and `Spec.Codecs` is inhabited), and a time decoder that
knows one instant (the parametric theorems are instantiated with the real decoders by the
correspondence harness; inverting `formatTime` in Lean is not attempted).
-/
import Jsonapi.Spec.RoundTrip
namespace Jsonapi
namespace RtL


/-- value of a base64 (StdEncoding) alphabet byte -/
def b64Val (c : UInt8) : Nat :=
  let x := c.toNat
  if 65 ≤ x ∧ x ≤ 90 then x - 65
  else if 97 ≤ x ∧ x ≤ 122 then x - 71
  else if 48 ≤ x ∧ x ≤ 57 then x + 4
  else if x = 43 then 62 else 63

theorem b64Val_b64Char : ∀ n, n < 64 → b64Val (b64Char n) = n ∧ b64Char n ≠ 61 := by decide

/-- a decoder for what `b64enc` writes (padded StdEncoding) -/
def b64decode : List UInt8 → Option (List UInt8)
  | [] => some []
  | a :: b :: c :: d :: rest =>
    if c = 61 ∧ d = 61 ∧ rest = [] then
      some [UInt8.ofNat ((b64Val a * 64 + b64Val b) / 16)]
    else if d = 61 ∧ rest = [] then
      let n := b64Val a * 4096 + b64Val b * 64 + b64Val c
      some [UInt8.ofNat (n / 1024), UInt8.ofNat ((n / 4) % 256)]
    else
      let n := b64Val a * 262144 + b64Val b * 4096 + b64Val c * 64 + b64Val d
      match b64decode rest with
      | some r => some (UInt8.ofNat (n / 65536) :: UInt8.ofNat ((n / 256) % 256) :: UInt8.ofNat (n % 256) :: r)
      | none => none
  | _ => none

theorem ofNat_of_eq (a : UInt8) (n : Nat) (h : n = a.toNat) : UInt8.ofNat n = a := by
  subst h; simp

theorem b64decode_b64enc (l : List UInt8) : b64decode (b64enc l) = some l := by
  fun_induction b64enc l with
  | case1 => rfl
  | case2 a n =>
    have ha : n < 256 := a.toNat_lt
    obtain ⟨h1, -⟩ := b64Val_b64Char (n / 4) (by omega)
    obtain ⟨h2, -⟩ := b64Val_b64Char (n % 4 * 16) (by omega)
    simp only [b64decode, h1, h2, and_self, if_true]
    congr 2
    apply ofNat_of_eq
    omega
  | case3 a b n =>
    have ha : a.toNat < 256 := a.toNat_lt
    have hb : b.toNat < 256 := b.toNat_lt
    have hn : n = a.toNat * 256 + b.toNat := rfl
    obtain ⟨h1, -⟩ := b64Val_b64Char (n / 1024) (by omega)
    obtain ⟨h2, -⟩ := b64Val_b64Char (n / 16 % 64) (by omega)
    obtain ⟨h3, h3'⟩ := b64Val_b64Char (n % 16 * 4) (by omega)
    simp only [b64decode, h1, h2, h3, h3', false_and, if_false, and_self, if_true]
    congr 2
    · apply ofNat_of_eq; omega
    · congr 1; apply ofNat_of_eq; omega
  | case4 a b c rest n ih =>
    have ha : a.toNat < 256 := a.toNat_lt
    have hb : b.toNat < 256 := b.toNat_lt
    have hc : c.toNat < 256 := c.toNat_lt
    have hn : n = a.toNat * 65536 + b.toNat * 256 + c.toNat := rfl
    obtain ⟨h1, -⟩ := b64Val_b64Char (n / 262144) (by omega)
    obtain ⟨h2, -⟩ := b64Val_b64Char (n / 4096 % 64) (by omega)
    obtain ⟨h3, h3'⟩ := b64Val_b64Char (n / 64 % 64) (by omega)
    obtain ⟨h4, h4'⟩ := b64Val_b64Char (n % 64) (by omega)
    simp only [b64decode, h1, h2, h3, h4, h3', h4', false_and, if_false, ih]
    congr 2
    · apply ofNat_of_eq; omega
    · congr 1
      · apply ofNat_of_eq; omega
      · congr 1; apply ofNat_of_eq; omega


/-- An inhabitant of `Spec.Codecs`: base64 decoding as above; the time decoder recognises
the text of the one instant `t0` (so `TimeOk` is not empty). -/
def codecsFor (t0 : Time) : Spec.Codecs :=
  { parseTime := fun s => if s = formatTime t0 then some t0 else none
    b64dec := b64decode
    TimeOk := fun t => t = t0
    time_law := by intro t h; subst h; simp
    b64_law := b64decode_b64enc }

end RtL
end Jsonapi
