/-
The codec laws of `Spec.Codecs` are satisfiable, with real decoders (`Spec/Codec.lean`):
`Spec.b64decode` inverts the model's base64 encoder (proved here) and `Spec.parseRFC3339`
inverts `formatTime` on `Spec.TimeDom` (`Proofs/TimeCodecLemmas.lean`); `realCodecs` is
`Spec.Codecs` instantiated with them. `codecsFor` (a time decoder that knows one instant)
is kept for the older examples.
-/
import Jsonapi.Spec.RoundTrip
import Jsonapi.Spec.Codec
import Jsonapi.Proofs.TimeCodecLemmas
namespace Jsonapi
namespace RtL
open Spec


theorem b64Val_b64Char : ∀ n, n < 64 → b64Val (b64Char n) = n ∧ b64Char n ≠ 61 := by decide

theorem ofNat_of_eq (a : UInt8) (n : Nat) (h : n = a.toNat) : UInt8.ofNat n = a := by
  subst h; simp

theorem b64decode_b64enc (l : List UInt8) : b64decode (b64enc l) = some l := by
  fun_induction b64enc l with
  | case1 => rfl
  | case2 a n =>
    have ha : n < 256 := a.toNat_lt
    obtain ⟨h1, -⟩ := b64Val_b64Char (n / 4) (by omega)
    obtain ⟨h2, -⟩ := b64Val_b64Char (n % 4 * 16) (by omega)
    simp only [b64decode, h1, h2, and_self, if_true]
    congr 2
    apply ofNat_of_eq
    omega
  | case3 a b n =>
    have ha : a.toNat < 256 := a.toNat_lt
    have hb : b.toNat < 256 := b.toNat_lt
    have hn : n = a.toNat * 256 + b.toNat := rfl
    obtain ⟨h1, -⟩ := b64Val_b64Char (n / 1024) (by omega)
    obtain ⟨h2, -⟩ := b64Val_b64Char (n / 16 % 64) (by omega)
    obtain ⟨h3, h3'⟩ := b64Val_b64Char (n % 16 * 4) (by omega)
    simp only [b64decode, h1, h2, h3, h3', false_and, if_false, and_self, if_true]
    congr 2
    · apply ofNat_of_eq; omega
    · congr 1; apply ofNat_of_eq; omega
  | case4 a b c rest n ih =>
    have ha : a.toNat < 256 := a.toNat_lt
    have hb : b.toNat < 256 := b.toNat_lt
    have hc : c.toNat < 256 := c.toNat_lt
    have hn : n = a.toNat * 65536 + b.toNat * 256 + c.toNat := rfl
    obtain ⟨h1, -⟩ := b64Val_b64Char (n / 262144) (by omega)
    obtain ⟨h2, -⟩ := b64Val_b64Char (n / 4096 % 64) (by omega)
    obtain ⟨h3, h3'⟩ := b64Val_b64Char (n / 64 % 64) (by omega)
    obtain ⟨h4, h4'⟩ := b64Val_b64Char (n % 64) (by omega)
    simp only [b64decode, h1, h2, h3, h4, h3', h4', false_and, if_false, ih]
    congr 2
    · apply ofNat_of_eq; omega
    · congr 1
      · apply ofNat_of_eq; omega
      · congr 1; apply ofNat_of_eq; omega


/-- An inhabitant of `Spec.Codecs`: base64 decoding as above; the time decoder recognises
the text of the one instant `t0` (so `TimeOk` is not empty). -/
def codecsFor (t0 : Time) : Spec.Codecs :=
  { parseTime := fun s => if s = formatTime t0 then some t0 else none
    b64dec := b64decode
    TimeOk := fun t => t = t0
    time_law := by intro t h; subst h; simp
    b64_law := b64decode_b64enc }

/-- `Spec.Codecs` with the real decoders: RFC 3339 on `Spec.TimeDom` (local civil year
0..9999, nanoseconds below a second, whole-minute zone strictly within a day) and padded
StdEncoding base64. -/
def realCodecs : Spec.Codecs :=
  { parseTime := Spec.parseRFC3339
    b64dec := Spec.b64decode
    TimeOk := Spec.TimeDom
    time_law := parseRFC3339_formatTime
    b64_law := b64decode_b64enc }

end RtL
end Jsonapi
