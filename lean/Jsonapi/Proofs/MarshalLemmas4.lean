/-
Helper lemmas for C03, part 4: the top-level shape of whatever the model's
`marshalDocument` returns (no hypothesis on the document).
-/
import Jsonapi.Proofs.MarshalLemmas3
namespace Jsonapi.MarshalL
open Jsonapi

/-- the members of a top-level document object, for some body -/
def shapeMembers (doc : Document) (selfHref : GoString) (body : List (GoString × Json)) :
    List (GoString × Json) :=
  body ++ (if doc.dmeta.isEmpty then [] else [(K.kmeta, Json.obj doc.dmeta)]) ++
    [(K.links, Json.obj (sortMembers (docLinks doc selfHref))),
     (K.jsonapi, Json.obj [(K.version, .str K.v10)])]

def BodyKeys (body : List (GoString × Json)) : Prop :=
  body.map (·.1) = [K.errors] ∨ body.map (·.1) = [K.data] ∨
  body.map (·.1) = [K.data, K.included] ∨ body.map (·.1) = []

theorem marshalDocument_shape {doc : Document} {fields : GoMap (List GoString)}
    {selfHref : GoString} {t : Json} {doc' : Document}
    (h : marshalDocument doc fields selfHref = .ok (t, doc')) :
    ∃ body, BodyKeys body ∧ t = .obj (sortMembers (shapeMembers doc selfHref body)) := by
  unfold marshalDocument at h
  simp only [] at h
  split at h
  · split at h
    · rename_i data data' _ incs incs' _
      simp only [Res.ok.injEq, Prod.mk.injEq] at h
      refine ⟨_, ?_, h.1.symm⟩
      unfold BodyKeys
      split
      · exact Or.inl rfl
      · cases incs.isEmpty
        · exact Or.inr (Or.inr (Or.inl rfl))
        · exact Or.inr (Or.inl rfl)
      · exact Or.inr (Or.inr (Or.inr rfl))
    · cases h
    · cases h
  · cases h
  · cases h

theorem shapeMembers_keys (doc : Document) (selfHref : GoString) (body : List (GoString × Json)) :
    (shapeMembers doc selfHref body).map (·.1) =
      body.map (·.1) ++ (if doc.dmeta.isEmpty then [] else [K.kmeta]) ++ [K.links, K.jsonapi] := by
  unfold shapeMembers
  cases doc.dmeta.isEmpty <;> simp

theorem toplevel_of_shape (doc : Document) (selfHref : GoString) (body : List (GoString × Json))
    (hb : BodyKeys body) (t : Json)
    (ht : t = .obj (sortMembers (shapeMembers doc selfHref body))) :
    t.isObj = true ∧ t.has K.jsonapi = true ∧
    (∃ l, t.get? K.links = some l ∧ l.get? K.self = some (.str selfHref)) ∧
    ¬ (t.has K.data = true ∧ t.has K.errors = true) ∧
    (t.has K.included = true → t.has K.data = true) := by
  subst ht
  have hk := shapeMembers_keys doc selfHref body
  have hnd : ((shapeMembers doc selfHref body).map (·.1)).Nodup := by
    rw [hk]
    rcases hb with h | h | h | h <;> rw [h] <;> cases doc.dmeta.isEmpty <;> decide
  refine ⟨rfl, ?_, ?_, ?_, ?_⟩
  · rw [has_sortMembers, hk]; simp
  · exact ⟨_, get?_sortMembers_of_mem hnd (by simp [shapeMembers]), docLinks_self doc selfHref⟩
  · rw [has_sortMembers, has_sortMembers, hk]
    rcases hb with h | h | h | h <;> rw [h] <;> cases doc.dmeta.isEmpty <;> decide
  · rw [has_sortMembers, has_sortMembers, hk]
    rcases hb with h | h | h | h <;> rw [h] <;> cases doc.dmeta.isEmpty <;> decide

end Jsonapi.MarshalL
