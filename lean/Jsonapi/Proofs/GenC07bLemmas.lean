/-
Lemmas and definitions for Props/GenC07b: how the structures the translator generates from the
Go struct declarations (`Gen.SimpleURL`, `Gen.Params`, `Gen.URL`) are read as the hand-written
model's (`SimpleURL`, `Params`, `URL` of Model/Url.lean), how a Go result pair `(*T, error)` /
`(T, error)` is read as the model's `Res`, and the list facts the proofs use.
-/
import Jsonapi.Generated.Funcs
import Jsonapi.Model.Url
import Jsonapi.Proofs.UrlLemmas
namespace Jsonapi

/-- the model's view of a translated `SimpleURL` (the model does not keep `Route`) -/
def SimpleURL.ofGen (g : Gen.SimpleURL) : SimpleURL :=
  { fragments := g.fragments, fields := g.fields, filterLabel := g.filterLabel, filter := g.filter,
    sortingRules := g.sortingRules, page := g.page, incl := g.include_ }

/-- the model's view of a translated `Params` (the model does not keep `Attrs`, `Rels`, `RelData`) -/
def Params.ofGen (g : Gen.Params) : Params :=
  { fields := g.fields, filterLabel := g.filterLabel, filter := g.filter,
    sortingRules := g.sortingRules, page := g.page, incl := g.include_ }

/-- the model's view of a translated `URL` (the model does not keep `Route`, `RelKind`,
`BelongsToFilter`; a nil `Params` pointer reads as the default) -/
def URL.ofGen (g : Gen.URL) : URL :=
  { fragments := g.fragments, isCol := g.isCol, resType := g.resType, resID := g.resID, rel := g.rel,
    params := (g.params.map Params.ofGen).getD default }

/-- A Go result `(*T, error)` represents the model's outcome `m` through the view `f`:
`(p, nil)` with `p` non-nil and `f *p` the model's value, or `(nil, err)` with `err` non-nil. -/
def PtrPairIs {α β : Type} (f : α → β) (r : Option α × Res Unit) (m : Res β) : Prop :=
  match m with
  | .ok b => ∃ a, r = (some a, .ok ()) ∧ f a = b
  | .err => r = (none, .err)
  | .panic => r = (none, .panic)

/-- A Go result `(T, error)` represents the model's outcome `m` through the view `f`: the error
is nil exactly when the model succeeds, and then `f` of the value is the model's value (the
value that accompanies a non-nil error is not compared: the model drops it). -/
def ValPairIs {α β : Type} (f : α → β) (r : α × Res Unit) (m : Res β) : Prop :=
  match m with
  | .ok b => r.2 = .ok () ∧ f r.1 = b
  | .err => r.2 = .err
  | .panic => r.2 = .panic

namespace GenC07b
open GoMap

theorem getD_length_sub_one (l : List GoString) :
    l.getD (l.length - 1) [] = l.getLast?.getD [] := by
  induction l with
  | nil => rfl
  | cons a t ih =>
    cases t with
    | nil => rfl
    | cons b t' =>
      have : (a :: b :: t').length - 1 = (b :: t').length - 1 + 1 := by
        simp only [List.length_cons]; omega
      rw [this, List.getD_cons_succ, ih]
      simp [List.getLast?_cons_cons]

theorem isSuffixOf_singleton (c : UInt8) (l : GoString) : List.isSuffixOf [c] l = decide (l.getLast? = some c) := by
  rw [Bool.eq_iff_iff, List.isSuffixOf_iff_suffix, decide_eq_true_iff, List.getLast?_eq_some_iff]
  constructor
  · rintro ⟨t, h⟩; exact ⟨t, h.symm⟩
  · rintro ⟨t, h⟩; exact ⟨t, h.symm⟩

theorem take_drop_dropLast (l : GoString) (k : Nat) : List.drop k (List.take (l.length - 1) l) = (l.drop k).dropLast := by
  rw [List.dropLast_eq_take, List.length_drop, List.drop_take]
  congr 1
  omega

theorem int_lt_length (k : Nat) (l : GoString) : decide ((k : Int) < (l.length : Int)) = decide (l.length > k) := by
  simp

theorem foldl_append_flatMap {α β : Type} (f : α → List β) (l : List α) (acc : List β) :
    l.foldl (fun acc x => acc ++ f x) acc = acc ++ l.flatMap f := by
  induction l generalizing acc with
  | nil => simp
  | cons a t ih => simp [ih]

theorem get?_of_mem_nodup {β} : ∀ (m : GoMap β) (k : GoString) (v : β), (GoMap.keys m).Nodup → (k, v) ∈ m → GoMap.get? m k = some v
  | [], _, _, _, h => by cases h
  | (k', v') :: rest, k, v, hn, h => by
    unfold GoMap.get?
    have hn' : k' ∉ GoMap.keys rest ∧ (GoMap.keys rest).Nodup := by
      simpa [GoMap.keys] using hn
    rcases List.mem_cons.1 h with h | h
    · cases h; simp
    · have : k' ≠ k := by
        intro e; subst e
        exact hn'.1 (List.mem_map.2 ⟨(k', v), h, rfl⟩)
      simp only [this, if_false]
      exact get?_of_mem_nodup rest k v hn'.2 h

/-- a loop with early exit, as the translator renders it (the state carries `ret'`), against the
model's fold over a `Res` that stops at the first error -/
theorem fold_early {α σ τ ρ : Type} (f : σ × Option ρ → α → σ × Option ρ) (g : τ → α → Res τ)
    (G : Res τ → α → Res τ) (hGok : ∀ t a, G (.ok t) a = g t a) (hGerr : ∀ a, G .err a = .err)
    (R : σ → τ → Prop) (P : ρ → Prop) (I : List α → σ → Prop)
    (hstep : ∀ a rest s t, I (a :: rest) s → R s t →
      match g t a with
      | .ok t' => ∃ s', f (s, none) a = (s', none) ∧ R s' t' ∧ I rest s'
      | .err => ∃ s' r, f (s, none) a = (s', some r) ∧ P r ∧ ∀ b, f (s', some r) b = (s', some r)
      | .panic => False) :
    ∀ (l : List α) (s : σ) (t : τ), I l s → R s t →
      match l.foldl G (.ok t) with
      | .ok t' => ∃ s', l.foldl f (s, none) = (s', none) ∧ R s' t'
      | .err => ∃ s' r, l.foldl f (s, none) = (s', some r) ∧ P r
      | .panic => False := by
  intro l
  induction l with
  | nil => intro s t _ hR; exact ⟨s, rfl, hR⟩
  | cons a rest ih =>
    intro s t hI hR
    have h := hstep a rest s t hI hR
    simp only [List.foldl_cons, hGok]
    revert h
    cases hg : g t a with
    | ok t' =>
      rintro ⟨s', hf, hR', hI'⟩
      rw [hf]
      exact ih s' t' hI' hR'
    | err =>
      rintro ⟨s', r, hf, hP, hstop⟩
      rw [hf]
      have e1 : ∀ l : List α, l.foldl f (s', some r) = (s', some r) := by
        intro l; induction l with
        | nil => rfl
        | cons b l ih => simp only [List.foldl_cons, hstop, ih]
      have e2 : ∀ l : List α, l.foldl G (Res.err : Res τ) = .err := by
        intro l; induction l with
        | nil => rfl
        | cons b l ih => simp only [List.foldl_cons, hGerr, ih]
      rw [e1, e2]
      exact ⟨s', r, rfl, hP⟩
    | panic => intro h; exact h.elim


/-- `fold_early` with the conclusion as implications (no `match`, so that it unifies with a goal
written elsewhere) -/
theorem fold_early' {α σ τ ρ : Type} (f : σ × Option ρ → α → σ × Option ρ) (g : τ → α → Res τ)
    (G : Res τ → α → Res τ) (hGok : ∀ t a, G (.ok t) a = g t a) (hGerr : ∀ a, G .err a = .err)
    (R : σ → τ → Prop) (P : ρ → Prop) (I : List α → σ → Prop)
    (hstep : ∀ a rest s t, I (a :: rest) s → R s t →
      match g t a with
      | .ok t' => ∃ s', f (s, none) a = (s', none) ∧ R s' t' ∧ I rest s'
      | .err => ∃ s' r, f (s, none) a = (s', some r) ∧ P r ∧ ∀ b, f (s', some r) b = (s', some r)
      | .panic => False)
    (l : List α) (s : σ) (t : τ) (hI : I l s) (hR : R s t) :
    (∀ t', l.foldl G (.ok t) = .ok t' → ∃ s', l.foldl f (s, none) = (s', none) ∧ R s' t') ∧
    (l.foldl G (.ok t) = .err → ∃ s' r, l.foldl f (s, none) = (s', some r) ∧ P r) ∧
    l.foldl G (.ok t) ≠ .panic := by
  have h := fold_early f g G hGok hGerr R P I hstep l s t hI hR
  revert h
  cases l.foldl G (.ok t) with
  | ok t' =>
    intro h
    refine ⟨?_, ?_, ?_⟩
    · intro t'' e; cases e; exact h
    · intro e; cases e
    · intro e; cases e
  | err =>
    intro h
    refine ⟨?_, ?_, ?_⟩
    · intro t'' e; cases e
    · intro _; exact h
    · intro e; cases e
  | panic => intro h; exact h.elim

/-- `fold_early` followed by the statements after the loop: `out` is the value returned in the
loop if any, else the `return s, nil` after it. (Stated with `out` and `X` as variables so that
it applies to the translated text without unifying `match` expressions.) -/
theorem fold_final {α σ τ : Type} (view : σ → τ) (f : σ × Option (σ × Res Unit) → α → σ × Option (σ × Res Unit))
    (g : τ → α → Res τ) (G : Res τ → α → Res τ) (hGok : ∀ t a, G (.ok t) a = g t a) (hGerr : ∀ a, G .err a = .err)
    (I : List α → σ → Prop)
    (hstep : ∀ a rest s t, I (a :: rest) s → view s = t →
      match g t a with
      | .ok t' => ∃ s', f (s, none) a = (s', none) ∧ view s' = t' ∧ I rest s'
      | .err => ∃ s' r, f (s, none) a = (s', some r) ∧ r.2 = Res.err ∧ ∀ b, f (s', some r) b = (s', some r)
      | .panic => False)
    (l : List α) (init : σ) (t0 : τ) (hI : I l init) (h0 : view init = t0)
    (X : σ × Option (σ × Res Unit)) (hX : l.foldl f (init, none) = X) (out : σ × Res Unit)
    (hnone : X.2 = none → out = (X.1, Res.ok ())) (hsome : ∀ r, X.2 = some r → out = r) :
    ValPairIs view out (l.foldl G (.ok t0)) := by
  have h := fold_early f g G hGok hGerr (fun s t => view s = t) (fun r => r.2 = Res.err) I hstep l init t0 hI h0
  revert h
  cases l.foldl G (.ok t0) with
  | ok t' =>
    rintro ⟨s', h1, h2⟩
    rw [h1] at hX; subst hX
    rw [hnone rfl]; exact ⟨rfl, h2⟩
  | err =>
    rintro ⟨s', r, h1, h2⟩
    rw [h1] at hX; subst hX
    rw [hsome r rfl]; exact h2
  | panic => intro h; exact h.elim

theorem foldl_sorting (f : GoString → List GoString) (vs : List GoString) (s : Gen.SimpleURL) :
    vs.foldl (fun (g : Gen.SimpleURL) e => { g with sortingRules := g.sortingRules ++ f e }) s =
      { s with sortingRules := s.sortingRules ++ vs.flatMap f } := by
  induction vs generalizing s with
  | nil => cases s; simp
  | cons a t ih => simp [ih, List.append_assoc]

theorem foldl_include (f : GoString → List GoString) (vs : List GoString) (s : Gen.SimpleURL) :
    vs.foldl (fun (g : Gen.SimpleURL) e => { g with include_ := g.include_ ++ f e }) s =
      { s with include_ := s.include_ ++ vs.flatMap f } := by
  induction vs generalizing s with
  | nil => cases s; simp
  | cons a t ih => simp [ih, List.append_assoc]

theorem foldl_ext {α β : Type} (f g : β → α → β) (h : ∀ s a, f s a = g s a) (l : List α) (init : β) :
    l.foldl f init = l.foldl g init := by
  induction l generalizing init with
  | nil => rfl
  | cons a t ih => simp only [List.foldl_cons, h, ih]

theorem foldl_append_map {α β : Type} (f : α → β) (l : List α) (acc : List β) :
    l.foldl (fun acc x => acc ++ [f x]) acc = acc ++ l.map f := by
  induction l generalizing acc with
  | nil => simp
  | cons a t ih => simp [ih]

/-- `make([]string, len(l))` followed by `copy(dst, l)` -/
theorem make_copy (l : List GoString) :
    (l.take (List.replicate l.length ([] : GoString)).length) ++ ((List.replicate l.length ([] : GoString)).drop l.length) = l := by
  simp

/-! ### the pruning loop (params.go, right to left) -/

def pruneStep (incs : List GoString) (i : Nat) : List GoString :=
  if (decide ((0 : Int) < Int.ofNat i)) then
    (if (decide (incs.getD i [] = incs.getD (i - 1) []) || hasPrefix (incs.getD i []) (incs.getD (i - 1) [] ++ [46])) then
      incs.take (i - 1) ++ incs.drop i
    else incs)
  else incs

theorem pruneIncludes_ne_nil (a : GoString) (l : List GoString) : pruneIncludes (a :: l) ≠ [] := by
  unfold pruneIncludes
  split
  · simp
  · split <;> simp

theorem getD_append_at {α : Type} (pre : List α) (a : α) (suf : List α) (d : α) :
    (pre ++ a :: suf).getD pre.length d = a := by
  rw [List.getD_eq_getElem?_getD, List.getElem?_append_right (Nat.le_refl _)]; simp

theorem pruneStep_at (pre : List GoString) (a b : GoString) (rest' : List GoString) :
    pruneStep (pre ++ a :: b :: rest') (pre.length + 1) =
      pre ++ (if extendsPath b a then b :: rest' else a :: b :: rest') := by
  have g1 : (pre ++ a :: b :: rest').getD (pre.length + 1) [] = b := by
    have := getD_append_at (pre ++ [a]) b rest' ([] : GoString)
    simpa using this
  have g0 : (pre ++ a :: b :: rest').getD (pre.length + 1 - 1) [] = a := by
    simpa using getD_append_at pre a (b :: rest') ([] : GoString)
  have t0 : (pre ++ a :: b :: rest').take (pre.length + 1 - 1) = pre := by
    simp
  have d0 : (pre ++ a :: b :: rest').drop (pre.length + 1) = b :: rest' := by
    have := List.drop_left' (l₁ := pre ++ [a]) (l₂ := b :: rest') (i := pre.length + 1) (by simp)
    simpa using this
  have hpos : decide ((0 : Int) < Int.ofNat (pre.length + 1)) = true := by
    simp only [decide_eq_true_eq, Int.ofNat_eq_natCast]; omega
  unfold pruneStep extendsPath
  rw [hpos, g1, g0, t0, d0]
  simp only [if_true]
  by_cases h : (decide (b = a) || hasPrefix b (a ++ [46])) = true
  · simp only [h, if_true]
  · simp only [h]; simp

theorem pruneStep_zero (l : List GoString) : pruneStep l 0 = l := by
  simp [pruneStep]

theorem prune_fold_aux : ∀ (n : Nat) (pre suf : List GoString), pre.length = n → suf ≠ [] →
    (List.range (n + 1)).reverse.foldl pruneStep (pre ++ pruneIncludes suf) = pruneIncludes (pre ++ suf) := by
  intro n
  induction n with
  | zero =>
    intro pre suf hp _
    have : pre = [] := List.eq_nil_of_length_eq_zero hp
    subst this
    simp [pruneStep_zero]
  | succ n ih =>
    intro pre suf hp hs
    rcases List.eq_nil_or_concat pre with h | ⟨pre', a, h⟩
    · subst h; simp at hp
    · subst h
      have hp' : pre'.length = n := by simpa using hp
      rw [List.range_succ, List.reverse_append, List.reverse_singleton, List.singleton_append, List.foldl_cons]
      obtain ⟨s0, srest, hs0⟩ : ∃ s0 srest, suf = s0 :: srest := by
        cases suf with
        | nil => exact absurd rfl hs
        | cons s0 srest => exact ⟨s0, srest, rfl⟩
      obtain ⟨b, rest', hb⟩ : ∃ b rest', pruneIncludes suf = b :: rest' := by
        cases h : pruneIncludes suf with
        | nil => rw [hs0] at h; exact absurd h (pruneIncludes_ne_nil _ _)
        | cons b r => exact ⟨b, r, rfl⟩
      have e1 : pre'.concat a ++ pruneIncludes suf = pre' ++ a :: b :: rest' := by
        rw [hb]; simp
      have e2 : pruneStep (pre' ++ a :: b :: rest') (n + 1) = pre' ++ pruneIncludes (a :: suf) := by
        rw [← hp', pruneStep_at]
        congr 1
        rw [pruneIncludes, hb]
      rw [e1, e2]
      have := ih pre' (a :: suf) hp' (by simp)
      rw [this]
      simp

theorem prune_fold (l : List GoString) :
    (List.range l.length).reverse.foldl pruneStep l = pruneIncludes l := by
  rcases List.eq_nil_or_concat l with h | ⟨pre, a, h⟩
  · subst h; rfl
  · subst h
    have := prune_fold_aux pre.length pre [a] rfl (by simp)
    simpa [pruneIncludes] using this

/-! ### the inclusion check loop (params.go "Check inclusions") -/

def zeroRel : Rel := { fromType := [], fromName := [], toOne := false, toType := [], toName := [], fromOne := false }

/-- one word of one include, as the translated inner loop does it; the state is
(incRel, incs, params, brk') -/
def walkStep (σ : Schema) (i : Nat) (st : Rel × List GoString × Gen.Params × Bool) (w : GoString) :
    Rel × List GoString × Gen.Params × Bool :=
  if st.2.2.2 then st else
  if (σ.getType st.1.toType).name ≠ [] then
    match (σ.getType st.1.toType).rels.get? w with
    | some rel =>
      if σ.hasType rel.toType then
        (rel, st.2.1, { st.2.2.1 with fields := GoMap.set st.2.2.1.fields rel.toType [] }, false)
      else (rel, st.2.1.take i ++ st.2.1.drop (i + 1), st.2.2.1, true)
    | none => (zeroRel, st.2.1.take i ++ st.2.1.drop (i + 1), st.2.2.1, true)
  else (st.1, st.2.1, st.2.2.1, false)

theorem walk_brk (σ : Schema) (i : Nat) (ws : List GoString) (st : Rel × List GoString × Gen.Params × Bool)
    (h : st.2.2.2 = true) : ws.foldl (walkStep σ i) st = st := by
  induction ws with
  | nil => rfl
  | cons w ws ih =>
    have : walkStep σ i st w = st := by unfold walkStep; simp [h]
    simp only [List.foldl_cons, this, ih]

theorem walk_fold (σ : Schema) (i : Nat) : ∀ (ws : List GoString) (rel : Rel) (incs : List GoString) (p : Gen.Params),
    ∃ rel', ws.foldl (walkStep σ i) (rel, incs, p, false) =
      (rel', (if (checkInclusions.walk σ rel.toType ws).2 then incs else incs.take i ++ incs.drop (i + 1)),
        { p with fields := (checkInclusions.walk σ rel.toType ws).1.foldl (fun (m : GoMap (List GoString)) t => m.set t []) p.fields },
        !(checkInclusions.walk σ rel.toType ws).2) := by
  intro ws
  induction ws with
  | nil => intro rel incs p; exact ⟨rel, by simp [checkInclusions.walk]⟩
  | cons w ws ih =>
    intro rel incs p
    simp only [List.foldl_cons]
    unfold checkInclusions.walk
    by_cases hn : (σ.getType rel.toType).name = []
    · have e : walkStep σ i (rel, incs, p, false) w = (rel, incs, p, false) := by
        unfold walkStep; simp [hn]
      rw [e]
      simp only [hn, if_true]
      exact ih rel incs p
    · cases hr : (σ.getType rel.toType).rels.get? w with
      | none =>
        have e : walkStep σ i (rel, incs, p, false) w = (zeroRel, incs.take i ++ incs.drop (i + 1), p, true) := by
          unfold walkStep; simp [hn, hr]
        rw [e, walk_brk _ _ _ _ rfl]
        exact ⟨zeroRel, by simp [hn, hr]⟩
      | some r =>
        by_cases ht : σ.hasType r.toType = true
        · have e : walkStep σ i (rel, incs, p, false) w =
              (r, incs, { p with fields := GoMap.set p.fields r.toType [] }, false) := by
            unfold walkStep; simp [hn, hr, ht]
          rw [e]
          obtain ⟨rel', h'⟩ := ih r incs { p with fields := GoMap.set p.fields r.toType [] }
          refine ⟨rel', ?_⟩
          rw [h']
          simp [hn, hr, ht]
        · have e : walkStep σ i (rel, incs, p, false) w = (r, incs.take i ++ incs.drop (i + 1), p, true) := by
            unfold walkStep; simp [hn, hr, ht]
          rw [e, walk_brk _ _ _ _ rfl]
          exact ⟨r, by simp [hn, hr, ht]⟩

theorem walk_false_resolve (σ : Schema) : ∀ (ws : List GoString) (cur : GoString),
    (checkInclusions.walk σ cur ws).2 = false → resolvePath.go σ cur ws = none := by
  intro ws
  induction ws with
  | nil => intro cur h; simp [checkInclusions.walk] at h
  | cons w ws ih =>
    intro cur h
    unfold checkInclusions.walk at h
    unfold resolvePath.go
    by_cases hn : (σ.getType cur).name = []
    · cases hr : (σ.getType cur).rels.get? w <;> simp [hn, hr]
    · cases hr : (σ.getType cur).rels.get? w with
      | none => simp [hr]
      | some r =>
        by_cases ht : σ.hasType r.toType = true
        · simp only [hn, hr, ht, if_false, if_true] at h
          have := ih r.toType h
          simp [hn, hr, ht, this]
        · simp [hr, ht]

def checkStep (σ : Schema) (rt : GoString) (st : List GoString × Gen.Params) (i : Nat) : List GoString × Gen.Params :=
  if !(decide (i < st.1.length)) then st else
    ((((splitOn 46 (st.1.getD i [])).foldl (walkStep σ i) ({ zeroRel with toType := rt }, st.1, st.2, false)).2.1),
     (((splitOn 46 (st.1.getD i [])).foldl (walkStep σ i) ({ zeroRel with toType := rt }, st.1, st.2, false)).2.2.1))

theorem check_noop (σ : Schema) (rt : GoString) (l : List GoString) (p : Gen.Params) :
    ∀ (k s : Nat), l.length ≤ s → (List.range' s k).foldl (checkStep σ rt) (l, p) = (l, p) := by
  intro k
  induction k with
  | zero => intro s _; rfl
  | succ k ih =>
    intro s hs
    rw [List.range'_succ, List.foldl_cons]
    have : checkStep σ rt (l, p) s = (l, p) := by
      unfold checkStep
      have : ¬ s < l.length := by omega
      simp [this]
    rw [this]
    exact ih (s + 1) (by omega)

theorem checkInclusions_cons_ok (σ : Schema) (rt inc : GoString) (rest : List GoString)
    (h : (checkInclusions.walk σ rt (splitOn 46 inc)).2 = true) :
    checkInclusions σ rt (inc :: rest) = (checkInclusions.walk σ rt (splitOn 46 inc)).1 ++ checkInclusions σ rt rest := by
  conv => lhs; rw [checkInclusions.eq_def]
  simp [h]

theorem checkInclusions_cons_bad (σ : Schema) (rt inc : GoString) (rest : List GoString)
    (h : (checkInclusions.walk σ rt (splitOn 46 inc)).2 = false) :
    checkInclusions σ rt (inc :: rest) = (checkInclusions.walk σ rt (splitOn 46 inc)).1 ++ checkInclusions σ rt rest.tail := by
  conv => lhs; rw [checkInclusions.eq_def]
  cases rest with
  | nil => simp [h, checkInclusions]
  | cons r rest' => simp [h]

theorem check_fold (σ : Schema) (rt : GoString) : ∀ (k : Nat) (pre suf : List GoString) (p : Gen.Params),
    suf.length ≤ k →
    ∃ suf', (List.range' pre.length k).foldl (checkStep σ rt) (pre ++ suf, p) =
        (pre ++ suf', { p with fields := (checkInclusions σ rt suf).foldl (fun (m : GoMap (List GoString)) t => m.set t []) p.fields }) ∧
      suf'.filterMap (fun inc => resolvePath σ rt (splitOn 46 inc)) =
        suf.filterMap (fun inc => resolvePath σ rt (splitOn 46 inc)) := by
  intro k
  induction k with
  | zero =>
    intro pre suf p hs
    have : suf = [] := List.eq_nil_of_length_eq_zero (by omega)
    subst this
    refine ⟨[], ?_, rfl⟩
    simp [checkInclusions]
  | succ k ih =>
    intro pre suf p hs
    cases suf with
    | nil =>
      refine ⟨[], ?_, rfl⟩
      rw [check_noop σ rt _ p _ _ (by simp)]
      simp [checkInclusions]
    | cons inc rest =>
      rw [List.range'_succ, List.foldl_cons]
      obtain ⟨rel', hw⟩ := walk_fold σ pre.length (splitOn 46 inc) { zeroRel with toType := rt } (pre ++ inc :: rest) p
      have hstep : checkStep σ rt (pre ++ inc :: rest, p) pre.length =
          ((if (checkInclusions.walk σ rt (splitOn 46 inc)).2 then pre ++ inc :: rest else pre ++ rest),
           { p with fields := (checkInclusions.walk σ rt (splitOn 46 inc)).1.foldl (fun (m : GoMap (List GoString)) t => m.set t []) p.fields }) := by
        unfold checkStep
        have hlt : pre.length < (pre ++ inc :: rest).length := by simp
        have hget : (pre ++ inc :: rest).getD pre.length [] = inc := getD_append_at pre inc rest []
        simp only [hlt, decide_true, Bool.not_true, Bool.false_eq_true, if_false, hget, hw]
        congr 1
        split
        · rfl
        · have t0 : (pre ++ inc :: rest).take pre.length = pre := by simp
          have d0 : (pre ++ inc :: rest).drop (pre.length + 1) = rest := by
            have := List.drop_left' (l₁ := pre ++ [inc]) (l₂ := rest) (i := pre.length + 1) (by simp)
            simpa using this
          rw [t0, d0]
      rw [hstep]
      cases hok : (checkInclusions.walk σ rt (splitOn 46 inc)).2 with
      | true =>
        simp only [if_true]
        obtain ⟨s', h1, h2⟩ := ih (pre ++ [inc]) rest
          { p with fields := (checkInclusions.walk σ rt (splitOn 46 inc)).1.foldl (fun (m : GoMap (List GoString)) t => m.set t []) p.fields }
          (by simp at hs; omega)
        refine ⟨inc :: s', ?_, ?_⟩
        · have e : (pre ++ [inc]).length = pre.length + 1 := by simp
          rw [e] at h1
          simp only [List.append_assoc, List.singleton_append] at h1
          rw [h1, checkInclusions_cons_ok σ rt inc rest hok, List.foldl_append]
        · simp only [List.filterMap_cons, h2]
      | false =>
        simp only [Bool.false_eq_true, if_false]
        have hres : resolvePath σ rt (splitOn 46 inc) = none := walk_false_resolve σ _ _ hok
        cases rest with
        | nil =>
          refine ⟨[], ?_, ?_⟩
          · rw [check_noop σ rt _ _ _ _ (by simp)]
            rw [checkInclusions_cons_bad σ rt inc [] hok]
            simp [checkInclusions]
          · simp [hres]
        | cons r rest' =>
          obtain ⟨s', h1, h2⟩ := ih (pre ++ [r]) rest'
            { p with fields := (checkInclusions.walk σ rt (splitOn 46 inc)).1.foldl (fun (m : GoMap (List GoString)) t => m.set t []) p.fields }
            (by simp at hs; omega)
          refine ⟨r :: s', ?_, ?_⟩
          · have e : (pre ++ [r]).length = pre.length + 1 := by simp
            rw [e] at h1
            simp only [List.append_assoc, List.singleton_append] at h1
            rw [h1, checkInclusions_cons_bad σ rt inc (r :: rest') hok, List.foldl_append]
            rfl
          · simp only [List.filterMap_cons, h2, hres]

/-! ### building `params.Include` -/

/-- one word of one include in the loop that builds the path; the state is (incRel, path, brk') with
`path : Option (List Rel)` (a slice that is set to nil on failure) -/
def pathStep (σ : Schema) (st : Rel × Option (List Rel) × Bool) (w : GoString) : Rel × Option (List Rel) × Bool :=
  if st.2.2 then st else
  match (σ.getType st.1.toType).rels.get? w with
  | some rel =>
    if (decide ((σ.getType st.1.toType).name = []) || !σ.hasType rel.toType) then (st.1, none, true)
    else (rel, some (st.2.1.getD [] ++ [rel]), false)
  | none => (st.1, none, true)

theorem path_brk (σ : Schema) (ws : List GoString) (st : Rel × Option (List Rel) × Bool) (h : st.2.2 = true) :
    ws.foldl (pathStep σ) st = st := by
  induction ws with
  | nil => rfl
  | cons w ws ih =>
    have : pathStep σ st w = st := by unfold pathStep; simp [h]
    simp only [List.foldl_cons, this, ih]

theorem path_fold (σ : Schema) : ∀ (ws : List GoString) (rel : Rel) (acc : List Rel),
    ∃ rel' b, ws.foldl (pathStep σ) (rel, some acc, false) =
      (rel', (resolvePath.go σ rel.toType ws).map (fun l => acc ++ l), b) := by
  intro ws
  induction ws with
  | nil => intro rel acc; exact ⟨rel, false, by simp [resolvePath.go]⟩
  | cons w ws ih =>
    intro rel acc
    simp only [List.foldl_cons]
    unfold resolvePath.go
    cases hr : (σ.getType rel.toType).rels.get? w with
    | none =>
      have e : pathStep σ (rel, some acc, false) w = (rel, none, true) := by unfold pathStep; simp [hr]
      rw [e, path_brk _ _ _ rfl]
      exact ⟨rel, true, by simp [hr]⟩
    | some r =>
      by_cases hc : (decide ((σ.getType rel.toType).name = []) || !σ.hasType r.toType) = true
      · have e : pathStep σ (rel, some acc, false) w = (rel, none, true) := by unfold pathStep; simp [hr, hc]
        rw [e, path_brk _ _ _ rfl]
        exact ⟨rel, true, by simp [hr, hc]⟩
      · have e : pathStep σ (rel, some acc, false) w = (r, some (acc ++ [r]), false) := by
          unfold pathStep; simp [hr, hc]
        rw [e]
        obtain ⟨rel', b, h'⟩ := ih r (acc ++ [r])
        refine ⟨rel', b, ?_⟩
        rw [h']
        simp only [hr, hc]
        cases resolvePath.go σ r.toType ws <;> simp

def inclStep (σ : Schema) (rt : GoString) (p : Gen.Params) (inc : GoString) : Gen.Params :=
  if (((splitOn 46 inc).foldl (pathStep σ) ({ zeroRel with toType := rt }, some [], false)).2.1).isSome then
    { p with include_ := p.include_ ++ [(((splitOn 46 inc).foldl (pathStep σ) ({ zeroRel with toType := rt }, some [], false)).2.1).getD []] }
  else p

theorem incl_fold (σ : Schema) (rt : GoString) (incs : List GoString) (p : Gen.Params) :
    incs.foldl (inclStep σ rt) p =
      { p with include_ := p.include_ ++ incs.filterMap (fun inc => resolvePath σ rt (splitOn 46 inc)) } := by
  induction incs generalizing p with
  | nil => cases p; simp
  | cons inc rest ih =>
    simp only [List.foldl_cons, List.filterMap_cons]
    obtain ⟨rel', b, h⟩ := path_fold σ (splitOn 46 inc) { zeroRel with toType := rt } []
    have hs : inclStep σ rt p inc =
        (match resolvePath σ rt (splitOn 46 inc) with
          | some l => { p with include_ := p.include_ ++ [l] }
          | none => p) := by
      unfold inclStep resolvePath
      rw [h]
      cases resolvePath.go σ rt (splitOn 46 inc) <;> simp
    rw [hs, ih]
    cases resolvePath σ rt (splitOn 46 inc) <;> simp

/-! ### the fields validation (params.go "Fields") -/

theorem set_set {β : Type} (m : GoMap β) (k : GoString) (a b : β) : GoMap.set (GoMap.set m k a) k b = GoMap.set m k b := by
  induction m with
  | nil => simp [GoMap.set]
  | cons p m ih =>
    obtain ⟨k', v'⟩ := p
    by_cases h : k' = k
    · subst h; simp [GoMap.set]
    · simp [GoMap.set, h, ih]

/-- a fold that keeps the first `some` it produces -/
theorem foldl_first_some {α ρ : Type} (c : α → Bool) (E : ρ) (l : List α) :
    l.foldl (fun (ret : Option ρ) x => match ret with | some _ => ret | none => if c x then some E else none) none =
      if l.any c then some E else none := by
  have stuck : ∀ (l : List α) (r : ρ), l.foldl (fun (ret : Option ρ) x => match ret with | some _ => ret | none => if c x then some E else none) (some r) = some r := by
    intro l r; induction l with
    | nil => rfl
    | cons a t ih => simp only [List.foldl_cons, ih]
  induction l with
  | nil => rfl
  | cons a t ih =>
    simp only [List.foldl_cons, List.any_cons]
    by_cases h : c a = true
    · simp only [h, if_true, stuck, Bool.true_or]
    · have h' : c a = false := by simpa using h
      simp only [h', Bool.false_eq_true, if_false, Bool.false_or]
      exact ih

def selInner (t f : GoString) (p : Gen.Params) (ff : GoString) : Gen.Params :=
  if decide (f = ff) then { p with fields := GoMap.set p.fields t (((GoMap.get? p.fields t).getD []) ++ [f]) } else p

def selStep (typ : Typ) (t : GoString) (p : Gen.Params) (f : GoString) : Gen.Params :=
  if decide (f = idName) then { p with fields := GoMap.set p.fields t (((GoMap.get? p.fields t).getD []) ++ [idName]) }
  else typ.fields.foldl (selInner t f) p

theorem selInner_fold (t f : GoString) (p0 : Gen.Params) (m : GoMap (List GoString)) :
    ∀ (l : List GoString) (acc : List GoString),
      l.foldl (selInner t f) { p0 with fields := GoMap.set m t acc } =
        { p0 with fields := GoMap.set m t (acc ++ l.filter (fun ff => decide (ff = f))) } := by
  intro l
  induction l with
  | nil => intro acc; simp
  | cons a l ih =>
    intro acc
    simp only [List.foldl_cons, List.filter_cons]
    by_cases h : a = f
    · subst h
      have : selInner t a { p0 with fields := GoMap.set m t acc } a = { p0 with fields := GoMap.set m t (acc ++ [a]) } := by
        simp [selInner, get?_set_self, set_set]
      rw [this, ih]; simp
    · have h' : ¬ f = a := fun e => h e.symm
      have : selInner t f { p0 with fields := GoMap.set m t acc } a = { p0 with fields := GoMap.set m t acc } := by
        simp [selInner, h']
      rw [this, ih]; simp [h]

theorem sel_fold (typ : Typ) (t : GoString) (p0 : Gen.Params) (m : GoMap (List GoString)) :
    ∀ (fs : List GoString) (acc : List GoString),
      fs.foldl (selStep typ t) { p0 with fields := GoMap.set m t acc } =
        { p0 with fields := GoMap.set m t (acc ++ UrlL.sel typ fs) } := by
  intro fs
  induction fs with
  | nil => intro acc; simp [UrlL.sel]
  | cons f fs ih =>
    intro acc
    simp only [List.foldl_cons]
    by_cases h : f = idName
    · have : selStep typ t { p0 with fields := GoMap.set m t acc } f = { p0 with fields := GoMap.set m t (acc ++ [idName]) } := by
        simp [selStep, h, get?_set_self, set_set]
      rw [this, ih]
      simp [UrlL.sel, h]
    · have : selStep typ t { p0 with fields := GoMap.set m t acc } f =
          { p0 with fields := GoMap.set m t (acc ++ typ.fields.filter (fun ff => decide (ff = f))) } := by
        simp only [selStep, h, decide_false, Bool.false_eq_true, if_false]
        exact selInner_fold t f p0 m typ.fields acc
      rw [this, ih]
      simp [UrlL.sel, h]

/-- the two nested index loops that look for a duplicate -/
def dupInner {ρ : Type} (a : List GoString) (E : ρ) (i : Nat) (ret : Option ρ) (j : Nat) : Option ρ :=
  match ret with
  | some _ => ret
  | none => if decide (a.getD i [] = a.getD j []) then some E else none

def dupOuter {ρ : Type} (a : List GoString) (E : ρ) (ret : Option ρ) (i : Nat) : Option ρ :=
  match ret with
  | some _ => ret
  | none =>
    match (List.range' (i + 1) (a.length - (i + 1))).foldl (dupInner a E i) none with
    | some r => some r
    | none => none

theorem dup_fold {ρ : Type} (a : List GoString) (E : ρ) :
    (List.range a.length).foldl (dupOuter a E) none = if a.Nodup then none else some E := by
  have inner : ∀ i, (List.range' (i + 1) (a.length - (i + 1))).foldl (dupInner a E i) none =
      if (List.range' (i + 1) (a.length - (i + 1))).any (fun j => decide (a.getD i [] = a.getD j [])) then some E else none := by
    intro i
    exact foldl_first_some (fun j => decide (a.getD i [] = a.getD j [])) E _
  have outer : (List.range a.length).foldl (dupOuter a E) none =
      if (List.range a.length).any (fun i => (List.range' (i + 1) (a.length - (i + 1))).any (fun j => decide (a.getD i [] = a.getD j []))) then some E else none := by
    rw [← foldl_first_some]
    apply foldl_ext
    intro s i
    cases s with
    | some r => rfl
    | none =>
      simp only [dupOuter, inner]
      by_cases hc : ((List.range' (i + 1) (a.length - (i + 1))).any fun j => decide (a.getD i [] = a.getD j [])) = true
      · simp only [hc, if_true]
      · simp only [hc]; simp
  rw [outer]
  by_cases hnd : a.Nodup
  · simp only [hnd, if_true]
    have : (List.range a.length).any (fun i => (List.range' (i + 1) (a.length - (i + 1))).any (fun j => decide (a.getD i [] = a.getD j []))) = false := by
      rw [Bool.eq_false_iff]
      intro h
      simp only [List.any_eq_true, List.mem_range, List.mem_range'_1, decide_eq_true_eq] at h
      obtain ⟨i, hi, j, ⟨hj1, hj2⟩, e⟩ := h
      have hj : j < a.length := by omega
      rw [List.getD_eq_getElem?_getD, List.getD_eq_getElem?_getD, List.getElem?_eq_getElem hi, List.getElem?_eq_getElem hj] at e
      simp only [Option.getD_some] at e
      have := (List.pairwise_iff_getElem.1 hnd) i j hi hj (by omega)
      exact this e
    rw [this]; rfl
  · simp only [hnd, if_false]
    have : (List.range a.length).any (fun i => (List.range' (i + 1) (a.length - (i + 1))).any (fun j => decide (a.getD i [] = a.getD j []))) = true := by
      rw [List.Nodup, List.pairwise_iff_getElem] at hnd
      have hex : ∃ i j, ∃ (hi : i < a.length) (hj : j < a.length), i < j ∧ a[i] = a[j] := by
        apply Classical.byContradiction
        intro hne
        apply hnd
        intro i j hi hj hij e
        exact hne ⟨i, j, hi, hj, hij, e⟩
      obtain ⟨i, j, hi, hj, hij, e⟩ := hex
      simp only [List.any_eq_true, List.mem_range, List.mem_range'_1, decide_eq_true_eq]
      refine ⟨i, hi, j, ⟨by omega, by omega⟩, ?_⟩
      rw [List.getD_eq_getElem?_getD, List.getD_eq_getElem?_getD, List.getElem?_eq_getElem hi, List.getElem?_eq_getElem hj]
      simp only [Option.getD_some]; exact e
    rw [this]; rfl

theorem eraseDups_length_ne_iff (l : List GoString) : l.eraseDups.length ≠ l.length ↔ ¬ l.Nodup := by
  constructor
  · intro h hnd; exact h (by rw [UrlL.eraseDups_of_nodup l hnd])
  · intro h e; exact h (UrlL.nodup_of_eraseDups_length l e)

/-! ### filling the empty selections (params.go, `for t := range params.Fields`) -/

theorem get?_append_of_not_mem {β : Type} (pre suf : GoMap β) (k : GoString) (h : k ∉ GoMap.keys pre) :
    GoMap.get? (pre ++ suf) k = GoMap.get? suf k := by
  induction pre with
  | nil => rfl
  | cons p pre ih =>
    obtain ⟨k', v'⟩ := p
    have hk : k' ≠ k := by intro e; subst e; exact h (by simp [GoMap.keys])
    have h' : k ∉ GoMap.keys pre := by intro hm; exact h (by simp [GoMap.keys] at hm ⊢; exact Or.inr hm)
    simp only [List.cons_append, GoMap.get?, hk, if_false]
    exact ih h'

theorem set_append_of_not_mem {β : Type} (pre suf : GoMap β) (k : GoString) (v v' : β) (h : k ∉ GoMap.keys pre) :
    GoMap.set (pre ++ (k, v) :: suf) k v' = pre ++ (k, v') :: suf := by
  induction pre with
  | nil => simp [GoMap.set]
  | cons p pre ih =>
    obtain ⟨k', w⟩ := p
    have hk : k' ≠ k := by intro e; subst e; exact h (by simp [GoMap.keys])
    have h' : k ∉ GoMap.keys pre := by intro hm; exact h (by simp [GoMap.keys] at hm ⊢; exact Or.inr hm)
    simp only [List.cons_append, GoMap.set, hk, if_false, ih h']

def fillStep (σ : Schema) (p : Gen.Params) (e : GoString × List GoString) : Gen.Params :=
  if decide ((((GoMap.get? p.fields e.1).getD []).length : Int) = 0) then
    { p with fields := GoMap.set p.fields e.1 (σ.getType e.1).fields }
  else p

theorem fillDefault_append (σ : Schema) (a b : GoMap (List GoString)) :
    UrlL.fillDefault σ (a ++ b) = UrlL.fillDefault σ a ++ UrlL.fillDefault σ b := by
  simp [UrlL.fillDefault]

theorem fill_fold (σ : Schema) (p0 : Gen.Params) : ∀ (suf pre : GoMap (List GoString)),
    (GoMap.keys (pre ++ suf)).Nodup →
    suf.foldl (fillStep σ) { p0 with fields := UrlL.fillDefault σ pre ++ suf } =
      { p0 with fields := UrlL.fillDefault σ (pre ++ suf) } := by
  intro suf
  induction suf with
  | nil => intro pre _; simp
  | cons e suf ih =>
    intro pre hnd
    obtain ⟨k, v⟩ := e
    have hk : k ∉ GoMap.keys (UrlL.fillDefault σ pre) := by
      rw [UrlL.keys_fillDefault]
      intro hm
      simp only [GoMap.keys, List.map_append, List.map_cons] at hnd hm
      have := (List.nodup_append.1 hnd).2.2 k hm k (by simp)
      exact this rfl
    have hget : GoMap.get? (UrlL.fillDefault σ pre ++ (k, v) :: suf) k = some v := by
      rw [get?_append_of_not_mem _ _ _ hk]; simp [GoMap.get?]
    have hstep : fillStep σ { p0 with fields := UrlL.fillDefault σ pre ++ (k, v) :: suf } (k, v) =
        { p0 with fields := UrlL.fillDefault σ (pre ++ [(k, v)]) ++ suf } := by
      unfold fillStep
      simp only [hget, Option.getD_some]
      rw [fillDefault_append]
      cases v with
      | nil =>
        simp only [List.length_nil, Int.natCast_zero, decide_true, if_true]
        rw [set_append_of_not_mem _ _ _ _ _ hk]
        simp [UrlL.fillDefault]
      | cons a t =>
        have : ¬ (((a :: t).length : Int) = 0) := by simp only [List.length_cons]; omega
        simp only [this, decide_false, Bool.false_eq_true, if_false]
        simp [UrlL.fillDefault]
    simp only [List.foldl_cons]
    rw [hstep]
    have := ih (pre ++ [(k, v)]) (by simpa using hnd)
    simpa using this

/-! ### loops that leave a view of the state unchanged -/

theorem foldl_keep {σ α τ : Type} (f : σ → α → σ) (view : σ → τ) (h : ∀ s a, view (f s a) = view s)
    (l : List α) (init : σ) : view (l.foldl f init) = view init := by
  induction l generalizing init with
  | nil => rfl
  | cons a t ih => simp only [List.foldl_cons]; rw [ih, h]

/-! ### the sorting rules (params.go "Sorting") -/

/-- `urule := rule; if urule[0] == '-' { urule = urule[1:] }` on a non-empty rule -/
theorem strip_eq (rule : GoString) (h : rule ≠ []) :
    (if decide (rule.getD 0 (0 : UInt8) = (45 : UInt8)) then rule.drop 1 else rule) = Spec.stripDash rule := by
  cases rule with
  | nil => exact absurd rfl h
  | cons c r =>
    simp only [List.getD_cons_zero, List.drop_succ_cons, List.drop_zero]
    by_cases hc : c = 45
    · subst hc; simp [Spec.stripDash]
    · simp only [hc, decide_false, Bool.false_eq_true, if_false]
      unfold Spec.stripDash
      split
      · rename_i r' heq; cases heq; exact absurd rfl hc
      · rfl

/-- `for _, attr := range typ.Attrs { if urule == attr.Name { sr = append(sr, rule); break } }`; the state is (sr, brk') -/
def matchStep (urule rule : GoString) (st : List GoString × Bool) (e : GoString × Attr) : List GoString × Bool :=
  if st.2 then st else if decide (urule = e.2.name) then (st.1 ++ [rule], true) else (st.1, false)

theorem match_fold (urule rule : GoString) : ∀ (attrs : GoMap Attr) (sr : List GoString),
    (attrs.foldl (matchStep urule rule) (sr, false)).1 =
      if (attrs.vals.map (·.name)).contains urule then sr ++ [rule] else sr := by
  have stuck : ∀ (attrs : GoMap Attr) (sr : List GoString), attrs.foldl (matchStep urule rule) (sr, true) = (sr, true) := by
    intro attrs sr; induction attrs with
    | nil => rfl
    | cons e t ih => simp only [List.foldl_cons, matchStep, if_true, ih]
  intro attrs
  induction attrs with
  | nil => intro sr; simp [GoMap.vals]
  | cons e t ih =>
    intro sr
    simp only [List.foldl_cons, GoMap.vals, List.map_cons, List.contains_cons]
    by_cases h : urule = e.2.name
    · have : matchStep urule rule (sr, false) e = (sr ++ [rule], true) := by simp [matchStep, h]
      rw [this, stuck]; simp [h]
    · have : matchStep urule rule (sr, false) e = (sr, false) := by simp [matchStep, h]
      rw [this, ih]
      have h' : (urule == e.2.name) = false := by simpa using h
      simp only [GoMap.vals, h', Bool.false_or]
      rfl

/-- the first loop over `su.SortingRules`; the state is (idFound, sortingRules, ret') -/
def rule1Step {ρ : Type} (typ : Typ) (PANIC : ρ) (st : Bool × List GoString × Option ρ) (rule : GoString) :
    Bool × List GoString × Option ρ :=
  match st.2.2 with
  | some _ => st
  | none =>
    if decide (0 < rule.length) then
      if decide ((if decide (rule.getD 0 (0 : UInt8) = (45 : UInt8)) then rule.drop 1 else rule) = idName) then
        (true, st.2.1 ++ [rule], none)
      else
        (st.1, (typ.attrs.foldl (matchStep (if decide (rule.getD 0 (0 : UInt8) = (45 : UInt8)) then rule.drop 1 else rule) rule) (st.2.1, false)).1, none)
    else (st.1, st.2.1, some PANIC)

theorem rule1_fold {ρ : Type} (typ : Typ) (PANIC : ρ) : ∀ (l : List GoString) (idf : Bool) (sr : List GoString),
    (∀ r ∈ l, r ≠ []) →
    l.foldl (rule1Step typ PANIC) (idf, sr, none) =
      (idf || l.any (fun rule => decide (Spec.stripDash rule = idName)),
       sr ++ l.filter (fun rule => decide (Spec.stripDash rule = idName) || (typ.attrs.vals.map (·.name)).contains (Spec.stripDash rule)),
       none) := by
  intro l
  induction l with
  | nil => intro idf sr _; simp
  | cons rule l ih =>
    intro idf sr hne
    have hr : rule ≠ [] := hne rule List.mem_cons_self
    have hl : ∀ r ∈ l, r ≠ [] := fun r hm => hne r (List.mem_cons_of_mem _ hm)
    have hpos : decide (0 < rule.length) = true := by
      cases rule with
      | nil => exact absurd rfl hr
      | cons c r => simp
    simp only [List.foldl_cons, List.any_cons, List.filter_cons]
    by_cases hid : Spec.stripDash rule = idName
    · have : rule1Step typ PANIC (idf, sr, none) rule = (true, sr ++ [rule], none) := by
        simp only [rule1Step, hpos, if_true, strip_eq rule hr, hid, decide_true]
      rw [this, ih _ _ hl]
      have hd : decide (Spec.stripDash rule = idName) = true := by simp [hid]
      simp only [hd, Bool.true_or, Bool.or_true, if_true, List.append_assoc, List.singleton_append]
    · have : rule1Step typ PANIC (idf, sr, none) rule =
          (idf, (if (typ.attrs.vals.map (·.name)).contains (Spec.stripDash rule) then sr ++ [rule] else sr), none) := by
        simp only [rule1Step, hpos, if_true, strip_eq rule hr, hid, decide_false, Bool.false_eq_true, if_false, match_fold]
      rw [this, ih _ _ hl]
      have hd : decide (Spec.stripDash rule = idName) = false := by simp [hid]
      by_cases hc : (typ.attrs.vals.map (·.name)).contains (Spec.stripDash rule) = true
      · simp only [hd, hc, Bool.false_or, if_true, List.append_assoc, List.singleton_append]
      · have hc' : (typ.attrs.vals.map (·.name)).contains (Spec.stripDash rule) = false := by simpa using hc
        simp only [hd, hc', Bool.false_or, Bool.false_eq_true, if_false]

/-- the loop over the rules kept that looks for the attribute `name`; the state is (found, brk', ret') -/
def foundStep {ρ : Type} (name : GoString) (PANIC : ρ) (st : Bool × Bool × Option ρ) (rule : GoString) :
    Bool × Bool × Option ρ :=
  match st.2.2 with
  | some _ => st
  | none =>
    if st.2.1 then st else
    if decide (0 < rule.length) then
      if decide ((if decide (rule.getD 0 (0 : UInt8) = (45 : UInt8)) then rule.drop 1 else rule) = name) then (true, true, none)
      else (st.1, false, none)
    else (st.1, false, some PANIC)

theorem found_fold {ρ : Type} (name : GoString) (PANIC : ρ) : ∀ (sr : List GoString), (∀ r ∈ sr, r ≠ []) →
    ∃ b, sr.foldl (foundStep name PANIC) (false, false, none) =
      (sr.any (fun rule => decide (Spec.stripDash rule = name)), b, none) := by
  have stuck : ∀ (sr : List GoString), sr.foldl (foundStep name PANIC) (true, true, none) = (true, true, none) := by
    intro sr; induction sr with
    | nil => rfl
    | cons e t ih => simp only [List.foldl_cons, foundStep, if_true, ih]
  intro sr
  induction sr with
  | nil => intro _; exact ⟨false, rfl⟩
  | cons rule sr ih =>
    intro hne
    have hr : rule ≠ [] := hne rule List.mem_cons_self
    have hl : ∀ r ∈ sr, r ≠ [] := fun r hm => hne r (List.mem_cons_of_mem _ hm)
    have hpos : decide (0 < rule.length) = true := by
      cases rule with
      | nil => exact absurd rfl hr
      | cons c r => simp
    simp only [List.foldl_cons, List.any_cons]
    by_cases hn : Spec.stripDash rule = name
    · have : foundStep name PANIC (false, false, none) rule = (true, true, none) := by
        simp only [foundStep, hpos, if_true, strip_eq rule hr, hn, decide_true, Bool.false_eq_true, if_false]
      rw [this, stuck]
      have hd : decide (Spec.stripDash rule = name) = true := by simp [hn]
      exact ⟨true, by simp only [hd, Bool.true_or]⟩
    · have : foundStep name PANIC (false, false, none) rule = (false, false, none) := by
        simp only [foundStep, hpos, if_true, strip_eq rule hr, hn, decide_false, Bool.false_eq_true, if_false]
      rw [this]
      obtain ⟨b, hb⟩ := ih hl
      have hd : decide (Spec.stripDash rule = name) = false := by simp [hn]
      exact ⟨b, by rw [hb]; simp only [hd, Bool.false_or]⟩

/-- the loop over `typ.Attrs` that collects the attributes no rule names; the state is (restOfRules, ret') -/
def rule2Step {ρ : Type} (sr : List GoString) (PANIC : ρ) (st : List GoString × Option ρ) (e : GoString × Attr) :
    List GoString × Option ρ :=
  match st.2 with
  | some _ => st
  | none =>
    match (sr.foldl (foundStep e.2.name PANIC) (false, false, none)).2.2 with
    | some p => (st.1, some p)
    | none =>
      ((if !(sr.foldl (foundStep e.2.name PANIC) (false, false, none)).1 then st.1 ++ [e.2.name] else st.1), none)

theorem rule2_fold {ρ : Type} (sr : List GoString) (PANIC : ρ) (hsr : ∀ r ∈ sr, r ≠ []) :
    ∀ (attrs : GoMap Attr) (rest : List GoString),
    attrs.foldl (rule2Step sr PANIC) (rest, none) =
      (rest ++ (attrs.vals.map (·.name)).filter (fun a => !sr.any (fun rule => decide (Spec.stripDash rule = a))), none) := by
  intro attrs
  induction attrs with
  | nil => intro rest; simp [GoMap.vals]
  | cons e t ih =>
    intro rest
    obtain ⟨b, hb⟩ := found_fold e.2.name PANIC sr hsr
    have : rule2Step sr PANIC (rest, none) e =
        ((if !(sr.any (fun rule => decide (Spec.stripDash rule = e.2.name))) then rest ++ [e.2.name] else rest), none) := by
      simp only [rule2Step, hb]
    simp only [List.foldl_cons, this, ih, GoMap.vals, List.map_cons, List.filter_cons]
    by_cases hc : (sr.any (fun rule => decide (Spec.stripDash rule = e.2.name))) = true
    · simp only [hc, Bool.not_true, Bool.false_eq_true, if_false]
    · have hc' : (sr.any (fun rule => decide (Spec.stripDash rule = e.2.name))) = false := by simpa using hc
      simp only [hc', Bool.not_false, if_true, List.append_assoc, List.singleton_append]

end GenC07b
end Jsonapi
