/-
Helper lemmas for the round-trip properties C01 / C02, part 3: the round trip of one
resource, for an arbitrary field selection.
-/
import Jsonapi.Proofs.RoundTripLemmas2
namespace Jsonapi
namespace RtL
open GoMap UnmL MarshalL


/-- What comes back for a resource `r` marshaled with the selection `fields` and the
relationship-data list `want`: type, ID, every selected attribute and every selected and
requested relationship with the same value; every other field of the type reads its zero
value. -/
def RoundTrips (t : Typ) (fields want : List GoString) (r : ResView) (res : AnyRes) : Prop :=
  ∃ v', res.view? = some v' ∧ v'.typeName = r.typeName ∧ v'.id = r.id ∧
    (∀ f ∈ r.attrs.keys, f ∈ fields → Spec.sameVal (v'.get f) (r.get f)) ∧
    (∀ f ∈ r.rels.keys, f ∈ fields → f ∈ want → Spec.sameVal (v'.get f) (r.get f)) ∧
    (∀ f ∈ r.attrs.keys ++ r.rels.keys, (f ∉ fields ∨ (f ∈ r.rels.keys ∧ f ∉ want)) →
      Spec.canon (v'.get f) = Spec.zeroOf t f)

/-- acceptance of the skeleton of a resource object of the specification -/
theorem resource_accepted (c : Spec.Codecs) (σ : SSchema) (hσ : σ.WF) (st : SType) (hst : st ∈ σ)
    (r : ResView) (hd : ResDom c st r) (prepath : GoString) (fields : List GoString)
    (relData : GoMap (List GoString)) :
    ∃ res, unmarshalResource σ (Spec.skeletonOf c (Spec.resourceObject r prepath fields relData))
      = .ok res := by
  rw [C05_accept_iff σ hσ, skeleton_eq]
  refine ⟨st, by rw [hd.tname]; exact getType_of_mem hσ.1 hst, ?_, ?_⟩
  · intro p hp
    obtain ⟨j, hj, e⟩ := mem_sorted_of_dec hp
    obtain ⟨a, ha, -, hk, rfl⟩ := mem_attrMembers hj
    obtain ⟨-, h2, -, v', hv', -⟩ := hd.attr_info ha
    exact ⟨a, v', by rw [hk]; exact h2, by rw [e]; exact hv'⟩
  · intro p hp
    obtain ⟨j, hj, e⟩ := mem_sorted_of_dec hp
    obtain ⟨rel, hrel, -, hk, rfl⟩ := mem_relMembers hj
    obtain ⟨-, -, rel', h2, hag⟩ := hd.rel_info hrel
    obtain ⟨x, hx, -, -⟩ := relValue_relObject hd.keyed prepath hrel hag
      ((wantOf r relData).contains rel.fromName)
    exact ⟨rel', by rw [hk]; exact h2, by rw [e, hx]⟩

theorem resource_roundtrip (c : Spec.Codecs) (σ : SSchema) (hσ : σ.WF) (st : SType) (hst : st ∈ σ)
    (r : ResView) (hd : ResDom c st r) (prepath : GoString) (fields : List GoString)
    (relData : GoMap (List GoString)) :
    ∃ res, unmarshalResource σ (Spec.skeletonOf c (Spec.resourceObject r prepath fields relData))
        = .ok res ∧ RoundTrips st.typ fields (wantOf r relData) r res := by
  obtain ⟨res, hres⟩ := resource_accepted c σ hσ st hst r hd prepath fields relData
  refine ⟨res, hres, ?_⟩
  have hr := hd.keyed
  have hndA := attrMembers_keys_nodup hr fields
  have hndR := relMembers_keys_nodup hr prepath fields (wantOf r relData)
  rw [skeleton_eq] at hres
  obtain ⟨st', hst', hname, v, hv, h1, h2, hA, hR, hZ⟩ := C06_stored σ hσ _ res
    (by rw [keys_decMembers]; exact keys_sorted_nodup hndA)
    (by rw [keys_decMembers]; exact keys_sorted_nodup hndR) hres
  simp only at hname h2 hA hR hZ
  have : st' = st := eq_of_name_eq hσ.1 hst' hst (by rw [hname, hd.tname])
  subst this
  refine ⟨v, hv, by rw [h1, hd.tname], h2, ?_, ?_, ?_⟩
  · -- selected attributes
    intro f hf hsel
    obtain ⟨a, ha⟩ := exists_get?_of_mem_keys hf
    have hav : a ∈ GoMap.vals r.attrs := List.mem_map.2 ⟨(f, a), mem_of_get? ha, rfl⟩
    have hfa : f = a.name := hr.2.1 _ (mem_of_get? ha)
    subst hfa
    obtain ⟨-, hs, -, v', hv', hsame⟩ := hd.attr_info hav
    have hmem : (a.name, encodeAttr (r.get a.name)) ∈ attrMembers r fields := by
      simp only [attrMembers, List.mem_map, List.mem_filter, List.contains_iff_mem]
      exact ⟨a, ⟨hav, hsel⟩, rfl⟩
    obtain ⟨a', x, ha', hx, hc⟩ := hA a.name _ (get?_dec_sorted (Spec.rawOf c) hndA hmem)
    rw [hs] at ha'; cases ha'
    rw [hv'] at hx; cases hx
    exact sameVal_congr_left hc hsame
  · -- selected relationships whose data is requested
    intro f hf hsel hw
    obtain ⟨rel, hrel⟩ := exists_get?_of_mem_keys hf
    have hrv : rel ∈ GoMap.vals r.rels := List.mem_map.2 ⟨(f, rel), mem_of_get? hrel, rfl⟩
    have hfr : f = rel.fromName := hr.2.2.1 _ (mem_of_get? hrel)
    subst hfr
    obtain ⟨-, -, rel', hs, hag⟩ := hd.rel_info hrv
    have hmem : (rel.fromName, Spec.relObject r prepath rel ((wantOf r relData).contains rel.fromName))
        ∈ relMembers r prepath fields (wantOf r relData) r.rels := by
      simp only [relMembers, List.mem_map, List.mem_filter, List.contains_iff_mem]
      exact ⟨rel, ⟨hrv, hsel⟩, rfl⟩
    obtain ⟨rel'', hs', -, hval⟩ := hR rel.fromName _ (get?_dec_sorted Spec.relRawOf hndR hmem)
    rw [hs] at hs'; cases hs'
    obtain ⟨x, hx, hp, hsame⟩ := relValue_relObject hr prepath hrv hag
      ((wantOf r relData).contains rel.fromName)
    have hwc : (wantOf r relData).contains rel.fromName = true := by simpa using hw
    rw [hwc] at hx hp hval
    have := hval hp
    rw [hx] at this
    simp only [if_true, Option.some.injEq] at this
    rw [← this]
    exact hsame
  · -- everything else: the zero value
    intro f hf hns
    apply hZ f (hd.keys_sub hf)
    · apply has_dec_sorted_false
      intro hk
      obtain ⟨⟨a, ha, rfl⟩, hsel⟩ := mem_keys_attrMembers.1 hk
      obtain ⟨-, -, hka, -⟩ := hd.attr_info ha
      rcases hns with h | ⟨h, -⟩
      · exact h hsel
      · have hnd := hr.2.2.2
        exact (List.nodup_append.1 hnd).2.2 _ hka _ h rfl
    · intro rv hrv
      obtain ⟨j, hj, rfl⟩ := get?_dec_sorted_some hrv
      obtain ⟨rel, hrel, hsel, rfl, rfl⟩ := mem_relMembers hj
      obtain ⟨-, hkr, rel', -, hag⟩ := hd.rel_info hrel
      obtain ⟨x, -, hp, -⟩ := relValue_relObject hr prepath hrel hag
        ((wantOf r relData).contains rel.fromName)
      rw [hp]
      rcases hns with h | ⟨-, h⟩
      · exact absurd hsel h
      · simpa using h

end RtL
end Jsonapi
