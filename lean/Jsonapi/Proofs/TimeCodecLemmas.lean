/-
`Spec.parseRFC3339` inverts `formatTime` on `Spec.TimeDom` (local civil year 0..9999,
nanoseconds below a second, whole-minute zone strictly within a day):
`daysFromCivil` inverts `civilFromDays`, the fixed-width fields parse back, the trimmed
fraction parses back, the zone parses back.
-/
import Jsonapi.Spec.Codec
import Jsonapi.Proofs.RoundTripLemmas
namespace Jsonapi
namespace RtL
open Spec

/-! ### the calendar -/

/-- year of era and day of year of a day of era (the non-linear heart of `civilFromDays`),
all days but the last of the era -/
theorem tc_yoe_lt (doe q1 q2 q3 yoe q4 q5 : Int) (h0 : 0 ≤ doe) (h1 : doe < 146096)
    (e1 : q1 = doe / 1460) (e2 : q2 = doe / 36524) (e3 : q3 = doe / 146096)
    (ey : yoe = (doe - q1 + q2 - q3) / 365) (e4 : q4 = yoe / 4) (e5 : q5 = yoe / 100) :
    0 ≤ yoe ∧ yoe ≤ 399 ∧ 0 ≤ doe - (365 * yoe + q4 - q5) ∧ doe - (365 * yoe + q4 - q5) ≤ 365 := by
  have ha : q2 = 0 ∨ q2 = 1 ∨ q2 = 2 ∨ q2 = 3 := by omega
  have hb : q5 = 0 ∨ q5 = 1 ∨ q5 = 2 ∨ q5 = 3 := by omega
  rcases ha with h | h | h | h <;> rcases hb with h2 | h2 | h2 | h2 <;> omega

/-- the same for every day of the era -/
theorem tc_yoe (doe : Int) (h0 : 0 ≤ doe) (h1 : doe < 146097) :
    let yoe := (doe - doe / 1460 + doe / 36524 - doe / 146096) / 365
    0 ≤ yoe ∧ yoe ≤ 399 ∧ 0 ≤ doe - (365 * yoe + yoe / 4 - yoe / 100) ∧
      doe - (365 * yoe + yoe / 4 - yoe / 100) ≤ 365 := by
  intro yoe
  by_cases h : doe < 146096
  · exact tc_yoe_lt doe _ _ _ yoe _ _ h0 h rfl rfl rfl rfl rfl rfl
  · have e : doe = 146096 := by omega
    have ey : yoe = 399 := by
      show (doe - doe / 1460 + doe / 36524 - doe / 146096) / 365 = 399
      subst e; decide
    rw [ey, e]; decide

/-- month and day of a day of year, and back -/
theorem tc_month_day (doy mp d m : Int) (h0 : 0 ≤ doy) (h1 : doy ≤ 365)
    (emp : mp = (5 * doy + 2) / 153) (ed : d = doy - (153 * mp + 2) / 5 + 1)
    (em : m = if mp < 10 then mp + 3 else mp - 9) :
    1 ≤ m ∧ m ≤ 12 ∧ 1 ≤ d ∧ d ≤ 31 ∧ (m ≤ 2 ↔ ¬ mp < 10) ∧
      (153 * (if m ≤ 2 then m + 9 else m - 3) + 2) / 5 + d - 1 = doy := by
  have hmp : 0 ≤ mp ∧ mp ≤ 11 := by omega
  by_cases h : mp < 10
  · rw [if_pos h] at em
    have h2 : ¬ m ≤ 2 := by omega
    rw [if_neg h2]
    have : m - 3 = mp := by omega
    rw [this]
    omega
  · rw [if_neg h] at em
    have h2 : m ≤ 2 := by omega
    rw [if_pos h2]
    have : m + 9 = mp := by omega
    rw [this]
    omega

/-- the era arithmetic of `daysFromCivil` on the year of `civilFromDays` -/
theorem tc_era (era yoe y' : Int) (h0 : 0 ≤ yoe) (h1 : yoe ≤ 399) (e : y' = yoe + era * 400) :
    y' / 400 = era ∧ y' - y' / 400 * 400 = yoe := by
  omega

/-- `daysFromCivil` from the era, the year of era and the day of year -/
theorem tc_dfc (y m d era yoe doy : Int) (hy : (if m ≤ 2 then y - 1 else y) = yoe + era * 400)
    (h0 : 0 ≤ yoe) (h1 : yoe ≤ 399)
    (hback : (153 * (if m ≤ 2 then m + 9 else m - 3) + 2) / 5 + d - 1 = doy) :
    daysFromCivil y m d = era * 146097 + (yoe * 365 + yoe / 4 - yoe / 100 + doy) - 719468 := by
  obtain ⟨e1, -⟩ := tc_era era yoe (yoe + era * 400) h0 h1 rfl
  have e2 : yoe + era * 400 - era * 400 = yoe := by omega
  simp only [daysFromCivil, hy, e1, e2, hback]

/-- the years 0..9999: the first days of the range are January and February of the last
year of era -1, the last day of the range is the last day of year 9999 -/
theorem tc_year_range (z era doe yoe q4 q5 doy mp : Int) (hlo : -719528 ≤ z) (hhi : z ≤ 2932896)
    (hdoe : z + 719468 - era * 146097 = doe) (hd0 : 0 ≤ doe) (hd1 : doe < 146097)
    (hy0 : 0 ≤ yoe) (hy1 : yoe ≤ 399) (e4 : q4 = yoe / 4) (e5 : q5 = yoe / 100)
    (hdoy : doe - (365 * yoe + q4 - q5) = doy) (hdy0 : 0 ≤ doy) (hdy1 : doy ≤ 365)
    (hmp : mp = (5 * doy + 2) / 153) :
    0 ≤ yoe + era * 400 + (if mp < 10 then 0 else 1) ∧
      yoe + era * 400 + (if mp < 10 then 0 else 1) ≤ 9999 := by
  have hera : -1 ≤ era ∧ era ≤ 24 := by omega
  by_cases h : mp < 10
  · rw [if_pos h]
    by_cases he : era = -1
    · subst he
      have : yoe = 399 := by omega
      subst this
      omega
    · omega
  · rw [if_neg h]
    by_cases he : era = 24
    · subst he
      have : 306 ≤ doy := by omega
      by_cases h9 : yoe = 399
      · subst h9; omega
      · omega
    · omega

/-- `daysFromCivil` inverts `civilFromDays`, with the ranges of the fields: for the days of
the years 0..9999 (0000-01-01 is day -719528, 9999-12-31 is day 2932896). -/
theorem daysFromCivil_civilFromDays (z : Int) (h : -719528 ≤ z ∧ z ≤ 2932896) :
    daysFromCivil (civilFromDays z).1 (civilFromDays z).2.1 (civilFromDays z).2.2 = z ∧
    0 ≤ (civilFromDays z).1 ∧ (civilFromDays z).1 ≤ 9999 ∧
    1 ≤ (civilFromDays z).2.1 ∧ (civilFromDays z).2.1 ≤ 12 ∧
    1 ≤ (civilFromDays z).2.2 ∧ (civilFromDays z).2.2 ≤ 31 := by
  obtain ⟨hlo, hhi⟩ := h
  -- the intermediate quantities of `civilFromDays`
  generalize hera : (z + 719468) / 146097 = era
  generalize hdoe : z + 719468 - era * 146097 = doe
  have hd0 : 0 ≤ doe ∧ doe < 146097 := by omega
  obtain ⟨hy0, hy1, hdy0, hdy1⟩ := tc_yoe doe hd0.1 hd0.2
  generalize hyoe : (doe - doe / 1460 + doe / 36524 - doe / 146096) / 365 = yoe at hy0 hy1 hdy0 hdy1
  generalize hdoy : doe - (365 * yoe + yoe / 4 - yoe / 100) = doy at hdy0 hdy1
  generalize hmp : (5 * doy + 2) / 153 = mp
  generalize hd : doy - (153 * mp + 2) / 5 + 1 = d
  generalize hm : (if mp < 10 then mp + 3 else mp - 9) = m
  obtain ⟨hm1, hm12, hd1, hd31, hmle, hback⟩ :=
    tc_month_day doy mp d m hdy0 hdy1 hmp.symm hd.symm hm.symm
  obtain ⟨hyr0, hyr1⟩ := tc_year_range z era doe yoe _ _ doy mp hlo hhi hdoe hd0.1 hd0.2 hy0 hy1
    rfl rfl hdoy hdy0 hdy1 hmp.symm
  have hc : civilFromDays z = (if m ≤ 2 then yoe + era * 400 + 1 else yoe + era * 400, m, d) := by
    simp only [civilFromDays, hera, hdoe, hyoe, hdoy, hmp, hd, hm]
  rw [hc]
  simp only []
  have hyear : (if m ≤ 2 then yoe + era * 400 + 1 else yoe + era * 400) =
      yoe + era * 400 + (if mp < 10 then 0 else 1) := by
    by_cases h2 : m ≤ 2
    · rw [if_pos h2, if_neg (hmle.1 h2)]
    · have : mp < 10 := Decidable.not_not.1 (fun h => h2 (hmle.2 h))
      rw [if_neg h2, if_pos this]; omega
  refine ⟨?_, ?_, ?_, hm1, hm12, hd1, hd31⟩
  · have hy' : (if m ≤ 2 then (if m ≤ 2 then yoe + era * 400 + 1 else yoe + era * 400) - 1
        else (if m ≤ 2 then yoe + era * 400 + 1 else yoe + era * 400)) = yoe + era * 400 := by
      split <;> omega
    rw [tc_dfc _ m d era yoe doy hy' hy0 hy1 hback]
    omega
  · rw [hyear]; exact hyr0
  · rw [hyear]; exact hyr1

/-! ### fixed-width decimal fields -/

theorem tc_isDig_eq : Spec.isDig = isDigit := rfl
theorem tc_decVal_eq : Spec.decVal = digitsVal := rfl

theorem tc_printNat_length_le (w n : Nat) (h : n < 10 ^ (w + 1)) : (printNat n).length ≤ w + 1 := by
  induction w generalizing n with
  | zero => rw [printNat_lt n (by omega)]; simp
  | succ w ih =>
    by_cases h10 : n < 10
    · rw [printNat_lt n h10]; simp
    · rw [printNat_ge n h10]
      have : n / 10 < 10 ^ (w + 1) := by
        rw [Nat.pow_succ] at h; omega
      have := ih (n / 10) this
      simp only [List.length_append, List.length_cons, List.length_nil]
      omega

theorem tc_digitsVal_zeros (k : Nat) (s : GoString) :
    digitsVal (List.replicate k 48 ++ s) = digitsVal s := by
  induction k with
  | zero => simp
  | succ k ih =>
    rw [List.replicate_succ, List.cons_append]
    have : digitsVal (48 :: (List.replicate k 48 ++ s)) = digitsVal (List.replicate k 48 ++ s) := by
      simp [digitsVal]
    rw [this, ih]

theorem tc_all_isDigit_zeros (k : Nat) : (List.replicate k (48 : UInt8)).all isDigit = true := by
  induction k with
  | zero => rfl
  | succ k ih => rw [List.replicate_succ, List.all_cons, ih]; rfl

/-- `pad w n` for `n < 10^w`: exactly `w` digits whose value is `n` -/
theorem tc_pad_spec (w n : Nat) (h : n < 10 ^ (w + 1)) :
    (pad (w + 1) n).length = w + 1 ∧ (pad (w + 1) n).all isDigit = true ∧
      digitsVal (pad (w + 1) n) = n := by
  have hl := tc_printNat_length_le w n h
  refine ⟨?_, ?_, ?_⟩
  · simp only [pad, List.length_append, List.length_replicate]; omega
  · simp only [pad, List.all_append, tc_all_isDigit_zeros, printNat_all_digit, Bool.and_self]
  · simp only [pad, tc_digitsVal_zeros, digitsVal_printNat]

theorem tc_takeNum_append (w : Nat) (a r : GoString) (h1 : a.length = w)
    (h2 : a.all isDigit = true) : Spec.takeNum w (a ++ r) = some (digitsVal a, r) := by
  simp only [Spec.takeNum, List.take_left' h1, List.drop_left' h1, tc_isDig_eq, tc_decVal_eq,
    h1, h2, and_self, if_true]

/-- a `w`-digit field written by `pad` parses back -/
theorem tc_takeNum_pad (w n : Nat) (r : GoString) (h : n < 10 ^ (w + 1)) :
    Spec.takeNum (w + 1) (pad (w + 1) n ++ r) = some (n, r) := by
  obtain ⟨h1, h2, h3⟩ := tc_pad_spec w n h
  rw [tc_takeNum_append (w + 1) _ r h1 h2, h3]

theorem tc_expect_cons (c : UInt8) (r : GoString) : Spec.expect c (c :: r) = some r := by
  simp [Spec.expect]

/-! ### the fraction -/

theorem tc_all_eq_replicate (l : List UInt8) (h : ∀ x ∈ l, x = 48) : l = List.replicate l.length 48 := by
  induction l with
  | nil => rfl
  | cons x l ih =>
    have hx : x = 48 := h x (by simp)
    have := ih (fun y hy => h y (by simp [hy]))
    rw [List.length_cons, List.replicate_succ, hx, ← this]

theorem tc_takeWhile_all (l : List UInt8) : ∀ x ∈ l.takeWhile (fun c => decide (c = 48)), x = 48 := by
  induction l with
  | nil => intro x hx; cases hx
  | cons a l ih =>
    intro x hx
    rw [List.takeWhile_cons] at hx
    by_cases ha : a = 48
    · simp only [ha, decide_true, if_true, List.mem_cons] at hx
      rcases hx with rfl | hx
      · rfl
      · exact ih x hx
    · simp [ha] at hx

/-- trimming trailing zeros: the digits are the trimmed digits followed by zeros -/
theorem tc_trim (D : GoString) :
    ∃ k, D = (D.reverse.dropWhile (fun c => decide (c = 48))).reverse ++ List.replicate k 48 := by
  refine ⟨(D.reverse.takeWhile (fun c => decide (c = 48))).length, ?_⟩
  have h1 := tc_all_eq_replicate _ (tc_takeWhile_all D.reverse)
  have h2 : D.reverse.takeWhile (fun c => decide (c = 48)) ++
      D.reverse.dropWhile (fun c => decide (c = 48)) = D.reverse := List.takeWhile_append_dropWhile
  have h3 : D = (D.reverse.takeWhile (fun c => decide (c = 48)) ++
      D.reverse.dropWhile (fun c => decide (c = 48))).reverse := by rw [h2, List.reverse_reverse]
  rw [List.reverse_append] at h3
  rw [h1, List.reverse_replicate] at h3
  exact h3

theorem tc_takeWhile_digits (a : GoString) (c : UInt8) (r : GoString) (ha : a.all isDigit = true)
    (hc : isDigit c = false) :
    (a ++ c :: r).takeWhile Spec.isDig = a ∧ (a ++ c :: r).dropWhile Spec.isDig = c :: r := by
  rw [tc_isDig_eq]
  induction a with
  | nil => simp [hc]
  | cons x a ih =>
    simp only [List.all_cons, Bool.and_eq_true] at ha
    obtain ⟨h1, h2⟩ := ih ha.2
    simp only [List.cons_append, List.takeWhile_cons, List.dropWhile_cons, ha.1, if_true, h1, h2,
      and_self]

/-- the fraction written by `fracText` (trailing zeros trimmed, nothing for zero) parses back
to the nanoseconds, before anything that starts with neither a digit nor a dot -/
theorem tc_parseFrac_fracText (nsec : Nat) (h : nsec < 1000000000) (c : UInt8) (r : GoString)
    (hc : isDigit c = false) (hc' : c ≠ 46) :
    Spec.parseFrac (fracText nsec ++ c :: r) = some (nsec, c :: r) := by
  by_cases h0 : nsec = 0
  · subst h0
    simp [fracText, Spec.parseFrac, hc']
  · obtain ⟨hl, hall, hval⟩ := tc_pad_spec 8 nsec (by omega)
    obtain ⟨k, hk⟩ := tc_trim (pad 9 nsec)
    generalize hT : ((pad 9 nsec).reverse.dropWhile (fun c => decide (c = 48))).reverse = T at hk
    have hft : fracText nsec = 46 :: T := by
      simp only [fracText, h0, if_false, hT]
    have hTall : T.all isDigit = true := by
      rw [hk, List.all_append, Bool.and_eq_true] at hall
      exact hall.1
    have hlen : T.length + k = 9 := by
      have := hl
      rw [hk, List.length_append, List.length_replicate] at this
      exact this
    have hT1 : 1 ≤ T.length := by
      cases hT' : T with
      | nil =>
        rw [hk, hT', List.nil_append, ← List.append_nil (List.replicate k 48), tc_digitsVal_zeros] at hval
        exact absurd hval.symm h0
      | cons x l => simp
    obtain ⟨htw, hdw⟩ := tc_takeWhile_digits T c r hTall hc
    have hk' : 9 - T.length = k := by omega
    rw [hft]
    simp only [List.cons_append, Spec.parseFrac, if_true, htw, hdw, hk', ← hk, tc_decVal_eq, hval]
    simp only [hT1, true_and]
    have : T.length ≤ 9 := by omega
    simp [this]

/-! ### the zone -/

theorem tc_takeNum_pad2 (n : Nat) (r : GoString) (h : n < 100) :
    Spec.takeNum 2 (pad 2 n ++ r) = some (n, r) :=
  tc_takeNum_pad 1 n r (by have : 10 ^ (1 + 1) = 100 := by decide
                           omega)

theorem tc_takeNum_pad2_nil (n : Nat) (h : n < 100) : Spec.takeNum 2 (pad 2 n) = some (n, []) := by
  have := tc_takeNum_pad2 n [] h
  rwa [List.append_nil] at this

theorem tc_takeNum_pad4 (n : Nat) (r : GoString) (h : n < 10000) :
    Spec.takeNum 4 (pad 4 n ++ r) = some (n, r) :=
  tc_takeNum_pad 3 n r (by have : 10 ^ (3 + 1) = 10000 := by decide
                           omega)

/-- the zone starts with `Z`, `+` or `-`: neither a digit nor a dot -/
theorem tc_zoneText_head (off : Int) :
    ∃ c r, zoneText off = c :: r ∧ isDigit c = false ∧ c ≠ 46 := by
  unfold zoneText
  by_cases h0 : off = 0
  · rw [if_pos h0]; exact ⟨90, [], rfl, by decide, by decide⟩
  · rw [if_neg h0]
    by_cases hn : off < 0
    · rw [if_pos hn]; exact ⟨45, _, rfl, by decide, by decide⟩
    · rw [if_neg hn]; exact ⟨43, _, rfl, by decide, by decide⟩

/-- the zone written by `zoneText` parses back, for a whole-minute offset within a day -/
theorem tc_parseZone_zoneText (off : Int) (h1 : off % 60 = 0) (h2 : -86400 < off)
    (h3 : off < 86400) : Spec.parseZone (zoneText off) = some off := by
  unfold zoneText
  by_cases h0 : off = 0
  · subst h0; rfl
  · rw [if_neg h0]
    generalize ha : off.natAbs / 60 = a
    have hhh : a / 60 < 100 := by omega
    have hmm : a % 60 < 100 := by omega
    have e1 : ∀ r, Spec.takeNum 2 (pad 2 (a / 60) ++ r) = some (a / 60, r) :=
      fun r => tc_takeNum_pad2 _ r hhh
    have e2 := tc_takeNum_pad2_nil (a % 60) hmm
    by_cases hn : off < 0
    · rw [if_pos hn]
      simp only [Spec.parseZone, List.append_assoc, List.cons_append, List.nil_append, e1, e2,
        tc_expect_cons, Option.bind_some]
      simp only [show ¬ ((45 : UInt8) = 90) by decide, if_false, or_true, if_true]
      congr 1
      omega
    · rw [if_neg hn]
      simp only [Spec.parseZone, List.append_assoc, List.cons_append, List.nil_append, e1, e2,
        tc_expect_cons, Option.bind_some]
      simp only [show ¬ ((43 : UInt8) = 90) by decide, show ¬ ((43 : UInt8) = 45) by decide,
        if_false, true_or, if_true]
      congr 1
      omega

/-! ### the whole text -/

/-- MAIN: `parseRFC3339` inverts `formatTime` on `TimeDom`. -/
theorem parseRFC3339_formatTime (t : Time) (h : Spec.TimeDom t) :
    Spec.parseRFC3339 (formatTime t) = some t := by
  obtain ⟨sec, nsec, off⟩ := t
  obtain ⟨h1, h2, h3, h4, h5, h6⟩ := h
  simp only at h1 h2 h3 h4 h5 h6
  unfold formatTime
  simp only []
  generalize hdays : (sec + off) / 86400 = days
  generalize hsod : ((sec + off) % 86400).toNat = sod
  have hdr : -719528 ≤ days ∧ days ≤ 2932896 := by omega
  have hsr : sod < 86400 := by omega
  obtain ⟨hinv, hy0, hy1, hm0, hm1, hd0, hd1⟩ := daysFromCivil_civilFromDays days hdr
  generalize (civilFromDays days).1 = y at hinv hy0 hy1
  generalize (civilFromDays days).2.1 = m at hinv hm0 hm1
  generalize (civilFromDays days).2.2 = d at hinv hd0 hd1
  obtain ⟨c, r, hz, hc, hc'⟩ := tc_zoneText_head off
  have hpz : Spec.parseZone (c :: r) = some off := by
    rw [← hz]; exact tc_parseZone_zoneText off h4 h5 h6
  have hpf : Spec.parseFrac (fracText nsec ++ c :: r) = some (nsec, c :: r) :=
    tc_parseFrac_fracText nsec h3 c r hc hc'
  have ey : ∀ r, Spec.takeNum 4 (pad 4 y.toNat ++ r) = some (y.toNat, r) :=
    fun r => tc_takeNum_pad4 _ r (by omega)
  have em : ∀ r, Spec.takeNum 2 (pad 2 m.toNat ++ r) = some (m.toNat, r) :=
    fun r => tc_takeNum_pad2 _ r (by omega)
  have ed : ∀ r, Spec.takeNum 2 (pad 2 d.toNat ++ r) = some (d.toNat, r) :=
    fun r => tc_takeNum_pad2 _ r (by omega)
  have ehh : ∀ r, Spec.takeNum 2 (pad 2 (sod / 3600) ++ r) = some (sod / 3600, r) :=
    fun r => tc_takeNum_pad2 _ r (by omega)
  have emi : ∀ r, Spec.takeNum 2 (pad 2 (sod / 60 % 60) ++ r) = some (sod / 60 % 60, r) :=
    fun r => tc_takeNum_pad2 _ r (by omega)
  have ess : ∀ r, Spec.takeNum 2 (pad 2 (sod % 60) ++ r) = some (sod % 60, r) :=
    fun r => tc_takeNum_pad2 _ r (by omega)
  have cy : ((y.toNat : Nat) : Int) = y := by omega
  have cm : ((m.toNat : Nat) : Int) = m := by omega
  have cd : ((d.toNat : Nat) : Int) = d := by omega
  rw [hz]
  simp only [Spec.parseRFC3339, List.append_assoc, List.cons_append, List.nil_append, ey, em, ed,
    ehh, emi, ess, tc_expect_cons, Option.bind_some, hpf, hpz, cy, cm, cd, hinv]
  congr 2
  omega

end RtL
end Jsonapi
