/- Helper lemmas for C05 / C06 / C13, part 5: conformance of a constructed resource to its
schema type, lists of resources, documents and identifiers. -/
import Jsonapi.Proofs.UnmarshalLemmas4
namespace Jsonapi
open GoMap
namespace UnmL

/-! ### well-typed Sets, read backwards -/

theorem setOk_attr_inv {t : Typ} {key : GoString} {y : GoVal} {a : Attr} {k : Kind}
    (h : Spec.setOk t key y = true) (hid : key ≠ idName) (ha : t.attrs.get? key = some a)
    (hk : Kind.ofCode? a.ty = some k) :
    y.hasAttrType k a.nullable = true ∨ (a.nullable = true ∧ y = .nil) := by
  unfold Spec.setOk at h
  rw [if_neg hid, ha] at h
  simp only [hk, Bool.or_eq_true, Bool.and_eq_true, decide_eq_true_eq] at h
  exact h

theorem setOk_rel_inv {t : Typ} {key : GoString} {y : GoVal} {rel : Rel}
    (h : Spec.setOk t key y = true) (hid : key ≠ idName) (ha : t.attrs.get? key = none)
    (hr : t.rels.get? key = some rel) :
    if rel.toOne then ∃ id, y = .val .string (.s id) else ∃ l, y = .strs l := by
  unfold Spec.setOk at h
  rw [if_neg hid] at h
  simp only [ha, hr] at h
  split at h
  · rw [if_pos h]; exact ⟨_, rfl⟩
  · simp only [Bool.not_eq_true'] at h
    rw [h]; exact ⟨_, rfl⟩
  · cases h

/-! ### conformance -/

/-- A returned resource conforms to the schema: its type is a schema type, every attribute
holds a value of exactly the declared Go type (or untyped nil for a nullable one), every
to-one relationship a string and every to-many relationship a string slice. -/
def Conforms (σ : SSchema) (r : AnyRes) : Prop :=
  ∃ st ∈ σ, ∃ v, r.view? = some v ∧ v.typeName = st.typ.name ∧
    (∀ key a, st.typ.attrs.get? key = some a → ∃ k, Kind.ofCode? a.ty = some k ∧
      ((v.get key).hasAttrType k a.nullable = true ∨ (a.nullable = true ∧ v.get key = .nil))) ∧
    (∀ key rel, st.typ.rels.get? key = some rel →
      if rel.toOne then ∃ id, v.get key = .val .string (.s id) else ∃ l, v.get key = .strs l)

/-- Reading a field of a resource that went through well-typed Sets. -/
theorem AInv.conforms {t : Typ} (ht : TypWF t) (hn : Spec.namesOk t = true) {h : Hist} {r : AnyRes}
    (inv : AInv t h r) (hok : SetHistOk t h) :
    ∃ v, r.view? = some v ∧ v.typeName = t.name ∧ v.id = Spec.specId h ∧
      (∀ f ∈ t.fieldKeys, Spec.canon (v.get f) = Spec.specGet t h f) ∧
      (∀ key a, t.attrs.get? key = some a → ∃ k, Kind.ofCode? a.ty = some k ∧
        ((v.get key).hasAttrType k a.nullable = true ∨ (a.nullable = true ∧ v.get key = .nil))) ∧
      (∀ key rel, t.rels.get? key = some rel →
        if rel.toOne then ∃ id, v.get key = .val .string (.s id) else ∃ l, v.get key = .strs l) := by
  obtain ⟨v, hv, e1, e2, e3, e4⟩ := inv.view ht hn
  refine ⟨v, hv, e1, e2, e3, ?_, ?_⟩
  · intro key a ha
    obtain ⟨_, _, k, hk⟩ := attr_of_get? ht ha
    have hf : key ∈ t.fieldKeys := List.mem_append_left _ (mem_keys_of_get? ha)
    obtain ⟨y, hy, hty⟩ := specGet_typed hok key
    refine ⟨k, hk, canon_typed ((e3 key hf).trans hy) ?_ (e4 key a k ha hk)⟩
    rcases hty with hty | hty
    · exact setOk_attr_inv hty (namesOk_mem hn hf).1 ha hk
    · left
      rw [hty]
      simp only [rawZero, ha, Attr.zero, hk]
      exact zero_hasAttrType k a.nullable
  · intro key rel hr
    have hf : key ∈ t.fieldKeys := List.mem_append_right _ (mem_keys_of_get? hr)
    have hna := (rel_of_get? ht hr).2.2.2
    obtain ⟨y, hy, hty⟩ := specGet_typed hok key
    have hc := (e3 key hf).trans hy
    have hyt : if rel.toOne then ∃ id, y = .val .string (.s id) else ∃ l, y = .strs l := by
      rcases hty with hty | hty
      · exact setOk_rel_inv hty (namesOk_mem hn hf).1 hna hr
      · rw [hty]
        simp only [rawZero, hna, hr, Rel.zero]
        split
        · exact ⟨_, rfl⟩
        · exact ⟨_, rfl⟩
    by_cases ho : rel.toOne = true
    · rw [if_pos ho] at hyt ⊢
      obtain ⟨id, rfl⟩ := hyt
      exact ⟨id, canon_eq_string hc⟩
    · rw [if_neg ho] at hyt ⊢
      obtain ⟨l, rfl⟩ := hyt
      exact ⟨l, canon_eq_strs hc⟩

theorem resource_conforms {σ : SSchema} (hσ : σ.WF) {sk : ResSke} {r : AnyRes}
    (h : unmarshalResource σ sk = .ok r) : Conforms σ r := by
  obtain ⟨st, hg, _, _, _, inv⟩ := ((resource_spec hσ sk).2 r).1 h
  obtain ⟨hm, _⟩ := getType_some hg
  obtain ⟨_, h2, h3, _⟩ := hσ.2 st hm
  obtain ⟨v, hv, e1, _, _, e4, e5⟩ := inv.conforms h2 h3 (fullHist_ok h2 h3 sk)
  exact ⟨st, hm, v, hv, e1, e4, e5⟩

/-! ### lists of resources and documents -/

theorem unmarshalRes?_no_panic {σ : SSchema} (hσ : σ.WF) (x : ResSke?) : unmarshalRes? σ x ≠ .panic := by
  cases x with
  | none => simp [unmarshalRes?]
  | some sk => exact (resource_spec hσ sk).1

theorem unmarshalList_no_panic {σ : SSchema} (hσ : σ.WF) (l : List ResSke?) :
    unmarshalList σ l ≠ .panic := by
  induction l with
  | nil => simp [unmarshalList]
  | cons x l ih =>
    unfold unmarshalList
    have := unmarshalRes?_no_panic hσ x
    cases h1 : unmarshalRes? σ x with
    | panic => exact absurd h1 this
    | err => simp
    | ok r =>
      cases h2 : unmarshalList σ l with
      | panic => exact absurd h2 ih
      | err => simp
      | ok rs => simp

/-- The resources of an accepted list are the results of the individual payloads, in order. -/
theorem unmarshalList_ok {σ : SSchema} {l : List ResSke?} {rs : List AnyRes}
    (h : unmarshalList σ l = .ok rs) : Forall2 (fun x r => unmarshalRes? σ x = .ok r) l rs := by
  induction l generalizing rs with
  | nil => simp only [unmarshalList, Res.ok.injEq] at h; subst h; exact .nil
  | cons x l ih =>
    unfold unmarshalList at h
    cases h1 : unmarshalRes? σ x with
    | panic => rw [h1] at h; cases h
    | err => rw [h1] at h; cases h
    | ok r =>
      rw [h1] at h
      cases h2 : unmarshalList σ l with
      | panic => rw [h2] at h; cases h
      | err => rw [h2] at h; cases h
      | ok rs' =>
        rw [h2] at h
        simp only [Res.ok.injEq] at h
        subst h
        exact .cons h1 (ih h2)

theorem forall2_mem_right {α β : Type} {R : α → β → Prop} {l₁ : List α} {l₂ : List β}
    (h : Forall2 R l₁ l₂) : ∀ b ∈ l₂, ∃ a ∈ l₁, R a b := by
  induction h with
  | nil => intro b hb; cases hb
  | cons hab _ ih =>
    intro b hb
    rcases List.mem_cons.1 hb with e | hb
    · subst e; exact ⟨_, List.mem_cons_self, hab⟩
    · obtain ⟨a, ha, hr⟩ := ih b hb
      exact ⟨a, List.mem_cons_of_mem _ ha, hr⟩

theorem unmarshalList_conforms {σ : SSchema} (hσ : σ.WF) {l : List ResSke?} {rs : List AnyRes}
    (h : unmarshalList σ l = .ok rs) : ∀ r ∈ rs, Conforms σ r := by
  intro r hr
  obtain ⟨x, _, hx⟩ := forall2_mem_right (unmarshalList_ok h) r hr
  cases x with
  | none => simp [unmarshalRes?] at hx
  | some sk => exact resource_conforms hσ hx

theorem unmarshalDocument_no_panic {σ : SSchema} (hσ : σ.WF) (sk : Option DocSke) :
    unmarshalDocument σ sk ≠ .panic := by
  cases sk with
  | none => simp [unmarshalDocument]
  | some sk =>
    unfold unmarshalDocument
    simp only []
    have hinc := unmarshalList_no_panic hσ (sk.included.map (·.2))
    have tail : ∀ (d : UDocData) (errs : List ErrorObj),
        (if sk.included.any (fun p => !p.1) = true then (Res.err : Res UDoc)
         else (match unmarshalList σ (sk.included.map (·.2)) with
          | .ok incs => .ok { data := d, included := incs, errors := errs, dmeta := sk.dmeta }
          | .err => .err
          | .panic => .panic)) ≠ .panic := by
      intro d errs
      split
      · simp
      · cases h : unmarshalList σ (sk.included.map (·.2)) with
        | panic => exact absurd h hinc
        | err => simp
        | ok incs => simp
    cases hd : sk.data with
    | absent => exact tail _ _
    | null => exact tail _ _
    | other => simp
    | res x =>
      simp only []
      cases h : unmarshalRes? σ x with
      | panic => exact absurd h (unmarshalRes?_no_panic hσ x)
      | err => simp
      | ok r => exact tail _ _
    | col o =>
      cases o with
      | none => simp
      | some l =>
        simp only []
        cases h : unmarshalList σ l with
        | panic => exact absurd h (unmarshalList_no_panic hσ l)
        | err => simp
        | ok rs => exact tail _ _

/-- What an accepted document holds. -/
theorem unmarshalDocument_ok {σ : SSchema} {sk : DocSke} {d : UDoc}
    (h : unmarshalDocument σ (some sk) = .ok d) :
    unmarshalList σ (sk.included.map (·.2)) = .ok d.included ∧ d.dmeta = sk.dmeta ∧
    (match sk.data with
      | .res x => ∃ r, unmarshalRes? σ x = .ok r ∧ d.data = .res r ∧ d.errors = []
      | .col (some l) => ∃ rs, unmarshalList σ l = .ok rs ∧ d.data = .col rs ∧ d.errors = []
      | .col none => False
      | .null => d.data = .none ∧ d.errors = []
      | .other => False
      | .absent => d.data = .none ∧ d.errors = sk.errors) := by
  unfold unmarshalDocument at h
  simp only [] at h
  have tail : ∀ (dd : UDocData) (errs : List ErrorObj),
      (if sk.included.any (fun p => !p.1) = true then (Res.err : Res UDoc)
        else (match unmarshalList σ (sk.included.map (·.2)) with
        | .ok incs => .ok { data := dd, included := incs, errors := errs, dmeta := sk.dmeta }
        | .err => .err
        | .panic => .panic)) = .ok d →
      unmarshalList σ (sk.included.map (·.2)) = .ok d.included ∧ d.dmeta = sk.dmeta ∧ d.data = dd ∧
        d.errors = errs := by
    intro dd errs h
    split at h
    · cases h
    · cases hl : unmarshalList σ (sk.included.map (·.2)) with
      | panic => rw [hl] at h; cases h
      | err => rw [hl] at h; cases h
      | ok incs => rw [hl] at h; cases h; exact ⟨rfl, rfl, rfl, rfl⟩
  cases hd : sk.data with
  | absent => rw [hd] at h; obtain ⟨a, b, c, e⟩ := tail _ _ h; exact ⟨a, b, c, e⟩
  | null => rw [hd] at h; obtain ⟨a, b, c, e⟩ := tail _ _ h; exact ⟨a, b, c, e⟩
  | other => rw [hd] at h; cases h
  | res x =>
    rw [hd] at h
    simp only [] at h
    cases hx : unmarshalRes? σ x with
    | panic => rw [hx] at h; cases h
    | err => rw [hx] at h; cases h
    | ok r =>
      rw [hx] at h
      obtain ⟨a, b, c, e⟩ := tail _ _ h
      exact ⟨a, b, r, hx, c, e⟩
  | col o =>
    rw [hd] at h
    cases o with
    | none => cases h
    | some l =>
      simp only [] at h
      cases hx : unmarshalList σ l with
      | panic => rw [hx] at h; cases h
      | err => rw [hx] at h; cases h
      | ok rs =>
        rw [hx] at h
        obtain ⟨a, b, c, e⟩ := tail _ _ h
        exact ⟨a, b, rs, hx, c, e⟩

/-! ### identifiers -/

theorem unmarshalIdentifier_no_panic (σ : Option SSchema) (d : Option (GoString × GoString)) :
    unmarshalIdentifier σ d ≠ .panic := by
  unfold unmarshalIdentifier
  repeat' split
  all_goals simp

theorem unmarshalIdentifier_ok {σ : SSchema} {d : Option (GoString × GoString)} {i : GoString × GoString}
    (h : unmarshalIdentifier (some σ) d = .ok i) :
    d = some i ∧ i.1 ≠ [] ∧ i.2 ≠ [] ∧ σ.toSchema.hasType i.2 = true := by
  unfold unmarshalIdentifier at h
  split at h
  · cases h
  · rename_i id ty
    split at h
    · cases h
    · split at h
      · cases h
      · simp only [] at h
        split at h
        · cases h; exact ⟨rfl, by assumption, by assumption, by assumption⟩
        · cases h

theorem unmarshalIdentifiers_cons (σ : Option SSchema) (x : Option (GoString × GoString))
    (l : List (Option (GoString × GoString))) :
    unmarshalIdentifiers σ (some (x :: l)) =
      match unmarshalIdentifier σ x, unmarshalIdentifiers σ (some l) with
      | .ok i, .ok rest => .ok (i :: rest)
      | .panic, _ => .panic
      | _, .panic => .panic
      | _, _ => .err := rfl

theorem unmarshalIdentifiers_no_panic (σ : Option SSchema) (d : Option (List (Option (GoString × GoString)))) :
    unmarshalIdentifiers σ d ≠ .panic := by
  cases d with
  | none => simp [unmarshalIdentifiers]
  | some l =>
    induction l with
    | nil => simp [unmarshalIdentifiers]
    | cons x l ih =>
      rw [unmarshalIdentifiers_cons]
      have := unmarshalIdentifier_no_panic σ x
      cases h1 : unmarshalIdentifier σ x <;> cases h2 : unmarshalIdentifiers σ (some l) <;> simp_all

theorem unmarshalIdentifiers_ok {σ : SSchema} {l : List (Option (GoString × GoString))}
    {is : List (GoString × GoString)} (h : unmarshalIdentifiers (some σ) (some l) = .ok is) :
    l = is.map some ∧ ∀ i ∈ is, i.1 ≠ [] ∧ i.2 ≠ [] ∧ σ.toSchema.hasType i.2 = true := by
  induction l generalizing is with
  | nil =>
    simp only [unmarshalIdentifiers, List.foldr_nil, Res.ok.injEq] at h
    subst h; exact ⟨rfl, fun i hi => by cases hi⟩
  | cons x l ih =>
    rw [unmarshalIdentifiers_cons] at h
    split at h
    · rename_i i rest h1 h2
      simp only [Res.ok.injEq] at h
      subst h
      obtain ⟨e1, p1, p2, p3⟩ := unmarshalIdentifier_ok h1
      obtain ⟨e2, q⟩ := ih h2
      refine ⟨by rw [e1, e2]; rfl, ?_⟩
      intro j hj
      rcases List.mem_cons.1 hj with e | hj
      · subst e; exact ⟨p1, p2, p3⟩
      · exact q j hj
    · cases h
    · cases h
    · cases h

end UnmL
end Jsonapi
