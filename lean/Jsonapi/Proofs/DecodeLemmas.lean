/- Lemmas about the byte-level decoding (`Spec/JsonFull.lean`, `Model/Decode.lean`). -/
import Jsonapi.Model.Decode
import Jsonapi.Proofs.MapLemmas
namespace Jsonapi.GoMap

/-! ### maps built by `GoMap.set` have distinct keys -/

theorem dl_keys_set_subset {β : Type} (m : GoMap β) (k : GoString) (v : β) :
    ∀ x, x ∈ keys (set m k v) → x = k ∨ x ∈ keys m := by
  induction m with
  | nil =>
    intro x hx
    simp only [set, keys, List.map_cons, List.map_nil, List.mem_singleton] at hx
    exact Or.inl hx
  | cons p m ih =>
    obtain ⟨k', v'⟩ := p
    intro x hx
    unfold set at hx
    split at hx
    · rename_i e
      simp only [keys, List.map_cons, List.mem_cons] at hx ⊢
      rcases hx with h | h
      · exact Or.inl h
      · exact Or.inr (Or.inr h)
    · simp only [keys, List.map_cons, List.mem_cons] at hx ⊢
      rcases hx with h | h
      · exact Or.inr (Or.inl h)
      · rcases ih x h with h' | h'
        · exact Or.inl h'
        · exact Or.inr (Or.inr h')

theorem dl_nodup_set {β : Type} (m : GoMap β) (k : GoString) (v : β) (h : (keys m).Nodup) :
    (keys (set m k v)).Nodup := by
  induction m with
  | nil => simp [set, keys]
  | cons p m ih =>
    obtain ⟨k', v'⟩ := p
    simp only [keys, List.map_cons, List.nodup_cons] at h
    unfold set
    split
    · rename_i e
      simp only [keys, List.map_cons, List.nodup_cons]
      exact ⟨e ▸ h.1, h.2⟩
    · rename_i ne
      simp only [keys, List.map_cons, List.nodup_cons]
      refine ⟨?_, ih h.2⟩
      intro hm
      rcases dl_keys_set_subset m k v k' hm with e | hm'
      · exact ne e
      · exact h.1 hm'

end Jsonapi.GoMap

namespace Jsonapi.DecL
open Jsonapi Spec GoMap

theorem attrsInto_nodup (D : Delegated) (ms : List CMember) (cur : GoMap RawVal)
    (h : (keys cur).Nodup) : (keys (attrsInto D cur ms)).Nodup := by
  induction ms generalizing cur with
  | nil => exact h
  | cons m ms ih =>
    obtain ⟨_, k, _, v, _⟩ := m
    exact ih _ (dl_nodup_set cur _ _ h)

theorem relsInto_nodup (ms : List CMember) (cur out : GoMap RelRaw)
    (h : (keys cur).Nodup) (ho : relsInto cur ms = some out) : (keys out).Nodup := by
  induction ms generalizing cur with
  | nil => simp only [relsInto, Option.some.injEq] at ho; exact ho ▸ h
  | cons m ms ih =>
    obtain ⟨_, k, _, v, _⟩ := m
    unfold relsInto at ho
    split at ho
    · cases ho
    · exact ih _ (dl_nodup_set cur _ _ h) ho

theorem resMembers_nodup (D : Delegated) (ms : List CMember) (acc sk : ResSke)
    (h : (keys acc.attrs).Nodup ∧ (keys acc.rels).Nodup) (ho : resMembers D acc ms = some sk) :
    (keys sk.attrs).Nodup ∧ (keys sk.rels).Nodup := by
  induction ms generalizing acc with
  | nil => simp only [resMembers, Option.some.injEq] at ho; exact ho ▸ h
  | cons m ms ih =>
    obtain ⟨_, k, _, v, _⟩ := m
    unfold resMembers at ho
    split at ho
    · split at ho
      · refine ih _ ?_ ho; exact h
      · cases ho
    · split at ho
      · refine ih _ ?_ ho; exact h
      · cases ho
    · split at ho
      · refine ih _ ?_ ho; exact ⟨List.nodup_nil, h.2⟩
      · refine ih _ ?_ ho; exact ⟨attrsInto_nodup D _ _ h.1, h.2⟩
      · cases ho
    · split at ho
      · refine ih _ ?_ ho; exact ⟨h.1, List.nodup_nil⟩
      · split at ho
        · rename_i m' hm'
          refine ih _ ?_ ho; exact ⟨h.1, relsInto_nodup _ _ _ h.2 hm'⟩
        · cases ho
      · cases ho
    · split at ho
      · refine ih _ ?_ ho; exact h
      · cases ho
    · exact ih _ h ho

/-- the skeleton of a resource payload has distinct attribute keys and distinct relationship
keys -/
theorem decodeRes_nodup (D : Delegated) (j : CJson) (sk : ResSke) (h : decodeRes D j = some sk) :
    sk.attrs.keys.Nodup ∧ sk.rels.keys.Nodup := by
  unfold decodeRes at h
  split at h
  · simp only [Option.some.injEq] at h
    subst h
    exact ⟨List.nodup_nil, List.nodup_nil⟩
  · refine resMembers_nodup D _ ResSke.zero _ ?_ h
    exact ⟨List.nodup_nil, List.nodup_nil⟩
  · cases h

/-! ### leading white space -/

theorem dropWs_append_of_all (ws s : GoString) (h : ws.all isWs = true) :
    dropWs (ws ++ s) = dropWs s := by
  induction ws with
  | nil => rfl
  | cons c ws ih =>
    simp only [List.all_cons, Bool.and_eq_true] at h
    simp only [dropWs, List.cons_append, List.dropWhile_cons, h.1, if_true]
    exact ih h.2

theorem parseJsonC_ws_leading (ws s : GoString) (h : ws.all isWs = true) :
    parseJsonC (ws ++ s) = parseJsonC s := by
  unfold parseJsonC
  rw [dropWs_append_of_all ws s h]

end Jsonapi.DecL
