/- Helper lemmas for C05 / C06 / C13, part 3: full unmarshaling of a resource. -/
import Jsonapi.Proofs.UnmarshalLemmas2
namespace Jsonapi
open GoMap
namespace UnmL

/-! ### schema lookup -/

theorem getType_some {σ : SSchema} {n : GoString} {st : SType} (h : σ.getType n = some st) :
    st ∈ σ ∧ st.typ.name = n := by
  unfold SSchema.getType at h
  exact ⟨List.mem_of_find?_eq_some h, by simpa using List.find?_some h⟩

theorem getType_isSome_iff (σ : SSchema) (n : GoString) :
    (σ.getType n).isSome = σ.toSchema.hasType n := by
  unfold SSchema.getType SSchema.toSchema Schema.hasType
  simp only [List.any_map]
  rw [Bool.eq_iff_iff]
  simp [List.any_eq_true]

/-! ### the invariant of a resource under construction -/

/-- After the Sets of `h`: the soft resource / the wrapped struct of type `t` reads as the
abstract resource, and its stored values are typed. -/
def AInv (t : Typ) (h : Hist) : AnyRes → Prop
  | .soft s => SoftInv t h s ∧ SoftTyped t s.data
  | .wrapped w => WInv t h w ∧ w.attrs.keys.Perm t.attrs.keys ∧ w.rels.keys.Perm t.rels.keys

theorem Wrapped.set_maps {w w' : Wrapped} {k : GoString} {v : GoVal} (h : w.set k v = .ok w') :
    w'.attrs = w.attrs ∧ w'.rels = w.rels := by
  unfold Wrapped.set Wrapped.setID Wrapped.setField at h
  repeat' split at h
  all_goals first | (cases h; exact ⟨rfl, rfl⟩) | cases h

theorem AInv.step {t : Typ} (ht : TypWF t) (hn : Spec.namesOk t = true) {h : Hist} {r : AnyRes}
    (inv : AInv t h r) (k : GoString) (v : GoVal) (hok : Spec.setOk t k v = true) :
    ∃ r', r.set k v = .ok r' ∧ AInv t (h ++ [(k, v)]) r' := by
  cases r with
  | soft s =>
    obtain ⟨i1, i2⟩ := inv
    exact ⟨_, rfl, SoftInv.step ht hn i1 k v hok, SoftTyped.step ht i1.typ i1.keys i2 k v⟩
  | wrapped w =>
    obtain ⟨i1, i2, i3⟩ := inv
    obtain ⟨w', e, i1'⟩ := WInv.step ht hn i1 k v hok
    obtain ⟨ea, er⟩ := Wrapped.set_maps e
    refine ⟨.wrapped w', ?_, i1', by rw [ea]; exact i2, by rw [er]; exact i3⟩
    simp only [AnyRes.set, e]

theorem AInv.new {st : SType} (ht : TypWF st.typ) (hn : Spec.namesOk st.typ = true)
    (hs : st.backed = true → Spec.structable st.typ = true) :
    ∃ r0, st.new = .ok r0 ∧ AInv st.typ [] r0 := by
  unfold SType.new
  cases hb : st.backed with
  | false => exact ⟨_, rfl, SoftInv.init st.typ, by intro f a x _ hx; cases hx⟩
  | true =>
    have hs' := hs hb
    obtain ⟨w0, hw, hd, hv, hty, hat, hre⟩ := wrap_declOfTyp ht hn hs' (Wrapped.zeroVals (declOfTyp st.typ))
    have hA := structAttrs_declOfTyp ht hs'
    have hR := structRels_declOfTyp_eq ht hs'
    rw [hR] at hre
    simp only [Res.ok.injEq] at hre
    have kA : w0.attrs.keys.Perm st.typ.attrs.keys := by rw [hat, hA]; exact sortByKey_keys_perm _
    have kR : w0.rels.keys.Perm st.typ.rels.keys := by
      rw [← hre]
      have : GoMap.keys (List.map (fun p : GoString × Rel => (p.1, normRel st.typ.name p.2))
          (Typ.sortByKey st.typ.rels)) = GoMap.keys (Typ.sortByKey st.typ.rels) := by simp [keys]
      rw [this]; exact sortByKey_keys_perm _
    refine ⟨.wrapped w0, ?_, WInv.init ht hn w0 hd hv hty, kA, kR⟩
    simp only [if_true, hw]

theorem Wrapped.get_ne_ptr_none {w : Wrapped} {f : GoString} {x : GoVal} (h : w.get f = .ok x)
    (k' : Kind) : x ≠ .ptr k' none := by
  unfold Wrapped.get Wrapped.getField at h
  repeat' split at h
  all_goals first
    | (cases h; done)
    | (cases h; intro e; cases e; done)
    | (cases h; intro e; subst e; simp_all; done)

/-- What the library reads from a constructed resource. -/
theorem AInv.view {t : Typ} (ht : TypWF t) (hn : Spec.namesOk t = true) {h : Hist} {r : AnyRes}
    (inv : AInv t h r) :
    ∃ v, r.view? = some v ∧ v.typeName = t.name ∧ v.id = Spec.specId h ∧
      (∀ f ∈ t.fieldKeys, Spec.canon (v.get f) = Spec.specGet t h f) ∧
      (∀ f a k, t.attrs.get? f = some a → Kind.ofCode? a.ty = some k →
        ∀ k', v.get f = .ptr k' none → k' = k) := by
  cases r with
  | soft s =>
    obtain ⟨i1, i2⟩ := inv
    refine ⟨s.view, rfl, ?_, ?_, ?_, ?_⟩
    · show s.typ.name = t.name
      rw [i1.typ]
    · show s.id = _
      exact i1.id
    · intro f hf
      rw [Soft.view_get ht s i1.typ i1.keys hf (namesOk_mem hn hf).1,
        Soft.get_field ht s i1.typ i1.keys hf (namesOk_mem hn hf).1]
      exact i1.vals f hf
    · intro f a k ha hk k' hx
      have hf : f ∈ t.fieldKeys := List.mem_append_left _ (mem_keys_of_get? ha)
      rw [Soft.view_get ht s i1.typ i1.keys hf (namesOk_mem hn hf).1,
        Soft.get_field ht s i1.typ i1.keys hf (namesOk_mem hn hf).1] at hx
      have hty : (GoVal.ptr k' none).attrType = (a.ty, a.nullable) := by
        rw [← hx]
        cases hd : s.data.get? f with
        | some y => exact i2 f a y ha hd
        | none => simp only [Option.getD_none, rawZero, ha]; exact zero_attrType hk
      simp only [GoVal.attrType, Prod.mk.injEq] at hty
      exact Kind.code_inj (hty.1.trans (Kind.code_of_ofCode? hk).symm)
  | wrapped w =>
    obtain ⟨i1, i2, i3⟩ := inv
    obtain ⟨v, hview, e1, e2, _, _, e5⟩ := i1.view ht hn i2 i3
    refine ⟨v, hview, by rw [e1, i1.typ], e2, ?_, ?_⟩
    · intro f hf
      obtain ⟨x, hx, hc⟩ := i1.get_field ht hn hf
      rw [e5 f hf x hx]; exact hc
    · intro f a k ha _ k' hx
      have hf : f ∈ t.fieldKeys := List.mem_append_left _ (mem_keys_of_get? ha)
      obtain ⟨x, hx', _⟩ := i1.get_field ht hn hf
      rw [e5 f hf x hx'] at hx
      exact absurd hx (Wrapped.get_ne_ptr_none hx' k')

/-! ### the two loops of `UnmarshalResource` -/

def attrStep (t : Typ) (acc : Res AnyRes) (p : GoString × RawVal) : Res AnyRes :=
  match acc with
  | .ok r =>
    (match t.attrs.get? p.1 with
      | some a => (match unmarshalToType a p.2 with
        | .ok v => r.set a.name v
        | .err => .err
        | .panic => .panic)
      | none => .err)
  | e => e

def relStep (t : Typ) (acc : Res AnyRes) (p : GoString × RelRaw) : Res AnyRes :=
  match acc with
  | .ok r =>
    (match t.rels.get? p.1 with
      | some rel =>
        let (v, bad) := relValue rel p.2
        (match v with
          | some x => (match r.set rel.fromName x with
            | .ok r' => if bad then .err else .ok r'
            | .err => .err
            | .panic => .panic)
          | none => if bad then .err else .ok r)
      | none => .err)
  | e => e

def resBody (st : SType) (sk : ResSke) : Res AnyRes :=
  match st.new with
  | .ok r0 =>
    (match r0.set idName (.val .string (.s sk.id)) with
    | .ok r1 => sk.rels.foldl (relStep st.typ) (sk.attrs.foldl (attrStep st.typ) (.ok r1))
    | .err => .err
    | .panic => .panic)
  | .err => .err
  | .panic => .panic

theorem unmarshalResource_eq (σ : SSchema) (sk : ResSke) :
    unmarshalResource σ sk =
      match σ.getType sk.typ with
      | none => .err
      | some st => if st.typ.name = [] then .err else resBody st sk := rfl

/-- The Set an attribute entry of the payload performs (`none`: the entry is rejected). -/
def attrEntry (t : Typ) (p : GoString × RawVal) : Option (GoString × GoVal) :=
  match t.attrs.get? p.1 with
  | some a => (match unmarshalToType a p.2 with | .ok v => some (a.name, v) | _ => none)
  | none => none

/-- The Set a relationship entry performs (`none`: no data member). -/
def relEntry (t : Typ) (p : GoString × RelRaw) : Option (GoString × GoVal) :=
  match t.rels.get? p.1 with
  | some rel => (relValue rel p.2).1.map (fun x => (rel.fromName, x))
  | none => none

/-- The relationship entry is accepted. -/
def relOk (t : Typ) (p : GoString × RelRaw) : Bool :=
  match t.rels.get? p.1 with
  | some rel => !(relValue rel p.2).2
  | none => false

def attrsOk (t : Typ) (l : GoMap RawVal) : Bool := l.all (fun p => (attrEntry t p).isSome)
def relsOk (t : Typ) (l : GoMap RelRaw) : Bool := l.all (relOk t)

def idEntry (sk : ResSke) : GoString × GoVal := (idName, .val .string (.s sk.id))

/-- All the Sets a payload performs, in order. -/
def fullHist (t : Typ) (sk : ResSke) : Hist :=
  idEntry sk :: (sk.attrs.filterMap (attrEntry t) ++ sk.rels.filterMap (relEntry t))

theorem attrEntry_some {t : Typ} (ht : TypWF t) {p : GoString × RawVal} {e : GoString × GoVal}
    (h : attrEntry t p = some e) :
    ∃ a, t.attrs.get? p.1 = some a ∧ unmarshalToType a p.2 = .ok e.2 ∧ e.1 = p.1 ∧ a.name = p.1 := by
  unfold attrEntry at h
  split at h
  · rename_i a ha
    split at h
    · rename_i v hv
      cases h
      exact ⟨a, ha, hv, (attr_of_get? ht ha).1.symm, (attr_of_get? ht ha).1.symm⟩
    · cases h
  · cases h

theorem attrEntry_setOk {t : Typ} (ht : TypWF t) (hn : Spec.namesOk t = true) {p : GoString × RawVal}
    {e : GoString × GoVal} (h : attrEntry t p = some e) : Spec.setOk t e.1 e.2 = true := by
  obtain ⟨a, ha, hv, e1, _⟩ := attrEntry_some ht h
  obtain ⟨_, _, k, hk⟩ := attr_of_get? ht ha
  have hf : p.1 ∈ t.fieldKeys := List.mem_append_left _ (mem_keys_of_get? ha)
  unfold Spec.setOk
  rw [e1, if_neg (namesOk_mem hn hf).1, ha]
  simp only [hk, toType_hasAttrType a p.2 e.2 k hv hk, Bool.true_or]

theorem relEntry_some {t : Typ} (ht : TypWF t) {p : GoString × RelRaw} {e : GoString × GoVal}
    (h : relEntry t p = some e) :
    ∃ rel, t.rels.get? p.1 = some rel ∧ (relValue rel p.2).1 = some e.2 ∧ e.1 = p.1 ∧ rel.fromName = p.1 := by
  unfold relEntry at h
  split at h
  · rename_i rel hr
    cases hv : (relValue rel p.2).1 with
    | none => rw [hv] at h; cases h
    | some x =>
      rw [hv] at h; cases h
      exact ⟨rel, hr, hv, (rel_of_get? ht hr).1.symm, (rel_of_get? ht hr).1.symm⟩
  · cases h

theorem rel_setOk {t : Typ} (ht : TypWF t) (hn : Spec.namesOk t = true) {f : GoString} {rel : Rel}
    (hr : t.rels.get? f = some rel) {v : RelRaw} {x : GoVal} (hv : (relValue rel v).1 = some x) :
    Spec.setOk t rel.fromName x = true := by
  obtain ⟨e1, _, _, hna⟩ := rel_of_get? ht hr
  have hf : f ∈ t.fieldKeys := List.mem_append_right _ (mem_keys_of_get? hr)
  have := relValue_typed rel v x hv
  unfold Spec.setOk
  rw [← e1, if_neg (namesOk_mem hn hf).1, hna, hr]
  by_cases ho : rel.toOne = true
  · rw [if_pos ho] at this; obtain ⟨id, rfl⟩ := this; simp [ho]
  · rw [if_neg ho] at this; obtain ⟨l, rfl⟩ := this; simp [ho]

theorem relEntry_setOk {t : Typ} (ht : TypWF t) (hn : Spec.namesOk t = true) {p : GoString × RelRaw}
    {e : GoString × GoVal} (h : relEntry t p = some e) : Spec.setOk t e.1 e.2 = true := by
  obtain ⟨rel, hr, hv, e1, e2⟩ := relEntry_some ht h
  rw [e1, ← e2]
  exact rel_setOk ht hn hr hv

theorem attr_fold {t : Typ} (ht : TypWF t) (hn : Spec.namesOk t = true) (l : GoMap RawVal)
    (h : Hist) (r : AnyRes) (inv : AInv t h r) :
    (attrsOk t l = true → ∃ r', l.foldl (attrStep t) (.ok r) = .ok r' ∧
      AInv t (h ++ l.filterMap (attrEntry t)) r') ∧
    (attrsOk t l = false → l.foldl (attrStep t) (.ok r) = .err) := by
  refine fold_inv (attrStep t) (fun _ => rfl) (AInv t) (attrEntry t) (fun p => (attrEntry t p).isSome)
    ?_ ?_ ?_ l h r inv
  · intro h a b e inv _ he
    obtain ⟨at', ha, hv, e1, e2⟩ := attrEntry_some ht he
    have hok := attrEntry_setOk ht hn he
    have : e.1 = at'.name := e1.trans e2.symm
    obtain ⟨r', e1, inv'⟩ := AInv.step ht hn inv e.1 e.2 hok
    refine ⟨r', ?_, inv'⟩
    simp only [attrStep, ha, hv, ← this]
    exact e1
  · intro h a b _ hg he
    rw [he] at hg; cases hg
  · intro h a b _ hg
    simp only [attrStep]
    unfold attrEntry at hg
    cases ha : t.attrs.get? b.1 with
    | none => rfl
    | some at' =>
      simp only [ha] at hg
      simp only []
      cases hv : unmarshalToType at' b.2 with
      | ok v => simp only [hv] at hg; cases hg
      | err => rfl
      | panic => exact absurd hv (toType_no_panic _ _)

theorem rel_fold {t : Typ} (ht : TypWF t) (hn : Spec.namesOk t = true) (l : GoMap RelRaw)
    (h : Hist) (r : AnyRes) (inv : AInv t h r) :
    (relsOk t l = true → ∃ r', l.foldl (relStep t) (.ok r) = .ok r' ∧
      AInv t (h ++ l.filterMap (relEntry t)) r') ∧
    (relsOk t l = false → l.foldl (relStep t) (.ok r) = .err) := by
  refine fold_inv (relStep t) (fun _ => rfl) (AInv t) (relEntry t) (relOk t) ?_ ?_ ?_ l h r inv
  · intro h a b e inv hg he
    obtain ⟨rel, hr, hv, e1, e2⟩ := relEntry_some ht he
    have he1 : e.1 = rel.fromName := e1.trans e2.symm
    have hok := relEntry_setOk ht hn he
    obtain ⟨r', e1, inv'⟩ := AInv.step ht hn inv e.1 e.2 hok
    have hbad : (relValue rel b.2).2 = false := by
      unfold relOk at hg; rw [hr] at hg; simpa using hg
    refine ⟨r', ?_, inv'⟩
    rw [he1] at e1
    simp only [relStep, hr]
    rw [show relValue rel b.2 = ((relValue rel b.2).1, (relValue rel b.2).2) from rfl, hv, hbad]
    simp only [e1, Bool.false_eq_true, if_false]
  · intro h a b _ hg he
    unfold relOk at hg
    unfold relEntry at he
    cases hr : t.rels.get? b.1 with
    | none => rw [hr] at hg; cases hg
    | some rel =>
      rw [hr] at hg he
      have hbad : (relValue rel b.2).2 = false := by simpa using hg
      have hv : (relValue rel b.2).1 = none := by simpa using he
      simp only [relStep, hr]
      rw [show relValue rel b.2 = ((relValue rel b.2).1, (relValue rel b.2).2) from rfl, hv, hbad]
      simp
  · intro h a b inv hg
    unfold relOk at hg
    cases hr : t.rels.get? b.1 with
    | none => simp only [relStep, hr]
    | some rel =>
      rw [hr] at hg
      have hbad : (relValue rel b.2).2 = true := by simpa using hg
      simp only [relStep, hr]
      cases hv : (relValue rel b.2).1 with
      | none =>
        rw [show relValue rel b.2 = ((relValue rel b.2).1, (relValue rel b.2).2) from rfl, hv, hbad]
        simp
      | some x =>
        obtain ⟨r', e1, _⟩ := AInv.step ht hn inv rel.fromName x (rel_setOk ht hn hr hv)
        rw [show relValue rel b.2 = ((relValue rel b.2).1, (relValue rel b.2).2) from rfl, hv, hbad]
        simp only [e1, if_true]

/-- `UnmarshalResource` after the type lookup: accepted exactly when every entry is, and
then the result has gone through exactly the Sets of `fullHist`; never a panic. -/
theorem resBody_spec {st : SType} (ht : TypWF st.typ) (hn : Spec.namesOk st.typ = true)
    (hs : st.backed = true → Spec.structable st.typ = true) (sk : ResSke) :
    ((attrsOk st.typ sk.attrs && relsOk st.typ sk.rels) = true →
      ∃ r, resBody st sk = .ok r ∧ AInv st.typ (fullHist st.typ sk) r) ∧
    ((attrsOk st.typ sk.attrs && relsOk st.typ sk.rels) = false → resBody st sk = .err) := by
  obtain ⟨r0, e0, inv0⟩ := AInv.new ht hn hs
  obtain ⟨r1, e1, inv1⟩ := AInv.step ht hn inv0 idName (.val .string (.s sk.id))
    (by simp [Spec.setOk])
  rw [List.nil_append] at inv1
  obtain ⟨a1, a2⟩ := attr_fold ht hn sk.attrs _ r1 inv1
  unfold resBody
  rw [e0]
  simp only [e1]
  cases hA : attrsOk st.typ sk.attrs with
  | false =>
    rw [a2 hA]
    refine ⟨fun hh => by simp at hh, fun _ => foldl_err _ (fun _ => rfl) _⟩
  | true =>
    obtain ⟨r2, e2, inv2⟩ := a1 hA
    rw [e2]
    obtain ⟨b1, b2⟩ := rel_fold ht hn sk.rels _ r2 inv2
    simp only [Bool.true_and]
    refine ⟨fun hR => ?_, b2⟩
    obtain ⟨r3, e3, inv3⟩ := b1 hR
    refine ⟨r3, e3, ?_⟩
    have : fullHist st.typ sk =
        [(idName, GoVal.val Kind.string (Pay.s sk.id))] ++ sk.attrs.filterMap (attrEntry st.typ) ++
          sk.rels.filterMap (relEntry st.typ) := by
      simp [fullHist, idEntry]
    rw [this]; exact inv3

theorem resource_spec {σ : SSchema} (hσ : σ.WF) (sk : ResSke) :
    unmarshalResource σ sk ≠ .panic ∧
    ∀ r, unmarshalResource σ sk = .ok r ↔
      ∃ st, σ.getType sk.typ = some st ∧ attrsOk st.typ sk.attrs = true ∧ relsOk st.typ sk.rels = true ∧
        resBody st sk = .ok r ∧ AInv st.typ (fullHist st.typ sk) r := by
  rw [unmarshalResource_eq]
  cases hg : σ.getType sk.typ with
  | none => exact ⟨by simp, fun r => by simp⟩
  | some st =>
    obtain ⟨hm, _⟩ := getType_some hg
    obtain ⟨h1, h2, h3, h4⟩ := hσ.2 st hm
    simp only [if_neg h1]
    obtain ⟨b1, b2⟩ := resBody_spec h2 h3 h4 sk
    cases hb : (attrsOk st.typ sk.attrs && relsOk st.typ sk.rels) with
    | false =>
      rw [b2 hb]
      refine ⟨by simp, fun r => ⟨fun h => (by cases h), ?_⟩⟩
      rintro ⟨st', e, hA, hR, _⟩
      cases e
      rw [hA, hR] at hb; cases hb
    | true =>
      obtain ⟨r, e, inv⟩ := b1 hb
      rw [e]
      refine ⟨by simp, fun r' => ⟨fun h => ?_, ?_⟩⟩
      · cases h
        simp only [Bool.and_eq_true] at hb
        exact ⟨st, rfl, hb.1, hb.2, e, inv⟩
      · rintro ⟨st', e', _, _, e2, _⟩
        cases e'
        rw [e] at e2; exact e2

/-! ### the recorded history -/

theorem fullHist_ok {t : Typ} (ht : TypWF t) (hn : Spec.namesOk t = true) (sk : ResSke) :
    SetHistOk t (fullHist t sk) := by
  intro p hp
  simp only [fullHist, List.mem_cons, List.mem_append, List.mem_filterMap] at hp
  rcases hp with e | ⟨q, _, hq⟩ | ⟨q, _, hq⟩
  · subst e; simp [idEntry, Spec.setOk]
  · exact attrEntry_setOk ht hn hq
  · exact relEntry_setOk ht hn hq

theorem attrHist_keys {t : Typ} (ht : TypWF t) (l : GoMap RawVal) (f : GoString) :
    f ∈ (l.filterMap (attrEntry t)).map (·.1) → f ∈ keys l ∧ f ∈ t.attrs.keys := by
  intro h
  obtain ⟨e, he, rfl⟩ := List.mem_map.1 h
  obtain ⟨p, hp, hpe⟩ := List.mem_filterMap.1 he
  obtain ⟨a, ha, _, e1, _⟩ := attrEntry_some ht hpe
  rw [e1]
  exact ⟨List.mem_map.2 ⟨p, hp, rfl⟩, mem_keys_of_get? ha⟩

theorem relHist_keys {t : Typ} (ht : TypWF t) (l : GoMap RelRaw) (f : GoString) :
    f ∈ (l.filterMap (relEntry t)).map (·.1) →
      (∃ p ∈ l, p.1 = f ∧ p.2.present = true) ∧ f ∈ t.rels.keys := by
  intro h
  obtain ⟨e, he, rfl⟩ := List.mem_map.1 h
  obtain ⟨p, hp, hpe⟩ := List.mem_filterMap.1 he
  obtain ⟨rel, hr, hv, e1, _⟩ := relEntry_some ht hpe
  rw [e1]
  refine ⟨⟨p, hp, rfl, ?_⟩, mem_keys_of_get? hr⟩
  rw [← relValue_isSome rel p.2, hv]; rfl

theorem fullHist_nodup {t : Typ} (ht : TypWF t) (hn : Spec.namesOk t = true) (sk : ResSke)
    (hA : sk.attrs.keys.Nodup) (hR : sk.rels.keys.Nodup) : ((fullHist t sk).map (·.1)).Nodup := by
  have sA := filterMap_keys_sublist (attrEntry t)
    (fun p e he => (attrEntry_some ht he).choose_spec.2.2.1) sk.attrs
  have sR := filterMap_keys_sublist (relEntry t)
    (fun p e he => (relEntry_some ht he).choose_spec.2.2.1) sk.rels
  simp only [fullHist, List.map_cons, List.map_append, List.nodup_cons, List.mem_append, not_or]
  refine ⟨⟨?_, ?_⟩, ?_⟩
  · intro h
    exact (namesOk_mem hn (List.mem_append_left _ (attrHist_keys ht _ _ h).2)).1 rfl
  · intro h
    exact (namesOk_mem hn (List.mem_append_right _ (relHist_keys ht _ _ h).2)).1 rfl
  · rw [List.nodup_append]
    refine ⟨sA.nodup hA, sR.nodup hR, ?_⟩
    intro a ha b hb e
    subst e
    exact ht.disj a (attrHist_keys ht _ _ ha).2 (relHist_keys ht _ _ hb).2

theorem specId_fullHist {t : Typ} (ht : TypWF t) (hn : Spec.namesOk t = true) (sk : ResSke) :
    Spec.specId (fullHist t sk) = sk.id := by
  have : fullHist t sk = [idEntry sk] ++
      (sk.attrs.filterMap (attrEntry t) ++ sk.rels.filterMap (relEntry t)) := rfl
  rw [this, specId_append_of_not_mem]
  · rfl
  · simp only [List.map_append, List.mem_append, not_or]
    constructor
    · intro h
      exact (namesOk_mem hn (List.mem_append_left _ (attrHist_keys ht _ _ h).2)).1 rfl
    · intro h
      exact (namesOk_mem hn (List.mem_append_right _ (relHist_keys ht _ _ h).2)).1 rfl

/-- membership of the payload entries in the history -/
theorem mem_fullHist_attr {t : Typ} (sk : ResSke) {p : GoString × RawVal} (hp : p ∈ sk.attrs)
    {e : GoString × GoVal} (he : attrEntry t p = some e) : e ∈ fullHist t sk := by
  simp only [fullHist, List.mem_cons, List.mem_append, List.mem_filterMap]
  exact .inr (.inl ⟨p, hp, he⟩)

theorem mem_fullHist_rel {t : Typ} (sk : ResSke) {p : GoString × RelRaw} (hp : p ∈ sk.rels)
    {e : GoString × GoVal} (he : relEntry t p = some e) : e ∈ fullHist t sk := by
  simp only [fullHist, List.mem_cons, List.mem_append, List.mem_filterMap]
  exact .inr (.inr ⟨p, hp, he⟩)

end UnmL
end Jsonapi
