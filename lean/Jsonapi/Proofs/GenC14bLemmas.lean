/-
Lemmas for Props/GenC14b: the loop shapes the translator (harness/cmd/translate) produces for
the receiver-mutating methods of the schema editing API, related to the list functions the
hand-written model uses.
-/
import Jsonapi.Model.Schema
import Jsonapi.Proofs.C14Lemmas
namespace Jsonapi
open Schema GoMap

namespace GenC14b

theorem has_of_mem {β} {m : GoMap β} {e : GoString × β} (h : e ∈ m) : GoMap.has m e.1 = true := by
  induction m with
  | nil => cases h
  | cons x xs ih =>
    obtain ⟨k, v⟩ := x
    unfold GoMap.has GoMap.get?
    by_cases hk : k = e.1
    · simp [hk]
    · simp only [hk, if_false]
      rcases List.mem_cons.1 h with h | h
      · subst h; exact absurd rfl hk
      · exact ih h

theorem del_del {β} (m : GoMap β) (n : GoString) : GoMap.del (GoMap.del m n) n = GoMap.del m n := by
  unfold GoMap.del; rw [List.filter_filter]; simp

/-- A loop `for i := range m { if p m[i] { delete(m, n) } }` as the translator renders it:
the map is deleted from as soon as one entry satisfies `p`. -/
theorem delLoop {σ β : Type} (get : σ → GoMap β) (put : σ → GoMap β → σ)
    (hgp : ∀ s m, get (put s m) = m) (hpp : ∀ s m m', put (put s m) m' = put s m')
    (p : β → Bool) (n : GoString) (l : GoMap β) (s : σ) (hl : ∀ e ∈ l, GoMap.has (get s) e.1 = true) :
    l.foldl (fun s e => if GoMap.has (get s) e.1 then (if p e.2 then put s (GoMap.del (get s) n) else s) else s) s
      = if l.any (fun e => p e.2) then put s (GoMap.del (get s) n) else s := by
  have stable : ∀ (l : GoMap β) (s : σ), 
      l.foldl (fun s e => if GoMap.has (get s) e.1 then (if p e.2 then put s (GoMap.del (get s) n) else s) else s)
        (put s (GoMap.del (get s) n)) = put s (GoMap.del (get s) n) := by
    intro l
    induction l with
    | nil => intro s; rfl
    | cons e l ih =>
      intro s
      simp only [List.foldl_cons, hgp, hpp, del_del]
      have : (if GoMap.has (GoMap.del (get s) n) e.1 = true then
          (if p e.2 = true then put s (GoMap.del (get s) n) else put s (GoMap.del (get s) n))
          else put s (GoMap.del (get s) n)) = put s (GoMap.del (get s) n) := by
        split
        · split <;> rfl
        · rfl
      rw [this]; exact ih s
  induction l generalizing s with
  | nil => rfl
  | cons e l ih =>
    simp only [List.foldl_cons, List.any_cons]
    rw [hl e (List.mem_cons_self ..)]
    simp only [if_true]
    by_cases hp : p e.2 = true
    · simp only [hp, if_true, Bool.true_or]
      exact stable l s
    · simp only [hp, Bool.false_or]
      exact ih s (fun e' he' => hl e' (List.mem_cons_of_mem _ he'))

/-- `for i := range xs { if p xs[i] { … return } }`: the first index satisfying `p`, as a
decomposition of the list. -/
theorem findRange' {α} (p : α → Bool) (d : α) (l pre : List α) :
    match (List.range' pre.length l.length).find? (fun i => p ((pre ++ l).getD i d)) with
    | none => ∀ x ∈ l, p x = false
    | some i => ∃ l1 a l2, l = l1 ++ a :: l2 ∧ i = pre.length + l1.length ∧ p a = true ∧ ∀ x ∈ l1, p x = false := by
  induction l generalizing pre with
  | nil => simp
  | cons a l ih =>
    have hget : (pre ++ a :: l).getD pre.length d = a := by simp [List.getD]
    simp only [List.length_cons, List.range'_succ, List.find?_cons, hget]
    by_cases hp : p a = true
    · simp only [hp]
      exact ⟨[], a, l, rfl, rfl, hp, by simp⟩
    · have hp' : p a = false := by simpa using hp
      simp only [hp']
      have := ih (pre ++ [a])
      simp only [List.length_append, List.length_cons, List.length_nil, List.append_assoc, List.cons_append, List.nil_append] at this
      simp only [Nat.zero_add] at this
      generalize List.find? (fun i => p ((pre ++ a :: l).getD i d)) (List.range' (pre.length + 1) l.length) = o at this ⊢
      cases o with
      | none =>
        intro x hx
        rcases List.mem_cons.1 hx with e | e
        · subst e; exact hp'
        · exact this x e
      | some i =>
        obtain ⟨l1, b, l2, e1, e2, hb, hl1⟩ := this
        refine ⟨a :: l1, b, l2, by rw [e1]; rfl, by simp [e2]; omega, hb, ?_⟩
        intro x hx
        rcases List.mem_cons.1 hx with e | e
        · subst e; exact hp'
        · exact hl1 x e

theorem findRange {α} (p : α → Bool) (d : α) (l : List α) :
    match (List.range l.length).find? (fun i => p (l.getD i d)) with
    | none => ∀ x ∈ l, p x = false
    | some i => ∃ l1 a l2, l = l1 ++ a :: l2 ∧ i = l1.length ∧ p a = true ∧ ∀ x ∈ l1, p x = false := by
  have := findRange' p d l []
  simpa [List.range_eq_range'] using this

theorem eraseFirst_none {α} (p : α → Bool) (l : List α) (h : ∀ x ∈ l, p x = false) : eraseFirst p l = l := by
  induction l with
  | nil => rfl
  | cons a l ih =>
    unfold eraseFirst
    rw [h a (List.mem_cons_self ..)]
    simp only [Bool.false_eq_true, if_false]
    rw [ih (fun x hx => h x (List.mem_cons_of_mem _ hx))]

theorem eraseFirst_decomp {α} (p : α → Bool) (l1 : List α) (a : α) (l2 : List α)
    (h : ∀ x ∈ l1, p x = false) (ha : p a = true) : eraseFirst p (l1 ++ a :: l2) = l1 ++ l2 := by
  induction l1 with
  | nil => simp [eraseFirst, ha]
  | cons b l1 ih =>
    simp only [List.cons_append]
    unfold eraseFirst
    rw [h b (List.mem_cons_self ..)]
    simp only [Bool.false_eq_true, if_false]
    rw [ih (fun x hx => h x (List.mem_cons_of_mem _ hx))]

theorem updFirst_none' (n : GoString) (f : Typ → Typ × Res Unit) (l : List Typ)
    (h : ∀ x ∈ l, decide (x.name = n) = false) : updFirst n f l = none := by
  induction l with
  | nil => rfl
  | cons a l ih =>
    unfold updFirst
    have := h a (List.mem_cons_self ..)
    simp only [decide_eq_false_iff_not] at this
    simp only [this, if_false]
    rw [ih (fun x hx => h x (List.mem_cons_of_mem _ hx))]

theorem updFirst_decomp (n : GoString) (f : Typ → Typ × Res Unit) (l1 : List Typ) (a : Typ) (l2 : List Typ)
    (h : ∀ x ∈ l1, decide (x.name = n) = false) (ha : decide (a.name = n) = true) :
    updFirst n f (l1 ++ a :: l2) = some (l1 ++ (f a).1 :: l2, (f a).2) := by
  induction l1 with
  | nil =>
    simp only [decide_eq_true_eq] at ha
    simp [updFirst, ha]
  | cons b l1 ih =>
    simp only [List.cons_append]
    unfold updFirst
    have := h b (List.mem_cons_self ..)
    simp only [decide_eq_false_iff_not] at this
    simp only [this, if_false]
    rw [ih (fun x hx => h x (List.mem_cons_of_mem _ hx))]

theorem take_decomp {α} (l1 : List α) (a : α) (l2 : List α) : (l1 ++ a :: l2).take l1.length = l1 := by
  simp
theorem drop_decomp {α} (l1 : List α) (a : α) (l2 : List α) : (l1 ++ a :: l2).drop (l1.length + 1) = l2 := by
  induction l1 with
  | nil => rfl
  | cons b l1 ih => simpa using ih
theorem getD_decomp {α} (l1 : List α) (a : α) (l2 : List α) (d : α) : (l1 ++ a :: l2).getD l1.length d = a := by
  simp [List.getD]
theorem set_decomp {α} (l1 : List α) (a b : α) (l2 : List α) : (l1 ++ a :: l2).set l1.length b = l1 ++ b :: l2 := by
  induction l1 with
  | nil => rfl
  | cons c l1 ih => simp [ih]

/-- `for i := range xs { if p xs[i] { xs[i].M() } }` as the translator renders it (a fold over
the indices that reads and writes the current state) is a map over the elements. -/
theorem foldRange' (p : Typ → Bool) (f : Typ → Typ) (l pre : List Typ) :
    (List.range' pre.length l.length).foldl (fun (s : Schema) i =>
        if p (s.types.getD i Typ.empty) then { s with types := s.types.set i (f (s.types.getD i Typ.empty)) } else s)
      ({ types := pre ++ l } : Schema)
      = { types := pre ++ l.map (fun t => if p t then f t else t) } := by
  induction l generalizing pre with
  | nil => simp
  | cons a l ih =>
    simp only [List.length_cons, List.range'_succ, List.foldl_cons, getD_decomp, set_decomp, List.map_cons]
    by_cases hp : p a = true
    · simp only [hp, if_true]
      have := ih (pre ++ [f a])
      simp only [List.length_append, List.length_cons, List.length_nil, List.append_assoc, List.cons_append,
        List.nil_append, Nat.zero_add] at this
      exact this
    · simp only [hp, if_false]
      have := ih (pre ++ [a])
      simp only [List.length_append, List.length_cons, List.length_nil, List.append_assoc, List.cons_append,
        List.nil_append, Nat.zero_add] at this
      exact this

theorem foldRange (p : Typ → Bool) (f : Typ → Typ) (s : Schema) :
    (List.range s.types.length).foldl (fun (s : Schema) i =>
        if p (s.types.getD i Typ.empty) then { s with types := s.types.set i (f (s.types.getD i Typ.empty)) } else s) s
      = { types := s.types.map (fun t => if p t then f t else t) } := by
  have := foldRange' p f s.types []
  simpa [List.range_eq_range'] using this

/-! ### `AddTwoWayRel`: index variables set in a loop, then used -/

/-- two independent "last index" accumulators folded together -/
theorem pairFold {α} (F : Int × Int → α → Int × Int) (c1 c2 : α → Bool) (g : α → Int)
    (hF : ∀ a b i, F (a, b) i = (if c1 i then g i else a, if c2 i then g i else b)) (L : List α) (a b : Int) :
    L.foldl F (a, b) = (L.foldl (fun a i => if c1 i then g i else a) a, L.foldl (fun b i => if c2 i then g i else b) b) := by
  induction L generalizing a b with
  | nil => rfl
  | cons x L ih => simp only [List.foldl_cons, hF, ih]

/-- the index variable of `for i := range xs { if xs[i].Name == n { v = i } }` -/
def idx (l : List Typ) (n : GoString) : Int :=
  (List.range l.length).foldl (fun acc i => if decide ((l.getD i Typ.empty).name = n) then Int.ofNat i else acc) (-1)

theorem idx_nomatch (n : GoString) (l pre : List Typ) (acc : Int) (h : ∀ x ∈ l, x.name ≠ n) :
    (List.range' pre.length l.length).foldl
      (fun acc i => if decide (((pre ++ l).getD i Typ.empty).name = n) then Int.ofNat i else acc) acc = acc := by
  induction l generalizing pre acc with
  | nil => rfl
  | cons a l ih =>
    simp only [List.length_cons, List.range'_succ, List.foldl_cons, getD_decomp]
    have ha : ¬ a.name = n := h a (List.mem_cons_self ..)
    simp only [ha, decide_false, Bool.false_eq_true, if_false]
    have := ih (pre ++ [a]) acc (fun x hx => h x (List.mem_cons_of_mem _ hx))
    simpa using this

theorem idx_last (n : GoString) (l1 : List Typ) (a : Typ) (l2 pre : List Typ) (acc : Int)
    (ha : a.name = n) (h2 : ∀ x ∈ l2, x.name ≠ n) :
    (List.range' pre.length (l1 ++ a :: l2).length).foldl
      (fun acc i => if decide (((pre ++ (l1 ++ a :: l2)).getD i Typ.empty).name = n) then Int.ofNat i else acc) acc
      = Int.ofNat (pre.length + l1.length) := by
  induction l1 generalizing pre acc with
  | nil =>
    simp only [List.nil_append, List.length_cons, List.range'_succ, List.foldl_cons, getD_decomp, ha, decide_true, if_true]
    have := idx_nomatch n l2 (pre ++ [a]) (Int.ofNat pre.length) h2
    simpa using this
  | cons b l1 ih =>
    simp only [List.cons_append, List.length_cons, List.range'_succ, List.foldl_cons]
    have := ih (pre ++ [b]) (if decide (((pre ++ b :: (l1 ++ a :: l2)).getD pre.length Typ.empty).name = n) then Int.ofNat pre.length else acc)
    simp only [List.length_append, List.length_cons, List.length_nil, List.append_assoc, List.cons_append,
      List.nil_append, Nat.zero_add] at this ⊢
    rw [this]; congr 1; omega

theorem idx_absent (l : List Typ) (n : GoString) (h : n ∉ l.map (·.name)) : idx l n = -1 := by
  have := idx_nomatch n l [] (-1) (fun x hx e => h (List.mem_map.2 ⟨x, hx, e⟩))
  simpa [idx, List.range_eq_range'] using this

theorem idx_present (l : List Typ) (n : GoString) (hnd : (l.map (·.name)).Nodup) (h : n ∈ l.map (·.name)) :
    ∃ i : Nat, idx l n = Int.ofNat i ∧ (l.map (·.name))[i]? = some n := by
  obtain ⟨a, ha, hn⟩ := List.mem_map.1 h
  obtain ⟨l1, l2, e⟩ := List.append_of_mem ha
  subst e
  have h2 : ∀ x ∈ l2, x.name ≠ n := by
    intro x hx ex
    simp only [List.map_append, List.map_cons] at hnd
    have := (List.nodup_append.1 hnd).2.1
    simp only [List.nodup_cons] at this
    exact this.1 (List.mem_map.2 ⟨x, hx, by rw [ex, hn]⟩)
  refine ⟨l1.length, ?_, by simp [hn]⟩
  have := idx_last n l1 a l2 [] (-1) hn h2
  simpa [idx, List.range_eq_range'] using this

/-- with unique names, the element at the index holding name `n` is the type found by name,
and an update at that index is the model's update by name -/
theorem at_name (l : List Typ) (i : Nat) (n : GoString) (hnd : (l.map (·.name)).Nodup)
    (hat : (l.map (·.name))[i]? = some n) :
    l.getD i Typ.empty = Schema.getType ⟨l⟩ n ∧ ∀ f : Typ → Typ, l.set i (f (l.getD i Typ.empty)) = mapNamed n f l := by
  induction l generalizing i with
  | nil => simp at hat
  | cons b l ih =>
    simp only [List.map_cons, List.nodup_cons] at hnd
    cases i with
    | zero =>
      simp only [List.map_cons, List.getElem?_cons_zero, Option.some.injEq] at hat
      refine ⟨by simp [Schema.getType, hat], ?_⟩
      intro f
      have : n ∉ l.map (·.name) := hat ▸ hnd.1
      simp [mapNamed, hat]
      have := mapNamed_absent n f l this
      unfold mapNamed at this
      exact this.symm
    | succ j =>
      simp only [List.map_cons, List.getElem?_cons_succ] at hat
      have hmem : n ∈ l.map (·.name) := List.mem_of_getElem? hat
      have hb : ¬ b.name = n := fun e => hnd.1 (e ▸ hmem)
      obtain ⟨g, s⟩ := ih j hnd.2 hat
      refine ⟨?_, ?_⟩
      · have : (b :: l).getD (j + 1) Typ.empty = l.getD j Typ.empty := by simp [List.getD]
        rw [this, g]; simp [Schema.getType, hb]
      · intro f
        have : (b :: l).getD (j + 1) Typ.empty = l.getD j Typ.empty := by simp [List.getD]
        rw [this, List.set_cons_succ, s f]; simp [mapNamed, hb]


theorem names_twAdd (s : Schema) (x : Rel) : (twAdd s x).types.map (·.name) = s.types.map (·.name) :=
  mapNamed_names x.fromType (fun t => (t.addRel x).1) (fun t => Typ.addRel_name t x) s.types

theorem names_twUndo (s : Schema) (x : Rel) : (twUndo s x).types.map (·.name) = s.types.map (·.name) :=
  mapNamed_names x.fromType (fun t => t.removeRel x.fromName) (fun t => Typ.removeRel_name t _) s.types

theorem at_twRes (s : Schema) (j : Nat) (x : Rel) (hnd : (s.types.map (·.name)).Nodup)
    (hat : (s.types.map (·.name))[j]? = some x.fromType) :
    ((s.types.getD j Typ.empty).addRel x).2 = twRes s x := by
  have hh : s.hasType x.fromType = true := (hasType_iff s _).2 (List.mem_of_getElem? hat)
  unfold twRes; rw [if_pos hh, (at_name s.types j _ hnd hat).1]

theorem at_twAdd (s : Schema) (j : Nat) (x : Rel) (hnd : (s.types.map (·.name)).Nodup)
    (hat : (s.types.map (·.name))[j]? = some x.fromType) :
    ({ types := s.types.set j ((s.types.getD j Typ.empty).addRel x).1 } : Schema) = twAdd s x := by
  unfold twAdd; rw [← (at_name s.types j _ hnd hat).2 (fun t => (t.addRel x).1)]

theorem at_twUndo (s : Schema) (j : Nat) (x : Rel) (hnd : (s.types.map (·.name)).Nodup)
    (hat : (s.types.map (·.name))[j]? = some x.fromType) :
    ({ types := s.types.set j ((s.types.getD j Typ.empty).removeRel x.fromName) } : Schema) = twUndo s x := by
  unfold twUndo; rw [← (at_name s.types j _ hnd hat).2 (fun t => t.removeRel x.fromName)]

/-- a failed half leaves the schema as it was -/
theorem twAdd_err (s : Schema) (x : Rel) (hnd : (s.types.map (·.name)).Nodup) (h : twRes s x ≠ .ok ()) :
    twAdd s x = s := by
  unfold twAdd
  rw [mapNamed_id_of_fix]
  intro t ht hn
  have hh : s.hasType x.fromType = true := (hasType_iff s _).2 (List.mem_map.2 ⟨t, ht, hn⟩)
  have hg : s.getType x.fromType = t := by rw [← hn]; exact eq_getType_of_mem hnd ht
  unfold twRes at h
  rw [if_pos hh, hg] at h
  exact Typ.addRel_err t x h

theorem pairIdx (l : List Typ) (n1 n2 : GoString) (F : Int × Int → Nat → Int × Int)
    (hF : ∀ a b i, F (a, b) i = (if decide ((l.getD i Typ.empty).name = n1) then Int.ofNat i else a,
      if decide ((l.getD i Typ.empty).name = n2) then Int.ofNat i else b)) :
    (List.range l.length).foldl F (-1, -1) = (idx l n1, idx l n2) :=
  pairFold F _ _ Int.ofNat hF _ _ _

theorem at_twAdd' (s : Schema) (j : Nat) (x : Rel) (hnd : (s.types.map (·.name)).Nodup)
    (hat : (s.types.map (·.name))[j]? = some x.fromType) :
    s.types.set j ((s.types.getD j Typ.empty).addRel x).1 = (twAdd s x).types :=
  congrArg Schema.types (at_twAdd s j x hnd hat)

theorem at_twUndo' (s : Schema) (j : Nat) (x : Rel) (hnd : (s.types.map (·.name)).Nodup)
    (hat : (s.types.map (·.name))[j]? = some x.fromType) :
    s.types.set j ((s.types.getD j Typ.empty).removeRel x.fromName) = (twUndo s x).types :=
  congrArg Schema.types (at_twUndo s j x hnd hat)

end GenC14b
end Jsonapi
