/- Helper lemmas for C17, part 1: Go maps, `checkData`, SoftResource Get/Set and the
abstract history specification. -/
import Jsonapi.Proofs.C14Lemmas
import Jsonapi.Spec.Resource
namespace Jsonapi

/-! ### More Go-map lemmas -/
namespace GoMap
variable {β : Type}

theorem get?_eq_none_of_not_mem {m : GoMap β} {k : GoString} (h : k ∉ keys m) : get? m k = none := by
  induction m with
  | nil => rfl
  | cons p m ih =>
    obtain ⟨k', v'⟩ := p
    simp only [keys, List.map_cons, List.mem_cons, not_or] at h
    have hne : ¬ k' = k := fun e => h.1 e.symm
    simp only [get?, hne, if_false]
    exact ih (by simpa [keys] using h.2)

theorem mem_of_get? {m : GoMap β} {k : GoString} {v : β} (h : get? m k = some v) : (k, v) ∈ m := by
  induction m with
  | nil => simp [get?] at h
  | cons p m ih =>
    obtain ⟨k', v'⟩ := p
    simp only [get?] at h
    split at h
    · rename_i e; simp only [Option.some.injEq] at h; subst e h; exact List.mem_cons_self
    · exact List.mem_cons_of_mem _ (ih h)

theorem mem_keys_of_get? {m : GoMap β} {k : GoString} {v : β} (h : get? m k = some v) : k ∈ keys m :=
  List.mem_map.2 ⟨(k, v), mem_of_get? h, rfl⟩

theorem get?_of_mem_nodup {m : GoMap β} (hnd : (keys m).Nodup) {k : GoString} {v : β}
    (h : (k, v) ∈ m) : get? m k = some v := by
  induction m with
  | nil => cases h
  | cons p m ih =>
    obtain ⟨k', v'⟩ := p
    simp only [keys, List.map_cons, List.nodup_cons] at hnd
    rcases List.mem_cons.1 h with e | h'
    · simp only [Prod.mk.injEq] at e; obtain ⟨e1, e2⟩ := e; subst e1 e2; simp [get?]
    · have hne : ¬ k' = k := by
        intro e; subst e; exact hnd.1 (List.mem_map.2 ⟨(k', v), h', rfl⟩)
      simp only [get?, hne, if_false]
      exact ih hnd.2 h'

theorem exists_get?_of_mem_keys {m : GoMap β} {k : GoString} (h : k ∈ keys m) : ∃ v, get? m k = some v := by
  cases hg : get? m k with
  | some v => exact ⟨v, rfl⟩
  | none =>
    exfalso
    induction m with
    | nil => cases h
    | cons p m ih =>
      obtain ⟨k', v'⟩ := p
      simp only [get?] at hg
      split at hg
      · cases hg
      · rename_i hne
        simp only [keys, List.map_cons, List.mem_cons] at h
        rcases h with e | h
        · exact hne e.symm
        · exact ih h hg

theorem has_iff_mem_keys {m : GoMap β} {k : GoString} : has m k = true ↔ k ∈ keys m := by
  unfold has
  constructor
  · intro h
    cases hg : get? m k with
    | none => rw [hg] at h; cases h
    | some v => exact mem_keys_of_get? hg
  · intro h
    obtain ⟨v, hv⟩ := exists_get?_of_mem_keys h
    rw [hv]; rfl

theorem keys_set_subset (m : GoMap β) (k : GoString) (v : β) :
    ∀ x ∈ keys (set m k v), x ∈ keys m ∨ x = k := by
  induction m with
  | nil => intro x hx; simp [set, keys] at hx; exact .inr hx
  | cons p m ih =>
    obtain ⟨k', v'⟩ := p
    intro x hx
    simp only [set] at hx
    split at hx
    · rename_i e
      simp only [keys, List.map_cons, List.mem_cons] at hx ⊢
      rcases hx with e' | e'
      · exact .inr e'
      · exact .inl (.inr e')
    · simp only [keys, List.map_cons, List.mem_cons] at hx ⊢
      rcases hx with e' | e'
      · exact .inl (.inl e')
      · rcases ih x e' with h | h
        · exact .inl (.inr h)
        · exact .inr h

theorem length_set_of_mem (m : GoMap β) (k : GoString) (v : β) (h : k ∈ keys m) :
    (set m k v).length = m.length := by
  induction m with
  | nil => cases h
  | cons p m ih =>
    obtain ⟨k', v'⟩ := p
    simp only [set]
    split
    · rfl
    · rename_i hne
      simp only [keys, List.map_cons, List.mem_cons] at h
      rcases h with e | h
      · exact absurd e.symm hne
      · simp [ih h]

/-- `find?` by the name stored in the value is `get?` by key when key = name. -/
theorem find?_name_eq_get? (m : GoMap β) (name : β → GoString) (hk : ∀ p ∈ m, p.1 = name p.2)
    (k : GoString) : (m.find? (fun p => name p.2 = k)).map (·.2) = get? m k := by
  induction m with
  | nil => rfl
  | cons p m ih =>
    obtain ⟨k', v'⟩ := p
    have e : k' = name v' := hk (k', v') List.mem_cons_self
    simp only [List.find?_cons, get?]
    by_cases h : name v' = k
    · simp [h, e]
    · have : ¬ k' = k := by rw [e]; exact h
      simp only [h, decide_false, this, if_false]
      exact ih (fun p hp => hk p (List.mem_cons_of_mem _ hp))

/-- The "give a value to every key that has none" loop of `check`. -/
theorem get?_fill {α : Type} (key : α → GoString) (val : α → β) (l : List α) (d : GoMap β)
    (k : GoString) :
    (l.foldl (fun d p => if has d (key p) then d else set d (key p) (val p)) d).get? k =
      (d.get? k).or ((l.find? (fun p => key p = k)).map val) := by
  induction l generalizing d with
  | nil => simp
  | cons p l ih =>
    simp only [List.foldl_cons]
    rw [ih]
    by_cases hh : has d (key p) = true
    · simp only [hh, if_true, List.find?_cons]
      by_cases hk : key p = k
      · subst hk
        unfold has at hh
        cases hg : get? d (key p) with
        | none => rw [hg] at hh; cases hh
        | some v => simp
      · simp [hk]
    · simp only [hh, List.find?_cons]
      by_cases hk : key p = k
      · subst hk
        have : get? d (key p) = none := by
          unfold has at hh
          cases hg : get? d (key p) with
          | none => rfl
          | some v => rw [hg] at hh; exact absurd rfl hh
        simp [this, get?_set_self]
      · have hk' : k ≠ key p := fun e => hk e.symm
        simp [hk, get?_set_ne _ _ _ _ hk']

theorem keys_fill {α : Type} (key : α → GoString) (val : α → β) (l : List α) (d : GoMap β) :
    ∀ x ∈ keys (l.foldl (fun d p => if has d (key p) then d else set d (key p) (val p)) d),
      x ∈ keys d ∨ x ∈ l.map key := by
  induction l generalizing d with
  | nil => intro x hx; exact .inl hx
  | cons p l ih =>
    intro x hx
    simp only [List.foldl_cons] at hx
    rcases ih _ x hx with h | h
    · split at h
      · exact .inl h
      · rcases keys_set_subset _ _ _ x h with h' | h'
        · exact .inl h'
        · exact .inr (by simp [h'])
    · exact .inr (by simp [h])

theorem get?_map_mk (l : List GoString) (G : GoString → β) (f : GoString) :
    get? (l.map (fun n => (n, G n))) f = if f ∈ l then some (G f) else none := by
  induction l with
  | nil => simp [get?]
  | cons a l ih =>
    simp only [List.map_cons, get?, List.mem_cons]
    by_cases e : a = f
    · subst e; simp
    · have : ¬ f = a := fun e' => e e'.symm
      simp only [e, if_false, this, false_or]; exact ih

end GoMap

open GoMap

/-! ### `checkData` on a well-formed type -/

/-- All field names of a type (map keys). -/
def Typ.fieldKeys (t : Typ) : List GoString := t.attrs.keys ++ t.rels.keys

/-- The zero value `check` stores for a field. -/
def rawZero (t : Typ) (f : GoString) : GoVal :=
  match t.attrs.get? f with
  | some a => a.zero
  | none => match t.rels.get? f with
    | some r => r.zero
    | none => .nil

theorem Soft.fields_eq {t : Typ} (ht : TypWF t) : Soft.fields t = t.fieldKeys := by
  unfold Soft.fields Typ.fieldKeys GoMap.keys GoMap.vals
  simp only [List.map_map]
  congr 1
  · apply List.map_congr_left; intro p hp; exact ((ht.attrs p hp).1).symm
  · apply List.map_congr_left; intro p hp; exact ((ht.rels p hp).1).symm

theorem canon_relZero (r : Rel) : Spec.canon r.zero = r.zero := by
  unfold Rel.zero; split <;> rfl

theorem canon_rawZero (t : Typ) (f : GoString) : Spec.canon (rawZero t f) = Spec.zeroOf t f := by
  unfold rawZero Spec.zeroOf
  cases t.attrs.get? f with
  | some a => rfl
  | none =>
    cases t.rels.get? f with
    | some r => exact canon_relZero r
    | none => rfl

theorem canon_idem (v : GoVal) : Spec.canon (Spec.canon v) = Spec.canon v := by
  cases v with
  | val k p =>
    cases k <;> cases p <;> first | rfl | (rename_i o; cases o <;> rfl)
  | ptr k p =>
    cases p with
    | none => rfl
    | some p =>
      cases k <;> cases p <;> first | rfl | (rename_i o; cases o <;> rfl)
  | strs l => rfl
  | nil => rfl
  | other n => rfl

/-- On a well-formed type, `check` keeps every value of a field, gives the zero value to
the fields without one, and (when all keys are fields) drops nothing. -/
theorem checkData_spec {t : Typ} (ht : TypWF t) (d : GoMap GoVal)
    (hd : ∀ x ∈ keys d, x ∈ t.fieldKeys) :
    (∀ x ∈ keys (Soft.checkData t d), x ∈ t.fieldKeys) ∧
    ∀ f ∈ t.fieldKeys, (Soft.checkData t d).get? f = some ((d.get? f).getD (rawZero t f)) := by
  have hA : ∀ f, (t.attrs.find? (fun p => p.2.name = f)).map (fun p => p.2.zero) =
      (t.attrs.get? f).map Attr.zero := by
    intro f
    rw [← find?_name_eq_get? t.attrs Attr.name (fun p hp => (ht.attrs p hp).1) f]
    simp [Option.map_map, Function.comp_def]
  have hR : ∀ f, (t.rels.find? (fun p => p.2.fromName = f)).map (fun p => p.2.zero) =
      (t.rels.get? f).map Rel.zero := by
    intro f
    rw [← find?_name_eq_get? t.rels Rel.fromName (fun p hp => (ht.rels p hp).1) f]
    simp [Option.map_map, Function.comp_def]
  -- the two fill loops
  let d1 := t.attrs.foldl (fun d p => if d.has p.2.name then d else d.set p.2.name p.2.zero) d
  let d2 := t.rels.foldl (fun d p => if d.has p.2.fromName then d else d.set p.2.fromName p.2.zero) d1
  have hk1 : ∀ x ∈ keys d1, x ∈ t.fieldKeys := by
    intro x hx
    rcases keys_fill (fun p : GoString × Attr => p.2.name) (fun p => p.2.zero) t.attrs d x hx with h | h
    · exact hd x h
    · obtain ⟨p, hp, e⟩ := List.mem_map.1 h
      exact List.mem_append_left _ (List.mem_map.2 ⟨p, hp, by rw [(ht.attrs p hp).1]; exact e⟩)
  have hk2 : ∀ x ∈ keys d2, x ∈ t.fieldKeys := by
    intro x hx
    rcases keys_fill (fun p : GoString × Rel => p.2.fromName) (fun p => p.2.zero) t.rels d1 x hx with h | h
    · exact hk1 x h
    · obtain ⟨p, hp, e⟩ := List.mem_map.1 h
      exact List.mem_append_right _ (List.mem_map.2 ⟨p, hp, by rw [(ht.rels p hp).1]; exact e⟩)
  have hcd : Soft.checkData t d = d2 := by
    unfold Soft.checkData
    show (if (Soft.fields t).length < d2.length then
      d2.filter (fun p => (Soft.fields t).contains p.1) else d2) = d2
    split
    · rw [List.filter_eq_self]
      intro p hp
      rw [Soft.fields_eq ht]
      simp only [List.contains_eq_mem, decide_eq_true_eq]
      exact hk2 p.1 (List.mem_map.2 ⟨p, hp, rfl⟩)
    · rfl
  rw [hcd]
  refine ⟨hk2, ?_⟩
  intro f hf
  have h2 : d2.get? f = ((d.get? f).or ((t.attrs.get? f).map Attr.zero)).or ((t.rels.get? f).map Rel.zero) := by
    show (t.rels.foldl _ d1).get? f = _
    rw [get?_fill (fun p : GoString × Rel => p.2.fromName) (fun p => p.2.zero), hR]
    show ((t.attrs.foldl _ d).get? f).or _ = _
    rw [get?_fill (fun p : GoString × Attr => p.2.name) (fun p => p.2.zero), hA]
  rw [h2]
  unfold rawZero
  rcases List.mem_append.1 hf with hf | hf
  · obtain ⟨a, ha⟩ := exists_get?_of_mem_keys hf
    rw [ha]
    cases d.get? f <;> simp
  · have hna : t.attrs.get? f = none :=
      get?_eq_none_of_not_mem (fun h => ht.disj f h hf)
    obtain ⟨r, hr⟩ := exists_get?_of_mem_keys hf
    rw [hna, hr]
    cases d.get? f <;> simp

/-! ### Histories of Set calls and the abstract resource -/

abbrev Hist := List (GoString × GoVal)

/-- Every call of the history is well-typed for the type. -/
def SetHistOk (t : Typ) (h : Hist) : Prop := ∀ p ∈ h, Spec.setOk t p.1 p.2 = true

/-- The ID a `Set("id", v)` stores. -/
def idOf (v : GoVal) : GoString := match v with | .val .string (.s id) => id | _ => []

theorem specGet_nil (t : Typ) (f : GoString) : Spec.specGet t [] f = Spec.zeroOf t f := rfl

theorem specGet_snoc (t : Typ) (h : Hist) (k : GoString) (v : GoVal) (f : GoString) :
    Spec.specGet t (h ++ [(k, v)]) f = if k = f then Spec.canon v else Spec.specGet t h f := by
  unfold Spec.specGet
  simp only [List.reverse_append, List.reverse_cons, List.reverse_nil, List.nil_append,
    List.cons_append, List.find?_cons]
  by_cases e : k = f <;> simp [e]

theorem specId_nil : Spec.specId [] = [] := rfl

theorem specId_snoc (h : Hist) (k : GoString) (v : GoVal) :
    Spec.specId (h ++ [(k, v)]) = if k = idName then idOf v else Spec.specId h := by
  unfold Spec.specId
  simp only [List.reverse_append, List.reverse_cons, List.reverse_nil, List.nil_append,
    List.cons_append, List.find?_cons]
  by_cases e : k = idName
  · simp only [e, decide_true, if_true]
    unfold idOf
    split <;> simp_all
  · simp [e]

theorem namesOk_mem {t : Typ} (hn : Spec.namesOk t = true) {f : GoString} (hf : f ∈ t.fieldKeys) :
    f ≠ idName ∧ f ≠ [] := by
  unfold Spec.namesOk at hn
  rw [List.all_eq_true] at hn
  have := hn f hf
  simpa using this

theorem Kind.code_of_ofCode? {n : Nat} {k : Kind} (h : Kind.ofCode? n = some k) : k.code = n := by
  unfold Kind.ofCode? at h
  have := List.find?_some h
  simpa using this

theorem attrType_of_hasAttrType {v : GoVal} {kind : Kind} {n : Bool} {ty : Nat}
    (hk : Kind.ofCode? ty = some kind) (h : v.hasAttrType kind n = true) : v.attrType = (ty, n) := by
  have hc := Kind.code_of_ofCode? hk
  cases v with
  | val k p =>
    simp only [GoVal.hasAttrType, Bool.and_eq_true, Bool.not_eq_true', decide_eq_true_eq] at h
    obtain ⟨⟨h1, h2⟩, _⟩ := h
    subst h2; simp [GoVal.attrType, hc, h1]
  | ptr k p =>
    cases p with
    | none =>
      simp only [GoVal.hasAttrType, Bool.and_eq_true, decide_eq_true_eq] at h
      obtain ⟨h1, h2⟩ := h
      subst h2; simp [GoVal.attrType, hc, h1]
    | some p =>
      simp only [GoVal.hasAttrType, Bool.and_eq_true, decide_eq_true_eq] at h
      obtain ⟨⟨h1, h2⟩, _⟩ := h
      subst h2; simp [GoVal.attrType, hc, h1]
  | strs l => simp [GoVal.hasAttrType] at h
  | nil => simp [GoVal.hasAttrType] at h
  | other n => simp [GoVal.hasAttrType] at h

/-! ### SoftResource: Get and Set against the history -/

/-- What holds of a soft resource after the calls of `h`. -/
structure SoftInv (t : Typ) (h : Hist) (s : Soft) : Prop where
  typ : s.typ = t
  id : s.id = Spec.specId h
  keys : ∀ x ∈ keys s.data, x ∈ t.fieldKeys
  vals : ∀ f ∈ t.fieldKeys, Spec.canon ((s.data.get? f).getD (rawZero t f)) = Spec.specGet t h f

theorem Soft.get_field {t : Typ} (ht : TypWF t) (s : Soft) (hs : s.typ = t)
    (hk : ∀ x ∈ keys s.data, x ∈ t.fieldKeys) {f : GoString} (hf : f ∈ t.fieldKeys)
    (hid : f ≠ idName) : s.get f = (s.data.get? f).getD (rawZero t f) := by
  subst hs
  have hc := (checkData_spec ht s.data hk).2 f hf
  unfold Soft.get Soft.check
  simp only [hid, if_false, hc, Option.getD_some]
  rcases List.mem_append.1 hf with h | h
  · rw [if_pos (has_iff_mem_keys.2 h)]
  · rw [if_neg (fun hh => ht.disj f (has_iff_mem_keys.1 hh) h), if_pos (has_iff_mem_keys.2 h)]

theorem Soft.get_id (s : Soft) : s.get idName = .val .string (.s s.id) := by
  simp [Soft.get, Soft.check]

/-- `check` is idempotent as far as Get can tell. -/
theorem Soft.check_get {t : Typ} (ht : TypWF t) (s : Soft) (hs : s.typ = t)
    (hk : ∀ x ∈ keys s.data, x ∈ t.fieldKeys) {f : GoString} (hf : f ∈ t.fieldKeys)
    (hid : f ≠ idName) : s.check.get f = s.get f := by
  subst hs
  obtain ⟨hck, hcv⟩ := checkData_spec ht s.data hk
  rw [Soft.get_field ht s.check rfl hck hf hid, Soft.get_field ht s rfl hk hf hid]
  show ((Soft.checkData s.typ s.data).get? f).getD _ = _
  rw [hcv f hf]; rfl

/-- The view's value for a field is what Get returns. -/
theorem Soft.view_get {t : Typ} (ht : TypWF t) (s : Soft) (hs : s.typ = t)
    (hk : ∀ x ∈ keys s.data, x ∈ t.fieldKeys) {f : GoString} (hf : f ∈ t.fieldKeys)
    (hid : f ≠ idName) : s.view.get f = s.get f := by
  subst hs
  unfold Soft.view ResView.get
  simp only []
  rw [get?_map_mk]
  have : f ∈ s.check.typ.attrs.keys ++ s.check.typ.rels.keys := hf
  rw [if_pos this]
  exact Soft.check_get ht s rfl hk hf hid

theorem SoftInv.init (t : Typ) : SoftInv t [] { typ := t, id := [], data := [] } :=
  ⟨rfl, rfl, (by intro x hx; cases hx), (by
    intro f _; simp only [get?, Option.getD_none]; rw [canon_rawZero]; rfl)⟩

/-- One well-typed Set keeps the invariant, for the history extended by the call. -/
theorem SoftInv.step {t : Typ} (ht : TypWF t) (hn : Spec.namesOk t = true) {h : Hist} {s : Soft}
    (inv : SoftInv t h s) (k : GoString) (v : GoVal) (hok : Spec.setOk t k v = true) :
    SoftInv t (h ++ [(k, v)]) (s.set k v) := by
  obtain ⟨hty, hid, hkeys, hvals⟩ := inv
  subst hty
  obtain ⟨hck, hcv⟩ := checkData_spec ht s.data hkeys
  -- the checked resource satisfies the invariant too
  have hvals' : ∀ f ∈ s.typ.fieldKeys,
      Spec.canon (((Soft.checkData s.typ s.data).get? f).getD (rawZero s.typ f)) = Spec.specGet s.typ h f := by
    intro f hf; rw [hcv f hf]; exact hvals f hf
  -- setting a field
  have setField : ∀ (w : GoVal), k ∈ s.typ.fieldKeys → Spec.canon w = Spec.canon v →
      SoftInv s.typ (h ++ [(k, v)])
        { typ := s.typ, id := s.id, data := (Soft.checkData s.typ s.data).set k w } := by
    intro w hkf hw
    have hkid := (namesOk_mem hn hkf).1
    refine ⟨rfl, ?_, ?_, ?_⟩
    · rw [specId_snoc, if_neg hkid]; exact hid
    · intro x hx
      rcases keys_set_subset _ _ _ x hx with h' | h'
      · exact hck x h'
      · exact h' ▸ hkf
    · intro f hf
      rw [specGet_snoc]
      by_cases e : k = f
      · subst e; simp only [get?_set_self, Option.getD_some, if_true]; exact hw
      · rw [if_neg e, get?_set_ne _ _ _ _ (fun e' => e e'.symm)]; exact hvals' f hf
  unfold Spec.setOk at hok
  unfold Soft.set Soft.check
  simp only []
  by_cases hkid : k = idName
  · -- the ID
    simp only [hkid, if_true]
    refine ⟨rfl, ?_, hck, ?_⟩
    · rw [specId_snoc, if_pos rfl]; rfl
    · intro f hf
      rw [specGet_snoc, if_neg (fun e => (namesOk_mem hn hf).1 e.symm)]
      exact hvals' f hf
  · simp only [hkid, if_false] at hok ⊢
    cases ha : s.typ.attrs.get? k with
    | some a =>
      have hkf : k ∈ s.typ.fieldKeys := List.mem_append_left _ (mem_keys_of_get? ha)
      simp only [ha] at hok ⊢
      cases hkind : Kind.ofCode? a.ty with
      | none => simp [hkind] at hok
      | some kind =>
        simp only [hkind, Bool.or_eq_true, Bool.and_eq_true, decide_eq_true_eq] at hok
        by_cases hty : v.attrType = (a.ty, a.nullable)
        · rw [if_pos hty]; exact setField v hkf rfl
        · rw [if_neg hty]
          rcases hok with hok | ⟨hnul, hnil⟩
          · exact absurd (attrType_of_hasAttrType hkind hok) hty
          · rw [if_pos ⟨hnil, hnul⟩]
            apply setField _ hkf
            subst hnil
            simp [Attr.zero, hkind, GoVal.zero, hnul, Spec.canon]
    | none =>
      simp only [ha] at hok ⊢
      cases hr : s.typ.rels.get? k with
      | none => simp [hr] at hok
      | some r =>
        have hkf : k ∈ s.typ.fieldKeys := List.mem_append_right _ (mem_keys_of_get? hr)
        simp only [hr] at hok ⊢
        split at hok
        · simp only [hok, if_true]; exact setField _ hkf rfl
        · simp only [Bool.not_eq_true'] at hok
          simp only [hok, Bool.false_eq_true, if_false]; exact setField _ hkf rfl
        · cases hok

/-- The whole history, from any state satisfying the invariant. -/
theorem SoftInv.run {t : Typ} (ht : TypWF t) (hn : Spec.namesOk t = true) (h : Hist) (hok : SetHistOk t h) :
    ∀ (pre : Hist) (s : Soft), SoftInv t pre s →
      SoftInv t (pre ++ h) (h.foldl (fun s p => s.set p.1 p.2) s) := by
  induction h with
  | nil => intro pre s inv; simpa using inv
  | cons p h ih =>
    intro pre s inv
    have h1 := SoftInv.step ht hn inv p.1 p.2 (hok p List.mem_cons_self)
    have h2 := ih (fun q hq => hok q (List.mem_cons_of_mem _ hq)) _ _ h1
    simpa [List.append_assoc] using h2

end Jsonapi
