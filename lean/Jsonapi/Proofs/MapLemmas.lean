/- Lemmas about the association-list model of Go maps. -/
import Jsonapi.Model.Schema
namespace Jsonapi.GoMap
variable {β : Type}

theorem set_of_not_mem (m : GoMap β) (k : GoString) (v : β) (h : k ∉ keys m) :
    set m k v = m ++ [(k, v)] := by
  induction m with
  | nil => rfl
  | cons p m ih =>
    obtain ⟨k', v'⟩ := p
    simp only [keys, List.map_cons, List.mem_cons, not_or] at h
    have hne : ¬ k' = k := fun e => h.1 e.symm
    simp only [set, hne, if_false, List.cons_append]
    rw [ih (by simpa [keys] using h.2)]

theorem del_append_self (m : GoMap β) (k : GoString) (v : β) (h : k ∉ keys m) :
    del (m ++ [(k, v)]) k = m := by
  unfold del
  rw [List.filter_append]
  have h1 : m.filter (fun p => decide (p.1 ≠ k)) = m := by
    rw [List.filter_eq_self]
    intro p hp
    have : p.1 ∈ keys m := List.mem_map.2 ⟨p, hp, rfl⟩
    simp only [ne_eq, decide_eq_true_eq]
    intro e; rw [e] at this; exact h this
  rw [h1]; simp

theorem del_set_of_not_mem (m : GoMap β) (k : GoString) (v : β) (h : k ∉ keys m) :
    del (set m k v) k = m := by
  rw [set_of_not_mem m k v h, del_append_self m k v h]

theorem mem_del {m : GoMap β} {k : GoString} {p : GoString × β} (h : p ∈ del m k) : p ∈ m :=
  (List.mem_filter.1 h).1

theorem keys_del_sublist (m : GoMap β) (k : GoString) : (keys (del m k)).Sublist (keys m) := by
  unfold keys del
  exact List.Sublist.map _ List.filter_sublist

theorem del_of_not_mem (m : GoMap β) (k : GoString) (h : k ∉ keys m) : del m k = m := by
  unfold del
  rw [List.filter_eq_self]
  intro p hp
  have : p.1 ∈ keys m := List.mem_map.2 ⟨p, hp, rfl⟩
  simp only [ne_eq, decide_eq_true_eq]
  intro e; rw [e] at this; exact h this

theorem not_mem_keys_del (m : GoMap β) (k : GoString) : k ∉ keys (del m k) := by
  unfold keys del
  simp [List.mem_map, List.mem_filter]

end Jsonapi.GoMap

namespace Jsonapi.GoMap
variable {β : Type}

theorem get?_set_self (m : GoMap β) (k : GoString) (v : β) : get? (set m k v) k = some v := by
  induction m with
  | nil => simp [set, get?]
  | cons p m ih =>
    obtain ⟨k', v'⟩ := p
    by_cases h : k' = k
    · simp [set, get?, h]
    · simp [set, get?, h, ih]

theorem get?_set_ne (m : GoMap β) (k k' : GoString) (v : β) (h : k' ≠ k) :
    get? (set m k v) k' = get? m k' := by
  induction m with
  | nil => simp [set, get?]; exact fun e => h e.symm
  | cons p m ih =>
    obtain ⟨k'', v''⟩ := p
    by_cases h2 : k'' = k
    · subst h2
      have : ¬ k'' = k' := fun e => h e.symm
      simp [set, get?, this]
    · simp only [set, h2, if_false, get?]
      split
      · rfl
      · exact ih

end Jsonapi.GoMap
