/- Helper lemmas for C05 / C06 / C13, part 1: strconv, the denotation of integer
literals, `Attr.unmarshalToType` and the relationship value. -/
import Jsonapi.Model.Unmarshal
import Jsonapi.Proofs.DeclLemmas
namespace Jsonapi

/-! ### Denotation of an integer literal (specification side, independent of strconv) -/
namespace Spec

/-- ASCII decimal digit, on the byte's numeric value. -/
def isDigitByte (c : UInt8) : Bool := decide (48 ≤ c.toNat ∧ c.toNat ≤ 57)

/-- Base-10 value of a digit string, most significant digit first. -/
def natLit (s : GoString) : Nat := s.foldl (fun acc c => 10 * acc + (c.toNat - 48)) 0

/-- The integer a JSON integer literal denotes: an optional leading '-' (45) followed by a
non-empty string of ASCII digits; `none` for everything else (a leading '+' is no JSON). -/
def intLit (s : GoString) : Option Int :=
  match s with
  | [] => none
  | c :: r =>
    if c = 45 then (if r ≠ [] ∧ r.all isDigitByte = true then some (-(natLit r : Int)) else none)
    else if (c :: r).all isDigitByte = true then some (natLit (c :: r) : Int) else none

end Spec

namespace UnmL

/-! ### strconv -/

theorem isDigitByte_eq (c : UInt8) : Spec.isDigitByte c = isDigit c := by
  simp [Spec.isDigitByte, isDigit, UInt8.le_iff_toNat_le]

theorem all_isDigitByte_eq (s : GoString) : s.all Spec.isDigitByte = s.all isDigit := by
  congr 1; funext c; exact isDigitByte_eq c

theorem natLit_eq (s : GoString) : Spec.natLit s = digitsVal s := by
  unfold Spec.natLit digitsVal
  generalize 0 = acc
  induction s generalizing acc with
  | nil => rfl
  | cons c s ih => simp only [List.foldl_cons]; rw [Nat.mul_comm 10 acc]; exact ih _

theorem parseUint_spec (bits : Nat) (s : GoString) (n : Nat) :
    parseUint bits s = some n ↔ s ≠ [] ∧ s.all isDigit = true ∧ n = digitsVal s ∧ n < 2 ^ bits := by
  unfold parseUint
  by_cases h1 : s = []
  · simp [h1]
  · by_cases h2 : s.all isDigit = true
    · by_cases h3 : digitsVal s < 2 ^ bits
      · simp only [h1, h2, h3, if_true, if_false, Option.some.injEq, ne_eq, not_false_eq_true, true_and]
        constructor
        · intro e; subst e; exact ⟨rfl, h3⟩
        · intro e; exact e.1.symm
      · simp only [h1, h2, h3, if_true, if_false, ne_eq, not_false_eq_true, true_and]
        constructor
        · intro e; cases e
        · rintro ⟨e, h⟩; subst e; exact absurd h h3
    · simp [h1, h2]

theorem parseUint_lt {bits : Nat} {s : GoString} {n : Nat} (h : parseUint bits s = some n) : n < 2 ^ bits :=
  ((parseUint_spec bits s n).1 h).2.2.2

/-- `parseInt` on a string without sign. -/
theorem parseInt_nosign (bits : Nat) (c : UInt8) (r : GoString) (h1 : c ≠ 43) (h2 : c ≠ 45) :
    parseInt bits (c :: r) =
      if (c :: r).all isDigit = true then
        (if digitsVal (c :: r) < 2 ^ (bits - 1) then some (digitsVal (c :: r) : Int) else none)
      else none := by
  unfold parseInt
  split
  rename_i neg rest e
  split at e
  · rename_i e'; simp only [List.cons.injEq] at e'; exact absurd e'.1 h1
  · rename_i e'; simp only [List.cons.injEq] at e'; exact absurd e'.1 h2
  · simp only [Prod.mk.injEq] at e
    obtain ⟨e1, e2⟩ := e
    subst e1 e2
    simp

theorem parseInt_neg (bits : Nat) (r : GoString) :
    parseInt bits (45 :: r) =
      if r = [] then none
      else if r.all isDigit = true then
        (if digitsVal r ≤ 2 ^ (bits - 1) then some (-(digitsVal r : Int)) else none)
      else none := by
  simp [parseInt]

theorem parseInt_pos (bits : Nat) (r : GoString) :
    parseInt bits (43 :: r) =
      if r = [] then none
      else if r.all isDigit = true then
        (if digitsVal r < 2 ^ (bits - 1) then some ((digitsVal r : Int)) else none)
      else none := by
  simp [parseInt]

/-- The result of `ParseInt` lies in the signed range of the width. -/
theorem parseInt_range {bits : Nat} {s : GoString} {n : Int} (h : parseInt bits s = some n) :
    -((2 ^ (bits - 1) : Nat) : Int) ≤ n ∧ n < ((2 ^ (bits - 1) : Nat) : Int) := by
  have hB : 0 < 2 ^ (bits - 1) := Nat.two_pow_pos _
  cases s with
  | nil => simp [parseInt] at h
  | cons c r =>
    by_cases h43 : c = 43
    · subst h43
      rw [parseInt_pos] at h
      generalize 2 ^ (bits - 1) = B at h hB ⊢
      repeat' split at h
      all_goals first | (cases h; omega) | cases h
    by_cases h45 : c = 45
    · subst h45
      rw [parseInt_neg] at h
      generalize 2 ^ (bits - 1) = B at h hB ⊢
      repeat' split at h
      all_goals first | (cases h; omega) | cases h
    · rw [parseInt_nosign bits c r h43 h45] at h
      generalize 2 ^ (bits - 1) = B at h hB ⊢
      repeat' split at h
      all_goals first | (cases h; omega) | cases h

/-- `ParseInt` accepts exactly the integer literals (no leading '+') in the signed range
of the width, and returns the integer denoted. -/
theorem parseInt_spec (bits : Nat) (s : GoString) (n : Int) (hplus : s.head? ≠ some 43) :
    parseInt bits s = some n ↔
      Spec.intLit s = some n ∧ -((2 ^ (bits - 1) : Nat) : Int) ≤ n ∧ n < ((2 ^ (bits - 1) : Nat) : Int) := by
  cases s with
  | nil => simp [parseInt, Spec.intLit]
  | cons c r =>
    have h43 : c ≠ 43 := by intro e; subst e; exact hplus rfl
    by_cases h45 : c = 45
    · subst h45
      rw [parseInt_neg]
      simp only [Spec.intLit, if_true, all_isDigitByte_eq, natLit_eq]
      have hB : 0 < 2 ^ (bits - 1) := Nat.two_pow_pos _
      generalize 2 ^ (bits - 1) = B at hB ⊢
      by_cases hr : r = []
      · simp [hr]
      · by_cases hd : r.all isDigit = true
        · simp only [hr, hd, if_false, if_true, ne_eq, not_false_eq_true, and_self, Option.some.injEq]
          by_cases hb : digitsVal r ≤ B
          · simp only [hb, if_true, Option.some.injEq]
            constructor
            · intro e; subst e; exact ⟨rfl, by omega, by omega⟩
            · intro e; exact e.1
          · simp only [hb, if_false]
            constructor
            · intro e; cases e
            · rintro ⟨e, h, _⟩; subst e; omega
        · simp [hr, hd]
    · rw [parseInt_nosign bits c r h43 h45]
      simp only [Spec.intLit, h45, if_false, all_isDigitByte_eq, natLit_eq]
      generalize 2 ^ (bits - 1) = B
      by_cases hd : (c :: r).all isDigit = true
      · simp only [hd, if_true, Option.some.injEq]
        by_cases hb : digitsVal (c :: r) < B
        · simp only [hb, if_true, Option.some.injEq]
          constructor
          · intro e; subst e; exact ⟨rfl, by omega, by omega⟩
          · intro e; exact e.1
        · simp only [hb, if_false]
          constructor
          · intro e; cases e
          · rintro ⟨e, _, h⟩; subst e; omega
      · simp [hd]

/-- `ParseUint` accepts exactly the integer literals without sign below `2^bits`. -/
theorem parseUint_intLit (bits : Nat) (s : GoString) (n : Nat) :
    parseUint bits s = some n ↔
      Spec.intLit s = some (n : Int) ∧ n < 2 ^ bits ∧ s.head? ≠ some 45 := by
  rw [parseUint_spec]
  cases s with
  | nil => simp [Spec.intLit]
  | cons c r =>
    by_cases h45 : c = 45
    · subst h45
      have : (45 :: r).all isDigit = false := by simp [isDigit]
      simp [this]
    · simp only [Spec.intLit, h45, if_false, all_isDigitByte_eq, natLit_eq, ne_eq, reduceCtorEq,
        not_false_eq_true, true_and, List.head?_cons, Option.some.injEq]
      by_cases hd : (c :: r).all isDigit = true
      · simp only [hd, if_true, Option.some.injEq, true_and]
        constructor
        · rintro ⟨e, h⟩; subst e; exact ⟨rfl, h, trivial⟩
        · rintro ⟨e, h, _⟩; exact ⟨by omega, h⟩
      · simp [hd]

/-! ### kinds -/

theorem Kind.int_cases (k : Kind) (h : k.isInt = true) :
    (k.isSigned = true ∧ k.isUnsigned = false) ∨ (k.isSigned = false ∧ k.isUnsigned = true) := by
  revert h; cases k <;> decide

theorem Kind.signed_range (k : Kind) (h : k.isSigned = true) :
    k.range? = some (-((2 ^ (k.bits - 1) : Nat) : Int), ((2 ^ (k.bits - 1) : Nat) : Int) - 1) := by
  revert h; cases k <;> simp [Kind.range?, Kind.bits, Kind.isSigned]

theorem Kind.unsigned_range (k : Kind) (h : k.isUnsigned = true) :
    k.range? = some (0, ((2 ^ k.bits : Nat) : Int) - 1) := by
  revert h; cases k <;> simp [Kind.range?, Kind.bits, Kind.isUnsigned]

theorem Kind.signed_ne (k : Kind) (h : k.isSigned = true) : k ≠ .string := by
  intro e; subst e; cases h

theorem Kind.unsigned_ne (k : Kind) (h : k.isUnsigned = true) : k ≠ .string ∧ k.isSigned = false := by
  revert h; cases k <;> simp [Kind.isSigned, Kind.isUnsigned]

theorem Kind.code_inj {k k' : Kind} (h : k.code = k'.code) : k = k' := by
  cases k <;> cases k' <;> first | rfl | (cases h)

theorem ofCode?_code (k : Kind) : Kind.ofCode? k.code = some k := by cases k <;> rfl

/-! ### `mkVal` and typing -/

theorem mkVal_hasAttrType (k : Kind) (n : Bool) (p : Pay) : (mkVal k n p).hasAttrType k n = k.payOk p := by
  cases n <;> simp [mkVal, GoVal.hasAttrType]

theorem zero_hasAttrType (k : Kind) (n : Bool) : (GoVal.zero k n).hasAttrType k n = true := by
  cases n <;> cases k <;> decide

theorem mkVal_ne_nil (k : Kind) (n : Bool) (p : Pay) : mkVal k n p ≠ .nil := by
  cases n <;> simp [mkVal]

theorem mkVal_inj {k : Kind} {n : Bool} {p q : Pay} (h : mkVal k n p = mkVal k n q) : p = q := by
  cases n <;> simpa [mkVal] using h

/-! ### `unmarshalToType` -/

theorem toType_no_panic (a : Attr) (raw : RawVal) : unmarshalToType a raw ≠ .panic := by
  unfold unmarshalToType
  repeat' split
  all_goals simp

theorem toType_null (a : Attr) (raw : RawVal) (h : raw.bytes = sNull) :
    unmarshalToType a raw = if a.nullable then .ok a.zero else .err := by
  unfold unmarshalToType; rw [if_pos h]

theorem toType_badKind (a : Attr) (raw : RawVal) (h : raw.bytes ≠ sNull) (hk : Kind.ofCode? a.ty = none) :
    unmarshalToType a raw = .err := by
  unfold unmarshalToType; rw [if_neg h, hk]

theorem toType_string (a : Attr) (raw : RawVal) (h : raw.bytes ≠ sNull) (hk : Kind.ofCode? a.ty = some .string) :
    unmarshalToType a raw =
      match raw.decStr with | some s => .ok (mkVal .string a.nullable (.s s)) | none => .err := by
  unfold unmarshalToType; rw [if_neg h, hk]; simp only [if_true]; rfl

theorem toType_signed (a : Attr) (raw : RawVal) (k : Kind) (h : raw.bytes ≠ sNull)
    (hk : Kind.ofCode? a.ty = some k) (hs : k.isSigned = true) :
    unmarshalToType a raw =
      match parseInt k.bits raw.bytes with | some n => .ok (mkVal k a.nullable (.i n)) | none => .err := by
  unfold unmarshalToType; rw [if_neg h, hk]
  simp only [Kind.signed_ne k hs, if_false, hs, if_true]
  rfl

theorem toType_unsigned (a : Attr) (raw : RawVal) (k : Kind) (h : raw.bytes ≠ sNull)
    (hk : Kind.ofCode? a.ty = some k) (hs : k.isUnsigned = true) :
    unmarshalToType a raw =
      match parseUint k.bits raw.bytes with | some n => .ok (mkVal k a.nullable (.i n)) | none => .err := by
  unfold unmarshalToType; rw [if_neg h, hk]
  simp only [(Kind.unsigned_ne k hs).1, if_false, (Kind.unsigned_ne k hs).2, hs, if_true, Bool.false_eq_true]
  rfl

theorem toType_bool (a : Attr) (raw : RawVal) (h : raw.bytes ≠ sNull) (hk : Kind.ofCode? a.ty = some .bool) :
    unmarshalToType a raw =
      if raw.bytes = sTrue then .ok (mkVal .bool a.nullable (.b true))
      else if raw.bytes = sFalse then .ok (mkVal .bool a.nullable (.b false)) else .err := by
  unfold unmarshalToType; rw [if_neg h, hk]; simp [Kind.isSigned, Kind.isUnsigned]

theorem toType_time (a : Attr) (raw : RawVal) (h : raw.bytes ≠ sNull) (hk : Kind.ofCode? a.ty = some .time) :
    unmarshalToType a raw =
      match raw.decTime with | some t => .ok (mkVal .time a.nullable (.t t)) | none => .err := by
  unfold unmarshalToType; rw [if_neg h, hk]; simp [Kind.isSigned, Kind.isUnsigned]
  rfl

theorem toType_bytes (a : Attr) (raw : RawVal) (h : raw.bytes ≠ sNull) (hk : Kind.ofCode? a.ty = some .bytes) :
    unmarshalToType a raw =
      if raw.bytes.head? ≠ some 34 then .err
      else match raw.decBytes with | some b => .ok (mkVal .bytes a.nullable (.bs b)) | none => .err := by
  unfold unmarshalToType; rw [if_neg h, hk]; simp [Kind.isSigned, Kind.isUnsigned]
  rfl

theorem payOk_signed (k : Kind) (hs : k.isSigned = true) {s : GoString} {n : Int}
    (h : parseInt k.bits s = some n) : k.payOk (.i n) = true := by
  have hr := Kind.signed_range k hs
  simp only [Kind.payOk, hr, decide_eq_true_eq]
  have := parseInt_range h
  omega

theorem payOk_unsigned (k : Kind) (hs : k.isUnsigned = true) {s : GoString} {n : Nat}
    (h : parseUint k.bits s = some n) : k.payOk (.i (n : Int)) = true := by
  have hr := Kind.unsigned_range k hs
  have := parseUint_lt h
  simp only [Kind.payOk, hr, decide_eq_true_eq]
  omega

/-- A value `unmarshalToType` returns has exactly the declared Go type (value in range). -/
theorem toType_hasAttrType (a : Attr) (raw : RawVal) (v : GoVal) (k : Kind)
    (h : unmarshalToType a raw = .ok v) (hk : Kind.ofCode? a.ty = some k) :
    v.hasAttrType k a.nullable = true := by
  by_cases hn : raw.bytes = sNull
  · rw [toType_null a raw hn] at h
    split at h
    · rename_i hnul
      cases h
      simp only [Attr.zero, hk, hnul]
      exact zero_hasAttrType k true
    · cases h
  · by_cases hs : k.isSigned = true
    · rw [toType_signed a raw k hn hk hs] at h
      split at h
      · rename_i n hp; cases h; rw [mkVal_hasAttrType]; exact payOk_signed k hs hp
      · cases h
    by_cases hu : k.isUnsigned = true
    · rw [toType_unsigned a raw k hn hk hu] at h
      split at h
      · rename_i n hp; cases h; rw [mkVal_hasAttrType]; exact payOk_unsigned k hu hp
      · cases h
    cases k
    case string =>
      rw [toType_string a raw hn hk] at h
      split at h
      · cases h; rw [mkVal_hasAttrType]; rfl
      · cases h
    case bool =>
      rw [toType_bool a raw hn hk] at h
      split at h
      · cases h; rw [mkVal_hasAttrType]; rfl
      · split at h
        · cases h; rw [mkVal_hasAttrType]; rfl
        · cases h
    case time =>
      rw [toType_time a raw hn hk] at h
      split at h
      · cases h; rw [mkVal_hasAttrType]; rfl
      · cases h
    case bytes =>
      rw [toType_bytes a raw hn hk] at h
      split at h
      · cases h
      · split at h
        · cases h; rw [mkVal_hasAttrType]; rfl
        · cases h
    all_goals first | exact absurd rfl hs | exact absurd rfl hu

/-! ### The relationship value -/

theorem relValue_absent (rel : Rel) (v : RelRaw) (h : v.present = false) : relValue rel v = (none, false) := by
  unfold relValue; simp [h]

theorem relValue_isSome (rel : Rel) (v : RelRaw) : (relValue rel v).1.isSome = v.present := by
  unfold relValue
  cases hp : v.present
  · simp
  · simp only [Bool.not_true, Bool.false_eq_true, if_false]
    split
    · split <;> rfl
    · split <;> rfl

/-- The value Set for a relationship has the Go type of its cardinality. -/
theorem relValue_typed (rel : Rel) (v : RelRaw) (x : GoVal) (h : (relValue rel v).1 = some x) :
    if rel.toOne then ∃ id, x = .val .string (.s id) else ∃ l, x = .strs l := by
  unfold relValue at h
  split at h
  · cases h
  · split at h
    · rename_i ho
      rw [if_pos ho]
      split at h
      · cases h; exact ⟨_, rfl⟩
      · cases h; exact ⟨_, rfl⟩
    · rename_i ho
      rw [if_neg ho]
      split at h
      · cases h; exact ⟨_, rfl⟩
      · cases h; exact ⟨_, rfl⟩

end UnmL
end Jsonapi
